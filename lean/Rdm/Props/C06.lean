/-
  C06 — ELECTRE III respects dominance, equality and listing order.  Property theorems only (over `Rat`);
  helper lemmas are in Rdm/Lemmas/Electre*.lean.  The float statement "times a power of two" is checked
  metamorphically on the real code (harness c06.go); the theorem here is for every factor `c ≠ 0`.
-/
import Rdm.Lemmas.ElectreCred
import Rdm.Lemmas.ElectreDominance
import Rdm.Lemmas.ElectrePermutation
import Mathlib.Tactic.NormNum
import Rdm.Lemmas.E2EMethods
import Rdm.Lemmas.E2EMethodsElectre
import Rdm.Lemmas.E2EMethodsExamples
namespace Rdm.Props.C06
open Rdm

/-- the guard of the property for every criterion in use -/
def Guard (crits : List (Crit Rat)) (ec : KMap (ECrit Rat)) : Prop :=
  ∀ c ∈ crits, ∀ t, ec.get? c.id = some t → Spec.C05.critInDomain t = true

theorem guardAll_of_guard {crits : List (Crit Rat)} {ec : KMap (ECrit Rat)} (hg : Guard crits ec) : GuardAll crits ec :=
  fun c hc t ht => critInDomain_guard t (hg c hc t ht)

/-! ### monotonicity (dominance) -/

/-- per criterion: concordance does not decrease and discordance does not increase when `a` gets better
    (signed value `c1 ≤ c1'`) -/
theorem partial_monotone_in_a (c1 c1' c2 mult mult' : Rat) (t : ECrit Rat) (h : Spec.C05.critInDomain t = true)
    (hle : c1 ≤ c1') :
    (calcElectreResult c1 c2 mult t).c ≤ (calcElectreResult c1' c2 mult' t).c ∧
    (calcElectreResult c1' c2 mult' t).d ≤ (calcElectreResult c1 c2 mult t).d :=
  (calc_betterRes t (critInDomain_guard t h).1 c1 c2 c1' c2 mult mult' (by linarith)).2

/-- per criterion: concordance does not increase and discordance does not decrease when `b` gets better -/
theorem partial_monotone_in_b (c1 c2 c2' mult mult' : Rat) (t : ECrit Rat) (h : Spec.C05.critInDomain t = true)
    (hle : c2 ≤ c2') :
    (calcElectreResult c1 c2' mult' t).c ≤ (calcElectreResult c1 c2 mult t).c ∧
    (calcElectreResult c1 c2 mult t).d ≤ (calcElectreResult c1 c2' mult' t).d :=
  (calc_betterRes t (critInDomain_guard t h).1 c1 c2' c1 c2 mult' mult (by linarith)).2

/-- total concordance is monotone in every per-criterion concordance (same positive weights) -/
theorem totalC_monotone (rs rs' : List (ESingle Rat))
    (h : List.Forall₂ (fun r r' : ESingle Rat => r.k = r'.k ∧ r.res.c ≤ r'.res.c) rs rs')
    (hk : ∀ r ∈ rs, 0 < r.k) : calculateTotalC rs ≤ calculateTotalC rs' :=
  totalC_mono rs rs' h hk

/-- credibility is monotone: larger concordance and smaller discordances give a larger credibility -/
theorem credibility_monotone (C C' : Rat) (hC0 : 0 ≤ C) (hCC : C ≤ C') (hC1 : C' ≤ 1)
    (rs rs' : List (ESingle Rat)) (h : List.Forall₂ BetterRes rs rs')
    (hd : ∀ r ∈ rs, r.res.d ≤ 1) (hd' : ∀ r ∈ rs', 0 ≤ r.res.d) :
    calculateCredibility C rs ≤ calculateCredibility C' rs' :=
  calculateCredibility_mono C C' hC0 hCC hC1 rs rs' h hd hd'

/-- dominance on the credibility matrix: if alternative `i'` is at least as good as `i` on every criterion then
    σ(i', i) = 1 and for every third alternative x: σ(i, x) ≤ σ(i', x) and σ(x, i') ≤ σ(x, i) -/
theorem credibility_matrix_dominance (alts : List (Alt Rat)) (crits : List (Crit Rat)) (hne : crits ≠ [])
    (ec : KMap (ECrit Rat)) (hg : Guard crits ec) (m : Matrix Rat)
    (h : credibilityMatrix alts crits ec = .ok m) (i i' : Nat) (hi : i < alts.length) (hi' : i' < alts.length)
    (hdom : Dominates crits alts[i'] alts[i]) :
    (i ≠ i' → m.at i' i = 1) ∧
    ∀ x, (hx : x < alts.length) → x ≠ i → x ≠ i' → m.at i x ≤ m.at i' x ∧ m.at x i' ≤ m.at x i :=
  credibilityMatrix_dominance alts crits hne ec (guardAll_of_guard hg) m h i i' hi hi' hdom

/-- identical alternatives (each at least as good as the other) have the same credibilities towards and from
    every third alternative, and σ = 1 between them -/
theorem credibility_matrix_identical (alts : List (Alt Rat)) (crits : List (Crit Rat)) (hne : crits ≠ [])
    (ec : KMap (ECrit Rat)) (hg : Guard crits ec) (m : Matrix Rat)
    (h : credibilityMatrix alts crits ec = .ok m) (i i' : Nat) (hi : i < alts.length) (hi' : i' < alts.length)
    (h1 : Dominates crits alts[i'] alts[i]) (h2 : Dominates crits alts[i] alts[i']) (hii : i ≠ i') :
    m.at i' i = 1 ∧ m.at i i' = 1 ∧
    ∀ x, (hx : x < alts.length) → x ≠ i → x ≠ i' → m.at i x = m.at i' x ∧ m.at x i' = m.at x i := by
  obtain ⟨a1, a2⟩ := credibilityMatrix_dominance alts crits hne ec (guardAll_of_guard hg) m h i i' hi hi' h1
  obtain ⟨b1, b2⟩ := credibilityMatrix_dominance alts crits hne ec (guardAll_of_guard hg) m h i' i hi' hi h2
  refine ⟨a1 hii, b1 (Ne.symm hii), fun x hx hxi hxi' => ?_⟩
  obtain ⟨p1, p2⟩ := a2 x hx hxi hxi'
  obtain ⟨q1, q2⟩ := b2 x hx hxi' hxi
  exact ⟨le_antisymm p1 q1, le_antisymm p2 q2⟩

/-- dominance for the declarative distillations of any credibility matrix: if `a` dominates `b` on `σ_m`
    (`DomSigma`: σ(a,x) ≥ σ(b,x), σ(x,a) ≤ σ(x,b) for every third x, σ(b,a) ≤ σ(a,b), `s ≥ 0` at σ(b,a), `s`
    non-increasing) then `asc a ≤ asc b` and `desc a ≤ desc b` -/
theorem dominance_spec_level (m : Matrix Rat) (s : LinFun Rat) (a b : Nat)
    (h : DomSigma (Spec.C05.sigmaOf m) s m.size a b) (ha : a < m.size) (hb : b < m.size) :
    (∀ asc, Spec.C05.specAscending m s = some asc → asc.getD a 0 ≤ asc.getD b 0) ∧
    (∀ desc, Spec.C05.specDescending m s = some desc → desc.getD a 0 ≤ desc.getD b 0) :=
  dom_spec_indices m h ha hb

/-- **dominance, end to end on the model**: if alternative `ia` is at least as good as alternative `ib` on every
    criterion (signed values), then in the answer of `ElectreIII` `ascendingIndex(ia) ≤ ascendingIndex(ib)`,
    `descendingIndex(ia) ≤ descendingIndex(ib)` and `ia` lists `ib` in `betterThanOrSameAs`.
    Domain: constant thresholds `0 ≤ q < p < v`, `k > 0`, in-domain distillation function. -/
theorem electreIII_respects_dominance (alts : List (Alt Rat)) (crits : List (Crit Rat)) (hne : crits ≠ [])
    (ec : KMap (ECrit Rat)) (hg : Guard crits ec) (dist : LinFun Rat) (hs : Spec.C05.distInDomain dist = true)
    (ia ib : Nat) (hia : ia < alts.length) (hib : ib < alts.length) (hab : ia ≠ ib)
    (hdom : Dominates crits alts[ia] alts[ib])
    (out : List (Linked (Int × Int))) (h : electreIII alts crits ec dist = .ok out) :
    ∃ (h1 : ia < out.length) (h2 : ib < out.length),
      out[ia].ev.1 ≤ out[ib].ev.1 ∧ out[ia].ev.2 ≤ out[ib].ev.2 ∧ alts[ib].id ∈ out[ia].links :=
  electreIII_dominance alts crits hne ec (guardAll_of_guard hg) dist hs ia ib hia hib hab hdom out h

/-- **identical alternatives**: two alternatives that are at least as good as each other on every criterion (in
    particular alternatives with identical criteria values) receive identical indices and list each other -/
theorem electreIII_identical_alternatives (alts : List (Alt Rat)) (crits : List (Crit Rat)) (hne : crits ≠ [])
    (ec : KMap (ECrit Rat)) (hg : Guard crits ec) (dist : LinFun Rat) (hs : Spec.C05.distInDomain dist = true)
    (ia ib : Nat) (hia : ia < alts.length) (hib : ib < alts.length) (hab : ia ≠ ib)
    (h1 : Dominates crits alts[ia] alts[ib]) (h2 : Dominates crits alts[ib] alts[ia])
    (out : List (Linked (Int × Int))) (h : electreIII alts crits ec dist = .ok out) :
    ∃ (ha : ia < out.length) (hb : ib < out.length),
      out[ia].ev = out[ib].ev ∧ alts[ib].id ∈ out[ia].links ∧ alts[ia].id ∈ out[ib].links := by
  obtain ⟨a1, a2, p1, p2, p3⟩ := electreIII_dominance alts crits hne ec (guardAll_of_guard hg) dist hs ia ib hia hib hab h1 out h
  obtain ⟨_, _, q1, q2, q3⟩ := electreIII_dominance alts crits hne ec (guardAll_of_guard hg) dist hs ib ia hib hia
    (Ne.symm hab) h2 out h
  exact ⟨a1, a2, Prod.ext (le_antisymm p1 q1) (le_antisymm p2 q2), p3, q3⟩

/-! ### listing order -/

/-- the declarative distillation does not depend on the order in which the current set is listed: a permuted
    list of alternatives gets the same class numbers -/
theorem distillation_order_independent (σ : Nat → Nat → Rat) (s : LinFun Rat) (pm : Bool) (fN fo : Nat)
    (A A' : List Nat) (h : A.Perm A') (k : Int) (asg : List (Nat × Int))
    (hd : Spec.C05.distill σ s pm fN fo A k = some asg) :
    ∃ asg', Spec.C05.distill σ s pm fN fo A' k = some asg' ∧ ∀ x, asg'.lookup x = asg.lookup x :=
  distill_perm pm fN fo h k asg hd

/-- equivariance of both distillations of the model: if `m'` is `m` with the alternatives listed in the order
    `π` (a permutation of `0..n-1`), then alternative `i` of `m'` has the indices of alternative `π i` of `m` -/
theorem rank_permutation_equivariant (m m' : Matrix Rat) (s : LinFun Rat) (π : Nat → Nat) (hπ : IsPerm m.size π)
    (hsz : m'.size = m.size) (hm : ∀ i j, i < m.size → j < m.size → m'.at i j = m.at (π i) (π j))
    (hlen : m.data.length = m.size * m.size) (hlen' : m'.data.length = m'.size * m'.size)
    (asc asc' desc desc' : List Int)
    (ha : rankAscending m s = .ok asc) (ha' : rankAscending m' s = .ok asc')
    (hd : rankDescending m s = .ok desc) (hd' : rankDescending m' s = .ok desc') :
    ∀ i, i < m.size → asc'.getD i 0 = asc.getD (π i) 0 ∧ desc'.getD i 0 = desc.getD (π i) 0 :=
  fun i hi => ⟨rank_equivariant m m' π hπ hsz hm hlen hlen' true asc asc' ha ha' i hi,
    rankDescending_equivariant m m' π hπ hsz hm hlen hlen' desc desc' hd hd' i hi⟩

/-- **listing order, end to end on the model**: if `alts'` lists the alternatives of `alts` in another order
    (`alts'[i] = alts[π i]`), the answer of `ElectreIII` carries the same pair of indices for every alternative.
    (With `links_characterisation` of C05 the `betterThanOrSameAs` sets then agree as well, being determined
    by the indices.)  No domain restriction is needed. -/
theorem electreIII_permutation_equivariant (alts alts' : List (Alt Rat)) (crits : List (Crit Rat))
    (ec : KMap (ECrit Rat)) (dist : LinFun Rat) (π : Nat → Nat) (hπ : IsPerm alts.length π)
    (hl : alts'.length = alts.length)
    (ha : ∀ i (hi : i < alts.length), alts'[i]'(by rw [hl]; exact hi) = alts[π i]'(hπ.lt i hi))
    (out out' : List (Linked (Int × Int)))
    (h : electreIII alts crits ec dist = .ok out) (h' : electreIII alts' crits ec dist = .ok out') :
    out.length = alts.length ∧ out'.length = alts.length ∧
    ∀ i (_ : i < alts.length) (h1 : i < out'.length) (h2 : π i < out.length), out'[i].ev = out[π i].ev :=
  electreIII_equivariant alts alts' crits ec dist π hπ hl ha out out' h h'

/-! ### scaling of the weights -/

/-- multiplying every weight `k` by the same `c ≠ 0` leaves total concordance and credibility unchanged -/
theorem weights_scaling_sigma (c : Rat) (hc : c ≠ 0) (a1 a2 : Alt Rat) (crits : List (Crit Rat)) (ec : KMap (ECrit Rat)) :
    electreCredibility a1 a2 crits (scaleWeights c ec) = electreCredibility a1 a2 crits ec :=
  electreCredibility_scale c hc a1 a2 crits ec

/-- … hence the whole answer of `ElectreIII` (both indices and all links) is unchanged -/
theorem weights_scaling_electreIII (c : Rat) (hc : c ≠ 0) (alts : List (Alt Rat)) (crits : List (Crit Rat))
    (ec : KMap (ECrit Rat)) (dist : LinFun Rat) :
    electreIII alts crits (scaleWeights c ec) dist = electreIII alts crits ec dist :=
  electreIII_scale c hc alts crits ec dist

/-! ### the hypotheses are satisfiable -/

example : Guard [⟨"c", "gain", none⟩] [("c", ⟨2, ⟨0, 1/2⟩, ⟨0, 1⟩, ⟨0, 3⟩⟩)] := by
  intro c hc t ht
  simp only [List.mem_singleton] at hc
  subst hc
  simp only [KMap.get?, List.lookup, beq_self_eq_true, Option.some.injEq] at ht
  subst ht
  simp [Spec.C05.critInDomain]; norm_num

example : IsPerm 3 (fun i => if i = 0 then 1 else if i = 1 then 0 else i) := by
  refine ⟨fun i j h => ?_, by decide⟩
  split_ifs at h <;> omega

example : Dominates [⟨"c", "cost", none⟩] ⟨"a", [("c", (1 : Rat))]⟩ ⟨"b", [("c", (2 : Rat))]⟩ := by
  intro c hc x y hx hy
  simp only [List.mem_singleton] at hc
  subst hc
  simp [Alt.signed, Alt.raw, KMap.get?, List.lookup, Crit.mult, bind, Except.bind, pure, Except.pure] at hx hy
  subst hx; subst hy
  norm_num

/-! ## end to end: whole requests (`decideWith` / `Rdm.decide`, Model/Decide.lean)

  `e2emElectreEntries resp.result` reads the response back as the list `ElectreIII` returned; entry i belongs to
  `choseToMake[i]`, i.e. to the i-th considered alternative of the state that reached `Evaluate` (`resp.final`).
  Helper lemmas: Rdm/Lemmas/E2EMethods*.lean. -/

/-- **dominance end to end, whatever biases ran**: if in the state that reached `Evaluate` the ia-th considered
    alternative is at least as good as the ib-th on every criterion of that state (hypotheses of
    `electreIII_respects_dominance` on `resp.final`: in-domain thresholds of the final ELECTRE criteria,
    in-domain distillation function — the request's one, see `C05.decideWith_electre_parameters`), then the
    response ranks `choseToMake[ia]` not below `choseToMake[ib]` in both distillations and the former lists the
    latter in `betterThanOrSameAs` -/
theorem decideWith_electre_respects_dominance (exp : Rat → Rat) (aspOrder : List (WCrit Rat) → List (WCrit Rat))
    (req : Request Rat) (g : Int → Draws Rat) (resp : Response Rat) (ec : KMap (ECrit Rat)) (dist : LinFun Rat)
    (h : decideWith exp aspOrder req g = .ok resp) (hfin : resp.final.mp = .electre ec dist)
    (hne : resp.final.crit ≠ []) (hg : Guard resp.final.crit ec) (hs : Spec.C05.distInDomain dist = true)
    (ia ib : Nat) (hia : ia < resp.final.co.length) (hib : ib < resp.final.co.length) (hab : ia ≠ ib)
    (hdom : Dominates resp.final.crit resp.final.co[ia] resp.final.co[ib]) :
    resp.final.co.map (·.id) = req.chosen ∧
    ∃ (h1 : ia < (e2emElectreEntries resp.result).length) (h2 : ib < (e2emElectreEntries resp.result).length),
      (e2emElectreEntries resp.result)[ia].id = resp.final.co[ia].id ∧
      (e2emElectreEntries resp.result)[ib].id = resp.final.co[ib].id ∧
      (e2emElectreEntries resp.result)[ia].ev.1 ≤ (e2emElectreEntries resp.result)[ib].ev.1 ∧
      (e2emElectreEntries resp.result)[ia].ev.2 ≤ (e2emElectreEntries resp.result)[ib].ev.2 ∧
      resp.final.co[ib].id ∈ (e2emElectreEntries resp.result)[ia].links := by
  obtain ⟨_, r, hr, hres⟩ := e2em_decideWith_electre_of_final h hfin
  have hent : e2emElectreEntries resp.result = r := by rw [hres, e2emElectreEntries_map]
  obtain ⟨_, hids, _⟩ := e2em_electreIII_shape hr
  obtain ⟨h1, h2, p1, p2, p3⟩ :=
    electreIII_respects_dominance resp.final.co resp.final.crit hne ec hg dist hs ia ib hia hib hab hdom r hr
  refine ⟨(e2em_decideWith_co h).1, ?_⟩
  simp only [hent]
  exact ⟨h1, h2, hids ia hia h1, hids ib hib h2, p1, p2, p3⟩

/-- **identical alternatives end to end**: two considered alternatives of the final state that are at least as
    good as each other on every criterion receive identical indices and list each other -/
theorem decideWith_electre_identical_alternatives (exp : Rat → Rat)
    (aspOrder : List (WCrit Rat) → List (WCrit Rat)) (req : Request Rat) (g : Int → Draws Rat)
    (resp : Response Rat) (ec : KMap (ECrit Rat)) (dist : LinFun Rat)
    (h : decideWith exp aspOrder req g = .ok resp) (hfin : resp.final.mp = .electre ec dist)
    (hne : resp.final.crit ≠ []) (hg : Guard resp.final.crit ec) (hs : Spec.C05.distInDomain dist = true)
    (ia ib : Nat) (hia : ia < resp.final.co.length) (hib : ib < resp.final.co.length) (hab : ia ≠ ib)
    (h1 : Dominates resp.final.crit resp.final.co[ia] resp.final.co[ib])
    (h2 : Dominates resp.final.crit resp.final.co[ib] resp.final.co[ia]) :
    ∃ (ha : ia < (e2emElectreEntries resp.result).length) (hb : ib < (e2emElectreEntries resp.result).length),
      (e2emElectreEntries resp.result)[ia].ev = (e2emElectreEntries resp.result)[ib].ev ∧
      resp.final.co[ib].id ∈ (e2emElectreEntries resp.result)[ia].links ∧
      resp.final.co[ia].id ∈ (e2emElectreEntries resp.result)[ib].links := by
  obtain ⟨_, a1, a2, _, _, p1, p2, p3⟩ :=
    decideWith_electre_respects_dominance exp aspOrder req g resp ec dist h hfin hne hg hs ia ib hia hib hab h1
  obtain ⟨_, _, _, _, _, q1, q2, q3⟩ :=
    decideWith_electre_respects_dominance exp aspOrder req g resp ec dist h hfin hne hg hs ib ia hib hia
      (Ne.symm hab) h2
  exact ⟨a1, a2, Prod.ext (le_antisymm p1 q1) (le_antisymm p2 q2), p3, q3⟩

/-- **dominance stated on the REQUEST, for requests without an enabled bias**: if known alternative `a` is at
    least as good as known alternative `b` on every criterion of the request, `choseToMake` names them at the
    positions `ia ≠ ib` (known ids pairwise different), the request's ELECTRE criteria and distillation function
    are in the domain, then the response ranks a not below b in both distillations and a lists b -/
theorem decideWith_no_bias_electre_respects_dominance (exp : Rat → Rat)
    (aspOrder : List (WCrit Rat) → List (WCrit Rat)) (req : Request Rat) (g : Int → Draws Rat)
    (resp : Response Rat) (ec : KMap (ECrit Rat)) (dist : LinFun Rat)
    (h : decideWith exp aspOrder req g = .ok resp) (hb : ∀ b ∈ req.biases, b.disabled = true)
    (hmp : req.mp = some (.electre ec dist)) (hne : req.crit ≠ []) (hg : Guard req.crit ec)
    (hs : Spec.C05.distInDomain dist = true) (hk : (req.known.map (·.id)).Nodup)
    (a b : Alt Rat) (ha : a ∈ req.known) (hbk : b ∈ req.known)
    (ia ib : Nat) (hia : ia < req.chosen.length) (hib : ib < req.chosen.length) (hab : ia ≠ ib)
    (hca : req.chosen[ia] = a.id) (hcb : req.chosen[ib] = b.id) (hdom : Dominates req.crit a b) :
    ∃ (h1 : ia < (e2emElectreEntries resp.result).length) (h2 : ib < (e2emElectreEntries resp.result).length),
      (e2emElectreEntries resp.result)[ia].id = a.id ∧ (e2emElectreEntries resp.result)[ib].id = b.id ∧
      (e2emElectreEntries resp.result)[ia].ev.1 ≤ (e2emElectreEntries resp.result)[ib].ev.1 ∧
      (e2emElectreEntries resp.result)[ia].ev.2 ≤ (e2emElectreEntries resp.result)[ib].ev.2 ∧
      b.id ∈ (e2emElectreEntries resp.result)[ia].links := by
  obtain ⟨mp, hmp', hpp, hcrit, hfmp, _⟩ := e2em_no_bias_final h hb
  rw [hmp] at hmp'; cases hmp'
  obtain ⟨hia', ea⟩ := e2em_prepareParams_getElem_eq hpp hk ia hia a ha hca
  obtain ⟨hib', eb⟩ := e2em_prepareParams_getElem_eq hpp hk ib hib b hbk hcb
  obtain ⟨_, h1, h2, i1, i2, p1, p2, p3⟩ :=
    decideWith_electre_respects_dominance exp aspOrder req g resp ec dist h hfmp (by rw [hcrit]; exact hne)
      (by rw [hcrit]; exact hg) hs ia ib hia' hib' hab (by rw [hcrit, ea, eb]; exact hdom)
  rw [ea] at i1
  rw [eb] at i2 p3
  exact ⟨h1, h2, i1, i2, p1, p2, p3⟩

/-- **identical alternatives stated on the request** (no enabled bias): known alternatives that are at least as
    good as each other on every criterion — in particular alternatives with identical criteria values —
    receive identical indices and list each other -/
theorem decideWith_no_bias_electre_identical_alternatives (exp : Rat → Rat)
    (aspOrder : List (WCrit Rat) → List (WCrit Rat)) (req : Request Rat) (g : Int → Draws Rat)
    (resp : Response Rat) (ec : KMap (ECrit Rat)) (dist : LinFun Rat)
    (h : decideWith exp aspOrder req g = .ok resp) (hb : ∀ b ∈ req.biases, b.disabled = true)
    (hmp : req.mp = some (.electre ec dist)) (hne : req.crit ≠ []) (hg : Guard req.crit ec)
    (hs : Spec.C05.distInDomain dist = true) (hk : (req.known.map (·.id)).Nodup)
    (a b : Alt Rat) (ha : a ∈ req.known) (hbk : b ∈ req.known)
    (ia ib : Nat) (hia : ia < req.chosen.length) (hib : ib < req.chosen.length) (hab : ia ≠ ib)
    (hca : req.chosen[ia] = a.id) (hcb : req.chosen[ib] = b.id)
    (h1 : Dominates req.crit a b) (h2 : Dominates req.crit b a) :
    ∃ (ha' : ia < (e2emElectreEntries resp.result).length) (hb' : ib < (e2emElectreEntries resp.result).length),
      (e2emElectreEntries resp.result)[ia].ev = (e2emElectreEntries resp.result)[ib].ev ∧
      b.id ∈ (e2emElectreEntries resp.result)[ia].links ∧ a.id ∈ (e2emElectreEntries resp.result)[ib].links := by
  obtain ⟨a1, a2, _, _, p1, p2, p3⟩ :=
    decideWith_no_bias_electre_respects_dominance exp aspOrder req g resp ec dist h hb hmp hne hg hs hk a b ha hbk
      ia ib hia hib hab hca hcb h1
  obtain ⟨_, _, _, _, q1, q2, q3⟩ :=
    decideWith_no_bias_electre_respects_dominance exp aspOrder req g resp ec dist h hb hmp hne hg hs hk b a hbk ha
      ib ia hib hia (Ne.symm hab) hcb hca h2
  exact ⟨a1, a2, Prod.ext (le_antisymm p1 q1) (le_antisymm p2 q2), p3, q3⟩

/-- **listing order, end to end** (requests without an enabled bias): if `req'` lists the same known
    alternatives (pairwise different ids) in another order and names in `choseToMake` the alternatives of `req`
    in the order `π` (`req'.chosen[i] = req.chosen[π i]`), same criteria and ELECTRE parameters, then entry i of
    the second response is entry `π i` of the first: same alternative, same pair of indices, the same
    `betterThanOrSameAs` set — whatever the stream functions.  No domain restriction.
    (With enabled biases a reordered request is a different experiment: the biases consume their random
    streams in list order; the statement then holds for the method stage, `electreIII_permutation_equivariant`
    applied to `C05.decideWith_electre_result_is_electreIII`.) -/
theorem decideWith_no_bias_electre_permutation_equivariant (exp exp' : Rat → Rat)
    (aspOrder aspOrder' : List (WCrit Rat) → List (WCrit Rat)) (req req' : Request Rat)
    (g g' : Int → Draws Rat) (resp resp' : Response Rat) (ec : KMap (ECrit Rat)) (dist : LinFun Rat)
    (π : Nat → Nat)
    (hmp : req.mp = some (.electre ec dist)) (hmp' : req'.mp = some (.electre ec dist))
    (hcrit : req'.crit = req.crit)
    (hb : ∀ b ∈ req.biases, b.disabled = true) (hb' : ∀ b ∈ req'.biases, b.disabled = true)
    (hk : req'.known.Perm req.known) (hnd : (req.known.map (·.id)).Nodup)
    (hπ : IsPerm req.chosen.length π) (hl : req'.chosen.length = req.chosen.length)
    (hc : ∀ i (hi : i < req.chosen.length), req'.chosen[i]'(by rw [hl]; exact hi) = req.chosen[π i]'(hπ.lt i hi))
    (h : decideWith exp aspOrder req g = .ok resp) (h' : decideWith exp' aspOrder' req' g' = .ok resp') :
    (e2emElectreEntries resp.result).length = req.chosen.length ∧
    (e2emElectreEntries resp'.result).length = req.chosen.length ∧
    ∀ i (_ : i < req.chosen.length) (h1 : i < (e2emElectreEntries resp'.result).length)
        (h2 : π i < (e2emElectreEntries resp.result).length),
      (e2emElectreEntries resp'.result)[i].id = (e2emElectreEntries resp.result)[π i].id ∧
      (e2emElectreEntries resp'.result)[i].ev = (e2emElectreEntries resp.result)[π i].ev ∧
      ∀ b, b ∈ (e2emElectreEntries resp'.result)[i].links ↔ b ∈ (e2emElectreEntries resp.result)[π i].links := by
  obtain ⟨mp, hm, hpp, hcr, hfmp, _⟩ := e2em_no_bias_final h hb
  obtain ⟨mp', hm', hpp', hcr', hfmp', _⟩ := e2em_no_bias_final h' hb'
  rw [hmp] at hm; cases hm
  rw [hmp'] at hm'; cases hm'
  obtain ⟨_, r, hr, hres⟩ := e2em_decideWith_electre_of_final h hfmp
  obtain ⟨_, r', hr', hres'⟩ := e2em_decideWith_electre_of_final h' hfmp'
  have hent : e2emElectreEntries resp.result = r := by rw [hres, e2emElectreEntries_map]
  have hent' : e2emElectreEntries resp'.result = r' := by rw [hres', e2emElectreEntries_map]
  obtain ⟨l1, l2, hco⟩ := e2em_prepareParams_permuted hk hnd π hπ.lt hl hc hpp hpp'
  rw [hcr', hcrit, ← hcr] at hr'
  have hπ' : IsPerm resp.final.co.length π := by rw [l1]; exact hπ
  obtain ⟨e1, e2, e3⟩ := electreIII_permutation_equivariant resp.final.co resp'.final.co resp.final.crit ec dist π
    hπ' (by rw [l1, l2]) (fun i hi => hco i (by rw [← l1]; exact hi) _ _) r r' hr hr'
  obtain ⟨_, hids, hlk⟩ := e2em_electreIII_shape hr
  obtain ⟨_, hids', hlk'⟩ := e2em_electreIII_shape hr'
  rw [l1] at e1 e2
  have hev : ∀ i (_ : i < req.chosen.length) (h1 : i < r'.length) (h2 : π i < r.length),
      r'[i].ev = r[π i].ev ∧ r'[i].id = r[π i].id := by
    intro i hi h1 h2
    refine ⟨e3 i (by rw [l1]; exact hi) h1 h2, ?_⟩
    rw [hids' i (by rw [l2]; exact hi) h1, hids (π i) (by rw [l1]; exact hπ.lt i hi) h2,
      hco i hi (by rw [l2]; exact hi) (by rw [l1]; exact hπ.lt i hi)]
  simp only [hent, hent']
  refine ⟨e1, e2, fun i hi h1 h2 => ⟨(hev i hi h1 h2).2, (hev i hi h1 h2).1, ?_⟩⟩
  exact e2em_links_equivariant hπ e1 e2 hlk hlk' hev i hi h1 h2

/-- **scaling of the weights, end to end** (requests without an enabled bias): multiplying every weight `k` of the
    request's ELECTRE criteria by the same `c ≠ 0` leaves the whole `result` unchanged -/
theorem decideWith_no_bias_electre_weights_scaling (c : Rat) (hc : c ≠ 0) (exp exp' : Rat → Rat)
    (aspOrder aspOrder' : List (WCrit Rat) → List (WCrit Rat)) (req req' : Request Rat)
    (g g' : Int → Draws Rat) (resp resp' : Response Rat) (ec : KMap (ECrit Rat)) (dist : LinFun Rat)
    (hmp : req.mp = some (.electre ec dist)) (hmp' : req'.mp = some (.electre (scaleWeights c ec) dist))
    (hcrit : req'.crit = req.crit) (hkn : req'.known = req.known) (hch : req'.chosen = req.chosen)
    (hb : ∀ b ∈ req.biases, b.disabled = true) (hb' : ∀ b ∈ req'.biases, b.disabled = true)
    (h : decideWith exp aspOrder req g = .ok resp) (h' : decideWith exp' aspOrder' req' g' = .ok resp') :
    resp'.result = resp.result := by
  obtain ⟨mp, hm, hpp, hcr, hfmp, _⟩ := e2em_no_bias_final h hb
  obtain ⟨mp', hm', hpp', hcr', hfmp', _⟩ := e2em_no_bias_final h' hb'
  rw [hmp] at hm; cases hm
  rw [hmp'] at hm'; cases hm'
  obtain ⟨_, r, hr, hres⟩ := e2em_decideWith_electre_of_final h hfmp
  obtain ⟨_, r', hr', hres'⟩ := e2em_decideWith_electre_of_final h' hfmp'
  have hco : resp'.final.co = resp.final.co := by
    unfold prepareParams at hpp hpp'
    obtain ⟨co, hco, hpp⟩ := bind_eq_ok.mp hpp
    obtain ⟨co', hco', hpp'⟩ := bind_eq_ok.mp hpp'
    simp only [pure, Except.pure, Except.ok.injEq] at hpp hpp'
    rw [hkn, hch, hco] at hco'
    simp only [Except.ok.injEq] at hco'
    rw [← hpp, ← hpp', hco']
  rw [hco, hcr', hcrit, ← hcr, weights_scaling_electreIII c hc, hr] at hr'
  simp only [Except.ok.injEq] at hr'
  rw [hres, hres', hr']

/-- the hypotheses of the bias-free theorems are satisfiable: in `e2emExElectrePlain` (no enabled bias) alternatives
    `"b"` and `"c"` have identical values and both dominate `"a"`; thresholds and distillation function in domain -/
example : ∃ resp, Rdm.decide id e2emExElectrePlain e2eExSeeds = .ok resp ∧
    ∃ (h0 : 0 < (e2emElectreEntries resp.result).length) (h1 : 1 < (e2emElectreEntries resp.result).length)
      (h2 : 2 < (e2emElectreEntries resp.result).length),
      -- "c" (position 0) dominates "a" (position 1)
      (e2emElectreEntries resp.result)[0].ev.1 ≤ (e2emElectreEntries resp.result)[1].ev.1 ∧
      (e2emElectreEntries resp.result)[0].ev.2 ≤ (e2emElectreEntries resp.result)[1].ev.2 ∧
      "a" ∈ (e2emElectreEntries resp.result)[0].links ∧
      -- "c" (position 0) and "b" (position 2) are identical
      (e2emElectreEntries resp.result)[0].ev = (e2emElectreEntries resp.result)[2].ev := by
  obtain ⟨resp, h⟩ := e2e_ok_of_isOk (x := Rdm.decide id e2emExElectrePlain e2eExSeeds) (by decide +kernel)
  have hg : Guard e2emExElectrePlain.crit e2emExEc := e2em_guardB (by decide +kernel)
  have hs : Spec.C05.distInDomain (defaultDistillation : LinFun Rat) = true := by decide +kernel
  obtain ⟨h0, h1, _, _, p1, p2, p3⟩ := decideWith_no_bias_electre_respects_dominance id _ _ _ resp e2emExEc _ h
    (by decide) rfl (by decide) hg hs (by decide)
    ⟨"c", [("c0", 3), ("c1", 1)]⟩ ⟨"a", [("c0", 1), ("c1", 2)]⟩ (.tail _ (.tail _ (.head _))) (.head _)
    0 1 (by decide) (by decide) (by decide) rfl rfl (e2em_dominatesB (by decide +kernel))
  obtain ⟨_, h2, q1, _, _⟩ := decideWith_no_bias_electre_identical_alternatives id _ _ _ resp e2emExEc _ h
    (by decide) rfl (by decide) hg hs (by decide)
    ⟨"c", [("c0", 3), ("c1", 1)]⟩ ⟨"b", [("c0", 3), ("c1", 1)]⟩ (.tail _ (.tail _ (.head _))) (.tail _ (.head _))
    0 2 (by decide) (by decide) (by decide) rfl rfl (e2em_dominatesB (by decide +kernel))
    (e2em_dominatesB (by decide +kernel))
  exact ⟨resp, h, h0, h1, h2, p1, p2, p3, q1⟩

/-- … of `decideWith_no_bias_electre_permutation_equivariant`: the same request with the known alternatives
    reversed and `choseToMake` = ["a","b","c"] instead of ["c","a","b"] (π = 0↦1, 1↦2, 2↦0), read with
    another seed table -/
example : IsPerm 3 (fun i => if i = 0 then 1 else if i = 1 then 2 else if i = 2 then 0 else i) := by
  refine ⟨fun i j h => ?_, by decide⟩
  split_ifs at h <;> omega

example : ∃ resp resp', Rdm.decide id e2emExElectrePlain e2eExSeeds = .ok resp ∧
    Rdm.decide id e2emExElectrePlain' [] = .ok resp' ∧
    ∀ (h1 : 0 < (e2emElectreEntries resp'.result).length) (h2 : 1 < (e2emElectreEntries resp.result).length),
      (e2emElectreEntries resp'.result)[0].id = (e2emElectreEntries resp.result)[1].id ∧
      (e2emElectreEntries resp'.result)[0].ev = (e2emElectreEntries resp.result)[1].ev := by
  obtain ⟨resp, h⟩ := e2e_ok_of_isOk (x := Rdm.decide id e2emExElectrePlain e2eExSeeds) (by decide +kernel)
  obtain ⟨resp', h'⟩ := e2e_ok_of_isOk (x := Rdm.decide id e2emExElectrePlain' []) (by decide +kernel)
  refine ⟨resp, resp', h, h', ?_⟩
  have hπ : IsPerm e2emExElectrePlain.chosen.length
      (fun i => if i = 0 then 1 else if i = 1 then 2 else if i = 2 then 0 else i) := by
    refine ⟨fun i j h => ?_, by decide⟩
    split_ifs at h <;> omega
  obtain ⟨_, _, key⟩ := decideWith_no_bias_electre_permutation_equivariant id id sortCriteriaDesc sortCriteriaDesc
    e2emExElectrePlain e2emExElectrePlain' (genOf e2eExSeeds) (genOf []) resp resp' e2emExEc defaultDistillation
    _ rfl rfl rfl (by decide) (by decide) (List.reverse_perm _) (by decide) hπ rfl
    (by intro i hi
        have : i = 0 ∨ i = 1 ∨ i = 2 := by
          have : i < 3 := hi
          omega
        rcases this with rfl | rfl | rfl <;> rfl) h h'
  intro h1 h2
  obtain ⟨k1, k2, _⟩ := key 0 (by decide) h1 h2
  exact ⟨k1, k2⟩

/-- the hypotheses of `decideWith_electre_respects_dominance` (on the FINAL state of a request with biases: a
    fatigue fired and rewrote every value) are satisfiable — as a computation on the model's own answer: the
    final criteria are non-empty and in the domain, and considered alternative 0 still dominates alternative 1 -/
example : (match Rdm.decide id e2emExElectre e2eExSeeds with
    | .ok resp => (match resp.final.mp, resp.final.co with
        | .electre ec dist, [c, a, _] =>
          e2emGuardB resp.final.crit ec && !resp.final.crit.isEmpty && Spec.C05.distInDomain dist &&
            e2emDominatesB resp.final.crit c a
        | _, _ => false)
    | .error _ => false) = true := by decide +kernel

/-- the constants and names this property depends on were re-read from the working tree on this run
    (none fell back to its pinned value because its declaration could not be located) -/
theorem facts_fresh : (Rdm.Facts.staleFacts.all fun n => !["defaultDistillationA", "defaultDistillationB", "methodElectre"].contains n) = true := by decide

end Rdm.Props.C06
