/- C07 — property theorems (stub; filled in by the owning work package). -/
import Rdm.Basic
namespace Rdm.Props.C07
end Rdm.Props.C07
