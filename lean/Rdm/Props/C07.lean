/-
  C07 — biases compose with every method and keep the working data coherent.
  (Listener-level theorems; the per-bias preservation theorems are in C15–C19.)
-/
import Rdm.Model.Listener
import Rdm.Spec.C07
namespace Rdm.Props.C07
open Rdm

/-- Known finding, machine-checked on the model (= the code, by correspondence): the OWA listener can
    never merge what its own `OnCriterionAdded` returns — `Merge` fails for every addition. -/
theorem owa_merge_always_fails {α : Type} [Num α] (wc : List (WCrit α)) (add : Addition α) :
    ∃ e, mergeParams (.owa wc) add = .error e := by
  cases add <;> exact ⟨_, rfl⟩

end Rdm.Props.C07
