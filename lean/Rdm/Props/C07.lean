/-
  C07 — biases compose with every method and keep the working data coherent.

  Theorems about the end-to-end model `Model/Decide.lean` (`decide` = the whole `MakeDecision`, tied to the
  real code on whole requests by the `decide` correspondence stage of harness/main/c07e2e.go):
    * C02a on the composition: the model reads the random streams only at the seeds the request names;
    * frame over any bias list: alternatives and their considered / not-considered split never change,
      criteria disappear or appear only as the bias reports say;
    * the listener seams that make additions fail for OWA and Choquet (registered findings).
  The per-bias theorems are in C15–C19; helper lemmas in Lemmas/Decide*.lean.
-/
import Rdm.Model.Listener
import Rdm.Spec.C07
import Rdm.Lemmas.DecideFrame
import Rdm.Lemmas.DecideCoherent
import Rdm.Lemmas.DecideChoquet
import Rdm.Lemmas.DecideTotal
import Rdm.Lemmas.DecideValues
import Rdm.Props.C15
namespace Rdm.Props.C07
open Rdm
variable {α : Type} [Num α]

/-! ## the listener seams (known findings) -/

/-- Known finding, machine-checked on the model (= the code, by correspondence): the OWA listener can
    never merge what its own `OnCriterionAdded` returns — `Merge` fails for every addition. -/
theorem owa_merge_always_fails {α : Type} [Num α] (wc : List (WCrit α)) (add : Addition α) :
    ∃ e, mergeParams (.owa wc) add = .error e := by
  cases add <;> exact ⟨_, rfl⟩

/-- Known finding, machine-checked: the Choquet analogue.  `OnCriterionAdded` of the Choquet listener copies
    the capacity of every subset of the OLD criteria into its result, `Merge` refuses keys both sides have, so
    — as soon as there is one criterion — `Merge` fails on everything `OnCriterionAdded` returns.  (With no
    criterion left the addition goes through: the only way a Choquet request survives an adding bias.) -/
theorem choquet_merge_always_fails {α : Type} [Num α] {w : KMap α} {c₀ : Crit α} {rest : List (Crit α)}
    {crit ref : Crit α} {d d' : Draws α} {add : Addition α}
    (h : onAdded (.choquet w (c₀ :: rest)) crit ref d = .ok (add, d')) :
    ∃ e, mergeParams (.choquet w (c₀ :: rest)) add = .error e :=
  decideChoquet_merge_fails h

/-- … and what the other five listeners return is mergeable in the sense that matters for coherence: the
    addition parameterises exactly the new criterion, and merging it into parameters that cover the criteria
    yields parameters that cover the criteria and the new one. -/
theorem addition_is_merged_for_the_five_other_methods {mp₀ mp mp' : MParams α} {crit : List (Crit α)}
    {newC ref : Crit α} {g g' : Draws α} {add : Addition α}
    (hadd : onAdded mp₀ newC ref g = .ok (add, g')) (hm : mergeParams mp add = .ok mp')
    (hadm : admitsAdditions mp = true) (hcov : Spec.C07.covers crit mp = true) :
    Spec.C07.covers (crit ++ [newC]) mp' = true :=
  decideMerge_covers (decideOnAdded_for hadd) hm hadm hcov

/-! ## C02a: the composition reads the streams only at the seeds the request names -/

/-- Everything of `MakeDecision` before `Evaluate` (validation, `ChooseBiases`, `processBiases` through all
    six biases) reads the random streams only at `biasApplyRandomSeed` and at the seeds in the biases' props
    (`randomSeed`, `newCriterionRandomSeed`, anchoring applier `randomSeed + i`). -/
theorem pipeline_reads_only_request_seeds (exp : α → α) (req : Request α) (g₁ g₂ : Int → Draws α)
    (h : ∀ k ∈ req.seeds, g₁ k = g₂ k) : pipeline exp req g₁ = pipeline exp req g₂ :=
  decidePipeline_congr exp req h

/-- `Evaluate` reads the streams only at the `randomSeed` of the method parameters it is handed. -/
theorem evaluate_reads_only_method_seed (g₁ g₂ : Int → Draws α) (d : DMP α)
    (h : ∀ k ∈ d.mp.seed.toList, g₁ k = g₂ k) : evaluate g₁ d = evaluate g₂ d :=
  decideEvaluate_congr _ d h

/-- No sequence of biases changes the `randomSeed` of the method's parameters: the seed `Evaluate` uses
    after the pipeline is the one of the request. -/
theorem pipeline_keeps_method_seed {exp : α → α} {req : Request α} {g : Int → Draws α} {fin : DMP α}
    {outs : List (BiasOut α (Report α))} (h : pipeline exp req g = .ok (fin, outs)) :
    ∃ mp, req.mp = some mp ∧ fin.mp.seed = mp.seed := by
  unfold pipeline at h
  obtain ⟨⟨params, chosen⟩, hp, h⟩ := bind_eq_ok.mp h
  obtain ⟨_, mp, hmp, hpp, _⟩ := decidePrepare_ok hp
  refine ⟨mp, hmp, ?_⟩
  have := decideLoop_seed chosen params fin _ outs h
  rw [this]
  unfold prepareParams at hpp
  obtain ⟨co, _, hpp⟩ := bind_eq_ok.mp hpp
  simp only [pure, Except.pure, Except.ok.injEq] at hpp
  subst hpp
  rfl

/-- **C02a for the whole decision**: if two stream functions agree on every seed the request names
    (`biasApplyRandomSeed`, each bias's `randomSeed` / `newCriterionRandomSeed` / anchoring `randomSeed + i`,
    the method's `randomSeed`) then `MakeDecision` gives the same result — accepted with the same response or
    rejected alike. -/
theorem decideWith_reads_only_request_seeds (exp : α → α) (o : List (WCrit α) → List (WCrit α))
    (req : Request α) (g₁ g₂ : Int → Draws α) (h : ∀ k ∈ req.seeds, g₁ k = g₂ k) :
    decideWith exp o req g₁ = decideWith exp o req g₂ := by
  unfold decideWith
  rw [decidePipeline_congr exp req h]
  apply decideBind_congr
  intro r hr
  obtain ⟨fin, outs⟩ := r
  obtain ⟨mp, hmp, hseed⟩ := pipeline_keeps_method_seed hr
  dsimp only
  have : evaluateWith o g₁ fin = evaluateWith o g₂ fin := by
    apply decideEvaluate_congr
    intro k hk
    apply h
    rw [hseed] at hk
    unfold Request.seeds
    rw [hmp]
    simp only [List.mem_append, List.mem_cons]
    exact Or.inr hk
  rw [this]

/-- the same for seed tables: two tables that give the same stream for every seed of the request -/
theorem decide_reads_only_request_seeds (exp : α → α) (req : Request α) (s₁ s₂ : Seeds α)
    (h : ∀ k ∈ req.seeds, genOf s₁ k = genOf s₂ k) : Rdm.decide exp req s₁ = Rdm.decide exp req s₂ :=
  decideWith_reads_only_request_seeds exp _ req _ _ h

/-! ## frame over a whole bias sequence -/

/-- The alternatives and their considered / not-considered split never change: after any sequence of biases
    the state handed to the method has the same considered ids and the same not-considered ids, in the
    same order, as the state built from the request. -/
theorem pipeline_keeps_alternatives_and_split {exp : α → α} {req : Request α} {g : Int → Draws α}
    {fin : DMP α} {outs : List (BiasOut α (Report α))} (h : pipeline exp req g = .ok (fin, outs)) :
    fin.co.map (·.id) = req.chosen ∧
    fin.nc.map (·.id) = (req.known.filter fun a => !req.chosen.contains a.id).map (·.id) := by
  unfold pipeline at h
  obtain ⟨⟨params, chosen⟩, hp, h⟩ := bind_eq_ok.mp h
  obtain ⟨_, mp, _, hpp, _⟩ := decidePrepare_ok hp
  obtain ⟨e1, e2⟩ := decideLoop_ids chosen params fin _ outs h
  unfold prepareParams at hpp
  obtain ⟨co, hco, hpp⟩ := bind_eq_ok.mp hpp
  simp only [pure, Except.pure, Except.ok.injEq] at hpp
  subst hpp
  refine ⟨?_, e2⟩
  rw [e1]
  -- the considered alternatives are fetched by id, in the order of `choseToMake`
  obtain ⟨hl, hpz⟩ := mapM_ok hco
  apply List.ext_getElem (by simp [hl])
  intro i h1 h2
  simp only [List.getElem_map]
  have hi : i < req.chosen.length := h2
  have hi' : i < co.length := by simpa using h1
  have hz : (req.chosen[i], co[i]) ∈ req.chosen.zip co := by
    rw [List.mem_iff_getElem]; exact ⟨i, by simp only [List.length_zip]; omega, by simp⟩
  have := (fetchAlt_ok (hpz _ hz)).2
  simpa using this

/-- the same for one step, for every bias: ids and split are kept -/
theorem every_bias_keeps_alternatives_and_split {exp : α → α} {g : Int → Draws α} {name : String}
    {p : BProps α} {orig cur res : DMP α} {rep : Report α}
    (h : applyBias exp g name p orig cur = .ok (res, rep)) :
    res.co.map (·.id) = cur.co.map (·.id) ∧ res.nc.map (·.id) = cur.nc.map (·.id) :=
  decideApplyBias_ids h

/-- Criteria disappear or appear only as the bias reports them (one step): the criteria the report names as
    omitted followed by the new criteria are a permutation of the old criteria followed by the criteria the
    report names as added. -/
theorem every_bias_changes_criteria_as_reported {exp : α → α} {g : Int → Draws α} {name : String}
    {p : BProps α} {orig cur res : DMP α} {rep : Report α}
    (h : applyBias exp g name p orig cur = .ok (res, rep)) :
    (rep.omittedIds ++ res.crit.map (·.id)).Perm (cur.crit.map (·.id) ++ rep.addedIds) :=
  decideApplyBias_crit h

/-- … and over the whole sequence: criteria after the pipeline = criteria of the request − everything the
    response's bias reports name as omitted + everything they name as added. -/
theorem pipeline_changes_criteria_as_reported {exp : α → α} {req : Request α} {g : Int → Draws α}
    {fin : DMP α} {outs : List (BiasOut α (Report α))} (h : pipeline exp req g = .ok (fin, outs)) :
    (outsOmitted outs ++ fin.crit.map (·.id)).Perm (req.crit.map (·.id) ++ outsAdded outs) := by
  unfold pipeline at h
  obtain ⟨⟨params, chosen⟩, hp, h⟩ := bind_eq_ok.mp h
  obtain ⟨_, mp, _, hpp, _⟩ := decidePrepare_ok hp
  have := decideLoop_crit chosen params fin _ outs h
  unfold prepareParams at hpp
  obtain ⟨co, _, hpp⟩ := bind_eq_ok.mp hpp
  simp only [pure, Except.pure, Except.ok.injEq] at hpp
  subst hpp
  exact this

/-- the response's biases list has one entry per enabled bias of the request, names and probabilities echoed -/
theorem response_lists_every_enabled_bias {exp : α → α} {req : Request α} {g : Int → Draws α}
    {fin : DMP α} {outs : List (BiasOut α (Report α))} (h : pipeline exp req g = .ok (fin, outs)) :
    outs.map (·.name) = (req.biases.filter (!·.disabled)).map (·.name) := by
  unfold pipeline at h
  obtain ⟨⟨params, chosen⟩, hp, h⟩ := bind_eq_ok.mp h
  obtain ⟨_, mp, _, _, hch⟩ := decidePrepare_ok hp
  dsimp only at h
  have h1 : outs.map (·.name) = chosen.map (·.name) := decideLoop_names chosen params params fin _ outs h
  rw [h1]
  exact decideChoose_names hch

/-! ## coherence (`Spec.C07.coherent`, the checker the driver runs on the states the real code hands on)

Excluded classes, stated explicitly (each a registered finding; the model mirrors the code, the e2e tie
shows they fail alike):
  * OWA + any criterion-adding bias          — `owa_merge_always_fails`
  * Choquet + any criterion-adding bias      — `choquet_merge_always_fails`
  * criteria mixing after the state changed  — mixing reads `original`; only first-bias mixing is covered -/

/-- `Spec.C07.coherent` says: distinct criteria ids, every known alternative has every current criterion,
    the parameters cover every current criterion -/
theorem coherent_spelled_out (d : DMP α) :
    Spec.C07.coherent d = true ↔
      (d.crit.map (·.id)).Nodup ∧ (∀ a ∈ d.co ++ d.nc, ∀ c ∈ d.crit, a.vals.has c.id = true) ∧
        Spec.C07.covers d.crit d.mp = true := by
  rw [coherent_iff]
  exact ⟨fun h => ⟨h.nodup, h.values, h.covers⟩, fun h => ⟨h.1, h.2.1, h.2.2⟩⟩

/-- an accepted request starts coherent as soon as its parsed parameters cover its criteria (the part
    `ParseParams` is responsible for; ids and values are guaranteed by `Criteria.Validate` /
    `validateAlternatives`) -/
theorem accepted_request_starts_coherent {req : Request α} {params : DMP α}
    {chosen : List (Chosen α (BProps α))} (h : prepare req = .ok (params, chosen))
    (hcov : Spec.C07.covers params.crit params.mp = true) : Spec.C07.coherent params = true :=
  (coherent_iff _).mpr (decidePrepare_coherent h hcov)

/-- omission preserves coherence for every method — it even establishes the values and coverage clauses from
    distinct ids alone (the alternatives are rebuilt, the listener restricts the parameters) -/
theorem omission_preserves_coherence {exp : α → α} {g : Int → Draws α} {p : BProps α} {orig cur res : DMP α}
    {rep : Report α} (hc : Spec.C07.coherent cur = true)
    (h : applyBias exp g Facts.biasOmission p orig cur = .ok (res, rep)) : Spec.C07.coherent res = true :=
  (coherent_iff _).mpr (decideApplyBias_coherent h ((coherent_iff _).mp hc) (Or.inl rfl))

/-- preference reversal preserves coherence for every method -/
theorem reversal_preserves_coherence {exp : α → α} {g : Int → Draws α} {p : BProps α} {orig cur res : DMP α}
    {rep : Report α} (hc : Spec.C07.coherent cur = true)
    (h : applyBias exp g Facts.biasReversal p orig cur = .ok (res, rep)) : Spec.C07.coherent res = true :=
  (coherent_iff _).mpr (decideApplyBias_coherent h ((coherent_iff _).mp hc) (Or.inr (Or.inl rfl)))

/-- fatigue preserves coherence for every method -/
theorem fatigue_preserves_coherence {exp : α → α} {g : Int → Draws α} {p : BProps α} {orig cur res : DMP α}
    {rep : Report α} (hc : Spec.C07.coherent cur = true)
    (h : applyBias exp g Facts.biasFatigue p orig cur = .ok (res, rep)) : Spec.C07.coherent res = true :=
  (coherent_iff _).mpr (decideApplyBias_coherent h ((coherent_iff _).mp hc) (Or.inr (Or.inr (Or.inl rfl))))

/-- anchoring with the inline applier preserves coherence for every method -/
theorem inline_anchoring_preserves_coherence {exp : α → α} {g : Int → Draws α} {q : AnchProps α}
    {orig cur res : DMP α} {rep : Report α} (hc : Spec.C07.coherent cur = true)
    (hq : q.applier.fn = Facts.anchoringInline)
    (h : applyBias exp g Facts.biasAnchoring (.anch q) orig cur = .ok (res, rep)) :
    Spec.C07.coherent res = true :=
  (coherent_iff _).mpr (decideApplyBias_coherent h ((coherent_iff _).mp hc)
    (Or.inr (Or.inr (Or.inr (Or.inl ⟨rfl, Or.inl ⟨q, rfl, hq⟩⟩)))))

/-- anchoring with the newCriterion applier preserves coherence for the five methods that admit additions -/
theorem newCriterion_anchoring_preserves_coherence {exp : α → α} {g : Int → Draws α} {p : BProps α}
    {orig cur res : DMP α} {rep : Report α} (hc : Spec.C07.coherent cur = true)
    (hadm : admitsAdditions cur.mp = true)
    (h : applyBias exp g Facts.biasAnchoring p orig cur = .ok (res, rep)) : Spec.C07.coherent res = true :=
  (coherent_iff _).mpr (decideApplyBias_coherent h ((coherent_iff _).mp hc)
    (Or.inr (Or.inr (Or.inr (Or.inl ⟨rfl, Or.inr hadm⟩)))))

/-- concealment preserves coherence for the five methods that admit additions -/
theorem concealment_preserves_coherence {exp : α → α} {g : Int → Draws α} {p : BProps α}
    {orig cur res : DMP α} {rep : Report α} (hc : Spec.C07.coherent cur = true)
    (hadm : admitsAdditions cur.mp = true)
    (h : applyBias exp g Facts.biasConcealment p orig cur = .ok (res, rep)) : Spec.C07.coherent res = true :=
  (coherent_iff _).mpr (decideApplyBias_coherent h ((coherent_iff _).mp hc)
    (Or.inr (Or.inr (Or.inr (Or.inr (Or.inl ⟨rfl, hadm⟩))))))

/-- criteria mixing as the FIRST state-changing bias (`current` is still `original`) preserves coherence for
    the five methods that admit additions.
    Full statement (false on the code, registered finding `mixing-after-state-change`): the same for any
    `orig`.  Mixing selects the two criteria, ranks, and rebuilds every alternative from `orig`; after an
    omission the omitted values come back, after an addition the added values are lost. -/
theorem first_bias_mixing_preserves_coherence_partial {exp : α → α} {g : Int → Draws α} {p : BProps α}
    {cur res : DMP α} {rep : Report α} (hc : Spec.C07.coherent cur = true)
    (hadm : admitsAdditions cur.mp = true)
    (h : applyBias exp g Facts.biasMixing p cur cur = .ok (res, rep)) : Spec.C07.coherent res = true :=
  (coherent_iff _).mpr (decideApplyBias_coherent h ((coherent_iff _).mp hc)
    (Or.inr (Or.inr (Or.inr (Or.inr (Or.inr ⟨rfl, hadm, rfl⟩))))))

/-- the five methods whose listener admits an addition -/
theorem admitting_methods (mp : MParams α) :
    admitsAdditions mp = true ↔ (∀ wc, mp ≠ .owa wc) ∧ (∀ w cs, mp ≠ .choquet w cs) := by
  cases mp <;> simp [admitsAdditions]

/-- **Preservation over a whole sequence.**  After any sequence of omission / reversal / fatigue / inline
    anchoring — and, for the five admitting methods, also concealment and anchoring with any applier — the
    state handed to the method is coherent.
    Full statement (false on the code for the excluded classes above): the same for every sequence of the six
    biases and every method. -/
theorem pipeline_preserves_coherence_partial {exp : α → α} {g : Int → Draws α} {orig cur fin : DMP α}
    {chosen : List (Chosen α (BProps α))} {d : Draws α} {outs : List (BiasOut α (Report α))}
    (hall : ∀ b ∈ chosen, SafeEntry (admitsAdditions cur.mp) b) (hc : Spec.C07.coherent cur = true)
    (h : processLoop (applyBias exp g) orig chosen cur d = .ok (fin, outs)) :
    Spec.C07.coherent fin = true :=
  (coherent_iff _).mpr (decideLoop_coherent chosen cur fin d outs hall ((coherent_iff _).mp hc) h)

/-- the hypotheses of the preservation theorems are satisfiable: a two-criteria weighted-sum state is coherent -/
example : Spec.C07.coherent (α := Rat)
    ⟨[], [⟨"a", [("c0", 1), ("c1", 2)]⟩], [⟨"c0", "gain", none⟩, ⟨"c1", "cost", none⟩],
     .ws [⟨⟨"c0", "gain", none⟩, 1⟩, ⟨⟨"c1", "cost", none⟩, 2⟩]⟩ = true := by decide +kernel

/-! ## earlier value changes remain in force -/

/-- the biases that do not deliberately rewrite values leave the value of every criterion that is current
    before and after the step untouched, for every known alternative — so whatever an earlier bias wrote
    (a reversal, a fatigue blur, an inline anchoring shift, an added criterion's values) stays in force:
    criteria omission (every method) -/
theorem omission_keeps_earlier_values {exp : α → α} {g : Int → Draws α} {p : BProps α} {orig cur res : DMP α}
    {rep : Report α} (h : applyBias exp g Facts.biasOmission p orig cur = .ok (res, rep)) :
    ValuesKept cur res := by
  obtain ⟨_, _, _, _, _, _, hb⟩ := decideApplyBias_inv_omission h
  exact decideOmission_values hb

/-- … concealment -/
theorem concealment_keeps_earlier_values {exp : α → α} {g : Int → Draws α} {p : BProps α}
    {orig cur res : DMP α} {rep : Report α} (hc : Spec.C07.coherent cur = true)
    (h : applyBias exp g Facts.biasConcealment p orig cur = .ok (res, rep)) : ValuesKept cur res := by
  obtain ⟨_, _, _, _, hb⟩ := decideApplyBias_inv_conceal h
  exact decideConceal_values ((coherent_iff _).mp hc) hb

/-- … anchoring with the newCriterion applier -/
theorem newCriterion_anchoring_keeps_earlier_values {exp : α → α} {g : Int → Draws α} {q : AnchProps α}
    {orig cur res : DMP α} {rep : Report α} (hc : Spec.C07.coherent cur = true)
    (hq : q.applier.fn = Facts.anchoringNewCriterion)
    (h : applyBias exp g Facts.biasAnchoring (.anch q) orig cur = .ok (res, rep)) : ValuesKept cur res := by
  obtain ⟨q', _, hp, _, hb⟩ := decideApplyBias_inv_anchoring h
  cases hp
  obtain ⟨b, hfront, hi | hn⟩ := decideAnchoring_cases hb
  · rw [hq] at hi; exact absurd hi.1 (by decide)
  · exact decideNewCriterion_values ((coherent_iff _).mp hc)
      (fun x hx => ((anchoringFront_diffs hfront).2 x hx).1) hn.2

/-- … criteria mixing as the first state-changing bias -/
theorem first_bias_mixing_keeps_values_partial {exp : α → α} {g : Int → Draws α} {p : BProps α}
    {cur res : DMP α} {rep : Report α} (hc : Spec.C07.coherent cur = true)
    (h : applyBias exp g Facts.biasMixing p cur cur = .ok (res, rep)) : ValuesKept cur res := by
  obtain ⟨_, _, _, _, hb⟩ := decideApplyBias_inv_mixing h
  exact decideMixingFirst_values ((coherent_iff _).mp hc) hb

/-- **The excluded class, as a theorem about the model (= the code, by the e2e tie).**  Criteria mixing rebuilds
    every alternative from `original`: if `current` holds a criterion the alternatives of `original` have no
    value for — one added by an earlier concealment or newCriterion anchoring — then, whenever mixing acts
    (two or more current criteria, at least one known alternative), the state it hands on is not coherent.
    (Registered finding `mixing-after-state-change`.) -/
theorem mixing_after_an_addition_breaks_coherence {exp : α → α} {g : Int → Draws α} {p : BProps α}
    {orig cur res : DMP α} {rep : Report α} {k : Crit α}
    (h : applyBias exp g Facts.biasMixing p orig cur = .ok (res, rep)) (h2 : 2 ≤ cur.crit.length)
    (hk : k ∈ cur.crit) (hmiss : ∀ a ∈ orig.co ++ orig.nc, a.vals.has k.id = false)
    (hne : cur.co ++ cur.nc ≠ []) : Spec.C07.coherent res = false := by
  obtain ⟨_, _, _, _, hb⟩ := decideApplyBias_inv_mixing h
  have := decideMixing_after_addition_incoherent hb h2 hk hmiss hne
  rw [← coherent_iff] at this
  simpa using this

/-! ## progress: the combination is answered, not rejected

Full statement (false on the code for the excluded classes of the coherence section, and not attempted here
for the orderings that consume random numbers, the Choquet / OWA / weighted-sum / satisfaction rankings and
the three adding biases): for a coherent state, every method and every sequence of the six biases with valid
props, `processBiases` does not fail.  Proved: the three biases that never add a criterion, per step for
(almost) every method, and over whole sequences for the methods whose listener ranks by its own weights.

While proving it: coherence as the property states it (a value for *every current criterion*) is not enough for
the weighted sum — its listener's ranking looks up the weight of every criterion *an alternative has a value
for* (`PrepareCumulatedWeightsMap` ranges over the alternative's map), so a request whose alternatives carry a
value for an undeclared criterion is accepted without biases and rejected with any ranking-based bias
(confirmed on the real code; the e2e tie generates such requests, class `undeclared-value`). -/

/-- fatigue cannot fail on a coherent state (every method): registered function, non-zero bounding scale,
    one random number per alternative and criterion -/
theorem fatigue_never_fails {exp : α → α} {fn : FatigueFn α} {b : Bounding α} {cur : DMP α} {d : Draws α}
    (hc : Spec.C07.coherent cur = true) (hfn : ∀ n, fn ≠ .unknown n) (hb : (b.scaling == Num.zero) = false)
    (hd : (cur.co.length + cur.nc.length) * cur.crit.length ≤ d.length) :
    ∃ res rep, fatigueApply exp fn b cur d = .ok (res, rep) :=
  decideFatigue_total ((coherent_iff _).mp hc) hfn hb hd

/-- preference reversal cannot fail on a coherent state once the criteria to reverse are selected (every method) -/
theorem reversal_never_fails_after_selection {sel : List (Crit α)} {cur : DMP α}
    (hc : Spec.C07.coherent cur = true) (hsel : ∀ c ∈ sel, c ∈ cur.crit) :
    ∃ res rep, reverseSelected sel cur = .ok (res, rep) :=
  decideReverseSelected_total ((coherent_iff _).mp hc) hsel

/-- criteria omission cannot fail on a coherent state once the ordering is split (every method but the Choquet
    integral, whose `OnCriteriaRemoved` is not covered here; the levels function must be one the listener
    registry knows) -/
theorem omission_never_fails_after_split_partial {c : SplitCond α} {ordered om kept : List (Crit α)} {cur : DMP α}
    (hc : Spec.C07.coherent cur = true) (hk : listenerKnowsLevels cur.mp = true) (hnc : notChoquet cur.mp = true)
    (hs : c.split ordered = .ok (om, kept)) (hsub : ∀ x ∈ kept, x ∈ cur.crit) :
    ∃ res, omitCriteria c ordered cur = .ok (res, om) :=
  decideOmit_total ((coherent_iff _).mp hc) hk hnc hs hsub

/-- the orderings that draw no random number (default, weakest, strongest) cannot fail when the parameters
    cover the criteria, for the listeners that rank by their own weights (electreIII, majority, aspect elimination) -/
theorem deterministic_ordering_never_fails_partial {eps : α} {o : String} {d : DMP α} {dr : Draws α}
    (hcov : Spec.C07.covers d.crit d.mp = true) (hr : ranksByOwnWeights d.mp = true)
    (ho : deterministicOrdering o) : ∃ ordered, orderCriteria eps o d dr = .ok ordered :=
  decideOrder_total hcov hr ho

/-- **`decide_total_partial`**: an accepted request (validation, parsed parameters covering the criteria, known
    biases) of electreIII / majority / aspect elimination whose enabled biases are omission / reversal / fatigue
    with valid props — valid split condition with the pivot inside `[0, n]` for every `n` up to the number of
    criteria, deterministic ordering, registered fatigue function, non-zero bounding scale — is carried through
    `processBiases` without an error, whichever biases fire, and the state handed to the method is coherent.
    Stream prefixes must be long enough (the harness supplies finite prefixes): one number per enabled bias for
    the activation, one per alternative and criterion for a fatigue. -/
theorem decide_total_partial {exp : α → α} {req : Request α} {g : Int → Draws α} {params : DMP α}
    {chosen : List (Chosen α (BProps α))} (hprep : prepare req = .ok (params, chosen))
    (hcov : Spec.C07.covers params.crit params.mp = true)
    (hm : ranksByOwnWeights params.mp = true) (hk : listenerKnowsLevels params.mp = true)
    (hall : ∀ b ∈ chosen, TotalEntry params.crit.length b)
    (hd : chosen.length ≤ (g req.biasSeed).length)
    (hg : ∀ k, (params.co.length + params.nc.length) * params.crit.length ≤ (g k).length) :
    ∃ fin outs, pipeline exp req g = .ok (fin, outs) ∧ Spec.C07.coherent fin = true := by
  have hc := decidePrepare_coherent hprep hcov
  obtain ⟨fin, outs, h⟩ := decideLoop_total (exp := exp) (g := g) (orig := params) chosen params (g req.biasSeed)
    hall hc hm hk (Nat.le_refl _) hd hg
  refine ⟨fin, outs, ?_, ?_⟩
  · unfold pipeline
    rw [hprep]
    exact h
  · refine (coherent_iff _).mpr (decideLoop_coherent chosen params fin _ outs ?_ hc h)
    intro b hb
    rcases hall b hb with ⟨hname, _⟩ | ⟨hname | hname, _⟩
    · exact Or.inr (Or.inr (Or.inl hname))
    · exact Or.inl hname
    · exact Or.inr (Or.inl hname)

/-- the hypotheses on a split entry are satisfiable: the default clamps with any ratio in [0, 1] keep the pivot
    inside `[0, n]` for every `n` -/
example (name : String) (hname : name = Facts.biasOmission ∨ name = Facts.biasReversal) (N : Nat)
    (hN : (N : Int) ≤ maxInt64) :
    TotalEntry (α := Rat) N ⟨name, 1, .split ⟨1 / 2, 0, maxInt64⟩ "" 7⟩ := by
  refine Or.inr ⟨hname, ⟨1 / 2, 0, maxInt64⟩, "", 7, rfl, by decide +kernel, Or.inl rfl, ?_⟩
  intro n hn
  have := Rdm.Props.C15.pivot_default (1 / 2) n (by norm_num) (by norm_num) (by omega)
  exact ⟨this.2.1, this.2.2⟩

/-- … and on a fatigue entry -/
example (N : Nat) : TotalEntry (α := Rat) N ⟨Facts.biasFatigue, 1, .fatigue (.const (1 / 8)) ⟨-1, false⟩ 3⟩ := by
  refine Or.inl ⟨rfl, .const (1 / 8), ⟨-1, false⟩, 3, rfl, ?_, by decide +kernel⟩
  intro n h
  cases h

end Rdm.Props.C07
