/-
  C07 — biases compose with every method and keep the working data coherent.

  Theorems about the end-to-end model `Model/Decide.lean` (`decide` = the whole `MakeDecision`, tied to the
  real code on whole requests by the `decide` correspondence stage of harness/main/c07e2e.go):
    * C02a on the composition: the model reads the random streams only at the seeds the request names;
    * frame over any bias list: alternatives and their considered / not-considered split never change,
      criteria disappear or appear only as the bias reports say;
    * the listener seams that make additions fail for OWA and Choquet (registered findings);
    * progress ("answered with a ranking, not with an error"): `Evaluate` of each of the seven methods on coherent
      states under exact side conditions (K1), whole sequences of omission / reversal / fatigue for every method and
      every ordering through `Evaluate` (`decide_total`, K2), the criterion-adding biases as first state-changing
      bias for the five admitting methods (K3), and the biases list of the response (K4, corollaries of C08).
  The per-bias theorems are in C15–C19; helper lemmas in Lemmas/Decide*.lean (progress: Lemmas/DecideProgress*.lean).
-/
import Rdm.Model.Listener
import Rdm.Spec.C07
import Rdm.Lemmas.DecideFrame
import Rdm.Lemmas.DecideCoherent
import Rdm.Lemmas.DecideChoquet
import Rdm.Lemmas.DecideTotal
import Rdm.Lemmas.DecideValues
import Rdm.Lemmas.DecideProgressBasic
import Rdm.Lemmas.DecideProgressEval
import Rdm.Lemmas.DecideProgressRat
import Rdm.Lemmas.DecideProgressOrder
import Rdm.Lemmas.DecideProgressLoop
import Rdm.Lemmas.DecideProgressAdd
import Rdm.Lemmas.DecideProgressAnchor
import Rdm.Lemmas.DecideProgressSeq
import Rdm.Lemmas.DecideProgressExample
import Rdm.Props.C08
import Rdm.Props.C15
namespace Rdm.Props.C07
open Rdm
variable {α : Type} [Num α]

/-! ## the listener seams (known findings) -/

/-- Known finding, machine-checked on the model (= the code, by correspondence): the OWA listener can
    never merge what its own `OnCriterionAdded` returns — `Merge` fails for every addition. -/
theorem owa_merge_always_fails {α : Type} [Num α] (wc : List (WCrit α)) (add : Addition α) :
    ∃ e, mergeParams (.owa wc) add = .error e := by
  cases add <;> exact ⟨_, rfl⟩

/-- Known finding, machine-checked: the Choquet analogue.  `OnCriterionAdded` of the Choquet listener copies
    the capacity of every subset of the OLD criteria into its result, `Merge` refuses keys both sides have, so
    — as soon as there is one criterion — `Merge` fails on everything `OnCriterionAdded` returns.  (With no
    criterion left the addition goes through: the only way a Choquet request survives an adding bias.) -/
theorem choquet_merge_always_fails {α : Type} [Num α] {w : KMap α} {c₀ : Crit α} {rest : List (Crit α)}
    {crit ref : Crit α} {d d' : Draws α} {add : Addition α}
    (h : onAdded (.choquet w (c₀ :: rest)) crit ref d = .ok (add, d')) :
    ∃ e, mergeParams (.choquet w (c₀ :: rest)) add = .error e :=
  decideChoquet_merge_fails h

/-- … and what the other five listeners return is mergeable in the sense that matters for coherence: the
    addition parameterises exactly the new criterion, and merging it into parameters that cover the criteria
    yields parameters that cover the criteria and the new one. -/
theorem addition_is_merged_for_the_five_other_methods {mp₀ mp mp' : MParams α} {crit : List (Crit α)}
    {newC ref : Crit α} {g g' : Draws α} {add : Addition α}
    (hadd : onAdded mp₀ newC ref g = .ok (add, g')) (hm : mergeParams mp add = .ok mp')
    (hadm : admitsAdditions mp = true) (hcov : Spec.C07.covers crit mp = true) :
    Spec.C07.covers (crit ++ [newC]) mp' = true :=
  decideMerge_covers (decideOnAdded_for hadd) hm hadm hcov

/-! ## C02a: the composition reads the streams only at the seeds the request names -/

/-- Everything of `MakeDecision` before `Evaluate` (validation, `ChooseBiases`, `processBiases` through all
    six biases) reads the random streams only at `biasApplyRandomSeed` and at the seeds in the biases' props
    (`randomSeed`, `newCriterionRandomSeed`, anchoring applier `randomSeed + i`). -/
theorem pipeline_reads_only_request_seeds (exp : α → α) (req : Request α) (g₁ g₂ : Int → Draws α)
    (h : ∀ k ∈ req.seeds, g₁ k = g₂ k) : pipeline exp req g₁ = pipeline exp req g₂ :=
  decidePipeline_congr exp req h

/-- `Evaluate` reads the streams only at the `randomSeed` of the method parameters it is handed. -/
theorem evaluate_reads_only_method_seed (g₁ g₂ : Int → Draws α) (d : DMP α)
    (h : ∀ k ∈ d.mp.seed.toList, g₁ k = g₂ k) : evaluate g₁ d = evaluate g₂ d :=
  decideEvaluate_congr _ d h

/-- No sequence of biases changes the `randomSeed` of the method's parameters: the seed `Evaluate` uses
    after the pipeline is the one of the request. -/
theorem pipeline_keeps_method_seed {exp : α → α} {req : Request α} {g : Int → Draws α} {fin : DMP α}
    {outs : List (BiasOut α (Report α))} (h : pipeline exp req g = .ok (fin, outs)) :
    ∃ mp, req.mp = some mp ∧ fin.mp.seed = mp.seed := by
  unfold pipeline at h
  obtain ⟨⟨params, chosen⟩, hp, h⟩ := bind_eq_ok.mp h
  obtain ⟨_, mp, hmp, hpp, _⟩ := decidePrepare_ok hp
  refine ⟨mp, hmp, ?_⟩
  have := decideLoop_seed chosen params fin _ outs h
  rw [this]
  unfold prepareParams at hpp
  obtain ⟨co, _, hpp⟩ := bind_eq_ok.mp hpp
  simp only [pure, Except.pure, Except.ok.injEq] at hpp
  subst hpp
  rfl

/-- **C02a for the whole decision**: if two stream functions agree on every seed the request names
    (`biasApplyRandomSeed`, each bias's `randomSeed` / `newCriterionRandomSeed` / anchoring `randomSeed + i`,
    the method's `randomSeed`) then `MakeDecision` gives the same result — accepted with the same response or
    rejected alike. -/
theorem decideWith_reads_only_request_seeds (exp : α → α) (o : List (WCrit α) → List (WCrit α))
    (req : Request α) (g₁ g₂ : Int → Draws α) (h : ∀ k ∈ req.seeds, g₁ k = g₂ k) :
    decideWith exp o req g₁ = decideWith exp o req g₂ := by
  unfold decideWith
  rw [decidePipeline_congr exp req h]
  apply decideBind_congr
  intro r hr
  obtain ⟨fin, outs⟩ := r
  obtain ⟨mp, hmp, hseed⟩ := pipeline_keeps_method_seed hr
  dsimp only
  have : evaluateWith o g₁ fin = evaluateWith o g₂ fin := by
    apply decideEvaluate_congr
    intro k hk
    apply h
    rw [hseed] at hk
    unfold Request.seeds
    rw [hmp]
    simp only [List.mem_append, List.mem_cons]
    exact Or.inr hk
  rw [this]

/-- the same for seed tables: two tables that give the same stream for every seed of the request -/
theorem decide_reads_only_request_seeds (exp : α → α) (req : Request α) (s₁ s₂ : Seeds α)
    (h : ∀ k ∈ req.seeds, genOf s₁ k = genOf s₂ k) : Rdm.decide exp req s₁ = Rdm.decide exp req s₂ :=
  decideWith_reads_only_request_seeds exp _ req _ _ h

/-! ## frame over a whole bias sequence -/

/-- The alternatives and their considered / not-considered split never change: after any sequence of biases
    the state handed to the method has the same considered ids and the same not-considered ids, in the
    same order, as the state built from the request. -/
theorem pipeline_keeps_alternatives_and_split {exp : α → α} {req : Request α} {g : Int → Draws α}
    {fin : DMP α} {outs : List (BiasOut α (Report α))} (h : pipeline exp req g = .ok (fin, outs)) :
    fin.co.map (·.id) = req.chosen ∧
    fin.nc.map (·.id) = (req.known.filter fun a => !req.chosen.contains a.id).map (·.id) := by
  unfold pipeline at h
  obtain ⟨⟨params, chosen⟩, hp, h⟩ := bind_eq_ok.mp h
  obtain ⟨_, mp, _, hpp, _⟩ := decidePrepare_ok hp
  obtain ⟨e1, e2⟩ := decideLoop_ids chosen params fin _ outs h
  unfold prepareParams at hpp
  obtain ⟨co, hco, hpp⟩ := bind_eq_ok.mp hpp
  simp only [pure, Except.pure, Except.ok.injEq] at hpp
  subst hpp
  refine ⟨?_, e2⟩
  rw [e1]
  -- the considered alternatives are fetched by id, in the order of `choseToMake`
  obtain ⟨hl, hpz⟩ := mapM_ok hco
  apply List.ext_getElem (by simp [hl])
  intro i h1 h2
  simp only [List.getElem_map]
  have hi : i < req.chosen.length := h2
  have hi' : i < co.length := by simpa using h1
  have hz : (req.chosen[i], co[i]) ∈ req.chosen.zip co := by
    rw [List.mem_iff_getElem]; exact ⟨i, by simp only [List.length_zip]; omega, by simp⟩
  have := (fetchAlt_ok (hpz _ hz)).2
  simpa using this

/-- the same for one step, for every bias: ids and split are kept -/
theorem every_bias_keeps_alternatives_and_split {exp : α → α} {g : Int → Draws α} {name : String}
    {p : BProps α} {orig cur res : DMP α} {rep : Report α}
    (h : applyBias exp g name p orig cur = .ok (res, rep)) :
    res.co.map (·.id) = cur.co.map (·.id) ∧ res.nc.map (·.id) = cur.nc.map (·.id) :=
  decideApplyBias_ids h

/-- Criteria disappear or appear only as the bias reports them (one step): the criteria the report names as
    omitted followed by the new criteria are a permutation of the old criteria followed by the criteria the
    report names as added. -/
theorem every_bias_changes_criteria_as_reported {exp : α → α} {g : Int → Draws α} {name : String}
    {p : BProps α} {orig cur res : DMP α} {rep : Report α}
    (h : applyBias exp g name p orig cur = .ok (res, rep)) :
    (rep.omittedIds ++ res.crit.map (·.id)).Perm (cur.crit.map (·.id) ++ rep.addedIds) :=
  decideApplyBias_crit h

/-- … and over the whole sequence: criteria after the pipeline = criteria of the request − everything the
    response's bias reports name as omitted + everything they name as added. -/
theorem pipeline_changes_criteria_as_reported {exp : α → α} {req : Request α} {g : Int → Draws α}
    {fin : DMP α} {outs : List (BiasOut α (Report α))} (h : pipeline exp req g = .ok (fin, outs)) :
    (outsOmitted outs ++ fin.crit.map (·.id)).Perm (req.crit.map (·.id) ++ outsAdded outs) := by
  unfold pipeline at h
  obtain ⟨⟨params, chosen⟩, hp, h⟩ := bind_eq_ok.mp h
  obtain ⟨_, mp, _, hpp, _⟩ := decidePrepare_ok hp
  have := decideLoop_crit chosen params fin _ outs h
  unfold prepareParams at hpp
  obtain ⟨co, _, hpp⟩ := bind_eq_ok.mp hpp
  simp only [pure, Except.pure, Except.ok.injEq] at hpp
  subst hpp
  exact this

/-- the response's biases list has one entry per enabled bias of the request, names and probabilities echoed -/
theorem response_lists_every_enabled_bias {exp : α → α} {req : Request α} {g : Int → Draws α}
    {fin : DMP α} {outs : List (BiasOut α (Report α))} (h : pipeline exp req g = .ok (fin, outs)) :
    outs.map (·.name) = (req.biases.filter (!·.disabled)).map (·.name) := by
  unfold pipeline at h
  obtain ⟨⟨params, chosen⟩, hp, h⟩ := bind_eq_ok.mp h
  obtain ⟨_, mp, _, _, hch⟩ := decidePrepare_ok hp
  dsimp only at h
  have h1 : outs.map (·.name) = chosen.map (·.name) := decideLoop_names chosen params params fin _ outs h
  rw [h1]
  exact decideChoose_names hch

/-! ## coherence (`Spec.C07.coherent`, the checker the driver runs on the states the real code hands on)

Excluded classes, stated explicitly (each a registered finding; the model mirrors the code, the e2e tie
shows they fail alike):
  * OWA + any criterion-adding bias          — `owa_merge_always_fails`
  * Choquet + any criterion-adding bias      — `choquet_merge_always_fails`
  * criteria mixing after the state changed  — mixing reads `original`; only first-bias mixing is covered -/

/-- `Spec.C07.coherent` says: distinct criteria ids, every known alternative has every current criterion,
    the parameters cover every current criterion -/
theorem coherent_spelled_out (d : DMP α) :
    Spec.C07.coherent d = true ↔
      (d.crit.map (·.id)).Nodup ∧ (∀ a ∈ d.co ++ d.nc, ∀ c ∈ d.crit, a.vals.has c.id = true) ∧
        Spec.C07.covers d.crit d.mp = true := by
  rw [coherent_iff]
  exact ⟨fun h => ⟨h.nodup, h.values, h.covers⟩, fun h => ⟨h.1, h.2.1, h.2.2⟩⟩

/-- an accepted request starts coherent as soon as its parsed parameters cover its criteria (the part
    `ParseParams` is responsible for; ids and values are guaranteed by `Criteria.Validate` /
    `validateAlternatives`) -/
theorem accepted_request_starts_coherent {req : Request α} {params : DMP α}
    {chosen : List (Chosen α (BProps α))} (h : prepare req = .ok (params, chosen))
    (hcov : Spec.C07.covers params.crit params.mp = true) : Spec.C07.coherent params = true :=
  (coherent_iff _).mpr (decidePrepare_coherent h hcov)

/-- omission preserves coherence for every method — it even establishes the values and coverage clauses from
    distinct ids alone (the alternatives are rebuilt, the listener restricts the parameters) -/
theorem omission_preserves_coherence {exp : α → α} {g : Int → Draws α} {p : BProps α} {orig cur res : DMP α}
    {rep : Report α} (hc : Spec.C07.coherent cur = true)
    (h : applyBias exp g Facts.biasOmission p orig cur = .ok (res, rep)) : Spec.C07.coherent res = true :=
  (coherent_iff _).mpr (decideApplyBias_coherent h ((coherent_iff _).mp hc) (Or.inl rfl))

/-- preference reversal preserves coherence for every method -/
theorem reversal_preserves_coherence {exp : α → α} {g : Int → Draws α} {p : BProps α} {orig cur res : DMP α}
    {rep : Report α} (hc : Spec.C07.coherent cur = true)
    (h : applyBias exp g Facts.biasReversal p orig cur = .ok (res, rep)) : Spec.C07.coherent res = true :=
  (coherent_iff _).mpr (decideApplyBias_coherent h ((coherent_iff _).mp hc) (Or.inr (Or.inl rfl)))

/-- fatigue preserves coherence for every method -/
theorem fatigue_preserves_coherence {exp : α → α} {g : Int → Draws α} {p : BProps α} {orig cur res : DMP α}
    {rep : Report α} (hc : Spec.C07.coherent cur = true)
    (h : applyBias exp g Facts.biasFatigue p orig cur = .ok (res, rep)) : Spec.C07.coherent res = true :=
  (coherent_iff _).mpr (decideApplyBias_coherent h ((coherent_iff _).mp hc) (Or.inr (Or.inr (Or.inl rfl))))

/-- anchoring with the inline applier preserves coherence for every method -/
theorem inline_anchoring_preserves_coherence {exp : α → α} {g : Int → Draws α} {q : AnchProps α}
    {orig cur res : DMP α} {rep : Report α} (hc : Spec.C07.coherent cur = true)
    (hq : q.applier.fn = Facts.anchoringInline)
    (h : applyBias exp g Facts.biasAnchoring (.anch q) orig cur = .ok (res, rep)) :
    Spec.C07.coherent res = true :=
  (coherent_iff _).mpr (decideApplyBias_coherent h ((coherent_iff _).mp hc)
    (Or.inr (Or.inr (Or.inr (Or.inl ⟨rfl, Or.inl ⟨q, rfl, hq⟩⟩)))))

/-- anchoring with the newCriterion applier preserves coherence for the five methods that admit additions -/
theorem newCriterion_anchoring_preserves_coherence {exp : α → α} {g : Int → Draws α} {p : BProps α}
    {orig cur res : DMP α} {rep : Report α} (hc : Spec.C07.coherent cur = true)
    (hadm : admitsAdditions cur.mp = true)
    (h : applyBias exp g Facts.biasAnchoring p orig cur = .ok (res, rep)) : Spec.C07.coherent res = true :=
  (coherent_iff _).mpr (decideApplyBias_coherent h ((coherent_iff _).mp hc)
    (Or.inr (Or.inr (Or.inr (Or.inl ⟨rfl, Or.inr hadm⟩)))))

/-- concealment preserves coherence for the five methods that admit additions -/
theorem concealment_preserves_coherence {exp : α → α} {g : Int → Draws α} {p : BProps α}
    {orig cur res : DMP α} {rep : Report α} (hc : Spec.C07.coherent cur = true)
    (hadm : admitsAdditions cur.mp = true)
    (h : applyBias exp g Facts.biasConcealment p orig cur = .ok (res, rep)) : Spec.C07.coherent res = true :=
  (coherent_iff _).mpr (decideApplyBias_coherent h ((coherent_iff _).mp hc)
    (Or.inr (Or.inr (Or.inr (Or.inr (Or.inl ⟨rfl, hadm⟩))))))

/-- criteria mixing as the FIRST state-changing bias (`current` is still `original`) preserves coherence for
    the five methods that admit additions.
    Full statement (false on the code, registered finding `mixing-after-state-change`): the same for any
    `orig`.  Mixing selects the two criteria, ranks, and rebuilds every alternative from `orig`; after an
    omission the omitted values come back, after an addition the added values are lost. -/
theorem first_bias_mixing_preserves_coherence_partial {exp : α → α} {g : Int → Draws α} {p : BProps α}
    {cur res : DMP α} {rep : Report α} (hc : Spec.C07.coherent cur = true)
    (hadm : admitsAdditions cur.mp = true)
    (h : applyBias exp g Facts.biasMixing p cur cur = .ok (res, rep)) : Spec.C07.coherent res = true :=
  (coherent_iff _).mpr (decideApplyBias_coherent h ((coherent_iff _).mp hc)
    (Or.inr (Or.inr (Or.inr (Or.inr (Or.inr ⟨rfl, hadm, rfl⟩))))))

/-- the five methods whose listener admits an addition -/
theorem admitting_methods (mp : MParams α) :
    admitsAdditions mp = true ↔ (∀ wc, mp ≠ .owa wc) ∧ (∀ w cs, mp ≠ .choquet w cs) := by
  cases mp <;> simp [admitsAdditions]

/-- **Preservation over a whole sequence.**  After any sequence of omission / reversal / fatigue / inline
    anchoring — and, for the five admitting methods, also concealment and anchoring with any applier — the
    state handed to the method is coherent.
    Full statement (false on the code for the excluded classes above): the same for every sequence of the six
    biases and every method. -/
theorem pipeline_preserves_coherence_partial {exp : α → α} {g : Int → Draws α} {orig cur fin : DMP α}
    {chosen : List (Chosen α (BProps α))} {d : Draws α} {outs : List (BiasOut α (Report α))}
    (hall : ∀ b ∈ chosen, SafeEntry (admitsAdditions cur.mp) b) (hc : Spec.C07.coherent cur = true)
    (h : processLoop (applyBias exp g) orig chosen cur d = .ok (fin, outs)) :
    Spec.C07.coherent fin = true :=
  (coherent_iff _).mpr (decideLoop_coherent chosen cur fin d outs hall ((coherent_iff _).mp hc) h)

/-- the hypotheses of the preservation theorems are satisfiable: a two-criteria weighted-sum state is coherent -/
example : Spec.C07.coherent (α := Rat)
    ⟨[], [⟨"a", [("c0", 1), ("c1", 2)]⟩], [⟨"c0", "gain", none⟩, ⟨"c1", "cost", none⟩],
     .ws [⟨⟨"c0", "gain", none⟩, 1⟩, ⟨⟨"c1", "cost", none⟩, 2⟩]⟩ = true := by decide +kernel

/-! ## earlier value changes remain in force -/

/-- the biases that do not deliberately rewrite values leave the value of every criterion that is current
    before and after the step untouched, for every known alternative — so whatever an earlier bias wrote
    (a reversal, a fatigue blur, an inline anchoring shift, an added criterion's values) stays in force:
    criteria omission (every method) -/
theorem omission_keeps_earlier_values {exp : α → α} {g : Int → Draws α} {p : BProps α} {orig cur res : DMP α}
    {rep : Report α} (h : applyBias exp g Facts.biasOmission p orig cur = .ok (res, rep)) :
    ValuesKept cur res := by
  obtain ⟨_, _, _, _, _, _, hb⟩ := decideApplyBias_inv_omission h
  exact decideOmission_values hb

/-- … concealment -/
theorem concealment_keeps_earlier_values {exp : α → α} {g : Int → Draws α} {p : BProps α}
    {orig cur res : DMP α} {rep : Report α} (hc : Spec.C07.coherent cur = true)
    (h : applyBias exp g Facts.biasConcealment p orig cur = .ok (res, rep)) : ValuesKept cur res := by
  obtain ⟨_, _, _, _, hb⟩ := decideApplyBias_inv_conceal h
  exact decideConceal_values ((coherent_iff _).mp hc) hb

/-- … anchoring with the newCriterion applier -/
theorem newCriterion_anchoring_keeps_earlier_values {exp : α → α} {g : Int → Draws α} {q : AnchProps α}
    {orig cur res : DMP α} {rep : Report α} (hc : Spec.C07.coherent cur = true)
    (hq : q.applier.fn = Facts.anchoringNewCriterion)
    (h : applyBias exp g Facts.biasAnchoring (.anch q) orig cur = .ok (res, rep)) : ValuesKept cur res := by
  obtain ⟨q', _, hp, _, hb⟩ := decideApplyBias_inv_anchoring h
  cases hp
  obtain ⟨b, hfront, hi | hn⟩ := decideAnchoring_cases hb
  · rw [hq] at hi; exact absurd hi.1 (by decide)
  · exact decideNewCriterion_values ((coherent_iff _).mp hc)
      (fun x hx => ((anchoringFront_diffs hfront).2 x hx).1) hn.2

/-- … criteria mixing as the first state-changing bias -/
theorem first_bias_mixing_keeps_values_partial {exp : α → α} {g : Int → Draws α} {p : BProps α}
    {cur res : DMP α} {rep : Report α} (hc : Spec.C07.coherent cur = true)
    (h : applyBias exp g Facts.biasMixing p cur cur = .ok (res, rep)) : ValuesKept cur res := by
  obtain ⟨_, _, _, _, hb⟩ := decideApplyBias_inv_mixing h
  exact decideMixingFirst_values ((coherent_iff _).mp hc) hb

/-- **The excluded class, as a theorem about the model (= the code, by the e2e tie).**  Criteria mixing rebuilds
    every alternative from `original`: if `current` holds a criterion the alternatives of `original` have no
    value for — one added by an earlier concealment or newCriterion anchoring — then, whenever mixing acts
    (two or more current criteria, at least one known alternative), the state it hands on is not coherent.
    (Registered finding `mixing-after-state-change`.) -/
theorem mixing_after_an_addition_breaks_coherence {exp : α → α} {g : Int → Draws α} {p : BProps α}
    {orig cur res : DMP α} {rep : Report α} {k : Crit α}
    (h : applyBias exp g Facts.biasMixing p orig cur = .ok (res, rep)) (h2 : 2 ≤ cur.crit.length)
    (hk : k ∈ cur.crit) (hmiss : ∀ a ∈ orig.co ++ orig.nc, a.vals.has k.id = false)
    (hne : cur.co ++ cur.nc ≠ []) : Spec.C07.coherent res = false := by
  obtain ⟨_, _, _, _, hb⟩ := decideApplyBias_inv_mixing h
  have := decideMixing_after_addition_incoherent hb h2 hk hmiss hne
  rw [← coherent_iff] at this
  simpa using this

/-! ## progress: the combination is answered, not rejected

Full statement (false on the code for the excluded classes of the coherence section, and not attempted here
for the orderings that consume random numbers, the Choquet / OWA / weighted-sum / satisfaction rankings and
the three adding biases): for a coherent state, every method and every sequence of the six biases with valid
props, `processBiases` does not fail.  Proved: the three biases that never add a criterion, per step for
(almost) every method, and over whole sequences for the methods whose listener ranks by its own weights.

While proving it: coherence as the property states it (a value for *every current criterion*) is not enough for
the weighted sum — its listener's ranking looks up the weight of every criterion *an alternative has a value
for* (`PrepareCumulatedWeightsMap` ranges over the alternative's map), so a request whose alternatives carry a
value for an undeclared criterion is accepted without biases and rejected with any ranking-based bias
(confirmed on the real code; the e2e tie generates such requests, class `undeclared-value`).

The theorems of this section are kept as they were; their stronger siblings (all methods, all orderings, through
`Evaluate`, adding biases) are in the section "progress, continued (WP-K)" at the end of the file. -/

/-- fatigue cannot fail on a coherent state (every method): registered function, non-zero bounding scale,
    one random number per alternative and criterion -/
theorem fatigue_never_fails {exp : α → α} {fn : FatigueFn α} {b : Bounding α} {cur : DMP α} {d : Draws α}
    (hc : Spec.C07.coherent cur = true) (hfn : ∀ n, fn ≠ .unknown n) (hb : (b.scaling == Num.zero) = false)
    (hd : (cur.co.length + cur.nc.length) * cur.crit.length ≤ d.length) :
    ∃ res rep, fatigueApply exp fn b cur d = .ok (res, rep) :=
  decideFatigue_total ((coherent_iff _).mp hc) hfn hb hd

/-- preference reversal cannot fail on a coherent state once the criteria to reverse are selected (every method) -/
theorem reversal_never_fails_after_selection {sel : List (Crit α)} {cur : DMP α}
    (hc : Spec.C07.coherent cur = true) (hsel : ∀ c ∈ sel, c ∈ cur.crit) :
    ∃ res rep, reverseSelected sel cur = .ok (res, rep) :=
  decideReverseSelected_total ((coherent_iff _).mp hc) hsel

/-- criteria omission cannot fail on a coherent state once the ordering is split (every method but the Choquet
    integral, whose `OnCriteriaRemoved` is not covered here; the levels function must be one the listener
    registry knows) -/
theorem omission_never_fails_after_split_partial {c : SplitCond α} {ordered om kept : List (Crit α)} {cur : DMP α}
    (hc : Spec.C07.coherent cur = true) (hk : listenerKnowsLevels cur.mp = true) (hnc : notChoquet cur.mp = true)
    (hs : c.split ordered = .ok (om, kept)) (hsub : ∀ x ∈ kept, x ∈ cur.crit) :
    ∃ res, omitCriteria c ordered cur = .ok (res, om) :=
  decideOmit_total ((coherent_iff _).mp hc) hk hnc hs hsub

/-- the orderings that draw no random number (default, weakest, strongest) cannot fail when the parameters
    cover the criteria, for the listeners that rank by their own weights (electreIII, majority, aspect elimination) -/
theorem deterministic_ordering_never_fails_partial {eps : α} {o : String} {d : DMP α} {dr : Draws α}
    (hcov : Spec.C07.covers d.crit d.mp = true) (hr : ranksByOwnWeights d.mp = true)
    (ho : deterministicOrdering o) : ∃ ordered, orderCriteria eps o d dr = .ok ordered :=
  decideOrder_total hcov hr ho

/-- **`decide_total_partial`**: an accepted request (validation, parsed parameters covering the criteria, known
    biases) of electreIII / majority / aspect elimination whose enabled biases are omission / reversal / fatigue
    with valid props — valid split condition with the pivot inside `[0, n]` for every `n` up to the number of
    criteria, deterministic ordering, registered fatigue function, non-zero bounding scale — is carried through
    `processBiases` without an error, whichever biases fire, and the state handed to the method is coherent.
    Stream prefixes must be long enough (the harness supplies finite prefixes): one number per enabled bias for
    the activation, one per alternative and criterion for a fatigue. -/
theorem decide_total_partial {exp : α → α} {req : Request α} {g : Int → Draws α} {params : DMP α}
    {chosen : List (Chosen α (BProps α))} (hprep : prepare req = .ok (params, chosen))
    (hcov : Spec.C07.covers params.crit params.mp = true)
    (hm : ranksByOwnWeights params.mp = true) (hk : listenerKnowsLevels params.mp = true)
    (hall : ∀ b ∈ chosen, TotalEntry params.crit.length b)
    (hd : chosen.length ≤ (g req.biasSeed).length)
    (hg : ∀ k, (params.co.length + params.nc.length) * params.crit.length ≤ (g k).length) :
    ∃ fin outs, pipeline exp req g = .ok (fin, outs) ∧ Spec.C07.coherent fin = true := by
  have hc := decidePrepare_coherent hprep hcov
  obtain ⟨fin, outs, h⟩ := decideLoop_total (exp := exp) (g := g) (orig := params) chosen params (g req.biasSeed)
    hall hc hm hk (Nat.le_refl _) hd hg
  refine ⟨fin, outs, ?_, ?_⟩
  · unfold pipeline
    rw [hprep]
    exact h
  · refine (coherent_iff _).mpr (decideLoop_coherent chosen params fin _ outs ?_ hc h)
    intro b hb
    rcases hall b hb with ⟨hname, _⟩ | ⟨hname | hname, _⟩
    · exact Or.inr (Or.inr (Or.inl hname))
    · exact Or.inl hname
    · exact Or.inr (Or.inl hname)

/-- the hypotheses on a split entry are satisfiable: the default clamps with any ratio in [0, 1] keep the pivot
    inside `[0, n]` for every `n` -/
example (name : String) (hname : name = Facts.biasOmission ∨ name = Facts.biasReversal) (N : Nat)
    (hN : (N : Int) ≤ maxInt64) :
    TotalEntry (α := Rat) N ⟨name, 1, .split ⟨1 / 2, 0, maxInt64⟩ "" 7⟩ := by
  refine Or.inr ⟨hname, ⟨1 / 2, 0, maxInt64⟩, "", 7, rfl, by decide +kernel, Or.inl rfl, ?_⟩
  intro n hn
  have := Rdm.Props.C15.pivot_default (1 / 2) n (by norm_num) (by norm_num) (by omega)
  exact ⟨this.2.1, this.2.2⟩

/-- … and on a fatigue entry -/
example (N : Nat) : TotalEntry (α := Rat) N ⟨Facts.biasFatigue, 1, .fatigue (.const (1 / 8)) ⟨-1, false⟩ 3⟩ := by
  refine Or.inl ⟨rfl, .const (1 / 8), ⟨-1, false⟩, 3, rfl, ?_, by decide +kernel⟩
  intro n h
  cases h

/-! ## progress, continued (WP-K): `Evaluate` on coherent states, all methods × all orderings, adding biases

Vocabulary of the hypotheses (all decidable, defined in Lemmas/DecideProgress*.lean):
  * `prog_exactValues d`      — every known alternative holds values for declared criteria only, each once
                                (Go maps have unique keys; a value for an undeclared criterion is the registered
                                class `undeclared-value`);
  * `prog_ready d`            — what `Evaluate` of the state's method needs beyond coherence (`prog_methodReady`);
  * `prog_paramsDeclared`     — the parameter maps are keyed by current criteria only;
  * streams: every number in `[0,1]` resp. `[0,1)` (the contract of `utils.RandomBasedSeedValueGenerator`) and
    prefixes at least `prog_demand` long.
The arithmetic-dependent statements (ELECTRE III termination, coefficient levels, uniform shuffle) are over `Rat`. -/

/-! ### K1 — `Evaluate` never fails on a coherent state (per method, exact conditions) -/

/-- **weightedSum**: on a coherent state `Evaluate` returns a ranking iff nothing is missing, and nothing is missing
    when the weights name current criteria only.  Excluded point: a weight for a criterion that is not current —
    `WeightedSum` reads `CriterionValue` of every *weighted* criterion and panics on the missing value
    (model: `throw "missing-value:…"`). -/
theorem evaluate_never_fails_on_coherent_state_weightedSum {o : List (WCrit α) → List (WCrit α)} {g : Int → Draws α}
    {d : DMP α} {wc : List (WCrit α)} (hmp : d.mp = .ws wc) (hc : Spec.C07.coherent d = true)
    (hw : (wc.all fun x => d.crit.any (·.id == x.crit.id)) = true) : ∃ r, evaluateWith o g d = .ok r := by
  apply prog_evaluate_utility ((coherent_iff _).mp hc)
  unfold prog_utilityReady
  rw [hmp]
  simpa only [List.all_eq_true, List.any_eq_true, beq_iff_eq] using hw

/-- **owa**: coherent + exact values.  Excluded point: an alternative with a value for an undeclared criterion —
    `OWA` compares the number of values with the number of weights and panics (model: `"owa-count-mismatch"`). -/
theorem evaluate_never_fails_on_coherent_state_owa {o : List (WCrit α) → List (WCrit α)} {g : Int → Draws α}
    {d : DMP α} {wc : List (WCrit α)} (hmp : d.mp = .owa wc) (hc : Spec.C07.coherent d = true)
    (hex : prog_exactValues d = true) : ∃ r, evaluateWith o g d = .ok r := by
  apply prog_evaluate_utility ((coherent_iff _).mp hc)
  unfold prog_utilityReady
  rw [hmp]
  exact (prog_exactValues_iff _).mp hex

/-- **choquetIntegral**: coherent + exact values.  The coverage clause of `Spec.C07.covers` (a capacity for every
    non-empty subset of the current criteria, under the order-insensitive key) is exactly what the integral looks
    up: every suffix of the value-sorted criteria of an alternative.  Excluded point: a value for an undeclared
    criterion makes the integral ask for a capacity `parse` never admitted — `getWeightForCriteriaUnion` panics
    (model: `"choquet-missing:…"`). -/
theorem evaluate_never_fails_on_coherent_state_choquet {o : List (WCrit α) → List (WCrit α)} {g : Int → Draws α}
    {d : DMP α} {w : KMap α} {cs : List (Crit α)} (hmp : d.mp = .choquet w cs) (hc : Spec.C07.coherent d = true)
    (hex : prog_exactValues d = true) : ∃ r, evaluateWith o g d = .ok r := by
  apply prog_evaluate_utility ((coherent_iff _).mp hc)
  unfold prog_utilityReady
  rw [hmp]
  exact (prog_exactValues_iff _).mp hex

/-- **electreIII** (over `Rat`): coherent, at least one considered alternative and one criterion, thresholds of the
    current criteria in the C05 domain (constant, `0 ≤ q < p < v`, `k > 0` — inside what `validateParameters`
    accepts), distillation function accepted by `getDistillationFunc`.  Then the credibilities are in [0,1] and
    both distillations finish within the model's fuel (C05).  Excluded points: no considered alternative —
    `Matrix.Max` panics on the empty matrix (model: `"matrix is empty"`); no criterion — the concordance is `0/0`
    (NaN in Go; the `Rat` model would return 0, so the case is left out rather than claimed); thresholds outside
    the C05 domain — credibilities can leave [0,1] and termination of `distillate` is not covered. -/
theorem evaluate_never_fails_on_coherent_state_electreIII {o : List (WCrit Rat) → List (WCrit Rat)}
    {g : Int → Draws Rat} {d : DMP Rat} {ec : KMap (ECrit Rat)} {dist : LinFun Rat} (hmp : d.mp = .electre ec dist)
    (hc : Spec.C07.coherent d = true) (hco : d.co ≠ []) (hne : d.crit ≠ [])
    (hdom : prog_electreInDomain d.crit ec = true) (hdist : validDistillation dist = true) :
    ∃ r, evaluateWith o g d = .ok r :=
  prog_evaluate_electre hmp ((coherent_iff _).mp hc) hco hne hdom hdist

/-- **majorityHeuristic**: coherent, registered draw policy (empty = the first), usable current choice (absent with
    a considered alternative, or the id of a known alternative), and `2·|considered|` numbers in the method's
    stream (one per position of the shuffle, one per comparison for the `random` policy).  Excluded points:
    unknown policy — `drawResolver` panics; empty considered list without current choice — index `[0]` panics;
    unknown current choice — `FetchAlternative` panics; short stream — the model's `"draws-exhausted"` (the real
    generator is unbounded). -/
theorem evaluate_never_fails_on_coherent_state_majority {o : List (WCrit α) → List (WCrit α)} {g : Int → Draws α}
    {d : DMP α} {w : KMap α} {cur : String} {seed : Int} {rnd : Bool} {dr : String}
    (hmp : d.mp = .majority w cur seed rnd dr) (hc : Spec.C07.coherent d = true)
    (hpol : prog_policyKnown dr) (hcur : prog_curKnown d cur) (hds : 2 * d.co.length ≤ (g seed).length) :
    ∃ r, evaluateWith o g d = .ok r :=
  prog_evaluate_majority hmp ((coherent_iff _).mp hc) hpol hcur hds

/-- **aspectEliminationHeuristic** (over `Rat`): coherent, levels function registered with parameters its
    `Validate` accepts (`prog_levelsReady`), an examination order that only permutes (`sortCriteria`), one number
    per position of the alternatives shuffle.  An empty considered list is fine (`checkWithinSatisfactionLevels`
    returns at once).  Excluded points: unknown function — `Find` panics; coefficient outside (0,1) or bounds
    outside their interval — `Validate` panics. -/
theorem evaluate_never_fails_on_coherent_state_aspectElimination {o : List (WCrit Rat) → List (WCrit Rat)}
    {g : Int → Draws Rat} {d : DMP Rat} {fn : String} {lv : Levels Rat} {seed : Int} {w : KMap Rat} {rnd : Bool}
    (hmp : d.mp = .aspect fn lv seed w rnd) (hc : Spec.C07.coherent d = true)
    (hlv : prog_levelsReady aspectSources fn lv = true) (hord : ∀ l, ∀ x ∈ o l, x ∈ l)
    (hds : rnd = true → d.co.length - 1 ≤ (g seed).length) : ∃ r, evaluateWith o g d = .ok r := by
  have hcoh := (coherent_iff _).mp hc
  have hcov := hcoh.covers
  rw [hmp] at hcov
  simp only [Spec.C07.covers, Bool.and_eq_true, List.all_eq_true] at hcov
  obtain ⟨L, hL, _⟩ := prog_levelsOf_total (d := d) hcoh hlv (by
    intro ts hts t ht c hcm
    rw [hts] at hcov
    have := hcov.2
    simp only [List.all_eq_true] at this
    exact this t ht c hcm)
  refine prog_evaluate_aspect hmp hcoh ⟨L, ?_⟩ hord hds
  unfold aspectLevels; rw [hmp]; exact hL

/-- **satisfactionHeuristic** (over `Rat`): coherent, registered levels function with accepted parameters, usable
    current choice, one number per position of the shuffle.  Every level the sources hand out names every current
    criterion (coefficient sources build it from the criteria; `Initialize` of the thresholds source checks it —
    the coverage clause), so `ZipWithWeights` never misses.  Excluded points as for majority / aspect elimination. -/
theorem evaluate_never_fails_on_coherent_state_satisfaction {o : List (WCrit Rat) → List (WCrit Rat)}
    {g : Int → Draws Rat} {d : DMP Rat} {fn : String} {lv : Levels Rat} {seed : Int} {cur : String} {rnd : Bool}
    (hmp : d.mp = .satisf fn lv seed cur rnd) (hc : Spec.C07.coherent d = true)
    (hlv : prog_levelsReady satisfactionSources fn lv = true) (hcur : prog_curKnown d cur)
    (hds : rnd = true → d.co.length - 1 ≤ (g seed).length) : ∃ r, evaluateWith o g d = .ok r := by
  have hcoh := (coherent_iff _).mp hc
  have hcov := hcoh.covers
  rw [hmp] at hcov
  simp only [Spec.C07.covers] at hcov
  obtain ⟨L, hL, hok⟩ := prog_levelsOf_total (d := d) hcoh hlv (by
    intro ts hts t ht c hcm
    rw [hts] at hcov
    simp only [List.all_eq_true] at hcov
    exact hcov t ht c hcm)
  refine prog_evaluate_satisf hmp hcoh ⟨L, ?_, hok⟩ hcur hds
  unfold satisfactionLevels; rw [hmp]; exact hL

/-- **all seven in one statement**: a coherent state that is `prog_ready` (the per-method conditions above as one
    decidable predicate), with exact values where the method needs them (weightedSum only for its listener, owa,
    choquetIntegral), is evaluated by its method — for every examination order that permutes and streams with
    `2·|considered|` numbers. -/
theorem evaluate_never_fails_on_coherent_state {o : List (WCrit Rat) → List (WCrit Rat)} {g : Int → Draws Rat}
    {d : DMP Rat} (hc : Spec.C07.coherent d = true) (hex : prog_needsExact d.mp = true → prog_exactValues d = true)
    (hr : prog_ready d = true) (hord : ∀ l, ∀ x ∈ o l, x ∈ l) (hds : ∀ k, 2 * d.co.length ≤ (g k).length) :
    ∃ r, evaluateWith o g d = .ok r :=
  prog_evaluate_total ((coherent_iff _).mp hc) (fun h => (prog_exactValues_iff _).mp (hex h)) hr hord hds

/-- the examination order of the model (`sortCriteriaDesc`) only permutes -/
theorem sortCriteriaDesc_only_permutes (l : List (WCrit α)) : ∀ x ∈ sortCriteriaDesc l, x ∈ l :=
  fun _ hx => (List.mergeSort_perm _ _).mem_iff.mp hx

/-- the hypotheses of the K1 theorems are satisfiable — electreIII: coherent, ready -/
example : Spec.C07.coherent (α := Rat)
      ⟨[], [⟨"a", [("c0", 1), ("c1", 2)]⟩, ⟨"b", [("c0", 3), ("c1", 1)]⟩], [⟨"c0", "gain", none⟩, ⟨"c1", "cost", none⟩],
       .electre [("c0", ⟨2, ⟨0, 1/2⟩, ⟨0, 1⟩, ⟨0, 3⟩⟩), ("c1", ⟨1, ⟨0, 0⟩, ⟨0, 0⟩, ⟨0, 0⟩⟩)] defaultDistillation⟩ = true ∧
    prog_ready (⟨[], [⟨"a", [("c0", 1), ("c1", 2)]⟩, ⟨"b", [("c0", 3), ("c1", 1)]⟩],
       [⟨"c0", "gain", none⟩, ⟨"c1", "cost", none⟩],
       .electre [("c0", ⟨2, ⟨0, 1/2⟩, ⟨0, 1⟩, ⟨0, 3⟩⟩), ("c1", ⟨1, ⟨0, 0⟩, ⟨0, 0⟩, ⟨0, 0⟩⟩)] defaultDistillation⟩ : DMP Rat)
      = true := by decide +kernel

/-- … majority with the `random` policy and a current choice among the not-considered alternatives -/
example : prog_ready (⟨[⟨"z", [("c0", 0)]⟩], [⟨"a", [("c0", 1)]⟩], [⟨"c0", "gain", none⟩],
      .majority [("c0", 1)] "z" 7 true Facts.drawRandom⟩ : DMP Rat) = true := by decide +kernel

/-- … aspect elimination with the additive coefficient source, satisfaction with explicit thresholds -/
example : prog_ready (⟨[], [⟨"a", [("c0", 1)]⟩], [⟨"c0", "gain", none⟩],
      .aspect Facts.levelsAdditive (.coef (1/4) 1 0) 7 [("c0", 1)] false⟩ : DMP Rat) = true ∧
    prog_ready (⟨[], [⟨"a", [("c0", 1)]⟩], [⟨"c0", "gain", none⟩],
      .satisf Facts.levelsThresholds (.thresholds [[("c0", 2)], [("c0", 1)]]) 7 "" false⟩ : DMP Rat) = true := by
  decide +kernel

/-- … exact values (owa / choquet) -/
example : prog_exactValues (α := Rat)
    ⟨[], [⟨"a", [("c0", 1), ("c1", 2)]⟩], [⟨"c0", "gain", none⟩, ⟨"c1", "gain", none⟩],
     .choquet [("c0", 1/2), ("c1", 1/2), ("c0,c1", 1)] [⟨"c0", "gain", none⟩, ⟨"c1", "gain", none⟩]⟩ = true := by
  decide +kernel

/-! ### K2 — every listener ranking, every ordering, omission for every method, whole sequences through `Evaluate` -/

/-- `RankCriteriaAscending` of every listener is total on a coherent state (with exact values for weightedSum /
    owa / choquetIntegral: `PrepareCumulatedWeightsMap` looks up a weight for every value key,
    `decomposeWeights` a capacity for every set of value keys). -/
theorem listener_ranking_never_fails (eps : α) {d : DMP α} (hc : Spec.C07.coherent d = true)
    (hex : prog_needsExact d.mp = true → prog_exactValues d = true) : ∃ r, rankAsc eps d = .ok r :=
  prog_rankAsc_total eps ((coherent_iff _).mp hc) (fun h => (prog_exactValues_iff _).mp (hex h))

/-- all five registered orderings (and the default) are total for every method: the two roulette orderings take
    one number per criterion, the uniform shuffle one per criterion but the first, each in [0,1] (a number outside
    would index out of range: Go panics, model `"index-out-of-range"`).  Sibling of
    `deterministic_ordering_never_fails_partial` without its restrictions. -/
theorem ordering_never_fails {eps : Rat} {o : String} {d : DMP Rat} {dr : Draws Rat}
    (hc : Spec.C07.coherent d = true) (hex : prog_needsExact d.mp = true → prog_exactValues d = true)
    (ho : prog_knownOrdering o) (hlen : d.crit.length ≤ dr.length) (hu : ∀ u ∈ dr, 0 ≤ u ∧ u ≤ 1) :
    ∃ ordered, orderCriteria eps o d dr = .ok ordered :=
  prog_orderCriteria_total ((coherent_iff _).mp hc) (fun h => (prog_exactValues_iff _).mp (hex h)) ho hlen hu

/-- **what breaks for Choquet's `OnCriteriaRemoved`? Nothing.**  It fetches one capacity per non-empty subset of
    the kept criteria; each is, up to the order of the ids inside the key (which `criterionKey` sorts away), one
    of the capacities `Spec.C07.covers` demands for the current criteria. -/
theorem choquet_onCriteriaRemoved_never_fails {crit left : List (Crit α)} {w : KMap α} {cs : List (Crit α)}
    (hcov : Spec.C07.covers crit (.choquet w cs) = true) (hn : (crit.map (·.id)).Nodup)
    (hln : (left.map (·.id)).Nodup) (hsub : ∀ c ∈ left, c ∈ crit) :
    ∃ mp', onRemoved (.choquet w cs) left = .ok mp' :=
  prog_onRemoved_choquet_total hcov hn hln hsub

/-- criteria omission after the split cannot fail for ANY method (sibling of
    `omission_never_fails_after_split_partial` without `notChoquet`; kept criteria duplicate-free, as every
    ordering delivers them) -/
theorem omission_never_fails_after_split {c : SplitCond α} {ordered om kept : List (Crit α)} {cur : DMP α}
    (hc : Spec.C07.coherent cur = true) (hk : listenerKnowsLevels cur.mp = true)
    (hs : c.split ordered = .ok (om, kept)) (hkn : (kept.map (·.id)).Nodup) (hsub : ∀ x ∈ kept, x ∈ cur.crit) :
    ∃ res, omitCriteria c ordered cur = .ok (res, om) :=
  prog_omit_total ((coherent_iff _).mp hc) hk hs hkn hsub

/-- **`pipeline_total`** (sibling of `decide_total_partial`, all seven methods, all five orderings): an accepted
    request whose parsed parameters cover its criteria, with exact values where the method needs them and a
    levels function the listener registry knows, whose enabled biases are omission / reversal / fatigue with
    valid props (`ProgEntry`), is carried through `processBiases` without an error whichever biases fire, and
    the state handed to the method is coherent.  Streams of the seeds the request names: numbers in [0,1],
    `prog_demand` of them per seed (other seeds are never read: `pipeline_reads_only_request_seeds`). -/
theorem pipeline_total {exp : Rat → Rat} {req : Request Rat} {g : Int → Draws Rat} {params : DMP Rat}
    {chosen : List (Chosen Rat (BProps Rat))} (hprep : prepare req = .ok (params, chosen))
    (hcov : Spec.C07.covers params.crit params.mp = true)
    (hex : prog_needsExact params.mp = true → prog_exactValues params = true)
    (hk : listenerKnowsLevels params.mp = true)
    (hall : ∀ b ∈ chosen, ProgEntry false params.crit.length b)
    (hu : ∀ k ∈ req.seeds, ∀ u ∈ g k, 0 ≤ u ∧ u ≤ 1) (hd : chosen.length ≤ (g req.biasSeed).length)
    (hg : ∀ k ∈ req.seeds, prog_demand params ≤ (g k).length) :
    ∃ fin outs, pipeline exp req g = .ok (fin, outs) ∧ Spec.C07.coherent fin = true := by
  -- outside the seeds the request names the streams are never read: pad them
  have hb : req.biasSeed ∈ req.seeds := by unfold Request.seeds; simp
  have hcongr := pipeline_reads_only_request_seeds exp req g
    (fun k => if k ∈ req.seeds then g k else List.replicate (prog_demand params) 0)
    (fun k hk => by simp only [hk, if_true])
  rw [hcongr]
  obtain ⟨fin, outs, h, hc⟩ := prog_pipeline_total (exp := exp)
    (g := fun k => if k ∈ req.seeds then g k else List.replicate (prog_demand params) 0) hprep hcov hex hk hall
    (fun k u hu' => by
      by_cases hk' : k ∈ req.seeds
      · simp only [hk', if_true] at hu'; exact hu k hk' u hu'
      · simp only [hk', if_false] at hu'; rw [List.eq_of_mem_replicate hu']; norm_num)
    (by simp only [hb, if_true]; exact hd)
    (fun k => by
      by_cases hk' : k ∈ req.seeds
      · simp only [hk', if_true]; exact hg k hk'
      · simp only [hk', if_false, List.length_replicate]; exact Nat.le_refl _)
  exact ⟨fin, outs, h, (coherent_iff _).mpr hc⟩

/-- the entries of `decide_total_partial` are entries of `pipeline_total`: the new theorem subsumes the old one -/
theorem totalEntry_is_progEntry {N : Nat} {b : Chosen Rat (BProps Rat)} (h : TotalEntry N b) : ProgEntry false N b := by
  rcases h with h | ⟨hn | hn, c, o, s, hp, hv, ho, hpiv⟩
  · exact Or.inl h
  · refine Or.inr (Or.inr ⟨hn, c, o, s, hp, hv, ?_, hpiv, fun h => by cases h⟩)
    rcases ho with h | h | h
    · exact Or.inl h
    · exact Or.inr (Or.inl h)
    · exact Or.inr (Or.inr (Or.inl h))
  · refine Or.inr (Or.inl ⟨hn, c, o, s, hp, hv, ?_, hpiv⟩)
    rcases ho with h | h | h
    · exact Or.inl h
    · exact Or.inr (Or.inl h)
    · exact Or.inr (Or.inr (Or.inl h))

/-- **`decide_total`** — the progress half of C07 for the non-adding biases: an accepted request whose parsed
    parameters cover its criteria and are `prog_ready`, with exact values where the method needs them, whose
    enabled biases are omission / reversal / fatigue with valid props and any registered ordering, is ANSWERED:
    `MakeDecision` returns a response (ranking + biases list), whichever biases fire, for each of the seven
    methods; the state that reached the method is coherent.  Under electreIII an omission must leave a
    criterion (`ProgEntry true`; the property's domain excludes a bias that removes every criterion).
    Streams of the seeds the request names (the others are never read): numbers in [0,1], `prog_demand` of them
    per seed, one per enabled bias for the activation.
    What is not covered (see K3 and the registered findings): sequences containing a criterion-adding bias. -/
theorem decide_total {exp : Rat → Rat} {o : List (WCrit Rat) → List (WCrit Rat)} {req : Request Rat}
    {g : Int → Draws Rat} {params : DMP Rat} {chosen : List (Chosen Rat (BProps Rat))}
    (hprep : prepare req = .ok (params, chosen)) (hcov : Spec.C07.covers params.crit params.mp = true)
    (hex : prog_needsExact params.mp = true → prog_exactValues params = true) (hr : prog_ready params = true)
    (hall : ∀ b ∈ chosen, ProgEntry (prog_needsCriterion params.mp) params.crit.length b)
    (hord : ∀ l, ∀ x ∈ o l, x ∈ l) (hu : ∀ k ∈ req.seeds, ∀ u ∈ g k, 0 ≤ u ∧ u ≤ 1)
    (hd : chosen.length ≤ (g req.biasSeed).length) (hg : ∀ k ∈ req.seeds, prog_demand params ≤ (g k).length) :
    ∃ resp, decideWith exp o req g = .ok resp ∧ Spec.C07.coherent resp.final = true := by
  have hb : req.biasSeed ∈ req.seeds := by unfold Request.seeds; simp
  have hcongr := decideWith_reads_only_request_seeds exp o req g
    (fun k => if k ∈ req.seeds then g k else List.replicate (prog_demand params) 0)
    (fun k hk => by simp only [hk, if_true])
  rw [hcongr]
  obtain ⟨resp, h, hc⟩ := prog_decideWith_total (exp := exp) (o := o)
    (g := fun k => if k ∈ req.seeds then g k else List.replicate (prog_demand params) 0) hprep hcov hex hr hall hord
    (fun k u hu' => by
      by_cases hk' : k ∈ req.seeds
      · simp only [hk', if_true] at hu'; exact hu k hk' u hu'
      · simp only [hk', if_false] at hu'; rw [List.eq_of_mem_replicate hu']; norm_num)
    (by simp only [hb, if_true]; exact hd)
    (fun k => by
      by_cases hk' : k ∈ req.seeds
      · simp only [hk', if_true]; exact hg k hk'
      · simp only [hk', if_false, List.length_replicate]; exact Nat.le_refl _)
  exact ⟨resp, h, (coherent_iff _).mpr hc⟩

/-- … and for `Rdm.decide` itself (seed table, the model's examination order): the table needs an entry only for
    the seeds the request names -/
theorem decide_total_seed_table {exp : Rat → Rat} {req : Request Rat} {seeds : Seeds Rat} {params : DMP Rat}
    {chosen : List (Chosen Rat (BProps Rat))} (hprep : prepare req = .ok (params, chosen))
    (hcov : Spec.C07.covers params.crit params.mp = true)
    (hex : prog_needsExact params.mp = true → prog_exactValues params = true) (hr : prog_ready params = true)
    (hall : ∀ b ∈ chosen, ProgEntry (prog_needsCriterion params.mp) params.crit.length b)
    (hu : ∀ k ∈ req.seeds, ∀ u ∈ genOf seeds k, 0 ≤ u ∧ u ≤ 1)
    (hd : chosen.length ≤ (genOf seeds req.biasSeed).length)
    (hg : ∀ k ∈ req.seeds, prog_demand params ≤ (genOf seeds k).length) :
    ∃ resp, Rdm.decide exp req seeds = .ok resp ∧ Spec.C07.coherent resp.final = true :=
  decide_total hprep hcov hex hr hall sortCriteriaDesc_only_permutes hu hd hg

/-- **the hypotheses of `decide_total_seed_table` are jointly satisfiable** — discharged on a concrete request
    (Lemmas/DecideProgressExample.lean): electreIII, two criteria, two alternatives, `criteriaOmission` with the
    `random` ordering then `fatigue` with probability ½, a seed table with eight numbers for each of the three
    seeds the request names.  So that request is answered, by the theorem. -/
example : ∃ resp, Rdm.decide (fun x => x) prog_exReq prog_exSeeds = .ok resp ∧
    Spec.C07.coherent resp.final = true :=
  decide_total_seed_table prog_exPrepare (by decide +kernel) (fun h => by cases h) (by decide +kernel)
    prog_exEntries (fun _ hk => (prog_exStreams hk).1) (by decide +kernel) (fun _ hk => (prog_exStreams hk).2)

/-- **`decide_total` with inline anchoring** — four of the six biases: the same statement for sequences that may
    also contain anchoring with the inline applier, its props valid against the request's known alternatives
    (`ProgEntryA`: `prog_anchPropsOk`).  Inline anchoring reads no random number, keeps criteria and parameters,
    and hands on alternatives that again hold exactly the current criteria.
    Missing for the full progress half (all six biases): sequences containing concealment, newCriterion anchoring
    or mixing — only their first step is covered (K3; mixing after a state change and OWA / Choquet additions are
    registered findings, i.e. the full statement is false on the code). -/
theorem decide_total_with_inline_anchoring {exp : Rat → Rat} {o : List (WCrit Rat) → List (WCrit Rat)}
    {req : Request Rat} {g : Int → Draws Rat} {params : DMP Rat} {chosen : List (Chosen Rat (BProps Rat))}
    (hprep : prepare req = .ok (params, chosen)) (hcov : Spec.C07.covers params.crit params.mp = true)
    (hex : prog_needsExact params.mp = true → prog_exactValues params = true) (hr : prog_ready params = true)
    (hall : ∀ b ∈ chosen, ProgEntryA params (prog_needsCriterion params.mp) params.crit.length b)
    (hord : ∀ l, ∀ x ∈ o l, x ∈ l) (hu : ∀ k ∈ req.seeds, ∀ u ∈ g k, 0 ≤ u ∧ u ≤ 1)
    (hd : chosen.length ≤ (g req.biasSeed).length) (hg : ∀ k ∈ req.seeds, prog_demand params ≤ (g k).length) :
    ∃ resp, decideWith exp o req g = .ok resp ∧ Spec.C07.coherent resp.final = true := by
  have hb : req.biasSeed ∈ req.seeds := by unfold Request.seeds; simp
  have hcongr := decideWith_reads_only_request_seeds exp o req g
    (fun k => if k ∈ req.seeds then g k else List.replicate (prog_demand params) 0)
    (fun k hk => by simp only [hk, if_true])
  rw [hcongr]
  obtain ⟨resp, h, hc⟩ := prog_decideWithA_total (exp := exp) (o := o)
    (g := fun k => if k ∈ req.seeds then g k else List.replicate (prog_demand params) 0) hprep hcov hex hr hall hord
    (fun k u hu' => by
      by_cases hk' : k ∈ req.seeds
      · simp only [hk', if_true] at hu'; exact hu k hk' u hu'
      · simp only [hk', if_false] at hu'; rw [List.eq_of_mem_replicate hu']; norm_num)
    (by simp only [hb, if_true]; exact hd)
    (fun k => by
      by_cases hk' : k ∈ req.seeds
      · simp only [hk', if_true]; exact hg k hk'
      · simp only [hk', if_false, List.length_replicate]; exact Nat.le_refl _)
  exact ⟨resp, h, (coherent_iff _).mpr hc⟩

/-- … its hypotheses discharged on the concrete request with an inline anchoring (to the nadir of alternative `a`)
    in front of the omission -/
example : ∃ resp, Rdm.decide (fun x => x) prog_exReqA prog_exSeedsA = .ok resp ∧
    Spec.C07.coherent resp.final = true :=
  decide_total_with_inline_anchoring prog_exPrepareA (by decide +kernel) (fun h => by cases h) (by decide +kernel)
    prog_exEntriesA sortCriteriaDesc_only_permutes (fun _ hk => (prog_exStreamsA hk).1) (by decide +kernel)
    (fun _ hk => (prog_exStreamsA hk).2)

/-- the hypotheses on an omission entry are satisfiable for every bound `N`: the default clamps with ratio ½ keep
    the pivot in `[0, n]`, and below `n` for `n > 0` (so also under electreIII) -/
example (N : Nat) (hN : (N : Int) ≤ maxInt64) :
    ProgEntry true N ⟨Facts.biasOmission, 1, .split ⟨1 / 2, 0, maxInt64⟩ Facts.orderingStrongestByProbability 7⟩ := by
  obtain ⟨h1, h2⟩ := prog_pivot_half N hN
  exact Or.inr (Or.inr ⟨rfl, ⟨1 / 2, 0, maxInt64⟩, Facts.orderingStrongestByProbability, 7, rfl, by decide +kernel,
    Or.inr (Or.inr (Or.inr (Or.inr (Or.inr rfl)))), h1, fun _ => h2⟩)

/-- … and on the streams: a constant stream of ½s of any length is in [0,1) -/
example (n : Nat) : ∀ u ∈ List.replicate n (1 / 2 : Rat), 0 ≤ u ∧ u < 1 := by
  intro u hu
  rw [List.eq_of_mem_replicate hu]
  norm_num

/-! ### K3 — the criterion-adding biases as FIRST state-changing bias (five admitting methods) -/

/-- `OnCriterionAdded` + `Merge` of the five admitting listeners accept a criterion whose id the parameters do not
    name yet, with a current reference criterion and `prog_listenerDraws` numbers (one; aspect elimination /
    satisfaction: one per explicit threshold level more).  Excluded point: parameters that already hold the key —
    `Weights.Merge` panics (`"already-exists"`); that is what OWA / Choquet always run into
    (`owa_merge_always_fails`, `choquet_merge_always_fails`). -/
theorem listener_accepts_fresh_criterion {mp : MParams α} {crit : List (Crit α)} {newC ref : Crit α} {gen : Draws α}
    (hcov : Spec.C07.covers crit mp = true) (hadm : admitsAdditions mp = true)
    (hk : listenerKnowsLevels mp = true) (href : ref ∈ crit) (hfresh : prog_paramsFresh mp newC.id = true)
    (hgen : prog_listenerDraws mp ≤ gen.length) :
    ∃ add gen' mp', onAdded mp newC ref gen = .ok (add, gen') ∧ mergeParams mp add = .ok mp' :=
  prog_addition_total hcov hadm hk href hfresh hgen

/-- **criteria concealment as the first state-changing bias never fails** for the five admitting methods:
    coherent state (an accepted request with covering parameters: `accepted_request_starts_coherent`) with at
    least one criterion, exact values and parameters keyed by current criteria (so that the new id
    `__concealedCriterion__…` collides with nothing), a levels function the listener registry knows, and the
    documented validity of the props (`prog_concealPropsOk`: `newCriterionScaling ≠ 0`,
    `allowedValuesRangeScaling ≠ 0`, `referenceCriterionType` registered or absent).  Streams in [0,1): one
    number for the reference criterion, one per known alternative plus the listener's for the values.
    The result is coherent again.  Excluded points: the two zero scalings and an unknown reference type are the
    panics of `parseProps` / `FromParams` / `ForParams`; no criterion — `FindCriterionInRange` indexes an empty
    slice. -/
theorem concealment_as_first_bias_never_fails {exp : Rat → Rat} {g : Int → Draws Rat} {cur : DMP Rat}
    {p : Props Rat} (hc : Spec.C07.coherent cur = true) (hex : prog_exactValues cur = true)
    (hadm : admitsAdditions cur.mp = true) (hk : listenerKnowsLevels cur.mp = true)
    (hdecl : prog_paramsDeclared cur.mp cur.crit = true) (hne : cur.crit ≠ [])
    (hp : prog_concealPropsOk p = true) (hu : ∀ k ∈ (BProps.flat p).seeds, ∀ u ∈ g k, 0 ≤ u ∧ u < 1)
    (hg : ∀ k ∈ (BProps.flat p).seeds,
      cur.co.length + cur.nc.length + prog_listenerDraws cur.mp + 1 ≤ (g k).length) :
    ∃ res rep, applyBias exp g Facts.biasConcealment (.flat p) cur cur = .ok (res, rep) ∧
      Spec.C07.coherent res = true := by
  obtain ⟨res, rep, h⟩ := prog_conceal_total (rd := g (p.seed "newCriterionRandomSeed"))
    (gen := g (p.seed "randomSeed")) ((coherent_iff _).mp hc) ((prog_exactValues_iff _).mp hex) hadm hk hdecl hne hp
    (by have := hg (p.seed "newCriterionRandomSeed") (by simp [BProps.seeds]); omega)
    (hu _ (by simp [BProps.seeds])) (by have := hg (p.seed "randomSeed") (by simp [BProps.seeds]); omega)
  have happly : applyBias exp g Facts.biasConcealment (.flat p) cur cur = .ok (res, .conceal rep) := by
    rw [prog_applyBias_conceal_eq, h]; rfl
  exact ⟨res, .conceal rep, happly, concealment_preserves_coherence hc hadm happly⟩

/-- **anchoring with the inline applier never fails** on a coherent state — every method, first bias or not
    (`Anchoring.Apply` ignores `original`) — under the documented validity of its props (`prog_anchPropsOk`: at
    least one anchoring alternative, all known; registered loss / gain function, reference-point evaluator and
    applier; non-zero bounding scale).  No random number is read. -/
theorem inline_anchoring_never_fails {exp : Rat → Rat} {g : Int → Draws Rat} {orig cur : DMP Rat}
    {p : AnchProps Rat} (hc : Spec.C07.coherent cur = true) (hp : prog_anchPropsOk cur p = true)
    (hfn : p.applier.fn = Facts.anchoringInline) :
    ∃ res rep, applyBias exp g Facts.biasAnchoring (.anch p) orig cur = .ok (res, rep) ∧
      Spec.C07.coherent res = true := by
  obtain ⟨res, rep, h⟩ := prog_anchoringApply_total (exp := exp)
    (rd := g (p.applier.params.seed "newCriterionRandomSeed")) (gens := (anchGenSeeds p).map g)
    ((coherent_iff _).mp hc) hp (Or.inl hfn)
  have happly : applyBias exp g Facts.biasAnchoring (.anch p) orig cur = .ok (res, .anchoring rep) := by
    rw [prog_applyBias_anchoring_eq, h]; rfl
  exact ⟨res, .anchoring rep, happly, inline_anchoring_preserves_coherence hc hfn happly⟩

/-- **anchoring with the newCriterion applier never fails** for the five admitting methods on a coherent state
    that is `prog_newCriterionReady` (exact values, admitting method with a known levels function, parameters
    keyed by current criteria, at least one criterion — all true of the state an accepted request starts from
    when they are true of the request), under `prog_anchPropsOk` (which for this applier includes a registered
    `referenceCriterionType`).  Streams in [0,1): one number for the reference criterion, the listener's numbers
    in the stream of `randomSeed + 0` (the registered evaluators return a single reference point). -/
theorem newCriterion_anchoring_as_first_bias_never_fails {exp : Rat → Rat} {g : Int → Draws Rat}
    {orig cur : DMP Rat} {p : AnchProps Rat} (hc : Spec.C07.coherent cur = true)
    (hp : prog_anchPropsOk cur p = true) (hready : prog_newCriterionReady cur = true)
    (hu : ∀ k ∈ (BProps.anch p).seeds, ∀ u ∈ g k, 0 ≤ u ∧ u < 1)
    (hg : ∀ k ∈ (BProps.anch p).seeds, prog_listenerDraws cur.mp + 1 ≤ (g k).length) :
    ∃ res rep, applyBias exp g Facts.biasAnchoring (.anch p) orig cur = .ok (res, rep) ∧
      Spec.C07.coherent res = true := by
  obtain ⟨rest, hgens⟩ := prog_anchGens p g
  have hs1 : p.applier.params.seed "newCriterionRandomSeed" ∈ (BProps.anch p).seeds := by simp [BProps.seeds]
  have hs2 : p.applier.params.seed "randomSeed" + Int.ofNat 0 ∈ (BProps.anch p).seeds := by
    simp only [BProps.seeds, List.mem_cons]
    right
    unfold anchGenSeeds anchGenCount
    exact List.mem_map.mpr ⟨0, by simp, rfl⟩
  obtain ⟨res, rep, h⟩ := prog_anchoringApply_total (exp := exp)
    (rd := g (p.applier.params.seed "newCriterionRandomSeed")) (gens := (anchGenSeeds p).map g)
    ((coherent_iff _).mp hc) hp (Or.inr ⟨hready, by have := hg _ hs1; omega,
      hu _ hs1, _, rest, hgens, by have := hg _ hs2; omega⟩)
  have happly : applyBias exp g Facts.biasAnchoring (.anch p) orig cur = .ok (res, .anchoring rep) := by
    rw [prog_applyBias_anchoring_eq, h]; rfl
  have hadm : admitsAdditions cur.mp = true := by
    unfold prog_newCriterionReady at hready
    simp only [Bool.and_eq_true] at hready
    exact hready.1.1.1.2
  exact ⟨res, .anchoring rep, happly, newCriterion_anchoring_preserves_coherence hc hadm happly⟩

/-- the hypotheses of the K3 theorems are jointly satisfiable — discharged on a concrete majority state
    (Lemmas/DecideProgressExample.lean) with all-default concealment props, … -/
example : ∃ res rep, applyBias (fun x => x) prog_exGen Facts.biasConcealment (.flat {}) prog_exMajority
    prog_exMajority = .ok (res, rep) ∧ Spec.C07.coherent res = true :=
  concealment_as_first_bias_never_fails (by decide +kernel) (by decide +kernel) (by decide +kernel)
    (by decide +kernel) (by decide +kernel) (List.cons_ne_nil _ _) (by decide +kernel)
    (fun k _ => prog_exGen_unit k) (fun _ _ => Nat.le_refl 4)

/-- … anchoring to the ideal point with the newCriterion applier, … -/
example : ∃ res rep, applyBias (fun x => x) prog_exGen Facts.biasAnchoring (.anch prog_exAnchNew) prog_exMajority
    prog_exMajority = .ok (res, rep) ∧ Spec.C07.coherent res = true :=
  newCriterion_anchoring_as_first_bias_never_fails (by decide +kernel) (by decide +kernel) (by decide +kernel)
    (fun k _ => prog_exGen_unit k) (fun _ _ => (by decide : (2 : Nat) ≤ 4))

/-- … and to the nadir point with the inline applier -/
example : ∃ res rep, applyBias (fun x => x) prog_exGen Facts.biasAnchoring (.anch prog_exAnchInline)
    prog_exMajority prog_exMajority = .ok (res, rep) ∧ Spec.C07.coherent res = true :=
  inline_anchoring_never_fails (by decide +kernel) (by decide +kernel) rfl

/-! ### K4 — the biases list of the response (corollaries of C08 on `resp.biases`) -/

/-- every enabled bias of the request appears in `resp.biases`, in order, with name and probability echoed, and
    its `applied` flag (a report is present) is `draw < probability` for the i-th number of the
    `biasApplyRandomSeed` stream (C08 `process_entries`, read on the response of `MakeDecision`) -/
theorem response_lists_every_bias_with_its_flag {exp : α → α} {o : List (WCrit α) → List (WCrit α)}
    {req : Request α} {g : Int → Draws α} {resp : Response α} (h : decideWith exp o req g = .ok resp) :
    ∃ params chosen, prepare req = .ok (params, chosen) ∧ resp.biases.length = chosen.length ∧
      ∀ i (hi : i < resp.biases.length) (hc : i < chosen.length) (hd : i < (g req.biasSeed).length),
        resp.biases[i].name = chosen[i].name ∧ resp.biases[i].prob = chosen[i].prob ∧
          resp.biases[i].report.isSome = decide ((g req.biasSeed)[i] < chosen[i].prob) := by
  unfold decideWith at h
  obtain ⟨⟨fin, outs⟩, hp, h⟩ := bind_eq_ok.mp h
  obtain ⟨res, _, h⟩ := bind_eq_ok.mp h
  simp only [pure, Except.pure, Except.ok.injEq] at h
  subst h
  unfold pipeline at hp
  obtain ⟨⟨params, chosen⟩, hprep, hp⟩ := bind_eq_ok.mp hp
  obtain ⟨h1, h2⟩ := Rdm.Props.C08.process_entries _ _ chosen params (g req.biasSeed) fin outs hp
  exact ⟨params, chosen, hprep, h1, h2⟩

/-- a bias that does not fire leaves the state untouched: if no entry of `resp.biases` carries a report, the state
    that reached the method is the one built from the request (C08 `nothing_fires_state_unchanged`) -/
theorem unfired_biases_leave_the_state_untouched {exp : α → α} {o : List (WCrit α) → List (WCrit α)}
    {req : Request α} {g : Int → Draws α} {resp : Response α} (h : decideWith exp o req g = .ok resp)
    (hn : ∀ b ∈ resp.biases, b.report = none) :
    ∃ params chosen, prepare req = .ok (params, chosen) ∧ resp.final = params := by
  unfold decideWith at h
  obtain ⟨⟨fin, outs⟩, hp, h⟩ := bind_eq_ok.mp h
  obtain ⟨res, _, h⟩ := bind_eq_ok.mp h
  simp only [pure, Except.pure, Except.ok.injEq] at h
  subst h
  unfold pipeline at hp
  obtain ⟨⟨params, chosen⟩, hprep, hp⟩ := bind_eq_ok.mp hp
  exact ⟨params, chosen, hprep, Rdm.Props.C08.nothing_fires_state_unchanged _ _ chosen params _ fin outs hp hn⟩

end Rdm.Props.C07
