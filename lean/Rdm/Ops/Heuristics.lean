import Rdm.Ops.Codec
namespace Rdm.Ops
open Rdm

def heuristicsOps : List (String × (List SExp → R SExp)) := []

end Rdm.Ops
