/-
  Driver operations of the heuristics group (C11 majority, C12 aspect elimination, C13 satisfaction,
  C14 generated aspiration levels).  Mirrors harness/main/c11.go … c14.go.
-/
import Rdm.Ops.Codec
import Rdm.Model.Heuristics
import Rdm.Model.Levels
import Rdm.Spec.C11
import Rdm.Spec.C12
import Rdm.Spec.C13
import Rdm.Spec.C14
namespace Rdm.Ops
open Rdm
variable {α : Type} [Num α]

/-! ### codecs -/

/-- `(id value comparedWith comparedAlternativeValue (links...))` -/
def encMajEntry (e : Linked (MajEval α)) : SExp :=
  .list [SExp.str e.id, SExp.num e.ev.value, SExp.str e.ev.cmp, SExp.num e.ev.cav, encStrs e.links]

def decMajEntry (e : SExp) : R (Linked (MajEval α)) := do
  match e with
  | .list [i, v, c, o, l] => pure ⟨← i.asStr, ⟨← v.asNum, ← c.asStr, ← o.asNum⟩, ← decStrs l⟩
  | _ => throw s!"bad majority entry {e}"

/-- `(id thresholdsIndex ((crit threshold)...) (links...))` -/
def encAspEntry (e : Linked (AspEval α)) : SExp :=
  .list [SExp.str e.id, SExp.nat e.ev.idx, encNumMap e.ev.thr, encStrs e.links]

def decAspEntry (e : SExp) : R (Linked (AspEval α)) := do
  match e with
  | .list [i, x, t, l] => pure ⟨← i.asStr, ⟨← x.asNat, ← decNumMap t⟩, ← decStrs l⟩
  | _ => throw s!"bad aspect entry {e}"

def encSatEntry (e : Linked (SatEval α)) : SExp :=
  .list [SExp.str e.id, SExp.nat e.ev.idx, encNumMap e.ev.thr, encStrs e.links]

def decSatEntry (e : SExp) : R (Linked (SatEval α)) := do
  match e with
  | .list [i, x, t, l] => pure ⟨← i.asStr, ⟨← x.asNat, ← decNumMap t⟩, ← decStrs l⟩
  | _ => throw s!"bad satisfaction entry {e}"

def encLevelList (l : List (KMap α)) : SExp := .list (l.map encNumMap)
def decLevelList (e : SExp) : R (List (KMap α)) := e.mapList decNumMap

/-- `(ok v)` | `(err)` as reported by the harness for a Go stage that may panic -/
def decRes {β : Type} (e : SExp) (f : SExp → R β) : R (R β) := do
  match e with
  | .list [.atom "ok", v] => pure (pure (← f v))
  | .list [.atom "err"] => pure (throw "reported-error")
  | _ => throw s!"bad result {e}"

def decCoefKind (e : SExp) : R CoefKind := do
  match ← e.asAtom with
  | "incMul" => pure .incMul
  | "incAdd" => pure .incAdd
  | "decMul" => pure .decMul
  | "decSub" => pure .decSub
  | s => throw s!"bad coefficient kind {s}"

/-! ### C11 -/

/-- `(majority-evaluate dmp (draws...))` → `(ok (entry...))` | `(err)` -/
def opMajorityEvaluate (args : List SExp) : R SExp := do
  match args with
  | [d, ds] =>
    let dmp : DMP Float ← decDMP d
    pure (encR (majorityEvaluate dmp (← decNums ds)) fun l => .list (l.map encMajEntry))
  | _ => throw "majority-evaluate: arity"

/-- `(majority-compare (wcrit...) alt alt)` → `(ok (s1 s2))` | `(err)` -/
def opMajorityCompare (args : List SExp) : R SExp := do
  match args with
  | [wc, a, b] =>
    let wc : List (WCrit Float) ← wc.mapList decWCrit
    pure (encR (compareAlts wc (← decAlt a) (← decAlt b)) fun p => .list [SExp.num p.1, SExp.num p.2])
  | _ => throw "majority-compare: arity"

/-- `(check-c11 (wcrit...) (alt...) policy (entry...))` on the implementation's output -/
def opCheckC11 (args : List SExp) : R SExp := do
  match args with
  | [wc, order, pol, out] =>
    let wc : List (WCrit Rat) ← wc.mapList decWCrit
    let out : List (Linked (MajEval Rat)) ← out.mapList decMajEntry
    pure (.atom (Spec.C11.explain wc (← decAlts order) (← pol.asStr) out))
  | _ => throw "check-c11: arity"

/-! ### C12 -/

/-- `(aspect-evaluate dmp (draws...) levels)` with `levels` = `(ok (level...))` | `(err)` as the
    implementation's own source reported them; distinct weights -/
def opAspectEvaluate (args : List SExp) : R SExp := do
  match args with
  | [d, ds, lv] =>
    let dmp : DMP Float ← decDMP d
    let levels ← decRes lv decLevelList
    pure (encR (aspectEvaluateWith dmp (← decNums ds) levels sortCriteriaDesc) fun l => .list (l.map encAspEntry))
  | _ => throw "aspect-evaluate: arity"

/-- `(aspect-evaluate-full dmp (draws...))`: the model generates the levels itself -/
def opAspectEvaluateFull (args : List SExp) : R SExp := do
  match args with
  | [d, ds] =>
    let dmp : DMP Float ← decDMP d
    pure (encR (aspectEvaluate dmp (← decNums ds)) fun l => .list (l.map encAspEntry))
  | _ => throw "aspect-evaluate-full: arity"

def descendingF : List (WCrit Float) → Bool
  | a :: b :: rest => decide (b.w ≤ a.w) && descendingF (b :: rest)
  | _ => true

/-- `(aspect-evaluate-some dmp (draws...) levels goResult)` for tied weights: does SOME criteria order
    compatible with the weights (and the known shuffle) reproduce the implementation's result
    exactly?  `goResult` = `(ok (entry...))` | `(err)` -/
def opAspectEvaluateSome (args : List SExp) : R SExp := do
  match args with
  | [d, ds, lv, go] =>
    let dmp : DMP Float ← decDMP d
    let levels ← decRes lv decLevelList
    let draws : List Float ← decNums ds
    let go := toString go
    let w ← match dmp.mp with
      | .aspect _ _ _ w _ => pure w
      | _ => throw "aspect-evaluate-some: not aspect parameters"
    match zipWithWeights dmp.crit w with
    | .error _ =>
      -- no order exists: the model's answer does not depend on it
      let r := encR (aspectEvaluateWith dmp draws levels id) fun l => .list (l.map encAspEntry)
      pure (.atom (if toString r == go then "ok" else "no-compatible-order:" ++ toString r))
    | .ok wc =>
      let orders := (Spec.C12.perms wc).filter descendingF
      let hit := orders.any fun o =>
        toString (encR (aspectEvaluateWith dmp draws levels (fun _ => o)) fun l => .list (l.map encAspEntry)) == go
      pure (.atom (if hit then "ok" else "no-compatible-order"))
  | _ => throw "aspect-evaluate-some: arity"

/-- `(check-c12 (alt...) (wcrit...) (level...) (entry...))` -/
def opCheckC12 (args : List SExp) : R SExp := do
  match args with
  | [alts, wc, lv, out] =>
    let wc : List (WCrit Rat) ← wc.mapList decWCrit
    let out : List (Linked (AspEval Rat)) ← out.mapList decAspEntry
    pure (.atom (Spec.C12.explain (← decAlts alts) wc (← decLevelList lv) out))
  | _ => throw "check-c12: arity"

/-! ### C13 -/

/-- `(satisfaction-evaluate dmp (draws...) levels)` -/
def opSatisfactionEvaluate (args : List SExp) : R SExp := do
  match args with
  | [d, ds, lv] =>
    let dmp : DMP Float ← decDMP d
    let levels ← decRes lv decLevelList
    pure (encR (satisfactionEvaluateWith dmp (← decNums ds) levels) fun l => .list (l.map encSatEntry))
  | _ => throw "satisfaction-evaluate: arity"

def opSatisfactionEvaluateFull (args : List SExp) : R SExp := do
  match args with
  | [d, ds] =>
    let dmp : DMP Float ← decDMP d
    pure (encR (satisfactionEvaluate dmp (← decNums ds)) fun l => .list (l.map encSatEntry))
  | _ => throw "satisfaction-evaluate-full: arity"

/-- `(search-order dmp current random (draws...))` → `(ok (alt...))` | `(err)` -/
def opSearchOrder (args : List SExp) : R SExp := do
  match args with
  | [d, cur, rnd, ds] =>
    let dmp : DMP Float ← decDMP d
    let r := searchOrder dmp (← cur.asStr) (← rnd.asBool) (← decNums ds)
    pure (encR r fun p => encAlts (p.1.1 :: p.1.2))
  | _ => throw "search-order: arity"

/-- `(check-c13 (alt...) (crit...) (level...) (alt...) (entry...))`: search order, criteria, levels,
    all known alternatives, output -/
def opCheckC13 (args : List SExp) : R SExp := do
  match args with
  | [order, cs, lv, all, out] =>
    let out : List (Linked (SatEval Rat)) ← out.mapList decSatEntry
    pure (.atom (Spec.C13.explain (← decAlts order) (← decCrits cs) (← decLevelList lv) (← decAlts all) out))
  | _ => throw "check-c13: arity"

/-! ### C14 -/

/-- `(levels-series inc|dec function levels dmp)` → `(ok (level...))` | `(err)`: Find + Initialize +
    HasNext/Next loop on the sources main.go registers for aspect elimination (inc) / satisfaction (dec) -/
def opLevelsSeries (args : List SExp) : R SExp := do
  match args with
  | [dir, fn, lv, d] =>
    let dmp : DMP Float ← decDMP d
    let sources ← match ← dir.asAtom with
      | "inc" => pure aspectSources
      | "dec" => pure satisfactionSources
      | s => throw s!"levels-series: bad direction {s}"
    pure (encR (levelsOf sources (← fn.asStr) (← decLevels lv) dmp) encLevelList)
  | _ => throw "levels-series: arity"

/-- `(check-c14 kind c max min (crit...) (alt...) result)`, `result` = `(ok (level...))` | `(err)` -/
def opCheckC14 (args : List SExp) : R SExp := do
  match args with
  | [k, c, mx, mn, cs, all, res] =>
    let out : Option (List (KMap Rat)) ← match res with
      | .list [.atom "ok", v] => pure (some (← decLevelList v))
      | .list [.atom "err"] => pure none
      | _ => throw s!"bad result {res}"
    pure (.atom (Spec.C14.explain (← decCoefKind k) (← c.asNum) (← mx.asNum) (← mn.asNum)
      (← decCrits cs) (← decAlts all) out))
  | _ => throw "check-c14: arity"

def heuristicsOps : List (String × (List SExp → R SExp)) :=
  [("majority-evaluate", opMajorityEvaluate), ("majority-compare", opMajorityCompare),
   ("check-c11", opCheckC11),
   ("aspect-evaluate", opAspectEvaluate), ("aspect-evaluate-full", opAspectEvaluateFull),
   ("aspect-evaluate-some", opAspectEvaluateSome), ("check-c12", opCheckC12),
   ("satisfaction-evaluate", opSatisfactionEvaluate), ("satisfaction-evaluate-full", opSatisfactionEvaluateFull),
   ("search-order", opSearchOrder), ("check-c13", opCheckC13),
   ("levels-series", opLevelsSeries), ("check-c14", opCheckC14)]

end Rdm.Ops
