import Rdm.Ops.Codec
namespace Rdm.Ops
open Rdm

def biasesBOps : List (String × (List SExp → R SExp)) := []

end Rdm.Ops
