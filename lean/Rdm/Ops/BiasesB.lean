/-
  Driver ops of work package D2: reference criterion, criteria concealment, criteria mixing (C18) and
  anchoring (C19).  Mirrors harness/main/c18.go and c19.go.
-/
import Rdm.Ops.Codec
import Rdm.Model.Anchoring
import Rdm.Spec.C18
import Rdm.Spec.C19
namespace Rdm.Ops
open Rdm
variable {α : Type} [Num α]

def epsF : Float := Num.ofConst Facts.choquetEps

/-! ### codecs -/

/-- `(nums strs bools)` -/
def decProps (e : SExp) : R (Props α) := do
  match e with
  | .list [n, s, b] => pure ⟨← decNumMap n, ← s.asKMap SExp.asStr, ← b.asKMap SExp.asBool⟩
  | _ => throw s!"bad props {e}"

def decOpt {β} (f : SExp → R β) (e : SExp) : R (Option β) := do
  match e with
  | .list [.atom "none"] => pure none
  | .list [.atom "some", v] => pure (some (← f v))
  | _ => throw s!"bad option {e}"

def decRange (lo hi : SExp) : R (α × α) := do pure (← lo.asNum, ← hi.asNum)

/-- `(id type min max values addition)` -/
def encConcealReport (r : ConcealReport α) : SExp :=
  .list [SExp.str r.id, SExp.str r.type, SExp.num r.range.1, SExp.num r.range.2, encNumMap r.values,
         encAddition r.addition]
def decConcealReport (e : SExp) : R (ConcealReport α) := do
  match e with
  | .list [i, t, lo, hi, v, a] =>
    pure ⟨← i.asStr, ← t.asStr, ← decRange lo hi, ← decNumMap v, ← decAddition a⟩
  | _ => throw s!"bad conceal report {e}"

def encComp (c : MixComponent α) : SExp := .list [SExp.str c.id, SExp.str c.type, encNumMap c.values]
def decComp (e : SExp) : R (MixComponent α) := do
  match e with
  | .list [i, t, v] => pure ⟨← i.asStr, ← t.asStr, ← decNumMap v⟩
  | _ => throw s!"bad component {e}"

/-- `(nil)` | `(mixed c1 c2 new addition)` -/
def encMixReport : Option (MixReport α) → SExp
  | none => .list [.atom "nil"]
  | some r => .list [.atom "mixed", encComp r.c1, encComp r.c2, encComp r.new, encAddition r.addition]
def decMixReport (e : SExp) : R (Option (MixReport α)) := do
  match e with
  | .list [.atom "nil"] => pure none
  | .list [.atom "mixed", a, b, n, ad] => pure (some ⟨← decComp a, ← decComp b, ← decComp n, ← decAddition ad⟩)
  | _ => throw s!"bad mix report {e}"

/-- `(fn props)` -/
def decFunDef (e : SExp) : R (FunDef α) := do
  match e with
  | .list [f, p] => pure ⟨← f.asStr, ← decProps p⟩
  | _ => throw s!"bad function definition {e}"

/-- `(((id (none)|(some k))...) typed loss gain refFn applier)` -/
def decAnchProps (e : SExp) : R (AnchProps α) := do
  match e with
  | .list [alts, typed, loss, gain, rf, ap] =>
    let alts ← alts.mapList fun a => do
      match a with
      | .list [i, k] => pure (← i.asStr, ← decOpt SExp.asNum k)
      | _ => throw s!"bad anchoring alternative {a}"
    pure ⟨alts, ← typed.asBool, ← decFunDef loss, ← decFunDef gain, ← rf.asStr, ← decFunDef ap⟩
  | _ => throw s!"bad anchoring props {e}"

/-- scaling: kmap id ↦ `(scale min max)` -/
def encScaling (m : KMap (Scale α)) : SExp :=
  SExp.kmap m fun s => .list [SExp.num s.1, SExp.num s.2.1, SExp.num s.2.2]
def decScaling (e : SExp) : R (KMap (Scale α)) :=
  e.asKMap fun s => do
    match s with
    | .list [a, lo, hi] => pure (← a.asNum, ← decRange lo hi)
    | _ => throw s!"bad scale {s}"

/-- differences: `((alt ((refId coefs)...))...)` -/
def encDiffs (l : List (AltDiffs α)) : SExp :=
  .list (l.map fun p => .list [encAlt p.1, .list (p.2.map fun r => .list [SExp.str r.1, encNumMap r.2])])
def decDiffs (e : SExp) : R (List (AltDiffs α)) :=
  e.mapList fun p => do
    match p with
    | .list [a, rs] =>
      let rs ← rs.mapList fun r => do
        match r with
        | .list [i, m] => pure (← i.asStr, ← decNumMap m)
        | _ => throw s!"bad reference point difference {r}"
      pure (← decAlt a, rs)
    | _ => throw s!"bad differences {p}"

def encAddedAnch (a : AddedAnch α) : SExp :=
  .list [SExp.str a.id, SExp.str a.type, SExp.num a.range.1, SExp.num a.range.2, encAddition a.addition,
         encNumMap a.values]
def decAddedAnch (e : SExp) : R (AddedAnch α) := do
  match e with
  | .list [i, t, lo, hi, ad, v] => pure ⟨← i.asStr, ← t.asStr, ← decRange lo hi, ← decAddition ad, ← decNumMap v⟩
  | _ => throw s!"bad added anchoring criterion {e}"

/-- `(inline alts)` | `(newCriterion crit (added...))` -/
def encApplierResult : ApplierResult α → SExp
  | .inline l => .list [.atom "inline", encAlts l]
  | .newCriterion c l => .list [.atom "newCriterion", encCrit c, .list (l.map encAddedAnch)]
def decApplierResult (e : SExp) : R (ApplierResult α) := do
  match e with
  | .list [.atom "inline", l] => pure (.inline (← decAlts l))
  | .list [.atom "newCriterion", c, l] => pure (.newCriterion (← decCrit c) (← l.mapList decAddedAnch))
  | _ => throw s!"bad applier result {e}"

/-- `(refPoints scaling diffs applierResult)` -/
def encAnchReport (r : AnchReport α) : SExp :=
  .list [encAlts r.refPoints, encScaling r.scaling, encDiffs r.diffs, encApplierResult r.applier]
def decAnchReport (e : SExp) : R (AnchReport α) := do
  match e with
  | .list [rp, sc, df, ap] => pure ⟨← decAlts rp, ← decScaling sc, ← decDiffs df, ← decApplierResult ap⟩
  | _ => throw s!"bad anchoring report {e}"

def decDrawLists (e : SExp) : R (List (Draws α)) := e.mapList decNums

/-! ### C18 ops -/

/-- `(refcrit (wcrit...) props (draws...))` → `(ok crit)` | `(err)` -/
def opRefCrit (args : List SExp) : R SExp := do
  match args with
  | [r, p, d] =>
    let ranked : List (WCrit Float) ← r.mapList decWCrit
    pure (encR (refCriterion (← decProps p) ranked (← decNums d)) encCrit)
  | _ => throw "refcrit: arity"

/-- `(not-used-name (id...) base)` → `name`: `Criteria.NotUsedName` on criteria with the given ids -/
def opNotUsedName (args : List SExp) : R SExp := do
  match args with
  | [ids, base] => pure (.str (notUsedName (← decStrs ids) (← base.asStr)))
  | _ => throw "not-used-name: arity"

/-- `(conceal-apply orig cur props (refDraws) (genDraws))` → `(ok (dmp report))` | `(err)` -/
def opConcealApply (args : List SExp) : R SExp := do
  match args with
  | [o, c, p, rd, gd] =>
    let orig : DMP Float ← decDMP o
    let res := conceal epsF orig (← decDMP c) (← decProps p) (← decNums rd) (← decNums gd)
    pure (encR res fun (d, r) => .list [encDMP d, encConcealReport r])
  | _ => throw "conceal-apply: arity"

/-- `(mixing-apply orig cur props (refDraws) (genDraws))` → `(ok (dmp report))` | `(err)` -/
def opMixingApply (args : List SExp) : R SExp := do
  match args with
  | [o, c, p, rd, gd] =>
    let orig : DMP Float ← decDMP o
    let res := mixing epsF orig (← decDMP c) (← decProps p) (← decNums rd) (← decNums gd)
    pure (encR res fun (d, r) => .list [encDMP d, encMixReport r])
  | _ => throw "mixing-apply: arity"

/-- `(check-c18-conceal orig cur props dmp report)` on the implementation's output -/
def opCheckC18Conceal (args : List SExp) : R SExp := do
  match args with
  | [o, c, p, d, r] =>
    let orig : DMP Rat ← decDMP o
    pure (.atom (Spec.C18.explainConceal orig (← decDMP c) (← decProps p) (← decDMP d) (← decConcealReport r)))
  | _ => throw "check-c18-conceal: arity"

/-- `(check-c18-mixing orig cur props dmp report)` on the implementation's output -/
def opCheckC18Mixing (args : List SExp) : R SExp := do
  match args with
  | [o, c, p, d, r] =>
    let orig : DMP Rat ← decDMP o
    pure (.atom (Spec.C18.explainMixing orig (← decDMP c) (← decProps p) (← decDMP d) (← decMixReport r)))
  | _ => throw "check-c18-mixing: arity"

/-- `(check-c18-refcrit (wcrit...) crit)`: the provided criterion is one of the ranked ones -/
def opCheckC18RefCrit (args : List SExp) : R SExp := do
  match args with
  | [r, c] =>
    let ranked : List (WCrit Rat) ← r.mapList decWCrit
    pure (.atom (Spec.C18.explainRefCrit ranked (← decCrit c)))
  | _ => throw "check-c18-refcrit: arity"

/-! ### C19 ops -/

def decAnchAlts (e : SExp) : R (List (Alt α × α)) :=
  e.mapList fun p => do
    match p with
    | .list [a, k] => pure (← decAlt a, ← k.asNum)
    | _ => throw s!"bad anchoring alternative {p}"

/-- `(anchoring-refpoints fn ((alt coef)...) crits)` → `(ok alts)` | `(err)` -/
def opAnchRefPoints (args : List SExp) : R SExp := do
  match args with
  | [f, a, c] =>
    let alts : List (Alt Float × Float) ← decAnchAlts a
    pure (encR (referencePoints (← f.asStr) alts (← decCrits c)) encAlts)
  | _ => throw "anchoring-refpoints: arity"

/-- `(anchoring-scaling crits alts)` → `(ok scaling)` | `(err)` -/
def opAnchScaling (args : List SExp) : R SExp := do
  match args with
  | [c, a] =>
    let alts : List (Alt Float) ← decAlts a
    pure (encR (anchScaling (← decCrits c) alts) encScaling)
  | _ => throw "anchoring-scaling: arity"

/-- are Go's mapped differences within 1e-12 (relative to the magnitude of the intermediate results
    of the gain/loss function) of the model's, which uses `Float.exp`? -/
def diffsClose (model mag go : List (AltDiffs Float)) : Bool :=
  model.length == go.length &&
  (model.zip (mag.zip go)).all fun (m, g, o) =>
    m.1.id == o.1.id && m.2.length == o.2.length &&
    (m.2.zip (g.2.zip o.2)).all fun (mr, gr, orr) =>
      mr.1 == orr.1 && mr.2.length == orr.2.length &&
      mr.2.all fun (c, v) =>
        match orr.2.get? c, gr.2.get? c with
        | some w, some s => Float.abs (v - w) ≤ 1e-12 * (Float.abs s + Float.abs v)
        | _, _ => false

/-- `(anchoring-diffs alts refs crits scaling loss gain goDiffs?)`:
    without Go's differences → `(ok diffs)` (exact, linear functions);
    with them → `(ok close)` when they agree within the `exp` tolerance, else the model's differences -/
def opAnchDiffs (args : List SExp) : R SExp := do
  match args with
  | [a, r, c, s, l, g, go] =>
    let alts : List (Alt Float) ← decAlts a
    let refs ← decAlts r
    let crits ← decCrits c
    let sc ← decScaling s
    let go ← decOpt decDiffs go
    let res : R (List (AltDiffs Float)) := do
      calcDiffs Float.exp alts refs crits sc (← parseAFun (← decFunDef l)) (← parseAFun (← decFunDef g))
    match go, res with
    | some go, .ok m =>
      let mag : R (List (AltDiffs Float)) := do
        calcDiffsWith (AFun.magnitude Float.exp) alts refs crits sc (← parseAFun (← decFunDef l)) (← parseAFun (← decFunDef g))
      match mag with
      | .ok mag => if diffsClose m mag go then pure (.list [.atom "ok", .atom "close"]) else pure (encR res encDiffs)
      | .error _ => pure (encR res encDiffs)
    | _, _ => pure (encR res encDiffs)
  | _ => throw "anchoring-diffs: arity"

/-- `(anchoring-applier dmp diffs scaling (fn props) (refDraws) ((gen draws)...))` → `(ok (dmp result))` | `(err)` -/
def opAnchApplier (args : List SExp) : R SExp := do
  match args with
  | [d, df, s, ap, rd, gs] =>
    let dmp : DMP Float ← decDMP d
    let ap ← decFunDef ap
    let res : R (DMP Float × ApplierResult Float) := do
      let b ← boundingOfProps ap.params
      applierApply epsF dmp (← decDiffs df) b (← decScaling s) ap (← decNums rd) (← decDrawLists gs)
    pure (encR res fun (d, r) => .list [encDMP d, encApplierResult r])
  | _ => throw "anchoring-applier: arity"

/-- `(anchoring-apply cur props (refDraws) ((gen draws)...) goDiffs?)` → `(ok (dmp report))` | `(err)`;
    with Go's mapped differences (an `exp` function is involved) the model's own differences must be
    close to them and the applier continues from Go's -/
def opAnchApply (args : List SExp) : R SExp := do
  match args with
  | [c, p, rd, gs, go] =>
    let cur : DMP Float ← decDMP c
    let p ← decAnchProps p
    let rd ← decNums rd
    let gs ← decDrawLists gs
    let go ← decOpt decDiffs go
    match go with
    | none => pure (encR (anchoringApply Float.exp epsF cur p rd gs) fun (d, r) => .list [encDMP d, encAnchReport r])
    | some go =>
      let chk : R Bool := do
        let (refs, sc, m, _) ← anchoringFront Float.exp cur p
        let mag ← calcDiffsWith (AFun.magnitude Float.exp) cur.all refs cur.crit sc (← parseAFun p.loss) (← parseAFun p.gain)
        pure (diffsClose m mag go)
      match chk with
      | .ok false => pure (.list [.atom "diffs-not-close"])
      | _ => pure (encR (anchoringApply Float.exp epsF cur p rd gs (some go)) fun (d, r) => .list [encDMP d, encAnchReport r])
  | _ => throw "anchoring-apply: arity"

/-- `(check-c19 cur props dmp report)` on the implementation's output -/
def opCheckC19 (args : List SExp) : R SExp := do
  match args with
  | [c, p, d, r] =>
    let cur : DMP Rat ← decDMP c
    pure (.atom (Spec.C19.explain cur (← decAnchProps p) (← decDMP d) (← decAnchReport r)))
  | _ => throw "check-c19: arity"

/-- `(check-c19-stages cur props dmp report)`: the clauses after the reference point, for stage runs with
    several (given) reference points -/
def opCheckC19Stages (args : List SExp) : R SExp := do
  match args with
  | [c, p, d, r] =>
    let cur : DMP Rat ← decDMP c
    pure (.atom (Spec.C19.explain cur (← decAnchProps p) (← decDMP d) (← decAnchReport r) false))
  | _ => throw "check-c19-stages: arity"

def biasesBOps : List (String × (List SExp → R SExp)) :=
  [("refcrit", opRefCrit), ("not-used-name", opNotUsedName), ("conceal-apply", opConcealApply), ("mixing-apply", opMixingApply),
   ("check-c18-conceal", opCheckC18Conceal), ("check-c18-mixing", opCheckC18Mixing),
   ("check-c18-refcrit", opCheckC18RefCrit),
   ("anchoring-refpoints", opAnchRefPoints), ("anchoring-scaling", opAnchScaling),
   ("anchoring-diffs", opAnchDiffs), ("anchoring-applier", opAnchApplier),
   ("anchoring-apply", opAnchApply), ("check-c19", opCheckC19), ("check-c19-stages", opCheckC19Stages)]

end Rdm.Ops
