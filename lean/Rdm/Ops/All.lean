import Rdm.Ops.Ranking
import Rdm.Ops.Utility
import Rdm.Ops.Links
import Rdm.Ops.Electre
import Rdm.Ops.Heuristics
import Rdm.Ops.BiasesA
import Rdm.Ops.BiasesB
import Rdm.Ops.Pipeline
import Rdm.Ops.Decide
namespace Rdm.Ops

def allOps : List (String × (List SExp → R SExp)) :=
  rankingOps ++ utilityOps ++ linksOps ++ electreOps ++ heuristicsOps ++ biasesAOps ++ biasesBOps ++ pipelineOps ++ decideOps

end Rdm.Ops
