import Rdm.Model.Ranking
import Rdm.Spec.C04
namespace Rdm.Ops
open Rdm

def decScored {α} [Num α] (e : SExp) : R (Scored α) := do
  match e with
  | .list [i, v] => pure ⟨← i.asStr, ← v.asNum⟩
  | _ => throw s!"bad scored {e}"

def encEntry {α} [Num α] (e : RankEntry α) : SExp :=
  .list [SExp.str e.id, SExp.num e.v, .list (e.links.map SExp.str)]

def decEntry {α} [Num α] (e : SExp) : R (RankEntry α) := do
  match e with
  | .list [i, v, l] => pure ⟨← i.asStr, ← v.asNum, ← l.mapList SExp.asStr⟩
  | _ => throw s!"bad entry {e}"

/-- `(ranking ((id v) ...))` → `((id v (links...)) ...)` -/
def opRanking (args : List SExp) : R SExp := do
  match args with
  | [l] =>
    let xs : List (Scored Float) ← l.mapList decScored
    pure (.list ((ranking xs).map encEntry))
  | _ => throw "ranking: arity"

/-- `(check-c04 ((id v (links...)) ...))` on the implementation's output, exact arithmetic -/
def opCheckC04 (args : List SExp) : R SExp := do
  match args with
  | [l] =>
    let out : List (RankEntry Rat) ← l.mapList decEntry
    pure (.atom (Spec.C04.explain out))
  | _ => throw "check-c04: arity"

def rankingOps : List (String × (List SExp → R SExp)) :=
  [("ranking", opRanking), ("check-c04", opCheckC04)]

end Rdm.Ops
