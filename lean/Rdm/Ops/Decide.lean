/-
  Driver ops of the end-to-end tie (C07): the whole `DecisionMaker.MakeDecision` against `Model.decide`.
  Mirrors harness/main/c07e2e.go.

    (decide req seeds exp)           → (ok (result biases)) | (err)       bit-exact
    (decide-some req seeds exp go)   → (ok some) | the model's own answer  aspect elimination with tied weights:
                                        SOME weight-compatible examination order reproduces Go's answer exactly
    (decide-close req seeds exp go)  → (ok close) | the model's own answer same structure, numbers within 1e-9
                                        relative (+1e-12 absolute); not used by the harness any more

    exp    = ((x y)...)  pairs of the graph of math.Exp computed by the harness (math.Exp is external: the
             model's `exp` parameter is this finite piece of it, `Float.exp` elsewhere)

    req    = (method crits known chosen (none)|(some mp) (bias...) biasApplyRandomSeed)
    bias   = (name disabled none|prob props)
    props  = (split (ratio min max) ordering seed) | (fatigue fnName (value alpha multiplier queryNumber) (scaling nonNeg) seed)
           | (flat (nums strs bools)) | (anch anchProps) | (bad)
    seeds  = ((seed (draws...))...)
    result = ((id vals payload (links...))...)    payload = (util v) | (electre asc desc) | (maj value cmp cav) | (asp idx thr) | (sat idx thr)
    biases = ((name prob (null)|(kind report))...)
-/
import Rdm.Ops.Codec
import Rdm.Ops.BiasesA
import Rdm.Ops.BiasesB
import Rdm.Ops.Heuristics
import Rdm.Model.Decide
import Rdm.Spec.C12
namespace Rdm.Ops
open Rdm
variable {α : Type} [Num α]

/-! ### decoding the request -/

def decBProps (e : SExp) : R (BProps α) := do
  match e with
  | .list [.atom "split", c, o, s] => pure (.split (← decSplitCond c) (← o.asStr) (← s.asInt))
  | .list [.atom "fatigue", n, .list [v, a, m, q], b, s] =>
    let name ← n.asStr
    let v : α ← v.asNum
    let a : α ← a.asNum
    let m : α ← m.asNum
    let q ← q.asInt
    let fn : FatigueFn α :=
      if name == Facts.fatigueConst then .const v
      else if name == Facts.fatigueExp then .expFromZero a m q
      else .unknown name
    pure (.fatigue fn (← decBounding b) (← s.asInt))
  | .list [.atom "flat", p] => pure (.flat (← decProps p))
  | .list [.atom "anch", p] => pure (.anch (← decAnchProps p))
  | .list [.atom "bad"] => pure .bad
  | _ => throw s!"bad bias props {e}"

def decBiasEntry (e : SExp) : R (BiasReq α (BProps α)) := do
  match e with
  | .list [n, d, .atom "none", p] => pure ⟨← n.asStr, ← d.asBool, none, ← decBProps p⟩
  | .list [n, d, pr, p] => pure ⟨← n.asStr, ← d.asBool, some (← pr.asNum), ← decBProps p⟩
  | _ => throw s!"bad bias entry {e}"

def decRequest (e : SExp) : R (Request α) := do
  match e with
  | .list [m, cs, ka, ch, mp, bs, seed] =>
    pure { method := ← m.asStr, crit := ← decCrits cs, known := ← decAlts ka, chosen := ← decStrs ch,
           mp := ← decOpt decMParams mp, biases := ← bs.mapList decBiasEntry, biasSeed := ← seed.asInt }
  | _ => throw s!"bad request {e}"

def decSeeds (e : SExp) : R (Seeds α) :=
  e.mapList fun p => do
    match p with
    | .list [s, ds] => pure (← s.asInt, ← decNums ds)
    | _ => throw s!"bad seed entry {p}"

/-- the model's `exp`: the observed piece of the graph of `math.Exp`, `Float.exp` elsewhere -/
def expOfTable (t : List (UInt64 × Float)) (x : Float) : Float :=
  match t.find? (fun p => p.1 == x.toBits) with
  | some p => p.2
  | none => Float.exp x

def decExpTable (e : SExp) : R (List (UInt64 × Float)) :=
  e.mapList fun p => do
    match p with
    | .list [x, y] =>
      let x : Float ← x.asNum
      pure (x.toBits, ← y.asNum)
    | _ => throw s!"bad exp pair {p}"

/-! ### printing the response -/

def encEval : Eval α → SExp
  | .util v => .list [.atom "util", SExp.num v]
  | .electre a d => .list [.atom "electre", SExp.int a, SExp.int d]
  | .maj e => .list [.atom "maj", SExp.num e.value, SExp.str e.cmp, SExp.num e.cav]
  | .asp e => .list [.atom "asp", SExp.nat e.idx, encNumMap e.thr]
  | .sat e => .list [.atom "sat", SExp.nat e.idx, encNumMap e.thr]

/-- the values the method saw for the alternative of a result entry (`(missing)` if the id is unknown) -/
def encEntryVals (fin : DMP α) (id : String) : SExp :=
  match fin.all.find? (fun a => a.id == id) with
  | some a => encNumMap a.vals
  | none => .list [.atom "missing"]

def encReport : Report α → SExp
  | .omission om => .list [.atom "omission", encCrits om]
  | .reversal rep => .list [.atom "reversal", .list (rep.map encReversed)]
  | .fatigue rep => .list [.atom "fatigue", encFatigueReport rep]
  | .conceal rep => .list [.atom "conceal", encConcealReport rep]
  | .mixing none => .list [.atom "null"]
  | .mixing (some r) => .list [.atom "mixing", encMixReport (some r)]
  | .anchoring rep => .list [.atom "anchoring", encAnchReport rep]

def encBiasOut (o : BiasOut α (Report α)) : SExp :=
  .list [SExp.str o.name, SExp.num o.prob,
    match o.report with
    | none => .list [.atom "null"]
    | some r => encReport r]

def encResponse (r : Response α) : SExp :=
  .list [.list (r.result.map fun e => .list [SExp.str e.id, encEntryVals r.final e.id, encEval e.ev, encStrs e.links]),
         .list (r.biases.map encBiasOut)]

/-! ### ops -/

/-- `(decide req seeds)` -/
def opDecide (args : List SExp) : R SExp := do
  match args with
  | [q, s, t] =>
    let req : Request Float ← decRequest q
    pure (encR (Rdm.decide (expOfTable (← decExpTable t)) req (← decSeeds s)) encResponse)
  | _ => throw "decide: arity"

/-- consecutive runs of equal weight -/
def weightRuns : List (WCrit Float) → List (List (WCrit Float))
  | [] => []
  | c :: cs =>
    match weightRuns cs with
    | (d :: run) :: rest => if c.w == d.w then (c :: d :: run) :: rest else [c] :: (d :: run) :: rest
    | rest => [c] :: rest

/-- every examination order compatible with the weights: descending, any order inside a tie group -/
def tieOrders (wc : List (WCrit Float)) : List (List (WCrit Float)) :=
  (weightRuns (sortCriteriaDesc wc)).foldr (fun run acc => (Spec.C12.perms run).flatMap fun p => acc.map (p ++ ·)) [[]]

/-- the model's answers: its own (distinct weights: the only one) followed, for aspect elimination whose
    final weights are tied, by the answer under every other weight-compatible examination order (the
    comparator of `sort.Slice` draws random numbers for ties) -/
def decideCandidates (exp : Float → Float) (req : Request Float) (g : Int → Draws Float) : List SExp :=
  let own := encR (decideWith exp sortCriteriaDesc req g) encResponse
  let orders : List (List (WCrit Float)) :=
    match pipeline exp req g with
    | .ok (fin, _) =>
      match fin.mp with
      | .aspect _ _ _ w _ =>
        match zipWithWeights fin.crit w with
        | .ok wc => if weightsDistinct wc then [] else tieOrders wc
        | .error _ => []
      | _ => []
    | .error _ => []
  own :: orders.map fun o => encR (decideWith exp (fun _ => o) req g) encResponse

/-- `(decide-some req seeds go)`: SOME weight-compatible examination order reproduces Go's answer exactly -/
def opDecideSome (args : List SExp) : R SExp := do
  match args with
  | [q, s, t, go] =>
    let req : Request Float ← decRequest q
    let cands := decideCandidates (expOfTable (← decExpTable t)) req (genOf (← decSeeds s))
    let go := toString go
    pure (if cands.any (fun c => toString c == go) then .list [.atom "ok", .atom "some"] else cands.headD (.atom "none"))
  | _ => throw "decide-some: arity"

def parseNumAtom (s : String) : Option Float :=
  match s.toList with
  | 'x' :: rest => if rest.length == 16 then (parseHex rest).map fun n => Float.ofBits (UInt64.ofNat n) else none
  | _ => none

def numsClose (a b : Float) : Bool :=
  a == b || Float.abs (a - b) ≤ 1e-9 * (if Float.abs a < Float.abs b then Float.abs b else Float.abs a) + 1e-12

/-- same tree, same atoms except that two number atoms may differ within the tolerance -/
partial def sexpClose : SExp → SExp → Bool
  | .atom a, .atom b =>
    a == b || (match parseNumAtom a, parseNumAtom b with
               | some x, some y => numsClose x y
               | _, _ => false)
  | .list l, .list m => l.length == m.length && (l.zip m).all fun p => sexpClose p.1 p.2
  | _, _ => false

/-- `(decide-close req seeds go)`: `math.Exp` is external (`Float.exp` differs from it in the last place
    in a fraction of the arguments), so a request whose fired biases use it is compared structurally -/
def opDecideClose (args : List SExp) : R SExp := do
  match args with
  | [q, s, t, go] =>
    let req : Request Float ← decRequest q
    let cands := decideCandidates (expOfTable (← decExpTable t)) req (genOf (← decSeeds s))
    pure (if cands.any (fun c => sexpClose c go) then .list [.atom "ok", .atom "close"] else cands.headD (.atom "none"))
  | _ => throw "decide-close: arity"

def decideOps : List (String × (List SExp → R SExp)) :=
  [("decide", opDecide), ("decide-some", opDecideSome), ("decide-close", opDecideClose)]

end Rdm.Ops
