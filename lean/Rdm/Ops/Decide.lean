import Rdm.Ops.Codec
namespace Rdm.Ops
open Rdm

def decideOps : List (String × (List SExp → R SExp)) := []

end Rdm.Ops
