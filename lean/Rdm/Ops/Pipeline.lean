import Rdm.Ops.Codec
import Rdm.Generated.Facts
namespace Rdm.Ops
open Rdm

def choquetEpsF : Float := Num.ofConst Facts.choquetEps

/-- `(listener-rank dmp)` → `(ok (wcrit...))` | `(err)` -/
def opListenerRank (args : List SExp) : R SExp := do
  match args with
  | [d] =>
    let dmp : DMP Float ← decDMP d
    pure (encR (rankAsc choquetEpsF dmp) fun l => .list (l.map encWCrit))
  | _ => throw "listener-rank: arity"

/-- `(listener-removed mp (crit...))` → `(ok mp')` | `(err)` -/
def opListenerRemoved (args : List SExp) : R SExp := do
  match args with
  | [mp, left] =>
    let mp : MParams Float ← decMParams mp
    pure (encR (onRemoved mp (← decCrits left)) encMParams)
  | _ => throw "listener-removed: arity"

/-- `(listener-added mp crit ref (draws...))` → `(ok addition consumed)` | `(err)` -/
def opListenerAdded (args : List SExp) : R SExp := do
  match args with
  | [mp, c, r, ds] =>
    let mp : MParams Float ← decMParams mp
    let ds : List Float ← decNums ds
    let res := onAdded mp (← decCrit c) (← decCrit r) ds
    pure (encR res fun (a, rest) => .list [encAddition a, SExp.nat (ds.length - rest.length)])
  | _ => throw "listener-added: arity"

/-- `(listener-merge mp addition)` → `(ok mp')` | `(err)` -/
def opListenerMerge (args : List SExp) : R SExp := do
  match args with
  | [mp, a] =>
    let mp : MParams Float ← decMParams mp
    pure (encR (mergeParams mp (← decAddition a)) encMParams)
  | _ => throw "listener-merge: arity"

def pipelineOps : List (String × (List SExp → R SExp)) :=
  [("listener-rank", opListenerRank), ("listener-removed", opListenerRemoved),
   ("listener-added", opListenerAdded), ("listener-merge", opListenerMerge)]

end Rdm.Ops
