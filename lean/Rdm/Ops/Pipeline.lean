import Rdm.Ops.Codec
import Rdm.Generated.Facts
import Rdm.Model.Pipeline
import Rdm.Spec.C08
import Rdm.Spec.C07
import Rdm.Model.Validate
namespace Rdm.Ops
open Rdm

def choquetEpsF : Float := Num.ofConst Facts.choquetEps

/-- `(listener-rank dmp)` → `(ok (wcrit...))` | `(err)` -/
def opListenerRank (args : List SExp) : R SExp := do
  match args with
  | [d] =>
    let dmp : DMP Float ← decDMP d
    pure (encR (rankAsc choquetEpsF dmp) fun l => .list (l.map encWCrit))
  | _ => throw "listener-rank: arity"

/-- `(listener-removed mp (crit...))` → `(ok mp')` | `(err)` -/
def opListenerRemoved (args : List SExp) : R SExp := do
  match args with
  | [mp, left] =>
    let mp : MParams Float ← decMParams mp
    pure (encR (onRemoved mp (← decCrits left)) encMParams)
  | _ => throw "listener-removed: arity"

/-- `(listener-added mp crit ref (draws...))` → `(ok addition consumed)` | `(err)` -/
def opListenerAdded (args : List SExp) : R SExp := do
  match args with
  | [mp, c, r, ds] =>
    let mp : MParams Float ← decMParams mp
    let ds : List Float ← decNums ds
    let res := onAdded mp (← decCrit c) (← decCrit r) ds
    pure (encR res fun (a, rest) => .list [encAddition a, SExp.nat (ds.length - rest.length)])
  | _ => throw "listener-added: arity"

/-- `(listener-merge mp addition)` → `(ok mp')` | `(err)` -/
def opListenerMerge (args : List SExp) : R SExp := do
  match args with
  | [mp, a] =>
    let mp : MParams Float ← decMParams mp
    pure (encR (mergeParams mp (← decAddition a)) encMParams)
  | _ => throw "listener-merge: arity"

/-- request bias entry `(name disabled prob|none)` -/
def decBiasReq {α} [Num α] (e : SExp) : R (BiasReq α Unit) := do
  match e with
  | .list [n, d, .atom "none"] => pure ⟨← n.asStr, ← d.asBool, none, ()⟩
  | .list [n, d, p] => pure ⟨← n.asStr, ← d.asBool, some (← p.asNum), ()⟩
  | _ => throw s!"bad bias request {e}"

/-- `(process-biases (avail...) ((name disabled prob|none)...) (draws...))` with stub biases that
    never fail and report their own name: → `(ok ((name prob fired)...) (applied-names...))` | `(err)` -/
def opProcessBiases (args : List SExp) : R SExp := do
  match args with
  | [av, reqs, ds] =>
    let reqs : List (BiasReq Float Unit) ← reqs.mapList decBiasReq
    let ds : List Float ← decNums ds
    let apply := fun (name : String) (_ : Unit) (_ : List String) (cur : List String) =>
      (pure (cur ++ [name], name) : R (List String × String))
    let r := do
      let chosen ← chooseBiases (← decStrs av) reqs
      if chosen.isEmpty then pure ([], [])
      else processBiases apply chosen [] ds
    pure (encR r fun (st, outs) =>
      .list [.list (outs.map fun o => .list [SExp.str o.name, SExp.num o.prob, SExp.bool o.report.isSome]), encStrs st])
  | _ => throw "process-biases: arity"

/-- `(check-c08 ((name disabled prob|none)...) ((name prob fired)...) (draws...))` -/
def opCheckC08 (args : List SExp) : R SExp := do
  match args with
  | [reqs, outs, ds] =>
    let reqs : List (BiasReq Rat Unit) ← reqs.mapList decBiasReq
    let outs ← outs.mapList fun e => do
      match e with
      | .list [n, p, f] => pure ((← n.asStr), ((← p.asNum : Rat), (← f.asBool)))
      | _ => throw "bad bias output"
    let ds : List Rat ← decNums ds
    pure (.atom (Spec.C08.explain (reqs.map fun r => (r.name, r.disabled, r.prob)) outs ds))
  | _ => throw "check-c08: arity"

/-- `(check-c07 dmp)` — coherence of a state handed from one stage to the next -/
def opCheckC07 (args : List SExp) : R SExp := do
  match args with
  | [d] =>
    let dmp : DMP Rat ← decDMP d
    pure (.atom (Spec.C07.explain dmp))
  | _ => throw "check-c07: arity"

/-- `(validate-request method (crit...) (alt...) (chosen...))` → `(ok)` | `(err)` -/
def opValidateRequest (args : List SExp) : R SExp := do
  match args with
  | [m, cs, ka, ch] =>
    let r := validateRequest (α := Float) (← m.asStr) (← decCrits cs) (← decAlts ka) (← decStrs ch)
    pure (encR r fun _ => .list [])
  | _ => throw "validate-request: arity"

def pipelineOps : List (String × (List SExp → R SExp)) :=
  [("listener-rank", opListenerRank), ("listener-removed", opListenerRemoved),
   ("listener-added", opListenerAdded), ("listener-merge", opListenerMerge),
   ("process-biases", opProcessBiases), ("check-c08", opCheckC08), ("check-c07", opCheckC07), ("validate-request", opValidateRequest)]

end Rdm.Ops
