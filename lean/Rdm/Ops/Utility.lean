import Rdm.Ops.Codec
namespace Rdm.Ops
open Rdm

def utilityOps : List (String × (List SExp → R SExp)) := []

end Rdm.Ops
