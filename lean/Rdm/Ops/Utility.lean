import Rdm.Ops.Codec
import Rdm.Ops.Ranking
import Rdm.Spec.C03
import Rdm.Generated.Facts
namespace Rdm.Ops
open Rdm

def encScoredR (r : R Float) : SExp := encR r SExp.num

/-- `(ws-value alt (wcrit...))` -/
def opWsValue (args : List SExp) : R SExp := do
  match args with
  | [a, wc] => pure (encScoredR (weightedSum (← decAlt a) (← wc.mapList decWCrit)))
  | _ => throw "ws-value: arity"

/-- `(owa-value alt (wcrit...))` -/
def opOwaValue (args : List SExp) : R SExp := do
  match args with
  | [a, wc] => pure (encScoredR (owa (← decAlt a) (← wc.mapList decWCrit)))
  | _ => throw "owa-value: arity"

/-- `(choquet-value alt (crit...) rawWeights)`: parse + integral, as `ChoquetIntegral` -/
def opChoquetValue (args : List SExp) : R SExp := do
  match args with
  | [a, cs, w] =>
    let alt : Alt Float ← decAlt a
    let r := do
      let pw ← choquetParse (← decCrits cs) (← decNumMap w)
      choquetValue (Num.ofConst Facts.choquetEps) alt pw
    pure (encScoredR r)
  | _ => throw "choquet-value: arity"

/-- the value a utility method gives an alternative under parsed parameters -/
def utilityValue (mp : MParams Float) (a : Alt Float) : R Float :=
  match mp with
  | .ws wc => weightedSum a wc
  | .owa wc => owa a wc
  | .choquet w _ => choquetValue (Num.ofConst Facts.choquetEps) a w
  | _ => throw "not-a-utility-method"

/-- `(utility-evaluate dmp)`: `Evaluate` of the three utility methods = `Rank` → ranking entries -/
def opUtilityEvaluate (args : List SExp) : R SExp := do
  match args with
  | [d] =>
    let dmp : DMP Float ← decDMP d
    let r : R (List (RankEntry Float)) := do
      let scored ← dmp.co.mapM fun a => do pure (⟨a.id, ← utilityValue dmp.mp a⟩ : Scored Float)
      pure (ranking scored)
    pure (encR r fun l => .list (l.map encEntry))
  | _ => throw "utility-evaluate: arity"

/-- `(utility-values dmp)`: the (rounded) value every considered alternative is reported with, keyed
    by id — the part of `Evaluate` that C03 is about (order and links are C04's) -/
def opUtilityValues (args : List SExp) : R SExp := do
  match args with
  | [d] =>
    let dmp : DMP Float ← decDMP d
    let r : R (KMap Float) := dmp.co.mapM fun a => do pure (a.id, round8 (← utilityValue dmp.mp a))
    pure (encR r encNumMap)
  | _ => throw "utility-values: arity"

/-- `(check-c03 method alt params value)` — exact comparison of Go's value with the defining
    formula.  `params`: `(wcrit...)` for ws/owa, parsed capacity map for choquet.
    Answers `ok`, `skip:<why>` (ill-conditioned, not alarmed) or the failing clause. -/
def opCheckC03 (args : List SExp) : R SExp := do
  match args with
  | [m, a, p, v] =>
    let method ← m.asStr
    let alt : Alt Rat ← decAlt a
    let got : Rat ← v.asNum
    let eps : Rat := Num.ofConst Facts.choquetEps
    if method == "weightedSum" then
      let wc : List (WCrit Rat) ← p.mapList decWCrit
      match Spec.C03.wsSpec alt wc with
      | none => pure (.atom "skip:missing-value")
      | some want =>
        let scale := Spec.C03.sum (wc.map fun c => Spec.C03.rabs (c.w * ((alt.vals.get? c.crit.id).getD 0)))
        pure (.atom (if Spec.C03.close got want scale then "ok" else "ws-formula"))
    else if method == "owa" then
      let wc : List (WCrit Rat) ← p.mapList decWCrit
      let vals := alt.vals.map (·.2)
      let ws := wc.map (·.w)
      let want := Spec.C03.owaSpec vals ws
      let scale := Spec.C03.sum ((Spec.C03.sortAsc vals).zip (Spec.C03.sortAsc ws) |>.map fun q => Spec.C03.rabs (q.1 * q.2))
      pure (.atom (if Spec.C03.close got want scale then "ok" else "owa-formula"))
    else if method == "choquetIntegral" then
      let w : KMap Rat ← decNumMap p
      if !Spec.C03.tiesUnambiguous eps alt then pure (.atom "skip:ambiguous-ties") else
      match Spec.C03.choquetSpec eps alt w with
      | none => pure (.atom "skip:missing-capacity")
      | some want =>
        let scale := Spec.C03.sum (alt.vals.map fun q => Spec.C03.rabs q.2)
        pure (.atom (if Spec.C03.close got want scale then "ok" else "choquet-formula"))
    else pure (.atom "skip:not-utility")
  | _ => throw "check-c03: arity"

def utilityOps : List (String × (List SExp → R SExp)) :=
  [("ws-value", opWsValue), ("owa-value", opOwaValue), ("choquet-value", opChoquetValue),
   ("utility-evaluate", opUtilityEvaluate), ("utility-values", opUtilityValues), ("check-c03", opCheckC03)]

end Rdm.Ops
