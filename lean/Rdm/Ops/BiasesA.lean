/-
  Driver ops of work package D1 (C15 criteria omission, C16 preference reversal, C17 fatigue):
  correspondence stages on `Float`, spec checkers on `Rat`.  Mirrors harness/main/c15.go … c17.go.
-/
import Rdm.Ops.Codec
import Rdm.Model.BiasesA
import Rdm.Spec.C15
import Rdm.Spec.C16
import Rdm.Spec.C17
namespace Rdm.Ops
open Rdm
variable {α : Type} [Num α]

def biasEpsF : Float := Num.ofConst Facts.choquetEps

/-- `(ratio min max)` -/
def decSplitCond (e : SExp) : R (SplitCond α) := do
  match e with
  | .list [r, lo, hi] => pure ⟨← r.asNum, ← lo.asInt, ← hi.asInt⟩
  | _ => throw s!"bad split condition {e}"

/-- `(id type (lo hi) ((alt value) ...))` -/
def encReversed (r : Reversed α) : SExp :=
  .list [SExp.str r.id, SExp.str r.type, .list [SExp.num r.range.1, SExp.num r.range.2], encNumMap r.vals]

def decReversed (e : SExp) : R (Reversed α) := do
  match e with
  | .list [i, t, .list [lo, hi], m] =>
    pure { id := ← i.asStr, type := ← t.asStr, range := (← lo.asNum, ← hi.asNum), vals := ← decNumMap m }
  | _ => throw s!"bad reversed criterion {e}"

/-- `(f co nc)` -/
def encFatigueReport (r : FatigueReport α) : SExp := .list [SExp.num r.f, encAlts r.co, encAlts r.nc]
def decFatigueReport (e : SExp) : R (FatigueReport α) := do
  match e with
  | .list [f, co, nc] => pure { f := ← f.asNum, co := ← decAlts co, nc := ← decAlts nc }
  | _ => throw s!"bad fatigue report {e}"

def encUnitR (r : R Unit) : SExp :=
  match r with
  | .ok _ => .list [.atom "ok"]
  | .error _ => .list [.atom "err"]

/-! ### correspondence stages -/

/-- `(split-validate (ratio min max))` → `(ok)` | `(err)` — `criteria_splitting.Parse`'s validation -/
def opSplitValidate (args : List SExp) : R SExp := do
  match args with
  | [c] =>
    let c : SplitCond Float ← decSplitCond c
    pure (encUnitR c.validate)
  | _ => throw "split-validate: arity"

/-- `(split (ratio min max) (crit...))` → `(ok ((left...) (right...)))` | `(err)` -/
def opSplit (args : List SExp) : R SExp := do
  match args with
  | [c, cs] =>
    let c : SplitCond Float ← decSplitCond c
    let cs : List (Crit Float) ← decCrits cs
    pure (encR (c.split cs) fun (l, r) => .list [encCrits l, encCrits r])
  | _ => throw "split: arity"

/-- `(order name dmp (draws...))` → `(ok (crit...))` | `(err)` -/
def opOrder (args : List SExp) : R SExp := do
  match args with
  | [n, d, ds] =>
    let dmp : DMP Float ← decDMP d
    pure (encR (orderCriteria biasEpsF (← n.asStr) dmp (← decNums ds)) encCrits)
  | _ => throw "order: arity"

/-- `(omission-apply (ratio min max) ordering dmp (draws...))` → `(ok (dmp' (omitted...)))` | `(err)` -/
def opOmissionApply (args : List SExp) : R SExp := do
  match args with
  | [c, n, d, ds] =>
    let c : SplitCond Float ← decSplitCond c
    let dmp : DMP Float ← decDMP d
    pure (encR (omissionApply biasEpsF c (← n.asStr) dmp (← decNums ds)) fun (r, om) =>
      .list [encDMP r, encCrits om])
  | _ => throw "omission-apply: arity"

/-- `(reversal-apply (ratio min max) ordering dmp (draws...))` → `(ok (dmp' (reversed...)))` | `(err)` -/
def opReversalApply (args : List SExp) : R SExp := do
  match args with
  | [c, n, d, ds] =>
    let c : SplitCond Float ← decSplitCond c
    let dmp : DMP Float ← decDMP d
    pure (encR (reversalApply biasEpsF c (← n.asStr) dmp (← decNums ds)) fun (r, rep) =>
      .list [encDMP r, .list (rep.map encReversed)])
  | _ => throw "reversal-apply: arity"

/-- `(fatigue-apply name (value alpha multiplier queryNumber) fGo (scaling nonNeg) dmp (draws...))`
    → `(ok (dmp' (f co nc)))` | `(err)`.
    `const`: the ratio is computed by the model; `expFromZero`: `exp` is external, the blur stage takes
    the ratio the implementation reported (`fGo`), the formula is checked by `check-c17-ratio`. -/
def opFatigueApply (args : List SExp) : R SExp := do
  match args with
  | [n, .list [v, a, m, q], fgo, b, d, ds] =>
    let name ← n.asStr
    let fgo : Float ← fgo.asNum
    let v : Float ← v.asNum
    let a : Float ← a.asNum
    let m : Float ← m.asNum
    let q ← q.asInt
    let fn : FatigueFn Float :=
      if name == Facts.fatigueConst then .const v
      else if name == Facts.fatigueExp then .expFromZero a m q
      else .unknown name
    let b : Bounding Float ← decBounding b
    let dmp : DMP Float ← decDMP d
    let ds : List Float ← decNums ds
    -- the only law used of the external `exp`: at this call it returned what the code observed
    let res := match fn with
      | .expFromZero _ _ _ => fatigueBlur fgo b dmp ds ds
      | fn => fatigueApply Float.exp fn b dmp ds
    pure (encR res fun (r, rep) => .list [encDMP r, encFatigueReport rep])
  | _ => throw "fatigue-apply: arity"

/-! ### spec checkers (exact rationals, on the implementation's output) -/

/-- `(check-c15-order (declared...) (ordered...))` -/
def opCheckC15Order (args : List SExp) : R SExp := do
  match args with
  | [cs, os] =>
    let cs : List (Crit Rat) ← decCrits cs
    let os : List (Crit Rat) ← decCrits os
    pure (.atom (if Spec.C15.orderIsPerm cs os then "ok" else "ordering-not-a-permutation"))
  | _ => throw "check-c15-order: arity"

/-- `(check-c15 ordering (ratio min max) cur res (omitted...) (ranked...))` -/
def opCheckC15 (args : List SExp) : R SExp := do
  match args with
  | [n, c, cur, res, om, rk] =>
    let c : SplitCond Rat ← decSplitCond c
    let cur : DMP Rat ← decDMP cur
    let res : DMP Rat ← decDMP res
    pure (.atom (Spec.C15.explain (← n.asStr) c cur res (← decCrits om) (← rk.mapList decWCrit)))
  | _ => throw "check-c15: arity"

/-- `(check-c16 (ratio min max) (ordered...) cur res (reversed...))` -/
def opCheckC16 (args : List SExp) : R SExp := do
  match args with
  | [c, os, cur, res, rep] =>
    let c : SplitCond Rat ← decSplitCond c
    let cur : DMP Rat ← decDMP cur
    let res : DMP Rat ← decDMP res
    pure (.atom (Spec.C16.explain c (← decCrits os) cur res (← rep.mapList decReversed)))
  | _ => throw "check-c16: arity"

/-- `(check-c17 f (scaling nonNeg) cur res (f co nc))` -/
def opCheckC17 (args : List SExp) : R SExp := do
  match args with
  | [f, b, cur, res, rep] =>
    let f : Rat ← f.asNum
    let b : Bounding Rat ← decBounding b
    let cur : DMP Rat ← decDMP cur
    let res : DMP Rat ← decDMP res
    pure (.atom (Spec.C17.explain f b cur res (← decFatigueReport rep)))
  | _ => throw "check-c17: arity"

/-- `(check-c17-ratio name (value alpha multiplier queryNumber) f)` -/
def opCheckC17Ratio (args : List SExp) : R SExp := do
  match args with
  | [n, .list [v, a, m, q], f] =>
    let ok := Spec.C17.ratioOk (← n.asStr) (← v.asNum) (← a.asNum) (← m.asNum) (← q.asInt) (← f.asNum)
    pure (.atom (if ok then "ok" else "ratio-formula"))
  | _ => throw "check-c17-ratio: arity"

def biasesAOps : List (String × (List SExp → R SExp)) :=
  [("split-validate", opSplitValidate), ("split", opSplit), ("order", opOrder),
   ("omission-apply", opOmissionApply), ("reversal-apply", opReversalApply),
   ("fatigue-apply", opFatigueApply),
   ("check-c15-order", opCheckC15Order), ("check-c15", opCheckC15), ("check-c16", opCheckC16),
   ("check-c17", opCheckC17), ("check-c17-ratio", opCheckC17Ratio)]

end Rdm.Ops
