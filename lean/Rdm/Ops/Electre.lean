import Rdm.Ops.Codec
namespace Rdm.Ops
open Rdm

def electreOps : List (String × (List SExp → R SExp)) := []

end Rdm.Ops
