/- Driver ops of the ELECTRE III stages (C05 / C06); mirrors harness/main/c05.go. -/
import Rdm.Ops.Codec
import Rdm.Model.Electre
import Rdm.Spec.C05
namespace Rdm.Ops
open Rdm
variable {α : Type} [Num α]

/-- `(size (data ...))` -/
def decMatrix (e : SExp) : R (Matrix α) := do
  match e with
  | .list [n, d] => pure ⟨← n.asNat, ← decNums d⟩
  | _ => throw s!"bad matrix {e}"
def encMatrix (m : Matrix α) : SExp := .list [SExp.nat m.size, encNums m.data]

/-- `default` (the constant of distilation.go, from the generated facts) or `(a b)` -/
def decDist (e : SExp) : R (LinFun α) :=
  match e with
  | .atom "default" => pure defaultDistillation
  | _ => decLinFun e

def decNats (e : SExp) : R (List Nat) := e.mapList SExp.asNat

def encLinked (l : Linked (Int × Int)) : SExp :=
  .list [SExp.str l.id, SExp.int l.ev.1, SExp.int l.ev.2, encStrs l.links]
def decLinked (e : SExp) : R (Linked (Int × Int)) := do
  match e with
  | .list [i, a, d, l] => pure ⟨← i.asStr, (← a.asInt, ← d.asInt), ← decStrs l⟩
  | _ => throw s!"bad electre entry {e}"

def encERes (r : ERes α) : SExp := .list [SExp.num r.c, SExp.num r.d]
def decERes (e : SExp) : R (ERes α) := do
  match e with
  | .list [c, d] => pure ⟨← c.asNum, ← d.asNum⟩
  | _ => throw s!"bad electre result {e}"

/-- `(electre-crit c1 c2 crit ecrit)` → `(C D)` — `calculateElectreResult` on signed values -/
def opElectreCrit (args : List SExp) : R SExp := do
  match args with
  | [c1, c2, c, t] =>
    let c1 : Float ← c1.asNum
    let c2 : Float ← c2.asNum
    let c : Crit Float ← decCrit c
    let t : ECrit Float ← decECrit t
    pure (encERes (calcElectreResult c1 c2 c.mult t))
  | _ => throw "electre-crit: arity"

/-- `(electre-matrix alts crits ec)` → `(ok (size data))` | `(err)` — `evaluateCredibilityMatrix` -/
def opElectreMatrix (args : List SExp) : R SExp := do
  match args with
  | [a, c, ec] =>
    let alts : List (Alt Float) ← decAlts a
    let crits : List (Crit Float) ← decCrits c
    let ec : KMap (ECrit Float) ← ec.asKMap decECrit
    pure (encR (credibilityMatrix alts crits ec) encMatrix)
  | _ => throw "electre-matrix: arity"

/-- `(electre-rank-asc m dist)` / `(electre-rank-desc m dist)` → `(ok (ints))` | `(err)` -/
def opElectreRank (asc : Bool) (args : List SExp) : R SExp := do
  match args with
  | [m, s] =>
    let m : Matrix Float ← decMatrix m
    let s : LinFun Float ← decDist s
    pure (encR (if asc then rankAscending m s else rankDescending m s) encInts)
  | _ => throw "electre-rank: arity"

/-- `(electre-slice m idx)` etc. → `(size data)`; `flat` selects the literal flat-array model -/
def opElectreSub (slice flat : Bool) (args : List SExp) : R SExp := do
  match args with
  | [m, idx] =>
    let m : Matrix Float ← decMatrix m
    let idx ← decNats idx
    pure (encMatrix (match slice, flat with
      | true, false => m.slice idx
      | true, true => m.sliceFlat idx
      | false, false => m.without idx
      | false, true => m.withoutFlat idx))
  | _ => throw "electre-slice/without: arity"

/-- `(electre-links asc desc ids)` → `((id asc desc (links)) ...)` — `EvaluateRanking` -/
def opElectreLinks (args : List SExp) : R SExp := do
  match args with
  | [a, d, ids] =>
    pure (.list ((evaluateRanking (← decInts a) (← decInts d) (← decStrs ids)).map encLinked))
  | _ => throw "electre-links: arity"

/-- `(electre-e2e alts crits ec dist)` → `(ok ((id asc desc (links)) ...))` | `(err)` — `ElectreIII` -/
def opElectreE2E (args : List SExp) : R SExp := do
  match args with
  | [a, c, ec, s] =>
    let alts : List (Alt Float) ← decAlts a
    let crits : List (Crit Float) ← decCrits c
    let ec : KMap (ECrit Float) ← ec.asKMap decECrit
    let s : LinFun Float ← decDist s
    pure (encR (electreIII alts crits ec s) fun l => .list (l.map encLinked))
  | _ => throw "electre-e2e: arity"

/-- `(electre-validate ecrit)` → `true|false` (accepted) — `validateParameters` -/
def opElectreValidate (args : List SExp) : R SExp := do
  match args with
  | [t] =>
    let t : ECrit Float ← decECrit t
    pure (SExp.bool (match validateParameters t with | .ok _ => true | .error _ => false))
  | _ => throw "electre-validate: arity"

/-- `(electre-dist-valid (a b))` → `true|false` — the guard of `getDistillationFunc` -/
def opElectreDistValid (args : List SExp) : R SExp := do
  match args with
  | [s] =>
    let s : LinFun Float ← decLinFun s
    pure (SExp.bool (validDistillation s))
  | _ => throw "electre-dist-valid: arity"

/-! ### spec checkers on the implementation's outputs -/

/-- `(check-c05-crit c1 c2 ecrit (C D))` -/
def opCheckC05Crit (args : List SExp) : R SExp := do
  match args with
  | [c1, c2, t, res] =>
    let t : ECrit Rat ← decECrit t
    if !Spec.C05.critInDomain t then throw "check-c05-crit: out of domain"
    pure (.atom (Spec.C05.explainCrit (← c1.asNum) (← c2.asNum) (← decERes res)))
  | _ => throw "check-c05-crit: arity"

def allInDomain (crits : List (Crit Rat)) (ec : KMap (ECrit Rat)) : Bool :=
  !crits.isEmpty && crits.all fun c => match ec.get? c.id with
    | some t => Spec.C05.critInDomain t
    | none => false

/-- `(check-c05-matrix alts crits ec (size data))` -/
def opCheckC05Matrix (args : List SExp) : R SExp := do
  match args with
  | [a, c, ec, m] =>
    let alts : List (Alt Rat) ← decAlts a
    let crits : List (Crit Rat) ← decCrits c
    let ec : KMap (ECrit Rat) ← ec.asKMap decECrit
    if !allInDomain crits ec then throw "check-c05-matrix: out of domain"
    pure (.atom (Spec.C05.explainMatrix alts crits ec (← decMatrix m)))
  | _ => throw "check-c05-matrix: arity"

/-- `(check-c05-rank m dist asc desc)` -/
def opCheckC05Rank (args : List SExp) : R SExp := do
  match args with
  | [m, s, a, d] =>
    let sQ : LinFun Rat ← decDist s
    if !Spec.C05.distInDomain sQ then throw "check-c05-rank: out of domain"
    pure (.atom (Spec.C05.explainRank (← decMatrix m) (← decDist s) (← decMatrix m) sQ (← decInts a) (← decInts d)))
  | _ => throw "check-c05-rank: arity"

/-- `(c05-illcond m dist)` → `true|false` (informational, not part of any verdict) -/
def opC05IllCond (args : List SExp) : R SExp := do
  match args with
  | [m, s] => pure (SExp.bool (Spec.C05.illConditioned (← decMatrix m) (← decDist s) (← decMatrix m) (← decDist s)))
  | _ => throw "c05-illcond: arity"

/-- `(check-c05-links ((id asc desc (links)) ...))` -/
def opCheckC05Links (args : List SExp) : R SExp := do
  match args with
  | [l] => pure (.atom (Spec.C05.explainLinks (← l.mapList decLinked)))
  | _ => throw "check-c05-links: arity"

/-- `(check-c05-e2e ids m dist ((id asc desc (links)) ...))`: the final answer of `ElectreIII` carries the
    class numbers of the two declarative distillations of the (separately checked) credibility matrix,
    in the order of the alternatives, and the links clause holds -/
def opCheckC05E2E (args : List SExp) : R SExp := do
  match args with
  | [ids, m, s, out] =>
    let ids ← decStrs ids
    let out ← out.mapList decLinked
    let sQ : LinFun Rat ← decDist s
    if !Spec.C05.distInDomain sQ then throw "check-c05-e2e: out of domain"
    if out.map (·.id) != ids then pure (.atom "alternatives-order")
    else
      let r := Spec.C05.explainRank (← decMatrix m) (← decDist s) (← decMatrix m) sQ (out.map (·.ev.1)) (out.map (·.ev.2))
      if r != "ok" then pure (.atom r) else pure (.atom (Spec.C05.explainLinks out))
  | _ => throw "check-c05-e2e: arity"

def electreOps : List (String × (List SExp → R SExp)) :=
  [("electre-crit", opElectreCrit), ("electre-matrix", opElectreMatrix),
   ("electre-rank-asc", opElectreRank true), ("electre-rank-desc", opElectreRank false),
   ("electre-slice", opElectreSub true false), ("electre-slice-flat", opElectreSub true true),
   ("electre-without", opElectreSub false false), ("electre-without-flat", opElectreSub false true),
   ("electre-links", opElectreLinks), ("electre-e2e", opElectreE2E),
   ("electre-validate", opElectreValidate), ("electre-dist-valid", opElectreDistValid),
   ("check-c05-crit", opCheckC05Crit), ("check-c05-matrix", opCheckC05Matrix),
   ("check-c05-rank", opCheckC05Rank), ("c05-illcond", opC05IllCond),
   ("check-c05-links", opCheckC05Links), ("check-c05-e2e", opCheckC05E2E)]

end Rdm.Ops
