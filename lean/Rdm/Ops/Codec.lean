/- S-expression codecs for the shared model types (mirrors harness/main/codec.go). -/
import Rdm.Model.Types
namespace Rdm.Ops
open Rdm
variable {α : Type} [Num α]

/-- `(id type)` or `(id type min max)` -/
def decCrit (e : SExp) : R (Crit α) := do
  match e with
  | .list [i, t] => pure { id := ← i.asStr, type := ← t.asStr }
  | .list [i, t, lo, hi] => pure { id := ← i.asStr, type := ← t.asStr, range := some (← lo.asNum, ← hi.asNum) }
  | _ => throw s!"bad criterion {e}"

def encCrit (c : Crit α) : SExp :=
  match c.range with
  | none => .list [SExp.str c.id, SExp.str c.type]
  | some (lo, hi) => .list [SExp.str c.id, SExp.str c.type, SExp.num lo, SExp.num hi]

def decNumMap (e : SExp) : R (KMap α) := e.asKMap SExp.asNum
def encNumMap (m : KMap α) : SExp := SExp.kmap m SExp.num

/-- `(id ((crit value) ...))` -/
def decAlt (e : SExp) : R (Alt α) := do
  match e with
  | .list [i, m] => pure { id := ← i.asStr, vals := ← decNumMap m }
  | _ => throw s!"bad alternative {e}"

def encAlt (a : Alt α) : SExp := .list [SExp.str a.id, encNumMap a.vals]

def decCrits (e : SExp) : R (List (Crit α)) := e.mapList decCrit
def decAlts (e : SExp) : R (List (Alt α)) := e.mapList decAlt
def encCrits (l : List (Crit α)) : SExp := .list (l.map encCrit)
def encAlts (l : List (Alt α)) : SExp := .list (l.map encAlt)

def decNums (e : SExp) : R (List α) := e.mapList SExp.asNum
def encNums (l : List α) : SExp := .list (l.map SExp.num)
def decStrs (e : SExp) : R (List String) := e.mapList SExp.asStr
def encStrs (l : List String) : SExp := .list (l.map SExp.str)
def decInts (e : SExp) : R (List Int) := e.mapList SExp.asInt
def encInts (l : List Int) : SExp := .list (l.map SExp.int)

/-- `(a b)` -/
def decLinFun (e : SExp) : R (LinFun α) := do
  match e with
  | .list [a, b] => pure ⟨← a.asNum, ← b.asNum⟩
  | _ => throw s!"bad linear function {e}"

/-- `(crit weight)` with crit as in `decCrit` -/
def decWCrit (e : SExp) : R (WCrit α) := do
  match e with
  | .list [c, w] => pure ⟨← decCrit c, ← w.asNum⟩
  | _ => throw s!"bad weighted criterion {e}"
def encWCrit (c : WCrit α) : SExp := .list [encCrit c.crit, SExp.num c.w]

/-- `(scaling nonNeg)` -/
def decBounding (e : SExp) : R (Bounding α) := do
  match e with
  | .list [s, n] => pure ⟨← s.asNum, ← n.asBool⟩
  | _ => throw s!"bad bounding {e}"

/-- result of a stage that may panic in Go: `(ok v)` / `(err)`; the harness prints the same -/
def encR {β} (r : R β) (f : β → SExp) : SExp :=
  match r with
  | .ok v => .list [.atom "ok", f v]
  | .error _ => .list [.atom "err"]

end Rdm.Ops
