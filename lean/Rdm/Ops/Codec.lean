/- S-expression codecs for the shared model types (mirrors harness/main/codec.go). -/
import Rdm.Model.Types
import Rdm.Model.Listener
namespace Rdm.Ops
open Rdm
variable {α : Type} [Num α]

/-- `(id type)` or `(id type min max)` -/
def decCrit (e : SExp) : R (Crit α) := do
  match e with
  | .list [i, t] => pure { id := ← i.asStr, type := ← t.asStr }
  | .list [i, t, lo, hi] => pure { id := ← i.asStr, type := ← t.asStr, range := some (← lo.asNum, ← hi.asNum) }
  | _ => throw s!"bad criterion {e}"

def encCrit (c : Crit α) : SExp :=
  match c.range with
  | none => .list [SExp.str c.id, SExp.str c.type]
  | some (lo, hi) => .list [SExp.str c.id, SExp.str c.type, SExp.num lo, SExp.num hi]

def decNumMap (e : SExp) : R (KMap α) := e.asKMap SExp.asNum
def encNumMap (m : KMap α) : SExp := SExp.kmap m SExp.num

/-- `(id ((crit value) ...))` -/
def decAlt (e : SExp) : R (Alt α) := do
  match e with
  | .list [i, m] => pure { id := ← i.asStr, vals := ← decNumMap m }
  | _ => throw s!"bad alternative {e}"

def encAlt (a : Alt α) : SExp := .list [SExp.str a.id, encNumMap a.vals]

def decCrits (e : SExp) : R (List (Crit α)) := e.mapList decCrit
def decAlts (e : SExp) : R (List (Alt α)) := e.mapList decAlt
def encCrits (l : List (Crit α)) : SExp := .list (l.map encCrit)
def encAlts (l : List (Alt α)) : SExp := .list (l.map encAlt)

def decNums (e : SExp) : R (List α) := e.mapList SExp.asNum
def encNums (l : List α) : SExp := .list (l.map SExp.num)
def decStrs (e : SExp) : R (List String) := e.mapList SExp.asStr
def encStrs (l : List String) : SExp := .list (l.map SExp.str)
def decInts (e : SExp) : R (List Int) := e.mapList SExp.asInt
def encInts (l : List Int) : SExp := .list (l.map SExp.int)

/-- `(a b)` -/
def decLinFun (e : SExp) : R (LinFun α) := do
  match e with
  | .list [a, b] => pure ⟨← a.asNum, ← b.asNum⟩
  | _ => throw s!"bad linear function {e}"

/-- `(crit weight)` with crit as in `decCrit` -/
def decWCrit (e : SExp) : R (WCrit α) := do
  match e with
  | .list [c, w] => pure ⟨← decCrit c, ← w.asNum⟩
  | _ => throw s!"bad weighted criterion {e}"
def encWCrit (c : WCrit α) : SExp := .list [encCrit c.crit, SExp.num c.w]

/-- `(scaling nonNeg)` -/
def decBounding (e : SExp) : R (Bounding α) := do
  match e with
  | .list [s, n] => pure ⟨← s.asNum, ← n.asBool⟩
  | _ => throw s!"bad bounding {e}"

def encLinFun (f : LinFun α) : SExp := .list [SExp.num f.a, SExp.num f.b]

/-- `(k (qa qb) (pa pb) (va vb))` -/
def decECrit (e : SExp) : R (ECrit α) := do
  match e with
  | .list [k, q, p, v] => pure ⟨← k.asNum, ← decLinFun q, ← decLinFun p, ← decLinFun v⟩
  | _ => throw s!"bad electre criterion {e}"
def encECrit (c : ECrit α) : SExp := .list [SExp.num c.k, encLinFun c.q, encLinFun c.p, encLinFun c.v]

/-- `(coef c max min)` | `(thresholds (kmap ...))` -/
def decLevels (e : SExp) : R (Levels α) := do
  match e with
  | .list [.atom "coef", c, mx, mn] => pure (.coef (← c.asNum) (← mx.asNum) (← mn.asNum))
  | .list [.atom "thresholds", ts] => pure (.thresholds (← ts.mapList decNumMap))
  | _ => throw s!"bad levels {e}"
def encLevels : Levels α → SExp
  | .coef c mx mn => .list [.atom "coef", SExp.num c, SExp.num mx, SExp.num mn]
  | .thresholds ts => .list [.atom "thresholds", .list (ts.map encNumMap)]

def decLvAdd (e : SExp) : R (LvAdd α) := do
  match e with
  | .list [.atom "none"] => pure .none
  | .list [.atom "thresholds", ts] => pure (.thresholds (← ts.mapList decNumMap))
  | _ => throw s!"bad levels addition {e}"
def encLvAdd : LvAdd α → SExp
  | .none => .list [.atom "none"]
  | .thresholds ts => .list [.atom "thresholds", .list (ts.map encNumMap)]

/-- method parameters, as printed by harness/main/params.go `paramsSX` -/
def decMParams (e : SExp) : R (MParams α) := do
  match e with
  | .list [.atom "ws", wc] => pure (.ws (← wc.mapList decWCrit))
  | .list [.atom "owa", wc] => pure (.owa (← wc.mapList decWCrit))
  | .list [.atom "choquet", w, cs] => pure (.choquet (← decNumMap w) (← decCrits cs))
  | .list [.atom "electre", ec, dist] => pure (.electre (← ec.asKMap decECrit) (← decLinFun dist))
  | .list [.atom "majority", w, cur, seed, rnd, dr] =>
    pure (.majority (← decNumMap w) (← cur.asStr) (← seed.asInt) (← rnd.asBool) (← dr.asStr))
  | .list [.atom "aspect", fn, lv, seed, w, rnd] =>
    pure (.aspect (← fn.asStr) (← decLevels lv) (← seed.asInt) (← decNumMap w) (← rnd.asBool))
  | .list [.atom "satisf", fn, lv, seed, cur, rnd] =>
    pure (.satisf (← fn.asStr) (← decLevels lv) (← seed.asInt) (← cur.asStr) (← rnd.asBool))
  | _ => throw s!"bad method parameters {e}"

def encMParams : MParams α → SExp
  | .ws wc => .list [.atom "ws", .list (wc.map encWCrit)]
  | .owa wc => .list [.atom "owa", .list (wc.map encWCrit)]
  | .choquet w cs => .list [.atom "choquet", encNumMap w, encCrits cs]
  | .electre ec dist => .list [.atom "electre", SExp.kmap ec encECrit, encLinFun dist]
  | .majority w cur seed rnd dr =>
    .list [.atom "majority", encNumMap w, SExp.str cur, SExp.int seed, SExp.bool rnd, SExp.str dr]
  | .aspect fn lv seed w rnd =>
    .list [.atom "aspect", SExp.str fn, encLevels lv, SExp.int seed, encNumMap w, SExp.bool rnd]
  | .satisf fn lv seed cur rnd =>
    .list [.atom "satisf", SExp.str fn, encLevels lv, SExp.int seed, SExp.str cur, SExp.bool rnd]

/-- additions, as printed by `additionSX` -/
def encAddition : Addition α → SExp
  | .ws wc => .list [.atom "ws", .list (wc.map encWCrit)]
  | .weightType w => .list [.atom "weightType", encNumMap w]
  | .choquet w cs => .list [.atom "choquet", encNumMap w, encCrits cs]
  | .electre ec => .list [.atom "electre", SExp.kmap ec encECrit]
  | .aspect w la => .list [.atom "aspect", encNumMap w, encLvAdd la]
  | .satisf la => .list [.atom "satisf", encLvAdd la]

def decAddition (e : SExp) : R (Addition α) := do
  match e with
  | .list [.atom "ws", wc] => pure (.ws (← wc.mapList decWCrit))
  | .list [.atom "weightType", w] => pure (.weightType (← decNumMap w))
  | .list [.atom "choquet", w, cs] => pure (.choquet (← decNumMap w) (← decCrits cs))
  | .list [.atom "electre", ec] => pure (.electre (← ec.asKMap decECrit))
  | .list [.atom "aspect", w, la] => pure (.aspect (← decNumMap w) (← decLvAdd la))
  | .list [.atom "satisf", la] => pure (.satisf (← decLvAdd la))
  | _ => throw s!"bad addition {e}"

/-- `(nc co crit mp)` — a `DecisionMakingParams` -/
def decDMP (e : SExp) : R (DMP α) := do
  match e with
  | .list [nc, co, cs, mp] => pure ⟨← decAlts nc, ← decAlts co, ← decCrits cs, ← decMParams mp⟩
  | _ => throw s!"bad dmp {e}"
def encDMP (d : DMP α) : SExp := .list [encAlts d.nc, encAlts d.co, encCrits d.crit, encMParams d.mp]

/-- result of a stage that may panic in Go: `(ok v)` / `(err)`; the harness prints the same -/
def encR {β} (r : R β) (f : β → SExp) : SExp :=
  match r with
  | .ok v => .list [.atom "ok", f v]
  | .error _ => .list [.atom "err"]

end Rdm.Ops
