import Rdm.Ops.Codec
import Rdm.Model.Links
import Rdm.Spec.C01
namespace Rdm.Ops
open Rdm

def encLinks {β} (l : List (Linked β)) : SExp :=
  .list (l.map fun e => .list [SExp.str e.id, encStrs e.links])

/-- `(sequential-ranking (id...))` -/
def opSequentialRanking (args : List SExp) : R SExp := do
  match args with
  | [ids] => pure (encLinks (sequentialRanking ((← decStrs ids).map fun i => (i, ()))))
  | _ => throw "sequential-ranking: arity"

/-- `(majority-ranking ((id...) ...))` groups worst first -/
def opMajorityRanking (args : List SExp) : R SExp := do
  match args with
  | [gs] =>
    let groups ← gs.mapList decStrs
    pure (encLinks (majorityRanking (groups.map fun g => g.map fun i => (i, ()))))
  | _ => throw "majority-ranking: arity"

/-- `(evaluate-ranking (asc...) (desc...) (id...))` -/
def opEvaluateRanking (args : List SExp) : R SExp := do
  match args with
  | [a, d, ids] =>
    let r := evaluateRanking (← decInts a) (← decInts d) (← decStrs ids)
    pure (.list (r.map fun e => .list [SExp.str e.id, SExp.int e.ev.1, SExp.int e.ev.2, encStrs e.links]))
  | _ => throw "evaluate-ranking: arity"

/-- `(check-c01 (expected...) ((id (links...)) ...))` -/
def opCheckC01 (args : List SExp) : R SExp := do
  match args with
  | [ex, out] =>
    let out ← out.mapList fun e => do
      match e with
      | .list [i, l] => pure (← i.asStr, ← decStrs l)
      | _ => throw "bad entry"
    pure (.atom (Spec.C01.explain (← decStrs ex) out))
  | _ => throw "check-c01: arity"

def linksOps : List (String × (List SExp → R SExp)) :=
  [("sequential-ranking", opSequentialRanking), ("majority-ranking", opMajorityRanking),
   ("evaluate-ranking", opEvaluateRanking), ("check-c01", opCheckC01)]

end Rdm.Ops
