/-
  Spec.C05 — declarative statement of "ELECTRE III indices follow the method's definition".

  The distillation is stated on index *sets* (ascending lists of the original alternative numbers)
  and a credibility function `σ i j`; nothing here re-indexes a flat array.  One distillation:

    A := all alternatives, class number k := 1
    repeat  λ := max σ over ordered pairs of distinct members of A            (0 if none)
            C := narrow A λ,  every member of C gets class k,  A := A \ C,  k := k + 1
    narrow A λ:  if λ = 0 then A else
            λ' := max { σ(i,j) | i ≠ j ∈ A, σ(i,j) < λ − s(λ) }               (0 if none)
            i S j  :⇔  σ(i,j) > λ'  ∧  σ(i,j) > σ(j,i) + s(σ(i,j))
            qualification q(i) := |{j ∈ A | i S j}| − |{j ∈ A | j S i}|
            B := members of A with the best (max resp. min) qualification
            if |B| > 1 ∧ λ' > 0 then narrow B λ' else B

  `RankAscending` of the code is the distillation keeping the *maximal* qualification, `RankDescending`
  the one keeping the *minimal* qualification with the class numbers reversed (`max + 1 − k`).

  The definitions are generic in the number type.  The checkers evaluate them (a) in exact rational
  arithmetic on the exact values of the reported float entries and (b) with the float expressions of
  the code (`λ − s(λ)`, `σ(j,i) + s(σ(i,j))`, each one rounding per operation).  (a) and (b) can differ
  only when a comparison is decided by a rounding error of these two expressions (ill-conditioned
  case); then (b) is the reference, so that no alarm is raised by rounding alone.
-/
import Rdm.Model.Electre
namespace Rdm.Spec.C05
open Rdm
variable {α : Type} [Num α]

/-! ### the declarative distillation -/

/-- credibility function of a matrix, the diagonal plays no role (`removeDiagonal`) -/
def sigmaOf (m : Matrix α) (i j : Nat) : α := if i == j then Num.zero else m.at i j

/-- ordered pairs of distinct members of `A` -/
def pairs (A : List Nat) : List (Nat × Nat) :=
  A.flatMap fun i => (A.filter fun j => j != i).map fun j => (i, j)

/-- maximum of a list, 0 for the empty list (all credibilities are non-negative) -/
def maxOr0 (l : List α) : α := l.foldl (fun b v => if b < v then v else b) Num.zero

/-- `s(x)` -/
def sVal (s : LinFun α) (x : α) : α := (s.eval x).1

/-- the next cut level below `lam` -/
def cutLevel (σ : Nat → Nat → α) (s : LinFun α) (A : List Nat) (lam : α) : α :=
  let thr := lam - sVal s lam
  maxOr0 (((pairs A).map fun p => σ p.1 p.2).filter fun v => decide (v < thr))

/-- `i S j` at cut level `cut` -/
def outranks (σ : Nat → Nat → α) (s : LinFun α) (cut : α) (i j : Nat) : Bool :=
  i != j && decide (cut < σ i j) && decide (σ j i + sVal s (σ i j) < σ i j)

/-- strength − weakness inside `A` -/
def qualification (σ : Nat → Nat → α) (s : LinFun α) (cut : α) (A : List Nat) (i : Nat) : Int :=
  ((A.filter fun j => outranks σ s cut i j).length : Int) - ((A.filter fun j => outranks σ s cut j i).length : Int)

/-- the best value of a non-empty list of qualifications -/
def bestOf (pickMax : Bool) : List Int → Int
  | [] => 0
  | q :: qs => qs.foldl (fun b x => if pickMax then (if b < x then x else b) else (if x < b then x else b)) q

/-- members of `A` with the best qualification -/
def bestSet (pickMax : Bool) (A : List Nat) (q : Nat → Int) : List Nat :=
  let b := bestOf pickMax (A.map q)
  A.filter fun i => q i == b

/-- the class extracted from `A` when the current credibility level is `lam` -/
def narrow (σ : Nat → Nat → α) (s : LinFun α) (pickMax : Bool) : Nat → List Nat → α → Option (List Nat)
  | 0, _, _ => none
  | fuel + 1, A, lam =>
    if lam == Num.zero then some A
    else
      let cut := cutLevel σ s A lam
      let B := bestSet pickMax A (qualification σ s cut A)
      if decide (B.length > 1) && decide (Num.zero < cut) then narrow σ s pickMax fuel B cut else some B

/-- one complete distillation: `(alternative, class number)` for every member of `A` -/
def distill (σ : Nat → Nat → α) (s : LinFun α) (pickMax : Bool) (fuelN : Nat) :
    Nat → List Nat → Int → Option (List (Nat × Int))
  | 0, _, _ => none
  | fuel + 1, A, k =>
    if A.isEmpty then some []
    else do
      let lam := maxOr0 ((pairs A).map fun p => σ p.1 p.2)
      let C ← narrow σ s pickMax fuelN A lam
      let rest := A.filter fun i => !C.contains i
      if rest.isEmpty || C.isEmpty then some (C.map fun i => (i, k))
      else do
        let further ← distill σ s pickMax fuelN fuel rest (k + 1)
        some ((C.map fun i => (i, k)) ++ further)

/-- class numbers, by alternative, of the distillation of an `n × n` credibility matrix (the recursion
    depths are bounded by `rankFuel n = n² + n + 2`, see `Props.C05.rank_terminates`) -/
def classes (m : Matrix α) (s : LinFun α) (pickMax : Bool) : Option (List Int) := do
  let n := m.size
  let asg ← distill (sigmaOf m) s pickMax (rankFuel n) (rankFuel n) (List.range n) 1
  (List.range n).mapM fun i => asg.lookup i

/-- the first distillation (`RankAscending` of the code): best qualification first -/
def specAscending (m : Matrix α) (s : LinFun α) : Option (List Int) := classes m s true

/-- the second distillation (`RankDescending` of the code): worst first, numbering reversed -/
def specDescending (m : Matrix α) (s : LinFun α) : Option (List Int) := do
  let cl ← classes m s false
  let mx := cl.foldl (fun b x => if b < x then x else b) 0
  some (cl.map fun k => mx + 1 - k)

/-! ### clause checkers (evaluated on the implementation's outputs) -/

/-- class numbers are exactly `1..max`, every class non-empty -/
def consecutiveFrom1 (l : List Int) : Bool :=
  let mx := l.foldl (fun b x => if b < x then x else b) 0
  l.all (fun x => decide (1 ≤ x)) && (List.range mx.toNat).all fun k => l.contains ((k : Int) + 1)

/-- `betterThanOrSameAs` of entry a is exactly {b ≠ a | asc a ≤ asc b ∧ desc a ≤ desc b}
    (by position, in list order, so no duplicates) -/
def linksOk (out : List (Linked (Int × Int))) : Bool :=
  let rows := (List.range out.length).zip out
  rows.all fun (ia, a) =>
    a.links == (rows.filter fun (ib, b) => ia != ib && decide (a.ev.1 ≤ b.ev.1) && decide (a.ev.2 ≤ b.ev.2)).map (·.2.id)

/-- in-domain distillation function: `s ≥ 0` on [0,1] with non-positive slope -/
def distInDomain (s : LinFun Rat) : Bool := decide (0 ≤ s.b) && decide (0 ≤ s.a + s.b) && decide (s.a ≤ 0)

/-- in-domain thresholds: constant, `0 ≤ q < p < v`, any absent, veto only with a preference threshold, `k > 0` -/
def critInDomain (t : ECrit Rat) : Bool :=
  let absent (f : LinFun Rat) := f.a == 0 && f.b == 0
  decide (0 < t.k) && t.q.a == 0 && t.p.a == 0 && t.v.a == 0
    && decide (0 ≤ t.q.b) && (absent t.p || decide (t.q.b < t.p.b))
    && (absent t.v || (!absent t.p && decide (t.p.b < t.v.b)))
    && (!absent t.p || absent t.v)

def in01 (x : Rat) : Bool := decide (0 ≤ x) && decide (x ≤ 1)

/-- clause "per criterion": C, D ∈ [0,1], not both positive, and not worse ⇒ (C, D) = (1, 0) -/
def critOk (c1 c2 : Rat) (res : ERes Rat) : Bool :=
  in01 res.c && in01 res.d && (res.c == 0 || res.d == 0) && (!(decide (c2 ≤ c1)) || (res.c == 1 && res.d == 0))

def explainCrit (c1 c2 : Rat) (res : ERes Rat) : String :=
  if !(in01 res.c && in01 res.d) then "criterion-range"
  else if !(res.c == 0 || res.d == 0) then "criterion-c-and-d"
  else if !critOk c1 c2 res then "not-worse-fully-concordant"
  else "ok"

def absR (x : Rat) : Rat := if x < 0 then -x else x

/-! #### textbook credibility (exact), used as reference for the reported float matrix -/

/-- partial concordance for signed values `ga`, `gb` with constant thresholds (absent q ≡ 0, absent p ≡ q) -/
def textbookC (t : ECrit Rat) (ga gb : Rat) : Rat :=
  let diff := gb - ga
  let q := t.q.b
  let p := t.p.b
  if diff ≤ q then 1
  else if t.p.a == 0 && t.p.b == 0 then 0
  else if p < diff then 0
  else (p - diff) / (p - q)

/-- partial discordance (absent veto ≡ none) -/
def textbookD (t : ECrit Rat) (ga gb : Rat) : Rat :=
  let diff := gb - ga
  if t.v.a == 0 && t.v.b == 0 then 0
  else
    let p := t.p.b
    let v := t.v.b
    if diff ≤ p then 0 else if v < diff then 1 else (diff - p) / (v - p)

/-- σ(a,b) = C · ∏_{D_j > C} (1 − D_j)/(1 − C) -/
def textbookSigma (cs : List (Rat × Rat × Rat)) : Rat × Rat :=   -- (k, C_j, D_j)
  let K := (cs.map (·.1)).foldl (· + ·) 0
  let C := (cs.map fun x => x.1 * x.2.1).foldl (· + ·) 0 / K
  (C, (cs.filter fun x => decide (C < x.2.2)).foldl (fun acc x => acc * ((1 - x.2.2) / (1 - C))) C)

/-- is the comparison of the float difference `gb − ga` with a present threshold decided by less than
    1e-9 without being an exact equality?  (The code computes the difference with one rounding; an exact
    equality is computed exactly, a tiny non-zero margin may flip.)  Such entries are ill-conditioned. -/
def nearThreshold (t : ECrit Rat) (ga gb : Rat) : Bool :=
  let diff := gb - ga
  [t.q, t.p, t.v].any fun f =>
    !(f.a == 0 && f.b == 0) && !(diff == f.b) && decide (absR (diff - f.b) < 1 / 1000000000)

/-- reference credibility matrix entry (i ≠ j): `(C, σ, illConditioned)`;
    `none` when a value or threshold is missing -/
def sigmaRef (alts : List (Alt Rat)) (crits : List (Crit Rat)) (ec : KMap (ECrit Rat)) (i j : Nat) :
    Option (Rat × Rat × Bool) := do
  let a ← alts[i]?
  let b ← alts[j]?
  let cs ← crits.mapM fun c => do
    let t ← ec.get? c.id
    let ga := (← a.vals.get? c.id) * c.mult
    let gb := (← b.vals.get? c.id) * c.mult
    some ((t.k, textbookC t ga gb, textbookD t ga gb), nearThreshold t ga gb)
  let r := textbookSigma (cs.map (·.1))
  some (r.1, r.2, cs.any (·.2))

/-- clause "credibility matrix": shape, σ ∈ [0,1], diagonal 1, and agreement with the exact textbook
    value up to 1e-9.  Skipped as ill-conditioned: entries with a threshold comparison decided by a
    rounding error (`nearThreshold`) and entries whose exact `1 − C` is positive but below 1e-4
    (the quotient `(1 − D)/(1 − C)` amplifies rounding there). -/
def explainMatrix (alts : List (Alt Rat)) (crits : List (Crit Rat)) (ec : KMap (ECrit Rat)) (m : Matrix Rat) : String :=
  let n := alts.length
  if m.size != n || m.data.length != n * n then "matrix-shape"
  else if !(m.data.all in01) then "credibility-range"
  else if !((List.range n).all fun i => m.at i i == 1) then "credibility-diagonal"
  else
    let bad := (pairs (List.range n)).any fun (i, j) =>
      match sigmaRef alts crits ec i j with
      | none => true
      | some (C, sg, ill) =>
        if ill || (decide (0 < 1 - C) && decide (1 - C < 1 / 10000)) then false
        else decide (1 / 1000000000 < absR (m.at i j - sg))
    if bad then "credibility-value" else "ok"

/-- clause "distillations": the reported class numbers are those of the declarative distillation of the
    reported matrix, are consecutive from 1, and have the right length.
    `mF`/`sF` and `mQ`/`sQ` are the same matrix and function decoded as floats and as exact rationals. -/
def explainRank (mF : Matrix Float) (sF : LinFun Float) (mQ : Matrix Rat) (sQ : LinFun Rat)
    (asc desc : List Int) : String :=
  if !(mQ.data.all in01) then "credibility-range"
  else if asc.length != mQ.size || desc.length != mQ.size then "indices-length"
  else if !consecutiveFrom1 asc then "ascending-not-consecutive-from-1"
  else if !consecutiveFrom1 desc then "descending-not-consecutive-from-1"
  else
    let okA := specAscending mQ sQ == some asc || specAscending mF sF == some asc
    let okD := specDescending mQ sQ == some desc || specDescending mF sF == some desc
    if !okA then "ascending-distillation" else if !okD then "descending-distillation" else "ok"

/-- is the case decided by rounding of `λ − s(λ)` / `σ + s(σ)` (exact and float readings differ)? -/
def illConditioned (mF : Matrix Float) (sF : LinFun Float) (mQ : Matrix Rat) (sQ : LinFun Rat) : Bool :=
  specAscending mQ sQ != specAscending mF sF || specDescending mQ sQ != specDescending mF sF

def explainLinks (out : List (Linked (Int × Int))) : String :=
  if linksOk out then "ok" else "links"

end Rdm.Spec.C05
