/-
  Spec.C16 — preference reversal mirrors the selected criteria inside their range.
  Decidable statement over exact rationals on the implementation's output (`check-c16`).
-/
import Rdm.Spec.C15
import Rdm.Ops.Codec
namespace Rdm.Spec.C16
open Rdm Rdm.Spec.C15

/-- observed `(min, max)` of a criterion over a list of alternatives, `none` when a value is missing
    or the list is empty -/
def observedRange (alts : List (Alt Rat)) (id : String) : Option (Rat × Rat) :=
  match alts.mapM (fun a => a.vals.get? id) with
  | some (v :: vs) => some (vs.foldl (fun (acc : Rat × Rat) x => (min acc.1 x, max acc.2 x)) (v, v))
  | _ => none

/-- declared range, else the range currently observed over all known alternatives -/
def expectedRange (all : List (Alt Rat)) (c : Crit Rat) : Option (Rat × Rat) :=
  match c.range with
  | some r => some r
  | none => observedRange all c.id

/-- selected = first k of the ordering, k by the count rule of C15 -/
def selectedOk (c : SplitCond Rat) (ordered : List (Crit Rat)) (report : List (Reversed Rat)) : Bool :=
  (pivots c ordered.length).any fun k =>
    decide (0 ≤ k) && report.map (·.id) == (ordered.take k.toNat).map (·.id)

/-- the report carries the criterion's type and exactly the declared-or-observed range -/
def rangesOk (cur : DMP Rat) (report : List (Reversed Rat)) : Bool :=
  report.all fun r =>
    match cur.crit.find? (fun c => c.id == r.id) with
    | none => false
    | some c => c.type == r.type &&
      match expectedRange cur.all c with
      | some e => e.1 == r.range.1 && e.2 == r.range.2
      | none => false

def close (x e scale : Rat) : Bool := decide (absR (x - e) ≤ tol * scale)

/-- every known alternative: reported value = hi + lo − v (1e-12 relative), and the value handed on is
    the reported one; the report lists exactly the known alternatives -/
def valuesOk (cur res : DMP Rat) (report : List (Reversed Rat)) : Bool :=
  report.all fun r =>
    sameIds r.vals.keys (cur.all.map (·.id)) &&
    cur.all.all fun a =>
      match a.vals.get? r.id, r.vals.get? a.id, (res.all.find? fun b => b.id == a.id) with
      | some v, some nv, some b =>
        close nv (r.range.2 + r.range.1 - v) (absR r.range.1 + absR r.range.2 + absR v) &&
        b.vals.get? r.id == some nv
      | _, _, _ => false

/-- ids, order and the considered / not-considered split unchanged; per alternative the same criteria
    keys, and every value of an unselected criterion untouched -/
def altsFrameOk (selected : List String) (before after : List (Alt Rat)) : Bool :=
  before.length == after.length &&
  (before.zip after).all fun (a, b) =>
    a.id == b.id && sameIds a.vals.keys b.vals.keys &&
    a.vals.all fun (k, v) => selected.contains k || b.vals.get? k == some v

/-- criteria list and method parameters untouched -/
def critsSame (a b : List (Crit Rat)) : Bool :=
  a.length == b.length && (a.zip b).all fun (x, y) => critEq x y

def frameOk (cur res : DMP Rat) (report : List (Reversed Rat)) : Bool :=
  critsSame cur.crit res.crit &&
  toString (Ops.encMParams cur.mp) == toString (Ops.encMParams res.mp) &&
  altsFrameOk (report.map (·.id)) cur.co res.co && altsFrameOk (report.map (·.id)) cur.nc res.nc

/-- the observed range of a mirrored criterion is preserved (declared ranges are part of the
    untouched criteria list) -/
def rangePreservedOk (cur res : DMP Rat) (report : List (Reversed Rat)) : Bool :=
  report.all fun r =>
    match cur.crit.find? (fun c => c.id == r.id) with
    | none => false
    | some c =>
      match c.range with
      | some _ => true
      | none =>
        match observedRange res.all r.id with
        | some o =>
          let s := absR r.range.1 + absR r.range.2
          close o.1 r.range.1 s && close o.2 r.range.2 s
        | none => res.all.isEmpty

def explain (c : SplitCond Rat) (ordered : List (Crit Rat)) (cur res : DMP Rat)
    (report : List (Reversed Rat)) : String :=
  if !selectedOk c ordered report then "selected-not-first-k"
  else if !rangesOk cur report then "report-range"
  else if !valuesOk cur res report then "values"
  else if !frameOk cur res report then "frame"
  else if !rangePreservedOk cur res report then "range-not-preserved"
  else "ok"

def check (c : SplitCond Rat) (ordered : List (Crit Rat)) (cur res : DMP Rat)
    (report : List (Reversed Rat)) : Bool :=
  selectedOk c ordered report && rangesOk cur report && valuesOk cur res report &&
  frameOk cur res report && rangePreservedOk cur res report

end Rdm.Spec.C16
