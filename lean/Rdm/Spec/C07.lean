/-
  Spec.C07 — coherence of the working state after every bias: criteria ids distinct, every known
  alternative has a value for every current criterion, and the method's parameters cover every
  current criterion.
-/
import Rdm.Model.Types
import Rdm.Model.Utility
namespace Rdm.Spec.C07
open Rdm

def nodup : List String → Bool
  | [] => true
  | x :: xs => !xs.contains x && nodup xs

/-- the method's parameters cover every current criterion -/
def covers {α} [Num α] (crit : List (Crit α)) : MParams α → Bool
  | .ws wc => crit.all fun c => wc.any (·.crit.id == c.id)
  | .owa wc => (crit.all fun c => wc.any (·.crit.id == c.id)) && wc.length == crit.length
  | .choquet w _ => (powerSet (crit.map (·.id))).all fun s => w.has (criterionKey s)
  | .electre ec _ => crit.all fun c => ec.has c.id
  | .majority w _ _ _ _ => crit.all fun c => w.has c.id
  | .aspect _ lv _ w _ =>
    (crit.all fun c => w.has c.id) &&
    (match lv with
     | .coef _ _ _ => true
     | .thresholds ts => ts.all fun t => crit.all fun c => t.has c.id)
  | .satisf _ lv _ _ _ =>
    (match lv with
     | .coef _ _ _ => true
     | .thresholds ts => ts.all fun t => crit.all fun c => t.has c.id)

def explain {α} [Num α] (d : DMP α) : String :=
  if !nodup (d.crit.map (·.id)) then "duplicate-criterion-id"
  else match (d.co ++ d.nc).find? (fun a => !(d.crit.all fun c => a.vals.has c.id)) with
    | some a => "missing-value:" ++ a.id
    | none => if !covers d.crit d.mp then "parameters-do-not-cover-criteria" else "ok"

def coherent {α} [Num α] (d : DMP α) : Bool := explain d == "ok"

end Rdm.Spec.C07
