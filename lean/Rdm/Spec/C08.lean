/-
  Spec.C08 — bias switches and apply-probabilities: checked on the `biases` list of a response
  against the request's list and the stream of `biasApplyRandomSeed`.
-/
import Rdm.Model.Pipeline
namespace Rdm.Spec.C08
open Rdm

/-- request entry: name, disabled, optional probability; response entry: name, probability,
    fired (props ≠ null).  `draws` = the stream of biasApplyRandomSeed. -/
def explain (reqs : List (String × Bool × Option Rat)) (outs : List (String × Rat × Bool))
    (draws : List Rat) : String :=
  let enabled := reqs.filter (fun r => !r.2.1)
  if outs.length != enabled.length then "one-entry-per-enabled-bias"
  else
    let rows := (List.range enabled.length).zip (enabled.zip outs)
    match rows.find? (fun (i, (r, o)) =>
        let p := r.2.2.getD 1
        !(o.1 == r.1) || !(o.2.1 == p) ||
        (match draws[i]? with
         | some u => !(o.2.2 == decide (u < p))
         | none => false) ||
        (p == 1 && !o.2.2) || (p == 0 && o.2.2)) with
    | none => "ok"
    | some (i, (r, o)) =>
      let p := r.2.2.getD 1
      if !(o.1 == r.1) then s!"name-echo@{i}"
      else if !(o.2.1 == p) then s!"probability-echo@{i}"
      else s!"fires-iff-probability-exceeds-draw@{i}"

end Rdm.Spec.C08
