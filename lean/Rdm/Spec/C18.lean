/-
  Spec.C18 — decidable statement of "concealed and mixed criteria are well-formed additions", evaluated
  by the driver in exact rational arithmetic on the implementation's output (`check-c18-conceal`,
  `check-c18-mixing`, `check-c18-refcrit`) and used in the theorems of Props/C18.

  The statements are written independently of the model functions: they only use the shared data types,
  `KMap` lookups and rational arithmetic.  Inequalities / equalities that Go evaluates in floating
  point are granted a relative slack of 1e-12 at the magnitude of the operands; structural clauses
  (ids, counts, untouched values) are exact.
-/
import Rdm.Model.BiasesB
namespace Rdm.Spec.C18
open Rdm

/-! ### small rational helpers -/

def tol : Rat := 1 / 1000000000000

def absQ (x : Rat) : Rat := if x < 0 then -x else x
def maxQ (a b : Rat) : Rat := if a < b then b else a
def minQ (a b : Rat) : Rat := if b < a then b else a

/-- `|x − y| ≤ 1e-12 · scale` -/
def closeAt (x y scale : Rat) : Bool := decide (absQ (x - y) ≤ tol * scale)
/-- `x ≤ y` up to `1e-12 · scale` -/
def leAt (x y scale : Rat) : Bool := decide (x ≤ y + tol * scale)

/-- two Go maps are equal (keys are unique) -/
def eqMap (a b : KMap Rat) : Bool :=
  a.length == b.length && a.all fun (k, v) => b.get? k == some v

def eqRange (a b : Option (Rat × Rat)) : Bool :=
  match a, b with
  | none, none => true
  | some x, some y => x.1 == y.1 && x.2 == y.2
  | _, _ => false

def eqCrit (a b : Crit Rat) : Bool := a.id == b.id && a.type == b.type && eqRange a.range b.range

def eqCrits : List (Crit Rat) → List (Crit Rat) → Bool
  | [], [] => true
  | a :: as, b :: bs => eqCrit a b && eqCrits as bs
  | _, _ => false

def eqAlt (a b : Alt Rat) : Bool := a.id == b.id && eqMap a.vals b.vals

def eqAlts : List (Alt Rat) → List (Alt Rat) → Bool
  | [], [] => true
  | a :: as, b :: bs => eqAlt a b && eqAlts as bs
  | _, _ => false

def eqWCrits : List (WCrit Rat) → List (WCrit Rat) → Bool
  | [], [] => true
  | a :: as, b :: bs => eqCrit a.crit b.crit && a.w == b.w && eqWCrits as bs
  | _, _ => false

def eqLin (a b : LinFun Rat) : Bool := a.a == b.a && a.b == b.b
def eqECrit (a b : ECrit Rat) : Bool := a.k == b.k && eqLin a.q b.q && eqLin a.p b.p && eqLin a.v b.v

def eqMaps : List (KMap Rat) → List (KMap Rat) → Bool
  | [], [] => true
  | a :: as, b :: bs => eqMap a b && eqMaps as bs
  | _, _ => false

def eqLevels : Levels Rat → Levels Rat → Bool
  | .coef a b c, .coef a' b' c' => a == a' && b == b' && c == c'
  | .thresholds t, .thresholds t' => eqMaps t t'
  | _, _ => false

def eqMParams : MParams Rat → MParams Rat → Bool
  | .ws a, .ws b => eqWCrits a b
  | .owa a, .owa b => eqWCrits a b
  | .choquet w c, .choquet w' c' => eqMap w w' && eqCrits c c'
  | .electre e d, .electre e' d' =>
    e.length == e'.length && (e.all fun (k, v) => match e'.get? k with | some v' => eqECrit v v' | none => false) && eqLin d d'
  | .majority w c s r d, .majority w' c' s' r' d' => eqMap w w' && c == c' && s == s' && r == r' && d == d'
  | .aspect f l s w r, .aspect f' l' s' w' r' => f == f' && eqLevels l l' && s == s' && eqMap w w' && r == r'
  | .satisf f l s c r, .satisf f' l' s' c' r' => f == f' && eqLevels l l' && s == s' && c == c' && r == r'
  | _, _ => false

def eqDMP (a b : DMP Rat) : Bool :=
  eqAlts a.nc b.nc && eqAlts a.co b.co && eqCrits a.crit b.crit && eqMParams a.mp b.mp

/-! ### structural clauses shared by concealment, mixing (and the newCriterion applier of C19) -/

/-- `m'` is `m` with exactly the new keys `ks` added, every old entry untouched -/
def mapExtended (m m' : KMap Rat) (ks : List String) : Bool :=
  m'.length == m.length + ks.length && (m.all fun (k, v) => m'.get? k == some v) &&
  ks.all fun k => !m.has k && m'.has k

/-- the criteria list grew by exactly the criteria `new`, old ones untouched and in place -/
def critsAppended (old res new : List (Crit Rat)) : Bool := eqCrits res (old ++ new)

/-- same alternatives in the same order, each with the new keys added and every old value untouched -/
def altsExtended : List (Alt Rat) → List (Alt Rat) → List String → Bool
  | [], [], _ => true
  | a :: as, b :: bs, ks => a.id == b.id && mapExtended a.vals b.vals ks && altsExtended as bs ks
  | _, _, _ => false

def levelsExtended (l l' : Levels Rat) (ks : List String) : Bool :=
  match l, l' with
  | .coef a b c, .coef a' b' c' => a == a' && b == b' && c == c'
  | .thresholds t, .thresholds t' =>
    t.length == t'.length && (t.zip t').all fun (x, y) => mapExtended x y ks
  | _, _ => false

/-- the method parameters are the old ones extended by entries for exactly the new criteria `ks`
    (weight / ELECTRE entry / threshold per level), everything else untouched -/
def paramsExtended (mp mp' : MParams Rat) (ks : List String) : Bool :=
  match mp, mp' with
  | .ws a, .ws b => eqWCrits (b.take a.length) a && (b.drop a.length).map (·.crit.id) == ks
  | .owa a, .owa b => eqWCrits (b.take a.length) a && (b.drop a.length).map (·.crit.id) == ks
  | .choquet w c, .choquet w' c' =>
    (w.all fun (k, v) => w'.get? k == some v) && eqCrits (c'.take c.length) c && (c'.drop c.length).map (·.id) == ks
  | .electre e d, .electre e' d' =>
    e'.length == e.length + ks.length &&
    (e.all fun (k, v) => match e'.get? k with | some v' => eqECrit v v' | none => false) &&
    (ks.all fun k => !e.has k && e'.has k) && eqLin d d'
  | .majority w c s r d, .majority w' c' s' r' d' =>
    mapExtended w w' ks && c == c' && s == s' && r == r' && d == d'
  | .aspect f l s w r, .aspect f' l' s' w' r' =>
    f == f' && levelsExtended l l' ks && s == s' && mapExtended w w' ks && r == r'
  | .satisf f l s c r, .satisf f' l' s' c' r' =>
    f == f' && levelsExtended l l' ks && s == s' && c == c' && r == r'
  | _, _ => false

/-- importance the method attaches to criterion `id`, when the method has per-criterion weights -/
def weightOf (mp : MParams Rat) (id : String) : Option Rat :=
  match mp with
  | .ws wc => (wc.find? fun c => c.crit.id == id).map (·.w)
  | .owa wc => (wc.find? fun c => c.crit.id == id).map (·.w)
  | .electre ec _ => (ec.get? id).map (·.k)
  | .majority w _ _ _ _ => w.get? id
  | .aspect _ _ _ w _ => w.get? id
  | .choquet _ _ => none
  | .satisf _ _ _ _ _ => none

/-- weight of the new criterion `id` in a reported addition (weight-based methods) -/
def additionWeight (a : Addition Rat) (id : String) : Option Rat :=
  match a with
  | .ws wc => (wc.find? fun c => c.crit.id == id).map (·.w)
  | .weightType w => w.get? id
  | .electre ec => (ec.get? id).map (·.k)
  | .aspect w _ => w.get? id
  | .choquet _ _ => none
  | .satisf _ => none

/-- the method derives a weight for a new criterion from a reference weight -/
def weightBased : MParams Rat → Bool
  | .choquet _ _ => false
  | .satisf _ _ _ _ _ => false
  | _ => true

/-- `w_new = u · w_ref` for some `u ∈ [0,1)`, stated without `u` -/
def fractionOf (wRef wNew : Rat) : Bool :=
  if 0 < wRef then decide (0 ≤ wNew ∧ wNew < wRef)
  else if wRef < 0 then decide (wRef < wNew ∧ wNew ≤ 0)
  else wNew == 0

/-- the reported addition gives the new criterion `id` a seeded fraction of the weight the method
    attaches to `ref` (vacuous for the methods without weights) -/
def weightClause (mp : MParams Rat) (add : Addition Rat) (ref id : String) : Bool :=
  if weightBased mp then
    match weightOf mp ref, additionWeight add id with
    | some wr, some wn => fractionOf wr wn
    | _, _ => false
  else true

/-- declared range, else observed min / max over the alternatives that have a value -/
def rangeOf (alts : List (Alt Rat)) (c : Crit Rat) : Rat × Rat :=
  match c.range with
  | some r => r
  | none =>
    match alts.filterMap (fun a => a.vals.get? c.id) with
    | [] => (0, 0)
    | v :: vs => (vs.foldl minQ v, vs.foldl maxQ v)

/-- the range `r` scaled about its centre by `s` -/
def scaledAboutCentre (r : Rat × Rat) (s : Rat) : Rat × Rat :=
  let mid := (r.1 + r.2) / 2
  let half := (r.2 - r.1) / 2
  (mid - half * s, mid + half * s)

/-- the configured bounding as a function on rationals: negative values to 0 when disallowed, then
    clamped into the allowed range (the range scaled about its centre) when a scaling > 0 is set -/
def boundQ (scaling : Rat) (nonNeg : Bool) (range : Rat × Rat) (x : Rat) : Rat :=
  let x := if nonNeg && decide (x < 0) then 0 else x
  if 0 < scaling then
    let r := scaledAboutCentre range scaling
    let x := if x < r.1 then r.1 else x
    if r.2 < x then r.2 else x
  else x

def boundingScaling (p : Props Rat) : Rat := p.num "allowedValuesRangeScaling" (-1)
def boundingNonNeg (p : Props Rat) : Bool := p.bool "disallowNegativeValues" false

/-! ### reference criterion -/

/-- the provided reference criterion is one of the ranked criteria -/
def refCritOk (ranked : List (WCrit Rat)) (c : Crit Rat) : Bool := ranked.any fun r => eqCrit r.crit c

def explainRefCrit (ranked : List (WCrit Rat)) (c : Crit Rat) : String :=
  if refCritOk ranked c then "ok" else "reference-not-a-member"

/-! ### concealment -/

/-- the new criterion of a result: the last one -/
def lastCrit (d : DMP Rat) : Option (Crit Rat) := d.crit.getLast?

/-- exactly one gain criterion appended, with a fresh id -/
def appendedOne (cur res : DMP Rat) (id : String) : Bool :=
  match lastCrit res with
  | none => false
  | some c =>
    c.id == id && c.type == "gain" && critsAppended cur.crit res.crit [c] && !(cur.crit.any fun x => x.id == id)

/-- every known alternative has the reported value for the new criterion, all old values untouched -/
def valuesAssigned (cur res : DMP Rat) (id : String) (values : KMap Rat) : Bool :=
  altsExtended cur.co res.co [id] && altsExtended cur.nc res.nc [id] &&
  values.length == (cur.co ++ cur.nc).length &&
  (res.co ++ res.nc).all fun a => (a.vals.get? id).isSome && a.vals.get? id == values.get? a.id

/-- `r` is the range of `ref` scaled about its centre by `s` (up to float rounding) -/
def isScaledRange (alts : List (Alt Rat)) (ref : Crit Rat) (s : Rat) (r : Rat × Rat) : Bool :=
  let base := rangeOf alts ref
  let want := scaledAboutCentre base s
  let scale := absQ base.1 + absQ base.2 + absQ ((base.2 - base.1) / 2 * s)
  closeAt r.1 want.1 scale && closeAt r.2 want.2 scale

/-- some existing criterion explains the concealed criterion: its scaled range is the new range and
    (weight-based methods) the new weight is a fraction in [0,1) of its weight -/
def concealReference (cur : DMP Rat) (s : Rat) (rep : ConcealReport Rat) : Bool :=
  cur.crit.any fun ref =>
    isScaledRange (cur.co ++ cur.nc) ref s rep.range && weightClause cur.mp rep.addition ref.id rep.id

/-- every concealed value lies in the (scaled) range of the new criterion, after the configured
    bounding in the image of that range under the bounding -/
def concealedInRange (p : Props Rat) (rep : ConcealReport Rat) : Bool :=
  let lo := minQ rep.range.1 rep.range.2
  let hi := maxQ rep.range.1 rep.range.2
  let bs := boundingScaling p
  let nn := boundingNonNeg p
  let scale := absQ lo + absQ hi
  if 0 < bs && decide (rep.range.2 < rep.range.1) then true   -- inverted range (negative scaling) with clamping: not claimed
  else
    let blo := boundQ bs nn rep.range lo
    let bhi := boundQ bs nn rep.range hi
    rep.values.all fun (_, v) => leAt blo v scale && leAt v bhi scale

def concealScaling (p : Props Rat) : Rat := p.num "newCriterionScaling" 1

/-- first failing clause of the concealment property, `"ok"` when all hold -/
def explainConceal (_orig cur : DMP Rat) (p : Props Rat) (res : DMP Rat) (rep : ConcealReport Rat) : String :=
  if !appendedOne cur res rep.id then "one-gain-criterion-appended-with-fresh-id"
  else if !(rep.type == "gain" && (lastCrit res).any fun c => eqRange c.range (some rep.range)) then "report-matches-criterion"
  else if !valuesAssigned cur res rep.id rep.values then "values-assigned-old-untouched"
  else if !paramsExtended cur.mp res.mp [rep.id] then "parameters-extended"
  else if !concealReference cur (concealScaling p) rep then "reference-criterion-range-and-weight"
  else if !concealedInRange p rep then "values-in-scaled-range"
  else "ok"

def checkConceal (orig cur : DMP Rat) (p : Props Rat) (res : DMP Rat) (rep : ConcealReport Rat) : Bool :=
  explainConceal orig cur p res rep == "ok"

/-! ### mixing -/

def mixingRatio (p : Props Rat) : Rat := p.num "mixingRatio" (1 / 2)

/-- `[0, T]` with `T = max(|min|, |max|, max − min)` of the reference criterion's range -/
def groundZero (alts : List (Alt Rat)) (ref : Crit Rat) : Rat × Rat :=
  let r := rangeOf alts ref
  (0, maxQ (maxQ (absQ r.1) (absQ r.2)) (r.2 - r.1))

def mixReference (cur : DMP Rat) (target : Rat × Rat) (rep : MixReport Rat) : Bool :=
  cur.crit.any fun ref =>
    let want := groundZero (cur.co ++ cur.nc) ref
    target.1 == 0 && closeAt target.2 want.2 want.2 && weightClause cur.mp rep.addition ref.id rep.new.id

/-- the rescaled component of criterion `c`: `(v − min)·T/(max − min)`, for a cost criterion
    `(max − v)·T/(max − min)`; `0` for a degenerate range -/
def componentWant (alts : List (Alt Rat)) (c : Crit Rat) (t : Rat) (v : Rat) : Rat × Rat :=
  let r := rangeOf alts c
  let d := r.2 - r.1
  if d == 0 then (0, 0)
  else
    let s := t / d
    if c.type == "cost" then ((r.2 - v) * s, (absQ r.2 + absQ v) * absQ s)
    else ((v - r.1) * s, (absQ r.1 + absQ v) * absQ s)

def componentOk (alts : List (Alt Rat)) (c : Crit Rat) (t : Rat) (comp : MixComponent Rat) : Bool :=
  comp.id == c.id && comp.type == c.type && comp.values.length == alts.length &&
  alts.all fun a =>
    match a.vals.get? c.id, comp.values.get? a.id with
    | some v, some got =>
      let (want, scale) := componentWant alts c t v
      closeAt got want (scale + absQ want)
    | _, _ => false

/-- the declared range of `c` (if any) contains all its values -/
def rangeContains (alts : List (Alt Rat)) (c : Crit Rat) : Bool :=
  match c.range with
  | none => true
  | some r => alts.all fun a => match a.vals.get? c.id with
    | some v => decide (r.1 ≤ v ∧ v ≤ r.2)
    | none => true

def componentInTarget (t : Rat) (comp : MixComponent Rat) : Bool :=
  comp.values.all fun (_, v) => leAt 0 v t && leAt v t t

/-- every mixed value is ρ·c1 + (1−ρ)·c2 of the two reported components and lies between them -/
def mixedValuesOk (ρ : Rat) (rep : MixReport Rat) : Bool :=
  rep.new.values.length == rep.c1.values.length && rep.new.values.length == rep.c2.values.length &&
  rep.new.values.all fun (a, m) =>
    match rep.c1.values.get? a, rep.c2.values.get? a with
    | some x, some y =>
      let scale := absQ x + absQ y
      closeAt m (ρ * x + (1 - ρ) * y) scale && leAt (minQ x y) m scale && leAt m (maxQ x y) scale
    | _, _ => false

def explainMixing (_orig cur : DMP Rat) (p : Props Rat) (res : DMP Rat) (rep : Option (MixReport Rat)) : String :=
  if cur.crit.length < 2 then
    (if rep.isNone && eqDMP res cur then "ok" else "fewer-than-two-criteria-is-a-no-op")
  else
    match rep with
    | none => "mixing-happened"
    | some rep =>
      let all := cur.co ++ cur.nc
      if !appendedOne cur res rep.new.id then "one-gain-criterion-appended-with-fresh-id"
      else if !(rep.new.type == "gain") then "report-matches-criterion"
      else if !valuesAssigned cur res rep.new.id rep.new.values then "values-assigned-old-untouched"
      else if !paramsExtended cur.mp res.mp [rep.new.id] then "parameters-extended"
      else if rep.c1.id == rep.c2.id then "two-distinct-criteria"
      else if !(rep.new.id == "__" ++ rep.c1.id ++ "+" ++ rep.c2.id ++ "__") then "new-id-names-the-components"
      else
        match (lastCrit res).bind (·.range), cur.crit.find? (·.id == rep.c1.id), cur.crit.find? (·.id == rep.c2.id) with
        | some target, some c1, some c2 =>
          if !mixReference cur target rep then "reference-criterion-range-and-weight"
          else if !(componentOk all c1 target.2 rep.c1 && componentOk all c2 target.2 rep.c2) then "components-rescaled-cost-inverted"
          else if !mixedValuesOk (mixingRatio p) rep then "mixed-value-formula-and-between"
          else if rangeContains all c1 && !componentInTarget target.2 rep.c1 then "component-in-0-T"
          else if rangeContains all c2 && !componentInTarget target.2 rep.c2 then "component-in-0-T"
          else "ok"
        | _, _, _ => "components-are-existing-criteria"

def checkMixing (orig cur : DMP Rat) (p : Props Rat) (res : DMP Rat) (rep : Option (MixReport Rat)) : Bool :=
  explainMixing orig cur p res rep == "ok"

end Rdm.Spec.C18
