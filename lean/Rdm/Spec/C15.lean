/-
  Spec.C15 — criteria omission removes exactly the requested share, weakest first.
  Decidable statement over exact rationals, evaluated by the driver on the implementation's output
  (`check-c15`) and used in `Props/C15`.  Written independently of the model: it never calls the
  ordering resolvers, the listeners or `SplitCond.split`.
-/
import Rdm.Model.BiasesA
namespace Rdm.Spec.C15
open Rdm

/-- relative slack granted to inequalities the code evaluates in floating point -/
def tol : Rat := 1 / 1000000000000

def absR (x : Rat) : Rat := if x < 0 then -x else x

/-! ### the count rule -/

/-- `⌊n·ratio⌋`.  The code multiplies in floating point; when the exact product lies within `tol`
    *below* an integer `m` the rounded product may be `m` itself, so both `⌊x⌋ = m-1` and `m` are admissible
    (ill-conditioned; no discrete conclusion is drawn from a margin below the slack). -/
def rawPivots (n : Nat) (ratio : Rat) : List Int :=
  let x := (n : Rat) * ratio
  let m : Int := (x + 1/2).floor
  if x < m ∧ (m : Rat) - x ≤ tol * (if absR x < 1 then 1 else absR x) then [x.floor, m] else [x.floor]

/-- clamped to `[lo, hi]` (`lo ≤ hi` is validated) -/
def clamp (p lo hi : Int) : Int := max lo (min hi p)

def pivots (c : SplitCond Rat) (n : Nat) : List Int := (rawPivots n c.ratio).map fun p => clamp p c.min c.max

def countOk (c : SplitCond Rat) (n k : Nat) : Bool := (pivots c n).contains (k : Int)

/-! ### partition and restriction -/

def critEq (a b : Crit Rat) : Bool :=
  a.id == b.id && a.type == b.type &&
    (match a.range, b.range with
     | none, none => true
     | some x, some y => x.1 == y.1 && x.2 == y.2
     | _, _ => false)

def nodupStr : List String → Bool
  | [] => true
  | x :: xs => !xs.contains x && nodupStr xs

/-- `a` and `b` hold the same strings (as duplicate-free sets) -/
def sameIds (a b : List String) : Bool :=
  nodupStr a && nodupStr b && a.length == b.length && a.all (fun x => b.contains x)

/-- omitted ⊆ declared, kept ⊆ declared (as unchanged records), disjoint, union = all -/
def partitionOk (declared omitted kept : List (Crit Rat)) : Bool :=
  omitted.all (fun o => declared.any (critEq o)) &&
  kept.all (fun k => declared.any (critEq k)) &&
  omitted.all (fun o => !kept.any (fun k => k.id == o.id)) &&
  sameIds ((omitted ++ kept).map (·.id)) (declared.map (·.id))

/-- every alternative keeps its id and position and holds exactly the kept criteria, values unchanged -/
def altsRestricted (kept : List (Crit Rat)) (before after : List (Alt Rat)) : Bool :=
  before.length == after.length &&
  (before.zip after).all fun (a, a') =>
    a.id == a'.id && sameIds a'.vals.keys (kept.map (·.id)) &&
    kept.all fun k => match a.vals.get? k.id, a'.vals.get? k.id with
      | some v, some v' => v == v'
      | _, _ => false

/-! ### importance, per method as documented -/

def sumVals (co : List (Alt Rat)) (id : String) (f : Rat → Rat) : Rat :=
  co.foldl (fun t a => t + f ((a.vals.get? id).getD 0)) 0

/-- `(importance, magnitude of the terms it was computed from)`; `ranked` is the listener's reported
    ranking, used for Choquet only -/
def importance (cur : DMP Rat) (ranked : List (WCrit Rat)) (c : Crit Rat) : Option (Rat × Rat) :=
  match cur.mp with
  | .ws wc =>
    (wc.find? fun x => x.crit.id == c.id).map fun x =>
      (x.w * sumVals cur.co c.id id, absR x.w * sumVals cur.co c.id absR)
  | .owa _ => some (sumVals cur.co c.id id, sumVals cur.co c.id absR)
  | .satisf _ _ _ _ _ => some (sumVals cur.co c.id id, sumVals cur.co c.id absR)
  | .majority w _ _ _ _ => (w.get? c.id).map fun x => (x, 0)
  | .aspect _ _ _ w _ => (w.get? c.id).map fun x => (x, 0)
  | .electre ec _ => (ec.get? c.id).map fun x => (x.k, 0)
  | .choquet _ _ => (ranked.find? fun x => x.crit.id == c.id).map fun x => (x.w, 0)

/-- `a` is not more important than `b` (up to the slack) -/
def notMoreImportant (cur : DMP Rat) (ranked : List (WCrit Rat)) (a b : Crit Rat) : Bool :=
  match importance cur ranked a, importance cur ranked b with
  | some (ia, ma), some (ib, mb) => decide (ia ≤ ib + tol * (ma + mb))
  | _, _ => false

/-- `weakest` (also the default): no kept criterion is less important than an omitted one;
    `strongest`: the opposite; other orderings: nothing claimed here -/
def importanceOk (ordering : String) (cur : DMP Rat) (ranked : List (WCrit Rat))
    (omitted kept : List (Crit Rat)) : Bool :=
  if ordering == "" || ordering == "weakest" then
    omitted.all fun o => kept.all fun k => notMoreImportant cur ranked o k
  else if ordering == "strongest" then
    omitted.all fun o => kept.all fun k => notMoreImportant cur ranked k o
  else true

/-- the ordering returned by a resolver is a permutation of the declared criteria -/
def orderIsPerm (declared ordered : List (Crit Rat)) : Bool :=
  ordered.all (fun o => declared.any (critEq o)) && sameIds (ordered.map (·.id)) (declared.map (·.id))

/-! ### the checker -/

def explain (ordering : String) (c : SplitCond Rat) (cur res : DMP Rat) (omitted : List (Crit Rat))
    (ranked : List (WCrit Rat)) : String :=
  if !countOk c cur.crit.length omitted.length then "count"
  else if !partitionOk cur.crit omitted res.crit then "partition"
  else if !altsRestricted res.crit cur.co res.co then "considered-not-restricted"
  else if !altsRestricted res.crit cur.nc res.nc then "not-considered-not-restricted"
  else if !importanceOk ordering cur ranked omitted res.crit then "importance"
  else "ok"

def check (ordering : String) (c : SplitCond Rat) (cur res : DMP Rat) (omitted : List (Crit Rat))
    (ranked : List (WCrit Rat)) : Bool :=
  countOk c cur.crit.length omitted.length && partitionOk cur.crit omitted res.crit &&
  altsRestricted res.crit cur.co res.co && altsRestricted res.crit cur.nc res.nc &&
  importanceOk ordering cur ranked omitted res.crit

end Rdm.Spec.C15
