/-
  Spec.C11 — "the majority heuristic is a sequential pairwise tournament", as a decidable checker
  on an *output* (the implementation's, or the model's in theorems), in exact rational arithmetic.

  The checker re-plays the tournament declaratively from the search order: the running winner meets
  the next alternative; the score of a side is the total weight of the criteria on which it is
  better by more than eps = 1e-6; unequal scores (|Δ| > eps) decide, equal scores are decided by the
  draw policy (`random`: either way, read off the output).  It then demands of the output:
    * every non-winner names in `comparedWith` the opponent of its terminal match and reports
      (own score, opponent's score) of that match, own ≤ opponent's or eps-equal;
    * the ranking is the reverse drop-out order, the undefeated alternative first with no opponent;
    * `betterThanOrSameAs` = the group that dropped out just before, plus the peers of the own group.
  Reported scores are float sums: they are compared with relative tolerance 1e-12.
-/
import Rdm.Model.Types
import Rdm.Model.Links
import Rdm.Model.Heuristics
namespace Rdm.Spec.C11
open Rdm

/-- the tolerance of the property text -/
def eps : Rat := 1 / 1000000
/-- slack for float sums of weights -/
def tol : Rat := 1 / 1000000000000

def absR (x : Rat) : Rat := if x < 0 then -x else x

def close (reported exact : Rat) : Bool :=
  absR (reported - exact) ≤ tol * (if absR exact < 1 then 1 else absR exact)

def signedVal (a : Alt Rat) (c : Crit Rat) : Option Rat :=
  (a.vals.get? c.id).map fun v => if c.type == "cost" then -v else v

/-- total weight of the criteria on which `a` is strictly better than `b` -/
def score (wc : List (WCrit Rat)) (a b : Alt Rat) : Option Rat :=
  wc.foldlM (fun acc c => do
    let va ← signedVal a c.crit
    let vb ← signedVal b c.crit
    pure (if eps < va - vb then acc + c.w else acc)) 0

/-- replay state: running winner, ids parked in its tie group, groups already dropped (worst first) -/
structure St where
  cur : Alt Rat
  buffer : List String
  groups : List (List String)

inductive Outcome where
  | park | drop | dethrone
  deriving DecidableEq

abbrev Entry := Linked (MajEval Rat)

def findEntry (out : List Entry) (id : String) : Option Entry := out.find? (·.id == id)

/-- who leaves the match `cur` vs `ch` with exact scores `s1`, `s2` -/
def outcome (policy : String) (out : List Entry) (cur ch : Alt Rat) (s1 s2 : Rat) : Except String Outcome :=
  if absR (s1 - s2) ≤ eps then
    if policy == "" || policy == "allow" then pure .park
    else if policy == "current" then pure .drop
    else if policy == "newer" then pure .dethrone
    else if policy == "random" then
      match findEntry out ch.id with
      | some e => if e.ev.cmp == cur.id then pure .drop else pure .dethrone
      | none => throw "missing-entry"
    else throw "unknown-policy"
  else if s2 < s1 then pure .drop
  else pure .dethrone

/-- the loser `l` (own exact score `own`) of a match against `w` (score `opp`) reports it faithfully -/
def loserOk (out : List Entry) (l w : Alt Rat) (own opp : Rat) : Except String Unit :=
  match findEntry out l.id with
  | none => throw "missing-entry"
  | some e =>
    if e.ev.cmp != w.id then throw "comparedWith-is-not-the-last-opponent"
    else if !close e.ev.value own then throw "value-is-not-the-own-score"
    else if !close e.ev.cav opp then throw "comparedAlternativeValue-is-not-the-opponent-score"
    else if !(e.ev.value ≤ e.ev.cav || absR (e.ev.value - e.ev.cav) ≤ eps) then throw "loser-scored-higher"
    else pure ()

def step (policy : String) (wc : List (WCrit Rat)) (out : List Entry) (st : St) (ch : Alt Rat) :
    Except String St := do
  let s1 ← match score wc st.cur ch with | some s => pure s | none => throw "missing-value"
  let s2 ← match score wc ch st.cur with | some s => pure s | none => throw "missing-value"
  match ← outcome policy out st.cur ch s1 s2 with
  | .park =>
    loserOk out ch st.cur s2 s1
    pure { st with buffer := st.buffer ++ [ch.id] }
  | .drop =>
    loserOk out ch st.cur s2 s1
    pure { st with groups := st.groups ++ [[ch.id]] }
  | .dethrone =>
    loserOk out st.cur ch s1 s2
    pure { cur := ch, buffer := [], groups := st.groups ++ [st.buffer ++ [st.cur.id]] }

def replay (policy : String) (wc : List (WCrit Rat)) (out : List Entry) :
    List (Alt Rat) → St → Except String St
  | [], st => pure st
  | ch :: rest, st => do replay policy wc out rest (← step policy wc out st ch)

def sameSet (a b : List String) : Bool :=
  a.length == b.length && a.all (fun x => b.contains x) && b.all (fun x => a.contains x)

/-- links expected for every id: previous (worse) group ++ peers -/
def expectedLinks : List String → List (List String) → List (String × List String)
  | _, [] => []
  | worse, g :: gs => g.map (fun id => (id, worse ++ g.filter (· != id))) ++ expectedLinks g gs

def linksOk (out : List Entry) (groups : List (List String)) : Bool :=
  let want := expectedLinks [] groups
  out.all fun e =>
    match want.lookup e.id with
    | some l => sameSet e.links l
    | none => false

/-- which clause fails ("ok" if none) -/
def explain (wc : List (WCrit Rat)) (order : List (Alt Rat)) (policy : String) (out : List Entry) : String :=
  match order with
  | [] => if out.isEmpty then "ok" else "output-for-empty-search-order"
  | first :: rest =>
    if !(order.map (·.id)).Nodup then "search-order-has-duplicate-ids" else
    match replay policy wc out rest ⟨first, [], []⟩ with
    | .error c => c
    | .ok st =>
      let groups := st.groups ++ [st.buffer ++ [st.cur.id]]
      let expected := (groups.flatten).reverse
      if out.map (·.id) != expected then "order-is-not-reverse-drop-out-order"
      else match out with
        | [] => "empty-output"
        | w :: _ =>
          if w.id != st.cur.id then "winner-not-first"
          else if w.ev.cmp != "" then "winner-has-opponent"
          else if !linksOk out groups then "links"
          else "ok"

def check (wc : List (WCrit Rat)) (order : List (Alt Rat)) (policy : String) (out : List Entry) : Bool :=
  explain wc order policy out == "ok"

end Rdm.Spec.C11
