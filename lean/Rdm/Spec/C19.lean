/-
  Spec.C19 — decidable statement of "anchoring shifts values by gains and losses against the reference
  point", evaluated by the driver in exact rational arithmetic on the implementation's output
  (`check-c19`) and used in the theorems of Props/C19.

  Domain: every anchoring alternative has a positive coefficient, the state is coherent.
  Stage-wise: each clause recomputes one stage from what the implementation reported for the previous
  one (reference point → scaling → mapped differences → applier).  Float-evaluated quantities get a
  relative slack of 1e-12 at the magnitude of the operands; `math.Exp` is checked against a rational
  Taylor enclosure of the exponential.  Discrete conclusions (which alternative is the best) are only
  drawn when the exact margin exceeds that slack.
-/
import Rdm.Spec.C18
import Rdm.Model.Anchoring
namespace Rdm.Spec.C19
open Rdm
open Rdm.Spec.C18 (tol absQ maxQ minQ closeAt leAt eqMap eqCrit eqCrits eqAlts eqMParams rangeOf boundQ
  boundingScaling boundingNonNeg altsExtended paramsExtended critsAppended mapExtended)

/-! ### reference point -/

/-- coefficient-weighted score comparison of candidate `i` against `j` on criterion `c`:
    gain compares `v·κ`, cost compares `v/κ` by cross-multiplication (`v_i·κ_j` vs `v_j·κ_i`).
    Returns (score_i, score_j, magnitude). -/
def scores (cost : Bool) (i j : Rat × Rat) : Rat × Rat × Rat :=
  if cost then (i.1 * j.2, j.1 * i.2, absQ (i.1 * j.2) + absQ (j.1 * i.2))
  else (i.1 * i.2, j.1 * j.2, absQ (i.1 * i.2) + absQ (j.1 * j.2))

/-- candidate `i` (value, coefficient) is an acceptable winner against `j`:
    `wantMax`: the larger score wins (ideal/gain, nadir/cost), else the smaller (ideal/cost, nadir/gain);
    exact ties are decided by the raw value (`tieMax`: larger raw value wins);
    a non-zero margin below the float slack is not decided -/
def beats (cost wantMax tieMax : Bool) (i j : Rat × Rat) : Bool :=
  let (si, sj, mag) := scores cost i j
  if si == sj then (if tieMax then decide (j.1 ≤ i.1) else decide (i.1 ≤ j.1))
  else if absQ (si - sj) ≤ tol * mag then true
  else if wantMax then decide (sj < si) else decide (si < sj)

/-- the reported reference value `v` of criterion `c` is the value of a candidate that is the
    coefficient-weighted best (`ideal`) / worst (`nadir`) among the anchoring alternatives -/
def refValueOk (ideal : Bool) (c : Crit Rat) (cands : List (Rat × Rat)) (v : Rat) : Bool :=
  let cost := c.type == "cost"
  -- ideal: gain → max v·κ (ties: larger v), cost → min v/κ (ties: smaller v); nadir: the opposite
  let wantMax := if ideal then !cost else cost
  let tieMax := wantMax
  cands.any fun i => i.1 == v && cands.all fun j => beats cost wantMax tieMax i j

def candidates (all : List (Alt Rat)) (alts : List (String × Rat)) (c : Crit Rat) : List (Rat × Rat) :=
  alts.filterMap fun (id, k) =>
    match all.find? (·.id == id) with
    | some a => (a.vals.get? c.id).map fun v => (v, k)
    | none => none

def coefficients (p : AnchProps Rat) : List (String × Rat) :=
  p.alts.map fun (i, k) => (i, k.getD (if p.typed then 1 else 0))

def refPointOk (cur : DMP Rat) (p : AnchProps Rat) (refs : List (Alt Rat)) : Bool :=
  match refs with
  | [r] =>
    r.id == p.refFn && (p.refFn == "ideal" || p.refFn == "nadir") &&
    cur.crit.all fun c =>
      match r.vals.get? c.id with
      | some v => refValueOk (p.refFn == "ideal") c (candidates (cur.co ++ cur.nc) (coefficients p) c) v
      | none => false
  | _ => false

/-! ### scaling -/

def scalingOk (cur : DMP Rat) (sc : KMap (Scale Rat)) : Bool :=
  sc.length == cur.crit.length &&
  cur.crit.all fun c =>
    match sc.get? c.id with
    | some (s, r) =>
      let want := rangeOf (cur.co ++ cur.nc) c
      r.1 == want.1 && r.2 == want.2 &&
      (if r.2 - r.1 == 0 then s == 0 else closeAt s (1 / (r.2 - r.1)) (absQ s))
    | none => false

/-! ### mapped differences -/

/-- Σ_{n<60} xⁿ/n!  (|x| ≤ 8: the remainder is below 1e-27) -/
def expQ (x : Rat) : Rat :=
  ((List.range 60).foldl (fun (acc : Rat × Rat) (n : Nat) =>
    let term := acc.2
    (acc.1 + term, term * x / ((n : Rat) + 1))) (0, 1)).1

/-- value of a gain/loss function at `d` and the magnitude of its intermediate results;
    `none` when the exponential argument is outside the checked interval -/
def evalQ (f : AFun Rat) (d : Rat) : Option (Rat × Rat) :=
  match f with
  | .linear l => if l.a == 0 && l.b == 0 then some (0, 0) else some (l.a * d + l.b, absQ (l.a * d) + absQ l.b)
  | .expFromZero a m =>
    let x := a * d
    if absQ x ≤ 8 then
      let e := expQ x
      some (m * e - m, absQ (m * e) + absQ m)
    else none

def signedQ (c : Crit Rat) (v : Rat) : Rat := if c.type == "cost" then -v else v

/-- mapped difference of alternative `a` to reference point `r` on criterion `c` -/
def mappedOk (loss gain : AFun Rat) (c : Crit Rat) (scale : Rat) (va vr got : Rat) : Bool :=
  let d := (signedQ c va - signedQ c vr) * scale
  if 0 < d then
    match evalQ gain d with
    | some (w, mag) => closeAt got w (mag + absQ got)
    | none => true
  else
    match evalQ loss (-d) with
    | some (w, mag) => closeAt got (-w) (mag + absQ got)
    | none => true

def diffsOk (cur : DMP Rat) (loss gain : AFun Rat) (refs : List (Alt Rat)) (sc : KMap (Scale Rat))
    (diffs : List (AltDiffs Rat)) : Bool :=
  let all := cur.co ++ cur.nc
  diffs.length == all.length &&
  (all.zip diffs).all fun (a, d) =>
    d.1.id == a.id && eqMap d.1.vals a.vals && d.2.length == refs.length &&
    (refs.zip d.2).all fun (r, rd) =>
      rd.1 == r.id && rd.2.length == cur.crit.length &&
      cur.crit.all fun c =>
        match a.vals.get? c.id, r.vals.get? c.id, sc.get? c.id, rd.2.get? c.id with
        | some va, some vr, some s, some got => mappedOk loss gain c s.1 va vr got
        | _, _, _, _ => false

/-! ### inline applier -/

/-- arithmetic mean over the reference points of the mapped differences of criterion `c` -/
def meanDiff (rds : List (String × KMap Rat)) (c : String) : Option Rat :=
  if rds.isEmpty then none
  else
    (rds.foldl (fun (acc : Option Rat) rd =>
      match acc, rd.2.get? c with
      | some s, some v => some (s + v)
      | _, _ => none) (some 0)).map fun s => s / (rds.length : Rat)

def isZeroFun : AFun Rat → Bool
  | .linear l => l.a == 0 && l.b == 0
  | .expFromZero _ m => m == 0

/-- new value of criterion `c` for the alternative behind `d`:
    `bound(old + range·mean)`, and exactly `bound(old)` for identically-zero functions -/
def inlineValueOk (bs : Rat) (nn : Bool) (zero : Bool) (sc : KMap (Scale Rat)) (d : AltDiffs Rat)
    (c : Crit Rat) (new : Rat) : Bool :=
  match d.1.vals.get? c.id, sc.get? c.id, meanDiff d.2 c.id with
  | some old, some s, some mean =>
    let shift := (s.2.2 - s.2.1) * mean
    let scale := absQ old + absQ shift + absQ s.2.1 + absQ s.2.2
    if zero then
      -- exactly unchanged, unless the bounding itself moves the old value (then: the bounded old value)
      let b := boundQ bs nn s.2 old
      if b == old then new == old || (closeAt new old scale && !(boundQ bs nn s.2 (old + tol * scale) == old + tol * scale && boundQ bs nn s.2 (old - tol * scale) == old - tol * scale))
      else closeAt new b scale
    else closeAt new (boundQ bs nn s.2 (old + shift)) scale
  | _, _, _ => false

/-- one alternative of the result against its differences: every criterion shifted, nothing else kept -/
def inlineAltOk (bs : Rat) (nn : Bool) (zero : Bool) (cur : DMP Rat) (sc : KMap (Scale Rat))
    (d : AltDiffs Rat) (a : Alt Rat) : Bool :=
  a.id == d.1.id &&
  cur.crit.all fun c =>
    match a.vals.get? c.id with
    | some new => inlineValueOk bs nn zero sc d c new
    | none => false

/-- reported applied difference = new − old -/
def appliedOk (cur : DMP Rat) (old new applied : Alt Rat) : Bool :=
  applied.id == old.id &&
  cur.crit.all fun c =>
    match old.vals.get? c.id, new.vals.get? c.id, applied.vals.get? c.id with
    | some o, some n, some r => closeAt r (n - o) (absQ n + absQ o)
    | _, _, _ => false

def findDiff (diffs : List (AltDiffs Rat)) (id : String) : Option (AltDiffs Rat) := diffs.find? (·.1.id == id)

def inlineOk (cur : DMP Rat) (p : AnchProps Rat) (zero : Bool) (res : DMP Rat) (rep : AnchReport Rat)
    (applied : List (Alt Rat)) : Bool :=
  let bs := boundingScaling p.applier.params
  let nn := boundingNonNeg p.applier.params
  let onNc := p.applier.params.bool "applyOnNotConsidered" false
  let altOk := fun (old new : Alt Rat) =>
    match findDiff rep.diffs old.id with
    | some d => inlineAltOk bs nn zero cur rep.scaling d new
    | none => false
  eqCrits res.crit cur.crit && eqMParams res.mp cur.mp &&
  res.co.length == cur.co.length && (cur.co.zip res.co).all (fun (o, n) => altOk o n) &&
  (if onNc then res.nc.length == cur.nc.length && (cur.nc.zip res.nc).all (fun (o, n) => altOk o n)
   else eqAlts res.nc cur.nc) &&
  (let olds := if onNc then cur.co ++ cur.nc else cur.co
   let news := if onNc then res.co ++ res.nc else res.co
   applied.length == olds.length &&
   (olds.zip (news.zip applied)).all fun (o, n, a) => appliedOk cur o n a)

/-! ### newCriterion applier -/

/-- the method's importances shifted so that the smallest is at least 0.01, normalised to sum 1 -/
def normalisedImportance (ranked : List (WCrit Rat)) : List (String × Rat) :=
  match ranked.map (·.w) with
  | [] => []
  | w :: ws =>
    let mn := ws.foldl minQ w
    let dif := if mn < 1 / 100 then 1 / 100 - mn else 0
    let total := (ranked.map fun c => c.w + dif).foldl (· + ·) 0
    ranked.map fun c => (c.crit.id, (c.w + dif) / total)

/-- value of the added criterion: mid-range + half-range × importance-weighted mean of the mapped
    differences, then bounded -/
def newCriterionValueOk (bs : Rat) (nn : Bool) (range : Rat × Rat) (imp : List (String × Rat))
    (coefs : KMap Rat) (got : Rat) : Bool :=
  let h := (range.2 - range.1) / 2
  let terms := imp.map fun (c, w) => (coefs.get? c).map fun m => w * m
  if terms.any (·.isNone) then false
  else
    let sum := (terms.filterMap id).foldl (· + ·) 0
    let mag := (terms.filterMap id).foldl (fun t x => t + absQ x) 0
    closeAt got (boundQ bs nn range (range.1 + h + h * sum)) (absQ range.1 + absQ h + absQ h * mag + absQ got)

def distinct : List String → Bool
  | [] => true
  | x :: xs => !xs.contains x && distinct xs

def newCriterionOk (ranked : List (WCrit Rat)) (cur : DMP Rat) (p : AnchProps Rat) (res : DMP Rat)
    (rep : AnchReport Rat) (ref : Crit Rat) (added : List (AddedAnch Rat)) : Bool :=
  let bs := boundingScaling p.applier.params
  let nn := boundingNonNeg p.applier.params
  let ids := added.map (·.id)
  let imp := normalisedImportance ranked
  match rep.scaling.get? ref.id with
  | none => false
  | some s =>
    -- the reference criterion is an existing criterion; one criterion per reference point, fresh unique ids,
    -- type and declared range of the reference criterion
    (cur.crit.any fun c => eqCrit c ref) &&
    added.length == rep.refPoints.length && distinct ids &&
    (ids.all fun i => !(cur.crit.any fun c => c.id == i)) &&
    critsAppended cur.crit res.crit (added.map fun a => ({ id := a.id, type := ref.type, range := ref.range } : Crit Rat)) &&
    (added.all fun a => a.type == ref.type) &&
    -- alternatives keep every old value and get the new ones; parameters extended for exactly the new ids
    altsExtended cur.co res.co ids && altsExtended cur.nc res.nc ids &&
    paramsExtended cur.mp res.mp ids &&
    -- values and reported ranges
    ((added.zip (List.range added.length)).all fun (a, ri) =>
      a.values.length == (cur.co ++ cur.nc).length &&
      ((res.co ++ res.nc).all fun alt =>
        match alt.vals.get? a.id, a.values.get? alt.id, findDiff rep.diffs alt.id with
        | some v, some v', some d =>
          v == v' &&
          (match d.2[ri]? with
           | some rd => newCriterionValueOk bs nn s.2 imp rd.2 v
           | none => false)
        | _, _, _ => false) &&
      (match a.values.map (·.2) with
       | [] => true
       | v :: vs => a.range.1 == vs.foldl minQ v && a.range.2 == vs.foldl maxQ v))

/-! ### the whole property -/

def parseQ (d : FunDef Rat) : Option (AFun Rat) :=
  if d.fn == "linear" then some (.linear ⟨d.params.num "a" 0, d.params.num "b" 0⟩)
  else if d.fn == "expFromZero" then some (.expFromZero (d.params.num "alpha" 0) (d.params.num "multiplier" 0))
  else none

/-- first failing clause, `"ok"` when all hold.  `ranked`: the method's importance ranking of the
    current criteria (only used by the newCriterion applier) -/
def explainWith (ranked : List (WCrit Rat)) (cur : DMP Rat) (p : AnchProps Rat) (res : DMP Rat)
    (rep : AnchReport Rat) (checkRefPoint : Bool := true) : String :=
  match parseQ p.loss, parseQ p.gain with
  | some loss, some gain =>
    if checkRefPoint && !refPointOk cur p rep.refPoints then "reference-point-is-weighted-best"
    else if !scalingOk cur rep.scaling then "scaling-by-value-range"
    else if !diffsOk cur loss gain rep.refPoints rep.scaling rep.diffs then "mapped-difference"
    else if !(res.co.map (·.id) == cur.co.map (·.id) && res.nc.map (·.id) == cur.nc.map (·.id)) then "alternatives-preserved"
    else
      match rep.applier with
      | .inline applied =>
        if p.applier.fn != "inline" then "applier-kind"
        else if !inlineOk cur p false res rep applied then "inline-shift-and-reported-difference"
        else if isZeroFun loss && isZeroFun gain && !inlineOk cur p true res rep applied then "zero-functions-identity"
        else "ok"
      | .newCriterion ref added =>
        if p.applier.fn != "newCriterion" then "applier-kind"
        else if !newCriterionOk ranked cur p res rep ref added then "new-criterion-per-reference-point"
        else "ok"
  | _, _ => "unknown-function-accepted"

/-- the importance ranking comes from the (separately verified) listener model, in exact arithmetic -/
def explain (cur : DMP Rat) (p : AnchProps Rat) (res : DMP Rat) (rep : AnchReport Rat)
    (checkRefPoint : Bool := true) : String :=
  let ranked := match rep.applier with
    | .newCriterion _ _ =>
      (match rankAsc (Num.ofConst Facts.choquetEps) cur with
       | .ok r => r
       | .error _ => [])
    | .inline _ => []
  explainWith ranked cur p res rep checkRefPoint

def check (cur : DMP Rat) (p : AnchProps Rat) (res : DMP Rat) (rep : AnchReport Rat) : Bool :=
  explain cur p res rep == "ok"

end Rdm.Spec.C19
