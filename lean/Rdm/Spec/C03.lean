/-
  Spec.C03 — the defining formulas of the three utility methods, in exact rational arithmetic,
  stated independently of the model (textbook form), and the comparison of a reported value with
  them under the tolerance the property grants (1e-8 rounding) plus float evaluation slack.
-/
import Rdm.Model.Types
namespace Rdm.Spec.C03
open Rdm

def sum (l : List Rat) : Rat := l.foldl (· + ·) 0
def rabs (x : Rat) : Rat := if x < 0 then -x else x
def sortAsc (l : List Rat) : List Rat := l.mergeSort (fun a b => decide (a ≤ b))

/-- weighted sum: Σ weight × value (value negated for cost criteria) -/
def wsSpec (a : Alt Rat) (wc : List (WCrit Rat)) : Option Rat :=
  wc.foldlM (fun t c => (a.vals.get? c.crit.id).map fun v =>
    t + c.w * (if c.crit.type == "cost" then -v else v)) 0

/-- OWA: Σ ascending weights × ascending values -/
def owaSpec (vals ws : List Rat) : Rat :=
  sum ((sortAsc vals).zip (sortAsc ws) |>.map fun p => p.1 * p.2)

/-- Choquet, textbook: Σ_k (v_(k) − v_(k−1)) · μ({(k),…,(n)}) over the ascending values, where values
    within `eps` of the first value of a run are tied with it (the oracle the property prescribes).
    `mu` looks a set of criterion ids up in the capacity table. Returns `none` if a capacity is missing. -/
def choquetSpecAux (eps : Rat) (mu : List String → Option Rat) :
    List (String × Rat) → Rat → Nat → Option Rat
  | _, _, 0 => some 0
  | [], _, _ => some 0
  | x :: xs, prev, fuel + 1 => do
    let m ← mu ((x :: xs).map (·.1))
    let rest := xs.dropWhile fun y => decide (rabs (x.2 - y.2) ≤ eps)
    let r ← choquetSpecAux eps mu rest x.2 fuel
    pure (m * (x.2 - prev) + r)

def insertStr (x : String) : List String → List String
  | [] => [x]
  | y :: ys => if x ≤ y then x :: y :: ys else y :: insertStr x ys
def canonKey (l : List String) : String := ",".intercalate (l.foldr insertStr [])

def choquetSpec (eps : Rat) (a : Alt Rat) (w : KMap Rat) : Option Rat :=
  let asc := a.vals.mergeSort (fun x y => decide (x.2 ≤ y.2))
  choquetSpecAux eps (fun s => w.get? (canonKey s)) asc 0 (asc.length + 1)

/-- a run of tied values is *unambiguous* when every member is within `eps` of the first one exactly
    when it is within `eps` of its predecessor (so "tied" does not depend on how runs are formed) -/
def tiesUnambiguous (eps : Rat) (a : Alt Rat) : Bool :=
  let asc := (a.vals.map (·.2)).mergeSort (fun x y => decide (x ≤ y))
  let rec go : List Rat → Rat → Bool
    | [], _ => true
    | y :: ys, first =>
      match ys with
      | [] => true
      | z :: _ =>
        let tiedFirst := decide (rabs (first - z) ≤ eps)
        let tiedPrev := decide (rabs (y - z) ≤ eps)
        if tiedFirst != tiedPrev then false
        else go ys (if tiedFirst then first else z)
  match asc with
  | [] => true
  | x :: _ => go asc x

/-- `got` agrees with `want`: absolute slack 1e-8 (the API's rounding) + 1e-9 relative to `scale`
    (float evaluation error of a sum of products whose absolute terms add up to `scale`) -/
def close (got want scale : Rat) : Bool :=
  decide (rabs (got - want) ≤ (1 : Rat) / 100000000 + scale / 1000000000)

end Rdm.Spec.C03
