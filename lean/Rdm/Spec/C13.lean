/-
  Spec.C13 — "the satisfaction heuristic ranks by the first level an alternative satisfies",
  decidable checker on an output, exact rational arithmetic (every comparison of the procedure is
  between an input value and a threshold, or their negations: exact in floating point as well).

  Demanded of the output, given the search order, the criteria, the aspiration levels and all known
  alternatives of the state:
    * permutation of the search order, linked sequentially;
    * the key (reported level index, position in the search order) increases strictly: acceptance
      order is lexicographic (level, search position), alternatives that met no level come last;
    * an entry with index ℓ < #levels reports exactly the thresholds of level ℓ, satisfies them on
      every criterion (gain `v ≥ t`, cost `v ≤ t`) and fails every earlier level on some criterion;
    * an entry with index #levels fails every level and reports, per criterion, the worst end of the
      criterion's range (declared range if present, else min/max over ALL known alternatives):
      min for gain, max for cost.
-/
import Rdm.Model.Types
import Rdm.Model.Links
import Rdm.Model.Heuristics
namespace Rdm.Spec.C13
open Rdm

abbrev Entry := Linked (SatEval Rat)

/-- good enough on one criterion -/
def meets (a : Alt Rat) (t : KMap Rat) (c : Crit Rat) : Option Bool := do
  let v ← a.vals.get? c.id
  let th ← t.get? c.id
  pure (if c.type == "cost" then decide (v ≤ th) else decide (th ≤ v))

/-- satisfies / fails a level; `none` when a value or threshold is missing -/
def satisfies (a : Alt Rat) (crits : List (Crit Rat)) (t : KMap Rat) : Option Bool :=
  crits.foldlM (fun acc c => do pure (acc && (← meets a t c))) true

def idxOfStr (l : List String) (s : String) : Nat := l.findIdx (· == s)

def isPermIds (a b : List String) : Bool :=
  a.length == b.length && a.all (fun x => b.contains x) && b.all (fun x => a.contains x)

def sequentialLinks : List Entry → Bool
  | [] => true
  | [e] => e.links.isEmpty
  | e :: f :: rest => e.links == [f.id] && sequentialLinks (f :: rest)

def keysIncreasing : List (Nat × Nat) → Bool
  | a :: b :: rest => (a.1 < b.1 || (a.1 == b.1 && a.2 < b.2)) && keysIncreasing (b :: rest)
  | _ => true

/-- maps equal as finite functions -/
def sameMap (a b : KMap Rat) : Bool :=
  a.length == b.length && a.all (fun p => b.get? p.1 == some p.2) && b.all (fun p => a.get? p.1 == some p.2)

/-- worst end of the range of `c` -/
def worstEnd (all : List (Alt Rat)) (c : Crit Rat) : Option Rat :=
  match c.range with
  | some (lo, hi) => some (if c.type == "cost" then hi else lo)
  | none => do
    let vs ← all.mapM (·.vals.get? c.id)
    match vs with
    | [] => some 0
    | v :: rest =>
      if c.type == "cost" then some (rest.foldl (fun m x => if m < x then x else m) v)
      else some (rest.foldl (fun m x => if x < m then x else m) v)

def worstEnds (all : List (Alt Rat)) (crits : List (Crit Rat)) : Option (KMap Rat) :=
  crits.mapM fun c => do pure (c.id, ← worstEnd all c)

def entryOk (order : List (Alt Rat)) (crits : List (Crit Rat)) (levels : List (KMap Rat))
    (all : List (Alt Rat)) (e : Entry) : String :=
  match order.find? (·.id == e.id) with
  | none => "unknown-alternative"
  | some a =>
    if e.ev.idx > levels.length then "level-index-out-of-range"
    else if (levels.take e.ev.idx).any (fun t => satisfies a crits t != some false) then
      "ranked-later-than-the-first-level-it-satisfies"
    else match levels[e.ev.idx]? with
      | some t =>
        if !sameMap e.ev.thr t then "reported-thresholds-are-not-the-level's"
        else if satisfies a crits t != some true then "accepted-but-not-satisfying-the-level"
        else "ok"
      | none =>
        match worstEnds all crits with
        | some w => if sameMap e.ev.thr w then "ok" else "leftover-thresholds-are-not-the-worst-range-ends"
        | none => "missing-value"

def explain (order : List (Alt Rat)) (crits : List (Crit Rat)) (levels : List (KMap Rat))
    (all : List (Alt Rat)) (out : List Entry) : String :=
  let ids := order.map (·.id)
  if !ids.Nodup then "examined-alternatives-have-duplicate-ids"
  else if !isPermIds (out.map (·.id)) ids then "not-a-permutation"
  else if !sequentialLinks out then "links"
  else if !keysIncreasing (out.map fun e => (e.ev.idx, idxOfStr ids e.id)) then
    "not-in-(level,search-position)-order"
  else ((out.map (entryOk order crits levels all)).find? (· != "ok")).getD "ok"

def check (order : List (Alt Rat)) (crits : List (Crit Rat)) (levels : List (KMap Rat))
    (all : List (Alt Rat)) (out : List Entry) : Bool :=
  explain order crits levels all out == "ok"

end Rdm.Spec.C13
