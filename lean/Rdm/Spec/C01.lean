/-
  Spec.C01 — a decision is a complete, well-formed ranking: exactly one entry per expected
  alternative; links name only ranked alternatives, never the entry itself, never twice.
-/
import Rdm.Basic
namespace Rdm.Spec.C01

def count (l : List String) (x : String) : Nat := (l.filter (· == x)).length

/-- same multiset of ids -/
def sameIds (a b : List String) : Bool :=
  a.length == b.length && a.all (fun x => count a x == count b x)

def nodup : List String → Bool
  | [] => true
  | x :: xs => !xs.contains x && nodup xs

def entryOk (ids : List String) (e : String × List String) : Bool :=
  e.2.all (fun x => ids.contains x) && !e.2.contains e.1 && nodup e.2

/-- `expected`: choseToMake plus the current choice when one is given (duplicates removed);
    `out`: (id, betterThanOrSameAs) per result entry -/
def explain (expected : List String) (out : List (String × List String)) : String :=
  let ids := out.map (·.1)
  if !sameIds ids expected then "entries"
  else if !nodup ids then "duplicate-entry"
  else match out.find? (fun e => !entryOk ids e) with
    | some e =>
      if !e.2.all (fun x => ids.contains x) then "link-to-unranked:" ++ e.1
      else if e.2.contains e.1 then "self-link:" ++ e.1
      else "duplicate-link:" ++ e.1
    | none => "ok"

def check (expected : List String) (out : List (String × List String)) : Bool :=
  explain expected out == "ok"

end Rdm.Spec.C01
