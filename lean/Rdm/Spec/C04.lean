/-
  Spec.C04 — declarative, decidable statement of "a utility ranking is exactly the order of the
  utilities", evaluated (a) in theorems on the model's output for every input and (b) by the
  driver on the implementation's output (exact rational value of every reported float).
-/
import Rdm.Model.Ranking
namespace Rdm.Spec.C04
open Rdm

/-- ids of all entries with the same value as `e`, other than `e`, in list order -/
def peers (out : List (RankEntry Rat)) (e : RankEntry Rat) : List String :=
  (out.filter fun r => r.v == e.v && r.id != e.id).map (·.id)

/-- the next lower distinct value below `v`, if any -/
def nextLower (out : List (RankEntry Rat)) (v : Rat) : Option Rat :=
  (out.filter fun r => r.v < v).foldl (fun acc r => match acc with
    | none => some r.v
    | some m => if m < r.v then some r.v else some m) none

def nextLevel (out : List (RankEntry Rat)) (e : RankEntry Rat) : List String :=
  match nextLower out e.v with
  | none => []
  | some m => (out.filter fun r => r.v == m).map (·.id)

/-- order: non-increasing value, equal values by ascending id -/
def sortedOk : List (RankEntry Rat) → Bool
  | a :: b :: rest => (decide (b.v < a.v) || (a.v == b.v && decide (a.id ≤ b.id))) && sortedOk (b :: rest)
  | _ => true

/-- links are exactly: the other entries with the same value together with all entries holding
    the next lower distinct value (as sets; the checker is order-insensitive on purpose) -/
def linksOk (out : List (RankEntry Rat)) : Bool :=
  out.all fun e =>
    let want := peers out e ++ nextLevel out e
    e.links.all (fun x => want.contains x) && want.all (fun x => e.links.contains x)
      && e.links.length == want.length

def check (out : List (RankEntry Rat)) : Bool := sortedOk out && linksOk out

/-- which clause fails (for the replay file) -/
def explain (out : List (RankEntry Rat)) : String :=
  if !sortedOk out then "order" else if !linksOk out then "links" else "ok"

end Rdm.Spec.C04
