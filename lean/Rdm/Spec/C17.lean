/-
  Spec.C17 — fatigue blurs every value by at most the fatigue ratio.
  Decidable statement over exact rationals on the implementation's output (`check-c17`).
-/
import Rdm.Spec.C16
namespace Rdm.Spec.C17
open Rdm Rdm.Spec.C15 Rdm.Spec.C16

/-- the clipping interval: the criterion's range scaled about its centre by `σ`:
    `[lo + d − d·σ, hi − d + d·σ]`, `d = (hi − lo)/2` -/
def scaledRange (r : Rat × Rat) (σ : Rat) : Rat × Rat :=
  let d := (r.2 - r.1) / 2
  (r.1 + d - d * σ, r.2 - d + d * σ)

/-- the documented bounding: raise to 0 when negatives are disallowed, then clip into the scaled
    range when a positive scaling is configured -/
def boundSpec (b : Bounding Rat) (r : Rat × Rat) (x : Rat) : Rat :=
  let x := if b.nonNeg then max x 0 else x
  if 0 < b.scaling then
    let s := scaledRange r b.scaling
    min s.2 (max s.1 x)
  else x

def boundingOff (b : Bounding Rat) : Bool := !b.nonNeg && !decide (0 < b.scaling)

/-- one value: `v'` is the bounding of some `w` with `|w − v| ≤ |f·v|` (slack 1e-12 relative to the
    operands); inside the scaled range / non-negative when configured; exact identity when `f = 0`
    and no bounding is configured -/
def valueOk (f : Rat) (b : Bounding Rat) (r : Rat × Rat) (v v' : Rat) : Bool :=
  let m := absR (f * v)
  let slack := tol * (absR v + m)
  let rs := tol * ((absR r.1 + absR r.2) * (1 + absR b.scaling)) + slack
  let lo := boundSpec b r (v - m - slack) - rs
  let hi := boundSpec b r (v + m + slack) + rs
  decide (lo ≤ v') && decide (v' ≤ hi) &&
  (if 0 < b.scaling then
     let s := scaledRange r b.scaling
     decide (s.1 - rs ≤ v') && decide (v' ≤ s.2 + rs)
   else true) &&
  (if b.nonNeg && (!decide (0 < b.scaling) || decide (0 ≤ (scaledRange r b.scaling).2)) then decide (-rs ≤ v')
   else true) &&
  (if f == 0 && boundingOff b then v' == v else true) &&
  (if boundingOff b then decide (absR (v' - v) ≤ m + slack) else true)

/-- every alternative keeps id and position and holds a value for every declared criterion that
    satisfies `valueOk` -/
def altsOk (f : Rat) (b : Bounding Rat) (cur : DMP Rat) (before after : List (Alt Rat)) : Bool :=
  before.length == after.length &&
  (before.zip after).all fun (a, a') =>
    a.id == a'.id &&
    cur.crit.all fun c =>
      match expectedRange cur.all c, a.vals.get? c.id, a'.vals.get? c.id with
      | some r, some v, some v' => valueOk f b r v v'
      | _, _, _ => false

def altsSame (a b : List (Alt Rat)) : Bool :=
  a.length == b.length && (a.zip b).all fun (x, y) =>
    x.id == y.id && sameIds x.vals.keys y.vals.keys && x.vals.all fun (k, v) => y.vals.get? k == some v

/-- report = the ratio and exactly the values handed on -/
def reportOk (f : Rat) (res : DMP Rat) (rep : FatigueReport Rat) : Bool :=
  rep.f == f && altsSame rep.co res.co && altsSame rep.nc res.nc

def frameOk (cur res : DMP Rat) : Bool :=
  critsSame cur.crit res.crit && toString (Ops.encMParams cur.mp) == toString (Ops.encMParams res.mp)

def explain (f : Rat) (b : Bounding Rat) (cur res : DMP Rat) (rep : FatigueReport Rat) : String :=
  if !frameOk cur res then "criteria-or-params-changed"
  else if !altsOk f b cur cur.co res.co then "considered-values"
  else if !altsOk f b cur cur.nc res.nc then "not-considered-values"
  else if !reportOk f res rep then "report"
  else "ok"

def check (f : Rat) (b : Bounding Rat) (cur res : DMP Rat) (rep : FatigueReport Rat) : Bool :=
  frameOk cur res && altsOk f b cur cur.co res.co && altsOk f b cur cur.nc res.nc && reportOk f res rep

/-- the ratio functions: `const` ⇒ `f = value` exactly; `expFromZero` ⇒
    `f = multiplier·e^(alpha·queryNumber) − multiplier`, compared in floating point with 1e-12
    relative to the two terms (`exp` is external) -/
def ratioOk (name : String) (value alpha mult : Float) (q : Int) (f : Float) : Bool :=
  if name == "const" then f == value
  else if name == "expFromZero" then
    let t := mult * Float.exp (alpha * Float.ofInt q)
    Float.abs (f - (t - mult)) ≤ 1e-12 * (Float.abs t + Float.abs mult)
  else false

end Rdm.Spec.C17
