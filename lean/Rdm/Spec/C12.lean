/-
  Spec.C12 — "aspect elimination ranks in reverse order of elimination", decidable checker on an
  output, exact rational arithmetic (all comparisons of the procedure are between input values and
  thresholds, or their negations, so they are exact in floating point too: no tolerance is needed).

  A *check* is a pair (level index ℓ, rank k of the criterion in descending-weight order); checks are
  made in lexicographic order, within a check the remaining alternatives are visited in their
  examination order.  Demanded of the output:
    * it is a permutation of the examined alternatives, linked sequentially;
    * survivors (empty threshold map) come first, in examination order;
    * the eliminated entries, read backwards, have strictly increasing (ℓ, k, position);
    * an eliminated entry reports (ℓ, {c ↦ t_ℓ[c]}), really is worse than that threshold on c, and
      was not worse than the threshold on any earlier check;
    * with ≥ 2 survivors all levels were exhausted: they report #levels and pass every check;
      a single survivor (of ≥ 2 alternatives) reports ℓ*+1 where (ℓ*,k*) is the last elimination,
      passes every earlier check and — if examined before the last eliminated one — that check too;
    * a single alternative reports index 0; nothing is eliminated once one alternative is left
      (at least one survivor).
  For tied weights the criteria order is not determined; the checker then asks for SOME order
  compatible with the weights (the property claims only the invariants in that case).
-/
import Rdm.Model.Types
import Rdm.Model.Links
import Rdm.Model.Heuristics
namespace Rdm.Spec.C12
open Rdm

abbrev Entry := Linked (AspEval Rat)

/-- worse than the threshold: gain `v < t`, cost `v > t` -/
def below (a : Alt Rat) (t : KMap Rat) (c : Crit Rat) : Option Bool := do
  let v ← a.vals.get? c.id
  let th ← t.get? c.id
  pure (if c.type == "cost" then decide (th < v) else decide (v < th))

def idxOfStr (l : List String) (s : String) : Nat := l.findIdx (· == s)

def isPermIds (a b : List String) : Bool :=
  a.length == b.length && a.all (fun x => b.contains x) && b.all (fun x => a.contains x)

def sequentialLinks : List Entry → Bool
  | [] => true
  | [e] => e.links.isEmpty
  | e :: f :: rest => e.links == [f.id] && sequentialLinks (f :: rest)

def lexLt (a b : Nat × Nat × Nat) : Bool :=
  a.1 < b.1 || (a.1 == b.1 && (a.2.1 < b.2.1 || (a.2.1 == b.2.1 && a.2.2 < b.2.2)))

def strictlyIncreasing : List (Nat × Nat × Nat) → Bool
  | a :: b :: rest => lexLt a b && strictlyIncreasing (b :: rest)
  | _ => true

/-- `a` is not worse than the threshold on any check strictly before (ℓ, k), or up to and including
    it when `incl` -/
def passesBefore (a : Alt Rat) (levels : List (KMap Rat)) (order : List (Crit Rat)) (l k : Nat) (incl : Bool) : Bool :=
  levels.zipIdx.all fun (t, li) =>
    order.zipIdx.all fun (c, ki) =>
      if li < l || (li == l && (ki < k || (incl && ki == k))) then below a t c == some false else true

def passesAll (a : Alt Rat) (levels : List (KMap Rat)) (order : List (Crit Rat)) : Bool :=
  levels.all fun t => order.all fun c => below a t c == some false

/-- key (ℓ, k, position) of an eliminated entry; `none` if the report is malformed -/
def keyOf (alts : List (Alt Rat)) (order : List (Crit Rat)) (e : Entry) : Option (Nat × Nat × Nat) :=
  match e.ev.thr with
  | [(cid, _)] =>
    let k := idxOfStr (order.map (·.id)) cid
    if k < order.length then some (e.ev.idx, k, idxOfStr (alts.map (·.id)) e.id) else none
  | _ => none

def eliminatedOk (alts : List (Alt Rat)) (levels : List (KMap Rat)) (order : List (Crit Rat)) (e : Entry) : String :=
  match keyOf alts order e, alts.find? (·.id == e.id) with
  | some (l, k, _), some a =>
    match levels[l]?, order[k]?, e.ev.thr with
    | some t, some c, [(_, reported)] =>
      if t.get? c.id != some reported then "reported-threshold-is-not-the-level's"
      else if below a t c != some true then "eliminated-but-not-below-threshold"
      else if !passesBefore a levels order l k false then "eliminated-later-than-first-failed-check"
      else "ok"
    | _, _, _ => "reported-level-out-of-range"
  | _, _ => "malformed-elimination-report"

def firstBad (l : List String) : String := (l.find? (· != "ok")).getD "ok"

/-- the checker for one criteria order -/
def explainWith (alts : List (Alt Rat)) (levels : List (KMap Rat)) (order : List (Crit Rat)) (out : List Entry) : String :=
  let ids := alts.map (·.id)
  if !ids.Nodup then "examined-alternatives-have-duplicate-ids"
  else if !isPermIds (out.map (·.id)) ids then "not-a-permutation"
  else if !sequentialLinks out then "links"
  else
    let survivors := out.takeWhile (·.ev.thr.isEmpty)
    let elim := out.dropWhile (·.ev.thr.isEmpty)
    if elim.any (·.ev.thr.isEmpty) then "survivor-below-eliminated"
    else
      let chrono := elim.reverse
      let keys := chrono.filterMap (keyOf alts order)
      if keys.length != chrono.length then "malformed-elimination-report"
      else if !strictlyIncreasing keys then "not-reverse-elimination-order"
      else
        let bad := firstBad (chrono.map (eliminatedOk alts levels order))
        if bad != "ok" then bad
        else
          let spos := survivors.map fun e => (0, 0, idxOfStr ids e.id)
          if !strictlyIncreasing spos then "survivors-not-in-examination-order"
          else if alts.isEmpty then "ok"
          else match survivors with
            | [] => "no-survivor"
            | [s] =>
              if alts.length == 1 then (if s.ev.idx == 0 then "ok" else "single-alternative-index")
              else match keys.getLast?, alts.find? (·.id == s.id) with
                | some (l, k, p), some a =>
                  if s.ev.idx != l + 1 then "survivor-index"
                  else if !passesBefore a levels order l k (decide (idxOfStr ids s.id < p)) then "survivor-failed-a-check"
                  else "ok"
                | _, _ => "single-survivor-without-elimination"
            | _ =>
              if survivors.any (fun s => s.ev.idx != levels.length) then "survivor-index"
              else if survivors.any (fun s => match alts.find? (·.id == s.id) with
                  | some a => !passesAll a levels order
                  | none => true) then "survivor-failed-a-check"
              else "ok"

/-- insert `x` at every position -/
def insertions {β : Type} (x : β) : List β → List (List β)
  | [] => [[x]]
  | y :: ys => (x :: y :: ys) :: (insertions x ys).map (y :: ·)

def perms {β : Type} : List β → List (List β)
  | [] => [[]]
  | x :: xs => (perms xs).flatMap (insertions x)

def descending : List (WCrit Rat) → Bool
  | a :: b :: rest => decide (b.w ≤ a.w) && descending (b :: rest)
  | _ => true

/-- every criteria order compatible with "heaviest weight first" -/
def compatibleOrders (wc : List (WCrit Rat)) : List (List (Crit Rat)) :=
  ((perms wc).filter descending).map (·.map (·.crit))

def explain (alts : List (Alt Rat)) (wc : List (WCrit Rat)) (levels : List (KMap Rat)) (out : List Entry) : String :=
  match compatibleOrders wc with
  | [o] => explainWith alts levels o out
  | os =>
    if os.any (fun o => explainWith alts levels o out == "ok") then "ok"
    else "tied-weights:no-compatible-criteria-order-explains-the-output"

def check (alts : List (Alt Rat)) (wc : List (WCrit Rat)) (levels : List (KMap Rat)) (out : List Entry) : Bool :=
  explain alts wc levels out == "ok"

end Rdm.Spec.C12
