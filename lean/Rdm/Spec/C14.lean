/-
  Spec.C14 — "generated aspiration levels follow the documented series and end", decidable checker
  on the list of levels a source handed out (or on its refusal), exact rational arithmetic.

    * parameters are accepted iff 0 < coefficient < 1 and minValue, maxValue ∈ [0,1] (increasing
      series) resp. (0,1] (decreasing series);
    * the ideal ratios follow the documented recurrences
        increasing:  r₀ = minValue, emitted while r < maxValue,
                     r ↦ min((1+r)(1+c) − 1, 1)   or   r ↦ min(r + c, 1)
        decreasing:  r₀ = maxValue, emitted while r > minValue,
                     r ↦ r·c                      or   r ↦ max(r − c, 0)
      and are strictly monotone; the source hands out exactly as many levels;
    * level i places every criterion at `lo + rᵢ·(hi − lo)` (gain) / `hi − rᵢ·(hi − lo)` (cost) where
      (lo, hi) is the declared range if present, else min/max over all known alternatives.
  The implementation computes r in floating point; thresholds are compared with relative tolerance
  1e-9 and the harness submits only cases in which no ratio comes closer than 1e-9 to its bound
  unless it lands on it exactly (dyadic parameters).
-/
import Rdm.Model.Types
import Rdm.Model.Levels
namespace Rdm.Spec.C14
open Rdm

def tol : Rat := 1 / 1000000000

def absR (x : Rat) : Rat := if x < 0 then -x else x
def maxR (a b : Rat) : Rat := if a < b then b else a
def minR (a b : Rat) : Rat := if b < a then b else a

/-- the documented parameter ranges -/
def valid (inc : Bool) (c mx mn : Rat) : Bool :=
  decide (0 < c) && decide (c < 1) &&
  (if inc then decide (0 ≤ mn) && decide (mn ≤ 1) && decide (0 ≤ mx) && decide (mx ≤ 1)
   else decide (0 < mn) && decide (mn ≤ 1) && decide (0 < mx) && decide (mx ≤ 1))

/-- the documented recurrences -/
def next (k : CoefKind) (c r : Rat) : Rat :=
  match k with
  | .incMul => minR ((1 + r) * (1 + c) - 1) 1
  | .incAdd => minR (r + c) 1
  | .decMul => r * c
  | .decSub => maxR (r - c) 0

def continues (k : CoefKind) (mx mn r : Rat) : Bool :=
  if k.inc then decide (r < mx) else decide (mn < r)

/-- at most `fuel` ideal ratios -/
def ideal (k : CoefKind) (c mx mn : Rat) : Nat → Rat → List Rat
  | 0, _ => []
  | n + 1, r => if continues k mx mn r then r :: ideal k c mx mn n (next k c r) else []

def strictMono (inc : Bool) : List Rat → Bool
  | a :: b :: rest => (if inc then decide (a < b) else decide (b < a)) && strictMono inc (b :: rest)
  | _ => true

/-- declared range, else observed over all alternatives -/
def rangeOf (all : List (Alt Rat)) (c : Crit Rat) : Option (Rat × Rat) :=
  match c.range with
  | some r => some r
  | none => do
    let vs ← all.mapM (·.vals.get? c.id)
    match vs with
    | [] => some (0, 0)
    | v :: rest => some (rest.foldl minR v, rest.foldl maxR v)

def want (c : Crit Rat) (rg : Rat × Rat) (r : Rat) : Rat :=
  if c.type == "cost" then rg.2 - r * (rg.2 - rg.1) else rg.1 + r * (rg.2 - rg.1)

def close (scale reported exact : Rat) : Bool := absR (reported - exact) ≤ tol * scale

def scaleOf (rg : Rat × Rat) : Rat := maxR 1 (maxR (absR rg.1) (absR rg.2))

/-- level `t` is the level of ratio `r` -/
def levelOk (crits : List (Crit Rat × (Rat × Rat))) (t : KMap Rat) (r : Rat) : Bool :=
  t.length == crits.length &&
  crits.all fun (c, rg) =>
    match t.get? c.id with
    | some v => close (scaleOf rg) v (want c rg r)
    | none => false

/-- reported thresholds move in the documented direction wherever the ideal ones differ noticeably -/
def movesOk (inc : Bool) (crits : List (Crit Rat × (Rat × Rat))) : List (KMap Rat × Rat) → Bool
  | (t1, r1) :: (t2, r2) :: rest =>
    (crits.all fun (c, rg) =>
      let w1 := want c rg r1
      let w2 := want c rg r2
      if absR (w2 - w1) ≤ 4 * tol * scaleOf rg then true
      else match t1.get? c.id, t2.get? c.id with
        | some v1, some v2 =>
          let up := (inc && c.type != "cost") || (!inc && c.type == "cost")
          if up then decide (v1 < v2) else decide (v2 < v1)
        | _, _ => false)
    && movesOk inc crits ((t2, r2) :: rest)
  | _ => true

def explain (k : CoefKind) (c mx mn : Rat) (crits : List (Crit Rat)) (all : List (Alt Rat))
    (out : Option (List (KMap Rat))) : String :=
  match out with
  | none => if valid k.inc c mx mn then "documented-parameters-rejected" else "ok"
  | some levels =>
    if !valid k.inc c mx mn then "out-of-range-parameters-accepted"
    else
      let r0 := if k.inc then mn else mx
      let rs := ideal k c mx mn (levels.length + 1) r0
      if !strictMono k.inc rs then "ideal-series-not-strictly-monotone"
      else if rs.length != levels.length then
        (if rs.length < levels.length then "more-levels-than-the-documented-series"
         else "fewer-levels-than-the-documented-series")
      else if (if k.inc then decide (mx ≤ mn) else decide (mx ≤ mn)) && !levels.isEmpty then
        "levels-although-min>=max"
      else match crits.mapM (fun cr => do pure (cr, ← rangeOf all cr)) with
        | none => "missing-value"
        | some cr =>
          if !(levels.zip rs).all (fun p => levelOk cr p.1 p.2) then "threshold-is-not-worst-end+r*range"
          else if !movesOk k.inc cr (levels.zip rs) then "thresholds-not-strictly-monotone"
          else "ok"

def check (k : CoefKind) (c mx mn : Rat) (crits : List (Crit Rat)) (all : List (Alt Rat))
    (out : Option (List (KMap Rat))) : Bool :=
  explain k c mx mn crits all out == "ok"

end Rdm.Spec.C14
