/-
  Rdm.Basic — numeric interface, S-expressions and small utilities shared by the model,
  the specs and the driver.  Core Lean only (no Mathlib) so that the driver links.
-/
namespace Rdm

/-- A floating point constant of the Go source: the IEEE-754 bits of the `float64` the Go
compiler produces and the exact rational value of that double.  Emitted by `tools/facts`. -/
structure Const where
  bits : UInt64
  num  : Int
  den  : Nat
  deriving Repr, BEq

/-- The numeric interface of the model.  Two instances: `Float` (bit-exact with Go's `float64`
for `+ - * /`, comparisons, `round`, `floor`; used by the driver) and `Rat` (theorems). -/
class Num (α : Type) extends Add α, Sub α, Mul α, Div α, Neg α, LT α, LE α, BEq α where
  decLt : (a b : α) → Decidable (a < b)
  decLe : (a b : α) → Decidable (a ≤ b)
  zero : α
  one : α
  ofInt : Int → α
  ofConst : Const → α
  /-- `int(math.Floor(x))` -/
  floorInt : α → Int
  /-- `math.Round`: half away from zero -/
  round : α → α
  abs : α → α
  max : α → α → α
  min : α → α → α
  /-- decode an IEEE-754 double -/
  ofBits : UInt64 → α
  repr : α → String

instance {α} [Num α] (a b : α) : Decidable (a < b) := Num.decLt a b
instance {α} [Num α] (a b : α) : Decidable (a ≤ b) := Num.decLe a b

namespace Num
variable {α : Type} [Num α]
/-- Go's `a > b` -/
@[inline] def gt (a b : α) : Bool := decide (b < a)
@[inline] def ge (a b : α) : Bool := decide (b ≤ a)
@[inline] def ofNat (n : Nat) : α := Num.ofInt (Int.ofNat n)
end Num

/-! ### Float instance -/

def hexDigit (n : Nat) : Char :=
  if n < 10 then Char.ofNat (48 + n) else Char.ofNat (87 + n)

def hex16 (w : UInt64) : String :=
  let n := w.toNat
  String.ofList ((List.range 16).map fun i => hexDigit ((n >>> (4 * (15 - i))) % 16))

def hexVal (c : Char) : Option Nat :=
  if '0' ≤ c ∧ c ≤ '9' then some (c.toNat - 48)
  else if 'a' ≤ c ∧ c ≤ 'f' then some (c.toNat - 87)
  else if 'A' ≤ c ∧ c ≤ 'F' then some (c.toNat - 55)
  else none

def parseHex (s : List Char) : Option Nat :=
  s.foldlM (fun acc c => (hexVal c).map (fun d => acc * 16 + d)) 0

/-- Go's `math.Max` (NaN-propagating, `Max(+0,-0)=+0`). -/
def Float.goMax (x y : Float) : Float :=
  if x.isNaN || y.isNaN then (0.0 / 0.0)
  else if x == 0 && y == 0 then (if x.toBits == 0 then x else y)
  else if x > y then x else y

/-- Go's `math.Min` (`Min(-0,+0)=-0`). -/
def Float.goMin (x y : Float) : Float :=
  if x.isNaN || y.isNaN then (0.0 / 0.0)
  else if x == 0 && y == 0 then (if x.toBits != 0 then x else y)
  else if x < y then x else y

instance : Num Float where
  decLt := fun a b => inferInstanceAs (Decidable (a < b))
  decLe := fun a b => inferInstanceAs (Decidable (a ≤ b))
  zero := 0.0
  one := 1.0
  ofInt := Float.ofInt
  ofConst := fun c => Float.ofBits c.bits
  floorInt := fun x => (Float.floor x).toInt64.toInt
  round := Float.round
  abs := Float.abs
  max := Float.goMax
  min := Float.goMin
  ofBits := Float.ofBits
  repr := fun x => "x" ++ hex16 x.toBits

/-! ### Rat instance -/

/-- Exact rational value of a finite double (NaN/Inf map to 0; the harness never feeds them). -/
def ratOfBits (w : UInt64) : Rat :=
  let n := w.toNat
  let sign : Int := if n >>> 63 == 1 then -1 else 1
  let e := (n >>> 52) % 2048
  let m : Nat := n % (2 ^ 52)
  if e == 2047 then 0
  else if e == 0 then mkRat (sign * (m : Int)) (2 ^ 1074)
  else
    let mant : Int := sign * ((2 ^ 52 + m : Nat) : Int)
    if e ≥ 1075 then (mant * (2 : Int) ^ (e - 1075) : Int)
    else mkRat mant (2 ^ (1075 - e))

def Rat.roundHalfAway (x : Rat) : Rat :=
  if x < 0 then -((-x + 1/2).floor : Int) else ((x + 1/2).floor : Int)

instance : Num Rat where
  decLt := fun a b => inferInstanceAs (Decidable (a < b))
  decLe := fun a b => inferInstanceAs (Decidable (a ≤ b))
  zero := 0
  one := 1
  ofInt := fun i => (i : Rat)
  ofConst := fun c => mkRat c.num c.den
  floorInt := Rat.floor
  round := Rat.roundHalfAway
  abs := fun x => if x < 0 then -x else x
  max := fun a b => if a < b then b else a
  min := fun a b => if b < a then b else a
  ofBits := ratOfBits
  repr := fun x => toString x.num ++ "/" ++ toString x.den

/-! ### S-expressions (the line protocol) -/

inductive SExp where
  | atom : String → SExp
  | list : List SExp → SExp
  deriving Inhabited, BEq, Repr

namespace SExp

partial def toStr : SExp → String
  | atom s => s
  | list l => "(" ++ " ".intercalate (l.map toStr) ++ ")"

instance : ToString SExp := ⟨toStr⟩

/-- tokens: "(", ")" and maximal runs of other non-blank characters -/
def tokenize (s : String) : List String :=
  let step := fun (st : List String × List Char) (c : Char) =>
    let (acc, cur) := st
    let flush := if cur.isEmpty then acc else String.ofList cur.reverse :: acc
    if c == '(' then ("(" :: flush, [])
    else if c == ')' then (")" :: flush, [])
    else if c == ' ' || c == '\n' || c == '\t' || c == '\r' then (flush, [])
    else (acc, c :: cur)
  let (acc, cur) := s.toList.foldl step ([], [])
  (if cur.isEmpty then acc else String.ofList cur.reverse :: acc).reverse

/-- stack-based parser; returns the list of top-level expressions -/
def parseToks (toks : List String) : Except String (List SExp) := do
  let mut stack : List (List SExp) := [[]]
  for t in toks do
    if t == "(" then
      stack := [] :: stack
    else if t == ")" then
      match stack with
      | top :: parent :: rest => stack := (list top.reverse :: parent) :: rest
      | _ => throw "unbalanced )"
    else
      match stack with
      | top :: rest => stack := (atom t :: top) :: rest
      | [] => throw "empty stack"
  match stack with
  | [top] => pure top.reverse
  | _ => throw "unbalanced ("

def parse (s : String) : Except String SExp := do
  match ← parseToks (tokenize s) with
  | [e] => pure e
  | l => pure (list l)

end SExp

/-! ### Decoding helpers -/

abbrev R := Except String

def SExp.asAtom : SExp → R String
  | .atom s => pure s
  | e => throw s!"expected atom, got {e}"

def SExp.asList : SExp → R (List SExp)
  | .list l => pure l
  | e => throw s!"expected list, got {e}"

def SExp.asInt (e : SExp) : R Int := do
  let s ← e.asAtom
  match s.toInt? with
  | some i => pure i
  | none => throw s!"expected int, got {s}"

def SExp.asNat (e : SExp) : R Nat := do
  let i ← e.asInt
  if i < 0 then throw "expected nat" else pure i.toNat

def SExp.asBool (e : SExp) : R Bool := do
  let s ← e.asAtom
  if s == "true" then pure true else if s == "false" then pure false else throw s!"expected bool, got {s}"

/-- a number atom: `x<16 hex>` (IEEE bits) -/
def SExp.asNum {α} [Num α] (e : SExp) : R α := do
  let s ← e.asAtom
  match s.toList with
  | 'x' :: rest =>
    match parseHex rest with
    | some n => pure (Num.ofBits (UInt64.ofNat n))
    | none => throw s!"bad number {s}"
  | _ => throw s!"bad number {s}"

def SExp.mapList {β} (e : SExp) (f : SExp → R β) : R (List β) := do
  (← e.asList).mapM f

/-- string atoms: `s:` followed by the raw text (ids are restricted to `[A-Za-z0-9_,+.-]`),
    the empty string is `s:` -/
def SExp.asStr (e : SExp) : R String := do
  let s ← e.asAtom
  if s.startsWith "s:" then pure ((s.drop 2).toString) else throw s!"expected string atom, got {s}"

def SExp.str (s : String) : SExp := .atom ("s:" ++ s)
def SExp.int (i : Int) : SExp := .atom (toString i)
def SExp.nat (i : Nat) : SExp := .atom (toString i)
def SExp.bool (b : Bool) : SExp := .atom (if b then "true" else "false")
def SExp.num {α} [Num α] (x : α) : SExp := .atom (Num.repr x)

/-! ### Go maps as association lists -/

abbrev KMap (β : Type) := List (String × β)

namespace KMap
variable {β : Type}
def get? (m : KMap β) (k : String) : Option β := List.lookup k m
def has (m : KMap β) (k : String) : Bool := (List.lookup k m).isSome
def keys (m : KMap β) : List String := m.map Prod.fst
/-- insert or overwrite (Go `m[k] = v`), keeping the position of an existing key -/
def set (m : KMap β) (k : String) (v : β) : KMap β :=
  if m.any (fun p => p.1 == k) then m.map (fun p => if p.1 == k then (k, v) else p) else m ++ [(k, v)]
/-- canonical order: ascending by key (how the harness prints Go maps) -/
def sorted (m : KMap β) : KMap β := m.mergeSort (fun a b => a.1 ≤ b.1)
end KMap

def SExp.asKMap {β} (e : SExp) (f : SExp → R β) : R (KMap β) := do
  (← e.asList).mapM fun p => do
    match p with
    | .list [k, v] => pure (← k.asStr, ← f v)
    | _ => throw s!"expected (key value), got {p}"

def SExp.kmap {β} (m : KMap β) (f : β → SExp) : SExp :=
  .list (m.sorted.map fun p => .list [SExp.str p.1, f p.2])

/-- a finite prefix of a seeded random stream, consumed front to back -/
abbrev Draws (α : Type) := List α

def draw {α} (d : Draws α) : R (α × Draws α) :=
  match d with
  | [] => throw "draws-exhausted"
  | x :: xs => pure (x, xs)

end Rdm
