/-
  Lemmas for the END-TO-END theorems, part 3 (C03, C04): for the three utility methods the `result` of a
  response is exactly `ranking` of the scored considered alternatives of the state that reached `Evaluate`
  (`resp.final`), so every entry carries the 1e-8 rounding of the method's value of one considered alternative
  of that state, under the parameters of that state.
-/
import Rdm.Lemmas.E2EDecide
import Rdm.Lemmas.E2EWellformed
import Rdm.Lemmas.RankingBasic
import Rdm.Lemmas.RankingWellformed
import Mathlib.Data.List.Perm.Basic
namespace Rdm
set_option linter.unusedSectionVars false
set_option linter.unusedSimpArgs false
variable {α : Type} [Num α]

/-! ### the utility entries of a response -/

/-- a utility-ranking entry as it appears in the response (`evaluation` = `ValueAlternativeResult`) -/
def e2eOfRankEntry (e : RankEntry α) : Linked (Eval α) := ⟨e.id, .util e.v, e.links⟩

/-- the entries of a response's `result` that carry a utility value, read back as ranking entries
    (what the C04 checker is evaluated on) -/
def e2eUtilEntries (res : List (Linked (Eval α))) : List (RankEntry α) :=
  res.filterMap fun e => match e.ev with
    | .util v => some ⟨e.id, v, e.links⟩
    | _ => none

theorem e2eUtilEntries_map (r : List (RankEntry α)) : e2eUtilEntries (r.map e2eOfRankEntry) = r := by
  induction r with
  | nil => rfl
  | cons x xs ih =>
    unfold e2eUtilEntries at ih ⊢
    simp only [List.map_cons, List.filterMap_cons, e2eOfRankEntry] at ih ⊢
    rw [ih]

/-- `model.Rank`: the considered alternatives with the method's value, in order; fails when a value does -/
def e2eScored (d : DMP α) : R (List (Scored α)) :=
  d.co.mapM fun a => do pure (⟨a.id, ← utilityValueOf d.mp a⟩ : Scored α)

theorem e2e_utilityEvaluate_eq (d : DMP α) :
    utilityEvaluate d = (e2eScored d >>= fun scored => pure (ranking scored)) := rfl

/-- what a successful scoring returned: one score per considered alternative, in order, same id, the method's
    value under the state's parameters -/
theorem e2e_scored_ok {d : DMP α} {scored : List (Scored α)} (h : e2eScored d = .ok scored) :
    scored.length = d.co.length ∧
    (∀ p ∈ d.co.zip scored, p.2.id = p.1.id ∧ utilityValueOf d.mp p.1 = .ok p.2.v) ∧
    scored.map (·.id) = d.co.map (·.id) := by
  unfold e2eScored at h
  obtain ⟨hl2, hp2⟩ := mapM_ok h
  have hp' : ∀ p ∈ d.co.zip scored, p.2.id = p.1.id ∧ utilityValueOf d.mp p.1 = .ok p.2.v := by
    intro p hpm
    have := hp2 p hpm
    obtain ⟨v, hv, this⟩ := bind_eq_ok.mp this
    simp only [pure, Except.pure, Except.ok.injEq] at this
    rw [← this]
    exact ⟨rfl, hv⟩
  refine ⟨hl2, hp', ?_⟩
  apply List.ext_getElem (by simp [hl2])
  intro i h1 h2
  simp only [List.getElem_map]
  have hi : i < d.co.length := by simpa using h2
  have hi' : i < scored.length := by simpa using h1
  have hz : (d.co[i], scored[i]) ∈ d.co.zip scored := by
    rw [List.mem_iff_getElem]; exact ⟨i, by simp only [List.length_zip]; omega, by simp⟩
  exact (hp' _ hz).1

/-- every score belongs to a considered alternative, and every considered alternative has a score -/
theorem e2e_scored_mem {d : DMP α} {scored : List (Scored α)} (h : e2eScored d = .ok scored) :
    (∀ s ∈ scored, ∃ a ∈ d.co, s.id = a.id ∧ utilityValueOf d.mp a = .ok s.v) ∧
    (∀ a ∈ d.co, ∃ s ∈ scored, s.id = a.id ∧ utilityValueOf d.mp a = .ok s.v) := by
  obtain ⟨hl, hp, _⟩ := e2e_scored_ok h
  constructor
  · intro s hs
    obtain ⟨i, hi, rfl⟩ := List.mem_iff_getElem.mp hs
    have hi' : i < d.co.length := by omega
    have hz : (d.co[i], scored[i]) ∈ d.co.zip scored := by
      rw [List.mem_iff_getElem]; exact ⟨i, by simp only [List.length_zip]; omega, by simp⟩
    exact ⟨d.co[i], List.getElem_mem hi', hp _ hz⟩
  · intro a ha
    obtain ⟨i, hi, rfl⟩ := List.mem_iff_getElem.mp ha
    have hi' : i < scored.length := by omega
    have hz : (d.co[i], scored[i]) ∈ d.co.zip scored := by
      rw [List.mem_iff_getElem]; exact ⟨i, by simp only [List.length_zip]; omega, by simp⟩
    exact ⟨scored[i], List.getElem_mem hi', hp _ hz⟩

/-! ### entries of `ranking` and the scores -/

theorem e2e_ranking_mem (l : List (Scored α)) :
    (∀ e ∈ ranking l, ∃ s ∈ l, e.id = s.id ∧ e.v = round8 s.v) ∧
    (∀ s ∈ l, ∃ e ∈ ranking l, e.id = s.id ∧ e.v = round8 s.v) := by
  constructor
  · intro e he
    rw [ranking_eq] at he
    obtain ⟨a, ha, rfl⟩ := List.mem_map.mp he
    have ha' : a ∈ roundAll l := (List.mergeSort_perm _ _).mem_iff.mp ha
    obtain ⟨s, hs, rfl⟩ := List.mem_map.mp ha'
    exact ⟨s, hs, rfl, rfl⟩
  · intro s hs
    have hs' : ({ s with v := round8 s.v } : Scored α) ∈ (roundAll l).mergeSort rankLe :=
      (List.mergeSort_perm _ _).mem_iff.mpr (List.mem_map.mpr ⟨s, hs, rfl⟩)
    rw [ranking_eq]
    exact ⟨_, List.mem_map.mpr ⟨_, hs', rfl⟩, rfl, rfl⟩

/-! ### the method is a utility method -/

theorem e2eIsUtility_cases {mp : MParams α} (h : e2eIsUtility mp = true) :
    (∃ wc, mp = .ws wc) ∨ (∃ wc, mp = .owa wc) ∨ (∃ w cs, mp = .choquet w cs) := by
  unfold e2eIsUtility at h
  cases mp <;> simp [e2eTag] at h
  · exact Or.inl ⟨_, rfl⟩
  · exact Or.inr (Or.inl ⟨_, rfl⟩)
  · exact Or.inr (Or.inr ⟨_, _, rfl⟩)

theorem e2eTag_ws {mp : MParams α} {wc₀ : List (WCrit α)} (h : e2eTag mp = e2eTag (.ws wc₀ : MParams α)) :
    ∃ wc, mp = .ws wc := by
  cases mp <;> simp [e2eTag] at h
  exact ⟨_, rfl⟩

theorem e2eTag_owa {mp : MParams α} {wc₀ : List (WCrit α)} (h : e2eTag mp = e2eTag (.owa wc₀ : MParams α)) :
    ∃ wc, mp = .owa wc := by
  cases mp <;> simp [e2eTag] at h
  exact ⟨_, rfl⟩

theorem e2eTag_choquet {mp : MParams α} {w₀ : KMap α} {cs₀ : List (Crit α)}
    (h : e2eTag mp = e2eTag (.choquet w₀ cs₀ : MParams α)) : ∃ w cs, mp = .choquet w cs := by
  cases mp <;> simp [e2eTag] at h
  exact ⟨_, _, rfl⟩

/-! ### the response of a utility method -/

/-- **for a utility method the response IS the utility ranking of the final state**: if the request's
    parameters are those of weightedSum, owa or choquetIntegral and `MakeDecision` answers, then — whatever
    biases ran — the parameters that reached `Evaluate` are still of that method, every considered alternative
    of the final state was scored, and `result` is `ranking` of these scores -/
theorem e2e_decideWith_utility {exp : α → α} {o : List (WCrit α) → List (WCrit α)} {req : Request α}
    {g : Int → Draws α} {resp : Response α} {mp : MParams α}
    (h : decideWith exp o req g = .ok resp) (hmp : req.mp = some mp) (hu : e2eIsUtility mp = true) :
    e2eTag resp.final.mp = e2eTag mp ∧ resp.final.co.map (·.id) = req.chosen ∧
    ∃ scored, e2eScored resp.final = .ok scored ∧ resp.result = (ranking scored).map e2eOfRankEntry := by
  obtain ⟨hp, he⟩ := e2e_decideWith_ok h
  obtain ⟨mp', _, hmp', _, _, htag, hco, _⟩ := e2e_pipeline_frame hp
  rw [hmp] at hmp'
  cases hmp'
  refine ⟨htag, hco, ?_⟩
  have hu' : e2eIsUtility resp.final.mp = true := by
    unfold e2eIsUtility at hu ⊢; rw [htag]; exact hu
  rcases e2e_evaluateWith_cases he with ⟨_, r, hr, hres⟩ | ⟨ec, dist, r, hm, _⟩ |
      ⟨w, cur, seed, rnd, dr, r, hm, _⟩ | ⟨fn, lv, seed, w, rnd, r, hm, _⟩ | ⟨fn, lv, seed, cur, rnd, r, hm, _⟩
  · rw [e2e_utilityEvaluate_eq] at hr
    obtain ⟨scored, hs, hr⟩ := bind_eq_ok.mp hr
    simp only [pure, Except.pure, Except.ok.injEq] at hr
    exact ⟨scored, hs, by rw [hres, ← hr]; rfl⟩
  all_goals (rw [hm] at hu'; simp [e2eIsUtility, e2eTag] at hu')

/-- the values of the response, read off the final state: every entry is some considered alternative of the
    final state with the 1e-8 rounding of the method's value of it, and every considered alternative has such
    an entry -/
theorem e2e_utility_values {d : DMP α} {scored : List (Scored α)} {res : List (Linked (Eval α))}
    (hs : e2eScored d = .ok scored) (hres : res = (ranking scored).map e2eOfRankEntry) :
    (∀ e ∈ res, ∃ a ∈ d.co, ∃ v, a.id = e.id ∧ utilityValueOf d.mp a = .ok v ∧ e.ev = .util (round8 v)) ∧
    (∀ a ∈ d.co, ∃ v, utilityValueOf d.mp a = .ok v ∧ ∃ e ∈ res, e.id = a.id ∧ e.ev = .util (round8 v)) := by
  obtain ⟨m1, m2⟩ := e2e_scored_mem hs
  obtain ⟨r1, r2⟩ := e2e_ranking_mem scored
  subst hres
  constructor
  · intro e he
    obtain ⟨r, hr, rfl⟩ := List.mem_map.mp he
    obtain ⟨s, hsm, hid, hv⟩ := r1 r hr
    obtain ⟨a, ha, hsa, hval⟩ := m1 s hsm
    exact ⟨a, ha, s.v, by simp [e2eOfRankEntry, hid, hsa], hval, by simp [e2eOfRankEntry, hv]⟩
  · intro a ha
    obtain ⟨s, hsm, hsa, hval⟩ := m2 a ha
    obtain ⟨r, hr, hid, hv⟩ := r2 s hsm
    exact ⟨s.v, hval, e2eOfRankEntry r, List.mem_map.mpr ⟨r, hr, rfl⟩, by simp [e2eOfRankEntry, hid, hsa],
      by simp [e2eOfRankEntry, hv]⟩

/-! ### requests without an enabled bias, and the order of the alternatives -/

theorem e2e_mapM_eq_filterMap {β γ : Type} {f : β → R γ} :
    ∀ {l : List β} {r : List γ}, l.mapM f = .ok r → r = l.filterMap (fun x => (f x).toOption) := by
  intro l
  induction l with
  | nil => intro r h; simp only [List.mapM_nil, pure, Except.pure, Except.ok.injEq] at h; subst h; rfl
  | cons a l ih =>
    intro r h
    rw [List.mapM_cons] at h
    obtain ⟨b, hb, h⟩ := bind_eq_ok.mp h
    obtain ⟨bs, hbs, h⟩ := bind_eq_ok.mp h
    simp only [pure, Except.pure, Except.ok.injEq] at h
    subst h
    rw [List.filterMap_cons, hb, ← ih hbs]
    rfl

/-- when no bias is enabled the state that reaches `Evaluate` is the one `prepareParams` built -/
theorem e2e_no_bias_pipeline {exp : α → α} {req : Request α} {g : Int → Draws α} {fin : DMP α}
    {outs : List (BiasOut α (Report α))} (h : pipeline exp req g = .ok (fin, outs))
    (hb : ∀ b ∈ req.biases, b.disabled = true) :
    ∃ mp, req.mp = some mp ∧ prepareParams req mp = .ok fin ∧ outs = [] := by
  unfold pipeline at h
  obtain ⟨⟨params, chosen⟩, hp, h⟩ := bind_eq_ok.mp h
  obtain ⟨_, mp, hmp, hpp, hch⟩ := decidePrepare_ok hp
  have hf : req.biases.filter (!·.disabled) = [] := by
    rw [List.filter_eq_nil_iff]
    intro b hbm
    simp [hb b hbm]
  unfold chooseBiases at hch
  rw [hf] at hch
  simp only [List.mapM_nil, pure, Except.pure, Except.ok.injEq] at hch
  subst hch
  simp only [processBiases, processLoop, pure, Except.pure, Except.ok.injEq, Prod.mk.injEq] at h
  obtain ⟨rfl, rfl⟩ := h
  exact ⟨mp, hmp, hpp, rfl⟩

/-- `FetchAlternative` does not depend on the order of the known alternatives when their ids are distinct -/
theorem e2e_fetchAlt_perm {known known' : List (Alt α)} (hp : known.Perm known')
    (hnd : (known.map (·.id)).Nodup) (id : String) : fetchAlt known id = fetchAlt known' id := by
  have hnd' : (known'.map (·.id)).Nodup := (hp.map _).nodup_iff.mp hnd
  have : known.find? (fun a => a.id == id) = known'.find? (fun a => a.id == id) := by
    cases h1 : known.find? (fun a => a.id == id) with
    | none =>
      symm
      rw [List.find?_eq_none] at h1 ⊢
      intro a ha
      exact h1 a (hp.mem_iff.mpr ha)
    | some a =>
      have ha : a ∈ known := List.mem_of_find?_eq_some h1
      have hpa : (a.id == id) = true := by simpa using List.find?_some h1
      cases h2 : known'.find? (fun a => a.id == id) with
      | none =>
        rw [List.find?_eq_none] at h2
        exact absurd hpa (h2 a (hp.mem_iff.mp ha))
      | some b =>
        have hb : b ∈ known' := List.mem_of_find?_eq_some h2
        have hpb : (b.id == id) = true := by simpa using List.find?_some h2
        have : a = b := eq_of_id_eq (·.id) hnd' (hp.mem_iff.mp ha) hb
          ((eq_of_beq hpa).trans (eq_of_beq hpb).symm)
        rw [this]
  unfold fetchAlt
  rw [this]

/-- the scores of a utility method do not depend (as a multiset) on the order of `choseToMake` and of the known
    alternatives -/
theorem e2e_scored_perm {req req' : Request α} {mp : MParams α} {d d' : DMP α} {s s' : List (Scored α)}
    (hk : req'.known.Perm req.known) (hnd : (req.known.map (·.id)).Nodup) (hc : req'.chosen.Perm req.chosen)
    (hp : prepareParams req mp = .ok d) (hp' : prepareParams req' mp = .ok d')
    (hs : e2eScored d = .ok s) (hs' : e2eScored d' = .ok s') : s'.Perm s := by
  unfold prepareParams at hp hp'
  obtain ⟨co, hco, hp⟩ := bind_eq_ok.mp hp
  obtain ⟨co', hco', hp'⟩ := bind_eq_ok.mp hp'
  simp only [pure, Except.pure, Except.ok.injEq] at hp hp'
  subst hp hp'
  have hf : fetchAlt req'.known = fetchAlt req.known := by
    funext id; exact (e2e_fetchAlt_perm hk.symm hnd id).symm
  rw [hf] at hco'
  have hcoP : co'.Perm co := by
    rw [e2e_mapM_eq_filterMap hco, e2e_mapM_eq_filterMap hco']
    exact hc.filterMap _
  unfold e2eScored at hs hs'
  dsimp only at hs hs'
  rw [e2e_mapM_eq_filterMap hs, e2e_mapM_eq_filterMap hs']
  exact hcoP.filterMap _

end Rdm
