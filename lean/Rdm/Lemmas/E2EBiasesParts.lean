/-
  Lemmas for the END-TO-END theorems about single biases inside whole requests, part 3:
    * what concealment, mixing and anchoring read from `original` (inside a request: the state `prepare` built)
      and what from `current` (the state handed on by the previous fired bias): `e2eb_conceal_sources`,
      `e2eb_mixingCore_sources`, `e2eb_anchoringFront_parts` — the literal decomposition of the model;
    * parameters of the same method have the same constructor (`e2eb_same_method_*`);
    * runs in which only criteria omissions fire (`e2eb_loop_only_omissions`);
    * erasing a fired entry whose step changed nothing (`e2eb_loop_erase_identity_step`);
    * two value maps with the same distinct keys and the same lookups are equal (`e2eb_kmap_eq`).
-/
import Rdm.Lemmas.E2EBiasesState
import Rdm.Lemmas.BiasARestrict
namespace Rdm
set_option linter.unusedSectionVars false
variable {α : Type} [Num α]

/-! ### concealment: which input comes from where -/

/-- **Concealment, source by source.**  From `original`: the ranking the reference criterion is picked from,
    the reference criterion's value range (over `original`'s alternatives) and therefore the new criterion's
    range, and the parameters `OnCriterionAdded` is asked on.  From `current`: the new id (unused among
    `current`'s criteria), the alternatives that receive a value (all of `current`'s, sorted by id), the
    considered / not-considered lists that are updated, the parameters the addition is merged into, the criteria
    list that is extended. -/
theorem e2eb_conceal_sources {eps : α} {orig cur : DMP α} {p : Props α} {rd g : Draws α} {res : DMP α}
    {rep : ConcealReport α} (h : conceal eps orig cur p rd g = .ok (res, rep)) :
    ∃ (ranked : List (WCrit α)) (ref : Crit α) (r : α × α) (b : Bounding α) (alts : List (Alt α))
      (g' g'' : Draws α),
      -- read from `original`
      rankAsc eps orig = .ok ranked ∧ refCriterion p ranked rd = .ok ref ∧ valuesRange orig.all ref = .ok r ∧
      rep.range = scaleEqually r (p.num "newCriterionScaling" (Num.ofConst Facts.defaultConcealmentScaling)) ∧
      onAdded orig.mp ⟨rep.id, rep.type, some rep.range⟩ ref g' = .ok (rep.addition, g'') ∧
      -- read from `current`
      rep.id = notUsedName (cur.crit.map (·.id)) Facts.concealedBaseName ∧ rep.type = Facts.critGain ∧
      boundingOfProps p = .ok b ∧
      assignConcealed b rep.range rep.id (sortAltsById cur.all) g = .ok (alts, rep.values, g') ∧
      updateAlts cur.nc alts = .ok res.nc ∧ updateAlts cur.co alts = .ok res.co ∧
      mergeParams cur.mp rep.addition = .ok res.mp ∧
      critsAdd cur.crit ⟨rep.id, rep.type, some rep.range⟩ = .ok res.crit := by
  unfold conceal at h
  dsimp only at h
  split at h
  · exact (throw_bind_ne_ok.mp h).elim
  · obtain ⟨b, hb, h⟩ := bind_eq_ok.mp h
    obtain ⟨⟨ref, newC⟩, hbase, h⟩ := bind_eq_ok.mp h
    obtain ⟨⟨alts, values, g'⟩, hassign, h⟩ := bind_eq_ok.mp h
    obtain ⟨nc, hnc, h⟩ := bind_eq_ok.mp h
    obtain ⟨co, hco, h⟩ := bind_eq_ok.mp h
    obtain ⟨⟨add, g''⟩, hadd, h⟩ := bind_eq_ok.mp h
    obtain ⟨mp, hmp, h⟩ := bind_eq_ok.mp h
    obtain ⟨crits, hcrits, h⟩ := bind_eq_ok.mp h
    simp only [pure, Except.pure, Except.ok.injEq, Prod.mk.injEq] at h
    obtain ⟨rfl, rfl⟩ := h
    unfold concealBase at hbase
    obtain ⟨ranked, hrank, hbase⟩ := bind_eq_ok.mp hbase
    obtain ⟨ref', href, hbase⟩ := bind_eq_ok.mp hbase
    obtain ⟨r, hr, hbase⟩ := bind_eq_ok.mp hbase
    simp only [pure, Except.pure, Except.ok.injEq, Prod.mk.injEq] at hbase
    obtain ⟨rfl, rfl⟩ := hbase
    exact ⟨ranked, ref', r, b, alts, g', g'', hrank, href, hr, rfl, hadd, rfl, rfl, hb, hassign, hnc, hco, hmp,
      hcrits⟩

/-! ### mixing: which input comes from where -/

/-- **Mixing, source by source** (the part after the guards; `u1`, `u2` are the first two numbers of the
    `randomSeed` stream).  From `original`: the number of criteria the two indices are computed from and the two
    criteria themselves, the ranking and the reference criterion, the target range, the two rescaled
    components (over `original`'s alternatives), and the alternatives that receive the mixed value.  From
    `current`: the parameters the listener is asked on and the addition is merged into, the considered /
    not-considered lists whose members are REPLACED by the alternatives built from `original`, the criteria list
    that is extended. -/
theorem e2eb_mixingCore_sources {eps : α} {orig cur : DMP α} {p : Props α} {ρ : α} {rd : Draws α} {u1 u2 : α}
    {g : Draws α} {res : DMP α} {rep : Option (MixReport α)}
    (h : mixingCore eps orig cur p ρ rd u1 u2 g = .ok (res, rep)) :
    ∃ (r : MixReport α) (c1 c2 ref : Crit α) (kind : RefKind) (ranked : List (WCrit α)) (target : α × α)
      (newAlts : List (Alt α)) (g' : Draws α),
      rep = some r ∧
      -- read from `original`
      critAt orig.crit (mixIndices orig.crit.length u1 u2).1 = .ok c1 ∧
      critAt orig.crit (mixIndices orig.crit.length u1 u2).2 = .ok c2 ∧
      refForParams p = .ok kind ∧ rankAsc eps orig = .ok ranked ∧ refProvide kind p ranked rd = .ok ref ∧
      groundZeroRange orig.all ref = .ok target ∧
      rescaleCriterion c1 orig.all target = .ok r.c1.values ∧ rescaleCriterion c2 orig.all target = .ok r.c2.values ∧
      mixValues ρ r.c1.values r.c2.values = .ok r.new.values ∧
      r.c1.id = c1.id ∧ r.c2.id = c2.id ∧ r.new.id = "__" ++ c1.id ++ "+" ++ c2.id ++ "__" ∧
      orig.all.mapM (fun a => a.withCrit r.new.id ((r.new.values.get? a.id).getD Num.zero)) = .ok newAlts ∧
      -- read from `current`
      onAdded cur.mp ⟨r.new.id, Facts.critGain, some target⟩ ref g = .ok (r.addition, g') ∧
      mergeParams cur.mp r.addition = .ok res.mp ∧
      updateAlts cur.nc newAlts = .ok res.nc ∧ updateAlts cur.co newAlts = .ok res.co ∧
      critsAdd cur.crit ⟨r.new.id, Facts.critGain, some target⟩ = .ok res.crit := by
  unfold mixingCore at h
  dsimp only at h
  obtain ⟨c1, hc1, h⟩ := bind_eq_ok.mp h
  obtain ⟨c2, hc2, h⟩ := bind_eq_ok.mp h
  obtain ⟨kind, hkind, h⟩ := bind_eq_ok.mp h
  obtain ⟨ranked, hrank, h⟩ := bind_eq_ok.mp h
  obtain ⟨ref, href, h⟩ := bind_eq_ok.mp h
  obtain ⟨target, htarget, h⟩ := bind_eq_ok.mp h
  obtain ⟨v1, hv1, h⟩ := bind_eq_ok.mp h
  obtain ⟨v2, hv2, h⟩ := bind_eq_ok.mp h
  obtain ⟨mixed, hmixed, h⟩ := bind_eq_ok.mp h
  obtain ⟨⟨add, g'⟩, hadd, h⟩ := bind_eq_ok.mp h
  obtain ⟨mp, hmp, h⟩ := bind_eq_ok.mp h
  obtain ⟨newAlts, hnew, h⟩ := bind_eq_ok.mp h
  obtain ⟨nc, hnc, h⟩ := bind_eq_ok.mp h
  obtain ⟨co, hco, h⟩ := bind_eq_ok.mp h
  obtain ⟨crits, hcrits, h⟩ := bind_eq_ok.mp h
  simp only [pure, Except.pure, Except.ok.injEq, Prod.mk.injEq] at h
  obtain ⟨rfl, rfl⟩ := h
  exact ⟨_, c1, c2, ref, kind, ranked, target, newAlts, g', rfl, hc1, hc2, hkind, hrank, href, htarget, hv1, hv2,
    hmixed, rfl, rfl, rfl, hnew, hadd, hmp, hnc, hco, hcrits⟩

/-! ### anchoring: everything comes from `current` -/

/-- the front part of `Anchoring.Apply`, step by step; every input is `current`'s -/
theorem e2eb_anchoringFront_parts {exp : α → α} {cur : DMP α} {p : AnchProps α} {refs : List (Alt α)}
    {sc : KMap (Scale α)} {diffs : List (AltDiffs α)} {b : Bounding α}
    (h : anchoringFront exp cur p = .ok (refs, sc, diffs, b)) :
    ∃ alts loss gain anch, anchoringAlternatives p = .ok alts ∧ parseAFun p.loss = .ok loss ∧
      parseAFun p.gain = .ok gain ∧ fetchAnchoring cur.all alts = .ok anch ∧
      referencePoints p.refFn anch cur.crit = .ok refs ∧ boundingOfProps p.applier.params = .ok b ∧
      anchScaling cur.crit cur.all = .ok sc ∧ calcDiffs exp cur.all refs cur.crit sc loss gain = .ok diffs := by
  unfold anchoringFront at h
  obtain ⟨alts, halts, h⟩ := bind_eq_ok.mp h
  obtain ⟨loss, hloss, h⟩ := bind_eq_ok.mp h
  obtain ⟨gain, hgain, h⟩ := bind_eq_ok.mp h
  split at h
  · exact (throw_bind_ne_ok.mp h).elim
  · obtain ⟨anch, hanch, h⟩ := bind_eq_ok.mp h
    obtain ⟨refs', hrefs, h⟩ := bind_eq_ok.mp h
    obtain ⟨b', hb, h⟩ := bind_eq_ok.mp h
    obtain ⟨sc', hsc, h⟩ := bind_eq_ok.mp h
    obtain ⟨diffs', hdiffs, h⟩ := bind_eq_ok.mp h
    simp only [pure, Except.pure, Except.ok.injEq, Prod.mk.injEq] at h
    obtain ⟨rfl, rfl, rfl, rfl⟩ := h
    exact ⟨alts, loss, gain, anch, halts, hloss, hgain, hanch, hrefs, hb, hsc, hdiffs⟩

/-- the anchoring alternatives the reference point is computed from are known alternatives of `current` -/
theorem e2eb_fetchAnchoring_mem {all : List (Alt α)} {l : List (String × α)} {anch : List (Alt α × α)}
    (h : fetchAnchoring all l = .ok anch) : ∀ a ∈ anch, a.1 ∈ all := by
  intro a ha
  unfold fetchAnchoring at h
  obtain ⟨x, _, hx⟩ := mapM_ok_mem h a ha
  obtain ⟨i, k⟩ := x
  dsimp only at hx
  obtain ⟨y, hy, hx⟩ := bind_eq_ok.mp hx
  simp only [pure, Except.pure, Except.ok.injEq] at hx
  subst hx
  exact (fetchAlt_ok hy).1

/-! ### parameters of the same method -/

theorem e2eb_same_method_ws {mp mp' : MParams α} (ht : e2eTag mp' = e2eTag mp) {wc : List (WCrit α)}
    (h : mp = .ws wc) : ∃ wc', mp' = .ws wc' := by
  subst h
  cases mp' <;> simp [e2eTag] at ht
  exact ⟨_, rfl⟩

theorem e2eb_same_method_electre {mp mp' : MParams α} (ht : e2eTag mp' = e2eTag mp) {ec : KMap (ECrit α)}
    {dist : LinFun α} (h : mp = .electre ec dist) : ∃ ec' dist', mp' = .electre ec' dist' := by
  subst h
  cases mp' <;> simp [e2eTag] at ht
  exact ⟨_, _, rfl⟩

theorem e2eb_same_method_majority {mp mp' : MParams α} (ht : e2eTag mp' = e2eTag mp) {w : KMap α}
    {cur : String} {seed : Int} {rnd : Bool} {dr : String} (h : mp = .majority w cur seed rnd dr) :
    ∃ w' cur' seed' rnd' dr', mp' = .majority w' cur' seed' rnd' dr' := by
  subst h
  cases mp' <;> simp [e2eTag] at ht
  exact ⟨_, _, _, _, _, rfl⟩

theorem e2eb_same_method_aspect {mp mp' : MParams α} (ht : e2eTag mp' = e2eTag mp) {fn : String}
    {lv : Levels α} {seed : Int} {w : KMap α} {rnd : Bool} (h : mp = .aspect fn lv seed w rnd) :
    ∃ fn' lv' seed' w' rnd', mp' = .aspect fn' lv' seed' w' rnd' := by
  subst h
  cases mp' <;> simp [e2eTag] at ht
  exact ⟨_, _, _, _, _, rfl⟩

theorem e2eb_same_method_satisf {mp mp' : MParams α} (ht : e2eTag mp' = e2eTag mp) {fn : String}
    {lv : Levels α} {seed : Int} {cur : String} {rnd : Bool} (h : mp = .satisf fn lv seed cur rnd) :
    ∃ fn' lv' seed' cur' rnd', mp' = .satisf fn' lv' seed' cur' rnd' := by
  subst h
  cases mp' <;> simp [e2eTag] at ht
  exact ⟨_, _, _, _, _, rfl⟩

/-! ### value maps -/

/-- two association lists with the same pairwise different keys (same order) in which every entry of the
    second is what the first holds under that key are equal -/
theorem e2eb_kmap_eq {β : Type} : ∀ {m m' : KMap β}, m'.keys = m.keys → m.keys.Nodup →
    (∀ kv ∈ m', m.get? kv.1 = some kv.2) → m' = m := by
  intro m
  induction m with
  | nil =>
    intro m' hk _ _
    cases m' with
    | nil => rfl
    | cons x xs => simp [KMap.keys] at hk
  | cons x xs ih =>
    intro m' hk hnd hget
    cases m' with
    | nil => simp [KMap.keys] at hk
    | cons y ys =>
      simp only [KMap.keys, List.map_cons, List.cons.injEq] at hk
      obtain ⟨hk1, hk2⟩ := hk
      simp only [KMap.keys, List.map_cons, List.nodup_cons] at hnd
      obtain ⟨hx, hnd⟩ := hnd
      have h1 := hget y List.mem_cons_self
      obtain ⟨xk, xv⟩ := x
      obtain ⟨yk, yv⟩ := y
      dsimp only at hk1 h1 hx
      subst hk1
      have hy : yv = xv := by
        simp only [KMap.get?, List.lookup_cons, beq_self_eq_true] at h1
        exact (Option.some.inj h1).symm
      subst hy
      congr 1
      apply ih hk2 hnd
      intro kv hkv
      have h2 := hget kv (List.mem_cons_of_mem _ hkv)
      have hne : kv.1 ≠ yk := by
        intro e
        apply hx
        have : kv.1 ∈ ys.map Prod.fst := List.mem_map_of_mem hkv
        rw [hk2] at this
        exact e ▸ this
      simp only [KMap.get?, List.lookup_cons] at h2
      have hb : (kv.1 == yk) = false := by simpa using hne
      rw [hb] at h2
      exact h2

/-! ### runs in which only criteria omissions fire -/

/-- the criteria the fired omissions of a bias list report, in the order of the list -/
def e2ebOmitted (outs : List (BiasOut α (Report α))) : List (Crit α) :=
  outs.flatMap fun o =>
    match o.report with
    | some (.omission om) => om
    | _ => []

/-- every entry that fired is a criteria omission -/
def E2EBOnlyOmissions (outs : List (BiasOut α (Report α))) : Prop :=
  ∀ o ∈ outs, ∀ rep, o.report = some rep → ∃ om, rep = .omission om

/-- restricting to `k1` and then to criteria among `k1` is restricting to the latter at once -/
theorem e2eb_restrictAlt_restrictAlt {k1 k2 : List (Crit α)} (hsub : ∀ c ∈ k2, c ∈ k1) (a : Alt α) :
    BiasA.restrictAlt k2 (BiasA.restrictAlt k1 a) = BiasA.restrictAlt k2 a := by
  unfold BiasA.restrictAlt
  dsimp only
  congr 1
  show BiasA.restrictMap (BiasA.restrictMap a.vals k1) k2 = BiasA.restrictMap a.vals k2
  conv_lhs => unfold BiasA.restrictMap
  conv_rhs => unfold BiasA.restrictMap
  apply List.filterMap_congr
  intro c hc
  have := BiasA.restrictMap_get? a.vals k1 (hsub c hc)
  unfold BiasA.restrictMap at this
  rw [this]

/-- **only omissions fire**: the reported omitted criteria followed by the final criteria are a permutation of
    the start criteria (as criteria, not only ids), and — unless nothing fired and the state is the start state —
    every known alternative of the final state is the start state's alternative (same position) restricted to
    the final criteria: values untouched, other keys dropped -/
theorem e2eb_loop_only_omissions {exp : α → α} {g : Int → Draws α} {orig : DMP α} :
    ∀ (chosen : List (Chosen α (BProps α))) (cur fin : DMP α) (d : Draws α) (outs : List (BiasOut α (Report α))),
      processLoop (applyBias exp g) orig chosen cur d = .ok (fin, outs) → E2EBOnlyOmissions outs →
      (e2ebOmitted outs ++ fin.crit).Perm cur.crit ∧
      (fin = cur ∨ (fin.co = cur.co.map (BiasA.restrictAlt fin.crit) ∧
                    fin.nc = cur.nc.map (BiasA.restrictAlt fin.crit))) := by
  intro chosen
  induction chosen with
  | nil =>
    intro cur fin d outs h _
    obtain ⟨rfl, rfl⟩ := e2eb_loop_nil h
    exact ⟨by simp [e2ebOmitted], Or.inl rfl⟩
  | cons b rest ih =>
    intro cur fin d outs h hall
    obtain ⟨u, d', outs', rfl, hc | hc⟩ := e2eb_loop_cons h
    · obtain ⟨_, next, rep, ha, hl, rfl⟩ := hc
      obtain ⟨om, rfl⟩ := hall _ List.mem_cons_self rep rfl
      obtain ⟨_, c, o, seed, _, hom⟩ := e2eb_apply_omission ha
      obtain ⟨_, ordered, hord, homit⟩ := BiasA.omissionApply_ok hom
      obtain ⟨hs, _, _, _⟩ := BiasA.omitCriteria_ok homit
      have hperm1 : (om ++ next.crit).Perm cur.crit := BiasA.split_append hs ▸ BiasA.orderCriteria_perm hord
      have hrs := BiasA.omissionApply_eq_restrictState hom
      obtain ⟨hperm2, halts⟩ := ih next fin d' outs' hl fun o ho => hall o (List.mem_cons_of_mem _ ho)
      constructor
      · simp only [e2ebOmitted, List.flatMap_cons] at hperm2 ⊢
        calc (om ++ _) ++ fin.crit = om ++ (_ ++ fin.crit) := by rw [List.append_assoc]
          _ |>.Perm (om ++ next.crit) := hperm2.append_left _
          _ |>.Perm cur.crit := hperm1
      · right
        have hco : next.co = cur.co.map (BiasA.restrictAlt next.crit) := by rw [hrs]; rfl
        have hnc : next.nc = cur.nc.map (BiasA.restrictAlt next.crit) := by rw [hrs]; rfl
        rcases halts with rfl | ⟨h1, h2⟩
        · exact ⟨hco, hnc⟩
        · have hsub : ∀ c ∈ fin.crit, c ∈ next.crit := fun c hc =>
            hperm2.subset (List.mem_append_right _ hc)
          constructor
          · rw [h1, hco, List.map_map]
            apply List.map_congr_left
            intro a _
            exact e2eb_restrictAlt_restrictAlt hsub a
          · rw [h2, hnc, List.map_map]
            apply List.map_congr_left
            intro a _
            exact e2eb_restrictAlt_restrictAlt hsub a
    · obtain ⟨_, hl, rfl⟩ := hc
      obtain ⟨hperm2, halts⟩ := ih cur fin d' outs' hl fun o ho => hall o (List.mem_cons_of_mem _ ho)
      refine ⟨?_, halts⟩
      simpa [e2ebOmitted] using hperm2

/-! ### erasing an entry whose step changed nothing -/

/-- if the run after position `i` starts in the very state the run before it ended in (the bias at `i` did
    not fire, or fired without changing the state), then the same biases on activation draws that differ only
    at position `i` — there with a draw that does not fire — produce the same final state and the same response
    entries, except that entry `i` carries no report -/
theorem e2eb_loop_erase {S P Rep : Type} {apply : String → P → S → S → R (S × Rep)} {orig cur fin s : S}
    {chosen : List (Chosen α P)} {d : Draws α} {outs : List (BiasOut α Rep)} {i : Nat} {b : Chosen α P}
    (hb : chosen[i]? = some b) (hd : i < d.length) (ho : i < outs.length)
    (hpre : processLoop apply orig (chosen.take i) cur d = .ok (s, outs.take i))
    (hpost : processLoop apply orig (chosen.drop (i + 1)) s (d.drop (i + 1)) = .ok (fin, outs.drop (i + 1)))
    {u' : α} (hu' : ¬ u' < b.prob) :
    processLoop apply orig chosen cur (d.set i u') = .ok (fin, outs.set i ⟨b.name, b.prob, none⟩) := by
  have hi : i < chosen.length := by
    rw [List.getElem?_eq_some_iff] at hb
    exact hb.1
  have h1 := e2eb_loop_take_draws _ _ _ _ _ hpre []
  rw [List.append_nil, List.length_take, Nat.min_eq_left (Nat.le_of_lt hi)] at h1
  have h2 := e2eb_loop_cons_skipped (b := b) (rest := chosen.drop (i + 1)) hu' hpost
  have h3 := e2eb_loop_join _ _ _ _ _ h1 (by simp [Nat.le_of_lt hi, Nat.le_of_lt hd]) _ _ _ _ h2
  have e1 : chosen.take i ++ b :: chosen.drop (i + 1) = chosen := by
    have : b = chosen[i] := by
      rw [List.getElem?_eq_getElem hi] at hb
      exact (Option.some.inj hb).symm
    rw [this, List.getElem_cons_drop, List.take_append_drop]
  rw [e1, ← List.set_eq_take_cons_drop _ hd, ← List.set_eq_take_cons_drop _ ho] at h3
  exact h3

end Rdm
