/-
  Lemmas about the three non-utility link constructors of `Rdm.Model.Links`
  (`sequentialRanking`, `majorityRanking`, `evaluateRanking`): ids, links, well-formedness.
-/
import Rdm.Model.Links
import Rdm.Lemmas.LinksSpec
namespace Rdm
variable {β : Type}

/-! ### sequentialRanking -/

theorem sequentialRanking_ids : ∀ l : List (String × β), (sequentialRanking l).map (·.id) = l.map (·.1)
  | [] => rfl
  | [(i, e)] => rfl
  | (i, e) :: (j, f) :: rest => by
    simp only [sequentialRanking, List.map_cons, sequentialRanking_ids ((j, f) :: rest)]

theorem sequentialRanking_evs : ∀ l : List (String × β), (sequentialRanking l).map (·.ev) = l.map (·.2)
  | [] => rfl
  | [(i, e)] => rfl
  | (i, e) :: (j, f) :: rest => by
    simp only [sequentialRanking, List.map_cons, sequentialRanking_evs ((j, f) :: rest)]

theorem sequentialRanking_length (l : List (String × β)) : (sequentialRanking l).length = l.length := by
  simpa using congrArg List.length (sequentialRanking_ids l)

/-- entry `i` links exactly to entry `i+1` (to nothing if it is the last) -/
theorem sequentialRanking_links : ∀ (l : List (String × β)) (i : Nat) (h : i < (sequentialRanking l).length),
    ((sequentialRanking l)[i]).links = ((l.map (·.1)).drop (i + 1)).take 1
  | [], i, h => by simp [sequentialRanking] at h
  | [(a, e)], i, h => by
    simp [sequentialRanking] at h ⊢
  | (a, e) :: (j, f) :: rest, i, h => by
    cases i with
    | zero => simp [sequentialRanking]
    | succ k =>
      simp only [sequentialRanking, List.getElem_cons_succ]
      rw [sequentialRanking_links ((j, f) :: rest) k (by simpa [sequentialRanking] using h)]
      simp

theorem sequentialRanking_wellformed : ∀ (l : List (String × β)), (l.map (·.1)).Nodup →
    ∀ e ∈ sequentialRanking l, (∀ x ∈ e.links, x ∈ l.map (·.1)) ∧ e.id ∉ e.links ∧ e.links.Nodup
  | [], _, e, he => by simp [sequentialRanking] at he
  | [(a, v)], _, e, he => by
    simp [sequentialRanking] at he; subst he; simp
  | (a, v) :: (j, f) :: rest, hnd, e, he => by
    simp only [sequentialRanking, List.mem_cons] at he
    rcases he with rfl | he
    · simp only [List.map_cons, List.nodup_cons, List.mem_cons, not_or] at hnd
      simp [hnd.1.1]
    · have hnd' : (((j, f) :: rest).map (·.1)).Nodup := by
        simp only [List.map_cons, List.nodup_cons] at hnd ⊢; exact hnd.2
      obtain ⟨h1, h2, h3⟩ := sequentialRanking_wellformed ((j, f) :: rest) hnd' e he
      exact ⟨fun x hx => by simp only [List.map_cons, List.mem_cons]; right; simpa using h1 x hx, h2, h3⟩


/-! ### majorityRanking -/

theorem groupEntries_length (worse : List String) (g : List (String × β)) :
    (groupEntries worse g).length = g.length := by
  simp [groupEntries]

theorem groupEntries_getElem (worse : List String) (g : List (String × β)) (i : Nat)
    (h : i < (groupEntries worse g).length) :
    (groupEntries worse g)[i] =
      ⟨(g[i]'(by simpa [groupEntries] using h)).1, (g[i]'(by simpa [groupEntries] using h)).2,
        worse ++ (g.map (·.1)).eraseIdx i⟩ := by
  simp [groupEntries, othersAt]

theorem groupEntries_ids (worse : List String) (g : List (String × β)) :
    (groupEntries worse g).map (·.id) = g.map (·.1) := by
  apply List.ext_getElem
  · simp [groupEntries]
  · intro i h1 h2
    simp [groupEntries_getElem]

theorem majorityEntries_ids : ∀ (worse : List String) (gs : List (List (String × β))),
    (majorityEntries worse gs).map (·.id) = gs.flatten.map (·.1)
  | _, [] => rfl
  | worse, g :: gs => by
    simp [majorityEntries, groupEntries_ids, majorityEntries_ids (g.map (·.1)) gs]

/-- ids of the majority ranking: the drop-out groups flattened, best (last dropped) first -/
theorem majorityRanking_ids (gs : List (List (String × β))) :
    (majorityRanking gs).map (·.id) = (gs.flatten.map (·.1)).reverse := by
  simp [majorityRanking, majorityEntries_ids]

/-- group `k` is built against the ids of group `k-1` -/
theorem majorityEntries_eq : ∀ (worse : List String) (gs : List (List (String × β))),
    majorityEntries worse gs = (List.zipWith groupEntries (worse :: gs.map (·.map (·.1))) gs).flatten
  | _, [] => by simp [majorityEntries]
  | worse, g :: gs => by
    simp [majorityEntries, majorityEntries_eq (g.map (·.1)) gs]

theorem groupEntries_wellformed (worse : List String) (g : List (String × β))
    (hnd : (worse ++ g.map (·.1)).Nodup) :
    ∀ e ∈ groupEntries worse g,
      (∀ x ∈ e.links, x ∈ worse ++ g.map (·.1)) ∧ e.id ∉ e.links ∧ e.links.Nodup := by
  intro e he
  obtain ⟨i, hi, rfl⟩ := List.mem_iff_getElem.mp he
  rw [groupEntries_getElem]
  have hi' : i < g.length := by simpa [groupEntries] using hi
  have hsub : ((g.map (·.1)).eraseIdx i).Sublist (g.map (·.1)) := List.eraseIdx_sublist _ _
  have hnd2 := List.nodup_append.mp hnd
  refine ⟨?_, ?_, ?_⟩
  · intro x hx
    simp only [List.mem_append] at hx ⊢
    rcases hx with hx | hx
    · exact Or.inl hx
    · exact Or.inr (hsub.subset hx)
  · simp only [List.mem_append, not_or]
    constructor
    · intro hw
      exact hnd2.2.2 _ hw _ (List.mem_map.mpr ⟨g[i], List.getElem_mem _, rfl⟩) rfl
    · have : g[i].1 = (g.map (·.1))[i]'(by simpa using hi') := by simp
      rw [this, List.mem_eraseIdx_iff_getElem]
      rintro ⟨j, hj, hne, hjeq⟩
      exact hne ((List.getElem_inj hnd2.2.1).mp hjeq)
  · exact List.nodup_append.mpr ⟨hnd2.1, hsub.nodup hnd2.2.1, fun a ha b hb => hnd2.2.2 a ha b (hsub.subset hb)⟩


theorem majorityEntries_wellformed : ∀ (worse : List String) (gs : List (List (String × β))),
    (worse ++ gs.flatten.map (·.1)).Nodup →
    ∀ e ∈ majorityEntries worse gs,
      (∀ x ∈ e.links, x ∈ worse ++ gs.flatten.map (·.1)) ∧ e.id ∉ e.links ∧ e.links.Nodup
  | _, [], _, e, he => by simp [majorityEntries] at he
  | worse, g :: gs, hnd, e, he => by
    simp only [majorityEntries, List.mem_append] at he
    simp only [List.flatten_cons, List.map_append] at hnd ⊢
    rcases he with he | he
    · have hnd' : (worse ++ g.map (·.1)).Nodup := by
        rw [← List.append_assoc] at hnd
        exact (List.nodup_append.mp hnd).1
      obtain ⟨h1, h2, h3⟩ := groupEntries_wellformed worse g hnd' e he
      refine ⟨fun x hx => ?_, h2, h3⟩
      have := h1 x hx
      simp only [List.mem_append] at this ⊢
      rcases this with h | h
      · exact Or.inl h
      · exact Or.inr (Or.inl h)
    · have hnd' : (g.map (·.1) ++ gs.flatten.map (·.1)).Nodup := (List.nodup_append.mp hnd).2.1
      obtain ⟨h1, h2, h3⟩ := majorityEntries_wellformed (g.map (·.1)) gs hnd' e he
      refine ⟨fun x hx => ?_, h2, h3⟩
      have := h1 x hx
      simp only [List.mem_append] at this ⊢
      exact Or.inr this

theorem majorityRanking_wellformed (gs : List (List (String × β))) (hnd : (gs.flatten.map (·.1)).Nodup) :
    ∀ e ∈ majorityRanking gs,
      (∀ x ∈ e.links, x ∈ (majorityRanking gs).map (·.id)) ∧ e.id ∉ e.links ∧ e.links.Nodup := by
  intro e he
  rw [majorityRanking_ids]
  simp only [majorityRanking, List.mem_reverse] at he
  obtain ⟨h1, h2, h3⟩ := majorityEntries_wellformed [] gs (by simpa using hnd) e he
  exact ⟨fun x hx => by simpa using h1 x hx, h2, h3⟩


/-! ### evaluateRanking -/

/-- the indexed rows `EvaluateRanking` iterates over -/
def evalRows (asc desc : List Int) (ids : List String) : List (Nat × String × Int × Int) :=
  (List.range ids.length).zip (ids.zip (asc.zip desc))

theorem evaluateRanking_eq (asc desc : List Int) (ids : List String) :
    evaluateRanking asc desc ids = (evalRows asc desc ids).map fun (ia, (id, (a1, d1))) =>
      ⟨id, (a1, d1), ((evalRows asc desc ids).filter fun (ib, (_, (a2, d2))) =>
          ia != ib && a1 ≤ a2 && d1 ≤ d2).map (·.2.1)⟩ := rfl

theorem evalRows_length (asc desc : List Int) (ids : List String)
    (ha : asc.length = ids.length) (hd : desc.length = ids.length) :
    (evalRows asc desc ids).length = ids.length := by
  simp [evalRows, ha, hd]

theorem evalRows_getElem (asc desc : List Int) (ids : List String)
    (ha : asc.length = ids.length) (hd : desc.length = ids.length) (i : Nat) (h : i < ids.length) :
    (evalRows asc desc ids)[i]'(by rw [evalRows_length _ _ _ ha hd]; exact h)
      = (i, ids[i], asc[i], desc[i]) := by
  simp [evalRows]

theorem evalRows_ids (asc desc : List Int) (ids : List String)
    (ha : asc.length = ids.length) (hd : desc.length = ids.length) :
    (evalRows asc desc ids).map (·.2.1) = ids := by
  apply List.ext_getElem
  · simp [evalRows_length _ _ _ ha hd]
  · intro i h1 h2
    simp [evalRows]

/-- ids are preserved in order -/
theorem evaluateRanking_ids (asc desc : List Int) (ids : List String)
    (ha : asc.length = ids.length) (hd : desc.length = ids.length) :
    (evaluateRanking asc desc ids).map (·.id) = ids := by
  rw [evaluateRanking_eq, List.map_map]
  conv => rhs; rw [← evalRows_ids asc desc ids ha hd]
  rfl

theorem evaluateRanking_length (asc desc : List Int) (ids : List String)
    (ha : asc.length = ids.length) (hd : desc.length = ids.length) :
    (evaluateRanking asc desc ids).length = ids.length := by
  simpa using congrArg List.length (evaluateRanking_ids asc desc ids ha hd)

theorem evaluateRanking_getElem (asc desc : List Int) (ids : List String)
    (ha : asc.length = ids.length) (hd : desc.length = ids.length) (i : Nat) (h : i < ids.length) :
    (evaluateRanking asc desc ids)[i]'(by rw [evaluateRanking_length _ _ _ ha hd]; exact h) =
      ⟨ids[i], (asc[i], desc[i]), ((evalRows asc desc ids).filter fun (ib, (_, (a2, d2))) =>
          i != ib && asc[i] ≤ a2 && desc[i] ≤ d2).map (·.2.1)⟩ := by
  simp only [evaluateRanking_eq, List.getElem_map, evalRows_getElem asc desc ids ha hd i h]

/-- `x` is linked from entry `i` iff some *other* position `j` carries the id `x` and is not ahead of `i`
    in either distillation -/
theorem evaluateRanking_mem_links (asc desc : List Int) (ids : List String)
    (ha : asc.length = ids.length) (hd : desc.length = ids.length) (i : Nat) (h : i < ids.length) (x : String) :
    x ∈ ((evaluateRanking asc desc ids)[i]'(by rw [evaluateRanking_length _ _ _ ha hd]; exact h)).links ↔
      ∃ (j : Nat) (hj : j < ids.length), j ≠ i ∧ ids[j] = x ∧ asc[i] ≤ asc[j] ∧ desc[i] ≤ desc[j] := by
  rw [evaluateRanking_getElem asc desc ids ha hd i h]
  simp only [List.mem_map, List.mem_filter]
  constructor
  · rintro ⟨row, ⟨hmem, hcond⟩, rfl⟩
    obtain ⟨j, hj, rfl⟩ := List.mem_iff_getElem.mp hmem
    have hj' : j < ids.length := by rwa [evalRows_length _ _ _ ha hd] at hj
    rw [evalRows_getElem asc desc ids ha hd j hj'] at hcond ⊢
    simp only [Bool.and_eq_true, bne_iff_ne, ne_eq, decide_eq_true_eq] at hcond
    exact ⟨j, hj', fun e => hcond.1.1 e.symm, rfl, hcond.1.2, hcond.2⟩
  · rintro ⟨j, hj, hne, rfl, h1, h2⟩
    refine ⟨(j, ids[j], asc[j], desc[j]), ⟨?_, ?_⟩, rfl⟩
    · rw [← evalRows_getElem asc desc ids ha hd j hj]; exact List.getElem_mem _
    · simp only [Bool.and_eq_true, bne_iff_ne, ne_eq, decide_eq_true_eq]
      exact ⟨⟨fun e => hne e.symm, h1⟩, h2⟩


/-- with distinct ids: `ids[j] ∈ links(i) ↔ j ≠ i ∧ asc i ≤ asc j ∧ desc i ≤ desc j` -/
theorem evaluateRanking_mem_links_nodup (asc desc : List Int) (ids : List String)
    (ha : asc.length = ids.length) (hd : desc.length = ids.length) (hnd : ids.Nodup)
    (i j : Nat) (hi : i < ids.length) (hj : j < ids.length) :
    ids[j] ∈ ((evaluateRanking asc desc ids)[i]'(by rw [evaluateRanking_length _ _ _ ha hd]; exact hi)).links ↔
      j ≠ i ∧ asc[i] ≤ asc[j] ∧ desc[i] ≤ desc[j] := by
  rw [evaluateRanking_mem_links asc desc ids ha hd i hi]
  constructor
  · rintro ⟨k, hk, hne, he, h1, h2⟩
    have : k = j := (List.getElem_inj hnd).mp he
    subst this
    exact ⟨hne, h1, h2⟩
  · rintro ⟨hne, h1, h2⟩
    exact ⟨j, hj, hne, rfl, h1, h2⟩

theorem evaluateRanking_wellformed (asc desc : List Int) (ids : List String)
    (ha : asc.length = ids.length) (hd : desc.length = ids.length) (hnd : ids.Nodup) :
    ∀ e ∈ evaluateRanking asc desc ids,
      (∀ x ∈ e.links, x ∈ ids) ∧ e.id ∉ e.links ∧ e.links.Nodup := by
  intro e he
  obtain ⟨i, hi, rfl⟩ := List.mem_iff_getElem.mp he
  have hi' : i < ids.length := by rwa [evaluateRanking_length _ _ _ ha hd] at hi
  have hsub : ((evaluateRanking asc desc ids)[i]).links.Sublist ids := by
    rw [evaluateRanking_getElem asc desc ids ha hd i hi']
    conv => rhs; rw [← evalRows_ids asc desc ids ha hd]
    exact (List.filter_sublist).map _
  refine ⟨fun x hx => hsub.subset hx, ?_, hsub.nodup hnd⟩
  have hid : ((evaluateRanking asc desc ids)[i]).id = ids[i] := by
    rw [evaluateRanking_getElem asc desc ids ha hd i hi']
  rw [hid, evaluateRanking_mem_links_nodup asc desc ids ha hd hnd i i hi' hi']
  exact fun h => h.1 rfl

end Rdm
