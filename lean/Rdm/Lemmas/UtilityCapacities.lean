/-
  Link between `choquetParse` and `choquetValue`: the full power set demanded by the parser covers every
  capacity the integral looks up; final "Choquet = textbook" theorem.
-/
import Rdm.Lemmas.UtilityChoquet
import Rdm.Lemmas.UtilityParse
namespace Rdm

theorem mem_powerSet_of_sublist : ∀ (l s : List String), s ≠ [] → s.Sublist l → s ∈ powerSet l
  | [], s, hne, h => by simp at h; exact absurd h hne
  | x :: rest, s, hne, h => by
    simp only [powerSet, List.mem_cons, List.mem_append, List.mem_map]
    cases h with
    | cons _ h' => exact Or.inl (Or.inr (mem_powerSet_of_sublist rest s hne h'))
    | cons_cons _ h' =>
      rename_i s'
      by_cases hs' : s' = []
      · subst hs'; exact Or.inl (Or.inl rfl)
      · exact Or.inr ⟨s', mem_powerSet_of_sublist rest s' hs' h', rfl⟩

/-- every non-empty duplicate-free set of declared criteria has, up to order, a representative in `PowerSet` -/
theorem exists_powerSet_perm (names t : List String) (hn : names.Nodup) (ht : t.Nodup) (hne : t ≠ [])
    (hsub : ∀ x ∈ t, x ∈ names) : ∃ s ∈ powerSet names, s.Perm t := by
  refine ⟨names.filter (fun x => decide (x ∈ t)), ?_, ?_⟩
  · apply mem_powerSet_of_sublist _ _ _ List.filter_sublist
    obtain ⟨x, hx⟩ := List.exists_mem_of_ne_nil t hne
    exact List.ne_nil_of_mem (List.mem_filter.mpr ⟨hsub x hx, by simpa using hx⟩)
  · rw [List.perm_ext_iff_of_nodup (hn.filter _) ht]
    intro x
    simp only [List.mem_filter, decide_eq_true_eq]
    exact ⟨fun h => h.2, fun h => ⟨hsub x h, h⟩⟩


theorem choquetTextbook_isSome (mu : List String → Option Rat) : ∀ (l : List (String × Rat)) (prev : Rat),
    (∀ s, s <:+ l → s ≠ [] → (mu (s.map (·.1))).isSome = true) → (choquetTextbook mu l prev).isSome = true
  | [], _, _ => rfl
  | x :: xs, prev, hfull => by
    obtain ⟨m, hm⟩ := Option.isSome_iff_exists.mp (hfull (x :: xs) (List.suffix_refl _) (by simp))
    obtain ⟨r, hr⟩ := Option.isSome_iff_exists.mp
      (choquetTextbook_isSome mu xs x.2 (fun s hs => hfull s (hs.trans (List.suffix_cons x xs))))
    rw [choquetTextbook, hm, hr]; rfl

/-- after a successful parse every capacity the integral looks up for an alternative over declared,
    duplicate-free criteria is present -/
theorem capacities_after_parse (crits : List (Crit Rat)) (w r : KMap Rat) (a : Alt Rat)
    (hparse : choquetParse crits w = .ok r) (hn : (crits.map (·.id)).Nodup)
    (hk : (a.vals.map (·.1)).Nodup) (hsub : ∀ k ∈ a.vals.map (·.1), k ∈ crits.map (·.id)) :
    ∀ s, s <:+ ascendingVals a → s ≠ [] → (r.get? (criterionKey (s.map (·.1)))).isSome = true := by
  intro s hs hne
  have hperm : ((ascendingVals a).map (·.1)).Perm (a.vals.map (·.1)) := (List.mergeSort_perm _ _).map _
  have hsl : (s.map (·.1)).Sublist ((ascendingVals a).map (·.1)) := hs.sublist.map _
  have htn : (s.map (·.1)).Nodup := hsl.nodup (hperm.nodup_iff.mpr hk)
  have hts : ∀ x ∈ s.map (·.1), x ∈ crits.map (·.id) :=
    fun x hx => hsub x (hperm.mem_iff.mp (hsl.subset hx))
  obtain ⟨s', hs', hp⟩ := exists_powerSet_perm _ _ hn htn (by simpa using hne) hts
  obtain ⟨v, hv⟩ := (choquetParse_ok crits w r hparse).2.2.1 s' hs'
  rw [← criterionKey_perm_eq hp, hv]; rfl

/-- **Choquet = textbook.**  After a successful parse, for an alternative valued on declared criteria
    whose values are pairwise either exactly equal or more than `eps` apart, the model's value exists and is
    Σ_k (v_(k) − v_(k−1)) · μ({(k),…,(n)}) over the ascending values, with v_(0) = 0 -/
theorem choquetValue_eq_textbook (eps : Rat) (crits : List (Crit Rat)) (w r : KMap Rat) (a : Alt Rat)
    (hparse : choquetParse crits w = .ok r) (hn : (crits.map (·.id)).Nodup)
    (hk : (a.vals.map (·.1)).Nodup) (hsub : ∀ k ∈ a.vals.map (·.1), k ∈ crits.map (·.id))
    (hties : ∀ x ∈ a.vals, ∀ y ∈ a.vals, Spec.C03.rabs (x.2 - y.2) ≤ eps → x.2 = y.2) :
    (choquetValue eps a r).toOption = choquetTextbook (fun s => r.get? (criterionKey s)) (ascendingVals a) 0 ∧
    ((choquetValue eps a r).toOption).isSome = true := by
  have hfull := capacities_after_parse crits w r a hparse hn hk hsub
  have hmem : ∀ x, x ∈ ascendingVals a → x ∈ a.vals := fun x hx => (List.mergeSort_perm _ _).mem_iff.mp hx
  have h1 : (choquetValue eps a r).toOption
      = choquetTextbook (fun s => r.get? (criterionKey s)) (ascendingVals a) 0 := by
    rw [choquetValue_eq_spec]
    unfold Spec.C03.choquetSpec
    have hmu : (fun s => r.get? (Spec.C03.canonKey s)) = (fun s => r.get? (criterionKey s)) := by
      funext s; rw [spec_canonKey_eq]
    rw [hmu]
    exact choquetSpecAux_eq_textbook eps _ _ (ascendingVals a) 0 (Nat.lt_succ_self _)
      (fun x hx y hy => hties x (hmem x hx) y (hmem y hy)) hfull
  exact ⟨h1, h1 ▸ choquetTextbook_isSome _ _ _ hfull⟩

end Rdm
