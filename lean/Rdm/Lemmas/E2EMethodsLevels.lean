/-
  Lemmas for the END-TO-END theorems about the aspiration levels (C12, C13, C14), part 4:
    * `Evaluate` of aspect elimination / satisfaction that answered obtained its levels from
      `aspectLevels` / `satisfactionLevels` of the SAME state, i.e. `levelsOf` of the registered sources;
    * inversion of `levelsOf`, `levelsWith`, `coefLevels`, `criteriaRanges`: the ranges are `valuesRange` over
      ALL known alternatives of the state, one per criterion, in criteria order;
    * every level that was generated or accepted has a threshold for every criterion of the state
      (the hypothesis `hthr` of `Props.C12.model_output_passes_spec` holds by construction), and generated
      levels list exactly the criteria of the state, in order;
    * the registered sources of aspect elimination are increasing, those of satisfaction decreasing.
  All names carry the prefix `e2em`.
-/
import Rdm.Lemmas.E2EMethods
import Rdm.Lemmas.DecideCoherent
import Rdm.Lemmas.HeurList
namespace Rdm
set_option linter.unusedSectionVars false
set_option linter.unusedSimpArgs false
variable {α : Type} [Num α]

/-! ### `Evaluate` takes its levels from the state it is handed -/

theorem e2em_aspect_levels_used {d : DMP α} {ds : Draws α} {o : List (WCrit α) → List (WCrit α)}
    {fn : String} {lv : Levels α} {seed : Int} {w : KMap α} {rnd : Bool} {r : List (Linked (AspEval α))}
    (hmp : d.mp = .aspect fn lv seed w rnd) (h : aspectEvaluateWith d ds (aspectLevels d) o = .ok r) :
    ∃ lvl, aspectLevels d = .ok lvl ∧ levelsOf aspectSources fn lv d = .ok lvl ∧
      aspectEvaluateWith d ds (.ok lvl) o = .ok r := by
  cases hl : aspectLevels d with
  | error e =>
    rw [hl] at h
    unfold aspectEvaluateWith at h
    rw [hmp] at h
    simp at h
  | ok lvl =>
    rw [hl] at h
    refine ⟨lvl, rfl, ?_, h⟩
    unfold aspectLevels at hl
    rw [hmp] at hl
    exact hl

theorem e2em_satisf_levels_used {d : DMP α} {ds : Draws α}
    {fn : String} {lv : Levels α} {seed : Int} {cur : String} {rnd : Bool} {r : List (Linked (SatEval α))}
    (hmp : d.mp = .satisf fn lv seed cur rnd) (h : satisfactionEvaluate d ds = .ok r) :
    ∃ lvl, satisfactionLevels d = .ok lvl ∧ levelsOf satisfactionSources fn lv d = .ok lvl ∧
      satisfactionEvaluateWith d ds (.ok lvl) = .ok r := by
  unfold satisfactionEvaluate at h
  cases hl : satisfactionLevels d with
  | error e =>
    rw [hl] at h
    unfold satisfactionEvaluateWith at h
    rw [hmp] at h
    simp at h
  | ok lvl =>
    rw [hl] at h
    refine ⟨lvl, rfl, ?_, h⟩
    unfold satisfactionLevels at hl
    rw [hmp] at hl
    exact hl

/-! ### inversion of the levels generators -/

theorem e2em_levelsOf_ok {sources : List LevelSource} {fn : String} {lv : Levels α} {d : DMP α}
    {lvl : List (KMap α)} (h : levelsOf sources fn lv d = .ok lvl) :
    ∃ s, findSource sources fn = .ok s ∧ s ∈ sources ∧ s.name = fn ∧ fn ≠ "" ∧ levelsWith s lv d = .ok lvl := by
  unfold levelsOf at h
  obtain ⟨s, hs, h⟩ := bind_eq_ok.mp h
  refine ⟨s, hs, ?_, ?_, ?_, h⟩
  all_goals
    unfold findSource at hs
    split at hs
    · simp [throw, throwThe, MonadExceptOf.throw] at hs
  · split at hs
    · rename_i s' hf
      simp only [pure, Except.pure, Except.ok.injEq] at hs; subst hs
      exact List.mem_of_find?_eq_some hf
    · simp [throw, throwThe, MonadExceptOf.throw] at hs
  · split at hs
    · rename_i s' hf
      simp only [pure, Except.pure, Except.ok.injEq] at hs; subst hs
      simpa using List.find?_some hf
    · simp [throw, throwThe, MonadExceptOf.throw] at hs
  · rename_i hne
    simpa using hne

theorem e2em_mapM_pair {β γ : Type} {f : β → R γ} :
    ∀ {l : List β} {r : List (β × γ)}, l.mapM (fun x => do pure (x, ← f x)) = .ok r →
      r.map (·.1) = l ∧ ∀ p ∈ r, f p.1 = .ok p.2 := by
  intro l
  induction l with
  | nil =>
    intro r h
    simp only [List.mapM_nil, pure, Except.pure, Except.ok.injEq] at h
    subst h
    simp
  | cons a l ih =>
    intro r h
    rw [List.mapM_cons] at h
    obtain ⟨p, hp, h⟩ := bind_eq_ok.mp h
    obtain ⟨ps, hps, h⟩ := bind_eq_ok.mp h
    obtain ⟨y, hy, hp⟩ := bind_eq_ok.mp hp
    simp only [pure, Except.pure, Except.ok.injEq] at h hp
    subst h; subst hp
    obtain ⟨i1, i2⟩ := ih hps
    refine ⟨by simp [i1], ?_⟩
    intro q hq
    rcases List.mem_cons.mp hq with rfl | hq
    · exact hy
    · exact i2 q hq

/-- `Initialize`: one range per criterion of the state, in criteria order, each the `CriteriaValuesRange` of
    that criterion over ALL known alternatives of the state (declared range if present, else observed) -/
theorem e2em_criteriaRanges_ok {d : DMP α} {ranges : List (Crit α × (α × α))} (h : criteriaRanges d = .ok ranges) :
    ranges.map (·.1) = d.crit ∧ ∀ p ∈ ranges, valuesRange d.all p.1 = .ok p.2 :=
  e2em_mapM_pair (f := fun cr => valuesRange d.all cr) h

theorem e2em_coefLevels_ok {k : CoefKind} {d : DMP α} {c mx mn : α} {lvl : List (KMap α)}
    (h : coefLevels k d c mx mn = .ok lvl) :
    coefValid k c mx mn = true ∧ ∃ ranges rs, criteriaRanges d = .ok ranges ∧
      coefSeries k c mx mn (coefFuel k c mx mn) (coefInitial k mx mn) = .ok rs ∧ lvl = rs.map (levelAt ranges) := by
  unfold coefLevels at h
  obtain ⟨_, hv, h⟩ := bind_eq_ok.mp h
  obtain ⟨ranges, hr, h⟩ := bind_eq_ok.mp h
  obtain ⟨rs, hs, h⟩ := bind_eq_ok.mp h
  simp only [pure, Except.pure, Except.ok.injEq] at h
  refine ⟨?_, ranges, rs, hr, hs, h.symm⟩
  unfold coefValidate at hv
  split at hv
  · assumption
  · simp [throw, throwThe, MonadExceptOf.throw] at hv

theorem e2em_explicitLevels_ok {d : DMP α} {ts lvl : List (KMap α)} (h : explicitLevels d ts = .ok lvl) :
    lvl = ts ∧ ∀ t ∈ ts, ∀ c ∈ d.crit, t.has c.id = true := by
  unfold explicitLevels at h
  split at h
  · rename_i hall
    simp only [pure, Except.pure, Except.ok.injEq] at h
    refine ⟨h.symm, ?_⟩
    intro t ht c hc
    exact List.all_eq_true.mp (List.all_eq_true.mp hall t ht) c hc
  · simp [throw, throwThe, MonadExceptOf.throw] at h

/-- the levels handed out, by cases on the source found and the shape of the parameters (the last case —
    a coefficient source decoding an explicit-thresholds object: all three numbers read as 0 — is rejected
    by `Validate` over `Rat`, see `e2em_levelsWith_cases_rat`) -/
theorem e2em_levelsWith_cases {s : LevelSource} {lv : Levels α} {d : DMP α} {lvl : List (KMap α)}
    (h : levelsWith s lv d = .ok lvl) :
    (∃ k c mx mn, s = .coef k ∧ lv = .coef c mx mn ∧ coefLevels k d c mx mn = .ok lvl) ∨
    (∃ asc ts, s = .thresholds asc ∧ lv = .thresholds ts ∧ explicitLevels d ts = .ok lvl) ∨
    (∃ asc c mx mn, s = .thresholds asc ∧ lv = .coef c mx mn ∧ lvl = []) ∨
    (∃ k ts, s = .coef k ∧ lv = .thresholds ts ∧ coefLevels k d Num.zero Num.zero Num.zero = .ok lvl) := by
  cases s with
  | coef k =>
    cases lv with
    | coef c mx mn => exact Or.inl ⟨k, c, mx, mn, rfl, rfl, h⟩
    | thresholds ts => exact Or.inr (Or.inr (Or.inr ⟨k, ts, rfl, rfl, h⟩))
  | thresholds asc =>
    cases lv with
    | coef c mx mn =>
      simp only [levelsWith] at h
      exact Or.inr (Or.inr (Or.inl ⟨asc, c, mx, mn, rfl, rfl, (e2em_explicitLevels_ok h).1⟩))
    | thresholds ts => exact Or.inr (Or.inl ⟨asc, ts, rfl, rfl, h⟩)

theorem e2em_levelsWith_cases_rat {s : LevelSource} {lv : Levels Rat} {d : DMP Rat} {lvl : List (KMap Rat)}
    (h : levelsWith s lv d = .ok lvl) :
    (∃ k c mx mn, s = .coef k ∧ lv = .coef c mx mn ∧ coefLevels k d c mx mn = .ok lvl) ∨
    (∃ asc ts, s = .thresholds asc ∧ lv = .thresholds ts ∧ explicitLevels d ts = .ok lvl) ∨
    (∃ asc c mx mn, s = .thresholds asc ∧ lv = .coef c mx mn ∧ lvl = []) := by
  rcases e2em_levelsWith_cases h with h1 | h2 | h3 | ⟨k, ts, _, _, hc⟩
  · exact Or.inl h1
  · exact Or.inr (Or.inl h2)
  · exact Or.inr (Or.inr h3)
  · exfalso
    have hv := (e2em_coefLevels_ok hc).1
    have : coefValid k (Num.zero : Rat) Num.zero Num.zero = false := by cases k <;> decide +kernel
    rw [this] at hv
    cases hv

/-! ### every level covers every criterion of the state -/

theorem e2em_levelAt_keys (ranges : List (Crit α × (α × α))) (r : α) :
    (levelAt ranges r).keys = ranges.map (·.1.id) := by
  unfold levelAt KMap.keys
  simp [Function.comp_def]

/-- the levels of a registered source list exactly the criteria of the state (generated series) or at least
    cover them (explicit thresholds): every level has a threshold for every criterion -/
theorem e2em_levelsWith_complete {s : LevelSource} {lv : Levels α} {d : DMP α} {lvl : List (KMap α)}
    (h : levelsWith s lv d = .ok lvl) : ∀ t ∈ lvl, ∀ c ∈ d.crit, (t.get? c.id).isSome = true := by
  have coefCase : ∀ {k : CoefKind} {c mx mn : α}, coefLevels k d c mx mn = .ok lvl →
      ∀ t ∈ lvl, ∀ c ∈ d.crit, (t.get? c.id).isSome = true := by
    intro k c mx mn hc
    obtain ⟨_, ranges, rs, hr, _, rfl⟩ := e2em_coefLevels_ok hc
    obtain ⟨hk, _⟩ := e2em_criteriaRanges_ok hr
    intro t ht cr hcr
    obtain ⟨r, _, rfl⟩ := List.mem_map.mp ht
    show (levelAt ranges r).has cr.id = true
    rw [KMap.has_iff_mem_keys, e2em_levelAt_keys]
    have : ranges.map (·.1.id) = d.crit.map (·.id) := by rw [← hk]; simp
    rw [this]
    exact List.mem_map_of_mem hcr
  rcases e2em_levelsWith_cases h with ⟨k, c, mx, mn, _, _, hc⟩ | ⟨asc, ts, _, _, he⟩ | ⟨_, _, _, _, _, _, rfl⟩ |
      ⟨k, ts, _, _, hc⟩
  · exact coefCase hc
  · obtain ⟨rfl, hall⟩ := e2em_explicitLevels_ok he
    exact hall
  · intro t ht; cases ht
  · exact coefCase hc

theorem e2em_levelsOf_complete {sources : List LevelSource} {fn : String} {lv : Levels α} {d : DMP α}
    {lvl : List (KMap α)} (h : levelsOf sources fn lv d = .ok lvl) :
    ∀ t ∈ lvl, ∀ c ∈ d.crit, (t.get? c.id).isSome = true := by
  obtain ⟨s, _, _, _, _, hw⟩ := e2em_levelsOf_ok h
  exact e2em_levelsWith_complete hw

/-- generated levels list exactly the criteria of the state, in order — so no key twice when the criteria
    ids are pairwise different -/
theorem e2em_coefLevels_keys {k : CoefKind} {d : DMP α} {c mx mn : α} {lvl : List (KMap α)}
    (h : coefLevels k d c mx mn = .ok lvl) : ∀ t ∈ lvl, t.map (·.1) = d.crit.map (·.id) := by
  obtain ⟨_, ranges, rs, hr, _, rfl⟩ := e2em_coefLevels_ok h
  obtain ⟨hk, _⟩ := e2em_criteriaRanges_ok hr
  intro t ht
  obtain ⟨r, _, rfl⟩ := List.mem_map.mp ht
  have := e2em_levelAt_keys ranges r
  unfold KMap.keys at this
  rw [this, ← hk]; simp

/-! ### the registries -/

theorem e2em_aspectSources_increasing {s : LevelSource} (h : s ∈ aspectSources) : s.increasing = true := by
  have : aspectSources.all (·.increasing) = true := by decide
  exact List.all_eq_true.mp this s h

theorem e2em_satisfactionSources_decreasing {s : LevelSource} (h : s ∈ satisfactionSources) :
    s.increasing = false := by
  have : satisfactionSources.all (fun s => !s.increasing) = true := by decide
  simpa using List.all_eq_true.mp this s h

end Rdm
