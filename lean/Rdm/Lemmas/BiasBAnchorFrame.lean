/-
  Frame of the whole newCriterion anchoring applier (`newCriterionApply`): criteria = old ++ added, the
  added ids are new and pairwise different, every resulting alternative is an alternative of the
  differences list with one value appended per reference point, under the ids of the added criteria.
  Core only.
-/
import Rdm.Lemmas.BiasBAnchor
import Rdm.Lemmas.BiasBConceal
import Rdm.Lemmas.BiasBNames
import Rdm.Lemmas.BiasBRef
namespace Rdm
set_option linter.unusedSectionVars false

/-- invariant rule for a `for … in` loop in `Except` that never breaks: `P` is indexed by the processed prefix -/
theorem forIn_invariant {σ γ : Type} {f : γ → σ → R (ForInStep σ)} (P : List γ → σ → Prop)
    (hstep : ∀ done x s r, P done s → f x s = .ok r → ∃ s1, r = .yield s1 ∧ P (done ++ [x]) s1) :
    ∀ (l done : List γ) (s s' : σ), P done s → forIn l s f = .ok s' → P (done ++ l) s' := by
  intro l
  induction l with
  | nil =>
    intro done s s' hP h
    simp only [List.forIn_nil, pure, Except.pure, Except.ok.injEq] at h
    subst h; simpa using hP
  | cons x xs ih =>
    intro done s s' hP h
    rw [List.forIn_cons] at h
    obtain ⟨r, hr, h⟩ := bind_eq_ok.mp h
    obtain ⟨s1, rfl, hP1⟩ := hstep done x s r hP hr
    have := ih (done ++ [x]) s1 s' hP1 h
    simpa using this

variable {α : Type} [Num α]

/-- the criterion an added anchoring criterion stands for -/
def AddedAnch.crit (ref : Crit α) (a : AddedAnch α) : Crit α := { id := a.id, type := ref.type, range := ref.range }

/-- invariant of `additionalCriterionAnchoringState` relative to the criteria `base` the applier started with -/
structure NCInv (base : List (Crit α)) (ref : Crit α) (st : NCState α) : Prop where
  crits : st.crits = base ++ st.added.map (AddedAnch.crit ref)
  nodup : (st.added.map (·.id)).Nodup
  fresh : ∀ a ∈ st.added, a.id ∉ base.map (·.id)
  types : ∀ a ∈ st.added, a.type = ref.type

theorem map_id_set_same {l : List (AddedAnch α)} {i : Nat} {ac x : AddedAnch α} (h : l[i]? = some ac)
    (hx : x.id = ac.id) : (l.set i x).map (·.id) = l.map (·.id) := by
  rw [List.map_set]
  apply List.ext_getElem?
  intro j
  by_cases hj : i = j
  · subst hj
    have hi : i < l.length := by
      rcases Nat.lt_or_ge i l.length with h' | h'
      · exact h'
      · rw [List.getElem?_eq_none h'] at h; cases h
    rw [List.getElem?_set_self (by simpa using hi), List.getElem?_map, h]
    simp [hx]
  · rw [List.getElem?_set_ne hj]

/-- one iteration of the loop of `ncOne` (the three fallible steps and the state update) -/
theorem ncBody_ok {base : List (Crit α)} {ref : Crit α} {gens : List (Draws α)} {st st1 : NCState α} {ri : Nat}
    {rp : String} {ac x : AddedAnch α} (hinv : NCInv base ref st) (hri : ri ≤ st.added.length)
    (h1 : ncNewCriterion ref gens st ri rp = .ok st1) (h2 : st1.added[ri]? = some ac)
    (hx : x.id = ac.id) (hxt : x.type = ac.type) :
    NCInv base ref { st1 with added := st1.added.set ri x } ∧
    (∃ t, (st1.added.set ri x).map (·.id) = st.added.map (·.id) ++ t) ∧
    ((st1.added.set ri x).map (·.id))[ri]? = some ac.id ∧
    (st1.added.set ri x).length = max st.added.length (ri + 1) := by
  have hids := map_id_set_same h2 hx
  have hget : ((st1.added.set ri x).map (·.id))[ri]? = some ac.id := by
    rw [hids, List.getElem?_map, h2]; rfl
  have htypes : ∀ {l : List (AddedAnch α)}, l[ri]? = some ac → (∀ a ∈ l, a.type = ref.type) →
      ∀ a ∈ l.set ri x, a.type = ref.type := by
    intro l hl hall a ha
    rcases List.mem_or_eq_of_mem_set ha with ha | rfl
    · exact hall a ha
    · rw [hxt]; exact hall ac (List.mem_of_getElem? hl)
  have hmapcrit : ∀ {l : List (AddedAnch α)}, l[ri]? = some ac →
      (l.set ri x).map (AddedAnch.crit ref) = l.map (AddedAnch.crit ref) := by
    intro l hl
    have := map_id_set_same hl hx
    apply List.ext_getElem (by simp)
    intro j hj1 hj2
    have e := congrArg (fun (m : List String) => m[j]?) this
    simp only [List.getElem?_map] at e
    simp only [List.getElem_map, AddedAnch.crit]
    have hj : j < l.length := by simpa using hj2
    have hj' : j < (l.set ri x).length := by simpa using hj1
    rw [List.getElem?_eq_getElem hj, List.getElem?_eq_getElem hj'] at e
    simp only [Option.map_some, Option.some.injEq] at e
    rw [e]
  rcases Nat.lt_or_ge ri st.added.length with hlt | hge
  · -- the criterion of this reference point exists already
    have e := ncNewCriterion_reuses h1 hlt
    subst e
    refine ⟨⟨?_, ?_, ?_, ?_⟩, ⟨[], by simp [hids]⟩, hget, ?_⟩
    · simp only; rw [hmapcrit h2]; exact hinv.crits
    · simp only; rw [hids]; exact hinv.nodup
    · intro a ha
      have : a.id ∈ (st1.added.set ri x).map (·.id) := List.mem_map_of_mem ha
      rw [hids, List.mem_map] at this
      obtain ⟨a0, ha0, e⟩ := this
      rw [← e]; exact hinv.fresh a0 ha0
    · exact htypes h2 hinv.types
    · simp only [List.length_set]; omega
  · -- it is created now
    have hlen : st.added.length = ri := by omega
    obtain ⟨c, hc1, hc2, hc3, hc4, hc5, a, ha1, ha2, ha3⟩ := ncNewCriterion_creates h1 hlen
    have hac : ac = a := by
      rw [ha1, List.getElem?_append_right (by omega), hlen] at h2
      simpa using h2.symm
    subst hac
    have hfreshc : c.id ∉ st.crits.map (·.id) := by
      intro hmem
      rw [List.mem_map] at hmem
      obtain ⟨y, hy, e⟩ := hmem
      have := hc5 y hy
      simp [e] at this
    have hcc : c = AddedAnch.crit ref ac := by
      cases c
      simp only [AddedAnch.crit] at *
      simp [hc2, hc3, ha2]
    rw [hinv.crits, List.map_append, List.mem_append, not_or] at hfreshc
    refine ⟨⟨?_, ?_, ?_, ?_⟩, ⟨[ac.id], by rw [hids, ha1]; simp⟩, hget, ?_⟩
    · simp only
      rw [hmapcrit h2, hc1, hinv.crits, ha1, List.map_append, List.append_assoc, hcc]
      rfl
    · simp only
      rw [hids, ha1, List.map_append, List.nodup_append]
      refine ⟨hinv.nodup, by simp, ?_⟩
      intro u hu v hv
      simp only [List.map_cons, List.map_nil, List.mem_singleton] at hv
      subst hv
      intro e
      subst e
      apply hfreshc.2
      rw [List.mem_map] at hu ⊢
      obtain ⟨a0, ha0, e0⟩ := hu
      exact ⟨AddedAnch.crit ref a0, List.mem_map_of_mem ha0, by simp [AddedAnch.crit, e0, ha2]⟩
    · intro a0 ha0
      have : a0.id ∈ (st1.added.set ri x).map (·.id) := List.mem_map_of_mem ha0
      rw [hids, ha1, List.map_append, List.mem_append] at this
      rcases this with h' | h'
      · rw [List.mem_map] at h'
        obtain ⟨a1, ha1', e⟩ := h'
        rw [← e]; exact hinv.fresh a1 ha1'
      · simp only [List.map_cons, List.map_nil, List.mem_singleton] at h'
        rw [h', ha2]; exact hfreshc.1
    · apply htypes h2
      rw [ha1]
      intro a0 ha0
      rw [List.mem_append] at ha0
      rcases ha0 with h' | h'
      · exact hinv.types a0 h'
      · simp only [List.mem_singleton] at h'
        rw [h', ha3, hc2]
    · simp only [List.length_set]; rw [ha1]; simp; omega

/-- `ncOne` (all reference points of one alternative): the state invariant is kept, the added ids are
    extended at the end only, there are as many added criteria as the longest list of reference points so far,
    and the alternative gets one value per reference point appended, under the ids of the added criteria -/
theorem ncOne_ok {b : Bounding α} {range : α × α} {ref : Crit α} {gens : List (Draws α)} {ranked : List (WCrit α)}
    {base : List (Crit α)} {st st' : NCState α} {i : Nat} {p : AltDiffs α} {a' : Alt α}
    (hinv : NCInv base ref st) (h : ncOne b range ref gens ranked st i p = .ok (st', a')) :
    NCInv base ref st' ∧ (∃ t, st'.added.map (·.id) = st.added.map (·.id) ++ t) ∧
    st'.added.length = max st.added.length p.2.length ∧
    a'.id = p.1.id ∧
    ∃ news : KMap α, a'.vals = p.1.vals ++ news ∧ news.map (·.1) = (st'.added.map (·.id)).take p.2.length := by
  unfold ncOne at h
  dsimp only at h
  obtain ⟨s, hloop, h⟩ := bind_eq_ok.mp h
  simp only [pure, Except.pure, Except.ok.injEq, Prod.mk.injEq] at h
  obtain ⟨rfl, rfl⟩ := h
  have key := forIn_invariant
    (P := fun (done : List (String × KMap α)) (s : NCState α × Alt α × Nat) =>
      s.2.2 = done.length ∧ NCInv base ref s.1 ∧ (∃ t, s.1.added.map (·.id) = st.added.map (·.id) ++ t) ∧
      s.1.added.length = max st.added.length done.length ∧ s.2.1.id = p.1.id ∧
      ∃ news : KMap α, s.2.1.vals = p.1.vals ++ news ∧ news.map (·.1) = (s.1.added.map (·.id)).take done.length)
    ?_ p.2 [] (st, p.1, 0) s ⟨rfl, hinv, ⟨[], by simp⟩, by simp, rfl, [], by simp, by simp⟩ hloop
  · simp only [List.nil_append] at key
    obtain ⟨_, k2, k3, k4, k5, k6⟩ := key
    exact ⟨k2, k3, k4, k5, k6⟩
  · intro done x s r hP hf
    obtain ⟨st0, alt0, ri0⟩ := s
    obtain ⟨hri, hI, ⟨t, hpre⟩, hlen, hid, news, hvals, hkeys⟩ := hP
    simp only at hri hI hpre hlen hid hvals hkeys
    subst hri
    dsimp only at hf
    obtain ⟨st1, h1, hf⟩ := bind_eq_ok.mp hf
    split at hf
    · rename_i ac hac
      obtain ⟨ac', hpure, hf⟩ := bind_eq_ok.mp hf
      simp only [pure, Except.pure, Except.ok.injEq] at hpure
      subst hpure
      obtain ⟨cv, _, hf⟩ := bind_eq_ok.mp hf
      obtain ⟨alt1, halt, hf⟩ := bind_eq_ok.mp hf
      simp only [pure, Except.pure, Except.ok.injEq] at hf
      subst hf
      refine ⟨_, rfl, ?_⟩
      obtain ⟨hdef, _⟩ := withCrit_ok halt
      have hri : done.length ≤ st0.added.length := by omega
      obtain ⟨b1, ⟨t1, b2⟩, b3, b4⟩ := ncBody_ok (x := ⟨ac.id, ac.type,
          if (i == 0) = true then (ncValue b range cv, ncValue b range cv)
            else (if ncValue b range cv ≤ ac.range.fst then ncValue b range cv else ac.range.fst,
                  if ac.range.snd ≤ ncValue b range cv then ncValue b range cv else ac.range.snd),
          ac.addition, ac.values.set alt1.id (ncValue b range cv)⟩)
        hI hri h1 hac rfl rfl
      refine ⟨by simp, b1, ⟨t ++ t1, by simp only; rw [b2, hpre, List.append_assoc]⟩, ?_, ?_, ?_⟩
      · simp only [List.length_append, List.length_singleton]
        rw [b4]; omega
      · simp only; rw [hdef]; exact hid
      · refine ⟨news ++ [(ac.id, ncValue b range cv)], ?_, ?_⟩
        · simp only; rw [hdef]; simp only; rw [hvals, List.append_assoc]
        · simp only [List.map_append, List.map_cons, List.map_nil, List.length_append, List.length_singleton]
          rw [List.take_add_one, b3, hkeys, b2, List.take_append_of_le_length (by simpa using hri)]
          rfl
    · simp [throw, throwThe, MonadExceptOf.throw, bind, Except.bind] at hf

/-- `ncLoop` (all alternatives) -/
theorem ncLoop_ok {b : Bounding α} {range : α × α} {ref : Crit α} {gens : List (Draws α)} {ranked : List (WCrit α)}
    {base : List (Crit α)} :
    ∀ {diffs : List (AltDiffs α)} {st st' : NCState α} {i : Nat} {alts : List (Alt α)},
      NCInv base ref st → ncLoop b range ref gens ranked st i diffs = .ok (st', alts) →
      NCInv base ref st' ∧ (∃ t, st'.added.map (·.id) = st.added.map (·.id) ++ t) ∧
      (∀ p ∈ diffs, p.2.length ≤ st'.added.length) ∧
      (∀ n, st.added.length ≤ n → (∀ p ∈ diffs, p.2.length ≤ n) → st'.added.length ≤ n) ∧
      alts.length = diffs.length ∧
      ∀ q ∈ diffs.zip alts, q.2.id = q.1.1.id ∧
        ∃ news : KMap α, q.2.vals = q.1.1.vals ++ news ∧
          news.map (·.1) = (st'.added.map (·.id)).take q.1.2.length := by
  intro diffs
  induction diffs with
  | nil =>
    intro st st' i alts hinv h
    simp only [ncLoop, pure, Except.pure, Except.ok.injEq, Prod.mk.injEq] at h
    obtain ⟨rfl, rfl⟩ := h
    exact ⟨hinv, ⟨[], by simp⟩, by simp, fun n hn _ => hn, rfl, by simp⟩
  | cons p rest ih =>
    intro st st' i alts hinv h
    unfold ncLoop at h
    obtain ⟨⟨st1, a1⟩, hone, h⟩ := bind_eq_ok.mp h
    dsimp only at h
    obtain ⟨⟨st2, as2⟩, hrest, h⟩ := bind_eq_ok.mp h
    simp only [pure, Except.pure, Except.ok.injEq, Prod.mk.injEq] at h
    obtain ⟨rfl, rfl⟩ := h
    obtain ⟨o1, ⟨t1, o2⟩, o3, o4, news, o5, o6⟩ := ncOne_ok hinv hone
    obtain ⟨r1, ⟨t2, r2⟩, r3, r4, r5, r6⟩ := ih o1 hrest
    have hlen12 : st1.added.length ≤ st2.added.length := by
      have := congrArg List.length r2
      simp only [List.length_map, List.length_append] at this
      omega
    refine ⟨r1, ⟨t1 ++ t2, by rw [r2, o2, List.append_assoc]⟩, ?_, ?_, by simp [r5], ?_⟩
    · intro q hq
      rcases List.mem_cons.mp hq with rfl | hq
      · omega
      · exact r3 q hq
    · intro n hn hall
      apply r4 n
      · have := hall p (by simp)
        omega
      · intro q hq; exact hall q (by simp [hq])
    · intro q hq
      simp only [List.zip_cons_cons, List.mem_cons] at hq
      rcases hq with rfl | hq
      · refine ⟨o4, news, o5, ?_⟩
        simp only
        rw [o6, r2, List.take_append_of_le_length (by simp only [List.length_map]; omega)]
      · exact r6 q hq

/-- the whole `NewCriterionAnchoringApplier.ApplyAnchoring` -/
theorem newCriterionApply_ok {eps : α} {d : DMP α} {diffs : List (AltDiffs α)} {b : Bounding α}
    {sc : KMap (Scale α)} {params : Props α} {rd : Draws α} {gens : List (Draws α)} {res : DMP α}
    {r : ApplierResult α} (h : newCriterionApply eps d diffs b sc params rd gens = .ok (res, r)) :
    ∃ (ref : Crit α) (added : List (AddedAnch α)), r = .newCriterion ref added ∧
      (∃ ranked, rankAsc eps d = .ok ranked ∧ ref ∈ ranked.map (·.crit)) ∧
      res.crit = d.crit ++ added.map (AddedAnch.crit ref) ∧
      (added.map (·.id)).Nodup ∧ (∀ a ∈ added, a.id ∉ d.crit.map (·.id)) ∧ (∀ a ∈ added, a.type = ref.type) ∧
      (∀ p ∈ diffs, p.2.length ≤ added.length) ∧
      (∀ n, (∀ p ∈ diffs, p.2.length ≤ n) → added.length ≤ n) ∧
      res.co.map (·.id) = d.co.map (·.id) ∧ res.nc.map (·.id) = d.nc.map (·.id) ∧
      ∀ a' ∈ res.co ++ res.nc, ∃ p ∈ diffs, a'.id = p.1.id ∧
        ∃ news : KMap α, a'.vals = p.1.vals ++ news ∧ news.map (·.1) = (added.map (·.id)).take p.2.length := by
  unfold newCriterionApply at h
  obtain ⟨kind, _, h⟩ := bind_eq_ok.mp h
  obtain ⟨ranked, hranked, h⟩ := bind_eq_ok.mp h
  obtain ⟨ref, href, h⟩ := bind_eq_ok.mp h
  obtain ⟨normalized, _, h⟩ := bind_eq_ok.mp h
  split at h
  · simp [throw, throwThe, MonadExceptOf.throw] at h
  · rename_i s hs
    obtain ⟨⟨st, newAlts⟩, hloop, h⟩ := bind_eq_ok.mp h
    dsimp only at h
    obtain ⟨co, hco, h⟩ := bind_eq_ok.mp h
    obtain ⟨nc, hnc, h⟩ := bind_eq_ok.mp h
    simp only [pure, Except.pure, Except.ok.injEq, Prod.mk.injEq] at h
    obtain ⟨rfl, rfl⟩ := h
    have hinv0 : NCInv d.crit ref (⟨d.crit, d.mp, []⟩ : NCState α) :=
      ⟨by simp, by simp, by simp, by simp⟩
    obtain ⟨l1, _, l3, l4, l5, l6⟩ := ncLoop_ok hinv0 hloop
    refine ⟨ref, st.added, rfl, ⟨ranked, hranked, refProvide_mem href⟩, l1.crits, l1.nodup, l1.fresh, l1.types, l3,
      fun n hn => l4 n (by simp) hn, updateAlts_ids hco, updateAlts_ids hnc, ?_⟩
    intro a' ha'
    obtain ⟨hl1, hp1⟩ := updateAlts_ok hco
    obtain ⟨hl2, hp2⟩ := updateAlts_ok hnc
    have hmem : a' ∈ newAlts := by
      simp only [List.mem_append] at ha'
      rcases ha' with ha' | ha'
      · obtain ⟨i, hi, rfl⟩ := List.mem_iff_getElem.mp ha'
        have hz : (d.co[i]'(hl1 ▸ hi), co[i]) ∈ d.co.zip co := by
          rw [List.mem_iff_getElem]; exact ⟨i, by simp only [List.length_zip]; omega, by simp⟩
        exact (hp1 _ hz).1
      · obtain ⟨i, hi, rfl⟩ := List.mem_iff_getElem.mp ha'
        have hz : (d.nc[i]'(hl2 ▸ hi), nc[i]) ∈ d.nc.zip nc := by
          rw [List.mem_iff_getElem]; exact ⟨i, by simp only [List.length_zip]; omega, by simp⟩
        exact (hp2 _ hz).1
    obtain ⟨i, hi, rfl⟩ := List.mem_iff_getElem.mp hmem
    have hi' : i < diffs.length := l5 ▸ hi
    have hz : (diffs[i], newAlts[i]) ∈ diffs.zip newAlts := by
      rw [List.mem_iff_getElem]; exact ⟨i, by simp only [List.length_zip]; omega, by simp⟩
    obtain ⟨e1, news, e2, e3⟩ := l6 _ hz
    exact ⟨diffs[i], List.getElem_mem hi', e1, news, e2, e3⟩

/-- `calculateDiffsPerReferencePoint`: one entry per known alternative (that alternative itself), with one
    coefficient map per reference point -/
theorem calcDiffsWith_shape {ev : AFun α → α → α} {all refs : List (Alt α)} {crits : List (Crit α)}
    {sc : KMap (Scale α)} {loss gain : AFun α} {diffs : List (AltDiffs α)}
    (h : calcDiffsWith ev all refs crits sc loss gain = .ok diffs) :
    diffs.length = all.length ∧ ∀ p ∈ diffs, p.1 ∈ all ∧ p.2.length = refs.length := by
  unfold calcDiffsWith at h
  refine ⟨(mapM_ok h).1, ?_⟩
  intro p hp
  obtain ⟨a, ha, hf⟩ := mapM_ok_mem h p hp
  obtain ⟨l, hl, hf⟩ := bind_eq_ok.mp hf
  simp only [pure, Except.pure, Except.ok.injEq] at hf
  subst hf
  exact ⟨ha, (mapM_ok hl).1⟩

/-- what `anchoringFront` returns for the differences -/
theorem anchoringFront_diffs {exp : α → α} {cur : DMP α} {p : AnchProps α} {refs : List (Alt α)}
    {sc : KMap (Scale α)} {diffs : List (AltDiffs α)} {b : Bounding α}
    (h : anchoringFront exp cur p = .ok (refs, sc, diffs, b)) :
    diffs.length = cur.all.length ∧ ∀ q ∈ diffs, q.1 ∈ cur.all ∧ q.2.length = refs.length := by
  unfold anchoringFront at h
  obtain ⟨alts, _, h⟩ := bind_eq_ok.mp h
  obtain ⟨loss, _, h⟩ := bind_eq_ok.mp h
  obtain ⟨gain, _, h⟩ := bind_eq_ok.mp h
  split at h
  · exact (throw_bind_ne_ok.mp h).elim
  · obtain ⟨anch, _, h⟩ := bind_eq_ok.mp h
    obtain ⟨refs', _, h⟩ := bind_eq_ok.mp h
    obtain ⟨b', _, h⟩ := bind_eq_ok.mp h
    obtain ⟨sc', _, h⟩ := bind_eq_ok.mp h
    obtain ⟨diffs', hd, h⟩ := bind_eq_ok.mp h
    simp only [pure, Except.pure, Except.ok.injEq, Prod.mk.injEq] at h
    obtain ⟨rfl, rfl, rfl, rfl⟩ := h
    exact calcDiffsWith_shape hd

end Rdm
