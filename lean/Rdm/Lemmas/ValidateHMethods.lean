/-
  Per-method / per-bias parameter validation, proved directly from the model definitions
  (used by Props/C20): ELECTRE III weights, thresholds and distillation function; Choquet parse
  rejections; split condition (ratio, min/max) of omission and preference reversal; bounding scaling 0;
  concealment scaling 0; mixing ratio outside [0,1]; unknown bias / ordering / level-function names;
  missing weights.  Every lemma mirrors a `throw` of the model, nothing is invented.
-/
import Rdm.Lemmas.ValidateH
import Rdm.Model.Electre
import Rdm.Model.BiasesA
import Rdm.Model.BiasesB
import Rdm.Model.Levels
import Rdm.Model.Pipeline
import Rdm.Lemmas.NumRat
import Rdm.Lemmas.UtilityParse
import Mathlib.Tactic.Linarith
import Mathlib.Tactic.Ring
import Mathlib.Tactic.NormNum
set_option linter.unusedSectionVars false
set_option linter.unusedSimpArgs false
namespace Rdm
variable {α : Type} [Num α]

theorem valH_error_of_not_ok {β : Type} (m : R β) (h : ∀ x, m ≠ Except.ok x) :
    ∃ e, m = Except.error e := by
  cases m with
  | error e => exact ⟨e, rfl⟩
  | ok x => exact absurd rfl (h x)

/-- an error in the first part of a bind is an error of the bind -/
theorem valH_bind_error_of {β γ : Type} (m : R β) (f : β → R γ) (h : ∃ e, m = Except.error e) :
    ∃ e, (m >>= f) = Except.error e := by
  obtain ⟨e, he⟩ := h
  exact ⟨e, by rw [he]; rfl⟩

/-! ### ELECTRE III: `requireBValueAtLeast`, `validateParameters`, distillation guard -/

/-- a constant threshold (`a = 0`) that is set (`b ≠ 0`) and does not exceed the bound reached so far
    is rejected -/
theorem valH_requireB_rejected (f : LinFun α) (cur : α) (ha : (f.a == Num.zero) = true)
    (hb : (f.b == Num.zero) = false) (hle : f.b ≤ cur) :
    ∃ e, requireBValueAtLeast f cur = Except.error e := by
  unfold requireBValueAtLeast
  rw [if_pos (by simp [ha, hb, hle])]
  exact ⟨_, rfl⟩

/-- exact behaviour of `requireBValueAtLeast` -/
theorem valH_requireB_ok_iff (f : LinFun α) (cur l : α) :
    requireBValueAtLeast f cur = Except.ok l ↔
      ¬ ((f.a == Num.zero) = true ∧ (f.b == Num.zero) = false ∧ f.b ≤ cur) ∧
      l = (if Num.zero < f.b then f.b else cur) := by
  unfold requireBValueAtLeast
  by_cases hc : ((f.a == Num.zero) = true ∧ (f.b == Num.zero) = false ∧ f.b ≤ cur)
  · rw [if_pos (by simp [hc.1, hc.2.1, hc.2.2])]
    constructor
    · intro h; cases h
    · intro h; exact absurd hc h.1
  · rw [if_neg (by
      intro h
      simp only [Bool.and_eq_true, Bool.not_eq_true', decide_eq_true_eq] at h
      exact hc ⟨h.1.1, h.1.2, h.2⟩)]
    by_cases hp : Num.zero < f.b
    · rw [if_pos hp, if_pos hp]
      constructor
      · intro h; cases h; exact ⟨hc, rfl⟩
      · intro h; rw [h.2]; rfl
    · rw [if_neg hp, if_neg hp]
      constructor
      · intro h; cases h; exact ⟨hc, rfl⟩
      · intro h; rw [h.2]; rfl

/-- the do-block of `validateParameters` as an if-then-else over binds -/
theorem valH_validateParameters_eq (t : ECrit α) :
    validateParameters t =
      if t.k ≤ Num.zero then Except.error "weight-not-positive"
      else (requireBValueAtLeast t.q Num.zero >>= fun l => requireBValueAtLeast t.p l >>= fun l =>
        requireBValueAtLeast t.v l >>= fun _ => pure ()) := by
  unfold validateParameters; split <;> rfl

/-- non-positive ELECTRE weight: rejected -/
theorem valH_electre_weight_rejected (t : ECrit α) (h : t.k ≤ Num.zero) :
    ∃ e, validateParameters t = Except.error e := by
  rw [valH_validateParameters_eq, if_pos h]
  exact ⟨_, rfl⟩

/-- `validateParameters` succeeds iff the weight is positive and the three threshold checks pass in
    sequence (each handing its bound to the next) -/
theorem valH_validateParameters_ok_iff (t : ECrit α) :
    validateParameters t = Except.ok () ↔
      ¬ t.k ≤ Num.zero ∧ ∃ l1 l2 l3, requireBValueAtLeast t.q Num.zero = Except.ok l1 ∧
        requireBValueAtLeast t.p l1 = Except.ok l2 ∧ requireBValueAtLeast t.v l2 = Except.ok l3 := by
  rw [valH_validateParameters_eq]
  by_cases hk : t.k ≤ Num.zero
  · rw [if_pos hk]
    constructor
    · intro h; cases h
    · intro h; exact absurd hk h.1
  · rw [if_neg hk, valH_bind_eq_ok_iff]
    constructor
    · rintro ⟨l1, h1, h⟩
      rw [valH_bind_eq_ok_iff] at h
      obtain ⟨l2, h2, h⟩ := h
      rw [valH_bind_eq_ok_iff] at h
      obtain ⟨l3, h3, _⟩ := h
      exact ⟨hk, l1, l2, l3, h1, h2, h3⟩
    · rintro ⟨_, l1, l2, l3, h1, h2, h3⟩
      refine ⟨l1, h1, ?_⟩
      rw [valH_bind_eq_ok_iff]
      refine ⟨l2, h2, ?_⟩
      rw [valH_bind_eq_ok_iff]
      exact ⟨l3, h3, rfl⟩

/-- a constant indifference threshold that is set and not positive: rejected -/
theorem valH_electre_q_rejected (t : ECrit α) (ha : (t.q.a == Num.zero) = true)
    (hb : (t.q.b == Num.zero) = false) (hle : t.q.b ≤ Num.zero) :
    ∃ e, validateParameters t = Except.error e := by
  rw [valH_validateParameters_eq]
  split
  · exact ⟨_, rfl⟩
  · exact valH_bind_error_of _ _ (valH_requireB_rejected t.q Num.zero ha hb hle)

/-- constant thresholds, `q` positive, `p` set and `p ≤ q`: rejected -/
theorem valH_electre_p_le_q_rejected (t : ECrit α) (hq : Num.zero < t.q.b)
    (hpa : (t.p.a == Num.zero) = true) (hpb : (t.p.b == Num.zero) = false) (hle : t.p.b ≤ t.q.b) :
    ∃ e, validateParameters t = Except.error e := by
  apply valH_error_of_ne_ok
  intro hok
  obtain ⟨_, l1, l2, l3, h1, h2, _⟩ := (valH_validateParameters_ok_iff t).mp hok
  have e1 := ((valH_requireB_ok_iff _ _ _).mp h1).2
  rw [if_pos hq] at e1
  subst e1
  exact ((valH_requireB_ok_iff _ _ _).mp h2).1 ⟨hpa, hpb, hle⟩

/-- constant thresholds, `p` positive, `v` set and `v ≤ p`: rejected (whatever `q` is) -/
theorem valH_electre_v_le_p_rejected (t : ECrit α) (hp : Num.zero < t.p.b)
    (hva : (t.v.a == Num.zero) = true) (hvb : (t.v.b == Num.zero) = false) (hle : t.v.b ≤ t.p.b) :
    ∃ e, validateParameters t = Except.error e := by
  apply valH_error_of_ne_ok
  intro hok
  obtain ⟨_, l1, l2, l3, _, h2, h3⟩ := (valH_validateParameters_ok_iff t).mp hok
  have e2 := ((valH_requireB_ok_iff _ _ _).mp h2).2
  rw [if_pos hp] at e2
  subst e2
  exact ((valH_requireB_ok_iff _ _ _).mp h3).1 ⟨hva, hvb, hle⟩

/-- over the rationals, with three constant positive thresholds, `validateParameters` accepts exactly
    a positive weight and strictly increasing thresholds `q < p < v` -/
theorem valH_electre_const_ok_iff (t : ECrit Rat) (hqa : t.q.a = 0) (hpa : t.p.a = 0) (hva : t.v.a = 0)
    (hq : 0 < t.q.b) (hp : 0 < t.p.b) (hv : 0 < t.v.b) :
    validateParameters t = Except.ok () ↔ 0 < t.k ∧ t.q.b < t.p.b ∧ t.p.b < t.v.b := by
  rw [valH_validateParameters_ok_iff]
  simp only [valH_requireB_ok_iff, Num.beq_rat, Num.zero_rat, hqa, hpa, hva, decide_eq_true_eq,
    decide_eq_false_iff_not, true_and, if_pos hq, if_pos hp, if_pos hv]
  constructor
  · rintro ⟨hk, l1, l2, l3, ⟨_, rfl⟩, ⟨h2, rfl⟩, ⟨h3, rfl⟩⟩
    refine ⟨Rat.not_le.mp hk, ?_, ?_⟩
    · by_contra hc
      exact h2 ⟨ne_of_gt hp, Rat.not_lt.mp hc⟩
    · by_contra hc
      exact h3 ⟨ne_of_gt hv, Rat.not_lt.mp hc⟩
  · rintro ⟨hk, hqp, hpv⟩
    refine ⟨Rat.not_le.mpr hk, t.q.b, t.p.b, t.v.b, ⟨?_, rfl⟩, ⟨?_, rfl⟩, ⟨?_, rfl⟩⟩
    · rintro ⟨_, hle⟩; exact absurd hq (Rat.not_lt.mpr hle)
    · rintro ⟨_, hle⟩; exact absurd hqp (Rat.not_lt.mpr hle)
    · rintro ⟨_, hle⟩; exact absurd hpv (Rat.not_lt.mpr hle)

/-- the guard of `getDistillationFunc`: negative at credibility 0 or at credibility 1 is refused -/
theorem valH_distillation_negative_at_0 (f : LinFun α) (h : f.b < Num.zero) : validDistillation f = false := by
  unfold validDistillation
  simp [h]

theorem valH_distillation_negative_at_1 (f : LinFun α) (h : f.a + f.b < Num.zero) :
    validDistillation f = false := by
  unfold validDistillation
  simp [h]

theorem valH_distillation_ok_iff (f : LinFun α) :
    validDistillation f = true ↔ ¬ f.b < Num.zero ∧ ¬ f.a + f.b < Num.zero := by
  unfold validDistillation
  simp

/-- over the rationals the guard accepts exactly the linear functions that are non-negative on the
    whole credibility interval [0,1] -/
theorem valH_distillation_ok_iff_nonneg (f : LinFun Rat) :
    validDistillation f = true ↔ ∀ x : Rat, 0 ≤ x → x ≤ 1 → 0 ≤ f.a * x + f.b := by
  rw [valH_distillation_ok_iff]
  simp only [Num.zero_rat, not_lt]
  constructor
  · rintro ⟨h0, h1⟩ x hx0 hx1
    have e : f.a * x + f.b = (1 - x) * f.b + x * (f.a + f.b) := by ring
    rw [e]
    have := mul_nonneg (sub_nonneg.mpr hx1) h0
    have := mul_nonneg hx0 h1
    linarith
  · intro h
    have h0 := h 0 (le_refl 0) (by norm_num)
    have h1 := h 1 (by norm_num) (le_refl 1)
    constructor
    · linarith
    · linarith

/-- … so a distillation function that is negative at some credibility in [0,1] is refused -/
theorem valH_distillation_negative_somewhere (f : LinFun Rat) (x : Rat) (hx0 : 0 ≤ x) (hx1 : x ≤ 1)
    (hneg : f.a * x + f.b < 0) : validDistillation f = false := by
  cases hv : validDistillation f
  · rfl
  · have := (valH_distillation_ok_iff_nonneg f).mp hv x hx0 hx1
    linarith

/-! ### Choquet: rejections as contrapositives of `choquetParse_ok` -/

theorem valH_choquet_non_gain_rejected (crits : List (Crit α)) (w : KMap α) (c : Crit α) (hc : c ∈ crits)
    (hng : c.type ≠ "gain") : ∃ e, choquetParse crits w = Except.error e := by
  apply valH_error_of_not_ok
  intro r hr
  exact hng ((choquetParse_ok crits w r hr).1 c hc)

theorem valH_choquet_weight_range_rejected (crits : List (Crit α)) (w : KMap α) (kv : String × α)
    (hkv : kv ∈ w) (hout : kv.2 < Num.zero ∨ Num.one < kv.2) :
    ∃ e, choquetParse crits w = Except.error e := by
  apply valH_error_of_not_ok
  intro r hr
  obtain ⟨_, h2, _, h4, _⟩ := choquetParse_ok crits w r hr
  have hmem : (criterionKey (splitKey kv.1), kv.2) ∈ r := by
    rw [h4]
    unfold canonTable
    exact List.mem_map.mpr ⟨kv, hkv, rfl⟩
  obtain ⟨_, hlo, hhi⟩ := h2 _ hmem
  rcases hout with h | h
  · exact hlo h
  · exact hhi h

/-! ### split condition (criteria omission, preference reversal) -/

theorem valH_split_validate_ok_iff (c : SplitCond α) :
    c.validate = Except.ok () ↔ Num.zero ≤ c.ratio ∧ c.ratio ≤ Num.one ∧ c.min ≤ c.max := by
  unfold SplitCond.validate
  by_cases h1 : Num.zero ≤ c.ratio ∧ c.ratio ≤ Num.one
  · rw [if_neg (by simp [h1.1, h1.2])]
    by_cases h2 : c.max < c.min
    · rw [if_pos h2]
      constructor
      · intro h; cases h
      · intro h; exact absurd h2 (Int.not_lt.mpr h.2.2)
    · rw [if_neg h2]
      constructor
      · intro _; exact ⟨h1.1, h1.2, Int.not_lt.mp h2⟩
      · intro _; rfl
  · rw [if_pos (by
      simp only [Bool.not_eq_true', Bool.and_eq_false_iff, decide_eq_false_iff_not]
      by_cases h0 : Num.zero ≤ c.ratio
      · exact Or.inr (fun h => h1 ⟨h0, h⟩)
      · exact Or.inl h0)]
    constructor
    · intro h; cases h
    · intro h; exact absurd ⟨h.1, h.2.1⟩ h1

/-- a ratio outside [0,1] is rejected -/
theorem valH_split_ratio_rejected (c : SplitCond α) (h : ¬ (Num.zero ≤ c.ratio ∧ c.ratio ≤ Num.one)) :
    ∃ e, c.validate = Except.error e := by
  apply valH_error_of_ne_ok
  intro hok
  have := (valH_split_validate_ok_iff c).mp hok
  exact h ⟨this.1, this.2.1⟩

/-- `max < min` is rejected -/
theorem valH_split_minmax_rejected (c : SplitCond α) (h : c.max < c.min) :
    ∃ e, c.validate = Except.error e := by
  apply valH_error_of_ne_ok
  intro hok
  exact absurd h (Int.not_lt.mpr ((valH_split_validate_ok_iff c).mp hok).2.2)

theorem valH_omission_invalid_rejected (eps : α) (c : SplitCond α) (name : String) (cur : DMP α)
    (d : Draws α) (h : ∃ e, c.validate = Except.error e) :
    ∃ e, omissionApply eps c name cur d = Except.error e :=
  valH_bind_error_of _ _ h

theorem valH_reversal_invalid_rejected (eps : α) (c : SplitCond α) (name : String) (cur : DMP α)
    (d : Draws α) (h : ∃ e, c.validate = Except.error e) :
    ∃ e, reversalApply eps c name cur d = Except.error e :=
  valH_bind_error_of _ _ h

/-! ### bounding scaling 0 (fatigue), concealment scaling 0, mixing ratio -/

theorem valH_bounding_zero_rejected (b : Bounding α) (h : (b.scaling == Num.zero) = true) :
    ∃ e, b.validate = Except.error e := by
  unfold Bounding.validate
  rw [if_pos h]
  exact ⟨_, rfl⟩

theorem valH_bounding_validate_ok_iff (b : Bounding α) :
    b.validate = Except.ok () ↔ (b.scaling == Num.zero) = false := by
  unfold Bounding.validate
  cases h : (b.scaling == Num.zero)
  · rw [if_neg (by simp)]
    constructor
    · intro _; rfl
    · intro _; rfl
  · rw [if_pos rfl]
    constructor
    · intro h'; cases h'
    · intro h'; cases h'

theorem valH_fatigueBlur_bounding_zero_rejected (f : α) (b : Bounding α) (cur : DMP α) (vd sd : Draws α)
    (h : (b.scaling == Num.zero) = true) : ∃ e, fatigueBlur f b cur vd sd = Except.error e :=
  valH_bind_error_of _ _ (valH_bounding_zero_rejected b h)

theorem valH_fatigueApply_bounding_zero_rejected (exp : α → α) (fn : FatigueFn α) (b : Bounding α)
    (cur : DMP α) (d : Draws α) (h : (b.scaling == Num.zero) = true) :
    ∃ e, fatigueApply exp fn b cur d = Except.error e := by
  unfold fatigueApply
  cases hf : fatigueRatio exp fn with
  | error e => exact ⟨e, rfl⟩
  | ok f => exact valH_fatigueBlur_bounding_zero_rejected f b cur d d h

/-- `criteria_bounding.FromParams` on the bias properties: `allowedValuesRangeScaling = 0` is rejected -/
theorem valH_boundingOfProps_zero_rejected (p : Props α)
    (h : (p.num "allowedValuesRangeScaling" (Num.ofConst Facts.defaultBoundingScaling) == Num.zero) = true) :
    ∃ e, boundingOfProps p = Except.error e := by
  unfold boundingOfProps
  simp only []
  rw [if_pos h]
  exact ⟨_, rfl⟩

/-- criteria concealment: `newCriterionScaling = 0` is rejected -/
theorem valH_conceal_scaling_zero_rejected (eps : α) (orig cur : DMP α) (p : Props α)
    (refDraws gen : Draws α)
    (h : (p.num "newCriterionScaling" (Num.ofConst Facts.defaultConcealmentScaling) == Num.zero) = true) :
    ∃ e, conceal eps orig cur p refDraws gen = Except.error e := by
  unfold conceal
  simp only []
  split
  · exact ⟨_, rfl⟩
  · contradiction

/-- criteria concealment: `allowedValuesRangeScaling = 0` is rejected -/
theorem valH_conceal_bounding_zero_rejected (eps : α) (orig cur : DMP α) (p : Props α)
    (refDraws gen : Draws α)
    (h : (p.num "allowedValuesRangeScaling" (Num.ofConst Facts.defaultBoundingScaling) == Num.zero) = true) :
    ∃ e, conceal eps orig cur p refDraws gen = Except.error e := by
  unfold conceal
  simp only []
  split
  · exact ⟨_, rfl⟩
  · exact valH_bind_error_of _ _ (valH_boundingOfProps_zero_rejected p h)

/-- criteria mixing (at least two current criteria): a `mixingRatio` outside [0,1] is rejected -/
theorem valH_mixing_ratio_rejected (eps : α) (orig cur : DMP α) (p : Props α) (refDraws gen : Draws α)
    (hn : 2 ≤ cur.crit.length)
    (h : ¬ (Num.zero ≤ p.num "mixingRatio" (Num.ofConst Facts.defaultMixingRatio) ∧
            p.num "mixingRatio" (Num.ofConst Facts.defaultMixingRatio) ≤ Num.one)) :
    ∃ e, mixing eps orig cur p refDraws gen = Except.error e := by
  unfold mixing
  rw [if_neg (by omega)]
  simp only []
  rw [if_pos (by
    simp only [Bool.not_eq_true', Bool.and_eq_false_iff, decide_eq_false_iff_not]
    by_cases h0 : Num.zero ≤ p.num "mixingRatio" (Num.ofConst Facts.defaultMixingRatio)
    · exact Or.inr (fun h1 => h ⟨h0, h1⟩)
    · exact Or.inl h0)]
  exact ⟨_, rfl⟩

/-! ### names and weights -/

/-- `ChooseBiases`: an enabled entry whose name is not registered is rejected -/
theorem valH_unknown_bias_rejected {P : Type} (avail : List String) (reqs : List (BiasReq α P))
    (b : BiasReq α P) (hb : b ∈ reqs) (hen : b.disabled = false) (hunk : avail.contains b.name = false) :
    ∃ e, chooseBiases avail reqs = Except.error e := by
  unfold chooseBiases
  apply valH_error_of_not_ok
  intro r hr
  have hmem : b ∈ reqs.filter (!·.disabled) := List.mem_filter.mpr ⟨hb, by simp [hen]⟩
  generalize reqs.filter (!·.disabled) = l at hr hmem
  induction l generalizing r with
  | nil => cases hmem
  | cons x xs ih =>
    rw [List.mapM_cons] at hr
    obtain ⟨y, hy, hr⟩ := (valH_bind_eq_ok_iff _ _ _).mp hr
    obtain ⟨ys, hys, _⟩ := (valH_bind_eq_ok_iff _ _ _).mp hr
    rcases List.mem_cons.mp hmem with rfl | hm
    · rw [hunk] at hy
      cases hy
    · exact ih ys hys hm

/-- `FetchOrderingResolver`: a non-empty name that is not registered is rejected -/
theorem valH_unknown_ordering_rejected (eps : α) (name : String) (d : DMP α) (dr : Draws α)
    (hne : name.isEmpty = false) (hunk : availableOrderings.contains name = false) :
    ∃ e, orderCriteria eps name d dr = Except.error e := by
  have h : ∃ e, resolveOrdering name = Except.error e := by
    unfold resolveOrdering
    rw [hne, hunk]
    exact ⟨_, rfl⟩
  unfold orderCriteria
  exact valH_bind_error_of _ _ h

/-- satisfaction-level sources: an empty or unregistered function name is rejected -/
theorem valH_unknown_levels_function_rejected (sources : List LevelSource) (fn : String)
    (hunk : ∀ s ∈ sources, (s.name == fn) = false) : ∃ e, findSource sources fn = Except.error e := by
  unfold findSource
  split
  · exact ⟨_, rfl⟩
  · have : sources.find? (fun s => s.name == fn) = none := by
      rw [List.find?_eq_none]
      intro s hs
      rw [hunk s hs]
      simp
    rw [this]
    exact ⟨_, rfl⟩

/-- `Weights.Fetch`: a criterion without a weight is rejected -/
theorem valH_missing_weight_rejected (m : KMap α) (k : String) (h : m.has k = false) :
    ∃ e, m.fetch k = Except.error e := by
  unfold KMap.fetch
  unfold KMap.has at h
  unfold KMap.get?
  cases hl : List.lookup k m with
  | none => exact ⟨_, rfl⟩
  | some v => rw [hl] at h; cases h

end Rdm
