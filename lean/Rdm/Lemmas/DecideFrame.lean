/-
  Lemmas for the end-to-end model (Model/Decide.lean), part 2: what one successful `applyBias` does to the
  state (inversion into the six biases), and the frame facts every bias satisfies:
    * the method's `randomSeed` is unchanged;
    * the ids of the considered / not-considered alternatives are unchanged (same order);
    * the criteria change exactly as the report says: `omitted ++ new criteria ~ old criteria ++ added`.
-/
import Rdm.Lemmas.DecideSeeds
import Rdm.Lemmas.BiasAReversal
import Rdm.Lemmas.BiasAFatigue
namespace Rdm
set_option linter.unusedSectionVars false
variable {α : Type} [Num α]

/-! ### inversion of `applyBias` -/

/-- a successful `applyBias` is one of the six registered biases applied to props of its own shape -/
inductive AppliedBias (exp : α → α) (g : Int → Draws α) (orig cur res : DMP α) :
    String → BProps α → Report α → Prop
  | omission {c o s om} (h : omissionApply choquetEpsOf c o cur (g s) = .ok (res, om)) :
      AppliedBias exp g orig cur res Facts.biasOmission (.split c o s) (.omission om)
  | reversal {c o s r} (h : reversalApply choquetEpsOf c o cur (g s) = .ok (res, r)) :
      AppliedBias exp g orig cur res Facts.biasReversal (.split c o s) (.reversal r)
  | fatigue {fn b s r} (h : fatigueApply exp fn b cur (g s) = .ok (res, r)) :
      AppliedBias exp g orig cur res Facts.biasFatigue (.fatigue fn b s) (.fatigue r)
  | conceal {p r}
      (h : conceal choquetEpsOf orig cur p (g (p.seed "newCriterionRandomSeed")) (g (p.seed "randomSeed")) = .ok (res, r)) :
      AppliedBias exp g orig cur res Facts.biasConcealment (.flat p) (.conceal r)
  | mixing {p r}
      (h : mixing choquetEpsOf orig cur p (g (p.seed "newCriterionRandomSeed")) (g (p.seed "randomSeed")) = .ok (res, r)) :
      AppliedBias exp g orig cur res Facts.biasMixing (.flat p) (.mixing r)
  | anchoring {p r}
      (h : anchoringApply exp choquetEpsOf cur p (g (p.applier.params.seed "newCriterionRandomSeed"))
            ((anchGenSeeds p).map g) = .ok (res, r)) :
      AppliedBias exp g orig cur res Facts.biasAnchoring (.anch p) (.anchoring r)

theorem decideApplyBias_inv {exp : α → α} {g : Int → Draws α} {name : String} {p : BProps α}
    {orig cur res : DMP α} {rep : Report α} (h : applyBias exp g name p orig cur = .ok (res, rep)) :
    AppliedBias exp g orig cur res name p rep := by
  unfold applyBias at h
  split at h
  · rename_i hn
    have hn := eq_of_beq hn
    subst hn
    split at h
    · obtain ⟨r, hr, h⟩ := bind_eq_ok.mp h
      simp only [pure, Except.pure, Except.ok.injEq, Prod.mk.injEq] at h
      obtain ⟨rfl, rfl⟩ := h
      exact .omission hr
    · simp [throw, throwThe, MonadExceptOf.throw] at h
  · split at h
    · rename_i hn
      have hn := eq_of_beq hn
      subst hn
      split at h
      · obtain ⟨r, hr, h⟩ := bind_eq_ok.mp h
        simp only [pure, Except.pure, Except.ok.injEq, Prod.mk.injEq] at h
        obtain ⟨rfl, rfl⟩ := h
        exact .reversal hr
      · simp [throw, throwThe, MonadExceptOf.throw] at h
    · split at h
      · rename_i hn
        have hn := eq_of_beq hn
        subst hn
        split at h
        · obtain ⟨r, hr, h⟩ := bind_eq_ok.mp h
          simp only [pure, Except.pure, Except.ok.injEq, Prod.mk.injEq] at h
          obtain ⟨rfl, rfl⟩ := h
          exact .fatigue hr
        · simp [throw, throwThe, MonadExceptOf.throw] at h
      · split at h
        · rename_i hn
          have hn := eq_of_beq hn
          subst hn
          split at h
          · obtain ⟨r, hr, h⟩ := bind_eq_ok.mp h
            simp only [pure, Except.pure, Except.ok.injEq, Prod.mk.injEq] at h
            obtain ⟨rfl, rfl⟩ := h
            exact .conceal hr
          · simp [throw, throwThe, MonadExceptOf.throw] at h
        · split at h
          · rename_i hn
            have hn := eq_of_beq hn
            subst hn
            split at h
            · obtain ⟨r, hr, h⟩ := bind_eq_ok.mp h
              simp only [pure, Except.pure, Except.ok.injEq, Prod.mk.injEq] at h
              obtain ⟨rfl, rfl⟩ := h
              exact .mixing hr
            · simp [throw, throwThe, MonadExceptOf.throw] at h
          · split at h
            · rename_i hn
              have hn := eq_of_beq hn
              subst hn
              split at h
              · obtain ⟨r, hr, h⟩ := bind_eq_ok.mp h
                simp only [pure, Except.pure, Except.ok.injEq, Prod.mk.injEq] at h
                obtain ⟨rfl, rfl⟩ := h
                exact .anchoring hr
              · simp [throw, throwThe, MonadExceptOf.throw] at h
            · simp [throw, throwThe, MonadExceptOf.throw] at h

/-- inversion for a fixed bias name -/
theorem decideApplyBias_inv_omission {exp : α → α} {g : Int → Draws α} {p : BProps α} {orig cur res : DMP α}
    {rep : Report α} (h : applyBias exp g Facts.biasOmission p orig cur = .ok (res, rep)) :
    ∃ c o s om, p = .split c o s ∧ rep = .omission om ∧
      omissionApply choquetEpsOf c o cur (g s) = .ok (res, om) := by
  generalize hn : Facts.biasOmission = name at h
  cases decideApplyBias_inv h with
  | omission hb => exact ⟨_, _, _, _, rfl, rfl, hb⟩
  | reversal hb => exact absurd hn (by decide)
  | fatigue hb => exact absurd hn (by decide)
  | conceal hb => exact absurd hn (by decide)
  | mixing hb => exact absurd hn (by decide)
  | anchoring hb => exact absurd hn (by decide)

theorem decideApplyBias_inv_conceal {exp : α → α} {g : Int → Draws α} {p : BProps α} {orig cur res : DMP α}
    {rep : Report α} (h : applyBias exp g Facts.biasConcealment p orig cur = .ok (res, rep)) :
    ∃ q r, p = .flat q ∧ rep = .conceal r ∧
      conceal choquetEpsOf orig cur q (g (q.seed "newCriterionRandomSeed")) (g (q.seed "randomSeed")) = .ok (res, r) := by
  generalize hn : Facts.biasConcealment = name at h
  cases decideApplyBias_inv h with
  | omission hb => exact absurd hn (by decide)
  | reversal hb => exact absurd hn (by decide)
  | fatigue hb => exact absurd hn (by decide)
  | conceal hb => exact ⟨_, _, rfl, rfl, hb⟩
  | mixing hb => exact absurd hn (by decide)
  | anchoring hb => exact absurd hn (by decide)

theorem decideApplyBias_inv_mixing {exp : α → α} {g : Int → Draws α} {p : BProps α} {orig cur res : DMP α}
    {rep : Report α} (h : applyBias exp g Facts.biasMixing p orig cur = .ok (res, rep)) :
    ∃ q r, p = .flat q ∧ rep = .mixing r ∧
      mixing choquetEpsOf orig cur q (g (q.seed "newCriterionRandomSeed")) (g (q.seed "randomSeed")) = .ok (res, r) := by
  generalize hn : Facts.biasMixing = name at h
  cases decideApplyBias_inv h with
  | omission hb => exact absurd hn (by decide)
  | reversal hb => exact absurd hn (by decide)
  | fatigue hb => exact absurd hn (by decide)
  | conceal hb => exact absurd hn (by decide)
  | mixing hb => exact ⟨_, _, rfl, rfl, hb⟩
  | anchoring hb => exact absurd hn (by decide)

theorem decideApplyBias_inv_anchoring {exp : α → α} {g : Int → Draws α} {p : BProps α} {orig cur res : DMP α}
    {rep : Report α} (h : applyBias exp g Facts.biasAnchoring p orig cur = .ok (res, rep)) :
    ∃ q r, p = .anch q ∧ rep = .anchoring r ∧
      anchoringApply exp choquetEpsOf cur q (g (q.applier.params.seed "newCriterionRandomSeed"))
        ((anchGenSeeds q).map g) = .ok (res, r) := by
  generalize hn : Facts.biasAnchoring = name at h
  cases decideApplyBias_inv h with
  | omission hb => exact absurd hn (by decide)
  | reversal hb => exact absurd hn (by decide)
  | fatigue hb => exact absurd hn (by decide)
  | conceal hb => exact absurd hn (by decide)
  | mixing hb => exact absurd hn (by decide)
  | anchoring hb => exact ⟨_, _, rfl, rfl, hb⟩

/-! ### decompositions of the criterion-adding biases -/

/-- concealment: the listener is asked for the addition of the reported criterion (on `original`'s
    parameters) and the addition is merged into `current`'s parameters -/
theorem decideConceal_params {eps : α} {orig cur : DMP α} {p : Props α} {rd g : Draws α} {res : DMP α}
    {rep : ConcealReport α} (h : conceal eps orig cur p rd g = .ok (res, rep)) :
    ∃ (ref : Crit α) (g' g'' : Draws α),
      onAdded orig.mp ⟨rep.id, rep.type, some rep.range⟩ ref g' = .ok (rep.addition, g'') ∧
      mergeParams cur.mp rep.addition = .ok res.mp := by
  unfold conceal at h
  dsimp only at h
  split at h
  · exact (throw_bind_ne_ok.mp h).elim
  · obtain ⟨b, _, h⟩ := bind_eq_ok.mp h
    obtain ⟨⟨ref, newC⟩, hbase, h⟩ := bind_eq_ok.mp h
    obtain ⟨⟨alts, values, g'⟩, _, h⟩ := bind_eq_ok.mp h
    obtain ⟨nc, _, h⟩ := bind_eq_ok.mp h
    obtain ⟨co, _, h⟩ := bind_eq_ok.mp h
    obtain ⟨⟨add, g''⟩, hadd, h⟩ := bind_eq_ok.mp h
    obtain ⟨mp, hmp, h⟩ := bind_eq_ok.mp h
    obtain ⟨crits, _, h⟩ := bind_eq_ok.mp h
    simp only [pure, Except.pure, Except.ok.injEq, Prod.mk.injEq] at h
    obtain ⟨rfl, rfl⟩ := h
    unfold concealBase at hbase
    obtain ⟨ranked, _, hbase⟩ := bind_eq_ok.mp hbase
    obtain ⟨ref', _, hbase⟩ := bind_eq_ok.mp hbase
    obtain ⟨r, _, hbase⟩ := bind_eq_ok.mp hbase
    simp only [pure, Except.pure, Except.ok.injEq, Prod.mk.injEq] at hbase
    obtain ⟨rfl, rfl⟩ := hbase
    exact ⟨ref', g', g'', hadd, hmp⟩

/-- mixing is a no-op below two current criteria, otherwise `mixingCore` -/
theorem decideMixing_cases {eps : α} {orig cur : DMP α} {p : Props α} {rd g : Draws α} {res : DMP α}
    {rep : Option (MixReport α)} (h : mixing eps orig cur p rd g = .ok (res, rep)) :
    (cur.crit.length < 2 ∧ res = cur ∧ rep = none) ∨
    (2 ≤ cur.crit.length ∧ ∃ ρ u1 u2 g', mixingCore eps orig cur p ρ rd u1 u2 g' = .ok (res, rep)) := by
  unfold mixing at h
  split at h
  · rename_i hlt
    simp only [pure, Except.pure, Except.ok.injEq, Prod.mk.injEq] at h
    exact Or.inl ⟨hlt, h.1.symm, h.2.symm⟩
  · rename_i hge
    dsimp only at h
    split at h
    · simp [throw, throwThe, MonadExceptOf.throw] at h
    · obtain ⟨d1, _, h⟩ := bind_eq_ok.mp h
      obtain ⟨d2, _, h⟩ := bind_eq_ok.mp h
      split at h
      · simp [throw, throwThe, MonadExceptOf.throw] at h
      · exact Or.inr ⟨by omega, _, _, _, _, h⟩

/-- `mixingCore`: the listener is asked (on `current`'s parameters) and the addition merged into them -/
theorem decideMixingCore_params {eps : α} {orig cur : DMP α} {p : Props α} {ρ : α} {rd : Draws α} {u1 u2 : α}
    {g : Draws α} {res : DMP α} {rep : Option (MixReport α)}
    (h : mixingCore eps orig cur p ρ rd u1 u2 g = .ok (res, rep)) :
    ∃ (r : MixReport α) (newC ref : Crit α) (g' : Draws α), rep = some r ∧ newC.id = r.new.id ∧
      onAdded cur.mp newC ref g = .ok (r.addition, g') ∧ mergeParams cur.mp r.addition = .ok res.mp ∧
      res.crit = cur.crit ++ [newC] := by
  unfold mixingCore at h
  dsimp only at h
  obtain ⟨c1, _, h⟩ := bind_eq_ok.mp h
  obtain ⟨c2, _, h⟩ := bind_eq_ok.mp h
  obtain ⟨kind, _, h⟩ := bind_eq_ok.mp h
  obtain ⟨ranked, _, h⟩ := bind_eq_ok.mp h
  obtain ⟨ref, _, h⟩ := bind_eq_ok.mp h
  obtain ⟨target, _, h⟩ := bind_eq_ok.mp h
  obtain ⟨v1, _, h⟩ := bind_eq_ok.mp h
  obtain ⟨v2, _, h⟩ := bind_eq_ok.mp h
  obtain ⟨mixed, _, h⟩ := bind_eq_ok.mp h
  obtain ⟨⟨add, g'⟩, hadd, h⟩ := bind_eq_ok.mp h
  obtain ⟨mp, hmp, h⟩ := bind_eq_ok.mp h
  obtain ⟨newAlts, _, h⟩ := bind_eq_ok.mp h
  obtain ⟨nc, _, h⟩ := bind_eq_ok.mp h
  obtain ⟨co, _, h⟩ := bind_eq_ok.mp h
  obtain ⟨crits, hcrits, h⟩ := bind_eq_ok.mp h
  simp only [pure, Except.pure, Except.ok.injEq, Prod.mk.injEq] at h
  obtain ⟨rfl, rfl⟩ := h
  exact ⟨_, _, ref, g', rfl, rfl, hadd, hmp, (critsAdd_ok hcrits).1⟩

/-- `Anchoring.Apply` is the front part followed by one of the two appliers -/
theorem decideAnchoring_cases {exp : α → α} {eps : α} {cur : DMP α} {p : AnchProps α} {rd : Draws α}
    {gens : List (Draws α)} {res : DMP α} {rep : AnchReport α}
    (h : anchoringApply exp eps cur p rd gens = .ok (res, rep)) :
    ∃ b, anchoringFront exp cur p = .ok (rep.refPoints, rep.scaling, rep.diffs, b) ∧
      ((p.applier.fn = Facts.anchoringInline ∧
          inlineApply cur rep.diffs b rep.scaling p.applier.params = .ok (res, rep.applier)) ∨
       (p.applier.fn = Facts.anchoringNewCriterion ∧
          newCriterionApply eps cur rep.diffs b rep.scaling p.applier.params rd gens = .ok (res, rep.applier))) := by
  unfold anchoringApply at h
  obtain ⟨⟨refs, sc, diffs, b⟩, hfront, h⟩ := bind_eq_ok.mp h
  dsimp only [Option.getD] at h
  obtain ⟨⟨d, r⟩, happ, h⟩ := bind_eq_ok.mp h
  simp only [pure, Except.pure, Except.ok.injEq, Prod.mk.injEq] at h
  obtain ⟨rfl, rfl⟩ := h
  refine ⟨b, hfront, ?_⟩
  unfold applierApply at happ
  split at happ
  · rename_i hfn
    exact Or.inl ⟨eq_of_beq hfn, happ⟩
  · split at happ
    · rename_i hfn
      exact Or.inr ⟨eq_of_beq hfn, happ⟩
    · simp [throw, throwThe, MonadExceptOf.throw] at happ

/-- the inline applier: criteria and parameters untouched, alternatives replaced id by id -/
theorem decideInlineApply_ok {d : DMP α} {diffs : List (AltDiffs α)} {b : Bounding α} {sc : KMap (Scale α)}
    {params : Props α} {res : DMP α} {r : ApplierResult α}
    (h : inlineApply d diffs b sc params = .ok (res, r)) :
    res.crit = d.crit ∧ res.mp = d.mp ∧ (∃ l, r = .inline l) ∧
    ∃ pairs, diffs.mapM (inlineOne b sc) = .ok pairs ∧
      updateAlts d.co (pairs.map (·.1)) = .ok res.co ∧
      (res.nc = d.nc ∨ updateAlts d.nc (pairs.map (·.1)) = .ok res.nc) := by
  unfold inlineApply at h
  obtain ⟨pairs, hp, h⟩ := bind_eq_ok.mp h
  dsimp only at h
  obtain ⟨co, hco, h⟩ := bind_eq_ok.mp h
  split at h
  · obtain ⟨nc, hnc, h⟩ := bind_eq_ok.mp h
    simp only [pure, Except.pure, Except.ok.injEq, Prod.mk.injEq] at h
    obtain ⟨rfl, rfl⟩ := h
    exact ⟨rfl, rfl, ⟨_, rfl⟩, pairs, hp, hco, Or.inr hnc⟩
  · obtain ⟨rp, _, h⟩ := bind_eq_ok.mp h
    simp only [pure, Except.pure, Except.ok.injEq, Prod.mk.injEq] at h
    obtain ⟨rfl, rfl⟩ := h
    exact ⟨rfl, rfl, ⟨_, rfl⟩, pairs, hp, hco, Or.inl rfl⟩

/-! ### an invariant rule for the newCriterion applier's state -/

/-- whatever (criteria, parameters) property survives adding a criterion with the listener's addition
    merged survives the whole loop of the newCriterion applier -/
theorem decideNcLoop_invariant {b : Bounding α} {range : α × α} {ref : Crit α} {gens : List (Draws α)}
    {ranked : List (WCrit α)} (Q : List (Crit α) → MParams α → Prop)
    (hnew : ∀ st ri rp st', Q st.crits st.mp → ncNewCriterion ref gens st ri rp = .ok st' → Q st'.crits st'.mp) :
    ∀ (diffs : List (AltDiffs α)) (st st' : NCState α) (i : Nat) (alts : List (Alt α)),
      Q st.crits st.mp → ncLoop b range ref gens ranked st i diffs = .ok (st', alts) → Q st'.crits st'.mp := by
  intro diffs
  induction diffs with
  | nil =>
    intro st st' i alts hq h
    simp only [ncLoop, pure, Except.pure, Except.ok.injEq, Prod.mk.injEq] at h
    obtain ⟨rfl, _⟩ := h
    exact hq
  | cons p rest ih =>
    intro st st' i alts hq h
    unfold ncLoop at h
    obtain ⟨⟨st1, a1⟩, hone, h⟩ := bind_eq_ok.mp h
    dsimp only at h
    obtain ⟨⟨st2, as2⟩, hrest, h⟩ := bind_eq_ok.mp h
    simp only [pure, Except.pure, Except.ok.injEq, Prod.mk.injEq] at h
    obtain ⟨rfl, _⟩ := h
    refine ih st1 st2 (i + 1) as2 ?_ hrest
    -- one alternative: the `for` loop over its reference points
    unfold ncOne at hone
    dsimp only at hone
    obtain ⟨s, hloop, hone⟩ := bind_eq_ok.mp hone
    simp only [pure, Except.pure, Except.ok.injEq, Prod.mk.injEq] at hone
    obtain ⟨rfl, _⟩ := hone
    have key := forIn_invariant
      (P := fun (_ : List (String × KMap α)) (s : NCState α × Alt α × Nat) => Q s.1.crits s.1.mp)
      ?_ p.2 [] (st, p.1, 0) s hq hloop
    · exact key
    · intro done x s r hP hf
      obtain ⟨st0, alt0, ri0⟩ := s
      dsimp only at hf hP
      obtain ⟨st1', h1, hf⟩ := bind_eq_ok.mp hf
      split at hf
      · obtain ⟨ac', hpure, hf⟩ := bind_eq_ok.mp hf
        simp only [pure, Except.pure, Except.ok.injEq] at hpure
        subst hpure
        obtain ⟨cv, _, hf⟩ := bind_eq_ok.mp hf
        obtain ⟨alt1, _, hf⟩ := bind_eq_ok.mp hf
        simp only [pure, Except.pure, Except.ok.injEq] at hf
        subst hf
        exact ⟨_, rfl, hnew st0 ri0 x.1 st1' hP h1⟩
      · simp [throw, throwThe, MonadExceptOf.throw, bind, Except.bind] at hf

/-- one step of the applier's state: nothing, or one criterion added with the listener's addition merged -/
theorem decideNcNewCriterion_cases {ref : Crit α} {gens : List (Draws α)} {st st' : NCState α} {ri : Nat}
    {rp : String} (h : ncNewCriterion ref gens st ri rp = .ok st') :
    st' = st ∨ ∃ (c : Crit α) (gen gen' : Draws α) (add : Addition α),
      c.type = ref.type ∧ c.range = ref.range ∧ critsAdd st.crits c = .ok st'.crits ∧
      onAdded st.mp c ref gen = .ok (add, gen') ∧ mergeParams st.mp add = .ok st'.mp := by
  unfold ncNewCriterion at h
  split at h
  · split at h
    · simp [throw, throwThe, MonadExceptOf.throw] at h
    · dsimp only at h
      obtain ⟨crits, hcr, h⟩ := bind_eq_ok.mp h
      obtain ⟨⟨add, gen'⟩, hadd, h⟩ := bind_eq_ok.mp h
      obtain ⟨mp, hmp, h⟩ := bind_eq_ok.mp h
      simp only [pure, Except.pure, Except.ok.injEq] at h
      subst h
      exact Or.inr ⟨{ id := notUsedName (st.crits.map (·.id)) (anchoringCriterionPrefix ++ rp), type := ref.type,
                       range := ref.range }, _, gen', add, rfl, rfl, hcr, hadd, hmp⟩
  · split at h
    · simp only [pure, Except.pure, Except.ok.injEq] at h
      exact Or.inl h.symm
    · simp [throw, throwThe, MonadExceptOf.throw] at h

/-- the newCriterion applier ends in the state of its loop -/
theorem decideNewCriterionApply_loop {eps : α} {d : DMP α} {diffs : List (AltDiffs α)} {b : Bounding α}
    {sc : KMap (Scale α)} {params : Props α} {rd : Draws α} {gens : List (Draws α)} {res : DMP α}
    {r : ApplierResult α} (h : newCriterionApply eps d diffs b sc params rd gens = .ok (res, r)) :
    ∃ ranked ref range st alts, ncLoop b range ref gens ranked ⟨d.crit, d.mp, []⟩ 0 diffs = .ok (st, alts) ∧
      res.crit = st.crits ∧ res.mp = st.mp := by
  unfold newCriterionApply at h
  obtain ⟨kind, _, h⟩ := bind_eq_ok.mp h
  obtain ⟨ranked, _, h⟩ := bind_eq_ok.mp h
  obtain ⟨ref, _, h⟩ := bind_eq_ok.mp h
  obtain ⟨normalized, _, h⟩ := bind_eq_ok.mp h
  split at h
  · simp [throw, throwThe, MonadExceptOf.throw] at h
  · rename_i s hs
    obtain ⟨⟨st, newAlts⟩, hloop, h⟩ := bind_eq_ok.mp h
    dsimp only at h
    obtain ⟨co, _, h⟩ := bind_eq_ok.mp h
    obtain ⟨nc, _, h⟩ := bind_eq_ok.mp h
    simp only [pure, Except.pure, Except.ok.injEq, Prod.mk.injEq] at h
    obtain ⟨rfl, _⟩ := h
    exact ⟨_, _, _, _, _, hloop, rfl, rfl⟩

/-! ### frame facts of one `applyBias` -/

/-- no bias changes the seed of the method's own generator -/
theorem decideApplyBias_seed {exp : α → α} {g : Int → Draws α} {name : String} {p : BProps α}
    {orig cur res : DMP α} {rep : Report α} (h : applyBias exp g name p orig cur = .ok (res, rep)) :
    res.mp.seed = cur.mp.seed := by
  cases decideApplyBias_inv h with
  | omission hb =>
    obtain ⟨_, ordered, _, hc⟩ := BiasA.omissionApply_ok hb
    obtain ⟨_, hmp, _, _⟩ := BiasA.omitCriteria_ok hc
    exact decideOnRemoved_seed hmp
  | reversal hb =>
    obtain ⟨_, _, _, _, _, _, hr⟩ := BiasA.reversalApply_ok hb
    obtain ⟨_, _, _, _, _, _, _, hmp, _⟩ := BiasA.reverseSelected_ok hr
    rw [hmp]
  | fatigue hb =>
    unfold fatigueApply at hb
    obtain ⟨f, _, hb⟩ := bind_eq_ok.mp hb
    obtain ⟨_, _, hmp, _⟩ := BiasA.fatigueBlur_ok hb
    rw [hmp]
  | conceal hb =>
    obtain ⟨_, _, _, _, hm⟩ := decideConceal_params hb
    exact decideMerge_seed hm
  | mixing hb =>
    rcases decideMixing_cases hb with ⟨_, rfl, _⟩ | ⟨_, _, _, _, _, hc⟩
    · rfl
    · obtain ⟨_, _, _, _, _, _, _, hm, _⟩ := decideMixingCore_params hc
      exact decideMerge_seed hm
  | anchoring hb =>
    obtain ⟨b, _, hi | hn⟩ := decideAnchoring_cases hb
    · obtain ⟨_, hmp, _⟩ := decideInlineApply_ok hi.2
      rw [hmp]
    · obtain ⟨ranked, ref, range, st, alts, hloop, _, hmp⟩ := decideNewCriterionApply_loop hn.2
      rw [hmp]
      refine decideNcLoop_invariant (fun _ mp => mp.seed = cur.mp.seed) ?_ _ _ _ _ _ rfl hloop
      intro st ri rp st' hq hnew
      rcases decideNcNewCriterion_cases hnew with rfl | ⟨_, _, _, _, _, _, _, _, hm⟩
      · exact hq
      · rw [decideMerge_seed hm]; exact hq

/-- no bias changes the alternatives or their considered / not-considered split: same ids, same order -/
theorem decideApplyBias_ids {exp : α → α} {g : Int → Draws α} {name : String} {p : BProps α}
    {orig cur res : DMP α} {rep : Report α} (h : applyBias exp g name p orig cur = .ok (res, rep)) :
    res.co.map (·.id) = cur.co.map (·.id) ∧ res.nc.map (·.id) = cur.nc.map (·.id) := by
  cases decideApplyBias_inv h with
  | omission hb =>
    obtain ⟨_, ordered, _, hc⟩ := BiasA.omissionApply_ok hb
    obtain ⟨_, _, hco, hnc⟩ := BiasA.omitCriteria_ok hc
    exact ⟨BiasA.forall₂_ids (fun _ _ hab => hab.1) (BiasA.preserveCriteria_ok hco),
           BiasA.forall₂_ids (fun _ _ hab => hab.1) (BiasA.preserveCriteria_ok hnc)⟩
  | reversal hb =>
    obtain ⟨_, _, _, _, _, _, hr⟩ := BiasA.reversalApply_ok hb
    obtain ⟨_, _, _, _, hnc, hco, _⟩ := BiasA.reverseSelected_ok hr
    exact ⟨updateAlts_ids hco, updateAlts_ids hnc⟩
  | fatigue hb =>
    unfold fatigueApply at hb
    obtain ⟨f, _, hb⟩ := bind_eq_ok.mp hb
    obtain ⟨_, _, _, _, _, _, cr, _, hco, hnc⟩ := BiasA.fatigueBlur_ok hb
    exact ⟨BiasA.forall₂_ids (fun _ _ hab => hab.1) hco, BiasA.forall₂_ids (fun _ _ hab => hab.1) hnc⟩
  | conceal hb =>
    obtain ⟨_, _, _, _, hco, hnc, _⟩ := conceal_ok hb
    exact ⟨hco, hnc⟩
  | mixing hb =>
    rcases decideMixing_cases hb with ⟨_, rfl, _⟩ | ⟨_, _, _, _, _, hc⟩
    · exact ⟨rfl, rfl⟩
    · obtain ⟨_, _, _, _, _, _, hco, hnc, _⟩ := mixingCore_ok hc
      exact ⟨hco, hnc⟩
  | anchoring hb =>
    obtain ⟨b, _, hi | hn⟩ := decideAnchoring_cases hb
    · obtain ⟨_, _, _, pairs, _, hco, hnc⟩ := decideInlineApply_ok hi.2
      refine ⟨updateAlts_ids hco, ?_⟩
      rcases hnc with e | e
      · rw [e]
      · exact updateAlts_ids e
    · obtain ⟨_, _, _, _, _, _, _, _, _, _, hco, hnc, _⟩ := newCriterionApply_ok hn.2
      exact ⟨hco, hnc⟩

/-- criteria disappear or appear only as the bias reports them: the reported omitted criteria followed by the
    new criteria are a permutation of the old criteria followed by the reported added ones (on ids) -/
theorem decideApplyBias_crit {exp : α → α} {g : Int → Draws α} {name : String} {p : BProps α}
    {orig cur res : DMP α} {rep : Report α} (h : applyBias exp g name p orig cur = .ok (res, rep)) :
    (rep.omittedIds ++ res.crit.map (·.id)).Perm (cur.crit.map (·.id) ++ rep.addedIds) := by
  cases decideApplyBias_inv h with
  | omission hb =>
    obtain ⟨_, ordered, ho, hc⟩ := BiasA.omissionApply_ok hb
    obtain ⟨hs, _, _, _⟩ := BiasA.omitCriteria_ok hc
    have hp := BiasA.orderCriteria_perm ho
    have happ := BiasA.split_append hs
    simp only [Report.omittedIds, Report.addedIds, List.append_nil, ← List.map_append]
    exact (happ ▸ hp).map _
  | reversal hb =>
    obtain ⟨_, _, _, _, _, _, hr⟩ := BiasA.reversalApply_ok hb
    obtain ⟨_, _, _, _, _, _, hcr, _⟩ := BiasA.reverseSelected_ok hr
    simp [Report.omittedIds, Report.addedIds, hcr]
  | fatigue hb =>
    unfold fatigueApply at hb
    obtain ⟨f, _, hb⟩ := bind_eq_ok.mp hb
    obtain ⟨_, hcr, _⟩ := BiasA.fatigueBlur_ok hb
    simp [Report.omittedIds, Report.addedIds, hcr]
  | conceal hb =>
    obtain ⟨_, _, hcr, _⟩ := conceal_ok hb
    simp [Report.omittedIds, Report.addedIds, hcr]
  | mixing hb =>
    rcases decideMixing_cases hb with ⟨_, rfl, rfl⟩ | ⟨_, _, _, _, _, hc⟩
    · simp [Report.omittedIds, Report.addedIds]
    · obtain ⟨r, rfl, _, _, ⟨target, hcr⟩, _⟩ := mixingCore_ok hc
      simp [Report.omittedIds, Report.addedIds, hcr]
  | anchoring hb =>
    obtain ⟨b, _, hi | hn⟩ := decideAnchoring_cases hb
    · obtain ⟨hcr, _, ⟨l, hl⟩, _⟩ := decideInlineApply_ok hi.2
      simp [Report.omittedIds, Report.addedIds, hcr, hl]
    · obtain ⟨ref, added, hr, _, hcr, _⟩ := newCriterionApply_ok hn.2
      simp [Report.omittedIds, Report.addedIds, hcr, hr, AddedAnch.crit, Function.comp_def]

/-! ### the same over a whole bias list -/

/-- the omitted / added criteria all fired biases of a response report, in order -/
def outsOmitted (outs : List (BiasOut α (Report α))) : List String :=
  outs.flatMap fun o => match o.report with | some r => r.omittedIds | none => []
def outsAdded (outs : List (BiasOut α (Report α))) : List String :=
  outs.flatMap fun o => match o.report with | some r => r.addedIds | none => []

theorem decideLoop_ids {exp : α → α} {g : Int → Draws α} {orig : DMP α} :
    ∀ (chosen : List (Chosen α (BProps α))) (cur fin : DMP α) (d : Draws α) (outs : List (BiasOut α (Report α))),
      processLoop (applyBias exp g) orig chosen cur d = .ok (fin, outs) →
      fin.co.map (·.id) = cur.co.map (·.id) ∧ fin.nc.map (·.id) = cur.nc.map (·.id) := by
  intro chosen cur fin d outs h
  refine decideLoop_invariant
    (Inv := fun s => s.co.map (·.id) = cur.co.map (·.id) ∧ s.nc.map (·.id) = cur.nc.map (·.id))
    chosen ?_ cur fin d outs ⟨rfl, rfl⟩ h
  intro b _ c next rep hc ha
  obtain ⟨e1, e2⟩ := decideApplyBias_ids ha
  exact ⟨e1.trans hc.1, e2.trans hc.2⟩

theorem decideLoop_seed {exp : α → α} {g : Int → Draws α} {orig : DMP α}
    (chosen : List (Chosen α (BProps α))) (cur fin : DMP α) (d : Draws α) (outs : List (BiasOut α (Report α)))
    (h : processLoop (applyBias exp g) orig chosen cur d = .ok (fin, outs)) : fin.mp.seed = cur.mp.seed := by
  refine decideLoop_invariant (Inv := fun s => s.mp.seed = cur.mp.seed) chosen ?_ cur fin d outs rfl h
  intro b _ c next rep hc ha
  exact (decideApplyBias_seed ha).trans hc

theorem decideLoop_crit {exp : α → α} {g : Int → Draws α} {orig : DMP α} :
    ∀ (chosen : List (Chosen α (BProps α))) (cur fin : DMP α) (d : Draws α) (outs : List (BiasOut α (Report α))),
      processLoop (applyBias exp g) orig chosen cur d = .ok (fin, outs) →
      (outsOmitted outs ++ fin.crit.map (·.id)).Perm (cur.crit.map (·.id) ++ outsAdded outs) := by
  intro chosen
  induction chosen with
  | nil =>
    intro cur fin d outs h
    simp only [processLoop, pure, Except.pure, Except.ok.injEq, Prod.mk.injEq] at h
    obtain ⟨rfl, rfl⟩ := h
    simp [outsOmitted, outsAdded]
  | cons b rest ih =>
    intro cur fin d outs h
    unfold processLoop at h
    obtain ⟨⟨u, d'⟩, _, h⟩ := bind_eq_ok.mp h
    dsimp only at h
    split at h
    · obtain ⟨⟨next, rep⟩, ha, h⟩ := bind_eq_ok.mp h
      dsimp only at h
      obtain ⟨⟨fin', outs'⟩, hl, h⟩ := bind_eq_ok.mp h
      simp only [pure, Except.pure, Except.ok.injEq, Prod.mk.injEq] at h
      obtain ⟨rfl, rfl⟩ := h
      have h1 := decideApplyBias_crit ha
      have h2 := ih next fin' d' outs' hl
      simp only [outsOmitted, outsAdded, List.flatMap_cons] at h2 ⊢
      -- omitted(rep) ++ omitted(rest) ++ fin ~ omitted(rep) ++ next ++ added(rest) ~ cur ++ added(rep) ++ added(rest)
      calc (rep.omittedIds ++ _) ++ fin'.crit.map (·.id)
          = rep.omittedIds ++ (_ ++ fin'.crit.map (·.id)) := by rw [List.append_assoc]
        _ |>.Perm (rep.omittedIds ++ (next.crit.map (·.id) ++ _)) := h2.append_left _
        _ = (rep.omittedIds ++ next.crit.map (·.id)) ++ _ := by rw [List.append_assoc]
        _ |>.Perm ((cur.crit.map (·.id) ++ rep.addedIds) ++ _) := h1.append_right _
        _ = cur.crit.map (·.id) ++ (rep.addedIds ++ _) := by rw [List.append_assoc]
    · obtain ⟨⟨fin', outs'⟩, hl, h⟩ := bind_eq_ok.mp h
      simp only [pure, Except.pure, Except.ok.injEq, Prod.mk.injEq] at h
      obtain ⟨rfl, rfl⟩ := h
      have h2 := ih cur fin' d' outs' hl
      simpa [outsOmitted, outsAdded] using h2

end Rdm
