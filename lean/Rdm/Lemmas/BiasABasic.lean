/-
  Helper lemmas for work package D1 (C15–C17): reasoning about `Except` do-blocks, `List.mapM`,
  value lookups.  May import single Mathlib modules (never the driver's dependencies).
-/
import Rdm.Model.BiasesA
import Mathlib.Data.List.Forall2
set_option linter.unusedSectionVars false
set_option linter.unusedSimpArgs false
open Rdm
namespace Rdm.BiasA
variable {α : Type} [Num α]

theorem bind_ok {ε β γ : Type} {x : Except ε β} {f : β → Except ε γ} {c : γ} :
    (x >>= f) = .ok c ↔ ∃ b, x = .ok b ∧ f b = .ok c := by
  cases x <;> simp [bind, Except.bind]

theorem pure_ok {ε β : Type} {a b : β} : (pure a : Except ε β) = .ok b ↔ a = b := by
  simp [pure, Except.pure]

/-- `mapM` in `Except`: a successful run relates input and output pointwise -/
theorem mapM_ok_forall₂ {ε β γ : Type} {f : β → Except ε γ} :
    ∀ {l : List β} {r : List γ}, l.mapM f = .ok r → List.Forall₂ (fun x y => f x = .ok y) l r := by
  intro l
  induction l with
  | nil => intro r h; simp [List.mapM_nil, pure, Except.pure] at h; subst h; exact .nil
  | cons a l ih =>
    intro r h
    rw [List.mapM_cons, bind_ok] at h
    obtain ⟨b, hb, h⟩ := h
    rw [bind_ok] at h
    obtain ⟨bs, hbs, h⟩ := h
    rw [pure_ok] at h
    subst h
    exact .cons hb (ih hbs)

theorem forall₂_map_eq {β γ : Type} {R : β → γ → Prop} {g : γ → β} (hg : ∀ x y, R x y → g y = x) :
    ∀ {l : List β} {r : List γ}, List.Forall₂ R l r → r.map g = l := by
  intro l r h
  induction h with
  | nil => rfl
  | cons hxy _ ih => simp [hg _ _ hxy, ih]

theorem raw_ok {a : Alt α} {c : Crit α} {v : α} : a.raw c = .ok v ↔ a.vals.get? c.id = some v := by
  unfold Alt.raw
  cases h : a.vals.get? c.id <;> simp [pure, Except.pure, throw, throwThe, MonadExceptOf.throw]

theorem fetch_ok {m : KMap α} {k : String} {v : α} : KMap.fetch m k = .ok v ↔ m.get? k = some v := by
  unfold KMap.fetch
  cases h : m.get? k <;> simp [pure, Except.pure, throw, throwThe, MonadExceptOf.throw]


theorem forall₂_mem_right {β γ : Type} {R : β → γ → Prop} {l : List β} {r : List γ}
    (h : List.Forall₂ R l r) : ∀ y ∈ r, ∃ x ∈ l, R x y := by
  induction h with
  | nil => intro y hy; cases hy
  | cons hxy _ ih =>
    intro y hy
    rcases List.mem_cons.1 hy with rfl | hy
    · exact ⟨_, List.mem_cons_self, hxy⟩
    · obtain ⟨x, hx, hr⟩ := ih y hy
      exact ⟨x, List.mem_cons_of_mem _ hx, hr⟩



theorem forall₂_map_map {β γ δ : Type} {R : β → γ → Prop} {g : γ → δ} {k : β → δ}
    (hg : ∀ x y, R x y → g y = k x) {l : List β} {r : List γ} (h : List.Forall₂ R l r) :
    r.map g = l.map k := by
  induction h with
  | nil => rfl
  | cons hxy _ ih => simp [hg _ _ hxy, ih]

end Rdm.BiasA
