/-
  `choquetParse`: what a successful parse guarantees (gain only, canonical unique keys, full power set, range).
-/
import Rdm.Model.Utility
import Rdm.Lemmas.NumRat
namespace Rdm

theorem bind_ok {ε β γ : Type} {m : Except ε β} {k : β → Except ε γ} {r : γ}
    (h : (m >>= k) = .ok r) : ∃ x, m = .ok x ∧ k x = .ok r := by
  cases m with
  | error e => simp [bind, Except.bind] at h
  | ok x => exact ⟨x, rfl, h⟩

/-- a validation loop (`for x in l do if bad x then throw …`) that finishes normally passed every element -/
theorem forIn_unit_ok {β : Type} (f : β → PUnit.{1} → R (ForInStep PUnit.{1})) :
    ∀ (l : List β) (u : PUnit.{1}), forIn l PUnit.unit f = .ok u →
      (∀ x, ∀ s, f x PUnit.unit = .ok s → s = .yield PUnit.unit) →
      ∀ x ∈ l, f x PUnit.unit = .ok (.yield PUnit.unit)
  | [], _, _, _, x, hx => by simp at hx
  | y :: ys, u, h, hf, x, hx => by
    rw [List.forIn_cons] at h
    obtain ⟨s, hs, hk⟩ := bind_ok h
    have := hf y s hs
    subst this
    rcases List.mem_cons.mp hx with rfl | hx
    · exact hs
    · exact forIn_unit_ok f ys u hk hf x hx

variable {α : Type}

theorem lookup_isSome_iff {β : Type} (k : String) : ∀ (m : List (String × β)),
    (List.lookup k m).isSome = true ↔ k ∈ m.map Prod.fst
  | [] => by simp
  | (a, b) :: es => by
    rw [List.lookup_cons]
    by_cases h : k = a
    · subst h; simp
    · have : (k == a) = false := by simpa using h
      simp only [this, List.map_cons, List.mem_cons, h, false_or]
      exact lookup_isSome_iff k es

/-- one iteration of `remapWeights` -/
def remapStep (x : String × α) (acc : KMap α) : R (ForInStep (KMap α)) :=
  if acc.has (criterionKey (splitKey x.1)) = true then throw "choquet-redeclared"
  else pure (ForInStep.yield (acc ++ [(criterionKey (splitKey x.1), x.2)]))

/-- canonical re-keying of a capacity table -/
def canonTable (w : KMap α) : KMap α := w.map fun kv => (criterionKey (splitKey kv.1), kv.2)

theorem remapLoop_ok : ∀ (w acc s : KMap α), forIn w acc remapStep = .ok s →
    s = acc ++ canonTable w ∧ (acc.keys.Nodup → s.keys.Nodup)
  | [], acc, s, h => by
    simp only [List.forIn_nil, pure, Except.pure, Except.ok.injEq] at h
    subst h; simp [canonTable]
  | x :: xs, acc, s, h => by
    rw [List.forIn_cons] at h
    obtain ⟨st, hst, hk⟩ := bind_ok h
    unfold remapStep at hst
    split at hst
    · simp [throw, throwThe, MonadExceptOf.throw] at hst
    · rename_i hhas
      simp only [pure, Except.pure, Except.ok.injEq] at hst
      subst hst
      obtain ⟨h1, h2⟩ := remapLoop_ok xs _ s hk
      refine ⟨by rw [h1]; simp [canonTable], fun hnd => h2 ?_⟩
      simp only [KMap.keys, List.map_append, List.map_cons, List.map_nil]
      have hnot : criterionKey (splitKey x.1) ∉ acc.map Prod.fst :=
        fun hm => hhas ((lookup_isSome_iff _ acc).mpr hm)
      rw [List.nodup_append]
      refine ⟨hnd, by simp, ?_⟩
      intro a ha b hb
      simp only [List.mem_singleton] at hb
      subst hb
      exact fun e => hnot (e ▸ ha)

variable [Num α]

theorem choquetParse_ok (crits : List (Crit α)) (w r : KMap α) (h : choquetParse crits w = .ok r) :
    (∀ c ∈ crits, c.type = "gain") ∧
    (∀ kv ∈ r, ((splitKey kv.1).all fun p => (crits.map (·.id)).contains p) = true ∧ ¬ kv.2 < Num.zero ∧ ¬ Num.one < kv.2) ∧
    (∀ s ∈ powerSet (crits.map (·.id)), ∃ v, r.get? (criterionKey s) = some v) ∧
    r = canonTable w ∧ r.keys.Nodup := by
  unfold choquetParse at h
  obtain ⟨u1, h1, h⟩ := bind_ok h
  obtain ⟨rem, h2, h⟩ := bind_ok h
  obtain ⟨u3, h3, h⟩ := bind_ok h
  obtain ⟨u4, h4, h⟩ := bind_ok h
  simp only [pure, Except.pure, Except.ok.injEq] at h
  subst h
  have h2' : forIn w ([] : KMap α) remapStep = .ok rem := h2
  obtain ⟨hr1, hr2⟩ := remapLoop_ok w [] rem h2'
  refine ⟨?_, ?_, ?_, by simpa using hr1, hr2 (by simp [KMap.keys])⟩
  · intro c hc
    have := forIn_unit_ok _ _ _ h1 (by
      intro x s hs
      split at hs
      · simp [bind, Except.bind, throw, throwThe, MonadExceptOf.throw] at hs
      · simpa [pure, Except.pure] using hs.symm) c hc
    split at this
    · simp [bind, Except.bind, throw, throwThe, MonadExceptOf.throw] at this
    · rename_i hne
      simpa using hne
  · intro kv hkv
    have := forIn_unit_ok _ _ _ h4 (by
      intro x s hs
      obtain ⟨k, v⟩ := x
      simp only at hs
      split at hs
      · simp [bind, Except.bind, throw, throwThe, MonadExceptOf.throw] at hs
      · split at hs
        · simp [bind, Except.bind, throw, throwThe, MonadExceptOf.throw] at hs
        · simpa [pure, Except.pure] using hs.symm) kv hkv
    obtain ⟨k, v⟩ := kv
    simp only at this
    split at this
    · simp [bind, Except.bind, throw, throwThe, MonadExceptOf.throw] at this
    · rename_i hparts
      split at this
      · simp [bind, Except.bind, throw, throwThe, MonadExceptOf.throw] at this
      · rename_i hrange
        have hparts' : ((splitKey k).all fun p => (crits.map (·.id)).contains p) = true := by
          cases hb : ((splitKey k).all fun p => (crits.map (·.id)).contains p)
          · rw [hb] at hparts; simp at hparts
          · rfl
        simp only [Bool.or_eq_true, decide_eq_true_eq, not_or] at hrange
        exact ⟨hparts', hrange.1, hrange.2⟩
  · intro s hs
    have := forIn_unit_ok _ _ _ h3 (by
      intro x s hs
      obtain ⟨v, _, hv⟩ := bind_ok hs
      simpa [pure, Except.pure] using hv.symm) s hs
    obtain ⟨v, hv, _⟩ := bind_ok this
    unfold unionWeight at hv
    split at hv
    · rename_i v' hv'
      exact ⟨v', hv'⟩
    · simp [throw, throwThe, MonadExceptOf.throw] at hv

end Rdm
