/-
  Lemmas for the end-to-end model, part 4: the Choquet listener seam.  `OnCriterionAdded` of the Choquet
  integral re-emits the capacities it already has (for every subset of the old criteria), so `Merge`, which
  refuses common keys, rejects whatever `OnCriterionAdded` returned — as soon as there is at least one
  criterion.  (Registered finding KF-C07-choquet-adding-bias.)
-/
import Rdm.Lemmas.DecideCoherent
namespace Rdm
set_option linter.unusedSectionVars false
variable {α : Type} [Num α]

/-- the loop body of the Choquet `OnCriterionAdded` -/
def choquetAddStep (w : KMap α) (crit : Crit α) (k : List String) (s : Draws α × KMap α) :
    R (ForInStep (Draws α × KMap α)) :=
  match w.get? (criterionKey k) with
  | some v => pure (ForInStep.yield (s.1, s.2.set (criterionKey k) v))
  | none =>
    if (k.erase crit.id).isEmpty = true then do
      let x ← draw s.1
      pure (ForInStep.yield (x.2, s.2.set crit.id x.1))
    else do
      let v ← unionWeight w (k.erase crit.id)
      pure (ForInStep.yield (s.1, s.2.set (criterionKey k) v))

/-- every step only adds or overwrites a key -/
theorem choquetAddStep_mono {w : KMap α} {crit : Crit α} {k : List String} {s : Draws α × KMap α}
    {r : ForInStep (Draws α × KMap α)} (h : choquetAddStep w crit k s = .ok r) :
    ∃ s1, r = .yield s1 ∧ ∀ key, s.2.has key = true → s1.2.has key = true := by
  unfold choquetAddStep at h
  split at h
  · simp only [pure, Except.pure, Except.ok.injEq] at h
    subst h
    exact ⟨_, rfl, fun key hk => (KMap.has_set _ _ _ _).mpr (Or.inl hk)⟩
  · split at h
    · obtain ⟨x, _, h⟩ := bind_eq_ok.mp h
      simp only [pure, Except.pure, Except.ok.injEq] at h
      subst h
      exact ⟨_, rfl, fun key hk => (KMap.has_set _ _ _ _).mpr (Or.inl hk)⟩
    · obtain ⟨v, _, h⟩ := bind_eq_ok.mp h
      simp only [pure, Except.pure, Except.ok.injEq] at h
      subst h
      exact ⟨_, rfl, fun key hk => (KMap.has_set _ _ _ _).mpr (Or.inl hk)⟩

/-- the step for a subset of the OLD criteria (it does not contain the new one): the capacity must exist
    already and is copied under the same key -/
theorem choquetAddStep_old {w : KMap α} {crit : Crit α} {k : List String} {s : Draws α × KMap α}
    {r : ForInStep (Draws α × KMap α)} (hk : k ≠ []) (hnot : crit.id ∉ k)
    (h : choquetAddStep w crit k s = .ok r) :
    w.has (criterionKey k) = true ∧ ∃ s1, r = .yield s1 ∧ s1.2.has (criterionKey k) = true := by
  unfold choquetAddStep at h
  have herase : k.erase crit.id = k := List.erase_of_not_mem hnot
  split at h
  · rename_i v hv
    simp only [pure, Except.pure, Except.ok.injEq] at h
    subst h
    refine ⟨?_, _, rfl, (KMap.has_set _ _ _ _).mpr (Or.inr rfl)⟩
    unfold KMap.has
    rw [show List.lookup (criterionKey k) w = w.get? (criterionKey k) from rfl, hv]; rfl
  · rename_i hnone
    rw [herase] at h
    split at h
    · rename_i hemp
      cases k with
      | nil => exact absurd rfl hk
      | cons x xs => simp at hemp
    · obtain ⟨v, hv, h⟩ := bind_eq_ok.mp h
      unfold unionWeight at hv
      rw [hnone] at hv
      simp [throw, throwThe, MonadExceptOf.throw] at hv

/-- **Known finding, machine-checked**: with at least one criterion, `Merge` of the Choquet listener rejects
    every addition its own `OnCriterionAdded` returns. -/
theorem decideChoquet_merge_fails {w : KMap α} {c0 : Crit α} {rest : List (Crit α)} {crit ref : Crit α}
    {d d' : Draws α} {add : Addition α}
    (h : onAdded (.choquet w (c0 :: rest)) crit ref d = .ok (add, d')) :
    ∃ e, mergeParams (.choquet w (c0 :: rest)) add = .error e := by
  simp only [onAdded] at h
  obtain ⟨newCs, hn, h⟩ := bind_eq_ok.mp h
  obtain ⟨s, hloop, h⟩ := bind_eq_ok.mp h
  simp only [pure, Except.pure, Except.ok.injEq, Prod.mk.injEq] at h
  obtain ⟨rfl, _⟩ := h
  obtain ⟨hnew, hfresh⟩ := critsAdd_ok hn
  have hne : crit.id ≠ c0.id := by
    have := hfresh c0 (by simp)
    intro e
    simp [e] at this
  -- the first subset the loop meets is {c0}
  have hps : powerSet (newCs.map (·.id)) =
      [c0.id] :: (powerSet ((rest ++ [crit]).map (·.id)) ++
        (powerSet ((rest ++ [crit]).map (·.id))).map (c0.id :: ·)) := by
    rw [hnew]; rfl
  change forIn (powerSet (newCs.map (·.id))) (d, []) (choquetAddStep w crit) = .ok s at hloop
  rw [hps, List.forIn_cons] at hloop
  obtain ⟨r1, h1, hloop⟩ := bind_eq_ok.mp hloop
  obtain ⟨hw, s1, rfl, hs1⟩ := choquetAddStep_old (k := [c0.id]) (by simp) (by simpa using hne) h1
  dsimp only at hloop
  have hfin := forIn_invariant
    (P := fun (_ : List (List String)) (st : Draws α × KMap α) => st.2.has (criterionKey [c0.id]) = true)
    (fun done x st r hP hf => by
      obtain ⟨st1, e, hm⟩ := choquetAddStep_mono hf
      exact ⟨st1, e, hm _ hP⟩)
    _ [] s1 s hs1 hloop
  -- so the addition and the old parameters share that key
  rw [KMap.has_iff_mem_keys] at hfin
  obtain ⟨pr, hpr, hkey⟩ := List.mem_map.mp hfin
  have hany : (s.2.any fun p => w.has p.1) = true := by
    rw [List.any_eq_true]
    exact ⟨pr, hpr, by rw [hkey]; exact hw⟩
  simp only [mergeParams, KMap.mergeDisjoint, hany, if_true]
  exact ⟨_, rfl⟩

end Rdm
