/-
  Structural reformulation of `ranking` (generic in the number type): the two `let`s of the model
  as named functions, so that theorems can speak about the sorted intermediate list.
-/
import Rdm.Model.Ranking
namespace Rdm
variable {α : Type} [Num α]

/-- first step of `ranking`: round every value -/
def roundAll (l : List (Scored α)) : List (Scored α) := l.map fun s => { s with v := round8 s.v }

/-- last step of `ranking`: attach the links computed against the whole sorted list -/
def entriesOf (sorted : List (Scored α)) : List (RankEntry α) :=
  sorted.map fun s => { id := s.id, v := s.v, links := positionInRanking s sorted }

/-- `ranking` = round, sort by `rankLe`, attach links (rounding happens before any comparison) -/
theorem ranking_eq (l : List (Scored α)) : ranking l = entriesOf ((roundAll l).mergeSort rankLe) := rfl

@[simp] theorem roundAll_ids (l : List (Scored α)) : (roundAll l).map (·.id) = l.map (·.id) := by
  simp [roundAll, Function.comp_def]

@[simp] theorem entriesOf_ids (s : List (Scored α)) : (entriesOf s).map (·.id) = s.map (·.id) := by
  simp [entriesOf, Function.comp_def]

theorem sorted_ids_perm (l : List (Scored α)) :
    (((roundAll l).mergeSort rankLe).map (·.id)).Perm (l.map (·.id)) := by
  have h := (List.mergeSort_perm (roundAll l) rankLe).map (fun s : Scored α => s.id)
  simpa using h

end Rdm
