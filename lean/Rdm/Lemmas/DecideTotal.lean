/-
  Lemmas for the end-to-end model, part 5: progress.  On a coherent state, with valid props and long enough
  stream prefixes, the biases do not fail:
    * fatigue (every method);
    * preference reversal and criteria omission, given the ordering (every method except that the
      Choquet listener's `OnCriteriaRemoved` is not covered);
    * the deterministic orderings (default / weakest / strongest) for the listeners that rank by their own
      weights (electreIII, majority, aspect elimination).
-/
import Rdm.Lemmas.DecideCoherent
namespace Rdm
set_option linter.unusedSectionVars false
variable {α : Type} [Num α]

/-! ### generic -/

theorem decideMapM_total {ε β γ : Type} {f : β → Except ε γ} :
    ∀ {l : List β}, (∀ a ∈ l, ∃ b, f a = .ok b) → ∃ r, l.mapM f = .ok r := by
  intro l
  induction l with
  | nil => intro _; exact ⟨[], rfl⟩
  | cons x xs ih =>
    intro h
    obtain ⟨b, hb⟩ := h x (by simp)
    obtain ⟨bs, hbs⟩ := ih (fun a ha => h a (List.mem_cons_of_mem _ ha))
    exact ⟨b :: bs, by rw [List.mapM_cons, hb, hbs]; rfl⟩

theorem decideBind_pure_total {ε β γ : Type} {x : Except ε β} {g : β → γ} (h : ∃ r, x = .ok r) :
    ∃ y, (x >>= fun r => pure (g r)) = .ok y := by
  obtain ⟨r, rfl⟩ := h
  exact ⟨g r, rfl⟩

theorem decideHas_get {β : Type} {m : KMap β} {k : String} (h : m.has k = true) : ∃ v, m.get? k = some v := by
  unfold KMap.has at h
  unfold KMap.get?
  cases hl : List.lookup k m with
  | none => rw [hl] at h; cases h
  | some v => exact ⟨v, rfl⟩

theorem decideRaw_total {a : Alt α} {c : Crit α} (h : a.vals.has c.id = true) : ∃ v, a.raw c = .ok v := by
  obtain ⟨v, hv⟩ := decideHas_get h
  exact ⟨v, by unfold Alt.raw; rw [hv]; rfl⟩

theorem decideValuesRange_total {alts : List (Alt α)} {c : Crit α}
    (h : ∀ a ∈ alts, a.vals.has c.id = true) : ∃ r, valuesRange alts c = .ok r := by
  unfold valuesRange
  cases c.range with
  | some r => exact ⟨r, rfl⟩
  | none =>
    obtain ⟨vs, hvs⟩ := decideMapM_total (f := fun a : Alt α => a.raw c) (fun a ha => decideRaw_total (h a ha))
    simp only [hvs]
    cases vs with
    | nil => exact ⟨_, rfl⟩
    | cons v rest => exact ⟨_, rfl⟩

theorem decideDraw_total {d : Draws α} (h : 0 < d.length) : ∃ u d', draw d = .ok (u, d') ∧ d'.length = d.length - 1 := by
  cases d with
  | nil => simp at h
  | cons x xs => exact ⟨x, xs, rfl, by simp⟩

/-! ### fatigue -/

theorem decideBlurAlt_total {f : α} {b : Bounding α} {a : Alt α} :
    ∀ {cr : List (Crit α × (α × α))} {vd sd : Draws α}, (∀ c ∈ cr, a.vals.has c.1.id = true) →
      cr.length ≤ vd.length → cr.length ≤ sd.length →
      ∃ vals vd' sd', blurAlt f b a cr vd sd = .ok (vals, vd', sd') ∧
        vd'.length = vd.length - cr.length ∧ sd'.length = sd.length - cr.length := by
  intro cr
  induction cr with
  | nil => intro vd sd _ _ _; exact ⟨[], vd, sd, rfl, by simp, by simp⟩
  | cons c rest ih =>
    intro vd sd hv h1 h2
    obtain ⟨c1, c2⟩ := c
    obtain ⟨v, hraw⟩ := decideRaw_total (hv (c1, c2) (by simp))
    obtain ⟨u, vd1, hu, hl1⟩ := decideDraw_total (d := vd) (by simp at h1; omega)
    obtain ⟨s, sd1, hs, hl2⟩ := decideDraw_total (d := sd) (by simp at h2; omega)
    obtain ⟨tl, vd2, sd2, htl, e1, e2⟩ := ih (vd := vd1) (sd := sd1) (fun c' hc' => hv c' (List.mem_cons_of_mem _ hc'))
      (by simp at h1; omega) (by simp at h2; omega)
    refine ⟨(c1.id, blurValue f b c2 v u s) :: tl, vd2, sd2, ?_, by simp; omega, by simp; omega⟩
    simp only [blurAlt, hraw, hu, hs, htl, bind, Except.bind, pure, Except.pure]

theorem decideBlurAlts_total {f : α} {b : Bounding α} {cr : List (Crit α × (α × α))} :
    ∀ {alts : List (Alt α)} {vd sd : Draws α}, (∀ a ∈ alts, ∀ c ∈ cr, a.vals.has c.1.id = true) →
      alts.length * cr.length ≤ vd.length → alts.length * cr.length ≤ sd.length →
      ∃ res vd' sd', blurAlts f b cr alts vd sd = .ok (res, vd', sd') ∧
        vd'.length = vd.length - alts.length * cr.length ∧ sd'.length = sd.length - alts.length * cr.length := by
  intro alts
  induction alts with
  | nil => intro vd sd _ _ _; exact ⟨[], vd, sd, rfl, by simp, by simp⟩
  | cons a rest ih =>
    intro vd sd hv h1 h2
    have hmul : (a :: rest).length * cr.length = cr.length + rest.length * cr.length := by
      rw [List.length_cons, Nat.succ_mul, Nat.add_comm]
    rw [hmul] at h1 h2
    obtain ⟨vals, vd1, sd1, hb, e1, e2⟩ := decideBlurAlt_total (f := f) (b := b) (a := a) (cr := cr) (vd := vd) (sd := sd)
      (hv a (by simp)) (by omega) (by omega)
    obtain ⟨tl, vd2, sd2, htl, e3, e4⟩ := ih (vd := vd1) (sd := sd1) (fun a' ha' => hv a' (List.mem_cons_of_mem _ ha'))
      (by omega) (by omega)
    refine ⟨{ id := a.id, vals := vals } :: tl, vd2, sd2, ?_, by rw [hmul]; omega, by rw [hmul]; omega⟩
    simp only [blurAlts, hb, htl, bind, Except.bind, pure, Except.pure]

theorem decideFatigue_total {exp : α → α} {fn : FatigueFn α} {b : Bounding α} {cur : DMP α} {d : Draws α}
    (hc : Coherent cur) (hfn : ∀ n, fn ≠ .unknown n) (hb : (b.scaling == Num.zero) = false)
    (hd : (cur.co.length + cur.nc.length) * cur.crit.length ≤ d.length) :
    ∃ res rep, fatigueApply exp fn b cur d = .ok (res, rep) := by
  have hf : ∃ f, fatigueRatio exp fn = .ok f := by
    cases fn with
    | const v => exact ⟨_, rfl⟩
    | expFromZero a m q => exact ⟨_, rfl⟩
    | unknown n => exact absurd rfl (hfn n)
  obtain ⟨f, hf⟩ := hf
  have hval : b.validate = .ok () := by
    unfold Bounding.validate; rw [hb]; rfl
  obtain ⟨cr, hcr⟩ : ∃ cr, biasACriteriaRanges cur = .ok cr := by
    unfold biasACriteriaRanges
    apply decideMapM_total
    intro c hcm
    obtain ⟨r, hr⟩ := decideValuesRange_total (alts := cur.all) (c := c)
      (fun a ha => hc.values a (by simpa [DMP.all] using ha) c hcm)
    exact ⟨(c, r), by simp only [hr, bind, Except.bind, pure, Except.pure]⟩
  have hcrm := (BiasA.criteriaRanges_ok hcr).1
  have hlen : cr.length = cur.crit.length := by rw [← hcrm]; simp
  have hvals : ∀ a ∈ cur.co ++ cur.nc, ∀ c ∈ cr, a.vals.has c.1.id = true := by
    intro a ha c hcm
    apply hc.values a ha c.1
    rw [← hcrm]; exact List.mem_map_of_mem hcm
  rw [Nat.add_mul] at hd
  obtain ⟨co, vd1, sd1, hco, e1, e2⟩ := decideBlurAlts_total (f := f) (b := b) (cr := cr) (alts := cur.co) (vd := d) (sd := d)
    (fun a ha => hvals a (List.mem_append_left _ ha)) (by rw [hlen]; omega) (by rw [hlen]; omega)
  obtain ⟨nc, vd2, sd2, hnc, _, _⟩ := decideBlurAlts_total (f := f) (b := b) (cr := cr) (alts := cur.nc) (vd := vd1) (sd := sd1)
    (fun a ha => hvals a (List.mem_append_right _ ha)) (by rw [hlen] at *; omega) (by rw [hlen] at *; omega)
  refine ⟨{ nc := nc, co := co, crit := cur.crit, mp := cur.mp }, { f := f, co := co, nc := nc }, ?_⟩
  simp only [fatigueApply, fatigueBlur, hf, hval, hcr, hco, hnc, bind, Except.bind, pure, Except.pure]

/-! ### preference reversal (given the ordering) -/

theorem decideFetch_total {m : KMap α} {k : String} (h : m.has k = true) : ∃ v, KMap.fetch m k = .ok v := by
  obtain ⟨v, hv⟩ := decideHas_get h
  exact ⟨v, by unfold KMap.fetch; rw [hv]; rfl⟩

theorem decideFetchAlt_total {l : List (Alt α)} {id : String} (h : ∃ a ∈ l, a.id = id) :
    ∃ a, fetchAlt l id = .ok a := by
  unfold fetchAlt
  cases hf : l.find? (fun a => a.id == id) with
  | some a => exact ⟨a, rfl⟩
  | none =>
    obtain ⟨a, ha, e⟩ := h
    rw [List.find?_eq_none] at hf
    exact absurd (by simp [e]) (hf a ha)

theorem decideUpdateAlts_total {old new : List (Alt α)} (h : ∀ a ∈ old, ∃ b ∈ new, b.id = a.id) :
    ∃ r, updateAlts old new = .ok r := by
  unfold updateAlts
  exact decideMapM_total (fun a ha => decideFetchAlt_total (h a ha))

theorem decideReverseAlt_total {toRev : List (Crit α × (α × α))} {a : Alt α}
    (h : ∀ cr ∈ toRev, a.vals.has cr.1.id = true) : ∃ r, reverseAlt toRev a = .ok r := by
  rw [BiasA.reverseAlt_eq]
  suffices hs : ∀ (toRev : List (Crit α × (α × α))) (acc : Alt α × List α),
      (∀ cr ∈ toRev, acc.1.vals.has cr.1.id = true) → ∃ r, toRev.foldlM BiasA.revStep acc = .ok r from
    hs toRev (a, []) h
  intro toRev
  induction toRev with
  | nil => intro acc _; exact ⟨acc, rfl⟩
  | cons cr rest ih =>
    intro acc hacc
    obtain ⟨v, hv⟩ := decideFetch_total (hacc cr (by simp))
    have hstep : BiasA.revStep acc cr =
        .ok ({ acc.1 with vals := acc.1.vals.set cr.1.id (reverseValue cr.2 v) }, acc.2 ++ [reverseValue cr.2 v]) := by
      unfold BiasA.revStep
      simp only [hv, bind, Except.bind, pure, Except.pure]
    rw [List.foldlM_cons, hstep]
    apply ih
    intro cr' hcr'
    exact (KMap.has_set _ _ _ _).mpr (Or.inl (hacc cr' (List.mem_cons_of_mem _ hcr')))

theorem decideReverseSelected_total {sel : List (Crit α)} {cur : DMP α} (hc : Coherent cur)
    (hsel : ∀ c ∈ sel, c ∈ cur.crit) : ∃ res rep, reverseSelected sel cur = .ok (res, rep) := by
  have hall : ∀ a ∈ cur.all, ∀ c ∈ cur.crit, a.vals.has c.id = true :=
    fun a ha c hcm => hc.values a (by simpa [DMP.all] using ha) c hcm
  obtain ⟨toRev, htr⟩ : ∃ toRev, criteriaToReverse sel cur = .ok toRev := by
    unfold criteriaToReverse
    apply decideMapM_total
    intro c hcm
    obtain ⟨r, hr⟩ := decideValuesRange_total (alts := cur.all) (c := c) (fun a ha => hall a ha c (hsel c hcm))
    exact ⟨(c, r), by simp only [hr, bind, Except.bind, pure, Except.pure]⟩
  have htm := (BiasA.criteriaToReverse_ok htr).1
  obtain ⟨resl, hresl⟩ : ∃ resl, cur.all.mapM (reverseAlt toRev) = .ok resl := by
    apply decideMapM_total
    intro a ha
    apply decideReverseAlt_total
    intro cr hcr
    apply hall a ha cr.1
    apply hsel
    rw [← htm]; exact List.mem_map_of_mem hcr
  have hfound : ∀ a ∈ cur.all, ∃ b ∈ resl.map (·.1), b.id = a.id := by
    intro a ha
    obtain ⟨r, hr, e⟩ := decideMapM_forall hresl a ha
    rw [BiasA.reverseAlt_eq] at e
    exact ⟨r.1, List.mem_map_of_mem hr, (BiasA.foldlM_revStep_spec toRev (a, []) r e).1⟩
  obtain ⟨nc, hnc⟩ := decideUpdateAlts_total (old := cur.nc) (new := resl.map (·.1))
    (fun a ha => hfound a (by simp [DMP.all, ha]))
  obtain ⟨co, hco⟩ := decideUpdateAlts_total (old := cur.co) (new := resl.map (·.1))
    (fun a ha => hfound a (by simp [DMP.all, ha]))
  refine ⟨{ nc := nc, co := co, crit := cur.crit, mp := cur.mp },
    reversalReport toRev cur.all (resl.map (·.2)), ?_⟩
  simp only [reverseSelected, htr, hresl, hnc, hco, bind, Except.bind, pure, Except.pure]

/-! ### criteria omission (given the ordering) -/

/-- the levels function of the two threshold heuristics is one the listener registry of main.go knows -/
def listenerKnowsLevels : MParams α → Bool
  | .aspect fn _ _ _ _ => aspectFns.contains fn
  | .satisf fn _ _ _ _ => satisfFns.contains fn
  | _ => true

def notChoquet : MParams α → Bool
  | .choquet _ _ => false
  | _ => true

theorem decideFindWCrit_total {wc : List (WCrit α)} {id : String} (h : ∃ x ∈ wc, (x.crit.id == id) = true) :
    ∃ r, findWCrit wc id = .ok r := by
  unfold findWCrit
  cases hf : wc.find? (fun c => c.crit.id == id) with
  | some a => exact ⟨a, rfl⟩
  | none =>
    obtain ⟨x, hx, e⟩ := h
    rw [List.find?_eq_none] at hf
    exact absurd e (hf x hx)

theorem decidePreserveOnly_total {m : KMap α} {left : List (Crit α)} (h : ∀ c ∈ left, m.has c.id = true) :
    ∃ m', KMap.preserveOnly m left = .ok m' := by
  unfold KMap.preserveOnly
  apply decideMapM_total
  intro c hc
  obtain ⟨v, hv⟩ := decideFetch_total (h c hc)
  exact ⟨(c.id, v), by simp only [hv, bind, Except.bind, pure, Except.pure]⟩

theorem decideLevelsOnRemoved_total {lv : Levels α} {left : List (Crit α)}
    (h : match lv with
         | .coef _ _ _ => True
         | .thresholds ts => ∀ t ∈ ts, ∀ c ∈ left, t.has c.id = true) :
    ∃ lv', levelsOnRemoved lv left = .ok lv' := by
  unfold levelsOnRemoved
  cases lv with
  | coef a b c => exact ⟨_, rfl⟩
  | thresholds ts =>
    obtain ⟨ts', hts⟩ := decideMapM_total (f := fun t : KMap α => KMap.preserveOnly t left)
      (fun t ht => decidePreserveOnly_total (h t ht))
    exact ⟨.thresholds ts', by simp only [hts, bind, Except.bind, pure, Except.pure]⟩

theorem decideOnRemoved_total {mp : MParams α} {crit left : List (Crit α)}
    (hcov : Spec.C07.covers crit mp = true) (hsub : ∀ c ∈ left, c ∈ crit)
    (hk : listenerKnowsLevels mp = true) (hnc : notChoquet mp = true) : ∃ mp', onRemoved mp left = .ok mp' := by
  cases mp with
  | choquet w cs => simp [notChoquet] at hnc
  | ws wc =>
    simp only [Spec.C07.covers, List.all_eq_true, List.any_eq_true] at hcov
    obtain ⟨r, hr⟩ := decideMapM_total (f := fun c : Crit α => findWCrit wc c.id)
      (fun c hc => decideFindWCrit_total (hcov c (hsub c hc)))
    exact ⟨.ws r, by simp only [onRemoved, hr, bind, Except.bind, pure, Except.pure]⟩
  | owa wc =>
    simp only [Spec.C07.covers, Bool.and_eq_true, List.all_eq_true, List.any_eq_true] at hcov
    obtain ⟨r, hr⟩ := decideMapM_total (f := fun c : Crit α => findWCrit wc c.id)
      (fun c hc => decideFindWCrit_total (hcov.1 c (hsub c hc)))
    exact ⟨.owa r, by simp only [onRemoved, hr, bind, Except.bind, pure, Except.pure]⟩
  | electre ec dist =>
    simp only [Spec.C07.covers, List.all_eq_true] at hcov
    simp only [onRemoved]
    apply decideBind_pure_total
    apply decideMapM_total
    intro c hc
    obtain ⟨e, he⟩ := decideHas_get (hcov c (hsub c hc))
    exact ⟨(c.id, e), by simp only [he]; rfl⟩
  | majority w cur seed rnd dr =>
    simp only [Spec.C07.covers, List.all_eq_true] at hcov
    obtain ⟨w', hw⟩ := decidePreserveOnly_total (m := w) (left := left) (fun c hc => hcov c (hsub c hc))
    exact ⟨.majority w' cur seed rnd dr, by simp only [onRemoved, hw, bind, Except.bind, pure, Except.pure]⟩
  | aspect fn lv seed w rnd =>
    simp only [Spec.C07.covers, Bool.and_eq_true, List.all_eq_true] at hcov
    simp only [listenerKnowsLevels] at hk
    obtain ⟨w', hw⟩ := decidePreserveOnly_total (m := w) (left := left) (fun c hc => hcov.1 c (hsub c hc))
    obtain ⟨lv', hlv⟩ := decideLevelsOnRemoved_total (lv := lv) (left := left) (by
      cases lv with
      | coef _ _ _ => trivial
      | thresholds ts =>
        have h2 := hcov.2
        simp only [List.all_eq_true] at h2
        exact fun t ht c hc => h2 t ht c (hsub c hc))
    exact ⟨.aspect fn lv' seed w' rnd, by
      simp only [onRemoved, hk, hw, hlv, bind, Except.bind, pure, Except.pure, Bool.not_true, Bool.false_eq_true, if_false]⟩
  | satisf fn lv seed cur rnd =>
    simp only [Spec.C07.covers] at hcov
    simp only [listenerKnowsLevels] at hk
    obtain ⟨lv', hlv⟩ := decideLevelsOnRemoved_total (lv := lv) (left := left) (by
      cases lv with
      | coef _ _ _ => trivial
      | thresholds ts =>
        simp only [List.all_eq_true] at hcov
        exact fun t ht c hc => hcov t ht c (hsub c hc))
    exact ⟨.satisf fn lv' seed cur rnd, by
      simp only [onRemoved, hk, hlv, bind, Except.bind, pure, Except.pure, Bool.not_true, Bool.false_eq_true, if_false]⟩

theorem decidePreserveCriteria_total {alts : List (Alt α)} {kept : List (Crit α)}
    (h : ∀ a ∈ alts, ∀ c ∈ kept, a.vals.has c.id = true) : ∃ r, preserveCriteria alts kept = .ok r := by
  unfold preserveCriteria
  apply decideMapM_total
  intro a ha
  obtain ⟨vals, hv⟩ := decideMapM_total (f := fun c : Crit α => (do pure (c.id, ← a.raw c) : R (String × α)))
    (fun c hc => by
      obtain ⟨v, hv⟩ := decideRaw_total (h a ha c hc)
      exact ⟨(c.id, v), by simp only [hv, bind, Except.bind, pure, Except.pure]⟩)
  exact ⟨{ id := a.id, vals := vals }, by
    unfold Alt.withOnly
    simp only [hv]; rfl⟩

theorem decideOmit_total {c : SplitCond α} {ordered om kept : List (Crit α)} {cur : DMP α} (hc : Coherent cur)
    (hk : listenerKnowsLevels cur.mp = true) (hnc : notChoquet cur.mp = true)
    (hs : c.split ordered = .ok (om, kept)) (hsub : ∀ x ∈ kept, x ∈ cur.crit) :
    ∃ res, omitCriteria c ordered cur = .ok (res, om) := by
  obtain ⟨mp, hmp⟩ := decideOnRemoved_total (left := kept) hc.covers hsub hk hnc
  obtain ⟨co, hco⟩ := decidePreserveCriteria_total (alts := cur.co) (kept := kept)
    (fun a ha c hcm => hc.values a (List.mem_append_left _ ha) c (hsub c hcm))
  obtain ⟨nc, hnc'⟩ := decidePreserveCriteria_total (alts := cur.nc) (kept := kept)
    (fun a ha c hcm => hc.values a (List.mem_append_right _ ha) c (hsub c hcm))
  exact ⟨{ nc := nc, co := co, crit := kept, mp := mp }, by
    simp only [omitCriteria, hs, hmp, hco, hnc', bind, Except.bind, pure, Except.pure]⟩

/-! ### the deterministic orderings, for the listeners that rank by their own weights -/

/-- electreIII (weights `k`), majority and aspect elimination (their `weights`) -/
def ranksByOwnWeights : MParams α → Bool
  | .electre _ _ => true
  | .majority _ _ _ _ _ => true
  | .aspect _ _ _ _ _ => true
  | _ => false

theorem decideSortByWeights_total {cs : List (Crit α)} {w : KMap α} (h : ∀ c ∈ cs, w.has c.id = true) :
    ∃ r, sortByWeights cs w = .ok r := by
  obtain ⟨z, hz⟩ := decideMapM_total (f := fun c : Crit α => (do pure (⟨c, ← KMap.fetch w c.id⟩ : WCrit α) : R (WCrit α)))
    (fun c hc => by
      obtain ⟨v, hv⟩ := decideFetch_total (h c hc)
      exact ⟨⟨c, v⟩, by simp only [hv, bind, Except.bind, pure, Except.pure]⟩)
  exact ⟨sortWCrits z, by unfold sortByWeights; simp only [hz]; rfl⟩

theorem decideRankAsc_total {eps : α} {d : DMP α} (hcov : Spec.C07.covers d.crit d.mp = true)
    (hr : ranksByOwnWeights d.mp = true) : ∃ r, rankAsc eps d = .ok r := by
  unfold rankAsc
  cases hmp : d.mp with
  | ws wc => rw [hmp] at hr; simp [ranksByOwnWeights] at hr
  | owa wc => rw [hmp] at hr; simp [ranksByOwnWeights] at hr
  | choquet w cs => rw [hmp] at hr; simp [ranksByOwnWeights] at hr
  | satisf fn lv seed cur rnd => rw [hmp] at hr; simp [ranksByOwnWeights] at hr
  | electre ec dist =>
    rw [hmp] at hcov
    simp only [Spec.C07.covers, List.all_eq_true] at hcov
    apply decideSortByWeights_total
    intro c hc
    have := hcov c hc
    rw [KMap.has_iff_mem_keys] at this ⊢
    simpa [KMap.keys, List.map_map, Function.comp_def] using this
  | majority w cur seed rnd dr =>
    rw [hmp] at hcov
    simp only [Spec.C07.covers, List.all_eq_true] at hcov
    exact decideSortByWeights_total hcov
  | aspect fn lv seed w rnd =>
    rw [hmp] at hcov
    simp only [Spec.C07.covers, Bool.and_eq_true, List.all_eq_true] at hcov
    exact decideSortByWeights_total hcov.1

/-- the orderings that draw no random number -/
def deterministicOrdering (o : String) : Prop :=
  o = "" ∨ o = Facts.orderingWeakest ∨ o = Facts.orderingStrongest

theorem decideOrder_total {eps : α} {o : String} {d : DMP α} {dr : Draws α}
    (hcov : Spec.C07.covers d.crit d.mp = true) (hr : ranksByOwnWeights d.mp = true)
    (ho : deterministicOrdering o) : ∃ ordered, orderCriteria eps o d dr = .ok ordered := by
  obtain ⟨r, hrk⟩ := decideRankAsc_total (eps := eps) hcov hr
  rcases ho with rfl | rfl | rfl
  · rw [BiasA.orderCriteria_default, BiasA.orderCriteria_weakest, hrk]; exact ⟨_, rfl⟩
  · rw [BiasA.orderCriteria_weakest, hrk]; exact ⟨_, rfl⟩
  · rw [BiasA.orderCriteria_strongest, hrk]; exact ⟨_, rfl⟩

/-! ### the method (and its levels function) is never exchanged -/

/-- constructor and levels function of the parameters -/
def MParams.kind : MParams α → String × String
  | .ws _ => ("ws", "")
  | .owa _ => ("owa", "")
  | .choquet _ _ => ("choquet", "")
  | .electre _ _ => ("electre", "")
  | .majority _ _ _ _ _ => ("majority", "")
  | .aspect fn _ _ _ _ => ("aspect", fn)
  | .satisf fn _ _ _ _ => ("satisf", fn)

theorem decideOnRemoved_kind {mp mp' : MParams α} {left : List (Crit α)} (h : onRemoved mp left = .ok mp') :
    mp'.kind = mp.kind := by
  cases mp <;> simp only [onRemoved] at h <;>
    first
    | (obtain ⟨x, _, h⟩ := bind_eq_ok.mp h
       simp only [pure, Except.pure, Except.ok.injEq] at h; subst h; rfl)
    | (split at h
       · simp [throw, throwThe, MonadExceptOf.throw, bind, Except.bind] at h
       · simp only [pure, Except.pure, bind, Except.bind] at h
         split at h
         · cases h
         · first
           | (simp only [Except.ok.injEq] at h; subst h; rfl)
           | (split at h
              · cases h
              · simp only [Except.ok.injEq] at h; subst h; rfl))

theorem decideKind_ranks {mp mp' : MParams α} (h : mp'.kind = mp.kind) :
    ranksByOwnWeights mp' = ranksByOwnWeights mp ∧ listenerKnowsLevels mp' = listenerKnowsLevels mp ∧
      notChoquet mp' = notChoquet mp := by
  cases mp <;> cases mp' <;> simp [MParams.kind] at h <;>
    simp [ranksByOwnWeights, listenerKnowsLevels, notChoquet, h]

/-! ### one step and whole sequences of omission / reversal / fatigue -/

/-- an entry that cannot fail on a coherent state with at most `N` criteria of a method ranking by its own
    weights: fatigue with a registered function and a non-zero bounding scale; omission / reversal with a
    valid split condition whose pivot stays inside `[0, n]` for every `n ≤ N`, and a deterministic ordering -/
def TotalEntry (N : Nat) (b : Chosen α (BProps α)) : Prop :=
  (b.name = Facts.biasFatigue ∧ ∃ fn bd s, b.props = .fatigue fn bd s ∧ (∀ n, fn ≠ .unknown n) ∧
      (bd.scaling == Num.zero) = false) ∨
  ((b.name = Facts.biasOmission ∨ b.name = Facts.biasReversal) ∧ ∃ c o s, b.props = .split c o s ∧
      c.validate = .ok () ∧ deterministicOrdering o ∧ ∀ n ≤ N, 0 ≤ c.pivot n ∧ c.pivot n ≤ n)

theorem decideSplit_total {β : Type} {c : SplitCond α} {l : List β} (h0 : 0 ≤ c.pivot l.length)
    (h1 : c.pivot l.length ≤ l.length) : ∃ a b, c.split l = .ok (a, b) := by
  unfold SplitCond.split
  have : (decide (c.pivot l.length < 0) || decide ((l.length : Int) < c.pivot l.length)) = false := by
    simp only [Bool.or_eq_false_iff, decide_eq_false_iff_not, not_lt]
    exact ⟨h0, h1⟩
  simp only [this]
  exact ⟨_, _, rfl⟩

theorem decideApplyBias_fatigue_eq (exp : α → α) (g : Int → Draws α) (fn : FatigueFn α) (b : Bounding α) (s : Int)
    (orig cur : DMP α) :
    applyBias exp g Facts.biasFatigue (.fatigue fn b s) orig cur =
      (do let r ← fatigueApply exp fn b cur (g s); pure (r.1, .fatigue r.2)) := by
  unfold applyBias
  rw [if_neg (by decide), if_neg (by decide), if_pos (by decide)]

theorem decideApplyBias_omission_eq (exp : α → α) (g : Int → Draws α) (c : SplitCond α) (o : String) (s : Int)
    (orig cur : DMP α) :
    applyBias exp g Facts.biasOmission (.split c o s) orig cur =
      (do let r ← omissionApply choquetEpsOf c o cur (g s); pure (r.1, .omission r.2)) := by
  unfold applyBias
  rw [if_pos (by decide)]

theorem decideApplyBias_reversal_eq (exp : α → α) (g : Int → Draws α) (c : SplitCond α) (o : String) (s : Int)
    (orig cur : DMP α) :
    applyBias exp g Facts.biasReversal (.split c o s) orig cur =
      (do let r ← reversalApply choquetEpsOf c o cur (g s); pure (r.1, .reversal r.2)) := by
  unfold applyBias
  rw [if_neg (by decide), if_pos (by decide)]

theorem decideStep_total {exp : α → α} {g : Int → Draws α} {N : Nat} {b : Chosen α (BProps α)} {orig cur : DMP α}
    (hb : TotalEntry N b) (hc : Coherent cur) (hr : ranksByOwnWeights cur.mp = true)
    (hk : listenerKnowsLevels cur.mp = true) (hn : cur.crit.length ≤ N)
    (hg : ∀ k, (cur.co.length + cur.nc.length) * cur.crit.length ≤ (g k).length) :
    ∃ res rep, applyBias exp g b.name b.props orig cur = .ok (res, rep) := by
  have hnch : notChoquet cur.mp = true := by
    cases hmp : cur.mp <;> simp [hmp, ranksByOwnWeights, notChoquet] at hr ⊢
  rcases hb with ⟨hname, fn, bd, s, hp, hfn, hbd⟩ | ⟨hname, c, o, s, hp, hv, ho, hpiv⟩
  · rw [hname, hp, decideApplyBias_fatigue_eq]
    obtain ⟨res, rep, h⟩ := decideFatigue_total (exp := exp) (d := g s) hc hfn hbd (hg s)
    exact ⟨res, .fatigue rep, by rw [h]; rfl⟩
  · obtain ⟨ordered, hord⟩ := decideOrder_total (eps := (choquetEpsOf : α)) (o := o) (d := cur) (dr := g s) hc.covers hr ho
    have hperm := BiasA.orderCriteria_perm hord
    have hlen : ordered.length = cur.crit.length := hperm.length_eq
    obtain ⟨h0, h1⟩ := hpiv ordered.length (by omega)
    obtain ⟨l, r, hs⟩ := decideSplit_total (c := c) (l := ordered) h0 h1
    obtain ⟨_, _, hl, hrr⟩ := BiasA.split_ok hs
    have hsubl : ∀ x ∈ l, x ∈ cur.crit := fun x hx => hperm.mem_iff.mp (by rw [hl] at hx; exact List.mem_of_mem_take hx)
    have hsubr : ∀ x ∈ r, x ∈ cur.crit := fun x hx => hperm.mem_iff.mp (by rw [hrr] at hx; exact List.mem_of_mem_drop hx)
    rcases hname with hname | hname
    · rw [hname, hp, decideApplyBias_omission_eq]
      obtain ⟨res, hres⟩ := decideOmit_total (c := c) hc hk hnch hs hsubr
      refine ⟨res, .omission l, ?_⟩
      unfold omissionApply
      rw [hv, hord]
      simp only [bind, Except.bind, hres, pure, Except.pure]
    · rw [hname, hp, decideApplyBias_reversal_eq]
      obtain ⟨res, rep, hres⟩ := decideReverseSelected_total hc hsubl
      refine ⟨res, .reversal rep, ?_⟩
      unfold reversalApply
      rw [hv, hord]
      simp only [bind, Except.bind, hs, hres, pure, Except.pure]

/-- the step keeps the invariants of the sequence theorem -/
theorem decideStep_invariants {exp : α → α} {g : Int → Draws α} {N : Nat} {b : Chosen α (BProps α)}
    {orig cur res : DMP α} {rep : Report α} (hb : TotalEntry N b)
    (h : applyBias exp g b.name b.props orig cur = .ok (res, rep)) :
    res.mp.kind = cur.mp.kind ∧ res.crit.length ≤ cur.crit.length ∧
      res.co.length = cur.co.length ∧ res.nc.length = cur.nc.length := by
  obtain ⟨bn, bprob, bprops⟩ := b
  unfold TotalEntry at hb
  dsimp only at hb h
  obtain ⟨e1, e2⟩ := decideApplyBias_ids h
  have hl1 : res.co.length = cur.co.length := by simpa using congrArg List.length e1
  have hl2 : res.nc.length = cur.nc.length := by simpa using congrArg List.length e2
  have hperm := decideApplyBias_crit h
  refine ⟨?_, ?_, hl1, hl2⟩
  · cases decideApplyBias_inv h with
    | omission hb' =>
      obtain ⟨_, ordered, _, hc⟩ := BiasA.omissionApply_ok hb'
      obtain ⟨_, hmp, _, _⟩ := BiasA.omitCriteria_ok hc
      exact decideOnRemoved_kind hmp
    | reversal hb' =>
      obtain ⟨_, _, _, _, _, _, hr⟩ := BiasA.reversalApply_ok hb'
      obtain ⟨_, _, _, _, _, _, _, hmp, _⟩ := BiasA.reverseSelected_ok hr
      rw [hmp]
    | fatigue hb' =>
      unfold fatigueApply at hb'
      obtain ⟨f, _, hb'⟩ := bind_eq_ok.mp hb'
      obtain ⟨_, _, hmp, _⟩ := BiasA.fatigueBlur_ok hb'
      rw [hmp]
    | conceal hb' =>
      rcases hb with ⟨hname, _⟩ | ⟨hname | hname, _⟩ <;> exact absurd hname (by decide)
    | mixing hb' =>
      rcases hb with ⟨hname, _⟩ | ⟨hname | hname, _⟩ <;> exact absurd hname (by decide)
    | anchoring hb' =>
      rcases hb with ⟨hname, _⟩ | ⟨hname | hname, _⟩ <;> exact absurd hname (by decide)
  · have hadd : rep.addedIds = [] := by
      cases decideApplyBias_inv h with
      | omission _ => rfl
      | reversal _ => rfl
      | fatigue _ => rfl
      | conceal hb' =>
        rcases hb with ⟨hname, _⟩ | ⟨hname | hname, _⟩ <;> exact absurd hname (by decide)
      | mixing hb' =>
        rcases hb with ⟨hname, _⟩ | ⟨hname | hname, _⟩ <;> exact absurd hname (by decide)
      | anchoring hb' =>
        rcases hb with ⟨hname, _⟩ | ⟨hname | hname, _⟩ <;> exact absurd hname (by decide)
    rw [hadd, List.append_nil] at hperm
    have := hperm.length_eq
    simp only [List.length_append, List.length_map] at this
    omega

theorem decideTotalEntry_preserving {N : Nat} {b : Chosen α (BProps α)} {orig cur : DMP α} (hb : TotalEntry N b) :
    PreservingStep b.name b.props orig cur := by
  rcases hb with ⟨hname, _⟩ | ⟨hname | hname, _⟩
  · exact Or.inr (Or.inr (Or.inl hname))
  · exact Or.inl hname
  · exact Or.inr (Or.inl hname)

/-- **progress over a sequence**: omission / reversal / fatigue entries with valid props cannot make the
    pipeline fail on a coherent state of a method ranking by its own weights, when every stream prefix is
    long enough (one number per alternative and criterion for fatigue, one per bias for the activation) -/
theorem decideLoop_total {exp : α → α} {g : Int → Draws α} {orig : DMP α} {N : Nat} :
    ∀ (chosen : List (Chosen α (BProps α))) (cur : DMP α) (d : Draws α),
      (∀ b ∈ chosen, TotalEntry N b) → Coherent cur → ranksByOwnWeights cur.mp = true →
      listenerKnowsLevels cur.mp = true → cur.crit.length ≤ N → chosen.length ≤ d.length →
      (∀ k, (cur.co.length + cur.nc.length) * cur.crit.length ≤ (g k).length) →
      ∃ fin outs, processLoop (applyBias exp g) orig chosen cur d = .ok (fin, outs) := by
  intro chosen
  induction chosen with
  | nil => intro cur d _ _ _ _ _ _ _; exact ⟨cur, [], rfl⟩
  | cons b rest ih =>
    intro cur d hall hc hr hk hn hd hg
    obtain ⟨u, d', hu, hl⟩ := decideDraw_total (d := d) (by simp at hd; omega)
    have hrest : ∀ b' ∈ rest, TotalEntry N b' := fun b' hb' => hall b' (List.mem_cons_of_mem _ hb')
    have hd' : rest.length ≤ d'.length := by simp at hd; omega
    unfold processLoop
    simp only [hu, bind, Except.bind]
    by_cases hfire : u < b.prob
    · simp only [hfire, if_true]
      obtain ⟨next, rep, hstep⟩ := decideStep_total (exp := exp) (g := g) (orig := orig) (hall b (by simp)) hc hr hk hn hg
      obtain ⟨hkind, hcl, hco, hnc⟩ := decideStep_invariants (hall b (by simp)) hstep
      obtain ⟨k1, k2, _⟩ := decideKind_ranks hkind
      have hc' := decideApplyBias_coherent hstep hc (decideTotalEntry_preserving (hall b (by simp)))
      obtain ⟨fin, outs, hloop⟩ := ih next d' hrest hc' (by rw [k1]; exact hr) (by rw [k2]; exact hk)
        (by omega) hd' (fun k => by
          have := hg k
          rw [hco, hnc]
          exact Nat.le_trans (Nat.mul_le_mul_left _ hcl) this)
      exact ⟨fin, ⟨b.name, b.prob, some rep⟩ :: outs, by simp only [hstep, hloop, pure, Except.pure]⟩
    · simp only [hfire, if_false]
      obtain ⟨fin, outs, hloop⟩ := ih cur d' hrest hc hr hk hn hd' hg
      exact ⟨fin, ⟨b.name, b.prob, none⟩ :: outs, by simp only [hloop, pure, Except.pure]⟩

end Rdm
