/-
  Map-order independence, basic tools (C02).  A Go map is an association list `KMap β` in the model; "the
  Go result does not depend on the map iteration order" is "the model function gives the same result for
  every permutation of the association list (with distinct keys)".
  Here: lookups under permutation, the relation "same verdict" on results, `KMap.sorted` is canonical,
  and the lookup-only consumers (`fetch`, `raw`, `signed`, `preserveOnly`, `mergeDisjoint`, `valuesRange`).
-/
import Batteries.Data.List.Basic
import Rdm.Model.Listener
namespace Rdm
variable {α : Type} {β : Type}

/-! ### lookups -/

/-- under distinct keys a lookup finds exactly the entry of the key -/
theorem lookup_eq_some_iff_mem : ∀ (m : List (String × β)), (m.map Prod.fst).Nodup → ∀ k v,
    List.lookup k m = some v ↔ (k, v) ∈ m
  | [], _, k, v => by simp
  | (a, b) :: es, hnd, k, v => by
    rw [List.map_cons, List.nodup_cons] at hnd
    rw [List.lookup_cons]
    by_cases h : k = a
    · subst h
      simp only [beq_self_eq_true, Option.some.injEq, List.mem_cons, Prod.mk.injEq, true_and]
      constructor
      · intro e; exact Or.inl e.symm
      · rintro (e | hm)
        · exact e.symm
        · exact absurd (List.mem_map.mpr ⟨(k, v), hm, rfl⟩) hnd.1
    · have hb : (k == a) = false := by simpa using h
      simp only [hb, List.mem_cons, Prod.mk.injEq, h, false_and, false_or]
      exact lookup_eq_some_iff_mem es hnd.2 k v

/-- **the basic tool**: two listings of the same map (a permutation, distinct keys) have the same lookups -/
theorem lookup_perm_eq {m₁ m₂ : List (String × β)} (h : m₁.Perm m₂) (hk : (m₁.map Prod.fst).Nodup)
    (k : String) : List.lookup k m₁ = List.lookup k m₂ := by
  have hk₂ : (m₂.map Prod.fst).Nodup := (h.map Prod.fst).nodup_iff.mp hk
  apply Option.ext
  intro v
  rw [lookup_eq_some_iff_mem m₁ hk, lookup_eq_some_iff_mem m₂ hk₂]
  exact h.mem_iff

/-- two association lists are the same map when all their lookups agree -/
def KMap.LookupEq (m₁ m₂ : KMap β) : Prop := ∀ k, m₁.get? k = m₂.get? k

theorem KMap.LookupEq.refl (m : KMap β) : KMap.LookupEq m m := fun _ => rfl
theorem KMap.LookupEq.symm {m₁ m₂ : KMap β} (h : KMap.LookupEq m₁ m₂) : KMap.LookupEq m₂ m₁ :=
  fun k => (h k).symm
theorem KMap.LookupEq.trans {m₁ m₂ m₃ : KMap β} (h : KMap.LookupEq m₁ m₂) (h' : KMap.LookupEq m₂ m₃) :
    KMap.LookupEq m₁ m₃ := fun k => (h k).trans (h' k)

theorem KMap.LookupEq.of_perm {m₁ m₂ : KMap β} (h : m₁.Perm m₂) (hk : (m₁.map Prod.fst).Nodup) :
    KMap.LookupEq m₁ m₂ := fun k => lookup_perm_eq h hk k

theorem KMap.LookupEq.has {m₁ m₂ : KMap β} (h : KMap.LookupEq m₁ m₂) (k : String) : m₁.has k = m₂.has k := by
  have := h k
  unfold KMap.get? at this
  unfold KMap.has; rw [this]

/-! ### results: same verdict, related values -/

/-- both rejected (the wording of the message is free — C02 allows that), or both accepted with related values -/
def R.Agree {γ δ : Type} (rel : γ → δ → Prop) : R γ → R δ → Prop
  | .ok a, .ok b => rel a b
  | .error _, .error _ => True
  | _, _ => False

theorem R.Agree.of_eq {γ : Type} {rel : γ → γ → Prop} (hr : ∀ a, rel a a) {r₁ r₂ : R γ} (h : r₁ = r₂) :
    R.Agree rel r₁ r₂ := by
  subst h
  cases r₁ with
  | error e => trivial
  | ok a => exact hr a

theorem R.Agree.isOk_eq {γ δ : Type} {rel : γ → δ → Prop} {r₁ : R γ} {r₂ : R δ} (h : R.Agree rel r₁ r₂) :
    r₁.isOk = r₂.isOk := by
  cases r₁ <;> cases r₂ <;> first | rfl | exact absurd h (by simp [R.Agree])

theorem R.Agree.mono {γ δ : Type} {rel rel' : γ → δ → Prop} (hm : ∀ a b, rel a b → rel' a b)
    {r₁ : R γ} {r₂ : R δ} (h : R.Agree rel r₁ r₂) : R.Agree rel' r₁ r₂ := by
  cases r₁ <;> cases r₂ <;> first | trivial | exact hm _ _ h | exact absurd h (by simp [R.Agree])

theorem R.Agree.trans {γ : Type} {rel : γ → γ → Prop} (ht : ∀ a b c, rel a b → rel b c → rel a c)
    {r₁ r₂ r₃ : R γ} (h : R.Agree rel r₁ r₂) (h' : R.Agree rel r₂ r₃) : R.Agree rel r₁ r₃ := by
  cases r₁ <;> cases r₂ <;> cases r₃ <;>
    first | trivial | exact ht _ _ _ h h' | exact absurd h (by simp [R.Agree]) | exact absurd h' (by simp [R.Agree])

/-- bind respects agreement -/
theorem R.Agree.bind {γ δ γ' δ' : Type} {rel : γ → δ → Prop} {rel' : γ' → δ' → Prop}
    {r₁ : R γ} {r₂ : R δ} {k₁ : γ → R γ'} {k₂ : δ → R δ'}
    (h : R.Agree rel r₁ r₂) (hk : ∀ a b, rel a b → R.Agree rel' (k₁ a) (k₂ b)) :
    R.Agree rel' (r₁ >>= k₁) (r₂ >>= k₂) := by
  cases r₁ <;> cases r₂
  · trivial
  · exact absurd h (by simp [R.Agree])
  · exact absurd h (by simp [R.Agree])
  · exact hk _ _ h

/-! ### the canonical listing -/

/-- `KMap.sorted` (how maps are printed, and `Weights.AsKeyValue`) does not depend on the listing -/
theorem KMap.sorted_perm_eq {m₁ m₂ : KMap β} (h : m₁.Perm m₂) (hk : (m₁.map Prod.fst).Nodup) :
    m₁.sorted = m₂.sorted := by
  unfold KMap.sorted
  have htrans : ∀ a b c : String × β, decide (a.1 ≤ b.1) = true → decide (b.1 ≤ c.1) = true →
      decide (a.1 ≤ c.1) = true := by
    intro a b c h1 h2
    simp only [decide_eq_true_eq] at *
    exact String.le_trans h1 h2
  have htot : ∀ a b : String × β, (decide (a.1 ≤ b.1) || decide (b.1 ≤ a.1)) = true := by
    intro a b
    simp only [Bool.or_eq_true, decide_eq_true_eq]
    exact String.le_total a.1 b.1
  have p₁ := List.mergeSort_perm m₁ (fun a b => decide (a.1 ≤ b.1))
  have p₂ := List.mergeSort_perm m₂ (fun a b => decide (a.1 ≤ b.1))
  apply List.Perm.eq_of_pairwise (le := fun a b : String × β => decide (a.1 ≤ b.1) = true)
  · intro a b ha hb h1 h2
    simp only [decide_eq_true_eq] at h1 h2
    have hkey : a.1 = b.1 := String.le_antisymm h1 h2
    have ha' : a ∈ m₁ := p₁.mem_iff.mp ha
    have hb' : b ∈ m₁ := h.mem_iff.mpr (p₂.mem_iff.mp hb)
    obtain ⟨ak, av⟩ := a
    obtain ⟨bk, bv⟩ := b
    simp only at hkey
    subst hkey
    have e1 := (lookup_eq_some_iff_mem m₁ hk ak av).mpr ha'
    have e2 := (lookup_eq_some_iff_mem m₁ hk ak bv).mpr hb'
    rw [e1] at e2
    cases e2; rfl
  · exact List.pairwise_mergeSort htrans htot m₁
  · exact List.pairwise_mergeSort htrans htot m₂
  · exact p₁.trans (h.trans p₂.symm)

/-! ### consumers that only look keys up -/

variable [Num α]

omit [Num α] in
theorem KMap.LookupEq.fetch {m₁ m₂ : KMap α} (h : KMap.LookupEq m₁ m₂) (k : String) :
    KMap.fetch m₁ k = KMap.fetch m₂ k := by
  unfold KMap.fetch; rw [h k]

omit [Num α] in
/-- `getWeightForCriteriaUnion` only looks the canonical key up -/
theorem unionWeight_lookupEq {w w' : KMap α} (h : KMap.LookupEq w w') (s : List String) :
    unionWeight w s = unionWeight w' s := by
  unfold unionWeight; rw [h]

/-- the same alternative with its value map listed in another order -/
structure Alt.SameMap (a a' : Alt α) : Prop where
  id : a.id = a'.id
  perm : a.vals.Perm a'.vals
  distinct : (a.vals.map Prod.fst).Nodup

omit [Num α] in
theorem Alt.SameMap.refl (a : Alt α) (h : (a.vals.map Prod.fst).Nodup) : Alt.SameMap a a :=
  ⟨rfl, List.Perm.refl _, h⟩

omit [Num α] in
theorem Alt.SameMap.lookupEq {a a' : Alt α} (h : Alt.SameMap a a') : KMap.LookupEq a.vals a'.vals :=
  KMap.LookupEq.of_perm h.perm h.distinct

omit [Num α] in
theorem Alt.SameMap.raw {a a' : Alt α} (h : Alt.SameMap a a') (c : Crit α) : a.raw c = a'.raw c := by
  unfold Alt.raw; rw [h.lookupEq c.id, h.id]

theorem Alt.SameMap.signed {a a' : Alt α} (h : Alt.SameMap a a') (c : Crit α) : a.signed c = a'.signed c := by
  unfold Alt.signed; rw [h.raw c]

/-- `mapM` over related lists with pointwise equal functions -/
theorem mapM_forall₂_eq {γ δ ε : Type} {rel : γ → δ → Prop} {f : γ → R ε} {g : δ → R ε}
    (hfg : ∀ a b, rel a b → f a = g b) : ∀ {l₁ : List γ} {l₂ : List δ}, List.Forall₂ rel l₁ l₂ →
    l₁.mapM f = l₂.mapM g
  | _, _, .nil => rfl
  | _, _, .cons hab hrest => by
    rw [List.mapM_cons, List.mapM_cons, hfg _ _ hab, mapM_forall₂_eq hfg hrest]

theorem mapM_congr_fun {γ ε : Type} {f g : γ → R ε} (l : List γ) (hfg : ∀ a ∈ l, f a = g a) :
    l.mapM f = l.mapM g := by
  induction l with
  | nil => rfl
  | cons x xs ih =>
    rw [List.mapM_cons, List.mapM_cons, hfg x (by simp), ih (fun a ha => hfg a (by simp [ha]))]

/-- `CriteriaValuesRange` only looks the criterion up in every alternative -/
theorem valuesRange_sameMaps {alts alts' : List (Alt α)} (h : List.Forall₂ Alt.SameMap alts alts') (c : Crit α) :
    valuesRange alts c = valuesRange alts' c := by
  unfold valuesRange
  rw [mapM_forall₂_eq (f := fun a : Alt α => a.raw c) (g := fun a : Alt α => a.raw c)
    (fun a b hab => hab.raw c) h]

omit [Num α] in
/-- `Weights.PreserveOnly` only looks the left criteria up (in the order of the criteria slice) -/
theorem preserveOnly_lookupEq {m₁ m₂ : KMap α} (h : KMap.LookupEq m₁ m₂) (crits : List (Crit α)) :
    KMap.preserveOnly m₁ crits = KMap.preserveOnly m₂ crits := by
  unfold KMap.preserveOnly
  apply mapM_congr_fun
  intro c _
  rw [h.fetch]

/-! ### `Weights.Merge` -/

theorem any_perm_eq {γ : Type} {l₁ l₂ : List γ} (h : l₁.Perm l₂) (p : γ → Bool) : l₁.any p = l₂.any p := by
  rw [Bool.eq_iff_iff, List.any_eq_true, List.any_eq_true]
  exact ⟨fun ⟨x, hx, hp⟩ => ⟨x, h.mem_iff.mp hx, hp⟩, fun ⟨x, hx, hp⟩ => ⟨x, h.mem_iff.mpr hx, hp⟩⟩

theorem has_iff_mem_keys (m : KMap β) (k : String) : m.has k = true ↔ k ∈ m.map Prod.fst := by
  unfold KMap.has
  induction m with
  | nil => simp
  | cons e es ih =>
    obtain ⟨a, b⟩ := e
    rw [List.lookup_cons]
    by_cases h : k = a
    · subst h; simp
    · have hb : (k == a) = false := by simpa using h
      simp only [hb, List.map_cons, List.mem_cons, h, false_or]
      exact ih

/-- a successful merge has distinct keys when both inputs have -/
theorem mergeDisjoint_ok_distinct {m other r : KMap β} (h : KMap.mergeDisjoint m other = .ok r)
    (hm : (m.map Prod.fst).Nodup) (ho : (other.map Prod.fst).Nodup) :
    r = m ++ other ∧ (r.map Prod.fst).Nodup := by
  unfold KMap.mergeDisjoint at h
  split at h
  · simp [throw, throwThe, MonadExceptOf.throw] at h
  · rename_i hany
    simp only [pure, Except.pure, Except.ok.injEq] at h
    subst h
    refine ⟨rfl, ?_⟩
    rw [List.map_append, List.nodup_append]
    refine ⟨hm, ho, ?_⟩
    intro a ha b hb e
    subst e
    apply hany
    rw [List.any_eq_true]
    obtain ⟨p, hp, rfl⟩ := List.mem_map.mp hb
    exact ⟨p, hp, (has_iff_mem_keys m p.1).mpr ha⟩

/-- `Weights.Merge` (and the ELECTRE listener's `Merge`, `WithCriterion`): the verdict — and even the
    message — is the same for every listing of the two maps; the union is a listing of the same map -/
theorem mergeDisjoint_perm {m₁ m₂ o₁ o₂ : KMap β} (hm : m₁.Perm m₂) (hmk : (m₁.map Prod.fst).Nodup)
    (ho : o₁.Perm o₂) :
    (∀ e, KMap.mergeDisjoint m₁ o₁ = .error e ↔ KMap.mergeDisjoint m₂ o₂ = .error e) ∧
    (∀ r₁, KMap.mergeDisjoint m₁ o₁ = .ok r₁ →
      ∃ r₂, KMap.mergeDisjoint m₂ o₂ = .ok r₂ ∧ r₁.Perm r₂) := by
  have hany : o₁.any (fun p => m₁.has p.1) = o₂.any (fun p => m₂.has p.1) := by
    rw [any_perm_eq ho]
    congr 1
    funext p
    exact (KMap.LookupEq.of_perm hm hmk).has p.1
  unfold KMap.mergeDisjoint
  rw [hany]
  split
  · simp [throw, throwThe, MonadExceptOf.throw]
  · simp only [pure, Except.pure, Except.ok.injEq, reduceCtorEq, implies_true, true_and, iff_self]
    intro r₁ e
    subst e
    exact ⟨_, rfl, hm.append ho⟩

end Rdm
