/-
  The spec checker of C16 (`Spec.C16.check`, evaluated by the driver on the implementation's output)
  accepts the model's output: one lemma per clause (`c16spec_selectedOk`, `c16spec_rangesOk`,
  `c16spec_valuesOk`, `c16spec_frameOk`, `c16spec_rangePreservedOk`) and the assembly `c16spec_check`.
-/
import Rdm.Lemmas.BiasARange
import Rdm.Lemmas.BiasAFatigueSpec
import Rdm.Spec.C16
set_option linter.unusedSectionVars false
set_option linter.unusedSimpArgs false
open Rdm
namespace Rdm.BiasA
variable {α : Type} [Num α]

/-! ### generic list facts -/

theorem c16spec_forall₂_mem_left {β γ : Type} {R : β → γ → Prop} {l : List β} {r : List γ}
    (h : List.Forall₂ R l r) : ∀ x ∈ l, ∃ y ∈ r, R x y := by
  induction h with
  | nil => intro x hx; cases hx
  | cons hxy _ ih =>
    intro x hx
    rcases List.mem_cons.1 hx with rfl | hx
    · exact ⟨_, List.mem_cons_self, hxy⟩
    · obtain ⟨y, hy, hr⟩ := ih x hx
      exact ⟨y, List.mem_cons_of_mem _ hy, hr⟩

theorem c16spec_nodupStr {l : List String} (h : l.Nodup) : Spec.C15.nodupStr l = true := by
  induction l with
  | nil => rfl
  | cons x xs ih =>
    rw [List.nodup_cons] at h
    unfold Spec.C15.nodupStr
    rw [Bool.and_eq_true, Bool.not_eq_true', ih h.2]
    refine ⟨?_, rfl⟩
    cases hc : xs.contains x
    · rfl
    · exact absurd (List.contains_iff_mem.1 hc) h.1

/-- a duplicate-free list holds the same strings as itself -/
theorem c16spec_sameIds_self {l : List String} (h : l.Nodup) : Spec.C15.sameIds l l = true := by
  unfold Spec.C15.sameIds
  simp only [c16spec_nodupStr h, beq_self_eq_true, Bool.true_and, List.all_eq_true]
  intro x hx
  exact List.contains_iff_mem.2 hx

/-- with distinct keys every entry of an association list is the one `lookup` finds -/
theorem c16spec_lookup_of_mem {β : Type} {m : List (String × β)} (hnd : (m.map Prod.fst).Nodup)
    {k : String} {v : β} (h : (k, v) ∈ m) : List.lookup k m = some v := by
  induction m with
  | nil => cases h
  | cons p m ih =>
    simp only [List.map_cons, List.nodup_cons] at hnd
    rw [lookup_cons_ite]
    rcases List.mem_cons.1 h with rfl | h'
    · simp
    · have hne : k ≠ p.1 := by
        intro e
        exact hnd.1 (e ▸ List.mem_map_of_mem (f := Prod.fst) h')
      rw [if_neg hne]
      exact ih hnd.2 h'

/-! ### the tolerance clause holds with slack 0 -/

theorem c16spec_absR_nonneg (x : Rat) : 0 ≤ Spec.C15.absR x := by
  rw [absR_eq_abs]; exact abs_nonneg x

theorem c16spec_close_self (e : Rat) {s : Rat} (hs : 0 ≤ s) : Spec.C16.close e e s = true := by
  unfold Spec.C16.close
  rw [decide_eq_true_eq, sub_self, absR_eq_abs, abs_zero]
  exact mul_nonneg tol_pos.le hs

/-! ### the model's `CriteriaValuesRange` and the spec's `observedRange` -/

theorem c16spec_minmax_eq_mmStep :
    (fun (acc : Rat × Rat) (x : Rat) => (min acc.1 x, max acc.2 x)) = mmStep := by
  funext acc x
  unfold mmStep
  rw [min_def, max_def]
  ext <;> simp only <;> split_ifs <;> linarith

theorem c16spec_mapM_get? {c : Crit Rat} : ∀ {alts : List (Alt Rat)} {vs : List Rat},
    alts.mapM (·.raw c) = .ok vs → alts.mapM (fun a => a.vals.get? c.id) = some vs := by
  intro alts vs h
  have hf := mapM_ok_forall₂ h
  clear h
  induction hf with
  | nil => rfl
  | @cons a v l r hav _ ih =>
    rw [List.mapM_cons, raw_ok.1 hav, ih]
    rfl

/-- for an undeclared range and at least one alternative, the spec's observed range is the range the
    model computes -/
theorem c16spec_observedRange {alts : List (Alt Rat)} {c : Crit Rat} {r : Rat × Rat}
    (hc : c.range = none) (hne : alts ≠ []) (h : valuesRange alts c = .ok r) :
    Spec.C16.observedRange alts c.id = some r := by
  rw [valuesRange_none hc, bind_ok] at h
  obtain ⟨vs, hvs, h⟩ := h
  rw [pure_ok] at h
  unfold Spec.C16.observedRange
  rw [c16spec_mapM_get? hvs]
  cases vs with
  | nil =>
    have := (mapM_ok_forall₂ hvs).length_eq
    simp only [List.length_nil, List.length_eq_zero_iff] at this
    exact absurd this hne
  | cons v rest =>
    simp only at h ⊢
    rw [c16spec_minmax_eq_mmStep, h]

/-- the declared-or-observed range of the spec is the range the model reports -/
theorem c16spec_expectedRange {alts : List (Alt Rat)} {c : Crit Rat} {r : Rat × Rat}
    (hne : alts ≠ []) (h : valuesRange alts c = .ok r) : Spec.C16.expectedRange alts c = some r := by
  unfold Spec.C16.expectedRange
  cases hc : c.range with
  | some r0 =>
    rw [valuesRange_some hc] at h
    cases h
    rfl
  | none => exact c16spec_observedRange hc hne h

/-- the criterion a report entry names is found by id among the declared criteria -/
theorem c16spec_find_crit {crit : List (Crit Rat)} (hnd : (crit.map (·.id)).Nodup) {c : Crit Rat}
    (hc : c ∈ crit) {id : String} (hid : id = c.id) : crit.find? (fun x => x.id == id) = some c := by
  subst hid
  exact find?_of_nodup (key := fun y : Crit Rat => y.id) hnd hc

/-! ### clause 1: the selected criteria are the first `k` of the ordering -/

theorem c16spec_selectedOk {c : SplitCond Rat} {ordered sel rest : List (Crit Rat)}
    {rep : List (Reversed Rat)} (hv : c.validate = .ok ()) (hs : c.split ordered = .ok (sel, rest))
    (hids : rep.map (·.id) = sel.map (·.id)) : Spec.C16.selectedOk c ordered rep = true := by
  obtain ⟨h0, _, hsel, _⟩ := split_ok hs
  have hcount := split_countOk hv hs
  unfold Spec.C15.countOk at hcount
  rw [split_length hs, List.contains_iff_mem] at hcount
  unfold Spec.C16.selectedOk
  rw [List.any_eq_true]
  refine ⟨c.pivot ordered.length, hcount, ?_⟩
  rw [Bool.and_eq_true, decide_eq_true_eq, beq_iff_eq]
  exact ⟨h0, by rw [hids, hsel]⟩

/-! ### clause 2: the report carries the type and the declared-or-observed range -/

theorem c16spec_rangesOk {toRev : List (Crit Rat × (Rat × Rat))} {cur : DMP Rat} {news : List (Alt Rat)}
    {rep : List (Reversed Rat)} (hnd : (cur.crit.map (·.id)).Nodup)
    (hmem : ∀ cr ∈ toRev, cr.1 ∈ cur.crit)
    (hr : ∀ cr ∈ toRev, valuesRange cur.all cr.1 = .ok cr.2)
    (hne : rep ≠ [] → cur.all ≠ [])
    (hf : List.Forall₂ (ReportEntryOk news) toRev rep) : Spec.C16.rangesOk cur rep = true := by
  unfold Spec.C16.rangesOk
  rw [List.all_eq_true]
  intro r hrm
  obtain ⟨cr, hcr, hid, hty, hrg, _⟩ := forall₂_mem_right hf r hrm
  rw [c16spec_find_crit hnd (hmem cr hcr) hid]
  simp only
  rw [c16spec_expectedRange (hne (List.ne_nil_of_mem hrm)) (hr cr hcr), hty, hrg]
  simp

/-! ### clause 3: every known alternative holds and reports `hi + lo − v` -/

/-- the value map of a report entry, looked up by alternative id -/
theorem c16spec_report_lookup {k : String} : ∀ {news : List (Alt α)} {vals : KMap α},
    List.Forall₂ (fun (a' : Alt α) (p : String × α) => p.1 = a'.id ∧ a'.vals.get? k = some p.2) news vals →
    (news.map (·.id)).Nodup → ∀ b ∈ news, ∃ nv, vals.get? b.id = some nv ∧ b.vals.get? k = some nv := by
  intro news vals h
  induction h with
  | nil => intro _ b hb; cases hb
  | @cons a' p l r hap _ ih =>
    intro hnd b hb
    simp only [List.map_cons, List.nodup_cons] at hnd
    obtain ⟨pk, pv⟩ := p
    simp only at hap
    rcases List.mem_cons.1 hb with rfl | hb'
    · refine ⟨pv, ?_, hap.2⟩
      simp only [KMap.get?]
      rw [lookup_cons_ite, if_pos hap.1.symm]
    · obtain ⟨nv, h1, h2⟩ := ih hnd.2 b hb'
      refine ⟨nv, ?_, h2⟩
      have hne : b.id ≠ pk := by
        intro e
        rw [hap.1] at e
        exact hnd.1 (e ▸ List.mem_map_of_mem (f := fun x : Alt α => x.id) hb')
      simp only [KMap.get?] at h1 ⊢
      rw [lookup_cons_ite, if_neg hne]
      exact h1

theorem c16spec_valuesOk {toRev : List (Crit Rat × (Rat × Rat))} {cur res : DMP Rat}
    {rep : List (Reversed Rat)} (ha : (cur.all.map (·.id)).Nodup)
    (hall : List.Forall₂ (Mirrored toRev) cur.all res.all)
    (hf : List.Forall₂ (ReportEntryOk res.all) toRev rep) : Spec.C16.valuesOk cur res rep = true := by
  unfold Spec.C16.valuesOk
  rw [List.all_eq_true]
  intro r hrm
  obtain ⟨cr, hcr, hid, _, hrg, hvals⟩ := forall₂_mem_right hf r hrm
  have hids : res.all.map (·.id) = cur.all.map (·.id) := forall₂_map_map (fun a b h => h.1) hall
  have ha' : (res.all.map (·.id)).Nodup := by rw [hids]; exact ha
  have hkeys : r.vals.keys = res.all.map (·.id) := by
    unfold KMap.keys
    exact forall₂_map_map (R := fun (a' : Alt Rat) (p : String × Rat) =>
      p.1 = a'.id ∧ a'.vals.get? cr.1.id = some p.2) (fun a' p h => h.1) hvals
  rw [Bool.and_eq_true]
  refine ⟨?_, ?_⟩
  · rw [hkeys, hids]
    exact c16spec_sameIds_self ha
  · rw [List.all_eq_true]
    intro a haa
    obtain ⟨b, hb, hm⟩ := c16spec_forall₂_mem_left hall a haa
    obtain ⟨v, hv, hv'⟩ := hm.2.2.2 cr hcr
    obtain ⟨nv, hnv, hbnv⟩ := c16spec_report_lookup hvals ha' b hb
    have hfind : res.all.find? (fun y => y.id == a.id) = some b := by
      have := find?_of_nodup (key := fun y : Alt Rat => y.id) ha' hb
      simp only [hm.1] at this
      exact this
    have hnv2 : nv = reverseValue cr.2 v := by
      rw [hv'] at hbnv
      exact (Option.some.inj hbnv).symm
    rw [hm.1] at hnv
    rw [hid, hv, hnv, hfind]
    simp only
    rw [hbnv, hrg, Bool.and_eq_true]
    refine ⟨?_, by simp⟩
    have : nv = cr.2.2 + cr.2.1 - v := by
      rw [hnv2]; unfold reverseValue; ring
    rw [this]
    exact c16spec_close_self _ (add_nonneg (add_nonneg (c16spec_absR_nonneg _) (c16spec_absR_nonneg _))
      (c16spec_absR_nonneg _))

/-! ### clause 4: frame -/

theorem c16spec_altsFrameOk {toRev : List (Crit Rat × (Rat × Rat))} {selected : List String}
    (hsel : selected = toRev.map (·.1.id)) {before after : List (Alt Rat)}
    (hk : ∀ a ∈ before, a.vals.keys.Nodup) (h : List.Forall₂ (Mirrored toRev) before after) :
    Spec.C16.altsFrameOk selected before after = true := by
  unfold Spec.C16.altsFrameOk
  rw [Bool.and_eq_true, beq_iff_eq, List.all_eq_true]
  refine ⟨h.length_eq, ?_⟩
  rintro ⟨a, b⟩ hab
  have hm : Mirrored toRev a b := (List.forall₂_iff_zip.1 h).2 hab
  have hnd := hk a (List.of_mem_zip hab).1
  simp only [Bool.and_eq_true, beq_iff_eq, List.all_eq_true]
  refine ⟨⟨hm.1.symm, ?_⟩, ?_⟩
  · rw [hm.2.1]
    exact c16spec_sameIds_self hnd
  · rintro ⟨k, v⟩ hkv
    simp only [Bool.or_eq_true, beq_iff_eq]
    by_cases hks : k ∈ selected
    · exact Or.inl (List.contains_iff_mem.2 hks)
    · right
      rw [hsel] at hks
      rw [hm.2.2.1 k hks]
      exact c16spec_lookup_of_mem hnd hkv

theorem c16spec_frameOk {toRev : List (Crit Rat × (Rat × Rat))} {cur res : DMP Rat}
    {rep : List (Reversed Rat)} (hsel : rep.map (·.id) = toRev.map (·.1.id))
    (hk : ∀ a ∈ cur.all, a.vals.keys.Nodup) (hc : res.crit = cur.crit) (hm : res.mp = cur.mp)
    (hco : List.Forall₂ (Mirrored toRev) cur.co res.co)
    (hnc : List.Forall₂ (Mirrored toRev) cur.nc res.nc) : Spec.C16.frameOk cur res rep = true := by
  unfold Spec.C16.frameOk
  rw [hc, hm, critsSame_refl,
    c16spec_altsFrameOk hsel (fun a h => hk a (List.mem_append_left _ h)) hco,
    c16spec_altsFrameOk hsel (fun a h => hk a (List.mem_append_right _ h)) hnc]
  simp

/-! ### clause 5: the observed range of a mirrored criterion is preserved -/

theorem c16spec_rangePreservedOk {toRev : List (Crit Rat × (Rat × Rat))} {cur res : DMP Rat}
    {news : List (Alt Rat)} {rep : List (Reversed Rat)} (hnd : (cur.crit.map (·.id)).Nodup)
    (hmem : ∀ cr ∈ toRev, cr.1 ∈ cur.crit)
    (hr : ∀ cr ∈ toRev, valuesRange cur.all cr.1 = .ok cr.2)
    (hne : rep ≠ [] → cur.all ≠ [])
    (hall : List.Forall₂ (Mirrored toRev) cur.all res.all)
    (hf : List.Forall₂ (ReportEntryOk news) toRev rep) : Spec.C16.rangePreservedOk cur res rep = true := by
  unfold Spec.C16.rangePreservedOk
  rw [List.all_eq_true]
  intro r hrm
  obtain ⟨cr, hcr, hid, _, hrg, _⟩ := forall₂_mem_right hf r hrm
  rw [c16spec_find_crit hnd (hmem cr hcr) hid]
  simp only
  cases hrange : cr.1.range with
  | some _ => rfl
  | none =>
    simp only
    have hne' : res.all ≠ [] := by
      intro e
      have hl := hall.length_eq
      rw [e, List.length_nil, List.length_eq_zero_iff] at hl
      exact hne (List.ne_nil_of_mem hrm) hl
    have := c16spec_observedRange hrange hne' (valuesRange_mirrored hcr hall (hr cr hcr))
    rw [hid, this, hrg]
    simp only
    have hs : 0 ≤ Spec.C15.absR cr.2.1 + Spec.C15.absR cr.2.2 :=
      add_nonneg (c16spec_absR_nonneg _) (c16spec_absR_nonneg _)
    rw [c16spec_close_self _ hs, c16spec_close_self _ hs]
    rfl

/-! ### assembly -/

/-- everything the clause lemmas need, extracted from a successful run of `reversalApply` -/
theorem c16spec_decomp {eps : α} {c : SplitCond α} {name : String} {cur res : DMP α} {d : Draws α}
    {rep : List (Reversed α)} {ordered : List (Crit α)}
    (h : reversalApply eps c name cur d = .ok (res, rep))
    (ho : orderCriteria eps name cur d = .ok ordered)
    (hc : (cur.crit.map (·.id)).Nodup) (ha : (cur.all.map (·.id)).Nodup) :
    c.validate = .ok () ∧ ∃ sel rest toRev, c.split ordered = .ok (sel, rest) ∧
      toRev.map (·.1) = sel ∧ (toRev.map (·.1.id)).Nodup ∧ (∀ cr ∈ toRev, cr.1 ∈ cur.crit) ∧
      (∀ cr ∈ toRev, valuesRange cur.all cr.1 = .ok cr.2) ∧
      List.Forall₂ (ReportEntryOk res.all) toRev rep ∧
      List.Forall₂ (Mirrored toRev) cur.co res.co ∧ List.Forall₂ (Mirrored toRev) cur.nc res.nc ∧
      res.crit = cur.crit ∧ res.mp = cur.mp := by
  obtain ⟨hv, ordered', sel, rest, ho', hs, hr⟩ := reversalApply_ok h
  rw [ho] at ho'
  cases ho'
  have hp := orderCriteria_perm ho
  have hsel : (sel.map (·.id)).Nodup := by
    have hnd : (ordered.map (·.id)).Nodup := (hp.map _).nodup_iff.2 hc
    rw [← split_append hs, List.map_append] at hnd
    exact (List.nodup_append.1 hnd).1
  obtain ⟨toRev, resl, ht, hm, hresall, hrep⟩ := reverseSelected_all hr ha
  obtain ⟨_, _, ht', hm', hnc, hco, hcrit, hmp, _⟩ := reverseSelected_ok hr
  rw [ht] at ht'
  cases ht'
  rw [hm] at hm'
  cases hm'
  obtain ⟨h1, h2⟩ := criteriaToReverse_ok ht
  have hnd : (toRev.map (·.1.id)).Nodup := by
    rw [← h1, List.map_map] at hsel; exact hsel
  refine ⟨hv, sel, rest, toRev, hs, h1, hnd, ?_, h2, ?_,
    updated_mirrored hnd ha (fun a h => List.mem_append_left _ h) hm hco,
    updated_mirrored hnd ha (fun a h => List.mem_append_right _ h) hm hnc, hcrit, hmp⟩
  · intro cr hcr
    have : cr.1 ∈ sel := by rw [← h1]; exact List.mem_map_of_mem hcr
    rw [← split_append hs] at hp
    exact hp.mem_iff.1 (List.mem_append_left _ this)
  · rw [hresall, hrep]
    exact reversalReport_values hnd (mapM_ok_forall₂ hm)

/-- **the spec checker accepts the model's output** -/
theorem c16spec_check {eps : Rat} {c : SplitCond Rat} {name : String} {cur res : DMP Rat} {d : Draws Rat}
    {rep : List (Reversed Rat)} {ordered : List (Crit Rat)}
    (h : reversalApply eps c name cur d = .ok (res, rep))
    (ho : orderCriteria eps name cur d = .ok ordered)
    (hc : (cur.crit.map (·.id)).Nodup) (ha : (cur.all.map (·.id)).Nodup)
    (hk : ∀ a ∈ cur.all, a.vals.keys.Nodup) (hne : rep ≠ [] → cur.all ≠ []) :
    Spec.C16.check c ordered cur res rep = true := by
  obtain ⟨hv, sel, rest, toRev, hs, h1, hnd, hmem, hr, hf, hco, hnc, hcrit, hmp⟩ :=
    c16spec_decomp h ho hc ha
  have hall : List.Forall₂ (Mirrored toRev) cur.all res.all := forall₂_append hco hnc
  have hids : rep.map (·.id) = toRev.map (·.1.id) :=
    forall₂_map_map (R := ReportEntryOk res.all) (fun cr r h => h.1) hf
  have hids' : rep.map (·.id) = sel.map (·.id) := by rw [hids, ← h1, List.map_map]; rfl
  unfold Spec.C16.check
  rw [c16spec_selectedOk hv hs hids', c16spec_rangesOk hc hmem hr hne hf, c16spec_valuesOk ha hall hf,
    c16spec_frameOk hids hk hcrit hmp hco hnc, c16spec_rangePreservedOk hc hmem hr hne hall hf]
  rfl

theorem c16spec_explain_of_check {c : SplitCond Rat} {ordered : List (Crit Rat)} {cur res : DMP Rat}
    {rep : List (Reversed Rat)} (h : Spec.C16.check c ordered cur res rep = true) :
    Spec.C16.explain c ordered cur res rep = "ok" := by
  unfold Spec.C16.check at h
  simp only [Bool.and_eq_true] at h
  obtain ⟨⟨⟨⟨h1, h2⟩, h3⟩, h4⟩, h5⟩ := h
  unfold Spec.C16.explain
  rw [h1, h2, h3, h4, h5]
  rfl

/-- example state of Props/C16: two considered and one not considered alternative, an undeclared and a declared range -/
def c16spec_exState : DMP Rat :=
  { co := [⟨"a", [("c1", 1), ("c2", 5)]⟩, ⟨"b", [("c1", 3), ("c2", 4)]⟩],
    nc := [⟨"x", [("c1", 2), ("c2", 7)]⟩],
    crit := [⟨"c1", "gain", none⟩, ⟨"c2", "cost", some (0, 10)⟩],
    mp := .majority [("c1", 1), ("c2", 2)] "" 0 false "" }
def c16spec_exCond : SplitCond Rat := ⟨1/2, 0, maxInt64⟩

end Rdm.BiasA
