/-
  Lemmas about the satisfaction heuristic of Model/Heuristics.lean (generic in the number type):
  inversion of `satAltLoop` / `satLevelLoop`, permutation, acceptance semantics.
-/
import Rdm.Model.Heuristics
import Rdm.Lemmas.HeurList
import Mathlib.Data.List.Perm.Basic
set_option linter.unusedSectionVars false
set_option linter.unusedSimpArgs false
namespace Rdm
variable {α : Type} [Num α]

/-- the alternative meets the thresholds on every criterion -/
def GoodAt (a : Alt α) (th : List (WCrit α)) : Prop := isGoodEnough a th = Except.ok true
/-- the alternative is below the threshold on some criterion -/
def BadAt (a : Alt α) (th : List (WCrit α)) : Prop := isGoodEnough a th = Except.ok false

theorem satAltLoop_nil (idx : Nat) (t : KMap α) (th : List (WCrit α)) (temp : List (Alt α)) :
    satAltLoop idx t th [] temp = Except.ok (temp, []) := rfl

/-- inversion of one iteration -/
theorem satAltLoop_cons_ok {idx : Nat} {t : KMap α} {th : List (WCrit α)} {a : Alt α} {rest temp t2 : List (Alt α)}
    {e : List (SatRes α)} (h : satAltLoop idx t th (a :: rest) temp = Except.ok (t2, e)) :
    ∃ good e2, isGoodEnough a th = Except.ok good ∧
      satAltLoop idx t th rest (if good then removeAlt temp a.id else temp) = Except.ok (t2, e2) ∧
      e = (if good then [(a.id, (⟨idx, t⟩ : SatEval α))] else []) ++ e2 := by
  unfold satAltLoop at h
  obtain ⟨good, hg, h⟩ := R.bind_eq_ok h
  obtain ⟨⟨t2', e2⟩, hr, h⟩ := R.bind_eq_ok h
  simp at h
  refine ⟨good, e2, hg, ?_, ?_⟩
  · rw [hr, h.1]
  · cases good <;> simp_all

/-- what one pass over the remaining alternatives does -/
theorem satAltLoop_spec {idx : Nat} {t : KMap α} {th : List (WCrit α)} :
    ∀ {rest temp t2 : List (Alt α)} {e : List (SatRes α)},
      (rest.map (·.id)).Nodup → (∀ a ∈ rest, a.id ∈ temp.map (·.id)) →
      satAltLoop idx t th rest temp = Except.ok (t2, e) →
      (e.map (·.1) ++ t2.map (·.id)).Perm (temp.map (·.id)) ∧ t2.Sublist temp ∧
      (e.map (·.1)).Sublist (rest.map (·.id)) ∧ (∀ p ∈ e, p.2.idx = idx ∧ p.2.thr = t) ∧
      (∀ a ∈ rest, (GoodAt a th ∧ a.id ∈ e.map (·.1)) ∨ (BadAt a th ∧ a.id ∉ e.map (·.1))) := by
  intro rest
  induction rest with
  | nil =>
    intro temp t2 e _ _ h
    rw [satAltLoop_nil] at h
    simp at h
    obtain ⟨rfl, rfl⟩ := h
    simp
  | cons a rest ih =>
    intro temp t2 e hnd hsub h
    obtain ⟨good, e2, hg, hr, rfl⟩ := satAltLoop_cons_ok h
    have hnd' : (rest.map (·.id)).Nodup := (List.nodup_cons.mp (by simpa using hnd)).2
    have hanot : a.id ∉ rest.map (·.id) := (List.nodup_cons.mp (by simpa using hnd)).1
    have hain : a.id ∈ temp.map (·.id) := hsub a (by simp)
    cases good with
    | false =>
      simp only [Bool.false_eq_true, if_false, List.nil_append] at hr ⊢
      obtain ⟨h1, h2, h3, h4, h5⟩ := ih hnd' (fun x hx => hsub x (by simp [hx])) hr
      refine ⟨h1, h2, h3.trans (List.sublist_cons_self _ _), h4, ?_⟩
      intro x hx
      rcases List.mem_cons.mp hx with rfl | hx
      · right; exact ⟨hg, fun hm => hanot (h3.subset hm)⟩
      · exact h5 x hx
    | true =>
      simp only [if_true] at hr ⊢
      have hsub' : ∀ x ∈ rest, x.id ∈ (removeAlt temp a.id).map (·.id) := by
        intro x hx
        rw [removeAlt_ids]
        have hne : x.id ≠ a.id := fun e => hanot (e ▸ List.mem_map.mpr ⟨x, hx, rfl⟩)
        exact (List.mem_erase_of_ne hne).mpr (hsub x (by simp [hx]))
      obtain ⟨h1, h2, h3, h4, h5⟩ := ih hnd' hsub' hr
      refine ⟨?_, h2.trans (removeAlt_sublist _ _), ?_, ?_, ?_⟩
      · simp only [List.map_cons, List.singleton_append, List.cons_append]
        exact (List.Perm.cons a.id h1).trans (removeAlt_perm temp a.id hain).symm
      · simpa using h3.cons_cons a.id
      · intro p hp
        rcases List.mem_cons.mp (by simpa using hp) with rfl | hp
        · simp
        · exact h4 p hp
      · intro x hx
        rcases List.mem_cons.mp hx with rfl | hx
        · left; exact ⟨hg, by simp⟩
        · rcases h5 x hx with ⟨g, m⟩ | ⟨b, m⟩
          · left; exact ⟨g, by simp [m]⟩
          · right
            refine ⟨b, ?_⟩
            have hne : x.id ≠ a.id := fun e => hanot (e ▸ List.mem_map.mpr ⟨x, hx, rfl⟩)
            simpa [hne] using m

/-! ### the level loop -/

theorem satLevelLoop_nil (crits : List (Crit α)) (idx : Nat) (left : List (Alt α)) :
    satLevelLoop crits idx [] left = Except.ok (left, [], idx) := rfl

/-- inversion of one level -/
theorem satLevelLoop_cons_ok {crits : List (Crit α)} {idx : Nat} {t : KMap α} {ts : List (KMap α)}
    {left l2 : List (Alt α)} {acc : List (SatRes α)} {si : Nat}
    (h : satLevelLoop crits idx (t :: ts) left = Except.ok (l2, acc, si)) :
    ∃ th l1 e1, zipWithWeights crits t = Except.ok th ∧ satAltLoop idx t th left left = Except.ok (l1, e1) ∧
      ((l1 = [] ∧ l2 = [] ∧ acc = e1 ∧ si = idx + 1) ∨
       (l1 ≠ [] ∧ ∃ e2, satLevelLoop crits (idx + 1) ts l1 = Except.ok (l2, e2, si) ∧ acc = e1 ++ e2)) := by
  unfold satLevelLoop at h
  obtain ⟨th, hth, h⟩ := R.bind_eq_ok h
  obtain ⟨⟨l1, e1⟩, h1, h⟩ := R.bind_eq_ok h
  refine ⟨th, l1, e1, hth, h1, ?_⟩
  cases l1 with
  | nil =>
    left
    simp at h
    obtain ⟨rfl, rfl, rfl⟩ := h
    exact ⟨rfl, rfl, rfl, rfl⟩
  | cons x xs =>
    right
    simp only [List.isEmpty_cons, Bool.false_eq_true, if_false] at h
    obtain ⟨⟨l2', e2, si'⟩, h2, h⟩ := R.bind_eq_ok h
    simp at h
    obtain ⟨rfl, rfl, rfl⟩ := h
    exact ⟨by simp, e2, h2, rfl⟩

/-- the thresholds of level `t` zipped with the criteria -/
def LevelGood (crits : List (Crit α)) (a : Alt α) (t : KMap α) : Prop :=
  ∃ th, zipWithWeights crits t = Except.ok th ∧ GoodAt a th
def LevelBad (crits : List (Crit α)) (a : Alt α) (t : KMap α) : Prop :=
  ∃ th, zipWithWeights crits t = Except.ok th ∧ BadAt a th

theorem mem_ids_of_mem {l : List (Alt α)} {a : Alt α} (h : a ∈ l) : a.id ∈ l.map (·.id) :=
  List.mem_map.mpr ⟨a, h, rfl⟩

/-- what the whole level loop does, for alternatives with pairwise different ids -/
theorem satLevelLoop_spec {crits : List (Crit α)} :
    ∀ {levels : List (KMap α)} {idx : Nat} {left l2 : List (Alt α)} {acc : List (SatRes α)} {si : Nat},
      (left.map (·.id)).Nodup →
      satLevelLoop crits idx levels left = Except.ok (l2, acc, si) →
      (acc.map (·.1) ++ l2.map (·.id)).Perm (left.map (·.id)) ∧ l2.Sublist left ∧
      (l2 ≠ [] → si = idx + levels.length) ∧
      (∀ p ∈ acc, ∃ j, p.2.idx = idx + j ∧ levels[j]? = some p.2.thr ∧
         ∃ a ∈ left, a.id = p.1 ∧ LevelGood crits a p.2.thr ∧
           ∀ j' < j, ∃ t', levels[j']? = some t' ∧ LevelBad crits a t') ∧
      (∀ a ∈ l2, ∀ t' ∈ levels, LevelBad crits a t') := by
  intro levels
  induction levels with
  | nil =>
    intro idx left l2 acc si _ h
    rw [satLevelLoop_nil] at h
    simp at h
    obtain ⟨rfl, rfl, rfl⟩ := h
    simp
  | cons t ts ih =>
    intro idx left l2 acc si hnd h
    obtain ⟨th, l1, e1, hth, h1, hcase⟩ := satLevelLoop_cons_ok h
    obtain ⟨p1, p2, p3, p4, p5⟩ := satAltLoop_spec hnd (fun a ha => mem_ids_of_mem ha) h1
    have hnd1 : (l1.map (·.id)).Nodup := (p2.map _).nodup hnd
    have hndAll : (e1.map (·.1) ++ l1.map (·.id)).Nodup := p1.nodup_iff.mpr hnd
    -- an alternative still left after this level failed it
    have hbad : ∀ a ∈ l1, LevelBad crits a t := by
      intro a ha
      have hal : a ∈ left := p2.subset ha
      rcases p5 a hal with ⟨_, m⟩ | ⟨b, _⟩
      · exact absurd (mem_ids_of_mem ha) (fun hm => (List.nodup_append.mp hndAll).2.2 _ m _ hm rfl)
      · exact ⟨th, hth, b⟩
    -- an alternative accepted at this level satisfies it
    have hgood : ∀ p ∈ e1, ∃ a ∈ left, a.id = p.1 ∧ LevelGood crits a t := by
      intro p hp
      have hm : p.1 ∈ e1.map (·.1) := List.mem_map.mpr ⟨p, hp, rfl⟩
      obtain ⟨a, ha, hid⟩ := List.mem_map.mp (p3.subset hm)
      refine ⟨a, ha, hid, ?_⟩
      rcases p5 a ha with ⟨g, _⟩ | ⟨_, m⟩
      · exact ⟨th, hth, g⟩
      · exact absurd (hid ▸ hm) m
    rcases hcase with ⟨rfl, rfl, rfl, rfl⟩ | ⟨hne, e2, h2, rfl⟩
    · refine ⟨by simpa using p1, List.nil_sublist _, by simp, ?_, by simp⟩
      intro p hp
      obtain ⟨a, ha, hid, hg⟩ := hgood p hp
      refine ⟨0, by simp [(p4 p hp).1], by simp [(p4 p hp).2], a, ha, hid, ?_, by simp⟩
      rw [(p4 p hp).2]; exact hg
    · obtain ⟨q1, q2, q3, q4, q5⟩ := ih hnd1 h2
      refine ⟨?_, q2.trans p2, ?_, ?_, ?_⟩
      · simp only [List.map_append, List.append_assoc]
        exact (List.Perm.append_left _ q1).trans p1
      · intro hl; rw [q3 hl]; simp; omega
      · intro p hp
        rcases List.mem_append.mp hp with hp | hp
        · obtain ⟨a, ha, hid, hg⟩ := hgood p hp
          refine ⟨0, by simp [(p4 p hp).1], by simp [(p4 p hp).2], a, ha, hid, ?_, by simp⟩
          rw [(p4 p hp).2]; exact hg
        · obtain ⟨j, hj, hlv, a, ha, hid, hg, hb⟩ := q4 p hp
          refine ⟨j + 1, by omega, by simpa using hlv, a, p2.subset ha, hid, hg, ?_⟩
          intro j' hj'
          cases j' with
          | zero => exact ⟨t, by simp, hbad a ha⟩
          | succ k =>
            obtain ⟨t', ht', hb'⟩ := hb k (by omega)
            exact ⟨t', by simpa using ht', hb'⟩
      · intro a ha t' ht'
        rcases List.mem_cons.mp ht' with rfl | ht'
        · exact hbad a (q2.subset ha)
        · exact q5 a ha t' ht'

/-- acceptance order: level indices never decrease along the list of acceptances, and the
    alternatives accepted at one level appear in the order of the list they were examined in -/
theorem satLevelLoop_order {crits : List (Crit α)} :
    ∀ {levels : List (KMap α)} {idx : Nat} {left l2 : List (Alt α)} {acc : List (SatRes α)} {si : Nat},
      (left.map (·.id)).Nodup →
      satLevelLoop crits idx levels left = Except.ok (l2, acc, si) →
      (acc.map (·.2.idx)).Pairwise (· ≤ ·) ∧ (∀ p ∈ acc, idx ≤ p.2.idx) ∧
      ∀ ℓ, ((acc.filter (fun p => p.2.idx == ℓ)).map (·.1)).Sublist (left.map (·.id)) := by
  intro levels
  induction levels with
  | nil =>
    intro idx left l2 acc si _ h
    rw [satLevelLoop_nil] at h
    simp at h
    obtain ⟨rfl, rfl, rfl⟩ := h
    simp
  | cons t ts ih =>
    intro idx left l2 acc si hnd h
    obtain ⟨th, l1, e1, hth, h1, hcase⟩ := satLevelLoop_cons_ok h
    obtain ⟨p1, p2, p3, p4, p5⟩ := satAltLoop_spec hnd (fun a ha => mem_ids_of_mem ha) h1
    have hnd1 : (l1.map (·.id)).Nodup := (p2.map _).nodup hnd
    have e1idx : ∀ p ∈ e1, p.2.idx = idx := fun p hp => (p4 p hp).1
    have e1pw : (e1.map (·.2.idx)).Pairwise (· ≤ ·) := by
      apply List.pairwise_of_forall_mem_list
      intro a ha b hb
      obtain ⟨pa, hpa, rfl⟩ := List.mem_map.mp ha
      obtain ⟨pb, hpb, rfl⟩ := List.mem_map.mp hb
      rw [e1idx pa hpa, e1idx pb hpb]; exact Nat.le_refl _
    have e1filter : ∀ ℓ, ((e1.filter (fun p => p.2.idx == ℓ)).map (·.1)).Sublist (left.map (·.id)) := by
      intro ℓ
      exact ((List.filter_sublist (l := e1)).map _).trans p3
    rcases hcase with ⟨rfl, rfl, rfl, rfl⟩ | ⟨hne, e2, h2, rfl⟩
    · exact ⟨e1pw, fun p hp => by rw [e1idx p hp]; exact Nat.le_refl _, e1filter⟩
    · obtain ⟨q1, q2, q3⟩ := ih hnd1 h2
      refine ⟨?_, ?_, ?_⟩
      · rw [List.map_append, List.pairwise_append]
        refine ⟨e1pw, q1, ?_⟩
        intro a ha b hb
        obtain ⟨pa, hpa, rfl⟩ := List.mem_map.mp ha
        obtain ⟨pb, hpb, rfl⟩ := List.mem_map.mp hb
        have := q2 pb hpb
        rw [e1idx pa hpa]; omega
      · intro p hp
        rcases List.mem_append.mp hp with hp | hp
        · rw [e1idx p hp]; exact Nat.le_refl _
        · have := q2 p hp; omega
      · intro ℓ
        rw [List.filter_append, List.map_append]
        by_cases hl : ℓ = idx
        · subst hl
          have : e2.filter (fun p => p.2.idx == ℓ) = [] := by
            apply List.filter_eq_nil_iff.mpr
            intro p hp
            have := q2 p hp
            simp; omega
          rw [this]; simpa using e1filter ℓ
        · have : e1.filter (fun p => p.2.idx == ℓ) = [] := by
            apply List.filter_eq_nil_iff.mpr
            intro p hp
            rw [e1idx p hp]
            simp; exact fun e => hl e.symm
          rw [this]
          simpa using (q3 ℓ).trans (p2.map _)

end Rdm
