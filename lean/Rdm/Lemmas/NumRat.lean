/-
  Simp lemmas unfolding the `Num Rat` instance to native `Rat` operations, so that `linarith`,
  `ring`, `field_simp`, `positivity` see ordinary rational arithmetic.  `+ - * / < ≤` need no lemma:
  the instance projections reduce definitionally (reducible) to `Rat`'s own instances.
-/
import Rdm.Basic
namespace Rdm

@[simp] theorem Num.one_rat : (Num.one : Rat) = 1 := rfl
@[simp] theorem Num.zero_rat : (Num.zero : Rat) = 0 := rfl
@[simp] theorem Num.ofInt_rat (i : Int) : (Num.ofInt i : Rat) = (i : Rat) := rfl
@[simp] theorem Num.ofConst_rat (c : Const) : (Num.ofConst c : Rat) = mkRat c.num c.den := rfl
@[simp] theorem Num.abs_rat (x : Rat) : (Num.abs x : Rat) = if x < 0 then -x else x := rfl
@[simp] theorem Num.max_rat (a b : Rat) : (Num.max a b : Rat) = if a < b then b else a := rfl
@[simp] theorem Num.min_rat (a b : Rat) : (Num.min a b : Rat) = if b < a then b else a := rfl
@[simp] theorem Num.floorInt_rat (x : Rat) : (Num.floorInt x : Int) = x.floor := rfl
@[simp] theorem Num.round_rat (x : Rat) : (Num.round x : Rat) = Rat.roundHalfAway x := rfl
@[simp] theorem Num.gt_rat (a b : Rat) : Num.gt a b = decide (b < a) := rfl
@[simp] theorem Num.ge_rat (a b : Rat) : Num.ge a b = decide (b ≤ a) := rfl
theorem Num.beq_rat (a b : Rat) : (a == b) = decide (a = b) := rfl

end Rdm
