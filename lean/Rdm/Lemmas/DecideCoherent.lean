/-
  Lemmas for the end-to-end model, part 3: coherence of the working state (`Spec.C07.coherent`) as a
  proposition, and its preservation by the biases:
    * omission, reversal, fatigue, inline anchoring — for every method;
    * concealment, newCriterion anchoring, first-bias mixing — for the methods whose listener admits an
      addition (weightedSum, electreIII, majority, aspect elimination, satisfaction).
-/
import Rdm.Spec.C07
import Rdm.Lemmas.DecideFrame
namespace Rdm
set_option linter.unusedSectionVars false
variable {α : Type} [Num α]

/-! ### coherence as a proposition -/

/-- what `Spec.C07.coherent` decides: criteria ids distinct, every known alternative has a value for every
    current criterion, the method's parameters cover every current criterion -/
structure Coherent (d : DMP α) : Prop where
  nodup : (d.crit.map (·.id)).Nodup
  values : ∀ a ∈ d.co ++ d.nc, ∀ c ∈ d.crit, a.vals.has c.id = true
  covers : Spec.C07.covers d.crit d.mp = true

theorem decideSpecNodup_iff (l : List String) : Spec.C07.nodup l = true ↔ l.Nodup := by
  induction l with
  | nil => simp [Spec.C07.nodup]
  | cons x xs ih => simp [Spec.C07.nodup, ih, List.nodup_cons]

theorem decideMissing_ne_ok (x : String) : (("missing-value:" ++ x) == "ok") = false := by
  have hlen : ("missing-value:" ++ x).length ≠ "ok".length := by
    rw [String.length_append]
    have : "missing-value:".length = 14 := by decide
    have : "ok".length = 2 := by decide
    omega
  simp only [beq_eq_false_iff_ne, ne_eq]
  intro h
  exact hlen (by rw [h])

theorem coherent_iff (d : DMP α) : Spec.C07.coherent d = true ↔ Coherent d := by
  unfold Spec.C07.coherent Spec.C07.explain
  by_cases hn : Spec.C07.nodup (d.crit.map (·.id)) = true
  · have hnd := (decideSpecNodup_iff _).mp hn
    simp only [hn, Bool.not_true, Bool.false_eq_true, if_false]
    cases hf : (d.co ++ d.nc).find? (fun a => !(d.crit.all fun c => a.vals.has c.id)) with
    | some a =>
      simp only [decideMissing_ne_ok, Bool.false_eq_true, false_iff]
      intro hc
      have hmem := List.mem_of_find?_eq_some hf
      have hp := List.find?_some hf
      simp only [Bool.not_eq_true', List.all_eq_false] at hp
      obtain ⟨c, hc1, hc2⟩ := hp
      exact hc2 (hc.values a hmem c hc1)
    | none =>
      rw [List.find?_eq_none] at hf
      have hv : ∀ a ∈ d.co ++ d.nc, ∀ c ∈ d.crit, a.vals.has c.id = true := by
        intro a ha c hc
        have := hf a ha
        simp only [Bool.not_eq_true', Bool.not_eq_false, List.all_eq_true] at this
        exact this c hc
      by_cases hcov : Spec.C07.covers d.crit d.mp = true
      · simp only [hcov, Bool.not_true, Bool.false_eq_true, if_false, beq_self_eq_true, true_iff]
        exact ⟨hnd, hv, hcov⟩
      · simp only [hcov, Bool.not_false, if_true]
        constructor
        · intro h; exact absurd h (by decide)
        · intro h; exact absurd h.covers hcov
  · simp only [hn, Bool.not_false, if_true]
    constructor
    · intro h; exact absurd h (by decide)
    · intro h; exact absurd ((decideSpecNodup_iff _).mpr h.nodup) hn

/-! ### association lists -/

theorem KMap.has_of_mem {β : Type} {k : String} {v : β} : ∀ {m : KMap β}, (k, v) ∈ m → m.has k = true := by
  intro m
  induction m with
  | nil => intro h; cases h
  | cons p m ih =>
    intro h
    obtain ⟨k', v'⟩ := p
    unfold KMap.has
    by_cases hk : k = k'
    · subst hk; simp [List.lookup]
    · have hne : (k == k') = false := by simpa using hk
      simp only [List.lookup, hne]
      rcases List.mem_cons.mp h with h | h
      · cases h; exact absurd rfl hk
      · exact ih h

theorem KMap.has_iff_mem_keys {β : Type} {k : String} : ∀ {m : KMap β}, m.has k = true ↔ k ∈ m.keys := by
  intro m
  induction m with
  | nil => simp [KMap.has, KMap.keys, List.lookup]
  | cons p m ih =>
    obtain ⟨k', v'⟩ := p
    unfold KMap.has KMap.keys at *
    by_cases hk : k = k'
    · subst hk; simp [List.lookup]
    · have hne : (k == k') = false := by simpa using hk
      simp only [List.lookup, hne, List.map_cons, List.mem_cons, hk, false_or]
      exact ih

theorem KMap.has_append {β : Type} {k : String} (m n : KMap β) :
    (m ++ n).has k = true ↔ m.has k = true ∨ n.has k = true := by
  simp only [KMap.has_iff_mem_keys, KMap.keys, List.map_append, List.mem_append]

theorem KMap.has_set {β : Type} (m : KMap β) (k k' : String) (v : β) :
    (m.set k v).has k' = true ↔ m.has k' = true ∨ k' = k := by
  by_cases hk : k' = k
  · subst hk
    simp only [or_true, iff_true]
    unfold KMap.has
    rw [show List.lookup k' (m.set k' v) = (m.set k' v).get? k' from rfl, KMap.get?_set_eq]
    rfl
  · simp only [hk, or_false]
    unfold KMap.has
    rw [show List.lookup k' (m.set k v) = (m.set k v).get? k' from rfl, KMap.get?_set_ne hk]
    rfl

theorem KMap.keys_set_nodup {β : Type} (m : KMap β) (k : String) (v : β) (h : m.keys.Nodup) :
    (m.set k v).keys.Nodup := by
  unfold KMap.set
  split
  · rename_i hany
    have : (m.map fun p => if p.1 == k then (k, v) else p).map Prod.fst = m.map Prod.fst := by
      rw [List.map_map]
      apply List.map_congr_left
      intro p _
      simp only [Function.comp]
      split
      · rename_i hp; exact (eq_of_beq hp).symm
      · rfl
    unfold KMap.keys
    rw [this]; exact h
  · rename_i hany
    unfold KMap.keys at *
    rw [List.map_append, List.nodup_append]
    refine ⟨h, by simp, ?_⟩
    intro a ha b hb
    simp only [List.map_cons, List.map_nil, List.mem_singleton] at hb
    subst hb
    intro e
    subst e
    apply hany
    rw [List.any_eq_true]
    obtain ⟨p, hp, e⟩ := List.mem_map.mp ha
    exact ⟨p, hp, by simp [e]⟩

/-- every input of a successful `mapM` has an output -/
theorem decideMapM_forall {ε β γ : Type} {f : β → Except ε γ} :
    ∀ {l : List β} {r : List γ}, l.mapM f = .ok r → ∀ a ∈ l, ∃ b ∈ r, f a = .ok b := by
  intro l
  induction l with
  | nil => intro r _ a ha; cases ha
  | cons x xs ih =>
    intro r h a ha
    rw [List.mapM_cons] at h
    obtain ⟨b, hb, h⟩ := bind_eq_ok.mp h
    obtain ⟨bs, hbs, h⟩ := bind_eq_ok.mp h
    simp only [pure, Except.pure, Except.ok.injEq] at h
    subst h
    rcases List.mem_cons.mp ha with rfl | ha
    · exact ⟨b, by simp, hb⟩
    · obtain ⟨b', hb', e⟩ := ih hbs a ha
      exact ⟨b', by simp [hb'], e⟩

/-- a map built by `mapM` of `(key x, value)` has every key -/
theorem decideMapM_has {ε β γ : Type} {key : β → String} {val : β → Except ε γ} {l : List β} {r : KMap γ}
    (h : l.mapM (fun x => do pure (key x, ← val x)) = .ok r) : ∀ x ∈ l, r.has (key x) = true := by
  intro x hx
  obtain ⟨b, hb, e⟩ := decideMapM_forall h x hx
  obtain ⟨v, _, e⟩ := bind_eq_ok.mp e
  simp only [pure, Except.pure, Except.ok.injEq] at e
  subst e
  exact KMap.has_of_mem hb

/-! ### `OnCriteriaRemoved` covers the criteria that are left (all seven listeners) -/

theorem decideFindWCrit_id {wc : List (WCrit α)} {id : String} {r : WCrit α} (h : findWCrit wc id = .ok r) :
    r ∈ wc ∧ (r.crit.id == id) = true := by
  unfold findWCrit at h
  split at h
  · rename_i x hx
    simp only [pure, Except.pure, Except.ok.injEq] at h
    subst h
    exact ⟨List.mem_of_find?_eq_some hx, by simpa using List.find?_some hx⟩
  · simp [throw, throwThe, MonadExceptOf.throw] at h

theorem decidePreserveOnly_has {m m' : KMap α} {left : List (Crit α)} (h : KMap.preserveOnly m left = .ok m') :
    ∀ c ∈ left, m'.has c.id = true := by
  unfold KMap.preserveOnly at h
  exact decideMapM_has (key := fun c : Crit α => c.id) h

theorem decideLevelsOnRemoved_has {lv lv' : Levels α} {left : List (Crit α)}
    (h : levelsOnRemoved lv left = .ok lv') :
    match lv' with
    | .coef _ _ _ => True
    | .thresholds ts => ∀ t ∈ ts, ∀ c ∈ left, t.has c.id = true := by
  unfold levelsOnRemoved at h
  cases lv with
  | coef c mx mn =>
    simp only [pure, Except.pure, Except.ok.injEq] at h
    subst h; trivial
  | thresholds ts =>
    dsimp only at h
    obtain ⟨ts', hts, h⟩ := bind_eq_ok.mp h
    simp only [pure, Except.pure, Except.ok.injEq] at h
    subst h
    intro t ht c hc
    obtain ⟨t0, _, e⟩ := mapM_ok_mem hts t ht
    exact decidePreserveOnly_has e c hc

theorem decideOnRemoved_covers {mp mp' : MParams α} {left : List (Crit α)} (h : onRemoved mp left = .ok mp') :
    Spec.C07.covers left mp' = true := by
  cases mp with
  | ws wc =>
    simp only [onRemoved] at h
    obtain ⟨wc', hm, h⟩ := bind_eq_ok.mp h
    simp only [pure, Except.pure, Except.ok.injEq] at h; subst h
    simp only [Spec.C07.covers, List.all_eq_true, List.any_eq_true]
    intro c hc
    obtain ⟨r, hr, e⟩ := decideMapM_forall hm c hc
    exact ⟨r, hr, (decideFindWCrit_id e).2⟩
  | owa wc =>
    simp only [onRemoved] at h
    obtain ⟨wc', hm, h⟩ := bind_eq_ok.mp h
    simp only [pure, Except.pure, Except.ok.injEq] at h; subst h
    simp only [Spec.C07.covers, Bool.and_eq_true, List.all_eq_true, List.any_eq_true, beq_iff_eq]
    refine ⟨?_, (mapM_ok hm).1⟩
    intro c hc
    obtain ⟨r, hr, e⟩ := decideMapM_forall hm c hc
    exact ⟨r, hr, eq_of_beq (decideFindWCrit_id e).2⟩
  | choquet w cs =>
    simp only [onRemoved] at h
    obtain ⟨fw, hm, h⟩ := bind_eq_ok.mp h
    simp only [pure, Except.pure, Except.ok.injEq] at h; subst h
    simp only [Spec.C07.covers, List.all_eq_true]
    intro s hs
    obtain ⟨b, hb, e⟩ := decideMapM_forall hm s hs
    obtain ⟨v, _, e⟩ := bind_eq_ok.mp e
    simp only [pure, Except.pure, Except.ok.injEq] at e
    subst e
    exact KMap.has_of_mem hb
  | electre ec dist =>
    simp only [onRemoved] at h
    obtain ⟨r, hm, h⟩ := bind_eq_ok.mp h
    simp only [pure, Except.pure, Except.ok.injEq] at h; subst h
    simp only [Spec.C07.covers, List.all_eq_true]
    intro c hc
    obtain ⟨b, hb, e⟩ := decideMapM_forall hm c hc
    split at e
    · simp only [pure, Except.pure, Except.ok.injEq] at e
      subst e
      exact KMap.has_of_mem hb
    · simp [throw, throwThe, MonadExceptOf.throw] at e
  | majority w cur seed rnd dr =>
    simp only [onRemoved] at h
    obtain ⟨w', hm, h⟩ := bind_eq_ok.mp h
    simp only [pure, Except.pure, Except.ok.injEq] at h; subst h
    simp only [Spec.C07.covers, List.all_eq_true]
    exact decidePreserveOnly_has hm
  | aspect fn lv seed w rnd =>
    simp only [onRemoved] at h
    split at h
    · simp [throw, throwThe, MonadExceptOf.throw, bind, Except.bind] at h
    · obtain ⟨lv', hlv, h⟩ := bind_eq_ok.mp h
      obtain ⟨w', hw, h⟩ := bind_eq_ok.mp h
      simp only [pure, Except.pure, Except.ok.injEq] at h; subst h
      have hl := decideLevelsOnRemoved_has hlv
      simp only [Spec.C07.covers, Bool.and_eq_true, List.all_eq_true]
      refine ⟨decidePreserveOnly_has hw, ?_⟩
      cases lv' with
      | coef _ _ _ => rfl
      | thresholds ts => simpa only [List.all_eq_true] using hl
  | satisf fn lv seed cur rnd =>
    simp only [onRemoved] at h
    split at h
    · simp [throw, throwThe, MonadExceptOf.throw, bind, Except.bind] at h
    · obtain ⟨lv', hlv, h⟩ := bind_eq_ok.mp h
      simp only [pure, Except.pure, Except.ok.injEq] at h; subst h
      have hl := decideLevelsOnRemoved_has hlv
      simp only [Spec.C07.covers]
      cases lv' with
      | coef _ _ _ => rfl
      | thresholds ts => simpa only [List.all_eq_true] using hl

/-! ### preservation: omission, reversal, fatigue, inline anchoring (every method) -/

theorem decideOmission_coherent {eps : α} {c : SplitCond α} {name : String} {cur res : DMP α} {d : Draws α}
    {om : List (Crit α)} (hnd : (cur.crit.map (·.id)).Nodup)
    (h : omissionApply eps c name cur d = .ok (res, om)) : Coherent res := by
  obtain ⟨_, ordered, ho, hc⟩ := BiasA.omissionApply_ok h
  obtain ⟨hs, hmp, hco, hnc⟩ := BiasA.omitCriteria_ok hc
  have hp := BiasA.orderCriteria_perm ho
  have happ := BiasA.split_append hs
  have hperm : ((om ++ res.crit).map (·.id)).Perm (cur.crit.map (·.id)) := (happ ▸ hp).map _
  have hnd' := hperm.nodup_iff.mpr hnd
  rw [List.map_append, List.nodup_append] at hnd'
  refine ⟨hnd'.2.1, ?_, decideOnRemoved_covers hmp⟩
  intro a ha cr hcr
  have hres : ∀ {l r : List (Alt α)}, List.Forall₂ (BiasA.RestrictedTo res.crit) l r → a ∈ r → a.vals.has cr.id = true := by
    intro l r hf har
    obtain ⟨a0, _, hr⟩ := BiasA.forall₂_mem_right hf a har
    rw [KMap.has_iff_mem_keys, hr.2.1]
    exact List.mem_map_of_mem hcr
  rcases List.mem_append.mp ha with ha | ha
  · exact hres (BiasA.preserveCriteria_ok hco) ha
  · exact hres (BiasA.preserveCriteria_ok hnc) ha

theorem decideReverseAlt_keys {toRev : List (Crit α × (α × α))} {a : Alt α} {r : Alt α × List α}
    (h : reverseAlt toRev a = .ok r) : r.1.vals.keys = a.vals.keys := by
  rw [BiasA.reverseAlt_eq] at h
  exact (BiasA.foldlM_revStep_spec toRev (a, []) r h).2.1

theorem decideReversal_coherent {eps : α} {c : SplitCond α} {name : String} {cur res : DMP α} {d : Draws α}
    {rep : List (Reversed α)} (hc : Coherent cur)
    (h : reversalApply eps c name cur d = .ok (res, rep)) : Coherent res := by
  obtain ⟨_, _, sel, _, _, _, hr⟩ := BiasA.reversalApply_ok h
  obtain ⟨toRev, resl, _, hm, hnc, hco, hcr, hmp, _⟩ := BiasA.reverseSelected_ok hr
  refine ⟨hcr ▸ hc.nodup, ?_, by rw [hcr, hmp]; exact hc.covers⟩
  intro a ha cr hcrit
  rw [hcr] at hcrit
  have hnew : ∀ b ∈ resl.map (·.1), b.vals.has cr.id = true := by
    intro b hb
    obtain ⟨r, hr, rfl⟩ := List.mem_map.mp hb
    obtain ⟨a0, ha0, e⟩ := mapM_ok_mem hm r hr
    rw [KMap.has_iff_mem_keys, decideReverseAlt_keys e, ← KMap.has_iff_mem_keys]
    exact hc.values a0 (by simpa [DMP.all] using ha0) cr hcrit
  have hupd : ∀ {old r : List (Alt α)}, updateAlts old (resl.map (·.1)) = .ok r → a ∈ r → a ∈ resl.map (·.1) := by
    intro old r hu har
    obtain ⟨hl, hp⟩ := updateAlts_ok hu
    obtain ⟨i, hi, rfl⟩ := List.mem_iff_getElem.mp har
    have hz : (old[i]'(hl ▸ hi), r[i]) ∈ old.zip r := by
      rw [List.mem_iff_getElem]; exact ⟨i, by simp only [List.length_zip]; omega, by simp⟩
    exact (hp _ hz).1
  rcases List.mem_append.mp ha with ha | ha
  · exact hnew a (hupd hco ha)
  · exact hnew a (hupd hnc ha)

theorem decideFatigue_coherent {exp : α → α} {fn : FatigueFn α} {b : Bounding α} {cur res : DMP α} {d : Draws α}
    {rep : FatigueReport α} (hc : Coherent cur)
    (h : fatigueApply exp fn b cur d = .ok (res, rep)) : Coherent res := by
  unfold fatigueApply at h
  obtain ⟨f, _, h⟩ := bind_eq_ok.mp h
  obtain ⟨_, hcr, hmp, _, _, _, cr, hcrr, hco, hnc⟩ := BiasA.fatigueBlur_ok h
  refine ⟨hcr ▸ hc.nodup, ?_, by rw [hcr, hmp]; exact hc.covers⟩
  intro a ha c hcrit
  have hkeys : ∀ {l r : List (Alt α)}, List.Forall₂ (BiasA.BlurredAlt f b cr d d) l r → a ∈ r →
      a.vals.keys = res.crit.map (·.id) := by
    intro l r hf har
    obtain ⟨a0, _, hb⟩ := BiasA.forall₂_mem_right hf a har
    have : a.vals.map (·.1) = cr.map (·.1.id) :=
      BiasA.forall₂_map_map (R := BiasA.BlurredEntry f b a0 d d) (g := fun kv : String × α => kv.1)
        (k := fun x : Crit α × (α × α) => x.1.id) (fun x y hxy => hxy.1) hb.2
    rw [hcr, ← (BiasA.criteriaRanges_ok hcrr).1, List.map_map]
    exact this
  rw [KMap.has_iff_mem_keys]
  rcases List.mem_append.mp ha with ha | ha
  · rw [hkeys hco ha]; exact List.mem_map_of_mem hcrit
  · rw [hkeys hnc ha]; exact List.mem_map_of_mem hcrit

/-! ### inline anchoring -/

/-- the scaling map `anchoringFront` hands to the applier, and the shape of the differences -/
theorem decideAnchoringFront_parts {exp : α → α} {cur : DMP α} {p : AnchProps α} {refs : List (Alt α)}
    {sc : KMap (Scale α)} {diffs : List (AltDiffs α)} {b : Bounding α}
    (h : anchoringFront exp cur p = .ok (refs, sc, diffs, b)) :
    anchScaling cur.crit cur.all = .ok sc ∧ boundingOfProps p.applier.params = .ok b := by
  unfold anchoringFront at h
  obtain ⟨alts, _, h⟩ := bind_eq_ok.mp h
  obtain ⟨loss, _, h⟩ := bind_eq_ok.mp h
  obtain ⟨gain, _, h⟩ := bind_eq_ok.mp h
  split at h
  · exact (throw_bind_ne_ok.mp h).elim
  · obtain ⟨anch, _, h⟩ := bind_eq_ok.mp h
    obtain ⟨refs', _, h⟩ := bind_eq_ok.mp h
    obtain ⟨b', hb, h⟩ := bind_eq_ok.mp h
    obtain ⟨sc', hsc, h⟩ := bind_eq_ok.mp h
    obtain ⟨diffs', _, h⟩ := bind_eq_ok.mp h
    simp only [pure, Except.pure, Except.ok.injEq, Prod.mk.injEq] at h
    obtain ⟨rfl, rfl, rfl, rfl⟩ := h
    exact ⟨hsc, hb⟩

/-- the scaling map has distinct keys and an entry for every criterion -/
theorem decideAnchScaling_keys {all : List (Alt α)} :
    ∀ {crits : List (Crit α)} {acc sc : KMap (Scale α)},
      crits.foldlM (fun (m : KMap (Scale α)) c => do
        let r ← valuesRange all c
        pure (m.set c.id (getScaleRatio (Num.zero, Num.one) r, r))) acc = .ok sc →
      acc.keys.Nodup → sc.keys.Nodup ∧ (∀ k, acc.has k = true → sc.has k = true) ∧
        ∀ c ∈ crits, sc.has c.id = true := by
  intro crits
  induction crits with
  | nil =>
    intro acc sc h hnd
    simp only [List.foldlM, pure, Except.pure, Except.ok.injEq] at h
    subst h
    exact ⟨hnd, fun _ hk => hk, by simp⟩
  | cons c rest ih =>
    intro acc sc h hnd
    rw [List.foldlM_cons] at h
    obtain ⟨m1, h1, h⟩ := bind_eq_ok.mp h
    obtain ⟨r, _, h1⟩ := bind_eq_ok.mp h1
    simp only [pure, Except.pure, Except.ok.injEq] at h1
    subst h1
    obtain ⟨i1, i2, i3⟩ := ih h (KMap.keys_set_nodup _ _ _ hnd)
    refine ⟨i1, ?_, ?_⟩
    · intro k hk
      exact i2 k ((KMap.has_set _ _ _ _).mpr (Or.inl hk))
    · intro c' hc'
      rcases List.mem_cons.mp hc' with rfl | hc'
      · exact i2 _ ((KMap.has_set _ _ _ _).mpr (Or.inr rfl))
      · exact i3 c' hc'

theorem decideInline_coherent {d : DMP α} {diffs : List (AltDiffs α)} {b : Bounding α} {sc : KMap (Scale α)}
    {params : Props α} {res : DMP α} {r : ApplierResult α} (hc : Coherent d)
    (hsc : anchScaling d.crit d.all = .ok sc)
    (h : inlineApply d diffs b sc params = .ok (res, r)) : Coherent res := by
  obtain ⟨hcr, hmp, _, pairs, hp, hco, hnc⟩ := decideInlineApply_ok h
  unfold anchScaling at hsc
  obtain ⟨k1, _, k3⟩ := decideAnchScaling_keys hsc (by simp [KMap.keys])
  refine ⟨hcr ▸ hc.nodup, ?_, by rw [hcr, hmp]; exact hc.covers⟩
  intro a ha c hcrit
  rw [hcr] at hcrit
  have hnew : ∀ x ∈ pairs.map (·.1), x.vals.has c.id = true := by
    intro x hx
    obtain ⟨pr, hpr, rfl⟩ := List.mem_map.mp hx
    obtain ⟨q, _, e⟩ := mapM_ok_mem hp pr hpr
    obtain ⟨_, _, avg, _, hall⟩ := inlineOne_ok (a' := pr.1) (d' := pr.2) e k1
    have hk := k3 c hcrit
    rw [KMap.has_iff_mem_keys] at hk
    obtain ⟨cs, hcs, e2⟩ := List.mem_map.mp hk
    obtain ⟨mean, v, _, _, hget, _⟩ := hall cs hcs
    rw [e2] at hget
    unfold KMap.has
    rw [show List.lookup c.id pr.1.vals = pr.1.vals.get? c.id from rfl, hget]
    rfl
  have hupd : ∀ {old r : List (Alt α)}, updateAlts old (pairs.map (·.1)) = .ok r → a ∈ r → a ∈ pairs.map (·.1) := by
    intro old r hu har
    obtain ⟨hl, hpz⟩ := updateAlts_ok hu
    obtain ⟨i, hi, rfl⟩ := List.mem_iff_getElem.mp har
    have hz : (old[i]'(hl ▸ hi), r[i]) ∈ old.zip r := by
      rw [List.mem_iff_getElem]; exact ⟨i, by simp only [List.length_zip]; omega, by simp⟩
    exact (hpz _ hz).1
  rcases List.mem_append.mp ha with ha | ha
  · exact hnew a (hupd hco ha)
  · rcases hnc with e | e
    · rw [e] at ha
      exact hc.values a (List.mem_append_right _ ha) c hcrit
    · exact hnew a (hupd e ha)

/-! ### additions: what `OnCriterionAdded` returns and what `Merge` makes of it -/

/-- the listener admits additions: every method except OWA (`Merge` asserts a type no `OnCriterionAdded`
    returns) and the Choquet integral (`OnCriterionAdded` re-emits the existing capacities, `Merge` collides) -/
def admitsAdditions : MParams α → Bool
  | .owa _ => false
  | .choquet _ _ => false
  | _ => true

/-- per-level addition of the thresholds source: one value for the new criterion per level -/
def LvAddFor (newC : Crit α) : LvAdd α → Prop
  | .none => True
  | .thresholds us => ∀ u ∈ us, ∃ v, u = [(newC.id, v)]

/-- an addition that parameterises exactly the new criterion -/
def AdditionFor (newC : Crit α) : Addition α → Prop
  | .ws wc => ∃ w, wc = [⟨newC, w⟩]
  | .weightType w => ∃ v, w = [(newC.id, v)]
  | .choquet _ _ => True
  | .electre ec => ∃ e, ec = [(newC.id, e)]
  | .aspect w la => (∃ v, w = [(newC.id, v)]) ∧ LvAddFor newC la
  | .satisf la => LvAddFor newC la

theorem decideLevelsOnAdded_for {asc : Bool} {lv : Levels α} {crit ref : Crit α} {d d' : Draws α} {la : LvAdd α}
    (h : levelsOnAdded asc lv crit ref d = .ok (la, d')) : LvAddFor crit la := by
  unfold levelsOnAdded at h
  cases lv with
  | coef a b c =>
    simp only [pure, Except.pure, Except.ok.injEq, Prod.mk.injEq] at h
    obtain ⟨rfl, _⟩ := h
    trivial
  | thresholds ts =>
    dsimp only at h
    obtain ⟨s, _, h⟩ := bind_eq_ok.mp h
    simp only [pure, Except.pure, Except.ok.injEq, Prod.mk.injEq] at h
    obtain ⟨rfl, _⟩ := h
    intro u hu
    obtain ⟨v, _, rfl⟩ := List.mem_map.mp hu
    exact ⟨v, rfl⟩

theorem decideOnAdded_for {mp : MParams α} {newC ref : Crit α} {g g' : Draws α} {add : Addition α}
    (h : onAdded mp newC ref g = .ok (add, g')) : AdditionFor newC add := by
  cases mp with
  | ws wc =>
    simp only [onAdded] at h
    obtain ⟨r, _, h⟩ := bind_eq_ok.mp h
    obtain ⟨u, _, h⟩ := bind_eq_ok.mp h
    simp only [pure, Except.pure, Except.ok.injEq, Prod.mk.injEq] at h
    obtain ⟨rfl, _⟩ := h
    exact ⟨_, rfl⟩
  | owa wc =>
    simp only [onAdded] at h
    obtain ⟨r, _, h⟩ := bind_eq_ok.mp h
    obtain ⟨u, _, h⟩ := bind_eq_ok.mp h
    simp only [pure, Except.pure, Except.ok.injEq, Prod.mk.injEq] at h
    obtain ⟨rfl, _⟩ := h
    exact ⟨_, rfl⟩
  | choquet w cs =>
    simp only [onAdded] at h
    obtain ⟨newCs, _, h⟩ := bind_eq_ok.mp h
    obtain ⟨s, _, h⟩ := bind_eq_ok.mp h
    simp only [pure, Except.pure, Except.ok.injEq, Prod.mk.injEq] at h
    obtain ⟨rfl, _⟩ := h
    trivial
  | electre ec dist =>
    simp only [onAdded] at h
    obtain ⟨u, _, h⟩ := bind_eq_ok.mp h
    simp only [pure, Except.pure, Except.ok.injEq, Prod.mk.injEq] at h
    obtain ⟨rfl, _⟩ := h
    exact ⟨_, rfl⟩
  | majority w cur seed rnd dr =>
    simp only [onAdded] at h
    obtain ⟨u, _, h⟩ := bind_eq_ok.mp h
    simp only [pure, Except.pure, Except.ok.injEq, Prod.mk.injEq] at h
    obtain ⟨rfl, _⟩ := h
    exact ⟨_, rfl⟩
  | aspect fn lv seed w rnd =>
    simp only [onAdded] at h
    obtain ⟨u, _, h⟩ := bind_eq_ok.mp h
    split at h
    · simp [throw, throwThe, MonadExceptOf.throw, bind, Except.bind] at h
    · obtain ⟨la, hla, h⟩ := bind_eq_ok.mp h
      simp only [pure, Except.pure, Except.ok.injEq, Prod.mk.injEq] at h
      obtain ⟨rfl, _⟩ := h
      exact ⟨⟨_, rfl⟩, decideLevelsOnAdded_for hla⟩
  | satisf fn lv seed cur rnd =>
    simp only [onAdded] at h
    split at h
    · simp [throw, throwThe, MonadExceptOf.throw, bind, Except.bind] at h
    · obtain ⟨la, hla, h⟩ := bind_eq_ok.mp h
      simp only [pure, Except.pure, Except.ok.injEq, Prod.mk.injEq] at h
      obtain ⟨rfl, _⟩ := h
      exact decideLevelsOnAdded_for hla

theorem decideMergeDisjoint_eq {β : Type} {m o r : KMap β} (h : KMap.mergeDisjoint m o = .ok r) : r = m ++ o := by
  unfold KMap.mergeDisjoint at h
  split at h
  · simp [throw, throwThe, MonadExceptOf.throw] at h
  · simp only [pure, Except.pure, Except.ok.injEq] at h
    exact h.symm

/-- a weight map covering `crit`, extended by an entry for the new criterion, covers `crit ++ [newC]` -/
theorem decideCovers_append {β : Type} {w : KMap β} {crit : List (Crit α)} {newC : Crit α} {v : β}
    (h : ∀ c ∈ crit, w.has c.id = true) : ∀ c ∈ crit ++ [newC], (w ++ [(newC.id, v)]).has c.id = true := by
  intro c hc
  rw [KMap.has_append]
  rcases List.mem_append.mp hc with hc | hc
  · exact Or.inl (h c hc)
  · simp only [List.mem_singleton] at hc
    subst hc
    exact Or.inr (KMap.has_of_mem (v := v) (by simp))

theorem decideLevelsMerge_covers {lv lv' : Levels α} {la : LvAdd α} {crit : List (Crit α)} {newC : Crit α}
    (hla : LvAddFor newC la) (h : levelsMerge lv la = .ok lv')
    (hcov : match lv with
            | .coef _ _ _ => True
            | .thresholds ts => ∀ t ∈ ts, ∀ c ∈ crit, t.has c.id = true) :
    match lv' with
    | .coef _ _ _ => True
    | .thresholds ts => ∀ t ∈ ts, ∀ c ∈ crit ++ [newC], t.has c.id = true := by
  unfold levelsMerge at h
  cases lv with
  | coef a b c =>
    simp only [pure, Except.pure, Except.ok.injEq] at h
    subst h; trivial
  | thresholds ts =>
    cases la with
    | none => simp [throw, throwThe, MonadExceptOf.throw] at h
    | thresholds us =>
      dsimp only at h
      split at h
      · simp [throw, throwThe, MonadExceptOf.throw] at h
      · obtain ⟨merged, hm, h⟩ := bind_eq_ok.mp h
        simp only [pure, Except.pure, Except.ok.injEq] at h
        subst h
        intro t ht c hc
        obtain ⟨pr, hpr, e⟩ := mapM_ok_mem hm t ht
        have e' := decideMergeDisjoint_eq e
        subst e'
        obtain ⟨v, hv⟩ := hla pr.2 (List.of_mem_zip hpr).2
        rw [hv]
        exact decideCovers_append (hcov pr.1 (List.of_mem_zip hpr).1) c hc

/-- **the seam that works**: merging the listener's addition for a new criterion into parameters that cover
    the criteria gives parameters that cover the criteria and the new one (five methods) -/
theorem decideMerge_covers {mp mp' : MParams α} {crit : List (Crit α)} {newC : Crit α} {add : Addition α}
    (hfor : AdditionFor newC add) (hm : mergeParams mp add = .ok mp')
    (hadm : admitsAdditions mp = true) (hcov : Spec.C07.covers crit mp = true) :
    Spec.C07.covers (crit ++ [newC]) mp' = true := by
  cases mp with
  | owa wc => simp [admitsAdditions] at hadm
  | choquet w cs => simp [admitsAdditions] at hadm
  | ws wc =>
    cases add <;> simp only [mergeParams] at hm <;>
      try (simp [throw, throwThe, MonadExceptOf.throw] at hm; done)
    rename_i added
    simp only [pure, Except.pure, Except.ok.injEq] at hm
    subst hm
    obtain ⟨w, rfl⟩ := hfor
    simp only [Spec.C07.covers, List.all_eq_true, List.any_eq_true] at hcov ⊢
    intro c hc
    rcases List.mem_append.mp hc with hc | hc
    · obtain ⟨x, hx, e⟩ := hcov c hc
      exact ⟨x, List.mem_append_left _ hx, e⟩
    · simp only [List.mem_singleton] at hc
      subst hc
      exact ⟨⟨c, w⟩, by simp, by simp⟩
  | electre ec dist =>
    cases add <;> simp only [mergeParams] at hm <;>
      try (simp [throw, throwThe, MonadExceptOf.throw] at hm; done)
    obtain ⟨m, hmd, hm⟩ := bind_eq_ok.mp hm
    simp only [pure, Except.pure, Except.ok.injEq] at hm
    subst hm
    obtain ⟨e, rfl⟩ := hfor
    have := decideMergeDisjoint_eq hmd
    subst this
    simp only [Spec.C07.covers, List.all_eq_true] at hcov ⊢
    exact decideCovers_append hcov
  | majority w cur seed rnd dr =>
    cases add <;> simp only [mergeParams] at hm <;>
      try (simp [throw, throwThe, MonadExceptOf.throw] at hm; done)
    obtain ⟨m, hmd, hm⟩ := bind_eq_ok.mp hm
    simp only [pure, Except.pure, Except.ok.injEq] at hm
    subst hm
    obtain ⟨v, rfl⟩ := hfor
    have := decideMergeDisjoint_eq hmd
    subst this
    simp only [Spec.C07.covers, List.all_eq_true] at hcov ⊢
    exact decideCovers_append hcov
  | aspect fn lv seed w rnd =>
    cases add <;> simp only [mergeParams] at hm <;>
      try (simp [throw, throwThe, MonadExceptOf.throw] at hm; done)
    rename_i w2 la
    split at hm
    · simp [throw, throwThe, MonadExceptOf.throw, bind, Except.bind] at hm
    · obtain ⟨lv', hlv, hm⟩ := bind_eq_ok.mp hm
      obtain ⟨m, hmd, hm⟩ := bind_eq_ok.mp hm
      simp only [pure, Except.pure, Except.ok.injEq] at hm
      subst hm
      obtain ⟨⟨v, rfl⟩, hla⟩ := hfor
      have := decideMergeDisjoint_eq hmd
      subst this
      simp only [Spec.C07.covers, Bool.and_eq_true, List.all_eq_true] at hcov ⊢
      refine ⟨decideCovers_append hcov.1, ?_⟩
      have hl := decideLevelsMerge_covers (crit := crit) hla hlv (by
        cases lv with
        | coef _ _ _ => trivial
        | thresholds ts => simpa only [List.all_eq_true] using hcov.2)
      cases lv' with
      | coef _ _ _ => trivial
      | thresholds ts => simpa only [List.all_eq_true] using hl
  | satisf fn lv seed cur rnd =>
    cases add <;> simp only [mergeParams] at hm <;>
      try (simp [throw, throwThe, MonadExceptOf.throw] at hm; done)
    rename_i la
    split at hm
    · simp [throw, throwThe, MonadExceptOf.throw, bind, Except.bind] at hm
    · obtain ⟨lv', hlv, hm⟩ := bind_eq_ok.mp hm
      simp only [pure, Except.pure, Except.ok.injEq] at hm
      subst hm
      simp only [Spec.C07.covers] at hcov ⊢
      have hl := decideLevelsMerge_covers (crit := crit) hfor hlv (by
        cases lv with
        | coef _ _ _ => trivial
        | thresholds ts => simpa only [List.all_eq_true] using hcov)
      cases lv' with
      | coef _ _ _ => trivial
      | thresholds ts => simpa only [List.all_eq_true] using hl

/-- merging keeps the method (and so whether it admits additions) -/
theorem decideMerge_admits {mp mp' : MParams α} {add : Addition α} (hm : mergeParams mp add = .ok mp')
    (hadm : admitsAdditions mp = true) : admitsAdditions mp' = true := by
  cases mp <;> cases add <;> simp only [mergeParams] at hm <;>
    first
    | (simp [throw, throwThe, MonadExceptOf.throw] at hm; done)
    | (simp [admitsAdditions] at hadm; done)
    | (simp only [pure, Except.pure, Except.ok.injEq] at hm; subst hm; rfl)
    | (obtain ⟨x, _, hm⟩ := bind_eq_ok.mp hm
       simp only [pure, Except.pure, Except.ok.injEq] at hm; subst hm; rfl)
    | (split at hm
       · simp [throw, throwThe, MonadExceptOf.throw, bind, Except.bind] at hm
       · simp only [pure, Except.pure, bind, Except.bind] at hm
         split at hm
         · cases hm
         · first
           | (simp only [Except.ok.injEq] at hm; subst hm; rfl)
           | (split at hm
              · cases hm
              · simp only [Except.ok.injEq] at hm; subst hm; rfl))

/-! ### preservation: concealment, first-bias mixing, newCriterion anchoring (methods admitting additions) -/

theorem decideNodup_append_fresh {crit : List (Crit α)} {newC : Crit α}
    (hnd : (crit.map (·.id)).Nodup) (hfresh : ∀ x ∈ crit, (x.id == newC.id) = false) :
    ((crit ++ [newC]).map (·.id)).Nodup := by
  rw [List.map_append, List.nodup_append]
  refine ⟨hnd, by simp, ?_⟩
  intro a ha b hb
  simp only [List.map_cons, List.map_nil, List.mem_singleton] at hb
  subst hb
  obtain ⟨x, hx, rfl⟩ := List.mem_map.mp ha
  have := hfresh x hx
  simpa using this

theorem decideConceal_coherent {eps : α} {orig cur : DMP α} {p : Props α} {rd g : Draws α} {res : DMP α}
    {rep : ConcealReport α} (hc : Coherent cur) (hadm : admitsAdditions cur.mp = true)
    (h : conceal eps orig cur p rd g = .ok (res, rep)) : Coherent res := by
  obtain ⟨_, _, hcr, hfresh, _, _, hvals, _⟩ := conceal_ok h
  obtain ⟨ref, g', g'', hadd, hm⟩ := decideConceal_params h
  refine ⟨?_, ?_, ?_⟩
  · rw [hcr]; exact decideNodup_append_fresh hc.nodup hfresh
  · intro a' ha' c hcm
    obtain ⟨a, ha, v, _, hv, _, _⟩ := hvals a' ha'
    rw [hv]
    rw [hcr] at hcm
    exact decideCovers_append (newC := ⟨rep.id, rep.type, some rep.range⟩) (hc.values a ha) c hcm
  · rw [hcr]
    exact decideMerge_covers (decideOnAdded_for hadd) hm hadm hc.covers

/-- mixing as the first bias (`current` is still `original`) -/
theorem decideMixingFirst_coherent {eps : α} {cur : DMP α} {p : Props α} {rd g : Draws α} {res : DMP α}
    {rep : Option (MixReport α)} (hc : Coherent cur) (hadm : admitsAdditions cur.mp = true)
    (h : mixing eps cur cur p rd g = .ok (res, rep)) : Coherent res := by
  rcases decideMixing_cases h with ⟨_, rfl, _⟩ | ⟨_, _, _, _, _, hcore⟩
  · exact hc
  · obtain ⟨r, hr0, _, _, _, hfresh, _, _, hvals, _⟩ := mixingCore_ok hcore
    obtain ⟨r', newC, ref, g', hr, hid, hadd, hm, hcr⟩ := decideMixingCore_params hcore
    have hrr : r' = r := by
      rw [hr0] at hr
      exact (Option.some.inj hr).symm
    subst hrr
    refine ⟨?_, ?_, ?_⟩
    · rw [hcr]
      exact decideNodup_append_fresh hc.nodup (by rw [hid]; exact hfresh)
    · intro a' ha' c hcm
      obtain ⟨a, ha, v, _, hv, _⟩ := hvals a' ha'
      rw [hv, ← hid]
      rw [hcr] at hcm
      exact decideCovers_append (hc.values a ha) c hcm
    · rw [hcr]
      exact decideMerge_covers (decideOnAdded_for hadd) hm hadm hc.covers

theorem decideNewCriterion_coherent {eps : α} {d : DMP α} {diffs : List (AltDiffs α)} {b : Bounding α}
    {sc : KMap (Scale α)} {params : Props α} {rd : Draws α} {gens : List (Draws α)} {res : DMP α}
    {r : ApplierResult α} {n : Nat} (hc : Coherent d) (hadm : admitsAdditions d.mp = true)
    (hdiffs : ∀ q ∈ diffs, q.1 ∈ d.all ∧ q.2.length = n)
    (h : newCriterionApply eps d diffs b sc params rd gens = .ok (res, r)) : Coherent res := by
  obtain ⟨ref, added, _, _, hcr, hnd, hfresh, _, hle, hge, _, _, hvals⟩ := newCriterionApply_ok h
  obtain ⟨ranked, ref', range, st, alts, hloop, hcr', hmp'⟩ := decideNewCriterionApply_loop h
  have hlen : ∀ q ∈ diffs, q.2.length = added.length := by
    intro q hq
    have h1 := hle q hq
    have h2 := hge n (fun q' hq' => Nat.le_of_eq (hdiffs q' hq').2)
    rw [(hdiffs q hq).2] at h1 ⊢
    omega
  refine ⟨?_, ?_, ?_⟩
  · rw [hcr, List.map_append, List.nodup_append]
    refine ⟨hc.nodup, ?_, ?_⟩
    · simpa [AddedAnch.crit, Function.comp_def] using hnd
    · intro x hx y hy e
      subst e
      simp only [List.map_map, List.mem_map, Function.comp] at hy
      obtain ⟨a, ha, e⟩ := hy
      exact hfresh a ha (by rw [show a.id = x from e]; exact hx)
  · intro a' ha' c hcm
    obtain ⟨q, hq, _, news, hv, hk⟩ := hvals a' ha'
    rw [hv, KMap.has_append]
    rw [hcr] at hcm
    rcases List.mem_append.mp hcm with hcm | hcm
    · left
      have : q.1 ∈ d.co ++ d.nc := by simpa [DMP.all] using (hdiffs q hq).1
      exact hc.values q.1 this c hcm
    · right
      rw [KMap.has_iff_mem_keys]
      unfold KMap.keys
      rw [hk, hlen q hq, List.take_of_length_le (by simp)]
      obtain ⟨a, ha, rfl⟩ := List.mem_map.mp hcm
      exact List.mem_map_of_mem ha
  · rw [hcr', hmp']
    have key := decideNcLoop_invariant
      (fun crits mp => Spec.C07.covers crits mp = true ∧ admitsAdditions mp = true) ?_ _ _ _ _ _
      ⟨hc.covers, hadm⟩ hloop
    · exact key.1
    · intro st ri rp st' hq hnew
      rcases decideNcNewCriterion_cases hnew with rfl | ⟨c, gen, gen', add, _, _, hca, hadd, hm⟩
      · exact hq
      · rw [(critsAdd_ok hca).1]
        exact ⟨decideMerge_covers (decideOnAdded_for hadd) hm hq.2 hq.1, decideMerge_admits hm hq.2⟩

theorem decideAnchoring_coherent {exp : α → α} {eps : α} {cur : DMP α} {p : AnchProps α} {rd : Draws α}
    {gens : List (Draws α)} {res : DMP α} {rep : AnchReport α} (hc : Coherent cur)
    (hcls : p.applier.fn = Facts.anchoringInline ∨ admitsAdditions cur.mp = true)
    (h : anchoringApply exp eps cur p rd gens = .ok (res, rep)) : Coherent res := by
  obtain ⟨b, hfront, hi | hn⟩ := decideAnchoring_cases h
  · exact decideInline_coherent hc (decideAnchoringFront_parts hfront).1 hi.2
  · have hadm : admitsAdditions cur.mp = true := by
      rcases hcls with hcls | hcls
      · rw [hn.1] at hcls; exact absurd hcls (by decide)
      · exact hcls
    obtain ⟨_, hd⟩ := anchoringFront_diffs hfront
    exact decideNewCriterion_coherent (n := rep.refPoints.length) hc hadm hd hn.2

/-! ### the method is never exchanged -/

theorem decideOnRemoved_admits {mp mp' : MParams α} {left : List (Crit α)} (h : onRemoved mp left = .ok mp') :
    admitsAdditions mp' = admitsAdditions mp := by
  cases mp <;> simp only [onRemoved] at h <;>
    first
    | (obtain ⟨x, _, h⟩ := bind_eq_ok.mp h
       simp only [pure, Except.pure, Except.ok.injEq] at h; subst h; rfl)
    | (split at h
       · simp [throw, throwThe, MonadExceptOf.throw, bind, Except.bind] at h
       · simp only [pure, Except.pure, bind, Except.bind] at h
         split at h
         · cases h
         · first
           | (simp only [Except.ok.injEq] at h; subst h; rfl)
           | (split at h
              · cases h
              · simp only [Except.ok.injEq] at h; subst h; rfl))

/-! ### one step and whole sequences -/

/-- the (bias, state) classes in which the model preserves coherence.  Excluded: criterion-adding biases
    under OWA / Choquet (the additions fail: registered findings) and criteria mixing after the state has
    changed (it rebuilds from `original`: registered finding). -/
def PreservingStep (name : String) (p : BProps α) (orig cur : DMP α) : Prop :=
  name = Facts.biasOmission ∨ name = Facts.biasReversal ∨ name = Facts.biasFatigue ∨
  (name = Facts.biasAnchoring ∧
    ((∃ q, p = .anch q ∧ q.applier.fn = Facts.anchoringInline) ∨ admitsAdditions cur.mp = true)) ∨
  (name = Facts.biasConcealment ∧ admitsAdditions cur.mp = true) ∨
  (name = Facts.biasMixing ∧ admitsAdditions cur.mp = true ∧ orig = cur)

theorem decideApplyBias_coherent {exp : α → α} {g : Int → Draws α} {name : String} {p : BProps α}
    {orig cur res : DMP α} {rep : Report α} (h : applyBias exp g name p orig cur = .ok (res, rep))
    (hc : Coherent cur) (hs : PreservingStep name p orig cur) : Coherent res := by
  cases decideApplyBias_inv h with
  | omission hb => exact decideOmission_coherent hc.nodup hb
  | reversal hb => exact decideReversal_coherent hc hb
  | fatigue hb => exact decideFatigue_coherent hc hb
  | conceal hb =>
    rcases hs with hs | hs | hs | hs | hs | hs
    · exact absurd hs (by decide)
    · exact absurd hs (by decide)
    · exact absurd hs (by decide)
    · exact absurd hs.1 (by decide)
    · exact decideConceal_coherent hc hs.2 hb
    · exact absurd hs.1 (by decide)
  | mixing hb =>
    rcases hs with hs | hs | hs | hs | hs | hs
    · exact absurd hs (by decide)
    · exact absurd hs (by decide)
    · exact absurd hs (by decide)
    · exact absurd hs.1 (by decide)
    · exact absurd hs.1 (by decide)
    · obtain ⟨_, hadm, rfl⟩ := hs
      exact decideMixingFirst_coherent hc hadm hb
  | anchoring hb =>
    rcases hs with hs | hs | hs | hs | hs | hs
    · exact absurd hs (by decide)
    · exact absurd hs (by decide)
    · exact absurd hs (by decide)
    · refine decideAnchoring_coherent hc ?_ hb
      rcases hs.2 with ⟨q, hq, hfn⟩ | hadm
      · cases hq; exact Or.inl hfn
      · exact Or.inr hadm
    · exact absurd hs.1 (by decide)
    · exact absurd hs.1 (by decide)

/-- no bias exchanges the method -/
theorem decideApplyBias_admits {exp : α → α} {g : Int → Draws α} {name : String} {p : BProps α}
    {orig cur res : DMP α} {rep : Report α} (h : applyBias exp g name p orig cur = .ok (res, rep))
    (hadm : admitsAdditions cur.mp = true) : admitsAdditions res.mp = true := by
  cases decideApplyBias_inv h with
  | omission hb =>
    obtain ⟨_, ordered, _, hc⟩ := BiasA.omissionApply_ok hb
    obtain ⟨_, hmp, _, _⟩ := BiasA.omitCriteria_ok hc
    rw [decideOnRemoved_admits hmp]; exact hadm
  | reversal hb =>
    obtain ⟨_, _, _, _, _, _, hr⟩ := BiasA.reversalApply_ok hb
    obtain ⟨_, _, _, _, _, _, _, hmp, _⟩ := BiasA.reverseSelected_ok hr
    rw [hmp]; exact hadm
  | fatigue hb =>
    unfold fatigueApply at hb
    obtain ⟨f, _, hb⟩ := bind_eq_ok.mp hb
    obtain ⟨_, _, hmp, _⟩ := BiasA.fatigueBlur_ok hb
    rw [hmp]; exact hadm
  | conceal hb =>
    obtain ⟨_, _, _, _, hm⟩ := decideConceal_params hb
    exact decideMerge_admits hm hadm
  | mixing hb =>
    rcases decideMixing_cases hb with ⟨_, rfl, _⟩ | ⟨_, _, _, _, _, hc⟩
    · exact hadm
    · obtain ⟨_, _, _, _, _, _, _, hm, _⟩ := decideMixingCore_params hc
      exact decideMerge_admits hm hadm
  | anchoring hb =>
    obtain ⟨b, _, hi | hn⟩ := decideAnchoring_cases hb
    · obtain ⟨_, hmp, _⟩ := decideInlineApply_ok hi.2
      rw [hmp]; exact hadm
    · obtain ⟨ranked, ref, range, st, alts, hloop, _, hmp⟩ := decideNewCriterionApply_loop hn.2
      rw [hmp]
      refine decideNcLoop_invariant (fun _ mp => admitsAdditions mp = true) ?_ _ _ _ _ _ hadm hloop
      intro st ri rp st' hq hnew
      rcases decideNcNewCriterion_cases hnew with rfl | ⟨_, _, _, _, _, _, _, _, hm⟩
      · exact hq
      · exact decideMerge_admits hm hq

/-- an entry of a bias sequence whose step preserves coherence whatever (coherent) state it meets:
    omission, reversal, fatigue, inline anchoring for every method; with `adm` (the method admits additions)
    also concealment and anchoring with any applier -/
def SafeEntry (adm : Bool) (b : Chosen α (BProps α)) : Prop :=
  b.name = Facts.biasOmission ∨ b.name = Facts.biasReversal ∨ b.name = Facts.biasFatigue ∨
  (b.name = Facts.biasAnchoring ∧
    ((∃ q, b.props = .anch q ∧ q.applier.fn = Facts.anchoringInline) ∨ adm = true)) ∨
  (b.name = Facts.biasConcealment ∧ adm = true)

theorem decideLoop_coherent {exp : α → α} {g : Int → Draws α} {orig : DMP α}
    (chosen : List (Chosen α (BProps α))) (cur fin : DMP α) (d : Draws α) (outs : List (BiasOut α (Report α)))
    (hall : ∀ b ∈ chosen, SafeEntry (admitsAdditions cur.mp) b) (hc : Coherent cur)
    (h : processLoop (applyBias exp g) orig chosen cur d = .ok (fin, outs)) : Coherent fin := by
  have key := decideLoop_invariant
    (Inv := fun s => Coherent s ∧ (admitsAdditions cur.mp = true → admitsAdditions s.mp = true))
    chosen ?_ cur fin d outs ⟨hc, fun h => h⟩ h
  · exact key.1
  · intro b hb c next rep hinv ha
    refine ⟨decideApplyBias_coherent ha hinv.1 ?_, fun hadm => decideApplyBias_admits ha (hinv.2 hadm)⟩
    rcases hall b hb with hs | hs | hs | hs | hs
    · exact Or.inl hs
    · exact Or.inr (Or.inl hs)
    · exact Or.inr (Or.inr (Or.inl hs))
    · refine Or.inr (Or.inr (Or.inr (Or.inl ⟨hs.1, ?_⟩)))
      rcases hs.2 with hq | hadm
      · exact Or.inl hq
      · exact Or.inr (hinv.2 hadm)
    · exact Or.inr (Or.inr (Or.inr (Or.inr (Or.inl ⟨hs.1, hinv.2 hs.2⟩))))

/-! ### the state built from an accepted request -/

theorem decideForM_ok {β : Type} {f : β → R Unit} : ∀ {l : List β}, l.forM f = .ok () → ∀ a ∈ l, f a = .ok () := by
  intro l
  induction l with
  | nil => intro _ a ha; cases ha
  | cons x xs ih =>
    intro h a ha
    simp only [List.forM_eq_forM, List.forM_cons] at h
    obtain ⟨u, hx, h⟩ := bind_eq_ok.mp h
    rcases List.mem_cons.mp ha with rfl | ha
    · exact hx
    · exact ih (by simpa only [List.forM_eq_forM] using h) a ha

theorem decideValidateCriteria_nodup : ∀ (crit : List (Crit α)) (seen : List String),
    validateCriteria crit seen = .ok () → (crit.map (·.id)).Nodup ∧ ∀ c ∈ crit, c.id ∉ seen := by
  intro crit
  induction crit with
  | nil => intro seen _; simp
  | cons c rest ih =>
    intro seen h
    unfold validateCriteria at h
    split at h
    · simp [throw, throwThe, MonadExceptOf.throw] at h
    · rename_i hseen
      have hrest : validateCriteria rest (c.id :: seen) = .ok () := by
        split at h
        · split at h
          · simp [throw, throwThe, MonadExceptOf.throw] at h
          · exact h
        · exact h
      obtain ⟨i1, i2⟩ := ih _ hrest
      refine ⟨?_, ?_⟩
      · rw [List.map_cons, List.nodup_cons]
        refine ⟨?_, i1⟩
        intro hmem
        obtain ⟨x, hx, e⟩ := List.mem_map.mp hmem
        exact i2 x hx (by rw [e]; simp)
      · intro x hx
        rcases List.mem_cons.mp hx with rfl | hx
        · simpa using hseen
        · intro hs
          exact i2 x hx (List.mem_cons_of_mem _ hs)

/-- validation and `prepareParams` give distinct criteria ids and a value of every criterion for every
    known alternative; what remains of coherence is that the parsed parameters cover the criteria
    (`ParseParams`, outside this model: C03 / C05 / C11–C14 / C20) -/
theorem decidePrepare_coherent {req : Request α} {params : DMP α} {chosen : List (Chosen α (BProps α))}
    (h : prepare req = .ok (params, chosen)) (hcov : Spec.C07.covers params.crit params.mp = true) :
    Coherent params := by
  obtain ⟨hv, mp, _, hpp, _⟩ := decidePrepare_ok h
  unfold validateRequest at hv
  dsimp only at hv
  have hv2 : (do
      validateCriteria req.crit []
      validateAlternatives req.known req.crit
      req.chosen.forM fun id => do let _ ← fetchAlt req.known id; pure ()) = (.ok () : R Unit) := by
    split at hv
    · simp [throw, throwThe, MonadExceptOf.throw, bind, Except.bind] at hv
    · exact hv
  obtain ⟨_, hvc, hv2⟩ := bind_eq_ok.mp hv2
  obtain ⟨_, hva, hv2⟩ := bind_eq_ok.mp hv2
  unfold prepareParams at hpp
  obtain ⟨co, hco, hpp⟩ := bind_eq_ok.mp hpp
  simp only [pure, Except.pure, Except.ok.injEq] at hpp
  subst hpp
  have hknown : ∀ a ∈ req.known, ∀ c ∈ req.crit, a.vals.has c.id = true := by
    intro a ha c hc
    unfold validateAlternatives at hva
    have h1 := decideForM_ok hva a ha
    have h2 := decideForM_ok h1 c hc
    split at h2
    · assumption
    · simp [throw, throwThe, MonadExceptOf.throw] at h2
  refine ⟨(decideValidateCriteria_nodup _ _ hvc).1, ?_, hcov⟩
  intro a ha c hc
  apply hknown a ?_ c hc
  rcases List.mem_append.mp ha with ha | ha
  · obtain ⟨id, _, e⟩ := mapM_ok_mem hco a ha
    exact (fetchAlt_ok e).1
  · exact (List.mem_filter.mp ha).1

end Rdm
