/-
  The reference criterion is a member of the ranked list, for each of the three strategies, and
  `FindCriterionInRange` is total on non-empty lists.  Generic number type, core only.
-/
import Rdm.Lemmas.BiasBExcept
import Rdm.Model.RefCriterion
namespace Rdm
variable {α : Type} [Num α]

theorem findInRangeGo_mem {e : α} : ∀ {l : List (WCrit α)} {cur : α} {c : Crit α},
    findInRangeGo e l cur = some c → ∃ w ∈ l, w.crit = c := by
  intro l
  induction l with
  | nil => intro cur c h; simp [findInRangeGo] at h
  | cons x xs ih =>
    intro cur c h
    unfold findInRangeGo at h
    dsimp only at h
    split at h
    · simp at h; exact ⟨x, by simp, h⟩
    · obtain ⟨w, hw, e⟩ := ih h
      exact ⟨w, List.mem_cons_of_mem _ hw, e⟩

theorem findCriterionInRange_mem {ranked : List (WCrit α)} {e : α} {c : Crit α}
    (h : findCriterionInRange ranked e = .ok c) : ∃ w ∈ ranked, w.crit = c := by
  unfold findCriterionInRange at h
  split at h
  · rename_i c' hc'
    simp [pure, Except.pure] at h; subst h
    exact findInRangeGo_mem hc'
  · split at h
    · rename_i w hw
      simp [pure, Except.pure] at h; subst h
      exact ⟨w, List.mem_of_getLast? hw, rfl⟩
    · simp [throw, throwThe, MonadExceptOf.throw] at h

/-- on a non-empty list `FindCriterionInRange` always answers -/
theorem findCriterionInRange_total {ranked : List (WCrit α)} (e : α) (hne : ranked ≠ []) :
    ∃ c, findCriterionInRange ranked e = .ok c := by
  unfold findCriterionInRange
  split
  · exact ⟨_, rfl⟩
  · split
    · exact ⟨_, rfl⟩
    · rename_i hn
      simp at hn
      exact (hne hn).elim

/-- every strategy returns one of the ranked criteria -/
theorem refProvide_mem {k : RefKind} {p : Props α} {ranked : List (WCrit α)} {d : Draws α} {c : Crit α}
    (h : refProvide k p ranked d = .ok c) : c ∈ ranked.map (·.crit) := by
  unfold refProvide at h
  cases k with
  | importanceRatio =>
    simp only at h
    obtain ⟨w, hw, e⟩ := findCriterionInRange_mem h
    exact List.mem_map.mpr ⟨w, hw, e⟩
  | randomUniform =>
    simp only at h
    obtain ⟨⟨u, d'⟩, _, h⟩ := bind_eq_ok.mp h
    dsimp only at h
    split at h
    · simp [throw, throwThe, MonadExceptOf.throw] at h
    · split at h
      · rename_i w hw
        simp [pure, Except.pure] at h; subst h
        exact List.mem_map.mpr ⟨w, List.mem_of_getElem? hw, rfl⟩
      · simp [throw, throwThe, MonadExceptOf.throw] at h
  | randomWeighted =>
    simp only at h
    split at h
    · obtain ⟨_, _, h⟩ := bind_eq_ok.mp h
      simp [throw, throwThe, MonadExceptOf.throw] at h
    · rename_i c0 rest
      obtain ⟨⟨u, d'⟩, _, h⟩ := bind_eq_ok.mp h
      obtain ⟨w, hw, e⟩ := findCriterionInRange_mem h
      obtain ⟨w0, hw0, rfl⟩ := List.mem_map.mp hw
      exact List.mem_map.mpr ⟨w0, hw0, e⟩

/-- `ForParams(props).Provide(ranked)` returns one of the ranked criteria -/
theorem refCriterion_mem {p : Props α} {ranked : List (WCrit α)} {d : Draws α} {c : Crit α}
    (h : refCriterion p ranked d = .ok c) : c ∈ ranked.map (·.crit) := by
  unfold refCriterion at h
  obtain ⟨k, _, h⟩ := bind_eq_ok.mp h
  exact refProvide_mem h

end Rdm
