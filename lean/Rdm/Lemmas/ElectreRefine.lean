/-
  Refinement of the distillation model to the declarative spec (over `Rat`):
    `rank m s cmp = ok ps  →  Spec.C05.classes m s pickMax = some ps`.
  The Go-shaped model works on re-indexed flat sub-matrices (`Slice`, `Without`, sequential write-back); the
  spec works on lists of the original alternative numbers.  The bridge is `stateM σ A`, the matrix of the
  alternatives `A` under the credibility function `σ`: every matrix the model ever builds is `stateM σ A` for
  the spec's current list `A`, and cut level, qualification, best set, narrowing and class removal coincide.
-/
import Rdm.Lemmas.ElectreFlat
import Rdm.Lemmas.NumRat
import Mathlib.Tactic.Linarith
import Mathlib.Data.Finset.Card
import Mathlib.Data.List.Basic
import Mathlib.Data.Finset.Basic
namespace Rdm
set_option linter.unusedSectionVars false

theorem flatMap_congr' {β γ : Type} {l : List β} {f g : β → List γ} (h : ∀ a ∈ l, f a = g a) :
    l.flatMap f = l.flatMap g := by
  induction l with
  | nil => rfl
  | cons a l ih =>
    rw [List.flatMap_cons, List.flatMap_cons, h a (by simp), ih (fun x hx => h x (by simp [hx]))]

/-! ## state matrices -/

/-- the matrix of the alternatives `A` (original numbers) under the credibility function `σ` -/
def stateM (σ : Nat → Nat → Rat) (A : List Nat) : Matrix Rat :=
  ⟨A.length, A.flatMap fun r => A.map fun c => σ r c⟩

theorem stateM_len (σ : Nat → Nat → Rat) (A : List Nat) :
    (stateM σ A).data.length = (stateM σ A).size * (stateM σ A).size := by
  simp only [stateM]
  have : ∀ l : List Nat, (l.flatMap fun r => A.map fun c => σ r c).length = l.length * A.length := by
    intro l
    induction l with
    | nil => simp
    | cons r rs ih => rw [List.flatMap_cons, List.length_append, ih]; simp [Nat.succ_mul]; omega
  exact this A

theorem stateM_at (σ : Nat → Nat → Rat) (A : List Nat) (i j : Nat) (hi : i < A.length) (hj : j < A.length) :
    (stateM σ A).at i j = σ A[i] A[j] := by
  unfold stateM Matrix.at
  simp only
  rw [getD_flatMap_uniform (fun r => A.map fun c => σ r c) A.length Num.zero A (fun r _ => by simp) i j hi hj]
  simp [List.getD_eq_getElem?_getD, hj]

/-- a sub-matrix of a state matrix is the state matrix of the selected alternatives -/
theorem stateM_sub (σ : Nat → Nat → Rat) (A I : List Nat) (hI : ∀ i ∈ I, i < A.length) :
    (stateM σ A).sub I = stateM σ (I.map fun i => A.getD i 0) := by
  unfold Matrix.sub
  simp only [stateM, List.length_map, List.flatMap_map, List.map_map, Matrix.mk.injEq, true_and]
  show (I.flatMap fun r => I.map fun c => (stateM σ A).at r c) = _
  apply flatMap_congr'
  intro r hr
  apply List.map_congr_left
  intro c hc
  have h1 := hI r hr
  have h2 := hI c hc
  rw [stateM_at σ A r c h1 h2]
  simp [List.getD_eq_getElem?_getD, h1, h2]

/-! ## folds that ignore zero entries (the diagonal) -/

/-- a fold step that ignores zeros and stays non-negative -/
structure ZeroStep (g : Rat → Rat → Rat) : Prop where
  zero : ∀ b, 0 ≤ b → g b 0 = b
  nonneg : ∀ b v, 0 ≤ b → 0 ≤ g b v

theorem el_foldl_nonneg (g : Rat → Rat → Rat) (hg : ZeroStep g) (l : List Rat) (b : Rat) (hb : 0 ≤ b) :
    0 ≤ l.foldl g b := by
  induction l generalizing b with
  | nil => exact hb
  | cons v l ih => rw [List.foldl_cons]; exact ih _ (hg.nonneg b v hb)

theorem foldl_skip_zero_row (g : Rat → Rat → Rat) (hg : ZeroStep g) (L : List Nat) (f : Nat → Rat)
    (keep : Nat → Bool) (hz : ∀ x ∈ L, keep x = false → f x = 0) (b : Rat) (hb : 0 ≤ b) :
    (L.map f).foldl g b = ((L.filter keep).map f).foldl g b := by
  induction L generalizing b with
  | nil => rfl
  | cons x L ih =>
    rw [List.map_cons, List.foldl_cons, List.filter_cons]
    by_cases hk : keep x = true
    · simp only [hk, if_true, List.map_cons, List.foldl_cons]
      exact ih (fun y hy => hz y (by simp [hy])) _ (hg.nonneg b _ hb)
    · have hk' : keep x = false := by simpa using hk
      simp only [hk', Bool.false_eq_true, if_false]
      rw [hz x (by simp) hk', hg.zero b hb]
      exact ih (fun y hy => hz y (by simp [hy])) b hb

theorem foldl_skip_diagonal (g : Rat → Rat → Rat) (hg : ZeroStep g) (σ : Nat → Nat → Rat)
    (hd : ∀ i, σ i i = 0) (A L : List Nat) (b : Rat) (hb : 0 ≤ b) :
    (A.flatMap fun r => L.map fun c => σ r c).foldl g b
      = (A.flatMap fun r => (L.filter fun c => c != r).map fun c => σ r c).foldl g b := by
  induction A generalizing b with
  | nil => rfl
  | cons r A ih =>
    rw [List.flatMap_cons, List.flatMap_cons, List.foldl_append, List.foldl_append]
    have hrow := foldl_skip_zero_row g hg L (fun c => σ r c) (fun c => c != r)
      (fun x _ hx => by
        have : x = r := by simpa using hx
        rw [this]; exact hd r) b hb
    rw [hrow]
    exact ih _ (el_foldl_nonneg g hg _ b hb)

def stepMax (b v : Rat) : Rat := if b < v then v else b
def stepThr (thr : Rat) (b v : Rat) : Rat := if (decide (v < thr) && decide (b < v)) = true then v else b

theorem stepMax_zeroStep : ZeroStep stepMax := by
  refine ⟨fun b hb => ?_, fun b v hb => ?_⟩
  · unfold stepMax; rw [if_neg (by linarith)]
  · unfold stepMax; split <;> linarith

theorem stepThr_zeroStep (thr : Rat) : ZeroStep (stepThr thr) := by
  refine ⟨fun b hb => ?_, fun b v hb => ?_⟩
  · unfold stepThr
    have : ¬ b < 0 := by linarith
    simp [this]
  · unfold stepThr
    split
    · rename_i h
      simp only [Bool.and_eq_true, decide_eq_true_eq] at h
      linarith
    · exact hb

/-- the spec's `maxOr0` of the values below a threshold is the thresholded fold -/
theorem maxOr0_filter_eq (thr : Rat) (l : List Rat) (b : Rat) :
    (l.filter fun v => decide (v < thr)).foldl (fun b v => if b < v then v else b) b = l.foldl (stepThr thr) b := by
  induction l generalizing b with
  | nil => rfl
  | cons v l ih =>
    rw [List.filter_cons, List.foldl_cons]
    by_cases hv : v < thr
    · simp only [hv, decide_true, if_true, List.foldl_cons]
      rw [ih]
      congr 1
      unfold stepThr
      simp [hv]
    · simp only [hv, decide_false, Bool.false_eq_true, if_false]
      rw [ih]
      congr 1
      unfold stepThr
      simp [hv]

/-- values of `σ` over the ordered pairs of distinct members of `A`, as the spec enumerates them -/
theorem pairs_values (σ : Nat → Nat → Rat) (A : List Nat) :
    (Spec.C05.pairs A).map (fun p => σ p.1 p.2)
      = A.flatMap fun r => (A.filter fun c => c != r).map fun c => σ r c := by
  unfold Spec.C05.pairs
  rw [List.map_flatMap]
  apply flatMap_congr'
  intro r _
  rw [List.map_map]
  rfl

/-! ## `Max` and the cut level of a state matrix -/

theorem stateM_data_head (σ : Nat → Nat → Rat) (hd : ∀ i, σ i i = 0) (a : Nat) (A : List Nat) :
    ∃ rest, (stateM σ (a :: A)).data = 0 :: rest := by
  simp only [stateM, List.flatMap_cons, List.map_cons, hd a, List.cons_append]
  exact ⟨_, rfl⟩

/-- `Max()` of a state matrix is the spec's maximal credibility among the pairs of `A` -/
theorem stateM_max (σ : Nat → Nat → Rat) (hd : ∀ i, σ i i = 0) (A : List Nat) (hA : A ≠ []) :
    (stateM σ A).max = .ok (Spec.C05.maxOr0 ((Spec.C05.pairs A).map fun p => σ p.1 p.2)) := by
  cases A with
  | nil => exact absurd rfl hA
  | cons a A' =>
    obtain ⟨rest, hdat⟩ := stateM_data_head σ hd a A'
    unfold Matrix.max Matrix.findBest
    have hs : ((stateM σ (a :: A')).size == 0) = false := by simp [stateM]
    simp only [hs, Bool.false_eq_true, if_false, hdat, pure, Except.pure, Except.ok.injEq]
    rw [← hdat, pairs_values]
    unfold Spec.C05.maxOr0 Matrix.bestFold
    have hfun : (fun (best v : Rat) => if decide (best < v) = true then v else best) = stepMax := by
      funext b v; simp [stepMax]
    have hfun2 : (fun (b v : Rat) => if b < v then v else b) = stepMax := by
      funext b v; rfl
    rw [hfun, hfun2]
    simp only [stateM, Num.zero_rat]
    exact foldl_skip_diagonal stepMax stepMax_zeroStep σ hd (a :: A') (a :: A') 0 (le_refl _)

/-- `getDistillateMatrix` on a state matrix: the cut level is the spec's -/
theorem stateM_cut (σ : Nat → Nat → Rat) (hd : ∀ i, σ i i = 0) (s : LinFun Rat) (A : List Nat) (hA : A ≠ [])
    (lam : Rat) (r : Rat × Matrix Rat) (h : getDistillateMatrix s lam (stateM σ A) = .ok r) :
    r.1 = Spec.C05.cutLevel σ s A lam ∧
    r.2 = (stateM σ A).filter (fun row col v =>
      if v ≤ r.1 then false else decide ((stateM σ A).at col row + distVal s v < v)) := by
  cases A with
  | nil => exact absurd rfl hA
  | cons a A' =>
    obtain ⟨rest, hdat⟩ := stateM_data_head σ hd a A'
    unfold getDistillateMatrix Matrix.findBest at h
    have hs : ((stateM σ (a :: A')).size == 0) = false := by simp [stateM]
    simp only [hs, Bool.false_eq_true, if_false, hdat, bind, Except.bind, pure, Except.pure, Except.ok.injEq] at h
    subst h
    refine ⟨?_, rfl⟩
    simp only
    rw [← hdat]
    unfold Spec.C05.cutLevel Spec.C05.maxOr0 Matrix.bestFold
    simp only [Num.zero_rat]
    have hthr : Spec.C05.sVal s lam = distVal s lam := rfl
    rw [hthr, maxOr0_filter_eq, pairs_values]
    have hfun : (fun (best v : Rat) => if (decide (v < lam - distVal s lam) && decide (best < v)) = true then v else best)
        = stepThr (lam - distVal s lam) := by
      funext b v; rfl
    rw [hfun]
    simp only [stateM]
    exact foldl_skip_diagonal _ (stepThr_zeroStep _) σ hd (a :: A') (a :: A') 0 (le_refl _)

/-! ## qualification -/

theorem filter_length_via_range (A : List Nat) (P : Nat → Bool) :
    (A.filter P).length = ((List.range A.length).filter fun c => P (A.getD c 0)).length := by
  have hmap : (List.range A.length).map (fun c => A.getD c 0) = A := by
    apply List.ext_getElem
    · simp
    · intro i h1 h2
      simp [List.getD_eq_getElem?_getD, h2]
  have h2 : (A.filter P).length = (((List.range A.length).map (fun c => A.getD c 0)).filter P).length := by
    rw [hmap]
  rw [h2, List.filter_map, List.length_map]
  rfl

theorem map_via_range {β : Type} (A : List Nat) (f : Nat → β) :
    A.map f = (List.range A.length).map fun g => f (A.getD g 0) := by
  apply List.ext_getElem
  · simp
  · intro i h1 h2
    simp at h1
    simp [List.getD_eq_getElem?_getD, h1]

theorem cutLevel_nonneg (σ : Nat → Nat → Rat) (s : LinFun Rat) (A : List Nat) (lam : Rat) :
    0 ≤ Spec.C05.cutLevel σ s A lam := by
  unfold Spec.C05.cutLevel Spec.C05.maxOr0
  have hfun2 : (fun (b v : Rat) => if b < v then v else b) = stepMax := by funext b v; rfl
  simp only [Num.zero_rat]
  rw [hfun2]
  exact el_foldl_nonneg stepMax stepMax_zeroStep _ 0 (le_refl _)

/-- the outranking entries of the filtered matrix are the spec's outranking relation -/
theorem vals_positive (σ : Nat → Nat → Rat) (hd : ∀ i, σ i i = 0) (s : LinFun Rat) (A : List Nat)
    (cut : Rat) (hcut : 0 ≤ cut) (g c : Nat) (hg : g < A.length) (hc : c < A.length) :
    isPositive (((stateM σ A).filter (fun row col v =>
      if v ≤ cut then false else decide ((stateM σ A).at col row + distVal s v < v))).at g c)
      = Spec.C05.outranks σ s cut A[g] A[c] := by
  rw [filter_at _ (stateM_len σ A) _ g c hg hc, stateM_at σ A g c hg hc, stateM_at σ A c g hc hg]
  unfold Spec.C05.outranks isPositive
  have hs : Spec.C05.sVal s (σ A[g] A[c]) = distVal s (σ A[g] A[c]) := rfl
  rw [hs]
  simp only [Num.zero_rat]
  by_cases hle : σ A[g] A[c] ≤ cut
  · have : ¬ cut < σ A[g] A[c] := by linarith
    simp [hle, this]
  · have hlt : cut < σ A[g] A[c] := by linarith
    have hne : A[g] ≠ A[c] := by
      intro he
      have : σ A[g] A[c] = 0 := by rw [he]; exact hd _
      linarith
    by_cases hout : σ A[c] A[g] + distVal s (σ A[g] A[c]) < σ A[g] A[c]
    · have hpos : 0 < σ A[g] A[c] := by linarith
      simp [hle, hlt, hne, hout, hpos]
    · simp [hle, hlt, hout]

/-- `computeQuality` of the filtered state matrix lists the spec's qualifications of the members of `A` -/
theorem stateM_quality (σ : Nat → Nat → Rat) (hd : ∀ i, σ i i = 0) (s : LinFun Rat) (A : List Nat)
    (cut : Rat) (hcut : 0 ≤ cut) :
    computeQuality ((stateM σ A).filter (fun row col v =>
      if v ≤ cut then false else decide ((stateM σ A).at col row + distVal s v < v)))
      = A.map (Spec.C05.qualification σ s cut A) := by
  set V := (stateM σ A).filter (fun row col v =>
      if v ≤ cut then false else decide ((stateM σ A).at col row + distVal s v < v)) with hV
  have hVlen : V.data.length = V.size * V.size := by
    rw [hV]; simp only [Matrix.filter, List.length_mapIdx]; exact stateM_len σ A
  have hVsize : V.size = A.length := rfl
  rw [map_via_range A]
  unfold computeQuality Matrix.matchesInRow Matrix.matchesInColumn
  rw [hVsize]
  apply List.ext_getElem
  · simp
  · intro g h1 h2
    simp only [List.length_map, List.length_range] at h2
    have hgV : g < V.size := by rw [hVsize]; exact h2
    simp only [List.getElem_zipWith, List.getElem_map, List.getElem_range]
    rw [matchCount_row V hVlen _ g hgV, matchCount_col V hVlen _ g hgV, hVsize]
    unfold Spec.C05.qualification
    rw [filter_length_via_range A, filter_length_via_range A]
    have hgA : A.getD g 0 = A[g] := by rw [List.getD_eq_getElem?_getD, List.getElem?_eq_getElem h2]; rfl
    rw [hgA]
    have e1 : ((List.range A.length).filter fun c => isPositive (V.at g c))
        = (List.range A.length).filter fun c => Spec.C05.outranks σ s cut A[g] (A.getD c 0) := by
      apply List.filter_congr
      intro c hc
      simp only [List.mem_range] at hc
      rw [hV, vals_positive σ hd s A cut hcut g c h2 hc]
      rw [List.getD_eq_getElem?_getD, List.getElem?_eq_getElem hc]; rfl
    have e2 : ((List.range A.length).filter fun r => isPositive (V.at r g))
        = (List.range A.length).filter fun c => Spec.C05.outranks σ s cut (A.getD c 0) A[g] := by
      apply List.filter_congr
      intro c hc
      simp only [List.mem_range] at hc
      rw [hV, vals_positive σ hd s A cut hcut c g hc h2]
      rw [List.getD_eq_getElem?_getD, List.getElem?_eq_getElem hc]; rfl
    rw [e1, e2]

/-! ## best qualification -/

/-- the comparison used by the distillation that keeps the maximal (`true`) / minimal qualification -/
def cmpOf (pm : Bool) : Int → Int → Bool := if pm then cmpGreater else cmpLower

def stepBest (pm : Bool) (b x : Int) : Int := if cmpOf pm b x then x else b

/-- `x` is at least as good as `b` -/
def asGood (pm : Bool) (b x : Int) : Prop := if pm then b ≤ x else x ≤ b

theorem cmpOf_iff (pm : Bool) (b x : Int) : cmpOf pm b x = true ↔ (if pm then b < x else x < b) := by
  cases pm <;> simp [cmpOf, cmpGreater, cmpLower]

theorem foldl_stepBest_asGood (pm : Bool) (l : List Int) (b : Int) : asGood pm b (l.foldl (stepBest pm) b) := by
  induction l generalizing b with
  | nil => cases pm <;> simp [asGood]
  | cons x l ih =>
    rw [List.foldl_cons]
    have h1 := ih (stepBest pm b x)
    unfold stepBest at h1 ⊢
    by_cases hc : cmpOf pm b x = true
    · simp only [hc, if_true] at h1 ⊢
      have := (cmpOf_iff pm b x).mp hc
      cases pm <;> simp_all [asGood] <;> omega
    · simp only [hc] at h1 ⊢
      exact h1

/-- indices (from offset `k`) of the entries of `l` equal to `v` -/
def idxEq (l : List Int) (k : Nat) (v : Int) : List Nat := ((l.zipIdx k).filter fun p => p.1 == v).map (·.2)

theorem idxEq_cons (x : Int) (l : List Int) (k : Nat) (v : Int) :
    idxEq (x :: l) k v = (if x == v then [k] else []) ++ idxEq l (k + 1) v := by
  unfold idxEq
  rw [List.zipIdx_cons, List.filter_cons]
  by_cases h : (x == v) = true <;> simp [h]

/-- the loop of `findBestMatch`: best value = fold of `stepBest`, indices = positions of that value -/
theorem bestMatch_fold_spec (pm : Bool) (l : List Int) (k : Nat) (b : Int) (idxs : List Nat) :
    ((l.zipIdx k).foldl (bestMatchStep (cmpOf pm)) (b, idxs)).1 = l.foldl (stepBest pm) b ∧
    ((l.zipIdx k).foldl (bestMatchStep (cmpOf pm)) (b, idxs)).2
      = (if l.foldl (stepBest pm) b = b then idxs else []) ++ idxEq l k (l.foldl (stepBest pm) b) := by
  induction l generalizing k b idxs with
  | nil => simp [idxEq]
  | cons x l ih =>
    rw [List.zipIdx_cons, List.foldl_cons, List.foldl_cons, idxEq_cons]
    have hgood := foldl_stepBest_asGood pm l (stepBest pm b x)
    by_cases hc : cmpOf pm b x = true
    · -- strictly better: restart the index list
      have hs : stepBest pm b x = x := by simp [stepBest, hc]
      rw [hs] at hgood ⊢
      rw [show bestMatchStep (cmpOf pm) (b, idxs) (x, k) = (x, [k]) from by simp [bestMatchStep, hc]]
      obtain ⟨i1, i2⟩ := ih (k + 1) x [k]
      refine ⟨i1, ?_⟩
      rw [i2]
      have hlt := (cmpOf_iff pm b x).mp hc
      have hne : l.foldl (stepBest pm) x ≠ b := by
        cases pm <;> simp_all [asGood] <;> omega
      rw [if_neg hne]
      by_cases hx : l.foldl (stepBest pm) x = x
      · simp [hx]
      · have : (x == l.foldl (stepBest pm) x) = false := by simpa using fun h => hx h.symm
        simp [hx, this]
    · have hs : stepBest pm b x = b := by simp [stepBest, hc]
      rw [hs] at hgood ⊢
      by_cases hxb : (x == b) = true
      · -- ex aequo: append the index
        have hxb' : x = b := by simpa using hxb
        rw [show bestMatchStep (cmpOf pm) (b, idxs) (x, k) = (b, idxs ++ [k]) from by simp [bestMatchStep, hc, hxb]]
        obtain ⟨i1, i2⟩ := ih (k + 1) b (idxs ++ [k])
        refine ⟨i1, ?_⟩
        rw [i2]
        by_cases hb : l.foldl (stepBest pm) b = b
        · simp [hb, hxb']
        · have : (x == l.foldl (stepBest pm) b) = false := by
            rw [hxb']; simpa using fun h => hb h.symm
          simp [hb, this]
      · -- worse: unchanged
        rw [show bestMatchStep (cmpOf pm) (b, idxs) (x, k) = (b, idxs) from by simp [bestMatchStep, hc, hxb]]
        obtain ⟨i1, i2⟩ := ih (k + 1) b idxs
        refine ⟨i1, ?_⟩
        rw [i2]
        have hxne : x ≠ b := by simpa using hxb
        have hnb := (cmpOf_iff pm b x).not.mp hc
        have : (x == l.foldl (stepBest pm) b) = false := by
          have : x ≠ l.foldl (stepBest pm) b := by
            cases pm <;> simp_all [asGood] <;> omega
          simpa using this
        simp [this]

theorem stepBest_self (pm : Bool) (b : Int) : stepBest pm b b = b := by
  unfold stepBest; split <;> rfl

theorem bestOf_eq_fold (pm : Bool) (v0 : Int) (rest : List Int) :
    Spec.C05.bestOf pm (v0 :: rest) = (v0 :: rest).foldl (stepBest pm) v0 := by
  rw [List.foldl_cons, stepBest_self]
  unfold Spec.C05.bestOf
  simp only
  congr 1
  funext b x
  cases pm <;> simp [stepBest, cmpOf, cmpGreater, cmpLower]

theorem idxEq_map_get (A : List Nat) (q : Nat → Int) (v : Int) :
    (idxEq (A.map q) 0 v).map (fun i => A.getD i 0) = A.filter fun a => q a == v := by
  unfold idxEq
  rw [List.zipIdx_map, List.filter_map, List.map_map, List.map_map]
  have hcongr : ∀ p ∈ (A.zipIdx 0).filter ((fun p : Int × Nat => p.1 == v) ∘ Prod.map q id),
      (((fun i => A.getD i 0) ∘ (fun x : Int × Nat => x.2)) ∘ Prod.map q id) p = Prod.fst p := by
    intro p hp
    obtain ⟨a, i⟩ := p
    have hm := List.mem_zipIdx' (List.mem_filter.mp hp).1
    simp only [Function.comp, Prod.map, id]
    rw [List.getD_eq_getElem?_getD, List.getElem?_eq_getElem hm.1]
    exact hm.2.symm
  rw [List.map_congr_left hcongr]
  have : ((fun p : Int × Nat => p.1 == v) ∘ Prod.map q id) = ((fun a => q a == v) ∘ Prod.fst) := by
    funext p; rfl
  rw [this, ← List.filter_map, List.zipIdx_map_fst]

/-- `findBestMatch` on the qualifications of `A` selects the spec's best set -/
theorem findBestMatch_bestSet (pm : Bool) (A : List Nat) (q : Nat → Int) (r : Int × List Nat)
    (h : findBestMatch (A.map q) (cmpOf pm) = .ok r) :
    r.2.map (fun i => A.getD i 0) = Spec.C05.bestSet pm A q := by
  cases A with
  | nil => simp [findBestMatch, throw, throwThe, MonadExceptOf.throw] at h
  | cons a A' =>
    unfold findBestMatch at h
    simp only [List.map_cons, pure, Except.pure, Except.ok.injEq] at h
    subst h
    obtain ⟨i1, i2⟩ := bestMatch_fold_spec pm (q a :: A'.map q) 0 (q a) []
    have hmap : q a :: A'.map q = (a :: A').map q := rfl
    rw [i2]
    simp only [ite_self, List.nil_append]
    unfold Spec.C05.bestSet
    simp only
    rw [hmap, idxEq_map_get, ← hmap, bestOf_eq_fold]

/-! ## `Slice` / `Without` of a state matrix -/

theorem sortIdx_of_ascending (l : List Nat) (h : l.Pairwise (· < ·)) : Matrix.sortIdx l = l := by
  unfold Matrix.sortIdx
  have hp := List.mergeSort_perm l (fun a b => decide (a ≤ b))
  have hs := List.pairwise_mergeSort (le := fun a b : Nat => decide (a ≤ b))
    (fun a b c hab hbc => by simp only [decide_eq_true_eq] at *; omega)
    (fun a b => by simp only [Bool.or_eq_true, decide_eq_true_eq]; omega) l
  apply List.Perm.eq_of_pairwise (le := (· ≤ ·)) (fun a b _ _ hab hba => by omega)
  · exact hs.imp (fun h => by simpa using h)
  · exact h.imp (fun h => Nat.le_of_lt h)
  · exact hp

theorem ascending_full (l : List Nat) (k : Nat) (h : l.Pairwise (· < ·)) (hr : ∀ i ∈ l, i < k)
    (hl : l.length = k) : l = List.range k := by
  apply ascending_eq_of_mem_iff h List.pairwise_lt_range
  have hsub : l.toFinset ⊆ Finset.range k := by
    intro a ha
    rw [List.mem_toFinset] at ha
    exact Finset.mem_range.mpr (hr a ha)
  have hcard : (Finset.range k).card ≤ l.toFinset.card := by
    rw [List.toFinset_card_of_nodup (pairwise_lt_nodup h), Finset.card_range, hl]
  have heq := Finset.eq_of_subset_of_card_le hsub hcard
  intro a
  rw [← List.mem_toFinset, heq, Finset.mem_range, List.mem_range]

theorem map_getD_range (A : List Nat) : (List.range A.length).map (fun i => A.getD i 0) = A := by
  apply List.ext_getElem
  · simp
  · intro i h1 h2
    simp [List.getD_eq_getElem?_getD, h2]

theorem keep_lt' (m : Matrix Rat) (idx : List Nat) : ∀ i ∈ m.keep idx, i < m.size := by
  intro i hi
  simp only [Matrix.keep, List.mem_filter, List.mem_range] at hi
  exact hi.1

theorem stateM_slice (σ : Nat → Nat → Rat) (A best : List Nat) (hb : best.Pairwise (· < ·))
    (hr : ∀ i ∈ best, i < A.length) :
    (stateM σ A).slice best = stateM σ (best.map fun i => A.getD i 0) := by
  unfold Matrix.slice
  split
  · rename_i heq
    have heq' : best.length = A.length := by simpa [stateM] using heq
    rw [ascending_full best A.length hb hr heq', map_getD_range]
  · rw [sortIdx_of_ascending best hb]
    exact stateM_sub σ A best hr

theorem stateM_without (σ : Nat → Nat → Rat) (A left : List Nat)
    (hne : ¬(left.length == (stateM σ A).size) = true) :
    (stateM σ A).without left = stateM σ (((stateM σ A).keep left).map fun i => A.getD i 0) := by
  unfold Matrix.without
  rw [if_neg hne]
  exact stateM_sub σ A _ (fun i hi => by
    have := keep_lt' (stateM σ A) left i hi
    exact this)

/-! ## simulation: inner distillation = `narrow` -/

/-- the alternatives (original numbers) that carry a non-zero position -/
def classed (A : List Nat) (ps : List Int) : List Nat :=
  ((List.range A.length).filter fun i => ps.getD i 0 != 0).map fun i => A.getD i 0

theorem classed_all (A : List Nat) (pos : Int) (hpos : 1 ≤ pos) :
    classed A (samePositions A.length pos) = A := by
  unfold classed
  have : (List.range A.length).filter (fun i => (samePositions A.length pos).getD i 0 != 0) = List.range A.length := by
    apply List.filter_eq_self.mpr
    intro i hi
    simp only [List.mem_range] at hi
    simp only [samePositions, List.getD_eq_getElem?_getD, List.getElem?_replicate, hi, if_true, Option.getD_some,
      bne_iff_ne, ne_eq]
    omega
  rw [this, map_getD_range]

/-- positions written through `updateValues` at `best`: the classed alternatives are those of the sub-vector -/
theorem classed_updateValues (A best : List Nat) (sub : List Int) (hb : best.Pairwise (· < ·))
    (hr : ∀ i ∈ best, i < A.length) (hl : sub.length = best.length) :
    classed A (updateValues best (samePositions A.length 0) sub)
      = classed (best.map fun i => A.getD i 0) sub := by
  obtain ⟨u1, u2, u3⟩ := updateValues_spec best A.length sub hb hr hl
  set ps := updateValues best (samePositions A.length 0) sub with hps
  unfold classed
  rw [List.length_map]
  have hidx : (List.range A.length).filter (fun i => ps.getD i 0 != 0)
      = ((List.range best.length).filter fun j => sub.getD j 0 != 0).map fun j => best.getD j 0 := by
    apply ascending_eq_of_mem_iff (List.pairwise_lt_range.filter _)
    · rw [List.pairwise_map]
      apply (List.pairwise_lt_range.filter _).imp_of_mem
      intro a b ha hb' hab
      have ha' : a < best.length := by simpa using (List.mem_filter.mp ha).1
      have hb'' : b < best.length := by simpa using (List.mem_filter.mp hb').1
      rw [List.getD_eq_getElem?_getD, List.getD_eq_getElem?_getD, List.getElem?_eq_getElem ha',
        List.getElem?_eq_getElem hb'']
      exact (List.pairwise_iff_getElem.mp hb) a b ha' hb'' hab
    · intro a
      simp only [List.mem_filter, List.mem_range, List.mem_map]
      constructor
      · rintro ⟨ha, hne⟩
        have hab : a ∈ best := by
          apply Classical.byContradiction
          intro hnb
          have h0 := u2 a hnb
          rw [h0] at hne
          simp at hne
        obtain ⟨j, hj, rfl⟩ := List.mem_iff_getElem.mp hab
        refine ⟨j, ⟨hj, ?_⟩, by simp [List.getD_eq_getElem?_getD, hj]⟩
        rw [u3 j hj] at hne
        have hj' : j < sub.length := by rw [hl]; exact hj
        simpa [List.getD_eq_getElem?_getD, hj'] using hne
      · rintro ⟨j, ⟨hj, hne⟩, rfl⟩
        have hbj : best.getD j 0 = best[j] := by simp [List.getD_eq_getElem?_getD, hj]
        rw [hbj]
        refine ⟨hr _ (List.getElem_mem hj), ?_⟩
        rw [u3 j hj]
        have hj' : j < sub.length := by rw [hl]; exact hj
        simpa [List.getD_eq_getElem?_getD, hj'] using hne
  rw [hidx, List.map_map]
  apply List.map_congr_left
  intro j hj
  have hj' : j < best.length := by simpa using (List.mem_filter.mp hj).1
  simp [List.getD_eq_getElem?_getD, hj']

/-- what the simulation needs from a recursive inner call with fuel `f` -/
def InnerSim (σ : Nat → Nat → Rat) (s : LinFun Rat) (pm : Bool)
    (recur : Rat → Int → Matrix Rat → Bool → R (List Int)) (f : Nat) : Prop :=
  ∀ (lam : Rat) (pos : Int) (A : List Nat) (ps : List Int), 1 ≤ pos → A ≠ [] →
    recur lam pos (stateM σ A) true = .ok ps →
    ∀ fN, f ≤ fN → Spec.C05.narrow σ s pm fN A lam = some (classed A ps)

/-- one level (cut level, qualification, best set, optional inner distillation) = one step of `narrow` -/
theorem level_sim (σ : Nat → Nat → Rat) (hd : ∀ i, σ i i = 0) (s : LinFun Rat) (pm : Bool)
    (recur : Rat → Int → Matrix Rat → Bool → R (List Int)) (f : Nat) (hrec : InnerSim σ s pm recur f)
    (hlen : ∀ mc pos m ps, recur mc pos m true = .ok ps → ps.length = m.size)
    (A : List Nat) (hA : A ≠ []) (lam : Rat) (hlam : (lam == (Num.zero : Rat)) = false)
    (pos : Int) (hpos : 1 ≤ pos)
    (dm : Rat × Matrix Rat) (hdm : getDistillateMatrix s lam (stateM σ A) = .ok dm)
    (bm : Int × List Nat) (hbm : findBestMatch (computeQuality dm.2) (cmpOf pm) = .ok bm)
    (positions : List Int) (hp : levelPositions recur (stateM σ A) bm.2 dm.1 pos = .ok positions) :
    ∀ fN, f + 1 ≤ fN → Spec.C05.narrow σ s pm fN A lam = some (classed A positions) := by
  intro fN hfN
  obtain ⟨fN', rfl⟩ : ∃ fN', fN = fN' + 1 := ⟨fN - 1, by omega⟩
  obtain ⟨hcut, hvals⟩ := stateM_cut σ hd s A hA lam dm hdm
  have hcut0 : 0 ≤ dm.1 := by rw [hcut]; exact cutLevel_nonneg σ s A lam
  rw [hvals, stateM_quality σ hd s A dm.1 hcut0] at hbm
  have hB := findBestMatch_bestSet pm A _ bm hbm
  obtain ⟨bne, basc, brange⟩ := findBestMatch_facts _ _ _ hbm
  rw [List.length_map] at brange
  unfold Spec.C05.narrow
  rw [hlam]
  simp only [Bool.false_eq_true, if_false]
  rw [← hcut, ← hB]
  simp only [List.length_map, Num.zero_rat]
  unfold levelPositions at hp
  simp only [Num.zero_rat] at hp
  by_cases hc : (decide (bm.2.length > 1) && decide ((0 : Rat) < dm.1)) = true
  · simp only [hc, if_true] at hp ⊢
    simp only [bind, Except.bind] at hp
    split at hp
    · cases hp
    · rename_i sub hsub
      simp only [pure, Except.pure, Except.ok.injEq] at hp
      subst hp
      rw [stateM_slice σ A bm.2 basc brange] at hsub
      have hBne : (bm.2.map fun i => A.getD i 0) ≠ [] := by simpa using bne
      have hsl : sub.length = bm.2.length := by
        have := hlen _ _ _ _ hsub
        simpa [stateM] using this
      rw [hrec dm.1 pos _ sub hpos hBne hsub fN' (by omega)]
      congr 1
      exact (classed_updateValues A bm.2 sub basc brange hsl).symm
  · have hblen : 0 < bm.2.length := List.length_pos_iff.mpr bne
    simp only [hc, Bool.false_eq_true, if_false, hblen, if_true, pure, Except.pure, Except.ok.injEq] at hp ⊢
    subst hp
    congr 1
    have := classed_updateValues A bm.2 (samePositions bm.2.length pos) basc brange (by simp [samePositions])
    simp only [stateM] at this ⊢
    rw [this]
    have h2 := classed_all (bm.2.map fun i => A.getD i 0) pos hpos
    rw [List.length_map] at h2
    exact h2.symm

/-- **inner distillation refines `narrow`** -/
theorem inner_sim (σ : Nat → Nat → Rat) (hd : ∀ i, σ i i = 0) (s : LinFun Rat) (pm : Bool) (f : Nat) :
    InnerSim σ s pm (distillate (cmpOf pm) s f) f := by
  induction f with
  | zero =>
    intro lam pos A ps _ _ h
    simp [distillate, throw, throwThe, MonadExceptOf.throw] at h
  | succ f ih =>
    intro lam pos A ps hpos hA h fN hfN
    unfold distillate at h
    by_cases hz : (lam == (Num.zero : Rat)) = true
    · simp only [hz, if_true, pure, Except.pure, Except.ok.injEq] at h
      subst h
      obtain ⟨fN', rfl⟩ : ∃ fN', fN = fN' + 1 := ⟨fN - 1, by omega⟩
      unfold Spec.C05.narrow
      simp only [hz, if_true]
      have : (stateM σ A).size = A.length := rfl
      rw [this, classed_all A pos hpos]
    · have hz' : (lam == (Num.zero : Rat)) = false := by simpa using hz
      simp only [hz', Bool.false_eq_true, if_false, bind, Except.bind] at h
      split at h
      · cases h
      · rename_i dm hdm
        split at h
        · cases h
        · rename_i bm hbm
          split at h
          · cases h
          · rename_i positions hp
            unfold finishLevel at h
            simp only [Bool.or_true, if_true, pure, Except.pure, Except.ok.injEq] at h
            subst h
            exact level_sim σ hd s pm _ f ih (fun mc pos m ps h => distillate_length _ _ _ _ _ _ _ _ h)
              A hA lam hz' pos hpos dm hdm bm hbm positions hp fN hfN

/-! ## simulation: outer distillation = `distill` -/

/-- indices of the free slots -/
def zerosIdx (ps : List Int) : List Nat := (List.range ps.length).filter fun i => ps.getD i 0 == 0

theorem zerosIdx_cons (p : Int) (ps : List Int) :
    zerosIdx (p :: ps) = (if p == 0 then [0] else []) ++ (zerosIdx ps).map Nat.succ := by
  unfold zerosIdx
  rw [List.length_cons, List.range_succ_eq_map, List.filter_cons, List.filter_map]
  have : ((fun i => (p :: ps).getD i 0 == 0) ∘ Nat.succ) = fun i => ps.getD i 0 == 0 := by
    funext i; simp [List.getD_eq_getElem?_getD]
  rw [this]
  by_cases hp : (p == 0) = true
  · simp [hp, List.getD_eq_getElem?_getD]
  · simp [hp, List.getD_eq_getElem?_getD]

/-- where `writePositionsSequentially` puts what -/
theorem writePositionsSequentially_getD (w ps out : List Int) (h : writePositionsSequentially w ps = .ok out) :
    (∀ i, ps.getD i 0 ≠ 0 → out.getD i 0 = ps.getD i 0) ∧
    (∀ j (hj : j < (zerosIdx ps).length), out.getD ((zerosIdx ps)[j]) 0 = w.getD j 0) := by
  induction ps generalizing w out with
  | nil =>
    simp only [writePositionsSequentially, pure, Except.pure, Except.ok.injEq] at h
    subst h
    exact ⟨fun i hi => by simp at hi, fun j hj => by simp [zerosIdx] at hj⟩
  | cons p rest ih =>
    unfold writePositionsSequentially at h
    split at h
    · rename_i hp
      have hp0 : p = 0 := by simpa using hp
      cases w with
      | nil => simp [throw, throwThe, MonadExceptOf.throw] at h
      | cons x ws =>
        simp only [bind, Except.bind] at h
        cases hr : writePositionsSequentially ws rest with
        | error e => rw [hr] at h; cases h
        | ok r =>
          rw [hr] at h
          simp only [pure, Except.pure, Except.ok.injEq] at h
          subst h
          obtain ⟨i1, i2⟩ := ih ws r hr
          constructor
          · intro i hi
            cases i with
            | zero => simp [hp0] at hi
            | succ i =>
              simp only [List.getD_eq_getElem?_getD, List.getElem?_cons_succ] at hi ⊢
              have := i1 i (by simpa [List.getD_eq_getElem?_getD] using hi)
              simpa [List.getD_eq_getElem?_getD] using this
          · intro j hj
            have hz := zerosIdx_cons p rest
            simp only [hp, if_true] at hz
            cases j with
            | zero => simp [hz]
            | succ j =>
              have hj' : j < (zerosIdx rest).length := by
                rw [hz] at hj; simpa using hj
              have := i2 j hj'
              simp only [hz, List.singleton_append, List.getElem_cons_succ, List.getElem_map,
                List.getD_eq_getElem?_getD, List.getElem?_cons_succ] at this ⊢
              exact this
    · rename_i hp
      have hp0 : p ≠ 0 := by simpa using hp
      simp only [bind, Except.bind] at h
      cases hr : writePositionsSequentially w rest with
      | error e => rw [hr] at h; cases h
      | ok r =>
        rw [hr] at h
        simp only [pure, Except.pure, Except.ok.injEq] at h
        subst h
        obtain ⟨i1, i2⟩ := ih w r hr
        constructor
        · intro i hi
          cases i with
          | zero => simp
          | succ i =>
            simp only [List.getD_eq_getElem?_getD, List.getElem?_cons_succ] at hi ⊢
            have := i1 i (by simpa [List.getD_eq_getElem?_getD] using hi)
            simpa [List.getD_eq_getElem?_getD] using this
        · intro j hj
          have hz := zerosIdx_cons p rest
          have hpf : (p == 0) = false := by simpa using hp0
          simp only [hpf, Bool.false_eq_true, if_false, List.nil_append] at hz
          have hj' : j < (zerosIdx rest).length := by
            rw [hz] at hj; simpa using hj
          have := i2 j hj'
          simp only [hz, List.getElem_map, List.getD_eq_getElem?_getD, List.getElem?_cons_succ] at this ⊢
          exact this

theorem lookup_map_const_mem (C : List Nat) (pos : Int) (a : Nat) (h : a ∈ C) :
    (C.map fun i => (i, pos)).lookup a = some pos := by
  induction C with
  | nil => cases h
  | cons c C ih =>
    simp only [List.map_cons, List.lookup_cons]
    by_cases hac : a = c
    · subst hac; simp
    · have : (a == c) = false := by simpa using hac
      rw [this]
      exact ih (by simpa [hac] using h)

theorem lookup_map_const_not_mem (C : List Nat) (pos : Int) (a : Nat) (h : a ∉ C) :
    (C.map fun i => (i, pos)).lookup a = none := by
  induction C with
  | nil => rfl
  | cons c C ih =>
    simp only [List.map_cons, List.lookup_cons]
    have hac : a ≠ c := fun he => h (by simp [he])
    have : (a == c) = false := by simpa using hac
    rw [this]
    exact ih (fun hm => h (by simp [hm]))

theorem filter_via_range (A : List Nat) (P : Nat → Bool) :
    A.filter P = ((List.range A.length).filter fun i => P (A.getD i 0)).map fun i => A.getD i 0 := by
  have h := map_getD_range A
  have h2 : A.filter P = ((List.range A.length).map fun i => A.getD i 0).filter P := by rw [h]
  rw [h2, List.filter_map]
  rfl

theorem nodup_getElem_inj' {l : List Nat} (hn : l.Nodup) {i j : Nat} (hi : i < l.length) (hj : j < l.length)
    (h : l[i] = l[j]) : i = j := by
  have hp := List.pairwise_iff_getElem.mp (List.nodup_iff_pairwise_ne.mp hn)
  rcases Nat.lt_trichotomy i j with hlt | heq | hgt
  · exact absurd h (hp i j hi hj hlt)
  · exact heq
  · exact absurd h.symm (hp j i hj hi hgt)

theorem mem_classed (A : List Nat) (hn : A.Nodup) (ps : List Int) (i : Nat) (hi : i < A.length) :
    A[i] ∈ classed A ps ↔ ps.getD i 0 ≠ 0 := by
  unfold classed
  simp only [List.mem_map, List.mem_filter, List.mem_range, bne_iff_ne, ne_eq]
  constructor
  · rintro ⟨j, ⟨hj, hne⟩, he⟩
    rw [List.getD_eq_getElem?_getD, List.getElem?_eq_getElem hj] at he
    simp only [Option.getD_some] at he
    have := nodup_getElem_inj' hn hj hi he
    rw [← this]; exact hne
  · intro hne
    exact ⟨i, ⟨hi, hne⟩, by simp [List.getD_eq_getElem?_getD, hi]⟩

/-- the spec's rest `A \\ C` is the list of the alternatives at the free slots -/
theorem rest_eq (A : List Nat) (hn : A.Nodup) (ps : List Int) (hl : ps.length = A.length) :
    (A.filter fun a => !(classed A ps).contains a) = (zerosIdx ps).map fun i => A.getD i 0 := by
  rw [filter_via_range]
  congr 1
  unfold zerosIdx
  rw [hl]
  apply List.filter_congr
  intro i hi
  simp only [List.mem_range] at hi
  have hget : A.getD i 0 = A[i] := by rw [List.getD_eq_getElem?_getD, List.getElem?_eq_getElem hi]; rfl
  rw [hget]
  have := mem_classed A hn ps i hi
  by_cases hz : ps.getD i 0 = 0
  · have hnm : A[i] ∉ classed A ps := fun hm => (this.mp hm) hz
    have hz' := hz
    rw [List.getD_eq_getElem?_getD] at hz'
    simp [hz', hnm]
  · have hm : A[i] ∈ classed A ps := this.mpr hz
    have hz' := hz
    rw [List.getD_eq_getElem?_getD] at hz'
    simp [hz', hm]

/-- the assignment `asg` gives alternative `A[i]` the class number `ps[i]` -/
def Assigns (asg : List (Nat × Int)) (A : List Nat) (ps : List Int) : Prop :=
  ∀ i (hi : i < A.length), asg.lookup A[i] = some (ps.getD i 0)

/-- **outer distillation refines `distill`** -/
theorem outer_sim (σ : Nat → Nat → Rat) (hd : ∀ i, σ i i = 0) (s : LinFun Rat) (pm : Bool) (f : Nat) :
    ∀ (lam : Rat) (pos : Int) (A : List Nat) (ps : List Int), 1 ≤ pos → A ≠ [] → A.Nodup →
      lam = Spec.C05.maxOr0 ((Spec.C05.pairs A).map fun p => σ p.1 p.2) →
      distillate (cmpOf pm) s f lam pos (stateM σ A) false = .ok ps →
      ∀ fN fo, f ≤ fN → f ≤ fo →
        ∃ asg, Spec.C05.distill σ s pm fN fo A pos = some asg ∧ Assigns asg A ps := by
  induction f with
  | zero =>
    intro lam pos A ps _ _ _ _ h
    simp [distillate, throw, throwThe, MonadExceptOf.throw] at h
  | succ f ih =>
    intro lam pos A ps hpos hA hn hlam h fN fo hfN hfo
    obtain ⟨fo', rfl⟩ : ∃ fo', fo = fo' + 1 := ⟨fo - 1, by omega⟩
    have hsz : (stateM σ A).size = A.length := rfl
    have hAe : A.isEmpty = false := by
      cases A with
      | nil => exact absurd rfl hA
      | cons a A' => rfl
    unfold Spec.C05.distill
    simp only [hAe, Bool.false_eq_true, if_false]
    rw [← hlam]
    unfold distillate at h
    by_cases hz : (lam == (Num.zero : Rat)) = true
    · -- credibility level 0: everybody in one class
      simp only [hz, if_true, pure, Except.pure, Except.ok.injEq] at h
      subst h
      obtain ⟨fN', rfl⟩ : ∃ fN', fN = fN' + 1 := ⟨fN - 1, by omega⟩
      have hnar : Spec.C05.narrow σ s pm (fN' + 1) A lam = some A := by
        unfold Spec.C05.narrow; simp only [hz, if_true]
      simp only [hnar, Option.bind_eq_bind, Option.bind_some]
      have hrest : (A.filter fun i => !A.contains i) = [] := by
        apply List.filter_eq_nil_iff.mpr
        intro a ha; simp [ha]
      simp only [hrest, List.isEmpty_nil, Bool.true_or, if_true]
      refine ⟨_, rfl, ?_⟩
      intro i hi
      rw [lookup_map_const_mem A pos A[i] (List.getElem_mem hi)]
      simp [samePositions, hsz, List.getD_eq_getElem?_getD, hi]
    · have hz' : (lam == (Num.zero : Rat)) = false := by simpa using hz
      simp only [hz', Bool.false_eq_true, if_false, bind, Except.bind] at h
      split at h
      · cases h
      · rename_i dm hdm
        split at h
        · cases h
        · rename_i bm hbm
          split at h
          · cases h
          · rename_i positions hp
            -- the class of this level
            have hnar := level_sim σ hd s pm _ f (inner_sim σ hd s pm f)
              (fun mc pos m ps h => distillate_length _ _ _ _ _ _ _ _ h)
              A hA lam hz' pos hpos dm hdm bm hbm positions hp fN hfN
            simp only [hnar, Option.bind_eq_bind, Option.bind_some]
            -- facts about the positions of this level
            obtain ⟨bne, basc, brange⟩ := findBestMatch_facts _ _ _ hbm
            rw [computeQuality_length, getDistillateMatrix_size s lam _ dm hdm, hsz] at brange
            have hrecI : ∀ mc pos m ps, 1 ≤ pos → m.size ≠ 0 →
                distillate (cmpOf pm) s f mc pos m true = .ok ps → InnerOk pos ps ∧ ps.length = m.size :=
              fun mc pos m ps h1 h2 h3 => ⟨(distillate_classes _ s f mc pos m true ps h1 h2 h3).1 rfl,
                distillate_length _ _ _ _ _ _ _ _ h3⟩
            obtain ⟨plen, pin, pz⟩ := levelPositions_classes _ hrecI (stateM σ A) bm.2 dm.1 pos hpos bne basc
              (by rw [hsz]; exact brange) positions hp
            rw [hsz] at plen
            have hleft := updatedPositions_eq bm.2 positions basc (by rw [plen]; exact brange) pz
            have hCne : (classed A positions).isEmpty = false := by
              obtain ⟨k, hk, hkp⟩ := List.mem_iff_getElem.mp pin.2
              have hk' : k < A.length := by rw [← plen]; exact hk
              have : A[k] ∈ classed A positions := (mem_classed A hn positions k hk').mpr (by
                rw [List.getD_eq_getElem?_getD, List.getElem?_eq_getElem hk]
                simp only [Option.getD_some]; rw [hkp]; omega)
              cases hcl : classed A positions with
              | nil => rw [hcl] at this; cases this
              | cons c cs => rfl
            rw [rest_eq A hn positions plen]
            unfold finishLevel at h
            simp only [Bool.or_false] at h
            by_cases hall : ((updatedPositions bm.2 positions).length == (stateM σ A).size) = true
            · -- everybody classed at this level
              simp only [hall, if_true, pure, Except.pure, Except.ok.injEq] at h
              subst h
              have hallnz : ∀ i, i < positions.length → positions.getD i 0 ≠ 0 := by
                rw [hleft, beq_iff_eq, hsz, ← plen] at hall
                have hfl : ((List.range positions.length).filter fun i => positions.getD i 0 != 0).length
                    = (List.range positions.length).length := by rw [List.length_range]; exact hall
                have := List.length_filter_eq_length_iff.mp hfl
                intro i hi
                simpa using this i (by simpa using hi)
              have hznil : zerosIdx positions = [] := by
                unfold zerosIdx
                apply List.filter_eq_nil_iff.mpr
                intro i hi
                simp only [List.mem_range] at hi
                simpa using hallnz i hi
              simp only [hznil, List.map_nil, List.isEmpty_nil, Bool.true_or, if_true]
              refine ⟨_, rfl, ?_⟩
              intro i hi
              have hi' : i < positions.length := by rw [plen]; exact hi
              have hnz := hallnz i hi'
              rw [lookup_map_const_mem _ pos A[i] ((mem_classed A hn positions i hi).mpr hnz)]
              rcases pin.1 _ (List.getElem_mem hi') with h0 | hpv
              · exfalso; apply hnz
                rw [List.getD_eq_getElem?_getD, List.getElem?_eq_getElem hi']; exact h0
              · rw [List.getD_eq_getElem?_getD, List.getElem?_eq_getElem hi']
                simp [hpv]
            · -- somebody is left: distillate the rest
              simp only [hall, Bool.false_eq_true, if_false, bind, Except.bind] at h
              split at h
              · cases h
              · rename_i mc hmc
                split at h
                · cases h
                · rename_i further hfur
                  have hkeep : (stateM σ A).keep (updatedPositions bm.2 positions) = zerosIdx positions := by
                    rw [hleft]
                    exact keep_eq_zeros (stateM σ A) positions (by rw [plen]; rfl)
                  have hnext : (stateM σ A).without (updatedPositions bm.2 positions)
                      = stateM σ ((zerosIdx positions).map fun i => A.getD i 0) := by
                    rw [stateM_without σ A _ hall, hkeep]
                  rw [hnext] at hmc hfur
                  have hRne : ((zerosIdx positions).map fun i => A.getD i 0) ≠ [] := by
                    have := findBest_size_ne_zero _ _ _ hmc
                    intro he
                    apply this
                    rw [he]; rfl
                  have hRnd : ((zerosIdx positions).map fun i => A.getD i 0).Nodup := by
                    rw [← rest_eq A hn positions plen]
                    exact hn.filter _
                  have hmc' := stateM_max σ hd _ hRne
                  rw [hmc] at hmc'
                  simp only [Except.ok.injEq] at hmc'
                  obtain ⟨asg', hasg', hass'⟩ := ih mc (pos + 1) _ further (by omega) hRne hRnd hmc' hfur
                    fN fo' (by omega) (by omega)
                  have hRe : ((zerosIdx positions).map fun i => A.getD i 0).isEmpty = false := by
                    cases hcl : (zerosIdx positions).map fun i => A.getD i 0 with
                    | nil => exact absurd hcl hRne
                    | cons c cs => rfl
                  simp only [hRe, hCne, Bool.or_self, Bool.false_eq_true, if_false, hasg',
                    Option.bind_some]
                  refine ⟨_, rfl, ?_⟩
                  obtain ⟨w1, w2⟩ := writePositionsSequentially_getD further positions ps h
                  intro i hi
                  have hi' : i < positions.length := by rw [plen]; exact hi
                  rw [List.lookup_append]
                  by_cases hnz : positions.getD i 0 = 0
                  · -- a free slot: class number from the rest
                    have hnm : A[i] ∉ classed A positions := fun hm => ((mem_classed A hn positions i hi).mp hm) hnz
                    rw [lookup_map_const_not_mem _ pos A[i] hnm, Option.none_or]
                    have hiz : i ∈ zerosIdx positions := by
                      unfold zerosIdx
                      exact List.mem_filter.mpr ⟨List.mem_range.mpr hi', by simpa using hnz⟩
                    obtain ⟨j, hj, hje⟩ := List.mem_iff_getElem.mp hiz
                    have hjR : j < ((zerosIdx positions).map fun i => A.getD i 0).length := by simpa using hj
                    have hl := hass' j hjR
                    have hRj : ((zerosIdx positions).map fun i => A.getD i 0)[j] = A[i] := by
                      simp only [List.getElem_map, hje]
                      rw [List.getD_eq_getElem?_getD, List.getElem?_eq_getElem hi]; rfl
                    rw [hRj] at hl
                    rw [hl, ← w2 j hj, hje]
                  · -- classed at this level
                    rw [lookup_map_const_mem _ pos A[i] ((mem_classed A hn positions i hi).mpr hnz)]
                    rw [w1 i hnz]
                    rcases pin.1 _ (List.getElem_mem hi') with h0 | hpv
                    · exfalso; apply hnz
                      rw [List.getD_eq_getElem?_getD, List.getElem?_eq_getElem hi']; exact h0
                    · rw [List.getD_eq_getElem?_getD, List.getElem?_eq_getElem hi']
                      simp [hpv]

/-! ## the refinement theorem -/

theorem sigmaOf_diag (m : Matrix Rat) (i : Nat) : Spec.C05.sigmaOf m i i = 0 := by
  simp [Spec.C05.sigmaOf]

/-- `removeDiagonal m` is the state matrix of all alternatives under `σ_m` -/
theorem removeDiagonal_eq_stateM (m : Matrix Rat) (h : m.data.length = m.size * m.size) :
    removeDiagonal m = stateM (Spec.C05.sigmaOf m) (List.range m.size) := by
  have hlen : (removeDiagonal m).data.length = (removeDiagonal m).size * (removeDiagonal m).size := by
    simp only [removeDiagonal, Matrix.filter, List.length_mapIdx]; exact h
  have hdat := data_eq_tabulate (removeDiagonal m) hlen
  have hsz : (removeDiagonal m).size = m.size := rfl
  cases hrd : removeDiagonal m with
  | mk sz dat =>
    rw [hrd] at hdat hsz
    simp only at hdat hsz
    subst hsz
    simp only [stateM, List.length_range, Matrix.mk.injEq, true_and]
    rw [hdat]
    unfold tabulate
    apply flatMap_congr'
    intro r hr
    apply List.map_congr_left
    intro c hc
    simp only [List.mem_range] at hr hc
    have := filter_at m h (fun r c _ => r != c) r c hr hc
    rw [← hrd]
    unfold removeDiagonal
    simp only
    rw [this]
    unfold Spec.C05.sigmaOf
    by_cases hrc : r = c
    · subst hrc; simp
    · simp [hrc]

theorem mapM_option_all_some {β γ : Type} (l : List β) (f : β → Option γ) (g : β → γ)
    (h : ∀ x ∈ l, f x = some (g x)) : l.mapM f = some (l.map g) := by
  induction l with
  | nil => rfl
  | cons x l ih =>
    rw [List.mapM_cons, h x (by simp), ih (fun y hy => h y (by simp [hy]))]
    rfl

/-- **refinement**: whatever `rank` returns is what the declarative distillation of the spec assigns.
    The flat-array re-indexing (`Slice`, `Without`, sequential write-back) is invisible. -/
theorem rank_refines_classes (m : Matrix Rat) (s : LinFun Rat) (pm : Bool)
    (hlen : m.data.length = m.size * m.size) (ps : List Int)
    (h : rank m s (cmpOf pm) = .ok ps) : Spec.C05.classes m s pm = some ps := by
  have hl := rank_length m s _ ps h
  unfold rank at h
  simp only [bind, Except.bind] at h
  split at h
  · cases h
  · rename_i mc hmc
    have hsz : m.size ≠ 0 := findBest_size_ne_zero (removeDiagonal m) _ _ hmc
    rw [removeDiagonal_eq_stateM m hlen] at hmc h
    have hA : List.range m.size ≠ [] := by
      intro he
      apply hsz
      have := congrArg List.length he
      simpa using this
    have hmax := stateM_max (Spec.C05.sigmaOf m) (sigmaOf_diag m) _ hA
    rw [hmc] at hmax
    simp only [Except.ok.injEq] at hmax
    obtain ⟨asg, hasg, hass⟩ := outer_sim (Spec.C05.sigmaOf m) (sigmaOf_diag m) s pm _ mc 1 _ ps (le_refl _) hA
      List.nodup_range hmax h (rankFuel m.size) (rankFuel m.size) (le_refl _) (le_refl _)
    unfold Spec.C05.classes
    simp only [hasg, Option.bind_eq_bind, Option.bind_some]
    rw [mapM_option_all_some (List.range m.size) _ (fun i => ps.getD i 0)]
    · congr 1
      apply List.ext_getElem
      · simp [hl]
      · intro i h1 h2
        simp [List.getD_eq_getElem?_getD, h2]
    · intro i hi
      simp only [List.mem_range] at hi
      have := hass i (by simpa using hi)
      simpa using this

theorem rankAscending_refines (m : Matrix Rat) (s : LinFun Rat) (hlen : m.data.length = m.size * m.size)
    (ps : List Int) (h : rankAscending m s = .ok ps) : Spec.C05.specAscending m s = some ps :=
  rank_refines_classes m s true hlen ps h

theorem rankDescending_refines (m : Matrix Rat) (s : LinFun Rat) (hlen : m.data.length = m.size * m.size)
    (ps : List Int) (h : rankDescending m s = .ok ps) : Spec.C05.specDescending m s = some ps := by
  unfold rankDescending at h
  simp only [bind, Except.bind] at h
  split at h
  · cases h
  · rename_i r hr
    split at h
    · cases h
    · rename_i mx hmx
      simp only [pure, Except.pure, Except.ok.injEq] at h
      subst h
      have hcl := rank_refines_classes m s false hlen r hr
      obtain ⟨k, hk⟩ := rank_classes m s _ r hr
      obtain ⟨m1, m2⟩ := maxInt_spec r mx hmx
      unfold Spec.C05.specDescending
      simp only [hcl, Option.bind_eq_bind, Option.bind_some]
      -- both maxima are the largest class number
      have hmx1 : 1 ≤ mx := ((hk mx).mp m1).1
      have hfold : r.foldl (fun b x => if b < x then x else b) 0 = mx := by
        obtain ⟨g1, g2⟩ := foldl_max_ge r 0
        rcases foldl_max_mem r 0 with h0 | hm
        · have := g2 mx m1
          omega
        · have := m2 _ hm
          have := g2 mx m1
          omega
      rw [hfold]

end Rdm
