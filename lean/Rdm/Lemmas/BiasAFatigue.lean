/-
  Lemmas about the fatigue bias (C17): the move before bounding, `BoundValue` against its documented
  definition, the blur loops.
-/
import Rdm.Lemmas.BiasABasic
import Rdm.Lemmas.NumRat
import Rdm.Spec.C17
import Mathlib.Tactic.Linarith
import Mathlib.Tactic.Ring
import Mathlib.Algebra.Order.AbsoluteValue.Basic
set_option linter.unusedSectionVars false
set_option linter.unusedSimpArgs false
open Rdm
namespace Rdm.BiasA
variable {α : Type} [Num α]

/-- the value before bounding -/
def preBound (f v u s : α) : α :=
  v + v * u * f * (if Num.ge s (Num.ofConst Facts.fatigueSignHalf) then -Num.one else Num.one)

theorem blurValue_eq (f : α) (b : Bounding α) (range : α × α) (v u s : α) :
    blurValue f b range v u s = b.bound range (preBound f v u s) := rfl

theorem numAbs_eq_abs (x : Rat) : (Num.abs x : Rat) = |x| := by
  simp only [Num.abs_rat]
  split_ifs with h
  · exact (abs_of_neg h).symm
  · exact (abs_of_nonneg (not_lt.1 h)).symm

/-- `|v' − v| ≤ |f·v|` before bounding, for a draw `u ∈ [0,1)` and either sign -/
theorem preBound_close (f v u s : Rat) (h0 : 0 ≤ u) (h1 : u < 1) :
    Num.abs (preBound f v u s - v) ≤ Num.abs (f * v) := by
  rw [numAbs_eq_abs, numAbs_eq_abs]
  unfold preBound
  have key : |v * u * f| ≤ |f * v| := by
    rw [abs_mul, abs_mul, abs_mul, abs_of_nonneg h0]
    have : |v| * u * |f| = (|f| * |v|) * u := by ring
    rw [this]
    exact mul_le_of_le_one_right (mul_nonneg (abs_nonneg _) (abs_nonneg _)) h1.le
  split_ifs
  · have : v + v * u * f * -Num.one - v = -(v * u * f) := by simp only [Num.one_rat]; ring
    rw [this, abs_neg]; exact key
  · have : v + v * u * f * Num.one - v = v * u * f := by simp only [Num.one_rat]; ring
    rw [this]; exact key

/-- the sign is `−1` exactly when the sign draw is at least one half -/
theorem sign_half : (Num.ofConst Facts.fatigueSignHalf : Rat) = 1 / 2 := by
  simp only [Num.ofConst_rat]; decide +kernel

theorem preBound_zero (v u s : Rat) : preBound 0 v u s = v := by
  unfold preBound; split_ifs <;> simp

theorem preBound_up (f v u s : Rat) (hs : s < 1 / 2) : preBound f v u s = v + v * u * f := by
  unfold preBound
  rw [sign_half]
  have : Num.ge s (1/2 : Rat) = false := by simp only [Num.ge_rat, decide_eq_false_iff_not, not_le]; exact hs
  rw [this]
  simp only [Bool.false_eq_true, if_false, Num.one_rat, mul_one]

theorem preBound_down (f v u s : Rat) (hs : 1 / 2 ≤ s) : preBound f v u s = v - v * u * f := by
  unfold preBound
  rw [sign_half]
  have : Num.ge s (1/2 : Rat) = true := by simp only [Num.ge_rat, decide_eq_true_eq]; exact hs
  rw [this]
  simp only [if_true, Num.one_rat]; ring

/-! ### bounding -/

/-- the range `BoundValue` clips into -/
def clipRange (b : Bounding α) (range : α × α) : α × α :=
  if b.scaling == Num.one then range else scaleEqually range b.scaling

theorem scaleEqually_rat (r : Rat × Rat) (σ : Rat) :
    scaleEqually r σ = Spec.C17.scaledRange r σ := by
  unfold scaleEqually Spec.C17.scaledRange
  simp only [Num.one_rat]
  norm_num

theorem clipRange_rat (b : Bounding Rat) (r : Rat × Rat) :
    clipRange b r = Spec.C17.scaledRange r b.scaling := by
  unfold clipRange
  split_ifs with h
  · have : b.scaling = 1 := by simpa [Num.beq_rat] using h
    rw [this]; unfold Spec.C17.scaledRange; ext <;> simp
  · exact scaleEqually_rat r _

/-- the scaled range is well-formed for a positive factor -/
theorem scaledRange_ordered {r : Rat × Rat} {σ : Rat} (hr : r.1 ≤ r.2) (hσ : 0 < σ) :
    (Spec.C17.scaledRange r σ).1 ≤ (Spec.C17.scaledRange r σ).2 := by
  unfold Spec.C17.scaledRange
  simp only
  have : 0 ≤ (r.2 - r.1) / 2 * σ := mul_nonneg (by linarith) hσ.le
  linarith

/-- over the rationals the model's `BoundValue` is the documented one -/
theorem bound_eq_spec (b : Bounding Rat) (r : Rat × Rat)
    (hr : 0 < b.scaling → (Spec.C17.scaledRange r b.scaling).1 ≤ (Spec.C17.scaledRange r b.scaling).2) (x : Rat) :
    b.bound r x = Spec.C17.boundSpec b r x := by
  unfold Bounding.bound Spec.C17.boundSpec
  have hcr := clipRange_rat b r
  unfold clipRange at hcr
  simp only [Num.zero_rat]
  rw [hcr]
  by_cases hs : 0 < b.scaling
  · have hord := hr hs
    simp only [hs, if_true]
    cases hb : b.nonNeg <;> simp only [Bool.false_and, Bool.true_and, Bool.false_eq_true, if_false, if_true, decide_eq_true_eq]
    all_goals
      simp only [min_def, max_def]
      split_ifs <;> first | rfl | linarith
  · simp only [hs, if_false]
    cases hb : b.nonNeg <;> simp only [Bool.false_and, Bool.true_and, Bool.false_eq_true, if_false, if_true, decide_eq_true_eq]
    simp only [max_def]
    split_ifs <;> first | rfl | linarith


theorem bound_mem (b : Bounding Rat) (r : Rat × Rat) (hs : 0 < b.scaling) (hr : r.1 ≤ r.2) (x : Rat) :
    (Spec.C17.scaledRange r b.scaling).1 ≤ b.bound r x ∧ b.bound r x ≤ (Spec.C17.scaledRange r b.scaling).2 := by
  have hord := scaledRange_ordered hr hs
  rw [bound_eq_spec b r (fun _ => hord)]
  unfold Spec.C17.boundSpec
  simp only [hs, if_true]
  exact ⟨le_min hord (le_max_left _ _), min_le_left _ _⟩

theorem bound_nonneg (b : Bounding Rat) (r : Rat × Rat) (hn : b.nonNeg = true) (hs : ¬ 0 < b.scaling) (x : Rat) :
    0 ≤ b.bound r x := by
  rw [bound_eq_spec b r (fun h => absurd h hs)]
  unfold Spec.C17.boundSpec
  simp only [hn, hs, if_true, if_false]
  exact le_max_right _ _

theorem bound_off (b : Bounding α) (r : α × α) (hn : b.nonNeg = false) (hs : ¬ Num.zero < b.scaling) (x : α) :
    b.bound r x = x := by
  unfold Bounding.bound
  simp [hn, hs]

theorem draw_ok {d d' : Draws α} {u : α} (h : draw d = .ok (u, d')) : d = u :: d' := by
  unfold draw at h
  cases d with
  | nil => cases h
  | cons x xs => rw [pure_ok] at h; cases h; rfl

/-- one blurred value: criterion key, and the value is `blurValue` of the old value for some draws of
    the two streams -/
def BlurredEntry (f : α) (b : Bounding α) (a : Alt α) (vd sd : Draws α) (cr : Crit α × (α × α)) (kv : String × α) : Prop :=
  kv.1 = cr.1.id ∧ ∃ v u s, a.vals.get? cr.1.id = some v ∧ u ∈ vd ∧ s ∈ sd ∧ kv.2 = blurValue f b cr.2 v u s

theorem blurAlt_spec {f : α} {b : Bounding α} {a : Alt α} : ∀ {cr : List (Crit α × (α × α))} {vd sd vd' sd' : Draws α}
    {vals : KMap α}, blurAlt f b a cr vd sd = .ok (vals, vd', sd') →
    List.Forall₂ (BlurredEntry f b a vd sd) cr vals ∧ (∃ us, vd = us ++ vd' ∧ us.length = cr.length) ∧
      (∃ ss, sd = ss ++ sd' ∧ ss.length = cr.length) := by
  intro cr
  induction cr with
  | nil =>
    intro vd sd vd' sd' vals h
    unfold blurAlt at h
    rw [pure_ok] at h
    cases h
    exact ⟨.nil, ⟨[], rfl, rfl⟩, ⟨[], rfl, rfl⟩⟩
  | cons c rest ih =>
    intro vd sd vd' sd' vals h
    obtain ⟨c, range⟩ := c
    unfold blurAlt at h
    rw [bind_ok] at h; obtain ⟨v, hv, h⟩ := h
    rw [bind_ok] at h; obtain ⟨⟨u, vd1⟩, hu, h⟩ := h
    simp only at h
    rw [bind_ok] at h; obtain ⟨⟨s, sd1⟩, hs, h⟩ := h
    simp only at h
    rw [bind_ok] at h; obtain ⟨⟨tl, vd2, sd2⟩, htl, h⟩ := h
    rw [pure_ok] at h
    cases h
    have hu' := draw_ok hu
    have hs' := draw_ok hs
    obtain ⟨hf, ⟨us, hus, hul⟩, ⟨ss, hss, hsl⟩⟩ := ih htl
    subst hu' hs'
    refine ⟨.cons ⟨rfl, v, u, s, raw_ok.1 hv, List.mem_cons_self, List.mem_cons_self, rfl⟩ ?_,
      ⟨u :: us, by rw [hus]; rfl, by simp [hul]⟩, ⟨s :: ss, by rw [hss]; rfl, by simp [hsl]⟩⟩
    refine hf.imp ?_
    intro cr kv ⟨h1, v', u', s', h2, h3, h4, h5⟩
    exact ⟨h1, v', u', s', h2, List.mem_cons_of_mem _ h3, List.mem_cons_of_mem _ h4, h5⟩

/-- `a'` is the blur of `a` -/
def BlurredAlt (f : α) (b : Bounding α) (cr : List (Crit α × (α × α))) (vd sd : Draws α) (a a' : Alt α) : Prop :=
  a'.id = a.id ∧ List.Forall₂ (BlurredEntry f b a vd sd) cr a'.vals

theorem blurAlts_spec {f : α} {b : Bounding α} {cr : List (Crit α × (α × α))} :
    ∀ {alts res : List (Alt α)} {vd sd vd' sd' : Draws α},
    blurAlts f b cr alts vd sd = .ok (res, vd', sd') →
    List.Forall₂ (BlurredAlt f b cr vd sd) alts res ∧ (∃ us, vd = us ++ vd') ∧ (∃ ss, sd = ss ++ sd') := by
  intro alts
  induction alts with
  | nil =>
    intro res vd sd vd' sd' h
    unfold blurAlts at h
    rw [pure_ok] at h
    cases h
    exact ⟨.nil, ⟨[], rfl⟩, ⟨[], rfl⟩⟩
  | cons a rest ih =>
    intro res vd sd vd' sd' h
    unfold blurAlts at h
    rw [bind_ok] at h; obtain ⟨⟨vals, vd1, sd1⟩, hv, h⟩ := h
    simp only at h
    rw [bind_ok] at h; obtain ⟨⟨tl, vd2, sd2⟩, htl, h⟩ := h
    rw [pure_ok] at h
    cases h
    obtain ⟨hf, ⟨us, hus, _⟩, ⟨ss, hss, _⟩⟩ := blurAlt_spec hv
    obtain ⟨hrest, ⟨us2, hus2⟩, ⟨ss2, hss2⟩⟩ := ih htl
    refine ⟨.cons ⟨rfl, hf⟩ ?_, ⟨us ++ us2, by rw [hus, hus2, List.append_assoc]⟩,
      ⟨ss ++ ss2, by rw [hss, hss2, List.append_assoc]⟩⟩
    refine hrest.imp ?_
    intro x y ⟨hid, hxy⟩
    refine ⟨hid, hxy.imp ?_⟩
    intro c kv ⟨h1, v', u', s', h2, h3, h4, h5⟩
    exact ⟨h1, v', u', s', h2, by rw [hus]; exact List.mem_append_right _ h3,
      by rw [hss]; exact List.mem_append_right _ h4, h5⟩

/-- decomposition of `fatigueBlur` -/
theorem fatigueBlur_ok {f : α} {b : Bounding α} {cur res : DMP α} {vd sd : Draws α} {rep : FatigueReport α}
    (h : fatigueBlur f b cur vd sd = .ok (res, rep)) :
    b.validate = .ok () ∧ res.crit = cur.crit ∧ res.mp = cur.mp ∧
      rep.f = f ∧ rep.co = res.co ∧ rep.nc = res.nc ∧
      ∃ cr, biasACriteriaRanges cur = .ok cr ∧
        List.Forall₂ (BlurredAlt f b cr vd sd) cur.co res.co ∧
        List.Forall₂ (BlurredAlt f b cr vd sd) cur.nc res.nc := by
  unfold fatigueBlur at h
  rw [bind_ok] at h; obtain ⟨_, hv, h⟩ := h
  rw [bind_ok] at h; obtain ⟨cr, hcr, h⟩ := h
  rw [bind_ok] at h; obtain ⟨⟨co, vd1, sd1⟩, hco, h⟩ := h
  simp only at h
  rw [bind_ok] at h; obtain ⟨⟨nc, vd2, sd2⟩, hnc, h⟩ := h
  rw [pure_ok] at h
  cases h
  obtain ⟨hfco, ⟨us, hus⟩, ⟨ss, hss⟩⟩ := blurAlts_spec hco
  obtain ⟨hfnc, _, _⟩ := blurAlts_spec hnc
  refine ⟨hv, rfl, rfl, rfl, rfl, rfl, cr, hcr, hfco, ?_⟩
  refine hfnc.imp ?_
  intro x y ⟨hid, hxy⟩
  refine ⟨hid, hxy.imp ?_⟩
  intro c kv ⟨h1, v', u', s', h2, h3, h4, h5⟩
  exact ⟨h1, v', u', s', h2, by rw [hus]; exact List.mem_append_right _ h3,
    by rw [hss]; exact List.mem_append_right _ h4, h5⟩


theorem criteriaRanges_ok {cur : DMP α} {cr : List (Crit α × (α × α))} (h : biasACriteriaRanges cur = .ok cr) :
    cr.map (·.1) = cur.crit ∧ ∀ c ∈ cr, valuesRange cur.all c.1 = .ok c.2 := by
  unfold biasACriteriaRanges at h
  have hf := mapM_ok_forall₂ h
  have key : ∀ (x : Crit α) (y : Crit α × (α × α)),
      (do pure (x, ← valuesRange cur.all x) : R (Crit α × (α × α))) = .ok y →
      y.1 = x ∧ valuesRange cur.all y.1 = .ok y.2 := by
    intro x y hxy
    rw [bind_ok] at hxy
    obtain ⟨r, hr, hxy⟩ := hxy
    rw [pure_ok] at hxy
    subst hxy
    exact ⟨rfl, hr⟩
  refine ⟨forall₂_map_eq (fun x y hxy => (key x y hxy).1) hf, ?_⟩
  intro c hc
  obtain ⟨x, _, hx⟩ := forall₂_mem_right hf c hc
  exact (key x c hx).2

/-- the new value of criterion `cr` for alternative `a`: the bounding of some `w` within `|f·v|` of
    the old value `v` -/
def MovedEntry (f : Rat) (b : Bounding Rat) (a : Alt Rat) (cr : Crit Rat × (Rat × Rat)) (kv : String × Rat) : Prop :=
  kv.1 = cr.1.id ∧ ∃ v w, a.vals.get? cr.1.id = some v ∧ kv.2 = b.bound cr.2 w ∧
    Num.abs (w - v) ≤ Num.abs (f * v) ∧ (f = 0 → w = v)

def MovedAlt (f : Rat) (b : Bounding Rat) (cr : List (Crit Rat × (Rat × Rat))) (a a' : Alt Rat) : Prop :=
  a'.id = a.id ∧ List.Forall₂ (MovedEntry f b a) cr a'.vals

/-- entry blurred with the *same* number for value and sign -/
def BlurredEntrySame (f : α) (b : Bounding α) (a : Alt α) (d : Draws α) (cr : Crit α × (α × α)) (kv : String × α) : Prop :=
  kv.1 = cr.1.id ∧ ∃ v u, a.vals.get? cr.1.id = some v ∧ u ∈ d ∧ kv.2 = blurValue f b cr.2 v u u

theorem blurAlt_same {f : α} {b : Bounding α} {a : Alt α} : ∀ {cr : List (Crit α × (α × α))} {d vd' sd' : Draws α}
    {vals : KMap α}, blurAlt f b a cr d d = .ok (vals, vd', sd') →
    vd' = sd' ∧ (∃ us, d = us ++ vd') ∧ List.Forall₂ (BlurredEntrySame f b a d) cr vals := by
  intro cr
  induction cr with
  | nil =>
    intro d vd' sd' vals h
    unfold blurAlt at h
    rw [pure_ok] at h
    cases h
    exact ⟨rfl, ⟨[], rfl⟩, .nil⟩
  | cons c rest ih =>
    intro d vd' sd' vals h
    obtain ⟨c, range⟩ := c
    unfold blurAlt at h
    rw [bind_ok] at h; obtain ⟨v, hv, h⟩ := h
    rw [bind_ok] at h; obtain ⟨⟨u, vd1⟩, hu, h⟩ := h
    simp only at h
    rw [bind_ok] at h; obtain ⟨⟨s, sd1⟩, hs, h⟩ := h
    simp only at h
    rw [bind_ok] at h; obtain ⟨⟨tl, vd2, sd2⟩, htl, h⟩ := h
    rw [pure_ok] at h
    cases h
    have hu' := draw_ok hu
    have hs' := draw_ok hs
    rw [hu'] at hs'
    cases hs'
    obtain ⟨he, ⟨us, hus⟩, hf⟩ := ih htl
    subst hu'
    refine ⟨he, ⟨u :: us, by rw [hus]; rfl⟩, .cons ⟨rfl, v, u, raw_ok.1 hv, List.mem_cons_self, rfl⟩ ?_⟩
    refine hf.imp ?_
    intro cr kv ⟨h1, v', u', h2, h3, h5⟩
    exact ⟨h1, v', u', h2, List.mem_cons_of_mem _ h3, h5⟩

def BlurredAltSame (f : α) (b : Bounding α) (cr : List (Crit α × (α × α))) (d : Draws α) (a a' : Alt α) : Prop :=
  a'.id = a.id ∧ List.Forall₂ (BlurredEntrySame f b a d) cr a'.vals

theorem blurAlts_same {f : α} {b : Bounding α} {cr : List (Crit α × (α × α))} :
    ∀ {alts res : List (Alt α)} {d vd' sd' : Draws α},
    blurAlts f b cr alts d d = .ok (res, vd', sd') →
    vd' = sd' ∧ (∃ us, d = us ++ vd') ∧ List.Forall₂ (BlurredAltSame f b cr d) alts res := by
  intro alts
  induction alts with
  | nil =>
    intro res d vd' sd' h
    unfold blurAlts at h
    rw [pure_ok] at h
    cases h
    exact ⟨rfl, ⟨[], rfl⟩, .nil⟩
  | cons a rest ih =>
    intro res d vd' sd' h
    unfold blurAlts at h
    rw [bind_ok] at h; obtain ⟨⟨vals, vd1, sd1⟩, hv, h⟩ := h
    simp only at h
    rw [bind_ok] at h; obtain ⟨⟨tl, vd2, sd2⟩, htl, h⟩ := h
    rw [pure_ok] at h
    cases h
    obtain ⟨he, ⟨us, hus⟩, hf⟩ := blurAlt_same hv
    subst he
    obtain ⟨he2, ⟨us2, hus2⟩, hrest⟩ := ih htl
    refine ⟨he2, ⟨us ++ us2, by rw [hus, hus2, List.append_assoc]⟩, .cons ⟨rfl, hf⟩ ?_⟩
    refine hrest.imp ?_
    intro x y ⟨hid, hxy⟩
    refine ⟨hid, hxy.imp ?_⟩
    intro c kv ⟨h1, v', u', h2, h3, h5⟩
    exact ⟨h1, v', u', h2, by rw [hus]; exact List.mem_append_right _ h3, h5⟩

/-- `Fatigue.Apply` as wired in `main.go`: both generators read the same numbers, so every value is
    blurred with one number `u` used as magnitude draw and as sign draw -/
theorem fatigueBlur_same {f : α} {b : Bounding α} {cur res : DMP α} {d : Draws α} {rep : FatigueReport α}
    (h : fatigueBlur f b cur d d = .ok (res, rep)) :
    ∃ cr, biasACriteriaRanges cur = .ok cr ∧
      List.Forall₂ (BlurredAltSame f b cr d) cur.co res.co ∧
      List.Forall₂ (BlurredAltSame f b cr d) cur.nc res.nc := by
  unfold fatigueBlur at h
  rw [bind_ok] at h; obtain ⟨_, hv, h⟩ := h
  rw [bind_ok] at h; obtain ⟨cr, hcr, h⟩ := h
  rw [bind_ok] at h; obtain ⟨⟨co, vd1, sd1⟩, hco, h⟩ := h
  simp only at h
  rw [bind_ok] at h; obtain ⟨⟨nc, vd2, sd2⟩, hnc, h⟩ := h
  rw [pure_ok] at h
  cases h
  obtain ⟨he, ⟨us, hus⟩, hfco⟩ := blurAlts_same hco
  subst he
  obtain ⟨_, _, hfnc⟩ := blurAlts_same hnc
  refine ⟨cr, hcr, hfco, ?_⟩
  refine hfnc.imp ?_
  intro x y ⟨hid, hxy⟩
  refine ⟨hid, hxy.imp ?_⟩
  intro c kv ⟨h1, v', u', h2, h3, h5⟩
  exact ⟨h1, v', u', h2, by rw [hus]; exact List.mem_append_right _ h3, h5⟩


end Rdm.BiasA
