/-
  `NotUsedName`: the generated name is never in use (the counting loop of the fixed Go function always
  finds a free candidate), and it is the next number under the consecutive-numbering invariant.
-/
import Std.Data.String.ToNat
import Rdm.Model.BiasesB
namespace Rdm

/-- the k-th name `NotUsedName` hands out for a base name: `base`, `base1`, `base2`, … -/
def numberedName (base : String) : Nat → String
  | 0 => base
  | k + 1 => base ++ toString (k + 1)

theorem firstFreeName_eq (base : String) (k : Nat) : firstFreeName base k = numberedName base k := by
  cases k <;> simp [firstFreeName, numberedName]

theorem numberedName_prefixed (base : String) (k : Nat) : (numberedName base k).startsWith base = true := by
  cases k with
  | zero => simp [numberedName]
  | succ k => simp [numberedName, String.toList_append]

theorem numberedName_inj (base : String) {j k : Nat} (h : numberedName base j = numberedName base k) : j = k := by
  cases j with
  | zero =>
    cases k with
    | zero => rfl
    | succ k =>
      simp only [numberedName] at h
      have h' : base ++ "" = base ++ toString (k + 1) := by simpa using h
      have := (String.append_right_inj base).mp h'
      exact absurd this.symm Nat.repr_ne_empty
  | succ j =>
    cases k with
    | zero =>
      simp only [numberedName] at h
      have h' : base ++ toString (j + 1) = base ++ "" := by simpa using h
      have := (String.append_right_inj base).mp h'
      exact absurd this Nat.repr_ne_empty
    | succ k =>
      simp only [numberedName] at h
      have := (String.append_right_inj base).mp h
      exact Nat.repr_injective this

/-! ### the loop of `NotUsedName` -/

/-- what the loop returns: the first candidate from `c` on that is not in use — a numbered name `k ≥ c`,
    every candidate before it in use — provided the fuel does not run out before; `l` lists the ids that can
    still be hit (every id that is a candidate `≥ c`), and is shorter than the fuel. -/
theorem notUsedNameLoop_spec (ids : List String) (base : String) :
    ∀ (fuel c : Nat) (l : List String), l.length < fuel →
      (∀ i ∈ ids, ∀ k, c ≤ k → i = numberedName base k → i ∈ l) →
      ∃ k, c ≤ k ∧ k ≤ c + l.length ∧ notUsedNameLoop ids base fuel c = numberedName base k ∧
        numberedName base k ∉ ids ∧ ∀ j, c ≤ j → j < k → numberedName base j ∈ ids := by
  intro fuel
  induction fuel with
  | zero => intro c l hl; omega
  | succ f ih =>
    intro c l hl hcov
    unfold notUsedNameLoop
    by_cases hmem : numberedName base c ∈ ids
    · rw [if_pos (by simpa [firstFreeName_eq] using hmem)]
      have hin : numberedName base c ∈ l := hcov _ hmem c (Nat.le_refl c) rfl
      have hlen : (l.erase (numberedName base c)).length < f := by
        rw [List.length_erase_of_mem hin]
        have : 0 < l.length := List.length_pos_of_mem hin
        omega
      obtain ⟨k, hk1, hk2, hk3, hk4, hk5⟩ := ih (c + 1) (l.erase (numberedName base c)) hlen (by
        intro i hi k hk e
        have hil : i ∈ l := hcov i hi k (by omega) e
        have hne : i ≠ numberedName base c := by
          intro e'
          have := numberedName_inj base (e.symm.trans e')
          omega
        exact (List.mem_erase_of_ne hne).mpr hil)
      refine ⟨k, by omega, ?_, hk3, hk4, ?_⟩
      · rw [List.length_erase_of_mem hin] at hk2
        have : 0 < l.length := List.length_pos_of_mem hin
        omega
      · intro j hj1 hj2
        by_cases hjc : j = c
        · subst hjc; exact hmem
        · exact hk5 j (by omega) hj2
    · rw [if_neg (by simpa [firstFreeName_eq] using hmem)]
      exact ⟨c, Nat.le_refl c, by omega, firstFreeName_eq base c, hmem, fun j h1 h2 => by omega⟩

/-- **`NotUsedName` returns an unused id** — for every list of ids and every base name: the name is the
    first numbered name, counting from the number of ids with the prefix, that is not in use.
    (Pigeonhole: the `ids.length + 1` candidates the loop may test are pairwise different, so one is free.) -/
theorem notUsedName_spec (ids : List String) (base : String) :
    ∃ k, (ids.filter fun i => i.startsWith base).length ≤ k ∧
      k ≤ (ids.filter fun i => i.startsWith base).length + ids.length ∧
      notUsedName ids base = numberedName base k ∧ numberedName base k ∉ ids ∧
      ∀ j, (ids.filter fun i => i.startsWith base).length ≤ j → j < k → numberedName base j ∈ ids := by
  unfold notUsedName
  exact notUsedNameLoop_spec ids base (ids.length + 1) _ ids (Nat.lt_succ_self _) (fun i hi _ _ _ => hi)

theorem notUsedName_fresh (ids : List String) (base : String) : notUsedName ids base ∉ ids := by
  obtain ⟨k, _, _, e, h, _⟩ := notUsedName_spec ids base
  rw [e]; exact h

theorem notUsedName_prefixed (ids : List String) (base : String) :
    (notUsedName ids base).startsWith base = true := by
  obtain ⟨k, _, _, e, _, _⟩ := notUsedName_spec ids base
  rw [e]; exact numberedName_prefixed base k

/-- the loop stops at once when the first candidate is free -/
theorem notUsedName_of_first_free {ids : List String} {base : String}
    (h : numberedName base (ids.filter fun i => i.startsWith base).length ∉ ids) :
    notUsedName ids base = numberedName base (ids.filter fun i => i.startsWith base).length := by
  unfold notUsedName notUsedNameLoop
  rw [if_neg (by simpa [firstFreeName_eq] using h), firstFreeName_eq]

/-! ### consecutive numbering -/

/-- the naming invariant: the ids carrying the prefix are exactly the first `k` numbered names -/
def NamingInvariant (ids : List String) (base : String) (k : Nat) : Prop :=
  (ids.filter fun i => i.startsWith base) = (List.range k).map (numberedName base)

/-- under the invariant the generated name is the next numbered name (and is not in use) -/
theorem notUsedName_under_invariant {ids : List String} {base : String} {k : Nat} (hinv : NamingInvariant ids base k) :
    notUsedName ids base = numberedName base k ∧ notUsedName ids base ∉ ids := by
  have hlen : (ids.filter fun i => i.startsWith base).length = k := by rw [hinv]; simp
  have hfree : numberedName base k ∉ ids := by
    intro hmem
    have : numberedName base k ∈ ids.filter fun i => i.startsWith base := by
      rw [List.mem_filter]; exact ⟨hmem, numberedName_prefixed base k⟩
    rw [hinv, List.mem_map] at this
    obtain ⟨j, hj, e⟩ := this
    have := numberedName_inj base e
    simp at hj
    omega
  have hname : notUsedName ids base = numberedName base k := by
    have := notUsedName_of_first_free (ids := ids) (base := base) (by rw [hlen]; exact hfree)
    rw [this, hlen]
  exact ⟨hname, notUsedName_fresh ids base⟩

/-- the invariant is preserved by appending the generated name -/
theorem namingInvariant_step {ids : List String} {base : String} {k : Nat} (hinv : NamingInvariant ids base k) :
    NamingInvariant (ids ++ [notUsedName ids base]) base (k + 1) := by
  unfold NamingInvariant at *
  rw [(notUsedName_under_invariant hinv).1, List.filter_append, hinv, List.range_succ, List.map_append]
  simp [numberedName_prefixed]

/-- the state that used to collide (conceal, conceal, omit the first, conceal: the only prefixed id left is
    `base1`): the loop skips the used `base1` and hands out `base2` -/
theorem notUsedName_skips_used_name {ids : List String} {base : String}
    (h : (ids.filter fun i => i.startsWith base) = [base ++ "1"]) : notUsedName ids base = base ++ "2" := by
  obtain ⟨k, hk1, _, e, hfree, hused⟩ := notUsedName_spec ids base
  rw [h] at hk1 hused
  simp only [List.length_cons, List.length_nil, Nat.zero_add] at hk1 hused
  have h1 : numberedName base 1 ∈ ids := by
    have : base ++ "1" ∈ ids.filter fun i => i.startsWith base := by rw [h]; simp
    exact (List.mem_filter.mp this).1
  have h2 : numberedName base 2 ∉ ids := by
    intro hmem
    have : numberedName base 2 ∈ ids.filter fun i => i.startsWith base := by
      rw [List.mem_filter]; exact ⟨hmem, numberedName_prefixed base 2⟩
    rw [h, List.mem_singleton] at this
    exact absurd (numberedName_inj base (j := 2) (k := 1) this) (by decide)
  have hk : k = 2 := by
    rcases Nat.lt_or_ge k 2 with hlt | hge
    · have : k = 1 := by omega
      subst this; exact absurd h1 hfree
    · rcases Nat.lt_or_ge 2 k with hgt | hle
      · exact absurd (hused 2 (by omega) hgt) h2
      · omega
  rw [e, hk]; rfl

end Rdm
