/-
  `NotUsedName`: fresh under the consecutive-numbering invariant, and the collision outside it.
-/
import Std.Data.String.ToNat
import Rdm.Model.BiasesB
namespace Rdm

/-- the k-th name `NotUsedName` hands out for a base name: `base`, `base1`, `base2`, … -/
def numberedName (base : String) : Nat → String
  | 0 => base
  | k + 1 => base ++ toString (k + 1)

theorem notUsedName_eq (ids : List String) (base : String) :
    notUsedName ids base = numberedName base (ids.filter fun i => i.startsWith base).length := by
  unfold notUsedName
  dsimp only
  cases h : (ids.filter fun i => i.startsWith base).length with
  | zero => simp [numberedName]
  | succ k => simp [numberedName]

theorem numberedName_prefixed (base : String) (k : Nat) : (numberedName base k).startsWith base = true := by
  cases k with
  | zero => simp [numberedName]
  | succ k => simp [numberedName, String.toList_append]

theorem numberedName_inj (base : String) {j k : Nat} (h : numberedName base j = numberedName base k) : j = k := by
  cases j with
  | zero =>
    cases k with
    | zero => rfl
    | succ k =>
      simp only [numberedName] at h
      have h' : base ++ "" = base ++ toString (k + 1) := by simpa using h
      have := (String.append_right_inj base).mp h'
      exact absurd this.symm Nat.repr_ne_empty
  | succ j =>
    cases k with
    | zero =>
      simp only [numberedName] at h
      have h' : base ++ toString (j + 1) = base ++ "" := by simpa using h
      have := (String.append_right_inj base).mp h'
      exact absurd this Nat.repr_ne_empty
    | succ k =>
      simp only [numberedName] at h
      have := (String.append_right_inj base).mp h
      exact Nat.repr_injective this

/-- the naming invariant: the ids carrying the prefix are exactly the first `k` numbered names -/
def NamingInvariant (ids : List String) (base : String) (k : Nat) : Prop :=
  (ids.filter fun i => i.startsWith base) = (List.range k).map (numberedName base)

/-- under the invariant the generated name is the next numbered name and is not in use -/
theorem notUsedName_fresh {ids : List String} {base : String} {k : Nat} (hinv : NamingInvariant ids base k) :
    notUsedName ids base = numberedName base k ∧ notUsedName ids base ∉ ids := by
  have hname : notUsedName ids base = numberedName base k := by
    rw [notUsedName_eq, hinv]; simp
  refine ⟨hname, ?_⟩
  rw [hname]
  intro hmem
  have : numberedName base k ∈ ids.filter fun i => i.startsWith base := by
    rw [List.mem_filter]; exact ⟨hmem, numberedName_prefixed base k⟩
  rw [hinv, List.mem_map] at this
  obtain ⟨j, hj, e⟩ := this
  have := numberedName_inj base e
  simp at hj
  omega

/-- the invariant is preserved by appending the generated name -/
theorem namingInvariant_step {ids : List String} {base : String} {k : Nat} (hinv : NamingInvariant ids base k) :
    NamingInvariant (ids ++ [notUsedName ids base]) base (k + 1) := by
  unfold NamingInvariant at *
  rw [(notUsedName_fresh hinv).1, List.filter_append, hinv, List.range_succ, List.map_append]
  simp [numberedName_prefixed]

/-- outside the invariant the name collides: when the only prefixed id left is `base1` (conceal,
    conceal, omit the first, conceal) the generated name is `base1` again -/
theorem notUsedName_collision {ids : List String} {base : String}
    (h : (ids.filter fun i => i.startsWith base) = [base ++ "1"]) : notUsedName ids base ∈ ids := by
  have hname : notUsedName ids base = base ++ "1" := by
    rw [notUsedName_eq, h]; rfl
  rw [hname]
  have : base ++ "1" ∈ ids.filter fun i => i.startsWith base := by rw [h]; simp
  exact (List.mem_filter.mp this).1

end Rdm
