/-
  The parameters a listener returns for an added criterion satisfy the weight clause of Spec.C18:
  for the weight-based methods the new weight is `u · w_ref` with the drawn `u ∈ [0,1)`.
-/
import Rdm.Lemmas.BiasBRat
import Rdm.Spec.C18
namespace Rdm

theorem fractionOf_mul (u w : Rat) (hu0 : 0 ≤ u) (hu1 : u < 1) : Spec.C18.fractionOf w (u * w) = true := by
  unfold Spec.C18.fractionOf
  split_ifs with h1 h2
  · have := fraction_of_positive u w hu0 hu1 h1
    simp [this.1, this.2]
  · have : w < u * w ∧ u * w ≤ 0 := by constructor <;> nlinarith
    simp [this.1, this.2]
  · have : w = 0 := by linarith
    subst this; simp

theorem draw_cons {u : Rat} {d d' : Draws Rat} {x : Rat} (h : draw (u :: d) = .ok (x, d')) : x = u ∧ d' = d := by
  simp [draw, pure, Except.pure] at h
  exact ⟨h.1.symm, h.2.symm⟩

theorem findWCrit_find {wc : List (WCrit Rat)} {id : String} {r : WCrit Rat} (h : findWCrit wc id = .ok r) :
    wc.find? (fun c => c.crit.id == id) = some r := by
  unfold findWCrit at h
  split at h
  · rename_i c hc
    simp [pure, Except.pure] at h; subst h; exact hc
  · simp [throw, throwThe, MonadExceptOf.throw] at h

/-- weight-based methods: the reported addition gives the new criterion `u · w_ref`, a fraction in
    [0,1) of the weight of the reference criterion (which must have a weight) -/
theorem onAdded_weightClause {mp : MParams Rat} {crit ref : Crit Rat} {u : Rat} {d d' : Draws Rat}
    {add : Addition Rat} (h : onAdded mp crit ref (u :: d) = .ok (add, d'))
    (hw : (Spec.C18.weightOf mp ref.id).isSome) (hu0 : 0 ≤ u) (hu1 : u < 1) :
    Spec.C18.weightClause mp add ref.id crit.id = true := by
  unfold Spec.C18.weightClause
  cases mp with
  | ws wc =>
    simp only [Spec.C18.weightBased, if_true]
    unfold onAdded at h
    simp only at h
    obtain ⟨r, hr, h⟩ := bind_eq_ok.mp h
    obtain ⟨⟨x, dd⟩, hx, h⟩ := bind_eq_ok.mp h
    obtain ⟨rfl, rfl⟩ := draw_cons hx
    simp [pure, Except.pure] at h
    obtain ⟨rfl, _⟩ := h
    simp [Spec.C18.weightOf, Spec.C18.additionWeight, findWCrit_find hr, fractionOf_mul _ _ hu0 hu1]
  | owa wc =>
    simp only [Spec.C18.weightBased, if_true]
    unfold onAdded at h
    simp only at h
    obtain ⟨r, hr, h⟩ := bind_eq_ok.mp h
    obtain ⟨⟨x, dd⟩, hx, h⟩ := bind_eq_ok.mp h
    obtain ⟨rfl, rfl⟩ := draw_cons hx
    simp [pure, Except.pure] at h
    obtain ⟨rfl, _⟩ := h
    simp [Spec.C18.weightOf, Spec.C18.additionWeight, findWCrit_find hr, KMap.get?, List.lookup,
      fractionOf_mul _ _ hu0 hu1]
  | choquet w cs => simp [Spec.C18.weightBased]
  | satisf fn lv seed cur rnd => simp [Spec.C18.weightBased]
  | electre ec dist =>
    simp only [Spec.C18.weightBased, if_true]
    unfold onAdded at h
    simp only at h
    obtain ⟨⟨x, dd⟩, hx, h⟩ := bind_eq_ok.mp h
    obtain ⟨rfl, rfl⟩ := draw_cons hx
    simp [pure, Except.pure] at h
    obtain ⟨rfl, _⟩ := h
    simp only [Spec.C18.weightOf, Option.isSome_map] at hw
    obtain ⟨e, he⟩ := Option.isSome_iff_exists.mp hw
    simp only [KMap.get?] at he
    simp [Spec.C18.weightOf, Spec.C18.additionWeight, he, KMap.get?, List.lookup, fractionOf_mul _ _ hu0 hu1]
  | majority w cur seed rnd dr =>
    simp only [Spec.C18.weightBased, if_true]
    unfold onAdded at h
    simp only at h
    obtain ⟨⟨x, dd⟩, hx, h⟩ := bind_eq_ok.mp h
    obtain ⟨rfl, rfl⟩ := draw_cons hx
    simp [pure, Except.pure] at h
    obtain ⟨rfl, _⟩ := h
    simp only [Spec.C18.weightOf] at hw
    obtain ⟨e, he⟩ := Option.isSome_iff_exists.mp hw
    simp only [KMap.get?] at he
    simp [Spec.C18.weightOf, Spec.C18.additionWeight, he, KMap.get?, List.lookup, fractionOf_mul _ _ hu0 hu1]
  | aspect fn lv seed w rnd =>
    simp only [Spec.C18.weightBased, if_true]
    unfold onAdded at h
    simp only at h
    obtain ⟨⟨x, dd⟩, hx, h2⟩ := bind_eq_ok.mp h
    clear h
    obtain ⟨rfl, rfl⟩ := draw_cons hx
    by_cases hfn : (!aspectFns.contains fn) = true
    · rw [if_pos hfn] at h2
      exact (throw_bind_ne_ok.mp h2).elim
    · rw [if_neg hfn] at h2
      obtain ⟨⟨la, d2⟩, _, h3⟩ := bind_eq_ok.mp h2
      simp [pure, Except.pure] at h3
      obtain ⟨rfl, _⟩ := h3
      simp only [Spec.C18.weightOf] at hw
      obtain ⟨e, he⟩ := Option.isSome_iff_exists.mp hw
      simp only [KMap.get?] at he
      simp [Spec.C18.weightOf, Spec.C18.additionWeight, he, KMap.get?, List.lookup, fractionOf_mul _ _ hu0 hu1]

end Rdm
