/-
  The roulette of `weakestByProbability` (C15): which entry the scan picks, when the fallback branch is
  taken, and the weight transform over the rationals.
-/
import Rdm.Lemmas.BiasAOrdering
import Mathlib.Tactic.Linarith
set_option linter.unusedSectionVars false
set_option linter.unusedSimpArgs false
open Rdm
namespace Rdm.BiasA
variable {α : Type} [Num α]

/-- running sum of the roulette weights, as the code accumulates it -/
def cumW (cur : α) (l : List (WCrit α)) : α := l.foldl (fun t s => t + s.w) cur

/-- the scan picks the first entry at which the running sum reaches the random weight: the picked
    entry `c` sits after a prefix `pre` none of whose running sums reached `rw`, and
    `cum(pre) + w̃_c ≥ rw`; the remaining list is the input without that entry -/
theorem rouletteScan_spec : ∀ {l : List (WCrit α)} {cur rw : α} {c : WCrit α} {rest : List (WCrit α)},
    rouletteScan l cur rw = some (c, rest) →
    ∃ pre post, l = pre ++ c :: post ∧ rest = pre ++ post ∧ rw ≤ cumW cur pre + c.w ∧
      ∀ i, i < pre.length → ¬ rw ≤ cumW cur (pre.take (i + 1)) := by
  intro l
  induction l with
  | nil => intro cur rw c rest h; simp [rouletteScan] at h
  | cons x xs ih =>
    intro cur rw c rest h
    unfold rouletteScan at h
    simp only at h
    split at h
    · rename_i hge
      cases h
      refine ⟨[], xs, rfl, rfl, ?_, fun i hi => absurd hi (Nat.not_lt_zero _)⟩
      simpa [cumW, Num.ge] using hge
    · rename_i hlt
      cases hs : rouletteScan xs (cur + x.w) rw with
      | none => simp [hs] at h
      | some p =>
        obtain ⟨c', r'⟩ := p
        simp [hs] at h
        obtain ⟨rfl, rfl⟩ := h
        obtain ⟨pre, post, hl, hr, hge, hno⟩ := ih hs
        refine ⟨x :: pre, post, by rw [hl]; rfl, by rw [hr]; rfl, by simpa [cumW] using hge, ?_⟩
        intro i hi
        cases i with
        | zero => simpa [cumW, Num.ge] using hlt
        | succ i =>
          have := hno i (by simpa using hi)
          simpa [cumW] using this

/-- nothing is picked only if even the total running sum stays below the random weight (possible
    through floating-point slack in `total`, or a generator outside `[0,1)`) -/
theorem rouletteScan_none : ∀ {l : List (WCrit α)} {cur rw : α},
    rouletteScan l cur rw = none → ∀ i, i < l.length → ¬ rw ≤ cumW cur (l.take (i + 1)) := by
  intro l
  induction l with
  | nil => intro cur rw _ i hi; exact absurd hi (Nat.not_lt_zero _)
  | cons x xs ih =>
    intro cur rw h i hi
    unfold rouletteScan at h
    simp only at h
    split at h
    · cases h
    · rename_i hlt
      cases hs : rouletteScan xs (cur + x.w) rw with
      | some p => simp [hs] at h
      | none =>
        cases i with
        | zero => simpa [cumW, Num.ge] using hlt
        | succ i =>
          have := ih hs i (by simpa using hi)
          simpa [cumW] using this

/-- the weight transform over the rationals: `w̃ = m' / (w + dif)` with `m' > 0` and every denominator
    positive, for an ascending ranking -/
theorem rouletteWeights_spec {ranked : List (WCrit Rat)} (hs : ranked.Pairwise (fun a b => a.w ≤ b.w)) :
    ∃ m' dif : Rat, 0 < m' ∧ (∀ s ∈ ranked, 0 < s.w + dif) ∧
      (rouletteWeights ranked).1 = ranked.map (fun s => ({ s with w := m' / (s.w + dif) } : WCrit Rat)) := by
  cases ranked with
  | nil => exact ⟨1, 0, one_pos, fun _ h => absurd h List.not_mem_nil, rfl⟩
  | cons s0 rest =>
    have hmin : ∀ s ∈ s0 :: rest, s0.w ≤ s.w := by
      intro s hs'
      rcases List.mem_cons.1 hs' with rfl | h
      · exact le_refl _
      · exact (List.pairwise_cons.1 hs).1 s h
    unfold rouletteWeights
    simp only [Num.one_rat, Num.zero_rat]
    by_cases h1 : s0.w ≤ 1
    · refine ⟨1, 1 - s0.w, one_pos, ?_, by simp [h1]⟩
      intro s hs'
      have := hmin s hs'
      linarith
    · refine ⟨s0.w, 0, by linarith, ?_, by simp [h1]⟩
      intro s hs'
      have := hmin s hs'
      linarith

/-- a strictly less important criterion owns a strictly larger share of the roulette -/
theorem roulette_share_antitone {m' dif a b : Rat} (hm : 0 < m') (ha : 0 < a + dif) (hab : a < b) :
    m' / (b + dif) < m' / (a + dif) := by
  have hb : 0 < b + dif := by linarith
  rw [div_lt_div_iff₀ hb ha]
  nlinarith

end Rdm.BiasA
