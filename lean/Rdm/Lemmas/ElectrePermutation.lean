/-
  Order independence (C06 c) of the declarative distillation and, through the refinement theorem, of the model:
  (1) a permuted list of alternatives gets the same class numbers (`distill_perm`), (2) renaming the
  alternatives by an injective map renames the classes (`distill_rename`), (3) only the credibilities between
  members of the current set matter (`distill_congr`); together: listing the alternatives in another order
  permutes both index vectors accordingly (`rank_equivariant`, `electreIII_equivariant`).
-/
import Rdm.Lemmas.ElectreDominance
import Mathlib.Tactic.Linarith
namespace Rdm
open Rdm.Spec.C05

variable {σ : Nat → Nat → Rat} {s : LinFun Rat}

/-! ### the declarative distillation does not depend on the listing order -/

theorem perm_flatMap_left {β γ : Type} (l : List β) (f g : β → List γ) (h : ∀ a ∈ l, (f a).Perm (g a)) :
    (l.flatMap f).Perm (l.flatMap g) := by
  induction l with
  | nil => exact List.Perm.refl _
  | cons a l ih =>
    rw [List.flatMap_cons, List.flatMap_cons]
    exact (h a (by simp)).append (ih fun x hx => h x (by simp [hx]))

theorem pairs_perm {A A' : List Nat} (h : A.Perm A') : (pairs A).Perm (pairs A') := by
  unfold pairs
  refine (perm_flatMap_left A _ _ (fun i _ => ?_)).trans (List.Perm.flatMap_right _ h)
  exact (h.filter _).map _

theorem stepMax_comm (x y z : Rat) : stepMax (stepMax z x) y = stepMax (stepMax z y) x := by
  unfold stepMax
  split_ifs <;> first | rfl | linarith

theorem maxOr0_perm {l l' : List Rat} (h : l.Perm l') : maxOr0 l = maxOr0 l' := by
  unfold maxOr0
  have hfun2 : (fun (b v : Rat) => if b < v then v else b) = stepMax := by funext b v; rfl
  rw [hfun2]
  exact h.foldl_eq' (fun x _ y _ z => stepMax_comm x y z) _

theorem cutLevel_perm {A A' : List Nat} (h : A.Perm A') (lam : Rat) :
    cutLevel σ s A lam = cutLevel σ s A' lam := by
  unfold cutLevel
  exact maxOr0_perm (((pairs_perm h).map _).filter _)

theorem qualification_perm {A A' : List Nat} (h : A.Perm A') (cut : Rat) (i : Nat) :
    qualification σ s cut A i = qualification σ s cut A' i := by
  unfold qualification
  rw [(h.filter _).length_eq, (h.filter _).length_eq]

/-- the best qualification is the one that is attained and not beaten -/
theorem bestOf_unique (pm : Bool) (l : List Int) (hne : l ≠ []) (v : Int) (hv : v ∈ l)
    (hb : ∀ x ∈ l, asGood pm x v) : bestOf pm l = v := by
  cases l with
  | nil => exact absurd rfl hne
  | cons v0 rest =>
    rw [bestOf_eq_fold]
    have h1 := foldl_stepBest_ge_all pm (v0 :: rest) v0 v hv
    -- the fold result is a member of the list
    have hmem : ∀ (l : List Int) (b : Int), l.foldl (stepBest pm) b = b ∨ l.foldl (stepBest pm) b ∈ l := by
      intro l
      induction l with
      | nil => intro b; left; rfl
      | cons y l ih =>
        intro b
        rw [List.foldl_cons]
        rcases ih (stepBest pm b y) with h | h
        · rw [h]
          unfold stepBest
          split
          · right; simp
          · left; rfl
        · right; exact List.mem_cons_of_mem _ h
    have h2 : (v0 :: rest).foldl (stepBest pm) v0 ∈ v0 :: rest := by
      rcases hmem (v0 :: rest) v0 with h | h
      · rw [h]; simp
      · exact h
    have h3 := hb _ h2
    cases pm <;> simp_all [asGood] <;> omega

theorem bestOf_perm (pm : Bool) {l l' : List Int} (h : l.Perm l') : bestOf pm l = bestOf pm l' := by
  cases l with
  | nil => rw [List.Perm.nil_eq h]
  | cons v0 rest =>
    have hne' : l' ≠ [] := fun he => by rw [he] at h; exact absurd h.length_eq (by simp)
    symm
    apply bestOf_unique pm l' hne'
    · rw [bestOf_eq_fold]
      apply h.mem_iff.mp
      have hmem : ∀ (l : List Int) (b : Int), l.foldl (stepBest pm) b = b ∨ l.foldl (stepBest pm) b ∈ l := by
        intro l
        induction l with
        | nil => intro b; left; rfl
        | cons y l ih =>
          intro b
          rw [List.foldl_cons]
          rcases ih (stepBest pm b y) with h | h
          · rw [h]
            unfold stepBest
            split
            · right; simp
            · left; rfl
          · right; exact List.mem_cons_of_mem _ h
      rcases hmem (v0 :: rest) v0 with h | h
      · rw [h]; simp
      · exact h
    · intro x hx
      rw [bestOf_eq_fold]
      exact foldl_stepBest_ge_all pm (v0 :: rest) v0 x (h.mem_iff.mpr hx)

theorem bestSet_perm (pm : Bool) {A A' : List Nat} (h : A.Perm A') (q q' : Nat → Int) (hq : ∀ i, q i = q' i) :
    (bestSet pm A q).Perm (bestSet pm A' q') := by
  unfold bestSet
  have hqq : q = q' := funext hq
  subst hqq
  simp only
  rw [bestOf_perm pm (h.map q)]
  exact h.filter _

/-- narrowing: a permuted list gives a permuted class -/
theorem narrow_perm (pm : Bool) (fuel : Nat) {A A' : List Nat} (h : A.Perm A') (lam : Rat) (C : List Nat)
    (hC : narrow σ s pm fuel A lam = some C) : ∃ C', narrow σ s pm fuel A' lam = some C' ∧ C.Perm C' := by
  induction fuel generalizing A A' lam C with
  | zero => simp [narrow] at hC
  | succ fuel ih =>
    unfold narrow at hC ⊢
    split at hC
    · rename_i hz
      simp only [Option.some.injEq] at hC; subst hC
      simp only [hz, if_true]
      exact ⟨A', rfl, h⟩
    · rename_i hz
      have hz' : (lam == (Num.zero : Rat)) = false := by simpa using hz
      simp only [hz', Bool.false_eq_true, if_false]
      simp only at hC ⊢
      have hcut := cutLevel_perm (σ := σ) (s := s) h lam
      have hB := bestSet_perm pm h (qualification σ s (cutLevel σ s A lam) A)
        (qualification σ s (cutLevel σ s A' lam) A') (fun i => by rw [hcut]; exact qualification_perm h _ i)
      rw [← hcut] at hB ⊢
      rw [← hB.length_eq]
      split at hC
      · rename_i hc
        simp only [hc, if_true]
        exact ih hB _ C hC
      · rename_i hc
        simp only [hc]
        simp only [Option.some.injEq] at hC; subst hC
        exact ⟨_, rfl, hB⟩

theorem lookup_map_const_perm {C C' : List Nat} (h : C.Perm C') (k : Int) (x : Nat) :
    (C.map fun i => (i, k)).lookup x = (C'.map fun i => (i, k)).lookup x := by
  by_cases hx : x ∈ C
  · rw [lookup_map_const_mem C k x hx, lookup_map_const_mem C' k x (h.mem_iff.mp hx)]
  · rw [lookup_map_const_not_mem C k x hx, lookup_map_const_not_mem C' k x (fun hm => hx (h.mem_iff.mpr hm))]

theorem isEmpty_perm {β : Type} {l l' : List β} (h : l.Perm l') : l.isEmpty = l'.isEmpty := by
  cases l with
  | nil => rw [List.Perm.nil_eq h]
  | cons a l =>
    cases l' with
    | nil => exact absurd h.length_eq (by simp)
    | cons b l' => rfl

/-- the whole distillation: a permuted list of alternatives gets the same class numbers -/
theorem distill_perm (pm : Bool) (fN fo : Nat) {A A' : List Nat} (h : A.Perm A') (k : Int)
    (asg : List (Nat × Int)) (hd : distill σ s pm fN fo A k = some asg) :
    ∃ asg', distill σ s pm fN fo A' k = some asg' ∧ ∀ x, asg'.lookup x = asg.lookup x := by
  induction fo generalizing A A' k asg with
  | zero => simp [distill] at hd
  | succ fo ih =>
    unfold distill at hd ⊢
    rw [← isEmpty_perm h]
    split at hd
    · rename_i he
      simp only [Option.some.injEq] at hd; subst hd
      simp only [he, if_true]
      exact ⟨[], rfl, fun x => rfl⟩
    · rename_i he
      simp only [he, Bool.false_eq_true, if_false]
      simp only [Option.bind_eq_bind] at hd ⊢
      have hlam : maxOr0 ((pairs A).map fun p => σ p.1 p.2) = maxOr0 ((pairs A').map fun p => σ p.1 p.2) :=
        maxOr0_perm ((pairs_perm h).map _)
      rw [← hlam]
      cases hn : narrow σ s pm fN A (maxOr0 ((pairs A).map fun p => σ p.1 p.2)) with
      | none => rw [hn] at hd; simp at hd
      | some C =>
        rw [hn] at hd
        obtain ⟨C', hn', hCC⟩ := narrow_perm pm fN h _ C hn
        rw [hn']
        simp only [Option.bind_some] at hd ⊢
        have hrest : (A.filter fun i => !C.contains i).Perm (A'.filter fun i => !C'.contains i) := by
          have : (fun i => !C.contains i) = fun i => !C'.contains i := by
            funext i; rw [hCC.contains_eq]
          rw [this]
          exact h.filter _
        rw [← isEmpty_perm hrest, ← isEmpty_perm hCC]
        split at hd
        · rename_i hc
          simp only [hc, if_true]
          simp only [Option.some.injEq] at hd; subst hd
          exact ⟨_, rfl, fun x => (lookup_map_const_perm hCC k x).symm⟩
        · rename_i hc
          simp only [hc, Bool.false_eq_true, if_false]
          cases hdf : distill σ s pm fN fo (A.filter fun i => !C.contains i) (k + 1) with
          | none => rw [hdf] at hd; simp at hd
          | some further =>
            rw [hdf] at hd
            simp only [Option.bind_some, Option.some.injEq] at hd
            subst hd
            obtain ⟨further', hdf', hlk⟩ := ih hrest (k + 1) further hdf
            rw [hdf']
            simp only [Option.bind_some]
            refine ⟨_, rfl, fun x => ?_⟩
            rw [List.lookup_append, List.lookup_append, hlk x, lookup_map_const_perm hCC k x]

/-! ### renaming the alternatives -/

section rename
variable (ρ : Nat → Nat) (hρ : ∀ i j, ρ i = ρ j → i = j)
include hρ

theorem bne_rename (i j : Nat) : (ρ i != ρ j) = (i != j) := by
  by_cases h : i = j
  · subst h
    have h1 : (ρ i != ρ i) = false := by simp
    have h2 : (i != i) = false := by simp
    rw [h1, h2]
  · have : ρ i ≠ ρ j := fun he => h (hρ i j he)
    have h1 : (ρ i != ρ j) = true := bne_iff_ne.mpr this
    have h2 : (i != j) = true := bne_iff_ne.mpr h
    rw [h1, h2]

theorem pairs_rename (A : List Nat) : pairs (A.map ρ) = (pairs A).map fun p => (ρ p.1, ρ p.2) := by
  unfold pairs
  rw [List.flatMap_map, List.map_flatMap]
  apply flatMap_congr'
  intro i _
  rw [List.filter_map, List.map_map, List.map_map]
  have : ((fun j => j != ρ i) ∘ ρ) = fun j => j != i := by
    funext j; exact bne_rename ρ hρ j i
  rw [this]
  rfl

theorem cutLevel_rename (A : List Nat) (lam : Rat) :
    cutLevel σ s (A.map ρ) lam = cutLevel (fun i j => σ (ρ i) (ρ j)) s A lam := by
  unfold cutLevel
  rw [pairs_rename ρ hρ, List.map_map]
  rfl

theorem outranks_rename (cut : Rat) (i j : Nat) :
    outranks σ s cut (ρ i) (ρ j) = outranks (fun i j => σ (ρ i) (ρ j)) s cut i j := by
  unfold outranks
  rw [bne_rename ρ hρ]

theorem qualification_rename (cut : Rat) (A : List Nat) (i : Nat) :
    qualification σ s cut (A.map ρ) (ρ i) = qualification (fun i j => σ (ρ i) (ρ j)) s cut A i := by
  unfold qualification
  rw [List.filter_map, List.filter_map, List.length_map, List.length_map]
  have e1 : ((fun j => outranks σ s cut (ρ i) j) ∘ ρ) = fun j => outranks (fun i j => σ (ρ i) (ρ j)) s cut i j := by
    funext j; exact outranks_rename ρ hρ cut i j
  have e2 : ((fun j => outranks σ s cut j (ρ i)) ∘ ρ) = fun j => outranks (fun i j => σ (ρ i) (ρ j)) s cut j i := by
    funext j; exact outranks_rename ρ hρ cut j i
  rw [e1, e2]

omit hρ in
theorem bestSet_rename (pm : Bool) (A : List Nat) (q : Nat → Int) :
    bestSet pm (A.map ρ) q = (bestSet pm A (q ∘ ρ)).map ρ := by
  unfold bestSet
  simp only
  rw [List.filter_map, List.map_map]
  rfl

theorem narrow_rename (pm : Bool) (fuel : Nat) (A : List Nat) (lam : Rat) (C : List Nat)
    (h : narrow (fun i j => σ (ρ i) (ρ j)) s pm fuel A lam = some C) :
    narrow σ s pm fuel (A.map ρ) lam = some (C.map ρ) := by
  induction fuel generalizing A lam C with
  | zero => simp [narrow] at h
  | succ fuel ih =>
    unfold narrow at h ⊢
    split at h
    · rename_i hz
      simp only [Option.some.injEq] at h; subst h
      simp only [hz, if_true]
    · rename_i hz
      have hz' : (lam == (Num.zero : Rat)) = false := by simpa using hz
      simp only [hz', Bool.false_eq_true, if_false]
      simp only at h ⊢
      rw [cutLevel_rename ρ hρ, bestSet_rename]
      have hq : (qualification σ s (cutLevel (fun i j => σ (ρ i) (ρ j)) s A lam) (A.map ρ)) ∘ ρ
          = qualification (fun i j => σ (ρ i) (ρ j)) s (cutLevel (fun i j => σ (ρ i) (ρ j)) s A lam) A := by
        funext i; exact qualification_rename ρ hρ _ A i
      rw [hq, List.length_map]
      split at h
      · rename_i hc
        simp only [hc, if_true]
        exact ih _ _ C h
      · rename_i hc
        simp only [hc]
        simp only [Option.some.injEq] at h; subst h
        rfl

theorem contains_rename (C : List Nat) (i : Nat) : (C.map ρ).contains (ρ i) = C.contains i := by
  induction C with
  | nil => rfl
  | cons c C ih =>
    simp only [List.map_cons, List.contains_cons, ih]
    congr 1
    by_cases h : i = c
    · subst h; simp
    · have : ρ i ≠ ρ c := fun he => h (hρ i c he)
      simp [h, this]

theorem distill_rename (pm : Bool) (fN fo : Nat) (A : List Nat) (k : Int) (asg : List (Nat × Int))
    (h : distill (fun i j => σ (ρ i) (ρ j)) s pm fN fo A k = some asg) :
    distill σ s pm fN fo (A.map ρ) k = some (asg.map fun p => (ρ p.1, p.2)) := by
  induction fo generalizing A k asg with
  | zero => simp [distill] at h
  | succ fo ih =>
    unfold distill at h ⊢
    have hemp : (A.map ρ).isEmpty = A.isEmpty := by cases A <;> rfl
    rw [hemp]
    split at h
    · rename_i he
      simp only [Option.some.injEq] at h; subst h
      simp only [he, if_true, List.map_nil]
    · rename_i he
      simp only [he, Bool.false_eq_true, if_false]
      simp only [Option.bind_eq_bind] at h ⊢
      have hlam : maxOr0 ((pairs (A.map ρ)).map fun p => σ p.1 p.2)
          = maxOr0 ((pairs A).map fun p => σ (ρ p.1) (ρ p.2)) := by
        rw [pairs_rename ρ hρ, List.map_map]; rfl
      rw [hlam]
      cases hn : narrow (fun i j => σ (ρ i) (ρ j)) s pm fN A (maxOr0 ((pairs A).map fun p => σ (ρ p.1) (ρ p.2))) with
      | none => rw [hn] at h; simp at h
      | some C =>
        rw [hn] at h
        rw [narrow_rename ρ hρ pm fN A _ C hn]
        simp only [Option.bind_some] at h ⊢
        have hrest : (A.map ρ).filter (fun i => !(C.map ρ).contains i) = (A.filter fun i => !C.contains i).map ρ := by
          rw [List.filter_map]
          congr 1
          apply List.filter_congr
          intro i _
          simp only [Function.comp, contains_rename ρ hρ]
        have hCe : (C.map ρ).isEmpty = C.isEmpty := by cases C <;> rfl
        have hRe : ((A.filter fun i => !C.contains i).map ρ).isEmpty = (A.filter fun i => !C.contains i).isEmpty := by
          cases (A.filter fun i => !C.contains i) <;> rfl
        rw [hrest, hCe, hRe]
        split at h
        · rename_i hc
          simp only [hc, if_true]
          simp only [Option.some.injEq] at h; subst h
          simp [List.map_map, Function.comp_def]
        · rename_i hc
          simp only [hc, Bool.false_eq_true, if_false]
          cases hdf : distill (fun i j => σ (ρ i) (ρ j)) s pm fN fo (A.filter fun i => !C.contains i) (k + 1) with
          | none => rw [hdf] at h; simp at h
          | some further =>
            rw [hdf] at h
            simp only [Option.bind_some, Option.some.injEq] at h
            subst h
            rw [ih _ _ further hdf]
            simp [List.map_map, Function.comp_def]

theorem lookup_rename (asg : List (Nat × Int)) (x : Nat) :
    (asg.map fun p => (ρ p.1, p.2)).lookup (ρ x) = asg.lookup x := by
  induction asg with
  | nil => rfl
  | cons p asg ih =>
    obtain ⟨i, c⟩ := p
    simp only [List.map_cons, List.lookup_cons]
    by_cases h : x = i
    · subst h; simp
    · have : ρ x ≠ ρ i := fun he => h (hρ x i he)
      have h1 : (x == i) = false := by simpa using h
      have h2 : (ρ x == ρ i) = false := by simpa using this
      rw [h1, h2]
      exact ih

end rename

/-! ### only the credibilities between members of the current set matter -/

theorem mem_pairs {A : List Nat} {p : Nat × Nat} (h : p ∈ pairs A) : p.1 ∈ A ∧ p.2 ∈ A := by
  unfold pairs at h
  simp only [List.mem_flatMap, List.mem_map, List.mem_filter] at h
  obtain ⟨i, hi, j, ⟨hj, _⟩, rfl⟩ := h
  exact ⟨hi, hj⟩

section congr
variable {σ₁ σ₂ : Nat → Nat → Rat}

theorem pairs_values_congr (A : List Nat) (h : ∀ i ∈ A, ∀ j ∈ A, σ₁ i j = σ₂ i j) :
    (pairs A).map (fun p => σ₁ p.1 p.2) = (pairs A).map (fun p => σ₂ p.1 p.2) := by
  apply List.map_congr_left
  intro p hp
  exact h _ (mem_pairs hp).1 _ (mem_pairs hp).2

theorem cutLevel_congr (A : List Nat) (h : ∀ i ∈ A, ∀ j ∈ A, σ₁ i j = σ₂ i j) (lam : Rat) :
    cutLevel σ₁ s A lam = cutLevel σ₂ s A lam := by
  unfold cutLevel
  rw [pairs_values_congr A h]

theorem outranks_congr (A : List Nat) (h : ∀ i ∈ A, ∀ j ∈ A, σ₁ i j = σ₂ i j) (cut : Rat) (i j : Nat)
    (hi : i ∈ A) (hj : j ∈ A) : outranks σ₁ s cut i j = outranks σ₂ s cut i j := by
  unfold outranks
  rw [h i hi j hj, h j hj i hi]

theorem qualification_congr (A : List Nat) (h : ∀ i ∈ A, ∀ j ∈ A, σ₁ i j = σ₂ i j) (cut : Rat) (i : Nat)
    (hi : i ∈ A) : qualification σ₁ s cut A i = qualification σ₂ s cut A i := by
  unfold qualification
  rw [List.filter_congr (fun j hj => outranks_congr A h cut i j hi hj),
    List.filter_congr (fun j hj => outranks_congr A h cut j i hj hi)]

theorem bestSet_congr (pm : Bool) (A : List Nat) (q₁ q₂ : Nat → Int) (h : ∀ i ∈ A, q₁ i = q₂ i) :
    bestSet pm A q₁ = bestSet pm A q₂ := by
  unfold bestSet
  simp only
  rw [List.map_congr_left h]
  apply List.filter_congr
  intro i hi
  rw [h i hi]

theorem narrow_congr (pm : Bool) (fuel : Nat) (A : List Nat) (h : ∀ i ∈ A, ∀ j ∈ A, σ₁ i j = σ₂ i j) (lam : Rat) :
    narrow σ₁ s pm fuel A lam = narrow σ₂ s pm fuel A lam := by
  induction fuel generalizing A lam with
  | zero => unfold narrow; rfl
  | succ fuel ih =>
    have hc := cutLevel_congr (s := s) A h lam
    have hb := bestSet_congr pm A (qualification σ₁ s (cutLevel σ₂ s A lam) A)
      (qualification σ₂ s (cutLevel σ₂ s A lam) A) (fun i hi => qualification_congr A h _ i hi)
    have hi := ih (bestSet pm A (qualification σ₂ s (cutLevel σ₂ s A lam) A))
      (fun i hi j hj => h i (bestSet_subset pm A _ i hi) j (bestSet_subset pm A _ j hj)) (cutLevel σ₂ s A lam)
    unfold narrow
    dsimp only
    rw [hc, hb, hi]

theorem distill_congr (pm : Bool) (fN fo : Nat) (A : List Nat) (h : ∀ i ∈ A, ∀ j ∈ A, σ₁ i j = σ₂ i j) (k : Int) :
    distill σ₁ s pm fN fo A k = distill σ₂ s pm fN fo A k := by
  induction fo generalizing A k with
  | zero => unfold distill; rfl
  | succ fo ih =>
    have hp := pairs_values_congr A h
    have hn := narrow_congr (s := s) pm fN A h (maxOr0 ((pairs A).map fun p => σ₂ p.1 p.2))
    have hrec : ∀ C : List Nat, distill σ₁ s pm fN fo (A.filter fun i => !C.contains i) (k + 1)
        = distill σ₂ s pm fN fo (A.filter fun i => !C.contains i) (k + 1) :=
      fun C => ih _ (fun i hi j hj => h i (List.mem_filter.mp hi).1 j (List.mem_filter.mp hj).1) _
    unfold distill
    dsimp only
    rw [hp, hn]
    simp only [hrec]

end congr

/-! ### equivariance under a permutation of the alternatives -/

/-- `π` permutes the alternatives `0, …, n-1` -/
structure IsPerm (n : Nat) (π : Nat → Nat) : Prop where
  inj : ∀ i j, π i = π j → i = j
  perm : ((List.range n).map π).Perm (List.range n)

theorem IsPerm.lt {n : Nat} {π : Nat → Nat} (h : IsPerm n π) (i : Nat) (hi : i < n) : π i < n := by
  have : π i ∈ (List.range n).map π := List.mem_map_of_mem (List.mem_range.mpr hi)
  exact List.mem_range.mp (h.perm.mem_iff.mp this)

theorem classes_lookup (m : Matrix Rat) (pm : Bool) (cl : List Int) (h : classes m s pm = some cl) :
    cl.length = m.size ∧
    ∃ asg, distill (sigmaOf m) s pm (rankFuel m.size) (rankFuel m.size) (List.range m.size) 1 = some asg ∧
      ∀ j, j < m.size → asg.lookup j = some (cl.getD j 0) := by
  unfold classes at h
  simp only [Option.bind_eq_bind] at h
  cases hd : distill (sigmaOf m) s pm (rankFuel m.size) (rankFuel m.size) (List.range m.size) 1 with
  | none => rw [hd] at h; simp at h
  | some asg =>
    rw [hd] at h
    simp only [Option.bind_some] at h
    obtain ⟨l1, l2⟩ := mapM_option_getElem _ _ cl h
    simp only [List.length_range] at l1 l2
    refine ⟨l1, asg, rfl, fun j hj => ?_⟩
    have := l2 j hj (by omega)
    simp only [List.getElem_range] at this
    rw [this, List.getD_eq_getElem?_getD, List.getElem?_eq_getElem (by omega)]; rfl

/-- **equivariance of the declarative distillation**: if `m'` is `m` with the alternatives listed in the order
    `π` (entry (i,j) of `m'` is entry (π i, π j) of `m`), then alternative `i` of `m'` gets the class of
    alternative `π i` of `m` -/
theorem classes_equivariant (m m' : Matrix Rat) (π : Nat → Nat) (hπ : IsPerm m.size π) (hsz : m'.size = m.size)
    (hm : ∀ i j, i < m.size → j < m.size → m'.at i j = m.at (π i) (π j)) (pm : Bool) (cl cl' : List Int)
    (h : classes m s pm = some cl) (h' : classes m' s pm = some cl') :
    ∀ i, i < m.size → cl'.getD i 0 = cl.getD (π i) 0 := by
  obtain ⟨_, asg, hd, hl⟩ := classes_lookup m pm cl h
  obtain ⟨_, asg', hd', hl'⟩ := classes_lookup m' pm cl' h'
  rw [hsz] at hd' hl'
  -- σ_{m'} is σ_m renamed by π on the alternatives in use
  have hsig : ∀ i ∈ List.range m.size, ∀ j ∈ List.range m.size,
      sigmaOf m' i j = (fun i j => sigmaOf m (π i) (π j)) i j := by
    intro i hi j hj
    simp only [List.mem_range] at hi hj
    simp only [sigmaOf]
    by_cases hij : i = j
    · subst hij; simp
    · have hp : π i ≠ π j := fun he => hij (hπ.inj i j he)
      have h1 : (i == j) = false := by simpa using hij
      have h2 : (π i == π j) = false := by simpa using hp
      rw [h1, h2]
      exact hm i j hi hj
  rw [distill_congr pm _ _ (List.range m.size) hsig 1] at hd'
  have hren := distill_rename π hπ.inj pm _ _ (List.range m.size) 1 asg' hd'
  obtain ⟨asg'', hd'', hlk⟩ := distill_perm pm _ _ hπ.perm 1 _ hren
  rw [hd] at hd''
  simp only [Option.some.injEq] at hd''
  subst hd''
  intro i hi
  have e1 := hl (π i) (hπ.lt i hi)
  have e2 := hl' i hi
  rw [hlk (π i), lookup_rename π hπ.inj asg' i, e2] at e1
  simp only [Option.some.injEq] at e1
  exact e1

/-- equivariance of `rank` (hence of `RankAscending`), through the refinement theorem -/
theorem rank_equivariant (m m' : Matrix Rat) (π : Nat → Nat) (hπ : IsPerm m.size π) (hsz : m'.size = m.size)
    (hm : ∀ i j, i < m.size → j < m.size → m'.at i j = m.at (π i) (π j))
    (hlen : m.data.length = m.size * m.size) (hlen' : m'.data.length = m'.size * m'.size)
    (pm : Bool) (ps ps' : List Int)
    (h : rank m s (cmpOf pm) = .ok ps) (h' : rank m' s (cmpOf pm) = .ok ps') :
    ∀ i, i < m.size → ps'.getD i 0 = ps.getD (π i) 0 :=
  classes_equivariant m m' π hπ hsz hm pm ps ps'
    (rank_refines_classes m s pm hlen ps h) (rank_refines_classes m' s pm hlen' ps' h')

theorem rankDescending_equivariant (m m' : Matrix Rat) (π : Nat → Nat) (hπ : IsPerm m.size π) (hsz : m'.size = m.size)
    (hm : ∀ i j, i < m.size → j < m.size → m'.at i j = m.at (π i) (π j))
    (hlen : m.data.length = m.size * m.size) (hlen' : m'.data.length = m'.size * m'.size)
    (ps ps' : List Int)
    (h : rankDescending m s = .ok ps) (h' : rankDescending m' s = .ok ps') :
    ∀ i, i < m.size → ps'.getD i 0 = ps.getD (π i) 0 := by
  unfold rankDescending at h h'
  simp only [bind, Except.bind] at h h'
  split at h
  · cases h
  · rename_i r hr
    split at h
    · cases h
    · rename_i mx hmx
      split at h'
      · cases h'
      · rename_i r' hr'
        split at h'
        · cases h'
        · rename_i mx' hmx'
          simp only [pure, Except.pure, Except.ok.injEq] at h h'
          subst h; subst h'
          have heq := rank_equivariant m m' π hπ hsz hm hlen hlen' false r r' hr hr'
          have hrl := rank_length m s _ r hr
          have hrl' := rank_length m' s _ r' hr'
          obtain ⟨a1, a2⟩ := maxInt_spec r mx hmx
          obtain ⟨b1, b2⟩ := maxInt_spec r' mx' hmx'
          have hmm : mx' = mx := by
            apply le_antisymm
            · obtain ⟨i0, hi0, he⟩ := List.mem_iff_getElem.mp b1
              have hi0' : i0 < m.size := by rw [← hsz, ← hrl']; exact hi0
              have := heq i0 hi0'
              rw [List.getD_eq_getElem?_getD, List.getElem?_eq_getElem hi0] at this
              simp only [Option.getD_some] at this
              have hπi : π i0 < r.length := by rw [hrl]; exact hπ.lt i0 hi0'
              rw [List.getD_eq_getElem?_getD, List.getElem?_eq_getElem hπi] at this
              simp only [Option.getD_some] at this
              rw [← he, this]
              exact a2 _ (List.getElem_mem hπi)
            · obtain ⟨j0, hj0, he⟩ := List.mem_iff_getElem.mp a1
              have hj0' : j0 < m.size := by rw [← hrl]; exact hj0
              have hmem : j0 ∈ (List.range m.size).map π := hπ.perm.mem_iff.mpr (List.mem_range.mpr hj0')
              obtain ⟨i, hi, hie⟩ := List.mem_map.mp hmem
              have hi' : i < m.size := List.mem_range.mp hi
              have := heq i hi'
              have hir : i < r'.length := by rw [hrl', hsz]; exact hi'
              rw [hie, List.getD_eq_getElem?_getD, List.getD_eq_getElem?_getD, List.getElem?_eq_getElem hir,
                List.getElem?_eq_getElem hj0] at this
              simp only [Option.getD_some] at this
              rw [← he, ← this]
              exact b2 _ (List.getElem_mem hir)
          intro i hi
          have := heq i hi
          have hir : i < r'.length := by rw [hrl', hsz]; exact hi
          have hπi : π i < r.length := by rw [hrl]; exact hπ.lt i hi
          simp only [List.getD_eq_getElem?_getD, List.getElem?_map] at this ⊢
          rw [List.getElem?_eq_getElem hir, List.getElem?_eq_getElem hπi] at this ⊢
          simp only [Option.map_some, Option.getD_some] at this ⊢
          rw [this, hmm]

/-- the credibility matrix of the alternatives listed in another order is the permuted matrix -/
theorem credibilityMatrix_permuted (alts alts' : List (Alt Rat)) (crits : List (Crit Rat)) (ec : KMap (ECrit Rat))
    (π : Nat → Nat) (hπ : IsPerm alts.length π) (hl : alts'.length = alts.length)
    (ha : ∀ i (hi : i < alts.length), alts'[i]'(by rw [hl]; exact hi) = alts[π i]'(hπ.lt i hi))
    (m m' : Matrix Rat) (h : credibilityMatrix alts crits ec = .ok m) (h' : credibilityMatrix alts' crits ec = .ok m') :
    ∀ i j, i < alts.length → j < alts.length → m'.at i j = m.at (π i) (π j) := by
  intro i j hi hj
  have e' := credibilityMatrix_at alts' crits ec m' h' i j (by rw [hl]; exact hi) (by rw [hl]; exact hj)
  have e := credibilityMatrix_at alts crits ec m h (π i) (π j) (hπ.lt i hi) (hπ.lt j hj)
  rw [ha i hi, ha j hj] at e'
  have hcond : (i == j) = (π i == π j) := by
    by_cases hij : i = j
    · subst hij; simp
    · have hp : π i ≠ π j := fun he => hij (hπ.inj i j he)
      have h1 : (i == j) = false := by simpa using hij
      have h2 : (π i == π j) = false := by simpa using hp
      rw [h1, h2]
  unfold evaluateAlternativesPair at e e'
  rw [hcond] at e'
  rw [e'] at e
  simp only [Except.ok.injEq] at e
  exact e

/-- **listing order, end to end on the model**: listing the alternatives in another order permutes both
    indices accordingly -/
theorem electreIII_equivariant (alts alts' : List (Alt Rat)) (crits : List (Crit Rat)) (ec : KMap (ECrit Rat))
    (dist : LinFun Rat) (π : Nat → Nat) (hπ : IsPerm alts.length π) (hl : alts'.length = alts.length)
    (ha : ∀ i (hi : i < alts.length), alts'[i]'(by rw [hl]; exact hi) = alts[π i]'(hπ.lt i hi))
    (out out' : List (Linked (Int × Int)))
    (h : electreIII alts crits ec dist = .ok out) (h' : electreIII alts' crits ec dist = .ok out') :
    out.length = alts.length ∧ out'.length = alts.length ∧
    ∀ i (_ : i < alts.length) (h1 : i < out'.length) (h2 : π i < out.length), out'[i].ev = out[π i].ev := by
  unfold electreIII at h h'
  simp only [bind, Except.bind] at h h'
  split at h
  · cases h
  · rename_i m hm
    split at h
    · cases h
    · rename_i asc hasc
      split at h
      · cases h
      · rename_i desc hdesc
        split at h'
        · cases h'
        · rename_i m' hm'
          split at h'
          · cases h'
          · rename_i asc' hasc'
            split at h'
            · cases h'
            · rename_i desc' hdesc'
              simp only [pure, Except.pure, Except.ok.injEq] at h h'
              subst h; subst h'
              have hsz := credibilityMatrix_size alts crits ec m hm
              have hsz' := credibilityMatrix_size alts' crits ec m' hm'
              have hlen := credibilityMatrix_len alts crits ec m hm
              have hlen' := credibilityMatrix_len alts' crits ec m' hm'
              have hπm : IsPerm m.size π := by rw [hsz]; exact hπ
              have hmm := credibilityMatrix_permuted alts alts' crits ec π hπ hl ha m m' hm hm'
              rw [← hsz] at hmm
              have hss : m'.size = m.size := by rw [hsz', hsz, hl]
              have ea := rank_equivariant (s := dist) m m' π hπm hss hmm hlen hlen' true asc asc' hasc hasc'
              have ed := rankDescending_equivariant (s := dist) m m' π hπm hss hmm hlen hlen' desc desc' hdesc hdesc'
              have l1 : asc.length = (alts.map (·.id)).length := by rw [rank_length m dist _ asc hasc, hsz]; simp
              have l1' : asc'.length = (alts'.map (·.id)).length := by rw [rank_length m' dist _ asc' hasc', hsz']; simp
              have dlen : ∀ (mm : Matrix Rat) (dd : List Int), rankDescending mm dist = .ok dd → dd.length = mm.size := by
                intro mm dd hdd
                unfold rankDescending at hdd
                simp only [bind, Except.bind] at hdd
                split at hdd
                · cases hdd
                · rename_i r hr
                  split at hdd
                  · cases hdd
                  · simp only [pure, Except.pure, Except.ok.injEq] at hdd
                    subst hdd
                    simp [rank_length mm dist _ r hr]
              have l2 : desc.length = (alts.map (·.id)).length := by rw [dlen m desc hdesc, hsz]; simp
              have l2' : desc'.length = (alts'.map (·.id)).length := by rw [dlen m' desc' hdesc', hsz']; simp
              have ol := el_evaluateRanking_length asc desc (alts.map (·.id)) l1 l2
              have ol' := el_evaluateRanking_length asc' desc' (alts'.map (·.id)) l1' l2'
              refine ⟨by rw [ol]; simp, by rw [ol']; simp [hl], ?_⟩
              intro i hi h1 h2
              have hi' : i < (alts'.map (·.id)).length := by simpa [hl] using hi
              have hπi : π i < (alts.map (·.id)).length := by simpa using hπ.lt i hi
              obtain ⟨_, g1, _⟩ := el_evaluateRanking_getElem asc' desc' (alts'.map (·.id)) l1' l2' i hi'
              obtain ⟨_, g2, _⟩ := el_evaluateRanking_getElem asc desc (alts.map (·.id)) l1 l2 (π i) hπi
              rw [g1, g2]
              have ea' := ea i (by rw [hsz]; exact hi)
              have ed' := ed i (by rw [hsz]; exact hi)
              have b1 : i < asc'.length := by rw [l1']; exact hi'
              have b2 : π i < asc.length := by rw [l1]; exact hπi
              have b3 : i < desc'.length := by rw [l2']; exact hi'
              have b4 : π i < desc.length := by rw [l2]; exact hπi
              rw [List.getD_eq_getElem?_getD, List.getD_eq_getElem?_getD, List.getElem?_eq_getElem b1,
                List.getElem?_eq_getElem b2] at ea'
              rw [List.getD_eq_getElem?_getD, List.getD_eq_getElem?_getD, List.getElem?_eq_getElem b3,
                List.getElem?_eq_getElem b4] at ed'
              simp only [Option.getD_some] at ea' ed'
              rw [ea', ed']

end Rdm
