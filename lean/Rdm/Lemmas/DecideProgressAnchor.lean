/-
  Lemmas for the end-to-end model, part 12 (progress of anchoring as FIRST state-changing bias):
    * everything of `Anchoring.Apply` before the applier is total on a coherent state under the props' validity
      conditions (every method);
    * the inline applier is total (every method);
    * the newCriterion applier is total for the five methods whose listener admits an addition.
-/
import Rdm.Lemmas.DecideProgressAdd
namespace Rdm
set_option linter.unusedSimpArgs false
set_option linter.unusedSectionVars false

section
variable {α : Type} [Num α]

/-! ### generic: a fold that only ever `set`s keys -/

theorem prog_foldlM_set_total {β γ : Type} {key : γ → String} {step : KMap β → γ → R (KMap β)} :
    ∀ (l : List γ) (acc : KMap β), (∀ m, ∀ c ∈ l, ∃ v, step m c = .ok (m.set (key c) v)) →
      ∃ r, l.foldlM step acc = .ok r ∧ (∀ k, acc.has k = true → r.has k = true) ∧
        (∀ c ∈ l, r.has (key c) = true) ∧
        (∀ k, r.has k = true → acc.has k = true ∨ ∃ c ∈ l, key c = k) ∧ (acc.keys.Nodup → r.keys.Nodup) := by
  intro l
  induction l with
  | nil => intro acc _; exact ⟨acc, rfl, fun _ h => h, by simp, fun _ h => Or.inl h, fun h => h⟩
  | cons c rest ih =>
    intro acc h
    obtain ⟨v, hv⟩ := h acc c (by simp)
    obtain ⟨r, hr, i1, i2, i3, i4⟩ := ih (acc.set (key c) v) (fun m c' hc' => h m c' (List.mem_cons_of_mem _ hc'))
    refine ⟨r, by rw [List.foldlM_cons, hv]; exact hr, ?_, ?_, ?_, ?_⟩
    · exact fun k hk => i1 k ((KMap.has_set _ _ _ _).mpr (Or.inl hk))
    · intro c' hc'
      rcases List.mem_cons.mp hc' with rfl | hc'
      · exact i1 _ ((KMap.has_set _ _ _ _).mpr (Or.inr rfl))
      · exact i2 c' hc'
    · intro k hk
      rcases i3 k hk with h1 | ⟨c', hc', e⟩
      · rcases (KMap.has_set _ _ _ _).mp h1 with h2 | h2
        · exact Or.inl h2
        · exact Or.inr ⟨c, by simp, h2.symm⟩
      · exact Or.inr ⟨c', List.mem_cons_of_mem _ hc', e⟩
    · exact fun hn => i4 (KMap.keys_set_nodup _ _ _ hn)

theorem prog_has_map {β γ : Type} (m : KMap β) (f : String × β → γ) (k : String) :
    KMap.has (m.map fun p => (p.1, f p)) k = m.has k := by
  induction m with
  | nil => rfl
  | cons x xs ih =>
    unfold KMap.has at *
    simp only [List.map_cons, List.lookup]
    cases hk : k == x.1 with
    | true => rfl
    | false => simpa using ih

/-! ### everything before the applier -/

def prog_aFunKnown (d : FunDef α) : Bool := d.fn == linearFunctionName || d.fn == Facts.fatigueExp

theorem prog_parseAFun_total {d : FunDef α} (h : prog_aFunKnown d = true) : ∃ f, parseAFun d = .ok f := by
  unfold prog_aFunKnown at h
  unfold parseAFun
  by_cases h1 : (d.fn == linearFunctionName) = true
  · simp only [h1, if_true]; exact ⟨_, rfl⟩
  · simp only [h1, Bool.false_eq_true, if_false]
    simp only [h1, Bool.false_or, Bool.false_eq_true] at h
    simp only [h, if_true]; exact ⟨_, rfl⟩

/-- the documented validity of the anchoring props against a state: at least one anchoring alternative, each a
    known alternative; registered loss / gain function, reference-point evaluator and applier; non-zero bounding
    scale of the applier; for the newCriterion applier a registered reference-criterion type -/
def prog_anchPropsOk (d : DMP α) (p : AnchProps α) : Bool :=
  !p.alts.isEmpty && (p.alts.all fun a => d.all.any (·.id == a.1)) &&
  prog_aFunKnown p.loss && prog_aFunKnown p.gain &&
  (p.refFn == Facts.anchoringIdeal || p.refFn == Facts.anchoringNadir) &&
  (p.applier.fn == Facts.anchoringInline || p.applier.fn == Facts.anchoringNewCriterion) &&
  !(p.applier.params.num "allowedValuesRangeScaling" (Num.ofConst Facts.defaultBoundingScaling) == Num.zero) &&
  (p.applier.fn == Facts.anchoringInline || prog_refTypeOk p.applier.params)

theorem prog_findBest_total {pred : Crit α → α × α → α × α → Bool} {name : String} {alts : List (Alt α × α)}
    {crits : List (Crit α)} (hne : alts ≠ []) (hv : ∀ a ∈ alts, ∀ c ∈ crits, a.1.vals.has c.id = true) :
    ∃ r, findBest pred name alts crits = .ok r ∧ ∀ c ∈ crits, r.vals.has c.id = true := by
  cases alts with
  | nil => exact absurd rfl hne
  | cons a0 rest =>
    obtain ⟨a0, k0⟩ := a0
    unfold findBest
    obtain ⟨best, hbest, hP⟩ := prog_foldlM_total (ε := String) (f := findBestStep pred crits)
      (fun best : KMap (α × α) => ∀ c ∈ crits, best.has c.id = true) (l := rest)
      (init := a0.vals.map fun p => (p.1, (p.2, k0)))
      (by
        intro c hc
        rw [prog_has_map a0.vals (fun p => (p.2, k0)) c.id]
        exact hv (a0, k0) (by simp) c hc)
      (by
        intro acc hacc a ha
        unfold findBestStep
        apply prog_foldlM_total (fun best : KMap (α × α) => ∀ c ∈ crits, best.has c.id = true) hacc
        intro acc' hacc' c hc
        obtain ⟨v, hvv⟩ := decideRaw_total (hv a (List.mem_cons_of_mem _ ha) c hc)
        obtain ⟨old, hold⟩ := decideHas_get (hacc' c hc)
        refine ⟨_, by simp only [hvv, hold, bind, Except.bind, pure, Except.pure]; rfl, ?_⟩
        intro c' hc'
        split
        · exact (KMap.has_set _ _ _ _).mpr (Or.inl (hacc' c' hc'))
        · exact hacc' c' hc')
    refine ⟨⟨name, best.map fun p => (p.1, p.2.1)⟩, by simp only [hbest, bind, Except.bind, pure, Except.pure], ?_⟩
    intro c hc
    rw [prog_has_map best (fun p => p.2.1) c.id]
    exact hP c hc

theorem prog_anchScaling_total {crits : List (Crit α)} {all : List (Alt α)}
    (hv : ∀ a ∈ all, ∀ c ∈ crits, a.vals.has c.id = true) :
    ∃ sc, anchScaling crits all = .ok sc ∧ sc.keys.Nodup ∧ (∀ c ∈ crits, sc.has c.id = true) ∧
      ∀ k, sc.has k = true → ∃ c ∈ crits, c.id = k := by
  unfold anchScaling
  obtain ⟨r, hr, _, i2, i3, i4⟩ := prog_foldlM_set_total (β := Scale α) (key := fun c : Crit α => c.id)
    (step := fun (m : KMap (Scale α)) c => (do
      let r ← valuesRange all c
      pure (m.set c.id (getScaleRatio (Num.zero, Num.one) r, r)) : R (KMap (Scale α)))) crits [] (by
      intro m c hc
      obtain ⟨r, hr⟩ := decideValuesRange_total (alts := all) (c := c) (fun a ha => hv a ha c hc)
      exact ⟨_, by simp only [hr, bind, Except.bind, pure, Except.pure]; rfl⟩)
  refine ⟨r, hr, i4 (by simp [KMap.keys]), i2, ?_⟩
  intro k hk
  rcases i3 k hk with h | h
  · simp [KMap.has] at h
  · exact h

theorem prog_refPointDiff_total {ev : AFun α → α → α} {crits : List (Crit α)} {a r : Alt α} {sc : KMap (Scale α)}
    {loss gain : AFun α} (ha : ∀ c ∈ crits, a.vals.has c.id = true) (hr : ∀ c ∈ crits, r.vals.has c.id = true)
    (hsc : ∀ c ∈ crits, sc.has c.id = true) :
    ∃ m, refPointDiffWith ev crits a r sc loss gain = .ok (r.id, m) ∧ (∀ c ∈ crits, m.has c.id = true) ∧
      m.keys.Nodup ∧ ∀ k, m.has k = true → ∃ c ∈ crits, c.id = k := by
  unfold refPointDiffWith
  obtain ⟨m, hm, _, i2, i3, i4⟩ := prog_foldlM_set_total (β := α) (key := fun c : Crit α => c.id)
    (step := fun (m : KMap α) c => (do
      let difference := (← a.signed c) - (← r.signed c)
      match sc.get? c.id with
      | none => throw s!"unknown-criterion:{c.id}"
      | some s => pure (m.set c.id (mapDiff ev loss gain (difference * s.1))) : R (KMap α))) crits [] (by
      intro m c hc
      obtain ⟨v1, h1⟩ := prog_signed_total (ha c hc)
      obtain ⟨v2, h2⟩ := prog_signed_total (hr c hc)
      obtain ⟨s, hs⟩ := decideHas_get (hsc c hc)
      exact ⟨_, by simp only [h1, h2, hs, bind, Except.bind, pure, Except.pure]; rfl⟩)
  refine ⟨m, ?_, i2, i4 (by simp [KMap.keys]), fun k hk => by
    rcases i3 k hk with h | h
    · simp [KMap.has] at h
    · exact h⟩
  have e : ∀ x : R (KMap α), x = .ok m → (x >>= fun m => pure (r.id, m)) = (.ok (r.id, m) : R (String × KMap α)) := by
    intro x hx; rw [hx]; rfl
  exact e _ hm

/-- the shape of the differences the appliers rely on: one entry per known alternative, in order, each with
    the coefficient map of the single reference point, keyed by exactly the current criteria -/
def ProgDiffsOk (d : DMP α) (diffs : List (AltDiffs α)) : Prop :=
  diffs.map (·.1) = d.all ∧ ∀ q ∈ diffs, ∃ rid m, q.2 = [(rid, m)] ∧ (∀ c ∈ d.crit, m.has c.id = true) ∧
    m.keys.Nodup ∧ ∀ k, m.has k = true → ∃ c ∈ d.crit, c.id = k

theorem prog_anchoringFront_total {exp : α → α} {cur : DMP α} {p : AnchProps α} (hc : Coherent cur)
    (hp : prog_anchPropsOk cur p = true) :
    ∃ refs sc diffs b, anchoringFront exp cur p = .ok (refs, sc, diffs, b) ∧
      anchScaling cur.crit cur.all = .ok sc ∧ sc.keys.Nodup ∧ (∀ c ∈ cur.crit, sc.has c.id = true) ∧
      (∀ k, sc.has k = true → ∃ c ∈ cur.crit, c.id = k) ∧ ProgDiffsOk cur diffs := by
  unfold prog_anchPropsOk at hp
  simp only [Bool.and_eq_true, Bool.not_eq_true'] at hp
  obtain ⟨⟨⟨⟨⟨⟨⟨hne, hknown⟩, hloss⟩, hgain⟩, hrefFn⟩, happ⟩, hbs⟩, _⟩ := hp
  have hall : ∀ a ∈ cur.all, ∀ c ∈ cur.crit, a.vals.has c.id = true :=
    fun a ha c hcm => hc.values a (by simpa [DMP.all] using ha) c hcm
  have halts : anchoringAlternatives p = .ok (p.alts.map fun (i, k) =>
      (i, match k with
          | some k => k
          | none => if p.typed then Num.one else Num.zero)) := by
    unfold anchoringAlternatives
    simp only [hne, Bool.false_eq_true, if_false]
    rfl
  obtain ⟨loss, hl⟩ := prog_parseAFun_total hloss
  obtain ⟨gain, hg⟩ := prog_parseAFun_total hgain
  obtain ⟨anch, hanch⟩ := decideMapM_total (ε := String)
    (f := fun (ik : String × α) => (do pure (← fetchAlt cur.all ik.1, ik.2) : R (Alt α × α)))
    (l := p.alts.map fun (i, k) =>
      (i, match k with
          | some k => k
          | none => if p.typed then Num.one else Num.zero)) (by
      intro ik hik
      obtain ⟨x, hx, rfl⟩ := List.mem_map.mp hik
      rw [List.all_eq_true] at hknown
      have := hknown x hx
      rw [List.any_eq_true] at this
      obtain ⟨a, ha, e⟩ := this
      obtain ⟨a', ha'⟩ := decideFetchAlt_total (l := cur.all) (id := x.1) ⟨a, ha, eq_of_beq e⟩
      exact ⟨(a', _), by simp only [ha', bind, Except.bind, pure, Except.pure]; rfl⟩)
  have hanch' : fetchAnchoring cur.all (p.alts.map fun (i, k) =>
      (i, match k with
          | some k => k
          | none => if p.typed then Num.one else Num.zero)) = .ok anch := hanch
  have hanchne : anch ≠ [] := by
    intro e
    have := (mapM_ok hanch).1
    rw [e] at this
    simp only [List.length_nil, List.length_map] at this
    cases hpa : p.alts with
    | nil => rw [hpa] at hne; simp at hne
    | cons _ _ => rw [hpa] at this; simp at this
  have hanchv : ∀ a ∈ anch, ∀ c ∈ cur.crit, a.1.vals.has c.id = true := by
    intro a ha c hcm
    obtain ⟨ik, _, e⟩ := mapM_ok_mem hanch a ha
    obtain ⟨a', ha', e⟩ := bind_eq_ok.mp e
    simp only [pure, Except.pure, Except.ok.injEq] at e
    subst e
    exact hall a' (fetchAlt_ok ha').1 c hcm
  obtain ⟨refs, hrefs, hrefsv⟩ : ∃ refs, referencePoints p.refFn anch cur.crit = .ok refs ∧
      ∃ r, refs = [r] ∧ ∀ c ∈ cur.crit, r.vals.has c.id = true := by
    unfold referencePoints
    by_cases h1 : (p.refFn == Facts.anchoringIdeal) = true
    · obtain ⟨r, hr, hrv⟩ := prog_findBest_total (pred := idealPred) (name := Facts.anchoringIdeal) hanchne hanchv
      exact ⟨[r], by simp only [h1, if_true, hr, bind, Except.bind, pure, Except.pure], r, rfl, hrv⟩
    · simp only [h1, Bool.false_or, Bool.false_eq_true] at hrefFn
      obtain ⟨r, hr, hrv⟩ := prog_findBest_total (pred := nadirPred) (name := Facts.anchoringNadir) hanchne hanchv
      exact ⟨[r], by simp only [h1, hrefFn, Bool.false_eq_true, if_false, if_true, hr, bind, Except.bind, pure,
        Except.pure], r, rfl, hrv⟩
  obtain ⟨r, rfl, hrv⟩ := hrefsv
  obtain ⟨b, hb⟩ := prog_boundingOfProps_total hbs
  obtain ⟨sc, hsc, hscn, hsch, hsck⟩ := prog_anchScaling_total (crits := cur.crit) (all := cur.all) hall
  obtain ⟨diffs, hdiffs, hshape⟩ : ∃ diffs, calcDiffs exp cur.all [r] cur.crit sc loss gain = .ok diffs ∧
      ProgDiffsOk cur diffs := by
    unfold calcDiffs calcDiffsWith
    have hone : ∀ a ∈ cur.all, ∃ m, (do
        pure (a, ← [r].mapM fun r => refPointDiffWith (AFun.eval exp) cur.crit a r sc loss gain) :
          R (AltDiffs α)) = .ok (a, [(r.id, m)]) ∧ (∀ c ∈ cur.crit, m.has c.id = true) ∧
          m.keys.Nodup ∧ ∀ k, m.has k = true → ∃ c ∈ cur.crit, c.id = k := by
      intro a ha
      obtain ⟨m, hm, hmk⟩ := prog_refPointDiff_total (ev := AFun.eval exp) (crits := cur.crit) (a := a) (r := r)
        (sc := sc) (loss := loss) (gain := gain) (hall a ha) hrv hsch
      exact ⟨m, by simp only [List.mapM_cons, List.mapM_nil, hm, bind, Except.bind, pure, Except.pure], hmk⟩
    obtain ⟨diffs, hd⟩ := decideMapM_total (ε := String) (f := fun a : Alt α => (do
        pure (a, ← [r].mapM fun r => refPointDiffWith (AFun.eval exp) cur.crit a r sc loss gain) :
          R (AltDiffs α))) (l := cur.all) (fun a ha => by
        obtain ⟨m, hm, _⟩ := hone a ha
        exact ⟨_, hm⟩)
    refine ⟨diffs, hd, ?_, ?_⟩
    · have := decideMapM_map (gk := fun q : AltDiffs α => q.1) (k := fun a : Alt α => a) (by
        intro a q haq
        obtain ⟨l, _, e⟩ := bind_eq_ok.mp haq
        simp only [pure, Except.pure, Except.ok.injEq] at e
        rw [← e]) hd
      simpa using this
    · intro q hq
      obtain ⟨a, ha, e⟩ := mapM_ok_mem hd q hq
      obtain ⟨m, hm, hmk⟩ := hone a ha
      rw [hm] at e
      simp only [Except.ok.injEq] at e
      exact ⟨r.id, m, by rw [← e], hmk⟩
  refine ⟨[r], sc, diffs, b, ?_, hsc, hscn, hsch, hsck, hshape⟩
  unfold anchoringFront
  have happ' : (!(p.applier.fn == Facts.anchoringInline || p.applier.fn == Facts.anchoringNewCriterion)) = false := by
    rw [happ]; rfl
  simp only [halts, hl, hg, happ', Bool.false_eq_true, if_false, hanch', hrefs, hb, hsc, hdiffs, bind, Except.bind,
    pure, Except.pure]

/-! ### the inline applier -/

theorem prog_arithmeticAverage_single (rid : String) (m : KMap α) :
    ∃ avg, arithmeticAverage [(rid, m)] = .ok avg ∧ (∀ k, avg.has k = m.has k) ∧ avg.keys = m.keys := by
  unfold arithmeticAverage
  simp only [List.foldlM_nil, bind, Except.bind, pure, Except.pure]
  split
  · refine ⟨_, rfl, fun k => prog_has_map m (fun cv => cv.2 / Num.ofNat [(rid, m)].length) k, ?_⟩
    simp only [KMap.keys, List.map_map]
    rfl
  · exact ⟨_, rfl, fun _ => rfl, rfl⟩

theorem prog_inlineOne_total {b : Bounding α} {sc : KMap (Scale α)} {a : Alt α} {rid : String} {m : KMap α}
    (hm : ∀ cs ∈ sc, m.has cs.1 = true) (ha : ∀ cs ∈ sc, a.vals.has cs.1 = true) (hmn : m.keys.Nodup) :
    ∃ nw dif, inlineOne b sc (a, [(rid, m)]) = .ok (⟨a.id, nw⟩, ⟨a.id, dif⟩) ∧ nw.keys.Nodup ∧
      ∀ k, nw.has k = true → m.has k = true := by
  obtain ⟨avg, havg, hk, hkeys⟩ := prog_arithmeticAverage_single rid m
  obtain ⟨st, hst, hP⟩ := prog_foldlM_total (ε := String) (f := inlineStep b avg a.vals)
    (fun st : KMap α × KMap α => st.1.keys.Nodup ∧ ∀ k, st.1.has k = true → m.has k = true)
    (l := sc) (init := (avg, [])) ⟨by rw [hkeys]; exact hmn, fun k h => by rw [← hk]; exact h⟩ (by
      intro acc hacc cs hcs
      obtain ⟨dv, hd⟩ := decideFetch_total (m := avg) (k := cs.1) (by rw [hk]; exact hm cs hcs)
      obtain ⟨v, hv⟩ := decideFetch_total (m := a.vals) (k := cs.1) (ha cs hcs)
      refine ⟨(acc.1.set cs.1 (inlineValue b cs.2.2 v dv), acc.2.set cs.1 (inlineValue b cs.2.2 v dv - v)),
        by unfold inlineStep; simp only [hd, hv, bind, Except.bind, pure, Except.pure], ?_, ?_⟩
      · exact KMap.keys_set_nodup _ _ _ hacc.1
      · intro k hk'
        rcases (KMap.has_set _ _ _ _).mp hk' with h | h
        · exact hacc.2 k h
        · rw [h]; exact hm cs hcs)
  refine ⟨st.1, st.2, ?_, hP.1, hP.2⟩
  unfold inlineOne
  simp only [havg, hst, bind, Except.bind, pure, Except.pure]

theorem prog_inlineApply_total {d : DMP α} {diffs : List (AltDiffs α)} {b : Bounding α} {sc : KMap (Scale α)}
    {params : Props α} (hc : Coherent d) (hsck : ∀ k, sc.has k = true → ∃ c ∈ d.crit, c.id = k)
    (hd : ProgDiffsOk d diffs) :
    ∃ res r, inlineApply d diffs b sc params = .ok (res, r) ∧ res.crit = d.crit ∧ res.mp = d.mp ∧
      (ProgExact d → ProgExact res) := by
  obtain ⟨hfst, hshape⟩ := hd
  have hmem : ∀ q ∈ diffs, q.1 ∈ d.co ++ d.nc := by
    intro q hq
    have : q.1 ∈ diffs.map (·.1) := List.mem_map_of_mem hq
    rw [hfst] at this
    simpa [DMP.all] using this
  have hone : ∀ q ∈ diffs, ∃ nw dif, inlineOne b sc q = .ok (⟨q.1.id, nw⟩, ⟨q.1.id, dif⟩) ∧ nw.keys.Nodup ∧
      ∀ k ∈ nw.keys, ∃ c ∈ d.crit, c.id = k := by
    intro q hq
    obtain ⟨rid, m, hq2, hmk, hmn, hmd⟩ := hshape q hq
    obtain ⟨a, l⟩ := q
    simp only at hq2
    subst hq2
    obtain ⟨nw, dif, h, h1, h2⟩ := prog_inlineOne_total (b := b) (sc := sc) (a := a) (rid := rid) (m := m)
      (by
        intro cs hcs
        obtain ⟨c, hcm, e⟩ := hsck cs.1 (KMap.has_of_mem (v := cs.2) hcs)
        rw [← e]; exact hmk c hcm)
      (by
        intro cs hcs
        obtain ⟨c, hcm, e⟩ := hsck cs.1 (KMap.has_of_mem (v := cs.2) hcs)
        rw [← e]; exact hc.values a (hmem (a, [(rid, m)]) hq) c hcm) hmn
    exact ⟨nw, dif, h, h1, fun k hk => hmd k (h2 k (KMap.has_iff_mem_keys.mpr hk))⟩
  obtain ⟨pairs, hpairs⟩ := decideMapM_total (ε := String) (f := inlineOne b sc) (l := diffs) (fun q hq => by
    obtain ⟨nw, dif, h, _⟩ := hone q hq
    exact ⟨_, h⟩)
  have hid1 : ∀ q pr, inlineOne b sc q = .ok pr → pr.1.id = q.1.id ∧ pr.2.id = q.1.id := by
    intro q pr h
    unfold inlineOne at h
    obtain ⟨avg, _, h⟩ := bind_eq_ok.mp h
    obtain ⟨st, _, h⟩ := bind_eq_ok.mp h
    simp only [pure, Except.pure, Except.ok.injEq] at h
    rw [← h]; exact ⟨rfl, rfl⟩
  have hallids : (diffs.map fun q => q.1.id) = d.all.map (·.id) := by
    rw [← hfst, List.map_map]; rfl
  have hids1 : (pairs.map (·.1)).map (·.id) = d.all.map (·.id) := by
    rw [List.map_map, ← hallids]
    exact decideMapM_map (gk := fun pr : Alt α × Alt α => pr.1.id) (k := fun q : AltDiffs α => q.1.id)
      (fun q pr h => (hid1 q pr h).1) hpairs
  have hids2 : (pairs.map (·.2)).map (·.id) = d.all.map (·.id) := by
    rw [List.map_map, ← hallids]
    exact decideMapM_map (gk := fun pr : Alt α × Alt α => pr.2.id) (k := fun q : AltDiffs α => q.1.id)
      (fun q pr h => (hid1 q pr h).2) hpairs
  have hfound : ∀ {new : List (Alt α)}, new.map (·.id) = d.all.map (·.id) → ∀ a ∈ d.co ++ d.nc,
      ∃ x ∈ new, x.id = a.id := by
    intro new hnew a ha
    have : a.id ∈ new.map (·.id) := by
      rw [hnew]; exact List.mem_map_of_mem (by simpa [DMP.all] using ha)
    obtain ⟨x, hx, e⟩ := List.mem_map.mp this
    exact ⟨x, hx, e⟩
  -- the new alternatives hold exactly the current criteria
  have hnewExact : ∀ x ∈ pairs.map (·.1), x.vals.keys.Nodup ∧ ∀ k ∈ x.vals.keys, ∃ c ∈ d.crit, c.id = k := by
    intro x hx
    obtain ⟨pr, hpr, rfl⟩ := List.mem_map.mp hx
    obtain ⟨q, hq, e⟩ := mapM_ok_mem hpairs pr hpr
    obtain ⟨nw, dif, h, h1, h2⟩ := hone q hq
    rw [h] at e
    simp only [Except.ok.injEq] at e
    rw [← e]
    exact ⟨h1, h2⟩
  have hupd : ∀ {old r : List (Alt α)} {a : Alt α}, updateAlts old (pairs.map (·.1)) = .ok r → a ∈ r →
      a ∈ pairs.map (·.1) := by
    intro old r a hu har
    obtain ⟨a0, _, hb⟩ := BiasA.forall₂_mem_right (BiasA.updateAlts_ok hu) a har
    exact hb.1
  obtain ⟨co, hco⟩ := decideUpdateAlts_total (old := d.co) (new := pairs.map (·.1))
    (fun a ha => hfound hids1 a (List.mem_append_left _ ha))
  by_cases hnc' : params.bool "applyOnNotConsidered" false = true
  · obtain ⟨nc, hnc⟩ := decideUpdateAlts_total (old := d.nc) (new := pairs.map (·.1))
      (fun a ha => hfound hids1 a (List.mem_append_right _ ha))
    refine ⟨⟨nc, co, d.crit, d.mp⟩, .inline (pairs.map (·.2)), ?_, rfl, rfl, ?_⟩
    · unfold inlineApply
      simp only [hpairs, hco, hnc', hnc, if_true, bind, Except.bind, pure, Except.pure]
    · intro _
      refine ⟨fun a ha => ?_, fun a ha => ?_⟩
      · rcases List.mem_append.mp ha with ha | ha
        · exact (hnewExact a (hupd hco ha)).1
        · exact (hnewExact a (hupd hnc ha)).1
      · rcases List.mem_append.mp ha with ha | ha
        · exact (hnewExact a (hupd hco ha)).2
        · exact (hnewExact a (hupd hnc ha)).2
  · obtain ⟨rep, hrep⟩ := decideUpdateAlts_total (old := d.co) (new := pairs.map (·.2))
      (fun a ha => hfound hids2 a (List.mem_append_left _ ha))
    refine ⟨⟨d.nc, co, d.crit, d.mp⟩, .inline rep, ?_, rfl, rfl, ?_⟩
    · unfold inlineApply
      simp only [hpairs, hco, hnc', hrep, Bool.false_eq_true, if_false, bind, Except.bind, pure, Except.pure]
    · intro hex
      refine ⟨fun a ha => ?_, fun a ha => ?_⟩
      · rcases List.mem_append.mp ha with ha | ha
        · exact (hnewExact a (hupd hco ha)).1
        · exact hex.keysNodup a (List.mem_append_right _ ha)
      · rcases List.mem_append.mp ha with ha | ha
        · exact (hnewExact a (hupd hco ha)).2
        · exact hex.declared a (List.mem_append_right _ ha)

/-! ### the newCriterion applier -/

theorem prog_weightedDiff_total {ranked : List (WCrit α)} {coefs : KMap α}
    (h : ∀ c ∈ ranked, coefs.has c.crit.id = true) : ∃ cv, weightedDiff ranked coefs = .ok cv := by
  unfold weightedDiff
  obtain ⟨r, hr, _⟩ := prog_foldlM_total (ε := String)
    (f := fun (t : α) (c : WCrit α) => (do pure (t + (← KMap.fetch coefs c.crit.id) * c.w) : R α)) (fun _ => True)
    (l := ranked) (init := Num.zero) trivial (by
      intro acc _ c hc
      obtain ⟨v, hv⟩ := decideFetch_total (h c hc)
      exact ⟨_, by simp only [hv, bind, Except.bind, pure, Except.pure]; rfl, trivial⟩)
  exact ⟨r, hr⟩

theorem prog_normalizeWeights_total {mn : α} {ranked : List (WCrit α)} (hne : ranked ≠ []) :
    ∃ n, normalizeWeights mn ranked = .ok n ∧ n.map (·.crit) = ranked.map (·.crit) := by
  unfold normalizeWeights
  cases ranked with
  | nil => exact absurd rfl hne
  | cons c0 rest =>
    refine ⟨_, rfl, ?_⟩
    simp only [List.map_map]
    rfl

theorem prog_ncOne_total {b : Bounding α} {range : α × α} {ref : Crit α} {gens : List (Draws α)}
    {ranked : List (WCrit α)} {st st1 : NCState α} {i : Nat} {a : Alt α} {rid : String} {m : KMap α}
    {ac : AddedAnch α} {cv : α} (hnew : ncNewCriterion ref gens st 0 rid = .ok st1)
    (hac : st1.added[0]? = some ac) (hcv : weightedDiff ranked m = .ok cv) (hkey : a.vals.has ac.id = false) :
    ∃ st' a', ncOne b range ref gens ranked st i (a, [(rid, m)]) = .ok (st', a') ∧
      (∃ ac', st'.added = st1.added.set 0 ac' ∧ ac'.id = ac.id) ∧ st'.crits = st1.crits ∧ st'.mp = st1.mp ∧
      a'.id = a.id := by
  have hw : a.withCrit ac.id (ncValue b range cv) = .ok { a with vals := a.vals ++ [(ac.id, ncValue b range cv)] } := by
    unfold Alt.withCrit
    simp only [hkey, Bool.false_eq_true, if_false]
    rfl
  refine ⟨?st', ?a', ?h1, ?h2⟩
  case h1 =>
    unfold ncOne
    dsimp only
    rw [List.forIn_cons]
    simp only [List.forIn_nil, hnew, hac, hcv, hw, bind, Except.bind, pure, Except.pure]
    rfl
  case h2 => exact ⟨⟨_, rfl, rfl⟩, rfl, rfl, rfl⟩

/-- the loop once the anchoring criterion exists (every alternative after the first) -/
theorem prog_ncLoop_rest {b : Bounding α} {range : α × α} {ref : Crit α} {gens : List (Draws α)}
    {ranked : List (WCrit α)} :
    ∀ (diffs : List (AltDiffs α)) (st : NCState α) (i : Nat) (ac : AddedAnch α), st.added = [ac] →
      (∀ p ∈ diffs, p.1.vals.has ac.id = false ∧ ∃ rid m, p.2 = [(rid, m)] ∧ ∀ c ∈ ranked, m.has c.crit.id = true) →
      ∃ st' alts, ncLoop b range ref gens ranked st i diffs = .ok (st', alts) ∧
        alts.map (·.id) = diffs.map (·.1.id) := by
  intro diffs
  induction diffs with
  | nil => intro st i ac _ _; exact ⟨st, [], rfl, rfl⟩
  | cons p rest ih =>
    intro st i ac hadd hall
    obtain ⟨hkey, rid, m, hp2, hm⟩ := hall p (by simp)
    obtain ⟨a, l⟩ := p
    simp only at hp2 hkey
    subst hp2
    have hnew : ncNewCriterion ref gens st 0 rid = .ok st := by
      unfold ncNewCriterion
      simp only [hadd, List.length_singleton]
      rfl
    obtain ⟨cv, hcv⟩ := prog_weightedDiff_total hm
    obtain ⟨st', a', hone, ⟨ac', hadd', hid'⟩, _, _, haid⟩ := prog_ncOne_total (b := b) (range := range) (i := i)
      (a := a) hnew (by rw [hadd]; rfl) hcv hkey
    have hadd'' : st'.added = [ac'] := by rw [hadd', hadd]; rfl
    obtain ⟨st'', alts, hrest, hids⟩ := ih st' (i + 1) ac' hadd'' (by
      intro q hq
      rw [hid']
      exact hall q (List.mem_cons_of_mem _ hq))
    refine ⟨st'', a' :: alts, ?_, by simp [haid, hids]⟩
    unfold ncLoop
    simp only [hone, hrest, bind, Except.bind, pure, Except.pure]

end

/-- **the newCriterion applier never fails on a coherent first state** (five admitting methods) -/
theorem prog_newCriterionApply_total {d : DMP Rat} {diffs : List (AltDiffs Rat)} {b : Bounding Rat}
    {sc : KMap (Scale Rat)} {params : Props Rat} {rd : Draws Rat} {gens : List (Draws Rat)} (hc : Coherent d)
    (hex : ProgExact d) (hadm : admitsAdditions d.mp = true) (hk : listenerKnowsLevels d.mp = true)
    (hdecl : prog_paramsDeclared d.mp d.crit = true) (hne : d.crit ≠ []) (hrt : prog_refTypeOk params = true)
    (hsch : ∀ c ∈ d.crit, sc.has c.id = true) (hd : ProgDiffsOk d diffs) (hrd : 0 < rd.length)
    (hu : ∀ u ∈ rd, 0 ≤ u ∧ u < 1)
    (hgens : ∃ g0 rest, gens = g0 :: rest ∧ prog_listenerDraws d.mp ≤ g0.length) :
    ∃ res r, newCriterionApply choquetEpsOf d diffs b sc params rd gens = .ok (res, r) := by
  obtain ⟨ranked, kind, ref, hrk, hkind, href, hrefm, hrne⟩ :=
    prog_refCriterion_total (eps := (choquetEpsOf : Rat)) (p := params) hc (fun _ => hex) hne hrt hrd hu
  obtain ⟨norm, hnorm, hnormc⟩ := prog_normalizeWeights_total (mn := (Num.ofConst Facts.minAllowedWeight : Rat)) hrne
  obtain ⟨s, hs⟩ := decideHas_get (hsch ref hrefm)
  obtain ⟨hfst, hshape⟩ := hd
  have hperm := BiasA.rankAsc_perm hrk
  have hnormm : ∀ c ∈ norm, c.crit ∈ d.crit := by
    intro c hcm
    have : c.crit ∈ norm.map (·.crit) := List.mem_map_of_mem hcm
    rw [hnormc] at this
    exact hperm.mem_iff.mp this
  have hmem : ∀ q ∈ diffs, q.1 ∈ d.co ++ d.nc := by
    intro q hq
    have : q.1 ∈ diffs.map (·.1) := List.mem_map_of_mem hq
    rw [hfst] at this
    simpa [DMP.all] using this
  have hfresh : ∀ k, k ∉ d.crit.map (·.id) → ∀ q ∈ diffs, q.1.vals.has k = false := by
    intro k hk' q hq
    cases hh : q.1.vals.has k with
    | false => rfl
    | true =>
      rw [KMap.has_iff_mem_keys] at hh
      obtain ⟨c, hcm, e⟩ := hex.declared q.1 (hmem q hq) k hh
      exact absurd (List.mem_map.mpr ⟨c, hcm, e⟩) hk'
  have hq2 : ∀ q ∈ diffs, ∃ rid m, q.2 = [(rid, m)] ∧ ∀ c ∈ norm, m.has c.crit.id = true := by
    intro q hq
    obtain ⟨rid, m, e, hm, _, _⟩ := hshape q hq
    exact ⟨rid, m, e, fun c hcm => hm c.crit (hnormm c hcm)⟩
  obtain ⟨g0, grest, rfl, hg0⟩ := hgens
  obtain ⟨st, newAlts, hloop, hids⟩ : ∃ st newAlts,
      ncLoop b s.2 ref (g0 :: grest) norm ⟨d.crit, d.mp, []⟩ 0 diffs = .ok (st, newAlts) ∧
        newAlts.map (·.id) = diffs.map (·.1.id) := by
    cases diffs with
    | nil => exact ⟨_, [], rfl, rfl⟩
    | cons p rest =>
      obtain ⟨rid, m, hp2, hm⟩ := hq2 p (by simp)
      obtain ⟨a, l⟩ := p
      simp only at hp2
      subst hp2
      obtain ⟨cid, hcid⟩ : ∃ k, k = notUsedName (d.crit.map (·.id)) (anchoringCriterionPrefix ++ rid) := ⟨_, rfl⟩
      have hcfresh : cid ∉ d.crit.map (·.id) := by rw [hcid]; exact notUsedName_fresh _ _
      obtain ⟨add, gen', mp', hadd, hmerge⟩ := prog_addition_total (mp := d.mp) (crit := d.crit)
        (newC := ⟨cid, ref.type, ref.range⟩) (ref := ref) (gen := g0) hc.covers hadm hk hrefm
        (prog_paramsFresh_of_declared hdecl hcfresh) hg0
      have hcrits : critsAdd d.crit ⟨cid, ref.type, ref.range⟩ = .ok (d.crit ++ [⟨cid, ref.type, ref.range⟩]) := by
        unfold critsAdd
        have : (d.crit.any fun x => x.id == cid) = false := by
          rw [List.any_eq_false]
          intro x hx hxe
          exact hcfresh (List.mem_map.mpr ⟨x, hx, eq_of_beq hxe⟩)
        simp only [this, Bool.false_eq_true, if_false]
        rfl
      have hnew : ncNewCriterion ref (g0 :: grest) ⟨d.crit, d.mp, []⟩ 0 rid =
          .ok ⟨d.crit ++ [⟨cid, ref.type, ref.range⟩], mp',
            [⟨cid, ref.type, (Num.zero, Num.zero), add, []⟩]⟩ := by
        unfold ncNewCriterion
        rw [hcid] at hcrits hadd
        simp only [List.length_nil, beq_self_eq_true, if_true, List.getElem?_cons_zero, hcrits, hadd, hmerge, bind,
          Except.bind, pure, Except.pure, List.nil_append]
        rw [hcid]
      obtain ⟨cv, hcv⟩ := prog_weightedDiff_total hm
      obtain ⟨st', a', hone, ⟨ac', hadd', hid'⟩, _, _, haid⟩ := prog_ncOne_total (b := b) (range := s.2) (i := 0)
        (a := a) hnew (ac := ⟨cid, ref.type, (Num.zero, Num.zero), add, []⟩) rfl hcv
        (hfresh cid hcfresh (a, [(rid, m)]) (by simp))
      obtain ⟨st'', alts, hrest, hids⟩ := prog_ncLoop_rest (b := b) (range := s.2) (ref := ref) (gens := g0 :: grest)
        (ranked := norm) rest st' 1 ac' (by rw [hadd']; rfl) (by
          intro q hq
          refine ⟨?_, hq2 q (List.mem_cons_of_mem _ hq)⟩
          rw [hid']
          exact hfresh cid hcfresh q (List.mem_cons_of_mem _ hq))
      refine ⟨st'', a' :: alts, ?_, by simp [haid, hids]⟩
      unfold ncLoop
      simp only [hone, hrest, bind, Except.bind, pure, Except.pure]
  have hallids : (diffs.map fun q => q.1.id) = d.all.map (·.id) := by
    rw [← hfst, List.map_map]; rfl
  have hfound : ∀ a ∈ d.co ++ d.nc, ∃ x ∈ newAlts, x.id = a.id := by
    intro a ha
    have : a.id ∈ newAlts.map (·.id) := by
      rw [hids, hallids]; exact List.mem_map_of_mem (by simpa [DMP.all] using ha)
    obtain ⟨x, hx, e⟩ := List.mem_map.mp this
    exact ⟨x, hx, e⟩
  obtain ⟨co, hco⟩ := decideUpdateAlts_total (old := d.co) (new := newAlts)
    (fun a ha => hfound a (List.mem_append_left _ ha))
  obtain ⟨nc, hnc⟩ := decideUpdateAlts_total (old := d.nc) (new := newAlts)
    (fun a ha => hfound a (List.mem_append_right _ ha))
  refine ⟨⟨nc, co, st.crits, st.mp⟩, .newCriterion ref st.added, ?_⟩
  unfold newCriterionApply
  simp only [hkind, hrk, href, hnorm, hs, hloop, hco, hnc, bind, Except.bind, pure, Except.pure]

/-! ### `Anchoring.Apply` and the two biases at the level of `applyBias` -/

/-- what the newCriterion applier needs beyond the props' validity: exact values, admitting method with a known
    levels function, parameters keyed by current criteria, at least one criterion -/
def prog_newCriterionReady (d : DMP Rat) : Bool :=
  prog_exactValues d && admitsAdditions d.mp && listenerKnowsLevels d.mp && prog_paramsDeclared d.mp d.crit &&
    !d.crit.isEmpty

theorem prog_anchoringApply_total {exp : Rat → Rat} {d : DMP Rat} {p : AnchProps Rat} {rd : Draws Rat}
    {gens : List (Draws Rat)} (hc : Coherent d) (hp : prog_anchPropsOk d p = true)
    (happ : p.applier.fn = Facts.anchoringInline ∨
      (prog_newCriterionReady d = true ∧ 0 < rd.length ∧ (∀ u ∈ rd, 0 ≤ u ∧ u < 1) ∧
        ∃ g0 rest, gens = g0 :: rest ∧ prog_listenerDraws d.mp ≤ g0.length)) :
    ∃ res rep, anchoringApply exp choquetEpsOf d p rd gens = .ok (res, rep) := by
  obtain ⟨refs, sc, diffs, b, hfront, _, _, hsch, hsck, hdiffs⟩ := prog_anchoringFront_total (exp := exp) hc hp
  have hfn : p.applier.fn = Facts.anchoringInline ∨ p.applier.fn = Facts.anchoringNewCriterion := by
    unfold prog_anchPropsOk at hp
    simp only [Bool.and_eq_true, Bool.or_eq_true, beq_iff_eq] at hp
    exact hp.1.1.2
  obtain ⟨res, r, happly⟩ : ∃ res r, applierApply choquetEpsOf d diffs b sc p.applier rd gens = .ok (res, r) := by
    unfold applierApply
    by_cases hi : p.applier.fn = Facts.anchoringInline
    · simp only [hi, beq_self_eq_true, if_true]
      obtain ⟨res, r, h, _⟩ := prog_inlineApply_total (b := b) (params := p.applier.params) hc hsck hdiffs
      exact ⟨res, r, h⟩
    · have hn : p.applier.fn = Facts.anchoringNewCriterion := by
        rcases hfn with h | h
        · exact absurd h hi
        · exact h
      have hi' : (p.applier.fn == Facts.anchoringInline) = false := by simpa using hi
      simp only [hi', Bool.false_eq_true, if_false, hn, beq_self_eq_true, if_true]
      rcases happ with h | ⟨hready, hrd, hu, hgens⟩
      · exact absurd h hi
      · unfold prog_newCriterionReady at hready
        simp only [Bool.and_eq_true, Bool.not_eq_true', List.isEmpty_eq_false_iff] at hready
        obtain ⟨⟨⟨⟨hex, hadm⟩, hk⟩, hdecl⟩, hne⟩ := hready
        have hrt : prog_refTypeOk p.applier.params = true := by
          unfold prog_anchPropsOk at hp
          simp only [Bool.and_eq_true, Bool.or_eq_true, beq_iff_eq] at hp
          rcases hp.2 with h | h
          · exact absurd h hi
          · exact h
        exact prog_newCriterionApply_total hc ((prog_exactValues_iff _).mp hex) hadm hk hdecl hne hrt hsch hdiffs hrd
          hu hgens
  exact ⟨res, ⟨refs, sc, diffs, r⟩, by
    unfold anchoringApply
    simp only [hfront, Option.getD_none, happly, bind, Except.bind, pure, Except.pure]⟩

/-- anchoring with the inline applier: total, criteria and parameters untouched, exact values kept -/
theorem prog_inlineAnchoring_total {exp : Rat → Rat} {d : DMP Rat} {p : AnchProps Rat} {rd : Draws Rat}
    {gens : List (Draws Rat)} (hc : Coherent d) (hp : prog_anchPropsOk d p = true)
    (hfn : p.applier.fn = Facts.anchoringInline) :
    ∃ res rep, anchoringApply exp choquetEpsOf d p rd gens = .ok (res, rep) ∧ res.crit = d.crit ∧ res.mp = d.mp ∧
      (ProgExact d → ProgExact res) := by
  obtain ⟨refs, sc, diffs, b, hfront, _, _, _, hsck, hdiffs⟩ := prog_anchoringFront_total (exp := exp) hc hp
  obtain ⟨res, r, h, h1, h2, h3⟩ := prog_inlineApply_total (b := b) (params := p.applier.params) hc hsck hdiffs
  refine ⟨res, ⟨refs, sc, diffs, r⟩, ?_, h1, h2, h3⟩
  unfold anchoringApply applierApply
  simp only [hfront, Option.getD_none, hfn, beq_self_eq_true, if_true, h, bind, Except.bind, pure, Except.pure]

theorem prog_applyBias_anchoring_eq (exp : Rat → Rat) (g : Int → Draws Rat) (p : AnchProps Rat) (orig cur : DMP Rat) :
    applyBias exp g Facts.biasAnchoring (.anch p) orig cur =
      (do let r ← anchoringApply exp choquetEpsOf cur p (g (p.applier.params.seed "newCriterionRandomSeed"))
            ((anchGenSeeds p).map g)
          pure (r.1, .anchoring r.2)) := by
  unfold applyBias
  rw [if_neg (by decide), if_neg (by decide), if_neg (by decide), if_neg (by decide), if_neg (by decide),
    if_pos (by decide)]

theorem prog_applyBias_conceal_eq (exp : Rat → Rat) (g : Int → Draws Rat) (p : Props Rat) (orig cur : DMP Rat) :
    applyBias exp g Facts.biasConcealment (.flat p) orig cur =
      (do let r ← conceal choquetEpsOf orig cur p (g (p.seed "newCriterionRandomSeed")) (g (p.seed "randomSeed"))
          pure (r.1, .conceal r.2)) := by
  unfold applyBias
  rw [if_neg (by decide), if_neg (by decide), if_neg (by decide), if_pos (by decide)]

theorem prog_anchGens (p : AnchProps Rat) (g : Int → Draws Rat) :
    ∃ rest, (anchGenSeeds p).map g = g (p.applier.params.seed "randomSeed" + Int.ofNat 0) :: rest := by
  unfold anchGenSeeds anchGenCount
  exact ⟨_, rfl⟩

end Rdm
