/-
  Arithmetic lemmas about the ELECTRE III model over `Rat` (helper lemmas for Props/C05, Props/C06):
  closed forms of the per-criterion concordance/discordance under the threshold guard, the folds of
  `calculateTotalC` / `calculateCredibility` as sums/products, ranges, monotonicity, weight scaling.
-/
import Rdm.Model.Electre
import Rdm.Spec.C05
import Rdm.Lemmas.NumRat
import Mathlib.Tactic.Linarith
import Mathlib.Tactic.Ring
import Mathlib.Tactic.FieldSimp
import Mathlib.Tactic.Positivity
import Mathlib.Algebra.Order.Field.Basic
namespace Rdm

/-- partial concordance as a function of the difference `g(b) − g(a)` (constant thresholds; 0 = absent) -/
def cOfDiff (q p d : Rat) : Rat :=
  if d ≤ q then 1 else if d ≤ p then 1 - (d - q) / (p - q) else 0

/-- partial discordance as a function of the difference -/
def dOfDiff (p v d : Rat) : Rat :=
  if v = 0 then 0 else if d ≤ p then 0 else if d ≤ v then (d - p) / (v - p) else 1

theorem cOfDiff_antitone (q p : Rat) (d d' : Rat) (h : d ≤ d') :
    cOfDiff q p d' ≤ cOfDiff q p d := by
  unfold cOfDiff
  split_ifs with h1 h2 h3 h4 h5 h6 <;> try linarith
  · have : 0 ≤ (d' - q) / (p - q) := div_nonneg (by linarith) (by linarith)
    linarith
  · have : (d - q) / (p - q) ≤ (d' - q) / (p - q) :=
      div_le_div_of_nonneg_right (by linarith) (by linarith)
    linarith
  · have : (d - q) / (p - q) ≤ 1 := by rw [div_le_one (by linarith)]; linarith
    linarith

theorem dOfDiff_monotone (p v : Rat) (d d' : Rat) (h : d ≤ d') :
    dOfDiff p v d ≤ dOfDiff p v d' := by
  unfold dOfDiff
  split_ifs with h0 h1 h2 h3 h4 h5 <;> try linarith
  · exact div_nonneg (by linarith) (by linarith)
  · exact div_le_div_of_nonneg_right (by linarith) (by linarith)
  · rw [div_le_one (by linarith)]; linarith

theorem cOfDiff_range (q p d : Rat) : 0 ≤ cOfDiff q p d ∧ cOfDiff q p d ≤ 1 := by
  unfold cOfDiff
  split_ifs with h1 h2
  · exact ⟨by linarith, le_refl _⟩
  · have h0 : 0 ≤ (d - q) / (p - q) := div_nonneg (by linarith) (by linarith)
    have h1' : (d - q) / (p - q) ≤ 1 := by rw [div_le_one (by linarith)]; linarith
    exact ⟨by linarith, by linarith⟩
  · exact ⟨le_refl _, by linarith⟩

theorem dOfDiff_range (p v d : Rat) : 0 ≤ dOfDiff p v d ∧ dOfDiff p v d ≤ 1 := by
  unfold dOfDiff
  split_ifs with h0 h1 h2
  · exact ⟨le_refl _, by linarith⟩
  · exact ⟨le_refl _, by linarith⟩
  · exact ⟨div_nonneg (by linarith) (by linarith), by rw [div_le_one (by linarith)]; linarith⟩
  · exact ⟨by linarith, le_refl _⟩

/-- the threshold guard of C05/C06 as a proposition -/
structure ConstThr (t : ECrit Rat) : Prop where
  qa : t.q.a = 0
  pa : t.p.a = 0
  va : t.v.a = 0
  q0 : 0 ≤ t.q.b
  qp : t.p.b ≠ 0 → t.q.b < t.p.b
  pv : t.v.b ≠ 0 → t.p.b ≠ 0 ∧ t.p.b < t.v.b

theorem evalConst (f : LinFun Rat) (h : f.a = 0) (x : Rat) :
    f.eval x = if f.b = 0 then (0, false) else (f.b, true) := by
  cases f with | mk a b =>
  simp only at h; subst h
  unfold LinFun.eval
  simp only [Num.zero_rat, Num.beq_rat]
  by_cases h : b = 0 <;> simp [h]

theorem calc_closed_form (c1 c2 mult : Rat) (t : ECrit Rat) (g : ConstThr t) :
    (calcElectreResult c1 c2 mult t).c = cOfDiff t.q.b t.p.b (c2 - c1) ∧
    (calcElectreResult c1 c2 mult t).d = dOfDiff t.p.b t.v.b (c2 - c1) := by
  have hq0 := g.q0
  have hqp := g.qp
  have hpv := g.pv
  unfold calcElectreResult cOfDiff dOfDiff
  simp only [evalConst _ g.qa, evalConst _ g.pa, evalConst _ g.va, Num.one_rat, Num.zero_rat]
  split_ifs <;> simp_all <;> (exfalso; linarith)

theorem crit_range (c1 c2 mult : Rat) (t : ECrit Rat) (g : ConstThr t) :
    0 ≤ (calcElectreResult c1 c2 mult t).c ∧ (calcElectreResult c1 c2 mult t).c ≤ 1 ∧
    0 ≤ (calcElectreResult c1 c2 mult t).d ∧ (calcElectreResult c1 c2 mult t).d ≤ 1 := by
  obtain ⟨e1, e2⟩ := calc_closed_form c1 c2 mult t g
  rw [e1, e2]
  exact ⟨(cOfDiff_range _ _ _).1, (cOfDiff_range _ _ _).2, (dOfDiff_range _ _ _).1, (dOfDiff_range _ _ _).2⟩

/-! folds of `calculateTotalC` as sums -/

theorem weightSum_fold (rs : List (ESingle Rat)) (a : Rat) :
    rs.foldl (fun acc r => acc + r.k) a = a + weightSum rs := by
  unfold weightSum
  induction rs generalizing a with
  | nil => simp
  | cons r rs ih =>
    simp only [List.foldl_cons, Num.zero_rat]
    rw [ih (a + r.k), ih (0 + r.k)]; ring

theorem weightedC_fold (rs : List (ESingle Rat)) (a : Rat) :
    rs.foldl (fun acc r => acc + r.k * r.res.c) a = a + weightedC rs := by
  unfold weightedC
  induction rs generalizing a with
  | nil => simp
  | cons r rs ih =>
    simp only [List.foldl_cons, Num.zero_rat]
    rw [ih (a + r.k * r.res.c), ih (0 + r.k * r.res.c)]; ring

theorem weightSum_cons (r : ESingle Rat) (rs : List (ESingle Rat)) :
    weightSum (r :: rs) = r.k + weightSum rs := by
  have := weightSum_fold rs (0 + r.k)
  simp only [weightSum, List.foldl_cons, Num.zero_rat] at *
  rw [this]; ring

theorem weightedC_cons (r : ESingle Rat) (rs : List (ESingle Rat)) :
    weightedC (r :: rs) = r.k * r.res.c + weightedC rs := by
  have := weightedC_fold rs (0 + r.k * r.res.c)
  simp only [weightedC, List.foldl_cons, Num.zero_rat] at *
  rw [this]; ring

theorem weightSum_nil : weightSum ([] : List (ESingle Rat)) = 0 := rfl
theorem weightedC_nil : weightedC ([] : List (ESingle Rat)) = 0 := rfl

theorem weightSum_nonneg (rs : List (ESingle Rat)) (hk : ∀ r ∈ rs, 0 < r.k) : 0 ≤ weightSum rs := by
  induction rs with
  | nil => simp [weightSum_nil]
  | cons r rs ih =>
    rw [weightSum_cons]
    have := hk r (by simp)
    have := ih (fun x hx => hk x (by simp [hx]))
    linarith

theorem weightSum_pos (rs : List (ESingle Rat)) (hne : rs ≠ []) (hk : ∀ r ∈ rs, 0 < r.k) : 0 < weightSum rs := by
  cases rs with
  | nil => exact absurd rfl hne
  | cons r rs =>
    rw [weightSum_cons]
    have := hk r (by simp)
    have := weightSum_nonneg rs (fun x hx => hk x (by simp [hx]))
    linarith

theorem weightedC_bounds (rs : List (ESingle Rat)) (hk : ∀ r ∈ rs, 0 < r.k)
    (hc : ∀ r ∈ rs, 0 ≤ r.res.c ∧ r.res.c ≤ 1) : 0 ≤ weightedC rs ∧ weightedC rs ≤ weightSum rs := by
  induction rs with
  | nil => simp [weightSum_nil, weightedC_nil]
  | cons r rs ih =>
    rw [weightSum_cons, weightedC_cons]
    have hk0 := hk r (by simp)
    have ⟨c0, c1⟩ := hc r (by simp)
    have ⟨i0, i1⟩ := ih (fun x hx => hk x (by simp [hx])) (fun x hx => hc x (by simp [hx]))
    have : 0 ≤ r.k * r.res.c := mul_nonneg hk0.le c0
    have : r.k * r.res.c ≤ r.k := by nlinarith
    constructor <;> linarith

theorem totalC_range (rs : List (ESingle Rat)) (hne : rs ≠ []) (hk : ∀ r ∈ rs, 0 < r.k)
    (hc : ∀ r ∈ rs, 0 ≤ r.res.c ∧ r.res.c ≤ 1) :
    0 ≤ calculateTotalC rs ∧ calculateTotalC rs ≤ 1 := by
  unfold calculateTotalC
  have hp := weightSum_pos rs hne hk
  have ⟨h0, h1⟩ := weightedC_bounds rs hk hc
  exact ⟨div_nonneg h0 hp.le, by rw [div_le_one hp]; exact h1⟩

theorem credibility_fold_range (C : Rat) (hC1 : C ≤ 1) (rs : List (ESingle Rat))
    (hd : ∀ r ∈ rs, 0 ≤ r.res.d ∧ r.res.d ≤ 1) (cred : Rat) (h0 : 0 ≤ cred) (h1 : cred ≤ C) :
    0 ≤ rs.foldl (fun cred r => if C < r.res.d then cred * ((Num.one - r.res.d) / (Num.one - C)) else cred) cred ∧
    rs.foldl (fun cred r => if C < r.res.d then cred * ((Num.one - r.res.d) / (Num.one - C)) else cred) cred ≤ C := by
  induction rs generalizing cred with
  | nil => exact ⟨h0, h1⟩
  | cons r rs ih =>
    simp only [List.foldl_cons]
    have ⟨d0, d1⟩ := hd r (by simp)
    apply ih (fun x hx => hd x (by simp [hx]))
    · split_ifs with h
      · simp only [Num.one_rat]
        exact mul_nonneg h0 (div_nonneg (by linarith) (by linarith))
      · exact h0
    · split_ifs with h
      · simp only [Num.one_rat]
        have hf : (1 - r.res.d) / (1 - C) ≤ 1 := by rw [div_le_one (by linarith)]; linarith
        have hf0 : 0 ≤ (1 - r.res.d) / (1 - C) := div_nonneg (by linarith) (by linarith)
        nlinarith
      · exact h1

theorem credibility_range (C : Rat) (hC0 : 0 ≤ C) (hC1 : C ≤ 1) (rs : List (ESingle Rat))
    (hd : ∀ r ∈ rs, 0 ≤ r.res.d ∧ r.res.d ≤ 1) :
    0 ≤ calculateCredibility C rs ∧ calculateCredibility C rs ≤ C :=
  credibility_fold_range C hC1 rs hd C hC0 (le_refl C)

/-! monotonicity and scaling of the weighted concordance -/

theorem weighted_mono (rs rs' : List (ESingle Rat))
    (h : List.Forall₂ (fun r r' : ESingle Rat => r.k = r'.k ∧ r.res.c ≤ r'.res.c) rs rs')
    (hk : ∀ r ∈ rs, 0 < r.k) :
    weightSum rs = weightSum rs' ∧ weightedC rs ≤ weightedC rs' := by
  induction h with
  | nil => exact ⟨rfl, le_refl _⟩
  | @cons r r' l l' hab _ ih =>
    rw [weightSum_cons, weightSum_cons, weightedC_cons, weightedC_cons]
    have ⟨i1, i2⟩ := ih (fun x hx => hk x (by simp [hx]))
    have hk0 := hk r (by simp)
    have : r.k * r.res.c ≤ r'.k * r'.res.c := by
      rw [← hab.1]; exact mul_le_mul_of_nonneg_left hab.2 hk0.le
    exact ⟨by rw [i1, hab.1], by linarith⟩

theorem totalC_mono (rs rs' : List (ESingle Rat))
    (h : List.Forall₂ (fun r r' : ESingle Rat => r.k = r'.k ∧ r.res.c ≤ r'.res.c) rs rs')
    (hk : ∀ r ∈ rs, 0 < r.k) :
    calculateTotalC rs ≤ calculateTotalC rs' := by
  unfold calculateTotalC
  have ⟨h1, h2⟩ := weighted_mono rs rs' h hk
  rw [← h1]
  exact div_le_div_of_nonneg_right h2 (weightSum_nonneg rs hk)

/-- multiply every weight by `c` -/
def scaleRes (c : Rat) (r : ESingle Rat) : ESingle Rat := ⟨c * r.k, r.res⟩

theorem weightSum_scale (c : Rat) (rs : List (ESingle Rat)) :
    weightSum (rs.map (scaleRes c)) = c * weightSum rs := by
  induction rs with
  | nil => simp [weightSum_nil]
  | cons r rs ih => rw [List.map_cons, weightSum_cons, weightSum_cons, ih]; simp only [scaleRes]; ring

theorem weightedC_scale (c : Rat) (rs : List (ESingle Rat)) :
    weightedC (rs.map (scaleRes c)) = c * weightedC rs := by
  induction rs with
  | nil => simp [weightedC_nil]
  | cons r rs ih => rw [List.map_cons, weightedC_cons, weightedC_cons, ih]; simp only [scaleRes]; ring

theorem totalC_scale (c : Rat) (hc : c ≠ 0) (rs : List (ESingle Rat)) :
    calculateTotalC (rs.map (scaleRes c)) = calculateTotalC rs := by
  unfold calculateTotalC
  rw [weightSum_scale, weightedC_scale]
  exact mul_div_mul_left _ _ hc

theorem credibility_scale (c C : Rat) (rs : List (ESingle Rat)) :
    calculateCredibility C (rs.map (scaleRes c)) = calculateCredibility C rs := by
  unfold calculateCredibility
  rw [List.foldl_map]
  rfl

/-- one factor of `calculateCredibility` -/
def credStep (C : Rat) (cred : Rat) (r : ESingle Rat) : Rat :=
  if C < r.res.d then cred * ((Num.one - r.res.d) / (Num.one - C)) else cred

theorem calculateCredibility_eq (C : Rat) (rs : List (ESingle Rat)) :
    calculateCredibility C rs = rs.foldl (credStep C) C := rfl

theorem credStep_nonneg (C : Rat) (cred : Rat) (h0 : 0 ≤ cred) (r : ESingle Rat)
    (d1 : r.res.d ≤ 1) : 0 ≤ credStep C cred r := by
  unfold credStep
  split_ifs with h
  · simp only [Num.one_rat]
    exact mul_nonneg h0 (div_nonneg (by linarith) (by linarith))
  · exact h0

/-- monotonicity of one credibility factor: larger concordance, smaller discordance, larger running product -/
theorem credStep_mono (C C' : Rat) (hCC : C ≤ C') (hC1 : C' ≤ 1) (cred cred' : Rat) (h0 : 0 ≤ cred)
    (hcc : cred ≤ cred') (r r' : ESingle Rat) (hd : r'.res.d ≤ r.res.d) (d1 : r.res.d ≤ 1) :
    credStep C cred r ≤ credStep C' cred' r' := by
  unfold credStep
  simp only [Num.one_rat]
  have h0' : 0 ≤ cred' := le_trans h0 hcc
  split_ifs with h h'
  · -- both discounted
    have hden' : 0 < 1 - C' := by linarith
    have hden : 0 < 1 - C := by linarith
    have hf : (1 - r.res.d) / (1 - C) ≤ (1 - r'.res.d) / (1 - C') := by
      rw [div_le_div_iff₀ hden hden']
      nlinarith
    have hf0 : 0 ≤ (1 - r.res.d) / (1 - C) := div_nonneg (by linarith) hden.le
    calc cred * ((1 - r.res.d) / (1 - C)) ≤ cred' * ((1 - r.res.d) / (1 - C)) := mul_le_mul_of_nonneg_right hcc hf0
      _ ≤ cred' * ((1 - r'.res.d) / (1 - C')) := mul_le_mul_of_nonneg_left hf h0'
  · -- left discounted, right not
    have hden : 0 < 1 - C := by linarith
    have hf : (1 - r.res.d) / (1 - C) ≤ 1 := by rw [div_le_one hden]; linarith
    have hf0 : 0 ≤ (1 - r.res.d) / (1 - C) := div_nonneg (by linarith) hden.le
    nlinarith
  · -- right discounted, left not: impossible
    exfalso; linarith
  · exact hcc

/-- pointwise relation between two result lists over the same criteria: same weight, at least the
    concordance, at most the discordance -/
def BetterRes (r r' : ESingle Rat) : Prop := r.k = r'.k ∧ r.res.c ≤ r'.res.c ∧ r'.res.d ≤ r.res.d

theorem credibility_fold_mono (C C' : Rat) (hCC : C ≤ C') (hC1 : C' ≤ 1)
    (rs rs' : List (ESingle Rat)) (h : List.Forall₂ BetterRes rs rs')
    (hd : ∀ r ∈ rs, r.res.d ≤ 1) (hd' : ∀ r ∈ rs', 0 ≤ r.res.d)
    (cred cred' : Rat) (h0 : 0 ≤ cred) (hcc : cred ≤ cred') :
    rs.foldl (credStep C) cred ≤ rs'.foldl (credStep C') cred' := by
  induction h generalizing cred cred' with
  | nil => exact hcc
  | @cons r r' l l' hab _ ih =>
    simp only [List.foldl_cons]
    apply ih (fun x hx => hd x (by simp [hx])) (fun x hx => hd' x (by simp [hx]))
    · exact credStep_nonneg C cred h0 r (hd r (by simp))
    · exact credStep_mono C C' hCC hC1 cred cred' h0 hcc r r' hab.2.2 (hd r (by simp))

theorem calculateCredibility_mono (C C' : Rat) (hC0 : 0 ≤ C) (hCC : C ≤ C') (hC1 : C' ≤ 1)
    (rs rs' : List (ESingle Rat)) (h : List.Forall₂ BetterRes rs rs')
    (hd : ∀ r ∈ rs, r.res.d ≤ 1) (hd' : ∀ r ∈ rs', 0 ≤ r.res.d) :
    calculateCredibility C rs ≤ calculateCredibility C' rs' := by
  rw [calculateCredibility_eq, calculateCredibility_eq]
  exact credibility_fold_mono C C' hCC hC1 rs rs' h hd hd' C C' hC0 hCC

end Rdm
