/-
  Lemmas for the end-to-end model, part 10 (progress over whole sequences of omission / reversal / fatigue, every
  method, every ordering, through `Evaluate`):
    * the decidable readiness predicate of a state (`prog_ready`): what `Evaluate` of its method needs beyond
      coherence; `prog_evaluate_total`: ready coherent states are evaluated;
    * one step: total (`prog_step_total`) and invariant-preserving (exact values, sizes, readiness);
    * the loop of `processBiases`.
-/
import Rdm.Lemmas.DecideProgressOrder
import Rdm.Lemmas.DecideProgressRat
namespace Rdm
set_option linter.unusedSimpArgs false
set_option linter.unusedSectionVars false

/-! ### readiness of a state for `Evaluate` -/

/-- the draw policy of the majority heuristic is registered (empty = the first) -/
def prog_policyKnownB (dr : String) : Bool := dr == "" || registeredPolicies.any (·.name == dr)

/-- the current choice is usable: absent with at least one considered alternative, or a known id -/
def prog_curKnownB (cur : String) (nco : Nat) (ids : List String) : Bool :=
  if cur == "" then decide (0 < nco) else ids.contains cur

/-- what `Evaluate` needs beyond coherence, per method, as a decidable predicate of the parameters, the current
    criteria, the number of considered alternatives and the ids of the known alternatives:
    * weightedSum: the weights name current criteria only (`WeightedSum` reads the value of every weighted
      criterion: `CriterionValue` panics on a missing one);
    * owa, choquetIntegral: nothing here (they need exact values, `prog_needsExact`);
    * electreIII: thresholds of the current criteria in the C05 domain, distillation function accepted by
      `getDistillationFunc`, at least one considered alternative (`Max` of an empty matrix panics) and one
      criterion (`0/0` concordance);
    * majorityHeuristic: registered draw policy, usable current choice;
    * aspectEliminationHeuristic / satisfactionHeuristic: registered levels function with accepted parameters;
      satisfaction also a usable current choice. -/
def prog_methodReady (mp : MParams Rat) (crit : List (Crit Rat)) (nco : Nat) (ids : List String) : Bool :=
  match mp with
  | .ws wc => wc.all fun x => crit.any (·.id == x.crit.id)
  | .owa _ => true
  | .choquet _ _ => true
  | .electre ec dist => prog_electreInDomain crit ec && validDistillation dist && decide (0 < nco) && !crit.isEmpty
  | .majority _ cur _ _ dr => prog_policyKnownB dr && prog_curKnownB cur nco ids
  | .aspect fn lv _ _ _ => prog_levelsReady aspectSources fn lv
  | .satisf fn lv _ cur _ => prog_levelsReady satisfactionSources fn lv && prog_curKnownB cur nco ids

def prog_ready (d : DMP Rat) : Bool := prog_methodReady d.mp d.crit d.co.length (d.all.map (·.id))

theorem prog_policyKnown_of {dr : String} (h : prog_policyKnownB dr = true) : prog_policyKnown dr := by
  unfold prog_policyKnownB at h
  simp only [Bool.or_eq_true, beq_iff_eq, List.any_eq_true] at h
  rcases h with h | ⟨p, hp, e⟩
  · exact Or.inl h
  · exact Or.inr ⟨p, hp, e⟩

theorem prog_curKnown_of {d : DMP Rat} {cur : String} (h : prog_curKnownB cur d.co.length (d.all.map (·.id)) = true) :
    prog_curKnown d cur := by
  unfold prog_curKnownB at h
  by_cases hc : cur = ""
  · subst hc
    simp only [beq_self_eq_true, if_true, decide_eq_true_eq] at h
    exact Or.inl ⟨rfl, fun e => by rw [e] at h; simp at h⟩
  · have : (cur == "") = false := by simpa using hc
    simp only [this, Bool.false_eq_true, if_false, List.contains_eq_mem, decide_eq_true_eq] at h
    obtain ⟨a, ha, e⟩ := List.mem_map.mp h
    exact Or.inr ⟨hc, a, ha, e⟩

theorem prog_aspectSources_eq : aspectSources = [.coef .incMul, .coef .incAdd, .thresholds true] := by decide
theorem prog_satisfactionSources_eq : satisfactionSources = [.coef .decMul, .coef .decSub, .thresholds false] := by
  decide

theorem prog_findSource_name {sources : List LevelSource} {fn : String} {s : LevelSource}
    (h : findSource sources fn = .ok s) : s ∈ sources ∧ s.name = fn := by
  unfold findSource at h
  split at h
  · cases h
  · split at h
    · rename_i s' hf
      simp only [pure, Except.pure, Except.ok.injEq] at h
      subst h
      exact ⟨List.mem_of_find?_eq_some hf, by simpa using List.find?_some hf⟩
    · cases h

theorem prog_levelsReady_source {sources : List LevelSource} {fn : String} {lv : Levels Rat}
    (h : prog_levelsReady sources fn lv = true) : ∃ s, findSource sources fn = .ok s := by
  unfold prog_levelsReady at h
  cases hs : findSource sources fn with
  | error e => rw [hs] at h; cases h
  | ok s => exact ⟨s, rfl⟩

/-- a registered levels function is one the listener registry knows too (main.go registers the same names) -/
theorem prog_levelsReady_aspect_knows {fn : String} {lv : Levels Rat}
    (h : prog_levelsReady aspectSources fn lv = true) : aspectFns.contains fn = true := by
  obtain ⟨s, hs⟩ := prog_levelsReady_source h
  obtain ⟨hm, hn⟩ := prog_findSource_name hs
  rw [prog_aspectSources_eq] at hm
  simp only [List.mem_cons, List.not_mem_nil, or_false] at hm
  rcases hm with rfl | rfl | rfl <;> (rw [← hn]; decide)

theorem prog_levelsReady_satisf_knows {fn : String} {lv : Levels Rat}
    (h : prog_levelsReady satisfactionSources fn lv = true) : satisfFns.contains fn = true := by
  obtain ⟨s, hs⟩ := prog_levelsReady_source h
  obtain ⟨hm, hn⟩ := prog_findSource_name hs
  rw [prog_satisfactionSources_eq] at hm
  simp only [List.mem_cons, List.not_mem_nil, or_false] at hm
  rcases hm with rfl | rfl | rfl <;> (rw [← hn]; decide)

theorem prog_ready_knows {d : DMP Rat} (h : prog_ready d = true) : listenerKnowsLevels d.mp = true := by
  unfold prog_ready prog_methodReady at h
  unfold listenerKnowsLevels
  cases hmp : d.mp with
  | aspect fn lv seed w rnd => rw [hmp] at h; exact prog_levelsReady_aspect_knows h
  | satisf fn lv seed cur rnd =>
    rw [hmp] at h
    simp only [Bool.and_eq_true] at h
    exact prog_levelsReady_satisf_knows h.1
  | _ => rfl

/-- **every method evaluates a ready coherent state** (K1, bundled): exact values where the method needs them,
    `prog_ready`, an examination order that does not invent criteria, `2·|considered|` numbers in the method's
    stream (shuffle + random draw policy; only majority can need that many) -/
theorem prog_evaluate_total {o : List (WCrit Rat) → List (WCrit Rat)} {g : Int → Draws Rat} {d : DMP Rat}
    (hc : Coherent d) (he : prog_needsExact d.mp = true → ProgExact d) (hr : prog_ready d = true)
    (hord : ∀ l, ∀ x ∈ o l, x ∈ l) (hds : ∀ k, 2 * d.co.length ≤ (g k).length) :
    ∃ r, evaluateWith o g d = .ok r := by
  have hcov := hc.covers
  unfold prog_ready prog_methodReady at hr
  cases hmp : d.mp with
  | ws wc =>
    rw [hmp] at hr
    simp only [List.all_eq_true, List.any_eq_true, beq_iff_eq] at hr
    exact prog_evaluate_utility hc (by unfold prog_utilityReady; rw [hmp]; exact hr)
  | owa wc =>
    exact prog_evaluate_utility hc (by unfold prog_utilityReady; rw [hmp]; exact he (by rw [hmp]; rfl))
  | choquet w cs =>
    exact prog_evaluate_utility hc (by unfold prog_utilityReady; rw [hmp]; exact he (by rw [hmp]; rfl))
  | electre ec dist =>
    rw [hmp] at hr
    simp only [Bool.and_eq_true, decide_eq_true_eq, Bool.not_eq_true', List.isEmpty_eq_false_iff] at hr
    obtain ⟨⟨⟨hdom, hdist⟩, hco⟩, hne⟩ := hr
    exact prog_evaluate_electre hmp hc (fun e => by rw [e] at hco; simp at hco) hne hdom hdist
  | majority w cur seed rnd dr =>
    rw [hmp] at hr
    simp only [Bool.and_eq_true] at hr
    exact prog_evaluate_majority hmp hc (prog_policyKnown_of hr.1) (prog_curKnown_of hr.2) (hds seed)
  | aspect fn lv seed w rnd =>
    rw [hmp] at hr hcov
    simp only [Spec.C07.covers, Bool.and_eq_true, List.all_eq_true] at hcov
    obtain ⟨L, hL, _⟩ := prog_levelsOf_total (d := d) hc hr (by
      intro ts hts t ht c hcm
      rw [hts] at hcov
      have := hcov.2
      simp only [List.all_eq_true] at this
      exact this t ht c hcm)
    refine prog_evaluate_aspect hmp hc ⟨L, ?_⟩ hord (fun _ => by have := hds seed; omega)
    unfold aspectLevels; rw [hmp]; exact hL
  | satisf fn lv seed cur rnd =>
    rw [hmp] at hr hcov
    simp only [Bool.and_eq_true] at hr
    simp only [Spec.C07.covers] at hcov
    obtain ⟨L, hL, hok⟩ := prog_levelsOf_total (d := d) hc hr.1 (by
      intro ts hts t ht c hcm
      rw [hts] at hcov
      simp only [List.all_eq_true] at hcov
      exact hcov t ht c hcm)
    refine prog_evaluate_satisf hmp hc ⟨L, ?_, hok⟩ (prog_curKnown_of hr.2) (fun _ => by have := hds seed; omega)
    unfold satisfactionLevels; rw [hmp]; exact hL

/-! ### one step of omission / reversal / fatigue -/

/-- the method cannot be evaluated without a criterion (electreIII: `0/0`) -/
def prog_needsCriterion : MParams Rat → Bool
  | .electre _ _ => true
  | _ => false

/-- an entry that cannot fail on a coherent state with at most `N` criteria, whatever the method:
    fatigue with a registered function and a non-zero bounding scale; reversal / omission with a valid split
    condition whose pivot stays inside `[0, n]` for every `n ≤ N` and any of the five registered orderings;
    with `keepOne` an omission must also leave a criterion (`pivot n < n`). -/
def ProgEntry (keepOne : Bool) (N : Nat) (b : Chosen Rat (BProps Rat)) : Prop :=
  (b.name = Facts.biasFatigue ∧ ∃ fn bd s, b.props = .fatigue fn bd s ∧ (∀ n, fn ≠ .unknown n) ∧
      (bd.scaling == Num.zero) = false) ∨
  (b.name = Facts.biasReversal ∧ ∃ c o s, b.props = .split c o s ∧ c.validate = .ok () ∧ prog_knownOrdering o ∧
      ∀ n ≤ N, 0 ≤ c.pivot n ∧ c.pivot n ≤ n) ∨
  (b.name = Facts.biasOmission ∧ ∃ c o s, b.props = .split c o s ∧ c.validate = .ok () ∧ prog_knownOrdering o ∧
      (∀ n ≤ N, 0 ≤ c.pivot n ∧ c.pivot n ≤ n) ∧ (keepOne = true → ∀ n, 0 < n → n ≤ N → c.pivot n < n))

theorem ProgEntry.weaken {k : Bool} {N : Nat} {b : Chosen Rat (BProps Rat)} (h : ProgEntry k N b) :
    ProgEntry false N b := by
  rcases h with h | h | ⟨hn, c, o, s, h1, h2, h3, h4, _⟩
  · exact Or.inl h
  · exact Or.inr (Or.inl h)
  · exact Or.inr (Or.inr ⟨hn, c, o, s, h1, h2, h3, h4, fun h => by cases h⟩)

theorem ProgEntry.name {k : Bool} {N : Nat} {b : Chosen Rat (BProps Rat)} (h : ProgEntry k N b) :
    b.name = Facts.biasOmission ∨ b.name = Facts.biasReversal ∨ b.name = Facts.biasFatigue := by
  rcases h with ⟨h, _⟩ | ⟨h, _⟩ | ⟨h, _⟩
  · exact Or.inr (Or.inr h)
  · exact Or.inr (Or.inl h)
  · exact Or.inl h

/-- the part of the loop invariant the biases themselves need -/
structure ProgBase (N nco nnc : Nat) (d : DMP Rat) : Prop where
  coh : Coherent d
  exact : prog_needsExact d.mp = true → ProgExact d
  knows : listenerKnowsLevels d.mp = true
  ncrit : d.crit.length ≤ N
  nco : d.co.length = nco
  nnc : d.nc.length = nnc

theorem prog_step_total {exp : Rat → Rat} {g : Int → Draws Rat} {N nco nnc : Nat} {b : Chosen Rat (BProps Rat)}
    {orig cur : DMP Rat} (hb : ProgEntry false N b) (hinv : ProgBase N nco nnc cur)
    (hu : ∀ k, ∀ u ∈ g k, 0 ≤ u ∧ u ≤ 1)
    (hg : ∀ k, (nco + nnc) * N ≤ (g k).length ∧ N ≤ (g k).length) :
    ∃ res rep, applyBias exp g b.name b.props orig cur = .ok (res, rep) := by
  have hc := hinv.coh
  rcases hb with ⟨hname, fn, bd, s, hp, hfn, hbd⟩ | ⟨hname, c, o, s, hp, hv, ho, hpiv⟩ |
    ⟨hname, c, o, s, hp, hv, ho, hpiv, _⟩
  · rw [hname, hp, decideApplyBias_fatigue_eq]
    obtain ⟨res, rep, h⟩ := decideFatigue_total (exp := exp) (d := g s) hc hfn hbd (by
      rw [hinv.nco, hinv.nnc]
      exact Nat.le_trans (Nat.mul_le_mul_left _ hinv.ncrit) (hg s).1)
    exact ⟨res, .fatigue rep, by rw [h]; rfl⟩
  · obtain ⟨ordered, hord⟩ := prog_orderCriteria_total (eps := (choquetEpsOf : Rat)) (o := o) (d := cur)
      (dr := g s) hc hinv.exact ho (Nat.le_trans hinv.ncrit (hg s).2) (hu s)
    have hperm := BiasA.orderCriteria_perm hord
    have hlen : ordered.length = cur.crit.length := hperm.length_eq
    obtain ⟨h0, h1⟩ := hpiv ordered.length (by have := hinv.ncrit; omega)
    obtain ⟨l, r, hs⟩ := decideSplit_total (c := c) (l := ordered) h0 h1
    obtain ⟨_, _, hl, _⟩ := BiasA.split_ok hs
    have hsubl : ∀ x ∈ l, x ∈ cur.crit := fun x hx => hperm.mem_iff.mp (by rw [hl] at hx; exact List.mem_of_mem_take hx)
    rw [hname, hp, decideApplyBias_reversal_eq]
    obtain ⟨res, rep, hres⟩ := decideReverseSelected_total hc hsubl
    refine ⟨res, .reversal rep, ?_⟩
    unfold reversalApply
    rw [hv, hord]
    simp only [bind, Except.bind, hs, hres, pure, Except.pure]
  · obtain ⟨ordered, hord⟩ := prog_orderCriteria_total (eps := (choquetEpsOf : Rat)) (o := o) (d := cur)
      (dr := g s) hc hinv.exact ho (Nat.le_trans hinv.ncrit (hg s).2) (hu s)
    have hperm := BiasA.orderCriteria_perm hord
    have hlen : ordered.length = cur.crit.length := hperm.length_eq
    obtain ⟨h0, h1⟩ := hpiv ordered.length (by have := hinv.ncrit; omega)
    obtain ⟨l, r, hs⟩ := decideSplit_total (c := c) (l := ordered) h0 h1
    obtain ⟨_, _, _, hrr⟩ := BiasA.split_ok hs
    have hsubr : ∀ x ∈ r, x ∈ cur.crit := fun x hx => hperm.mem_iff.mp (by rw [hrr] at hx; exact List.mem_of_mem_drop hx)
    have hrn : (r.map (·.id)).Nodup := by
      have hon : (ordered.map (·.id)).Nodup := (hperm.map _).nodup_iff.mpr hc.nodup
      rw [hrr]
      exact ((List.drop_sublist _ _).map _).nodup hon
    rw [hname, hp, decideApplyBias_omission_eq]
    obtain ⟨res, hres⟩ := prog_omit_total (c := c) hc hinv.knows hs hrn hsubr
    refine ⟨res, .omission l, ?_⟩
    unfold omissionApply
    rw [hv, hord]
    simp only [bind, Except.bind, hres, pure, Except.pure]

/-- a successful step of one of the three biases: method and levels function kept, no criterion gained,
    alternatives and split kept -/
theorem prog_step_sizes {exp : Rat → Rat} {g : Int → Draws Rat} {name : String} {p : BProps Rat}
    {orig cur res : DMP Rat} {rep : Report Rat}
    (hn : name = Facts.biasOmission ∨ name = Facts.biasReversal ∨ name = Facts.biasFatigue)
    (h : applyBias exp g name p orig cur = .ok (res, rep)) :
    res.mp.kind = cur.mp.kind ∧ res.crit.length ≤ cur.crit.length ∧
      res.co.map (·.id) = cur.co.map (·.id) ∧ res.nc.map (·.id) = cur.nc.map (·.id) := by
  obtain ⟨e1, e2⟩ := decideApplyBias_ids h
  have hperm := decideApplyBias_crit h
  refine ⟨?_, ?_, e1, e2⟩
  · cases decideApplyBias_inv h with
    | omission hb' =>
      obtain ⟨_, ordered, _, hc⟩ := BiasA.omissionApply_ok hb'
      obtain ⟨_, hmp, _, _⟩ := BiasA.omitCriteria_ok hc
      exact decideOnRemoved_kind hmp
    | reversal hb' =>
      obtain ⟨_, _, _, _, _, _, hr⟩ := BiasA.reversalApply_ok hb'
      obtain ⟨_, _, _, _, _, _, _, hmp, _⟩ := BiasA.reverseSelected_ok hr
      rw [hmp]
    | fatigue hb' =>
      unfold fatigueApply at hb'
      obtain ⟨f, _, hb'⟩ := bind_eq_ok.mp hb'
      obtain ⟨_, _, hmp, _⟩ := BiasA.fatigueBlur_ok hb'
      rw [hmp]
    | conceal hb' => rcases hn with hn | hn | hn <;> exact absurd hn (by decide)
    | mixing hb' => rcases hn with hn | hn | hn <;> exact absurd hn (by decide)
    | anchoring hb' => rcases hn with hn | hn | hn <;> exact absurd hn (by decide)
  · have hadd : rep.addedIds = [] := by
      cases decideApplyBias_inv h with
      | omission _ => rfl
      | reversal _ => rfl
      | fatigue _ => rfl
      | conceal hb' => rcases hn with hn | hn | hn <;> exact absurd hn (by decide)
      | mixing hb' => rcases hn with hn | hn | hn <;> exact absurd hn (by decide)
      | anchoring hb' => rcases hn with hn | hn | hn <;> exact absurd hn (by decide)
    rw [hadd, List.append_nil] at hperm
    have := hperm.length_eq
    simp only [List.length_append, List.length_map] at this
    omega

/-- exact values are kept (omission and fatigue even establish them: they rebuild the value maps) -/
theorem prog_step_exact {exp : Rat → Rat} {g : Int → Draws Rat} {name : String} {p : BProps Rat}
    {orig cur res : DMP Rat} {rep : Report Rat}
    (hn : name = Facts.biasOmission ∨ name = Facts.biasReversal ∨ name = Facts.biasFatigue)
    (h : applyBias exp g name p orig cur = .ok (res, rep)) (hres : Coherent res)
    (he : ProgExact cur) : ProgExact res := by
  have key : ∀ a : Alt Rat, a.vals.keys = res.crit.map (·.id) →
      a.vals.keys.Nodup ∧ ∀ k ∈ a.vals.keys, ∃ c ∈ res.crit, c.id = k := by
    intro a hk
    rw [hk]
    refine ⟨hres.nodup, ?_⟩
    intro k hkm
    obtain ⟨c, hcm, e⟩ := List.mem_map.mp hkm
    exact ⟨c, hcm, e⟩
  cases decideApplyBias_inv h with
  | omission hb =>
    obtain ⟨_, ordered, ho, hcc⟩ := BiasA.omissionApply_ok hb
    obtain ⟨hs, hmp, hco, hnc⟩ := BiasA.omitCriteria_ok hcc
    have hkeys : ∀ a ∈ res.co ++ res.nc, a.vals.keys = res.crit.map (·.id) := by
      intro a ha
      have hr : ∀ {l r : List (Alt Rat)}, List.Forall₂ (BiasA.RestrictedTo res.crit) l r → a ∈ r →
          a.vals.keys = res.crit.map (·.id) := by
        intro l r hf har
        obtain ⟨a0, _, hr⟩ := BiasA.forall₂_mem_right hf a har
        exact hr.2.1
      rcases List.mem_append.mp ha with ha | ha
      · exact hr (BiasA.preserveCriteria_ok hco) ha
      · exact hr (BiasA.preserveCriteria_ok hnc) ha
    exact ⟨fun a ha => (key a (hkeys a ha)).1, fun a ha => (key a (hkeys a ha)).2⟩
  | reversal hb =>
    obtain ⟨_, _, sel, _, _, _, hr⟩ := BiasA.reversalApply_ok hb
    obtain ⟨toRev, resl, _, hm, hnc, hco, hcr, hmp, _⟩ := BiasA.reverseSelected_ok hr
    have hnew : ∀ b ∈ resl.map (·.1), ∃ a0 ∈ cur.co ++ cur.nc, b.vals.keys = a0.vals.keys := by
      intro b hb
      obtain ⟨r, hr, rfl⟩ := List.mem_map.mp hb
      obtain ⟨a0, ha0, e⟩ := mapM_ok_mem hm r hr
      exact ⟨a0, by simpa [DMP.all] using ha0, decideReverseAlt_keys e⟩
    have hupd : ∀ {old r : List (Alt Rat)} {a : Alt Rat}, updateAlts old (resl.map (·.1)) = .ok r → a ∈ r →
        a ∈ resl.map (·.1) := by
      intro old r a hu har
      obtain ⟨a0, _, hb⟩ := BiasA.forall₂_mem_right (BiasA.updateAlts_ok hu) a har
      exact hb.1
    have hall : ∀ a ∈ res.co ++ res.nc, ∃ a0 ∈ cur.co ++ cur.nc, a.vals.keys = a0.vals.keys := by
      intro a ha
      rcases List.mem_append.mp ha with ha | ha
      · exact hnew a (hupd hco ha)
      · exact hnew a (hupd hnc ha)
    refine ⟨?_, ?_⟩
    · intro a ha
      obtain ⟨a0, ha0, e⟩ := hall a ha
      rw [e]; exact he.keysNodup a0 ha0
    · intro a ha k hk
      obtain ⟨a0, ha0, e⟩ := hall a ha
      rw [e] at hk
      rw [hcr]
      exact he.declared a0 ha0 k hk
  | fatigue hb =>
    unfold fatigueApply at hb
    obtain ⟨f, _, hb⟩ := bind_eq_ok.mp hb
    obtain ⟨_, hcr, hmp, _, _, _, cr, hcrr, hco, hnc⟩ := BiasA.fatigueBlur_ok hb
    have hkeys : ∀ a ∈ res.co ++ res.nc, a.vals.keys = res.crit.map (·.id) := by
      intro a ha
      have hk : ∀ {l r : List (Alt Rat)} {bd : Bounding Rat} {d : Draws Rat},
          List.Forall₂ (BiasA.BlurredAlt f bd cr d d) l r → a ∈ r → a.vals.keys = res.crit.map (·.id) := by
        intro l r bd d hf har
        obtain ⟨a0, _, hb⟩ := BiasA.forall₂_mem_right hf a har
        have : a.vals.map (·.1) = cr.map (·.1.id) :=
          BiasA.forall₂_map_map (R := BiasA.BlurredEntry f bd a0 d d) (g := fun kv : String × Rat => kv.1)
            (k := fun x : Crit Rat × (Rat × Rat) => x.1.id) (fun x y hxy => hxy.1) hb.2
        rw [hcr, ← (BiasA.criteriaRanges_ok hcrr).1, List.map_map]
        exact this
      rcases List.mem_append.mp ha with ha | ha
      · exact hk hco ha
      · exact hk hnc ha
    exact ⟨fun a ha => (key a (hkeys a ha)).1, fun a ha => (key a (hkeys a ha)).2⟩
  | conceal hb' => rcases hn with hn | hn | hn <;> exact absurd hn (by decide)
  | mixing hb' => rcases hn with hn | hn | hn <;> exact absurd hn (by decide)
  | anchoring hb' => rcases hn with hn | hn | hn <;> exact absurd hn (by decide)

theorem prog_kind_needsExact {mp mp' : MParams Rat} (h : mp'.kind = mp.kind) :
    prog_needsExact mp' = prog_needsExact mp ∧ prog_needsCriterion mp' = prog_needsCriterion mp := by
  cases mp <;> cases mp' <;> simp [MParams.kind] at h <;> simp [prog_needsExact, prog_needsCriterion]

theorem prog_step_base {exp : Rat → Rat} {g : Int → Draws Rat} {N nco nnc : Nat} {name : String} {p : BProps Rat}
    {orig cur res : DMP Rat} {rep : Report Rat}
    (hn : name = Facts.biasOmission ∨ name = Facts.biasReversal ∨ name = Facts.biasFatigue)
    (h : applyBias exp g name p orig cur = .ok (res, rep)) (hinv : ProgBase N nco nnc cur) :
    ProgBase N nco nnc res := by
  obtain ⟨hkind, hcl, e1, e2⟩ := prog_step_sizes hn h
  obtain ⟨_, k2, _⟩ := decideKind_ranks hkind
  have hres : Coherent res := decideApplyBias_coherent h hinv.coh (by
    rcases hn with hn | hn | hn
    · exact Or.inl hn
    · exact Or.inr (Or.inl hn)
    · exact Or.inr (Or.inr (Or.inl hn)))
  refine ⟨hres, ?_, by rw [k2]; exact hinv.knows, Nat.le_trans hcl hinv.ncrit, ?_, ?_⟩
  · intro hne
    rw [(prog_kind_needsExact hkind).1] at hne
    exact prog_step_exact hn h hres (hinv.exact hne)
  · rw [← hinv.nco]; simpa using congrArg List.length e1
  · rw [← hinv.nnc]; simpa using congrArg List.length e2

/-! ### readiness is kept -/

theorem prog_levelsOnRemoved_ready {sources : List LevelSource} {fn : String} {lv lv' : Levels Rat}
    {left : List (Crit Rat)} (h : levelsOnRemoved lv left = .ok lv') :
    prog_levelsReady sources fn lv' = prog_levelsReady sources fn lv := by
  unfold levelsOnRemoved at h
  cases lv with
  | coef c mx mn =>
    simp only [pure, Except.pure, Except.ok.injEq] at h
    subst h; rfl
  | thresholds ts =>
    obtain ⟨ts', _, h⟩ := bind_eq_ok.mp h
    simp only [pure, Except.pure, Except.ok.injEq] at h
    subst h
    unfold prog_levelsReady
    cases findSource sources fn with
    | error e => rfl
    | ok s => cases s <;> rfl

theorem prog_onRemoved_ready {mp mp' : MParams Rat} {crit left : List (Crit Rat)} {nco : Nat} {ids : List String}
    (h : onRemoved mp left = .ok mp') (hsub : ∀ c ∈ left, c ∈ crit)
    (hne : prog_needsCriterion mp = true → left ≠ []) (hr : prog_methodReady mp crit nco ids = true) :
    prog_methodReady mp' left nco ids = true := by
  cases mp with
  | ws wc =>
    simp only [onRemoved] at h
    obtain ⟨wc', hm, h⟩ := bind_eq_ok.mp h
    simp only [pure, Except.pure, Except.ok.injEq] at h; subst h
    simp only [prog_methodReady, List.all_eq_true, List.any_eq_true]
    intro x hx
    obtain ⟨c, hc, e⟩ := mapM_ok_mem hm x hx
    have := (decideFindWCrit_id e).2
    exact ⟨c, hc, by rw [beq_iff_eq] at this ⊢; exact this.symm⟩
  | owa wc =>
    simp only [onRemoved] at h
    obtain ⟨wc', hm, h⟩ := bind_eq_ok.mp h
    simp only [pure, Except.pure, Except.ok.injEq] at h; subst h
    rfl
  | choquet w cs =>
    simp only [onRemoved] at h
    obtain ⟨fw, hm, h⟩ := bind_eq_ok.mp h
    simp only [pure, Except.pure, Except.ok.injEq] at h; subst h
    rfl
  | electre ec dist =>
    simp only [onRemoved] at h
    obtain ⟨r, hm, h⟩ := bind_eq_ok.mp h
    simp only [pure, Except.pure, Except.ok.injEq] at h; subst h
    simp only [prog_methodReady, Bool.and_eq_true, decide_eq_true_eq, Bool.not_eq_true',
      List.isEmpty_eq_false_iff] at hr ⊢
    obtain ⟨⟨⟨hdom, hdist⟩, hco⟩, _⟩ := hr
    refine ⟨⟨⟨?_, hdist⟩, hco⟩, hne rfl⟩
    unfold prog_electreInDomain at hdom ⊢
    rw [List.all_eq_true] at hdom ⊢
    intro c hc
    cases hg : KMap.get? r c.id with
    | none => rfl
    | some t =>
      obtain ⟨c', hc', e⟩ := mapM_ok_mem hm (c.id, t) (KMap.get?_mem hg)
      split at e
      · rename_i t' ht'
        simp only [pure, Except.pure, Except.ok.injEq, Prod.mk.injEq] at e
        obtain ⟨e1, rfl⟩ := e
        have := hdom c' (hsub c' hc')
        rw [ht'] at this
        exact this
      · simp [throw, throwThe, MonadExceptOf.throw] at e
  | majority w cur seed rnd dr =>
    simp only [onRemoved] at h
    obtain ⟨w', hm, h⟩ := bind_eq_ok.mp h
    simp only [pure, Except.pure, Except.ok.injEq] at h; subst h
    exact hr
  | aspect fn lv seed w rnd =>
    simp only [onRemoved] at h
    split at h
    · simp [throw, throwThe, MonadExceptOf.throw, bind, Except.bind] at h
    · obtain ⟨lv', hlv, h⟩ := bind_eq_ok.mp h
      obtain ⟨w', hw, h⟩ := bind_eq_ok.mp h
      simp only [pure, Except.pure, Except.ok.injEq] at h; subst h
      simp only [prog_methodReady] at hr ⊢
      rw [prog_levelsOnRemoved_ready hlv]; exact hr
  | satisf fn lv seed cur rnd =>
    simp only [onRemoved] at h
    split at h
    · simp [throw, throwThe, MonadExceptOf.throw, bind, Except.bind] at h
    · obtain ⟨lv', hlv, h⟩ := bind_eq_ok.mp h
      simp only [pure, Except.pure, Except.ok.injEq] at h; subst h
      simp only [prog_methodReady] at hr ⊢
      rw [prog_levelsOnRemoved_ready hlv]; exact hr

theorem prog_ready_congr {d d' : DMP Rat} (hmp : d'.mp = d.mp) (hcr : d'.crit = d.crit)
    (e1 : d'.co.map (·.id) = d.co.map (·.id)) (e2 : d'.nc.map (·.id) = d.nc.map (·.id)) :
    prog_ready d' = prog_ready d := by
  unfold prog_ready DMP.all
  have hl : d'.co.length = d.co.length := by simpa using congrArg List.length e1
  rw [hmp, hcr, hl, List.map_append, List.map_append, e1, e2]

theorem prog_step_ready {exp : Rat → Rat} {g : Int → Draws Rat} {N : Nat} {b : Chosen Rat (BProps Rat)}
    {orig cur res : DMP Rat} {rep : Report Rat} (hb : ProgEntry (prog_needsCriterion cur.mp) N b)
    (h : applyBias exp g b.name b.props orig cur = .ok (res, rep)) (hN : cur.crit.length ≤ N)
    (hr : prog_ready cur = true) : prog_ready res = true := by
  obtain ⟨bn, bprob, bprops⟩ := b
  unfold ProgEntry at hb
  dsimp only at hb h
  obtain ⟨e1, e2⟩ := decideApplyBias_ids h
  cases decideApplyBias_inv h with
  | reversal hb' =>
    obtain ⟨_, _, _, _, _, _, hrs⟩ := BiasA.reversalApply_ok hb'
    obtain ⟨_, _, _, _, _, _, hcr, hmp, _⟩ := BiasA.reverseSelected_ok hrs
    rw [prog_ready_congr hmp hcr e1 e2]; exact hr
  | fatigue hb' =>
    unfold fatigueApply at hb'
    obtain ⟨f, _, hb'⟩ := bind_eq_ok.mp hb'
    obtain ⟨_, hcr, hmp, _⟩ := BiasA.fatigueBlur_ok hb'
    rw [prog_ready_congr hmp hcr e1 e2]; exact hr
  | omission hb' =>
    rename_i c o s om
    obtain ⟨_, ordered, hord, hcc⟩ := BiasA.omissionApply_ok hb'
    obtain ⟨hs, hmp, _, _⟩ := BiasA.omitCriteria_ok hcc
    have hperm := BiasA.orderCriteria_perm hord
    obtain ⟨_, _, _, hrr⟩ := BiasA.split_ok hs
    have hsub : ∀ x ∈ res.crit, x ∈ cur.crit :=
      fun x hx => hperm.mem_iff.mp (by rw [hrr] at hx; exact List.mem_of_mem_drop hx)
    have hkeep : prog_needsCriterion cur.mp = true → res.crit ≠ [] := by
      intro hk
      rcases hb with ⟨hname, _⟩ | ⟨hname, _⟩ | ⟨_, c', o', s', hp, _, _, hpiv, hone⟩
      · exact absurd hname (by decide)
      · exact absurd hname (by decide)
      · cases hp
        have hne : cur.crit ≠ [] := by
          unfold prog_ready prog_methodReady at hr
          cases hmp' : cur.mp with
          | electre ec dist =>
            rw [hmp'] at hr
            simp only [Bool.and_eq_true, Bool.not_eq_true', List.isEmpty_eq_false_iff] at hr
            exact hr.2
          | _ => rw [hmp'] at hk; simp [prog_needsCriterion] at hk
        have hlen : ordered.length = cur.crit.length := hperm.length_eq
        have hpos : 0 < ordered.length := by rw [hlen]; exact List.length_pos_of_ne_nil hne
        have h0 := (hpiv ordered.length (by omega)).1
        have h1 := hone hk ordered.length hpos (by omega)
        rw [hrr]
        intro hnil
        have := congrArg List.length hnil
        simp only [List.length_drop, List.length_nil] at this
        omega
    unfold prog_ready at hr ⊢
    have hl : res.co.length = cur.co.length := by simpa using congrArg List.length e1
    have hids : res.all.map (·.id) = cur.all.map (·.id) := by
      unfold DMP.all; rw [List.map_append, List.map_append, e1, e2]
    rw [hl, hids]
    exact prog_onRemoved_ready hmp hsub hkeep hr
  | conceal hb' => rcases hb with ⟨hn, _⟩ | ⟨hn, _⟩ | ⟨hn, _⟩ <;> exact absurd hn (by decide)
  | mixing hb' => rcases hb with ⟨hn, _⟩ | ⟨hn, _⟩ | ⟨hn, _⟩ <;> exact absurd hn (by decide)
  | anchoring hb' => rcases hb with ⟨hn, _⟩ | ⟨hn, _⟩ | ⟨hn, _⟩ <;> exact absurd hn (by decide)

/-! ### whole sequences -/

/-- **progress over a sequence** of omission / reversal / fatigue entries, every method, every ordering.
    With `full` the readiness of the state for `Evaluate` is carried along (and an omission under electreIII
    must leave a criterion). -/
theorem prog_loop_total {exp : Rat → Rat} {g : Int → Draws Rat} {orig : DMP Rat} {N nco nnc : Nat} {full : Bool}
    (hu : ∀ k, ∀ u ∈ g k, 0 ≤ u ∧ u ≤ 1)
    (hg : ∀ k, (nco + nnc) * N ≤ (g k).length ∧ N ≤ (g k).length) :
    ∀ (chosen : List (Chosen Rat (BProps Rat))) (cur : DMP Rat) (d : Draws Rat),
      (∀ b ∈ chosen, ProgEntry (full && prog_needsCriterion cur.mp) N b) → ProgBase N nco nnc cur →
      (full = true → prog_ready cur = true) → chosen.length ≤ d.length →
      ∃ fin outs, processLoop (applyBias exp g) orig chosen cur d = .ok (fin, outs) ∧ ProgBase N nco nnc fin ∧
        (full = true → prog_ready fin = true) := by
  intro chosen
  induction chosen with
  | nil => intro cur d _ hb hr _; exact ⟨cur, [], rfl, hb, hr⟩
  | cons b rest ih =>
    intro cur d hall hbase hr hd
    obtain ⟨u, d', hud, hl⟩ := decideDraw_total (d := d) (by simp at hd; omega)
    have hrest : ∀ b' ∈ rest, ProgEntry (full && prog_needsCriterion cur.mp) N b' :=
      fun b' hb' => hall b' (List.mem_cons_of_mem _ hb')
    have hd' : rest.length ≤ d'.length := by simp at hd; omega
    unfold processLoop
    simp only [hud, bind, Except.bind]
    by_cases hfire : u < b.prob
    · simp only [hfire, if_true]
      have hb := hall b (by simp)
      obtain ⟨next, rep, hstep⟩ := prog_step_total (exp := exp) (g := g) (orig := orig) hb.weaken hbase hu hg
      have hbase' := prog_step_base hb.name hstep hbase
      obtain ⟨hkind, _⟩ := prog_step_sizes hb.name hstep
      have hnc := (prog_kind_needsExact hkind).2
      have hr' : full = true → prog_ready next = true := by
        intro hf
        subst hf
        simp only [Bool.true_and] at hb
        exact prog_step_ready hb hstep hbase.ncrit (hr rfl)
      obtain ⟨fin, outs, hloop, hfin⟩ := ih next d' (by rw [hnc]; exact hrest) hbase' hr' hd'
      exact ⟨fin, ⟨b.name, b.prob, some rep⟩ :: outs, by simp only [hstep, hloop, pure, Except.pure], hfin⟩
    · simp only [hfire, if_false]
      obtain ⟨fin, outs, hloop, hfin⟩ := ih cur d' hrest hbase hr hd'
      exact ⟨fin, ⟨b.name, b.prob, none⟩ :: outs, by simp only [hloop, pure, Except.pure], hfin⟩

/-- how many numbers of a stream the biases and the method can ask for on a state of this size: one per
    alternative and criterion (fatigue), one per criterion (random orderings), two per considered alternative
    (majority: shuffle + random draw policy) -/
def prog_demand {α : Type} (d : DMP α) : Nat :=
  max ((d.co.length + d.nc.length) * d.crit.length) (max d.crit.length (2 * d.co.length))

/-- the state an accepted request starts from satisfies the base invariant -/
theorem prog_prepare_base {req : Request Rat} {params : DMP Rat} {chosen : List (Chosen Rat (BProps Rat))}
    (hprep : prepare req = .ok (params, chosen)) (hcov : Spec.C07.covers params.crit params.mp = true)
    (hex : prog_needsExact params.mp = true → prog_exactValues params = true)
    (hk : listenerKnowsLevels params.mp = true) :
    ProgBase params.crit.length params.co.length params.nc.length params :=
  ⟨decidePrepare_coherent hprep hcov, fun h => (prog_exactValues_iff _).mp (hex h), hk, Nat.le_refl _, rfl, rfl⟩

/-- **K2 up to the end of `processBiases`**: all seven methods, all five orderings -/
theorem prog_pipeline_total {exp : Rat → Rat} {req : Request Rat} {g : Int → Draws Rat} {params : DMP Rat}
    {chosen : List (Chosen Rat (BProps Rat))} (hprep : prepare req = .ok (params, chosen))
    (hcov : Spec.C07.covers params.crit params.mp = true)
    (hex : prog_needsExact params.mp = true → prog_exactValues params = true)
    (hk : listenerKnowsLevels params.mp = true)
    (hall : ∀ b ∈ chosen, ProgEntry false params.crit.length b)
    (hu : ∀ k, ∀ u ∈ g k, 0 ≤ u ∧ u ≤ 1) (hd : chosen.length ≤ (g req.biasSeed).length)
    (hg : ∀ k, prog_demand params ≤ (g k).length) :
    ∃ fin outs, pipeline exp req g = .ok (fin, outs) ∧ Coherent fin := by
  obtain ⟨fin, outs, h, hb, _⟩ := prog_loop_total (exp := exp) (g := g) (orig := params) (full := false) hu
    (fun k => by have := hg k; unfold prog_demand at this; omega) chosen params (g req.biasSeed)
    (by simpa using hall) (prog_prepare_base hprep hcov hex hk) (fun h => by cases h) hd
  exact ⟨fin, outs, by unfold pipeline; rw [hprep]; exact h, hb.coh⟩

/-- **K2 through `Evaluate`**: all seven methods, all five orderings, the request is answered -/
theorem prog_decideWith_total {exp : Rat → Rat} {o : List (WCrit Rat) → List (WCrit Rat)} {req : Request Rat}
    {g : Int → Draws Rat} {params : DMP Rat} {chosen : List (Chosen Rat (BProps Rat))}
    (hprep : prepare req = .ok (params, chosen)) (hcov : Spec.C07.covers params.crit params.mp = true)
    (hex : prog_needsExact params.mp = true → prog_exactValues params = true)
    (hr : prog_ready params = true)
    (hall : ∀ b ∈ chosen, ProgEntry (prog_needsCriterion params.mp) params.crit.length b)
    (hord : ∀ l, ∀ x ∈ o l, x ∈ l)
    (hu : ∀ k, ∀ u ∈ g k, 0 ≤ u ∧ u ≤ 1) (hd : chosen.length ≤ (g req.biasSeed).length)
    (hg : ∀ k, prog_demand params ≤ (g k).length) :
    ∃ resp, decideWith exp o req g = .ok resp ∧ Coherent resp.final := by
  obtain ⟨fin, outs, h, hb, hrf⟩ := prog_loop_total (exp := exp) (g := g) (orig := params) (full := true) hu
    (fun k => by have := hg k; unfold prog_demand at this; omega) chosen params (g req.biasSeed)
    (by simpa using hall) (prog_prepare_base hprep hcov hex (prog_ready_knows hr)) (fun _ => hr) hd
  obtain ⟨r, hev⟩ := prog_evaluate_total (o := o) (g := g) hb.coh hb.exact (hrf rfl) hord (fun k => by
    have := hg k; unfold prog_demand at this; rw [hb.nco]; omega)
  refine ⟨⟨r, outs, fin⟩, ?_, hb.coh⟩
  have hp : pipeline exp req g = .ok (fin, outs) := by unfold pipeline; rw [hprep]; exact h
  unfold decideWith
  simp only [hp, hev, bind, Except.bind, pure, Except.pure]

end Rdm
