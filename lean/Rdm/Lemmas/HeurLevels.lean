/-
  Lemmas about the coefficient series of Model/Levels.lean over `Rat`: one-step behaviour of the four
  update rules, monotonicity, bounds, fuel sufficiency, closed forms, agreement with the recurrences
  as re-stated in Spec/C14.lean.
-/
import Rdm.Model.Levels
import Rdm.Spec.C14
import Rdm.Lemmas.NumRat
import Rdm.Lemmas.HeurList
import Mathlib.Tactic.Linarith
import Mathlib.Tactic.Ring
import Mathlib.Tactic.Positivity
import Mathlib.Tactic.FieldSimp
set_option linter.unusedSimpArgs false
namespace Rdm

/-! ### unfolding over `Rat` -/

theorem coefHasNext_rat (k : CoefKind) (mx mn cur : Rat) :
    coefHasNext k mx mn cur = if k.inc = true then decide (cur < mx) else decide (mn < cur) := rfl

theorem coefUpdate_incMul (c cur : Rat) :
    coefUpdate .incMul c cur = if (1 : Rat) < (1 + cur) * (1 + c) - 1 then 1 else (1 + cur) * (1 + c) - 1 := rfl
theorem coefUpdate_incAdd (c cur : Rat) :
    coefUpdate .incAdd c cur = if (1 : Rat) < cur + c then 1 else cur + c := rfl
theorem coefUpdate_decMul (c cur : Rat) : coefUpdate .decMul c cur = cur * c := rfl
theorem coefUpdate_decSub (c cur : Rat) :
    coefUpdate .decSub c cur = if cur - c < (0 : Rat) then 0 else cur - c := rfl

/-- the model's update rule is the documented recurrence of the spec -/
theorem coefUpdate_eq_spec (k : CoefKind) (c cur : Rat) : coefUpdate k c cur = Spec.C14.next k c cur := by
  cases k <;> rfl

theorem coefHasNext_eq_spec (k : CoefKind) (mx mn cur : Rat) :
    coefHasNext k mx mn cur = Spec.C14.continues k mx mn cur := by
  cases k <;> rfl

/-! ### one step -/

/-- increasing rules: from `0 ≤ r < 1` the next ratio is larger, at most 1, and at least `min (r+c) 1` -/
theorem coefUpdate_inc_step (k : CoefKind) (hk : k.inc = true) (c cur : Rat) (hc : 0 < c)
    (h0 : 0 ≤ cur) (h1 : cur < 1) :
    cur < coefUpdate k c cur ∧ coefUpdate k c cur ≤ 1 ∧
      (coefUpdate k c cur = 1 ∨ cur + c ≤ coefUpdate k c cur) := by
  cases k <;> simp [CoefKind.inc] at hk
  · rw [coefUpdate_incMul]
    have : (1 + cur) * (1 + c) - 1 = cur + c + cur * c := by ring
    have hcc : 0 ≤ cur * c := mul_nonneg h0 hc.le
    split <;> refine ⟨by linarith, by linarith, ?_⟩
    · left; rfl
    · right; linarith
  · rw [coefUpdate_incAdd]
    split <;> refine ⟨by linarith, by linarith, ?_⟩
    · left; rfl
    · right; linarith

/-- decreasing rules: from `r > 0` the next ratio is smaller and non-negative -/
theorem coefUpdate_dec_step (k : CoefKind) (hk : k.inc = false) (c cur : Rat) (hc : 0 < c) (hc1 : c < 1)
    (h0 : 0 < cur) :
    coefUpdate k c cur < cur ∧ 0 ≤ coefUpdate k c cur := by
  cases k <;> simp [CoefKind.inc] at hk
  · rw [coefUpdate_decMul]
    constructor
    · nlinarith
    · positivity
  · rw [coefUpdate_decSub]
    split <;> constructor <;> linarith

/-! ### the series -/

theorem coefSeries_zero (k : CoefKind) (c mx mn cur : Rat) :
    coefSeries k c mx mn 0 cur =
      if coefHasNext k mx mn cur then Except.error "levels-fuel-exhausted" else Except.ok [] := rfl

theorem coefSeries_succ (k : CoefKind) (c mx mn cur : Rat) (n : Nat) :
    coefSeries k c mx mn (n + 1) cur =
      if coefHasNext k mx mn cur then
        (coefSeries k c mx mn n (coefUpdate k c cur) >>= fun rest => Except.ok (cur :: rest))
      else Except.ok [] := rfl

/-- inversion: a successful run is empty (no next) or `cur ::` the run from the updated ratio -/
theorem coefSeries_ok_cases {k : CoefKind} {c mx mn cur : Rat} {n : Nat} {rs : List Rat}
    (h : coefSeries k c mx mn n cur = Except.ok rs) :
    (coefHasNext k mx mn cur = false ∧ rs = []) ∨
    (coefHasNext k mx mn cur = true ∧ ∃ m rest, n = m + 1 ∧ rs = cur :: rest ∧
      coefSeries k c mx mn m (coefUpdate k c cur) = Except.ok rest) := by
  cases n with
  | zero =>
    rw [coefSeries_zero] at h
    by_cases hn : coefHasNext k mx mn cur = true
    · simp [hn] at h
    · simp [hn] at h; left; exact ⟨by simpa using hn, h⟩
  | succ m =>
    rw [coefSeries_succ] at h
    by_cases hn : coefHasNext k mx mn cur = true
    · simp only [hn, if_true] at h
      obtain ⟨rest, h1, h2⟩ := R.bind_eq_ok h
      right; refine ⟨hn, m, rest, rfl, ?_, h1⟩
      simpa using h2.symm
    · simp [hn] at h; left; exact ⟨by simpa using hn, h⟩

theorem coefSeries_length_le {k : CoefKind} {c mx mn : Rat} :
    ∀ {n : Nat} {cur : Rat} {rs : List Rat}, coefSeries k c mx mn n cur = Except.ok rs → rs.length ≤ n := by
  intro n
  induction n with
  | zero =>
    intro cur rs h
    rcases coefSeries_ok_cases h with ⟨_, rfl⟩ | ⟨_, m, rest, hm, _, _⟩
    · simp
    · omega
  | succ n ih =>
    intro cur rs h
    rcases coefSeries_ok_cases h with ⟨_, rfl⟩ | ⟨_, m, rest, hm, rfl, h2⟩
    · simp
    · have : m = n := by omega
      subst this
      have := ih h2
      simp; omega

/-- increasing series: strictly increasing, every ratio in `[cur, mx)` -/
theorem coefSeries_inc_sorted {k : CoefKind} (hk : k.inc = true) {c mx mn : Rat} (hc : 0 < c) (hmx : mx ≤ 1) :
    ∀ {n : Nat} {cur : Rat} {rs : List Rat}, 0 ≤ cur → coefSeries k c mx mn n cur = Except.ok rs →
      rs.Pairwise (· < ·) ∧ ∀ x ∈ rs, cur ≤ x ∧ x < mx := by
  intro n
  induction n with
  | zero =>
    intro cur rs _ h
    rcases coefSeries_ok_cases h with ⟨_, rfl⟩ | ⟨_, m, rest, hm, _, _⟩
    · simp
    · omega
  | succ n ih =>
    intro cur rs h0 h
    rcases coefSeries_ok_cases h with ⟨_, rfl⟩ | ⟨hn, m, rest, hm, rfl, h2⟩
    · simp
    · have : m = n := by omega
      subst this
      rw [coefHasNext_rat] at hn
      simp [hk] at hn
      have hstep := coefUpdate_inc_step k hk c cur hc h0 (by linarith)
      obtain ⟨hp, hb⟩ := ih (by linarith) h2
      refine ⟨List.pairwise_cons.mpr ⟨fun x hx => ?_, hp⟩, fun x hx => ?_⟩
      · have := (hb x hx).1; linarith
      · rcases List.mem_cons.mp hx with rfl | hx
        · exact ⟨le_refl _, hn⟩
        · have := hb x hx; exact ⟨by linarith, this.2⟩

/-- decreasing series: strictly decreasing, every ratio in `(mn, cur]` -/
theorem coefSeries_dec_sorted {k : CoefKind} (hk : k.inc = false) {c mx mn : Rat} (hc : 0 < c) (hc1 : c < 1)
    (hmn : 0 < mn) :
    ∀ {n : Nat} {cur : Rat} {rs : List Rat}, coefSeries k c mx mn n cur = Except.ok rs →
      rs.Pairwise (· > ·) ∧ ∀ x ∈ rs, x ≤ cur ∧ mn < x := by
  intro n
  induction n with
  | zero =>
    intro cur rs h
    rcases coefSeries_ok_cases h with ⟨_, rfl⟩ | ⟨_, m, rest, hm, _, _⟩
    · simp
    · omega
  | succ n ih =>
    intro cur rs h
    rcases coefSeries_ok_cases h with ⟨_, rfl⟩ | ⟨hn, m, rest, hm, rfl, h2⟩
    · simp
    · have : m = n := by omega
      subst this
      rw [coefHasNext_rat] at hn
      simp [hk] at hn
      have hstep := coefUpdate_dec_step k hk c cur hc hc1 (by linarith)
      obtain ⟨hp, hb⟩ := ih h2
      refine ⟨List.pairwise_cons.mpr ⟨fun x hx => ?_, hp⟩, fun x hx => ?_⟩
      · have := (hb x hx).1; show x < cur; linarith
      · rcases List.mem_cons.mp hx with rfl | hx
        · exact ⟨le_refl _, hn⟩
        · have := hb x hx; exact ⟨by linarith, this.2⟩

/-! ### fuel -/

/-- increasing rules move by at least `c` per step: `n` steps suffice once `1 − cur ≤ n·c` -/
theorem coefSeries_inc_fuel {k : CoefKind} (hk : k.inc = true) {c mx mn : Rat} (hc : 0 < c) (hmx : mx ≤ 1) :
    ∀ (n : Nat) (cur : Rat), 0 ≤ cur → 1 - cur ≤ n * c → ∃ rs, coefSeries k c mx mn n cur = Except.ok rs := by
  intro n
  induction n with
  | zero =>
    intro cur _ h
    rw [coefSeries_zero, coefHasNext_rat]
    have : ¬ cur < mx := by simp at h; linarith
    simp [hk, this]
  | succ n ih =>
    intro cur h0 h
    rw [coefSeries_succ]
    by_cases hn : coefHasNext k mx mn cur = true
    · simp only [hn, if_true]
      rw [coefHasNext_rat] at hn
      simp [hk] at hn
      obtain ⟨hlt, hle, hor⟩ := coefUpdate_inc_step k hk c cur hc h0 (by linarith)
      have hfuel : 1 - coefUpdate k c cur ≤ n * c := by
        rcases hor with h1 | h1
        · rw [h1]; have : 0 ≤ (n : Rat) * c := by positivity
          linarith
        · push_cast at h; linarith
      obtain ⟨rest, hr⟩ := ih _ (by linarith) hfuel
      exact ⟨cur :: rest, by rw [hr]; rfl⟩
    · simp [hn]

/-- the subtractive rule moves by `c` per step (or hits 0): `n` steps suffice once `cur ≤ n·c` -/
theorem coefSeries_decSub_fuel {c mx mn : Rat} (hc : 0 < c) (hmn : 0 < mn) :
    ∀ (n : Nat) (cur : Rat), cur ≤ n * c → ∃ rs, coefSeries .decSub c mx mn n cur = Except.ok rs := by
  intro n
  induction n with
  | zero =>
    intro cur h
    rw [coefSeries_zero, coefHasNext_rat]
    have : ¬ mn < cur := by simp at h; linarith
    simp [CoefKind.inc, this]
  | succ n ih =>
    intro cur h
    rw [coefSeries_succ]
    by_cases hn : coefHasNext .decSub mx mn cur = true
    · simp only [hn, if_true]
      have hfuel : coefUpdate .decSub c cur ≤ n * c := by
        rw [coefUpdate_decSub]
        split
        · positivity
        · push_cast at h; linarith
      obtain ⟨rest, hr⟩ := ih _ hfuel
      exact ⟨cur :: rest, by rw [hr]; rfl⟩
    · simp [hn]

/-- the multiplied-decreasing rule: `n` steps suffice once `cur ≤ mn·(1 + n·(1−c))` (Bernoulli, stepwise) -/
theorem coefSeries_decMul_fuel {c mx mn : Rat} (hc : 0 < c) (hc1 : c < 1) (hmn : 0 < mn) :
    ∀ (n : Nat) (cur : Rat), 0 ≤ cur → cur ≤ mn * (1 + n * (1 - c)) →
      ∃ rs, coefSeries .decMul c mx mn n cur = Except.ok rs := by
  intro n
  induction n with
  | zero =>
    intro cur _ h
    rw [coefSeries_zero, coefHasNext_rat]
    have : ¬ mn < cur := by simp at h; linarith
    simp [CoefKind.inc, this]
  | succ n ih =>
    intro cur h0 h
    rw [coefSeries_succ]
    by_cases hn : coefHasNext .decMul mx mn cur = true
    · simp only [hn, if_true]
      have hfuel : coefUpdate .decMul c cur ≤ mn * (1 + n * (1 - c)) := by
        rw [coefUpdate_decMul]
        push_cast at h
        have hn0 : (0 : Rat) ≤ n := by positivity
        have h1 : cur * c ≤ mn * (1 + (n + 1) * (1 - c)) * c := mul_le_mul_of_nonneg_right h hc.le
        have h2 : mn * (1 + (n + 1) * (1 - c)) * c ≤ mn * (1 + n * (1 - c)) := by
          have : mn * (1 + n * (1 - c)) - mn * (1 + (n + 1) * (1 - c)) * c
              = mn * ((n + 1) * (1 - c) * (1 - c)) := by ring
          have hpos : 0 ≤ mn * ((n + 1) * (1 - c) * (1 - c)) := by
            have : 0 ≤ 1 - c := by linarith
            positivity
          linarith
        linarith
      obtain ⟨rest, hr⟩ := ih _ (by rw [coefUpdate_decMul]; positivity) hfuel
      exact ⟨cur :: rest, by rw [hr]; rfl⟩
    · simp [hn]

/-- `⌊x⌋.toNat + 2 > x` for positive `x` -/
theorem floor_toNat_add_two_gt (x : Rat) (hx : 0 ≤ x) : x < ((x.floor.toNat + 2 : Nat) : Rat) := by
  have h0 : 0 ≤ x.floor := Rat.le_floor_iff.mpr (by simpa using hx)
  have h1 := Rat.lt_floor_add_one x
  have h2 : ((x.floor.toNat : Nat) : Int) = x.floor := Int.toNat_of_nonneg h0
  have h3 : ((x.floor.toNat : Nat) : Rat) = (x.floor : Rat) := by
    rw [← Int.cast_natCast, h2]
  push_cast at h1 ⊢
  rw [h3]; linarith

/-- **fuel sufficiency**: under the validation guard `coefFuel` steps are enough for all four rules -/
theorem coefSeries_fuel_ok (k : CoefKind) (c mx mn : Rat) (hv : coefValid k c mx mn = true) :
    ∃ rs, coefSeries k c mx mn (coefFuel k c mx mn) (coefInitial k mx mn) = Except.ok rs := by
  unfold coefValid at hv
  simp only [Num.zero_rat, Num.one_rat] at hv
  have hc : 0 < c := by
    by_contra h; simp at h; simp [h] at hv
  have hc1 : c < 1 := by
    by_contra h; simp at h; simp [h] at hv
  have hcv : ¬ (c ≤ 0 ∨ 1 ≤ c) := by
    intro h; rcases h with h | h <;> linarith
  simp [hcv] at hv
  -- the generic bound: fuel · c > 1
  have hgen : (1 : Rat) ≤ (((1 / c : Rat).floor.toNat + 2 : Nat) : Rat) * c := by
    have h := floor_toNat_add_two_gt (1 / c) (by positivity)
    have := mul_lt_mul_of_pos_right h hc
    have e : 1 / c * c = 1 := by field_simp
    linarith
  cases k
  · -- incMul
    simp [CoefKind.inc] at hv
    obtain ⟨⟨hmn0, hmn1⟩, hmx0, hmx1⟩ := hv
    apply coefSeries_inc_fuel rfl hc hmx1
    · simpa [coefInitial, CoefKind.inc] using hmn0
    · simp only [coefFuel, coefInitial, CoefKind.inc, Num.one_rat, Num.floorInt_rat, if_true]
      linarith
  · -- incAdd
    simp [CoefKind.inc] at hv
    obtain ⟨⟨hmn0, hmn1⟩, hmx0, hmx1⟩ := hv
    apply coefSeries_inc_fuel rfl hc hmx1
    · simpa [coefInitial, CoefKind.inc] using hmn0
    · simp only [coefFuel, coefInitial, CoefKind.inc, Num.one_rat, Num.floorInt_rat, if_true]
      linarith
  · -- decMul
    simp [CoefKind.inc] at hv
    obtain ⟨⟨hmn0, hmn1⟩, hmx1, hmx0⟩ := hv
    apply coefSeries_decMul_fuel hc hc1 hmn0
    · simp [coefInitial, CoefKind.inc]; linarith
    · simp only [coefFuel, coefInitial, CoefKind.inc, Num.one_rat, Num.floorInt_rat]
      have hd : 0 < mn * (1 - c) := by
        have : 0 < 1 - c := by linarith
        positivity
      have h := floor_toNat_add_two_gt (mx / (mn * (1 - c))) (by positivity)
      have h2 := mul_lt_mul_of_pos_right h hd
      have e : mx / (mn * (1 - c)) * (mn * (1 - c)) = mx := div_mul_cancel₀ mx hd.ne'
      simp at h2 ⊢
      nlinarith
  · -- decSub
    simp [CoefKind.inc] at hv
    obtain ⟨⟨hmn0, hmn1⟩, hmx1, hmx0⟩ := hv
    apply coefSeries_decSub_fuel hc hmn0
    simp only [coefFuel, coefInitial, CoefKind.inc, Num.one_rat, Num.floorInt_rat]
    simp; simp at hgen; linarith

/-! ### agreement with the documented recurrences of the spec -/

theorem coefSeries_eq_ideal {k : CoefKind} {c mx mn : Rat} :
    ∀ {n : Nat} {cur : Rat} {rs : List Rat}, coefSeries k c mx mn n cur = Except.ok rs →
      ∀ m, rs.length < m → Spec.C14.ideal k c mx mn m cur = rs := by
  intro n
  induction n with
  | zero =>
    intro cur rs h m hm
    rcases coefSeries_ok_cases h with ⟨hn, rfl⟩ | ⟨_, m', rest, hm', _, _⟩
    · cases m with
      | zero => simp at hm
      | succ m => simp [Spec.C14.ideal, ← coefHasNext_eq_spec, hn]
    · omega
  | succ n ih =>
    intro cur rs h m hm
    rcases coefSeries_ok_cases h with ⟨hn, rfl⟩ | ⟨hn, m', rest, hm', rfl, h2⟩
    · cases m with
      | zero => simp at hm
      | succ m => simp [Spec.C14.ideal, ← coefHasNext_eq_spec, hn]
    · have : m' = n := by omega
      subst this
      cases m with
      | zero => simp at hm
      | succ m =>
        simp only [Spec.C14.ideal, ← coefHasNext_eq_spec, hn, if_true, ← coefUpdate_eq_spec]
        rw [ih h2 m (by simpa using hm)]

/-! ### closed forms -/

/-- the closed forms of the README; for the ratios actually handed out the clamps `min(·,1)` /
    `max(·,0)` are never active (a clamped ratio fails `HasNext`) -/
def closedForm (k : CoefKind) (c r0 : Rat) (i : Nat) : Rat :=
  match k with
  | .incMul => (1 + r0) * (1 + c) ^ i - 1
  | .incAdd => r0 + i * c
  | .decMul => r0 * c ^ i
  | .decSub => r0 - i * c

theorem closedForm_zero (k : CoefKind) (c r0 : Rat) : closedForm k c r0 0 = r0 := by
  cases k <;> simp [closedForm]

/-- an unclamped step shifts the closed form by one index -/
theorem closedForm_succ (k : CoefKind) (c cur : Rat) (i : Nat)
    (h : coefUpdate k c cur = match k with
      | .incMul => (1 + cur) * (1 + c) - 1
      | .incAdd => cur + c
      | .decMul => cur * c
      | .decSub => cur - c) :
    closedForm k c (coefUpdate k c cur) i = closedForm k c cur (i + 1) := by
  rw [h]
  cases k <;> simp only [closedForm] <;> push_cast <;> ring

theorem coefSeries_closed_form {k : CoefKind} {c mx mn : Rat} (hmx : k.inc = true → mx ≤ 1)
    (hmn : k.inc = false → 0 ≤ mn) :
    ∀ {n : Nat} {cur : Rat} {rs : List Rat}, coefSeries k c mx mn n cur = Except.ok rs →
      ∀ (i : Nat) (hi : i < rs.length), rs[i] = closedForm k c cur i := by
  intro n
  induction n with
  | zero =>
    intro cur rs h i hi
    rcases coefSeries_ok_cases h with ⟨_, rfl⟩ | ⟨_, m, rest, hm, _, _⟩
    · simp at hi
    · omega
  | succ n ih =>
    intro cur rs h i hi
    rcases coefSeries_ok_cases h with ⟨_, rfl⟩ | ⟨hn, m, rest, hm, rfl, h2⟩
    · simp at hi
    · have : m = n := by omega
      subst this
      cases i with
      | zero => simp [closedForm_zero]
      | succ i =>
        have hi' : i < rest.length := by simpa using hi
        simp only [List.getElem_cons_succ]
        rw [ih h2 i hi']
        apply closedForm_succ
        -- the updated ratio still passes `HasNext`, hence it was not clamped
        rcases coefSeries_ok_cases h2 with ⟨_, rfl⟩ | ⟨hn2, _⟩
        · simp at hi'
        · rw [coefHasNext_rat] at hn2
          cases k
          · have := hmx rfl
            simp [CoefKind.inc] at hn2
            rw [coefUpdate_incMul] at hn2 ⊢
            split
            · rename_i hgt; rw [if_pos hgt] at hn2; linarith
            · rfl
          · have := hmx rfl
            simp [CoefKind.inc] at hn2
            rw [coefUpdate_incAdd] at hn2 ⊢
            split
            · rename_i hgt; rw [if_pos hgt] at hn2; linarith
            · rfl
          · rfl
          · have := hmn rfl
            simp [CoefKind.inc] at hn2
            rw [coefUpdate_decSub] at hn2 ⊢
            split
            · rename_i hlt; rw [if_pos hlt] at hn2; linarith
            · rfl

end Rdm
