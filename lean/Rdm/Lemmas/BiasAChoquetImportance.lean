/-
  C15 — the Choquet importance map (`decomposeWeights` of the Choquet listener, model `choquetDecompose`)
  as a closed formula: the importance of a criterion is the sum, over the considered alternatives in
  order and over the components `(crits, valueAdded)` of the alternative's Choquet integral in order,
  of the `valueAdded` of every component whose criteria list contains the criterion.
-/
import Rdm.Lemmas.BiasACumulated
import Rdm.Lemmas.UtilityKeys
set_option linter.unusedSectionVars false
set_option linter.unusedSimpArgs false
open Rdm
namespace Rdm.BiasA
variable {α : Type} [Num α]

def chq_stepCrit (added : α) (acc : KMap α) (c : String) : R (KMap α) :=
  match acc.get? c with
  | none => throw s!"criterion-not-found:{c}"
  | some old => pure (acc.set c (old + added))

def chq_stepComp (acc : KMap α) (comp : List String × α) : R (KMap α) :=
  comp.1.foldlM (chq_stepCrit comp.2) acc

def chq_stepAlt (eps : α) (w : KMap α) (acc : KMap α) (a : Alt α) : R (KMap α) :=
  choquetComponents eps w (ascendingVals a) Num.zero >>= fun comps => comps.foldlM chq_stepComp acc

theorem chq_decompose_eq_foldlM (eps : α) (cs : List (Crit α)) (co : List (Alt α)) (w : KMap α) :
    choquetDecompose eps cs co w = co.foldlM (chq_stepAlt eps w) (cs.map fun c => (c.id, Num.zero)) := by
  unfold choquetDecompose
  simp only
  have inner : ∀ (added : α) (crits : List String) (acc : KMap α),
      forIn crits acc (fun c __s =>
        match __s.get? c with
        | none => do
          throw (toString "criterion-not-found:" ++ toString c)
          pure (ForInStep.yield __s)
        | some old => pure (ForInStep.yield (__s.set c (old + added)))) =
      crits.foldlM (chq_stepCrit added) acc := by
    intro added crits acc
    apply forIn_yield_foldlM
    intro c s
    unfold chq_stepCrit
    cases s.get? c <;> rfl
  have middle : ∀ (comps : List (List String × α)) (acc : KMap α),
      forIn comps acc (fun x __s => do
        let __s ← forIn x.1 __s fun c __s =>
            match __s.get? c with
            | none => do
              throw (toString "criterion-not-found:" ++ toString c)
              pure (ForInStep.yield __s)
            | some old => pure (ForInStep.yield (__s.set c (old + x.2)))
        pure (ForInStep.yield __s)) =
      comps.foldlM chq_stepComp acc := by
    intro comps acc
    apply forIn_yield_foldlM
    intro x s
    rw [inner]
    rfl
  have outer := forIn_yield_foldlM (ε := String)
    (F := fun (a : Alt α) (__s : KMap α) => do
        let comps ← choquetComponents eps w (ascendingVals a) Num.zero
        let __s ← forIn comps __s fun x __s => do
            let __s ← forIn x.1 __s fun c __s =>
                match __s.get? c with
                | none => do
                  throw (toString "criterion-not-found:" ++ toString c)
                  pure (ForInStep.yield __s)
                | some old => pure (ForInStep.yield (__s.set c (old + x.2)))
            pure (ForInStep.yield __s)
        pure (ForInStep.yield __s))
    (f := fun a acc => chq_stepAlt eps w acc a)
    (by
      intro a acc
      unfold chq_stepAlt
      cases choquetComponents eps w (ascendingVals a) Num.zero with
      | error e => rfl
      | ok comps =>
        rw [ok_bind, ok_bind, middle]) co (cs.map fun c => (c.id, (Num.zero : α)))
  rw [← outer]
  generalize (forIn co (cs.map fun c => (c.id, (Num.zero : α))) _ : R (KMap α)) = x
  cases x <;> rfl

/-! ## the accumulation, once per occurrence of the criterion (no hypothesis on the keys) -/

/-- contribution of one component `(crits, added)` to criterion `id`: `added` once per occurrence of
    `id` in `crits`, accumulated onto `t` -/
def chq_addCrits (id : String) (added : α) (t : α) (crits : List String) : α :=
  crits.foldl (fun t c => if c = id then t + added else t) t

/-- contribution of one alternative's components to criterion `id` (once per occurrence), onto `t` -/
def chq_addCompsN (id : String) (t : α) (comps : List (List String × α)) : α :=
  comps.foldl (fun t comp => chq_addCrits id comp.2 t comp.1) t

/-- the closed formula, counting occurrences -/
def chq_importanceN (id : String) (compss : List (List (List String × α))) : α :=
  compss.foldl (chq_addCompsN id) Num.zero

theorem chq_stepCrit_ok {added : α} {acc acc' : KMap α} {c : String}
    (h : chq_stepCrit added acc c = .ok acc') :
    ∃ old, acc.get? c = some old ∧ acc' = acc.set c (old + added) := by
  unfold chq_stepCrit at h
  split at h
  · cases h
  · rename_i old hold
    rw [pure_ok] at h
    exact ⟨old, hold, h.symm⟩

theorem chq_foldlM_stepCrit_get? (added : α) :
    ∀ (crits : List String) (acc0 acc : KMap α), crits.foldlM (chq_stepCrit added) acc0 = .ok acc →
      ∀ k z, acc0.get? k = some z → acc.get? k = some (chq_addCrits k added z crits)
  | [], acc0, acc, h, k, z, hz => by
    rw [List.foldlM_nil, pure_ok] at h; subst h; exact hz
  | c :: crits, acc0, acc, h, k, z, hz => by
    rw [List.foldlM_cons, bind_ok] at h
    obtain ⟨acc1, h1, h⟩ := h
    obtain ⟨old, hold, rfl⟩ := chq_stepCrit_ok h1
    unfold chq_addCrits
    rw [List.foldl_cons]
    apply chq_foldlM_stepCrit_get? added crits _ _ h
    by_cases hk : c = k
    · subst hk
      rw [if_pos rfl, KMap.get?_set_self]
      rw [hz] at hold; cases hold; rfl
    · rw [if_neg hk, KMap.get?_set_ne _ _ _ (Ne.symm hk)]; exact hz

theorem chq_foldlM_stepComp_get? :
    ∀ (comps : List (List String × α)) (acc0 acc : KMap α), comps.foldlM chq_stepComp acc0 = .ok acc →
      ∀ k z, acc0.get? k = some z → acc.get? k = some (chq_addCompsN k z comps)
  | [], acc0, acc, h, k, z, hz => by
    rw [List.foldlM_nil, pure_ok] at h; subst h; exact hz
  | comp :: comps, acc0, acc, h, k, z, hz => by
    rw [List.foldlM_cons, bind_ok] at h
    obtain ⟨acc1, h1, h⟩ := h
    unfold chq_addCompsN
    rw [List.foldl_cons]
    exact chq_foldlM_stepComp_get? comps _ _ h k _
      (chq_foldlM_stepCrit_get? comp.2 comp.1 _ _ h1 k z hz)

theorem chq_foldlM_stepAlt_get? (eps : α) (w : KMap α) :
    ∀ (co : List (Alt α)) (acc0 acc : KMap α), co.foldlM (chq_stepAlt eps w) acc0 = .ok acc →
      ∃ compss, List.Forall₂ (fun a comps =>
          choquetComponents eps w (ascendingVals a) Num.zero = .ok comps) co compss ∧
        ∀ k z, acc0.get? k = some z → acc.get? k = some (compss.foldl (chq_addCompsN k) z)
  | [], acc0, acc, h => by
    rw [List.foldlM_nil, pure_ok] at h; subst h
    exact ⟨[], .nil, fun k z hz => hz⟩
  | a :: co, acc0, acc, h => by
    rw [List.foldlM_cons, bind_ok] at h
    obtain ⟨acc1, h1, h⟩ := h
    unfold chq_stepAlt at h1
    rw [bind_ok] at h1
    obtain ⟨comps, hc, h1⟩ := h1
    obtain ⟨compss, hf, hget⟩ := chq_foldlM_stepAlt_get? eps w co _ _ h
    refine ⟨comps :: compss, .cons hc hf, ?_⟩
    intro k z hz
    rw [List.foldl_cons]
    exact hget k _ (chq_foldlM_stepComp_get? comps _ _ h1 k z hz)

theorem chq_init_get? (cs : List (Crit α)) {c : Crit α} (hc : c ∈ cs) :
    KMap.get? (cs.map fun c => (c.id, (Num.zero : α))) c.id = some Num.zero := by
  simp only [KMap.get?]
  induction cs with
  | nil => cases hc
  | cons x xs ih =>
    simp only [List.map_cons, lookup_cons_ite]
    by_cases hid : c.id = x.id
    · rw [if_pos hid]
    · rw [if_neg hid]
      rcases List.mem_cons.1 hc with rfl | hc'
      · exact absurd rfl hid
      · exact ih hc'

/-- **the Choquet importance map, counting occurrences** (no hypothesis on the alternatives' keys):
    if `decomposeWeights` succeeds, every considered alternative's integral decomposes into components,
    and every declared criterion holds the sum — over the alternatives in order, over the components in
    order, over the occurrences of the criterion in the component's criteria list — of `valueAdded`,
    accumulated from 0 as `old + valueAdded` -/
theorem chq_decompose_formulaN {eps : α} {cs : List (Crit α)} {co : List (Alt α)} {w acc : KMap α}
    (h : choquetDecompose eps cs co w = .ok acc) :
    ∃ compss, List.Forall₂ (fun a comps =>
        choquetComponents eps w (ascendingVals a) Num.zero = .ok comps) co compss ∧
      ∀ c ∈ cs, acc.get? c.id = some (chq_importanceN c.id compss) := by
  rw [chq_decompose_eq_foldlM] at h
  obtain ⟨compss, hf, hget⟩ := chq_foldlM_stepAlt_get? eps w co _ _ h
  exact ⟨compss, hf, fun c hc => hget c.id _ (chq_init_get? cs hc)⟩

/-! ## duplicate-free criteria lists: once per component that contains the criterion -/

/-- contribution of one alternative's components to criterion `id`, accumulated onto `t` -/
def chq_addComps (id : String) (t : α) (comps : List (List String × α)) : α :=
  comps.foldl (fun t comp => if comp.1.contains id then t + comp.2 else t) t

/-- the closed formula -/
def chq_importance (id : String) (compss : List (List (List String × α))) : α :=
  compss.foldl (chq_addComps id) Num.zero

theorem chq_addCrits_not_mem (id : String) (added : α) :
    ∀ (crits : List String) (t : α), id ∉ crits → chq_addCrits id added t crits = t
  | [], _, _ => rfl
  | c :: crits, t, h => by
    unfold chq_addCrits
    have hne : ¬ c = id := fun e => h (e ▸ List.mem_cons_self)
    rw [List.foldl_cons, if_neg hne]
    exact chq_addCrits_not_mem id added crits t (fun hm => h (List.mem_cons_of_mem _ hm))

theorem chq_addCrits_nodup (id : String) (added : α) :
    ∀ (crits : List String) (t : α), crits.Nodup →
      chq_addCrits id added t crits = if crits.contains id then t + added else t
  | [], _, _ => rfl
  | c :: crits, t, h => by
    rw [List.nodup_cons] at h
    unfold chq_addCrits
    rw [List.foldl_cons]
    by_cases hc : c = id
    · subst hc
      rw [if_pos rfl, if_pos (by simp)]
      exact chq_addCrits_not_mem c added crits _ h.1
    · rw [if_neg hc]
      have := chq_addCrits_nodup id added crits t h.2
      unfold chq_addCrits at this
      rw [this]
      have e : (c :: crits).contains id = crits.contains id := by
        rw [List.contains_cons]
        have : (id == c) = false := by simpa using (fun e => hc e.symm)
        rw [this, Bool.false_or]
      rw [e]

theorem chq_addCompsN_eq (id : String) :
    ∀ (comps : List (List String × α)) (t : α), (∀ comp ∈ comps, comp.1.Nodup) →
      chq_addCompsN id t comps = chq_addComps id t comps
  | [], _, _ => rfl
  | comp :: comps, t, h => by
    unfold chq_addCompsN chq_addComps
    rw [List.foldl_cons, List.foldl_cons, chq_addCrits_nodup id comp.2 comp.1 t (h comp List.mem_cons_self)]
    exact chq_addCompsN_eq id comps _ (fun x hx => h x (List.mem_cons_of_mem _ hx))

theorem chq_foldl_addCompsN_eq (id : String) :
    ∀ (compss : List (List (List String × α))) (t : α),
      (∀ comps ∈ compss, ∀ comp ∈ comps, comp.1.Nodup) →
      compss.foldl (chq_addCompsN id) t = compss.foldl (chq_addComps id) t
  | [], _, _ => rfl
  | comps :: compss, t, h => by
    rw [List.foldl_cons, List.foldl_cons, chq_addCompsN_eq id comps t (h comps List.mem_cons_self)]
    exact chq_foldl_addCompsN_eq id compss _ (fun x hx => h x (List.mem_cons_of_mem _ hx))

/-! ### the criteria list of every component is the sorted key list of a tail of the ascending values -/

theorem chq_dropGroup_sublist (eps cur : α) : ∀ l : List (String × α), (dropGroup eps cur l).Sublist l
  | [] => List.Sublist.refl _
  | x :: xs => by
    unfold dropGroup
    split
    · exact (chq_dropGroup_sublist eps cur xs).trans (List.sublist_cons_self _ _)
    · exact List.Sublist.refl _

theorem chq_components_sublist (eps : α) (w : KMap α) :
    ∀ (n : Nat) (l : List (String × α)) (prev : α) (comps : List (List String × α)), l.length ≤ n →
      choquetComponents eps w l prev = .ok comps →
      ∀ comp ∈ comps, ∃ s : List (String × α), s.Sublist l ∧ comp.1 = sortStrs (s.map (·.1))
  | _, [], prev, comps, _, h => by
    rw [choquetComponents, pure_ok] at h; subst h
    intro comp hc; cases hc
  | 0, _ :: _, _, _, hn, _ => by simp at hn
  | n + 1, x :: xs, prev, comps, hn, h => by
    rw [choquetComponents] at h
    dsimp only at h
    rw [bind_ok] at h
    obtain ⟨μ, _, h⟩ := h
    rw [bind_ok] at h
    obtain ⟨rest, hrest, h⟩ := h
    rw [pure_ok] at h
    subst h
    intro comp hc
    rcases List.mem_cons.1 hc with rfl | hc
    · exact ⟨x :: xs, List.Sublist.refl _, rfl⟩
    · have hlen : (dropGroup eps x.2 xs).length ≤ n := by
        have := dropGroup_length_le eps x.2 xs
        simp only [List.length_cons] at hn; omega
      obtain ⟨s, hs, he⟩ := chq_components_sublist eps w n _ _ _ hlen hrest comp hc
      exact ⟨s, hs.trans ((chq_dropGroup_sublist eps x.2 xs).trans (List.sublist_cons_self _ _)), he⟩

theorem chq_ascendingVals_perm (a : Alt α) : (ascendingVals a).Perm a.vals := List.mergeSort_perm _ _

/-- the criteria of a component of alternative `a` are the sorted keys of a sublist of (a permutation
    of) `a`'s values -/
theorem chq_components_crits {eps : α} {w : KMap α} {a : Alt α} {comps : List (List String × α)}
    (h : choquetComponents eps w (ascendingVals a) Num.zero = .ok comps) :
    ∀ comp ∈ comps, (a.vals.keys.Nodup → comp.1.Nodup) ∧ ∀ c ∈ comp.1, c ∈ a.vals.keys := by
  intro comp hc
  obtain ⟨s, hs, he⟩ := chq_components_sublist eps w _ _ _ _ (Nat.le_refl _) h comp hc
  have hp : ((ascendingVals a).map (·.1)).Perm a.vals.keys := (chq_ascendingVals_perm a).map _
  constructor
  · intro hnd
    rw [he, (sortStrs_perm _).nodup_iff]
    exact (hs.map _).nodup (hp.nodup_iff.2 hnd)
  · intro c hcm
    rw [he, (sortStrs_perm _).mem_iff] at hcm
    exact hp.mem_iff.1 ((hs.map _).subset hcm)

/-- **the Choquet importance map as a closed formula** (`decomposeWeights` of the Choquet listener):
    if it succeeds and the value keys of every considered alternative are distinct, then every
    considered alternative's integral decomposes into components `(crits, valueAdded)`, and every
    declared criterion `c` holds
    `Σ_{a ∈ considered, in order} Σ_{(crits, valueAdded) ∈ components a, in order, c.id ∈ crits} valueAdded`,
    accumulated from 0 as `old + valueAdded` (so no commutativity is used: the statement holds for
    float64 too) -/
theorem chq_decompose_formula {eps : α} {cs : List (Crit α)} {co : List (Alt α)} {w acc : KMap α}
    (h : choquetDecompose eps cs co w = .ok acc) (hk : ∀ a ∈ co, a.vals.keys.Nodup) :
    ∃ compss, List.Forall₂ (fun a comps =>
        choquetComponents eps w (ascendingVals a) Num.zero = .ok comps) co compss ∧
      ∀ c ∈ cs, acc.get? c.id = some (chq_importance c.id compss) := by
  obtain ⟨compss, hf, hget⟩ := chq_decompose_formulaN h
  refine ⟨compss, hf, fun c hc => ?_⟩
  rw [hget c hc]
  unfold chq_importanceN chq_importance
  rw [chq_foldl_addCompsN_eq]
  intro comps hcomps comp hcomp
  obtain ⟨a, ha, hca⟩ := forall₂_mem_right hf comps hcomps
  exact (chq_components_crits hca comp hcomp).1 (hk a ha)

/-- the importance map of the Choquet listener (the map `RankCriteriaAscending` sorts by) -/
theorem chq_importance_choquet (eps : α) (d : DMP α) {w : KMap α} {cs : List (Crit α)}
    (h : d.mp = .choquet w cs) (hk : ∀ a ∈ d.co, a.vals.keys.Nodup) {acc : KMap α}
    (hok : importanceMap eps d = .ok acc) :
    ∃ compss, List.Forall₂ (fun a comps =>
        choquetComponents eps w (ascendingVals a) Num.zero = .ok comps) d.co compss ∧
      ∀ c ∈ d.crit, acc.get? c.id = some (chq_importance c.id compss) := by
  unfold importanceMap at hok
  rw [h] at hok
  exact chq_decompose_formula hok hk

/-- … and without the distinct-keys hypothesis, counting occurrences -/
theorem chq_importance_choquetN (eps : α) (d : DMP α) {w : KMap α} {cs : List (Crit α)}
    (h : d.mp = .choquet w cs) {acc : KMap α} (hok : importanceMap eps d = .ok acc) :
    ∃ compss, List.Forall₂ (fun a comps =>
        choquetComponents eps w (ascendingVals a) Num.zero = .ok comps) d.co compss ∧
      ∀ c ∈ d.crit, acc.get? c.id = some (chq_importanceN c.id compss) := by
  unfold importanceMap at hok
  rw [h] at hok
  exact chq_decompose_formulaN hok

/-! ## when the decomposition succeeds -/

theorem chq_foldlM_stepCrit_succeeds (added : α) :
    ∀ (crits : List String) (acc : KMap α), (∀ c ∈ crits, (acc.get? c).isSome) →
      ∃ acc', crits.foldlM (chq_stepCrit added) acc = .ok acc'
  | [], acc, _ => ⟨acc, rfl⟩
  | c :: crits, acc, h => by
    obtain ⟨old, hold⟩ := Option.isSome_iff_exists.1 (h c List.mem_cons_self)
    have h1 : chq_stepCrit added acc c = .ok (acc.set c (old + added)) := by
      unfold chq_stepCrit; rw [hold]; rfl
    rw [List.foldlM_cons, h1, ok_bind]
    apply chq_foldlM_stepCrit_succeeds added crits
    intro c' hc'
    by_cases e : c' = c
    · rw [e, KMap.get?_set_self]; rfl
    · rw [KMap.get?_set_ne _ _ _ e]; exact h c' (List.mem_cons_of_mem _ hc')

theorem chq_foldlM_stepComp_succeeds :
    ∀ (comps : List (List String × α)) (acc : KMap α),
      (∀ comp ∈ comps, ∀ c ∈ comp.1, (acc.get? c).isSome) →
      ∃ acc', comps.foldlM chq_stepComp acc = .ok acc'
  | [], acc, _ => ⟨acc, rfl⟩
  | comp :: comps, acc, h => by
    obtain ⟨acc1, h1⟩ := chq_foldlM_stepCrit_succeeds comp.2 comp.1 acc (h comp List.mem_cons_self)
    have h1' : chq_stepComp acc comp = .ok acc1 := h1
    rw [List.foldlM_cons, h1', ok_bind]
    apply chq_foldlM_stepComp_succeeds comps
    intro comp' hcomp' c hc
    obtain ⟨z, hz⟩ := Option.isSome_iff_exists.1 (h comp' (List.mem_cons_of_mem _ hcomp') c hc)
    rw [chq_foldlM_stepCrit_get? comp.2 comp.1 _ _ h1 c z hz]; rfl

theorem chq_foldlM_stepAlt_succeeds (eps : α) (w : KMap α) :
    ∀ (co : List (Alt α)) (acc : KMap α),
      (∀ a ∈ co, ∃ comps, choquetComponents eps w (ascendingVals a) Num.zero = .ok comps) →
      (∀ a ∈ co, ∀ k ∈ a.vals.keys, (acc.get? k).isSome) →
      ∃ acc', co.foldlM (chq_stepAlt eps w) acc = .ok acc'
  | [], acc, _, _ => ⟨acc, rfl⟩
  | a :: co, acc, hcap, hkeys => by
    obtain ⟨comps, hc⟩ := hcap a List.mem_cons_self
    obtain ⟨acc1, h1⟩ := chq_foldlM_stepComp_succeeds comps acc (fun comp hcomp c hcm =>
      hkeys a List.mem_cons_self c ((chq_components_crits hc comp hcomp).2 c hcm))
    have h1' : chq_stepAlt eps w acc a = .ok acc1 := by
      unfold chq_stepAlt; rw [hc, ok_bind]; exact h1
    rw [List.foldlM_cons, h1', ok_bind]
    apply chq_foldlM_stepAlt_succeeds eps w co acc1 (fun x hx => hcap x (List.mem_cons_of_mem _ hx))
    intro a' ha' k hk
    obtain ⟨z, hz⟩ := Option.isSome_iff_exists.1 (hkeys a' (List.mem_cons_of_mem _ ha') k hk)
    rw [chq_foldlM_stepComp_get? comps _ _ h1 k z hz]; rfl

/-- `decomposeWeights` succeeds when every value key of every considered alternative is the id of a
    declared criterion and every capacity the integrals look up is present -/
theorem chq_decompose_succeeds {eps : α} {cs : List (Crit α)} {co : List (Alt α)} {w : KMap α}
    (hkeys : ∀ a ∈ co, ∀ k ∈ a.vals.keys, ∃ c ∈ cs, c.id = k)
    (hcap : ∀ a ∈ co, ∃ comps, choquetComponents eps w (ascendingVals a) Num.zero = .ok comps) :
    ∃ acc, choquetDecompose eps cs co w = .ok acc := by
  rw [chq_decompose_eq_foldlM]
  apply chq_foldlM_stepAlt_succeeds eps w co _ hcap
  intro a ha k hk
  obtain ⟨c, hc, rfl⟩ := hkeys a ha k hk
  rw [chq_init_get? cs hc]; rfl

theorem chq_importance_succeeds (eps : α) (d : DMP α) {w : KMap α} {cs : List (Crit α)}
    (h : d.mp = .choquet w cs)
    (hkeys : ∀ a ∈ d.co, ∀ k ∈ a.vals.keys, ∃ c ∈ d.crit, c.id = k)
    (hcap : ∀ a ∈ d.co, ∃ comps, choquetComponents eps w (ascendingVals a) Num.zero = .ok comps) :
    ∃ acc, importanceMap eps d = .ok acc := by
  unfold importanceMap; rw [h]
  exact chq_decompose_succeeds hkeys hcap

/-- success and the closed formula in one statement -/
theorem chq_importance_choquet_total (eps : α) (d : DMP α) {w : KMap α} {cs : List (Crit α)}
    (h : d.mp = .choquet w cs) (hk : ∀ a ∈ d.co, a.vals.keys.Nodup)
    (hkeys : ∀ a ∈ d.co, ∀ k ∈ a.vals.keys, ∃ c ∈ d.crit, c.id = k)
    (hcap : ∀ a ∈ d.co, ∃ comps, choquetComponents eps w (ascendingVals a) Num.zero = .ok comps) :
    ∃ acc compss, importanceMap eps d = .ok acc ∧
      List.Forall₂ (fun a comps =>
        choquetComponents eps w (ascendingVals a) Num.zero = .ok comps) d.co compss ∧
      ∀ c ∈ d.crit, acc.get? c.id = some (chq_importance c.id compss) := by
  obtain ⟨acc, hok⟩ := chq_importance_succeeds eps d h hkeys hcap
  obtain ⟨compss, hf, hget⟩ := chq_importance_choquet eps d h hk hok
  exact ⟨acc, compss, hok, hf, hget⟩

/-! ### … and only then -/

theorem chq_foldlM_stepCrit_demands (added : α) :
    ∀ (crits : List String) (acc0 acc : KMap α), crits.foldlM (chq_stepCrit added) acc0 = .ok acc →
      (∀ c ∈ crits, (acc0.get? c).isSome) ∧ ∀ k, (acc.get? k).isSome → (acc0.get? k).isSome
  | [], acc0, acc, h => by
    rw [List.foldlM_nil, pure_ok] at h; subst h
    exact ⟨fun c hc => (by cases hc), fun _ hk => hk⟩
  | c :: crits, acc0, acc, h => by
    rw [List.foldlM_cons, bind_ok] at h
    obtain ⟨acc1, h1, h⟩ := h
    obtain ⟨old, hold, rfl⟩ := chq_stepCrit_ok h1
    obtain ⟨hd, hb⟩ := chq_foldlM_stepCrit_demands added crits _ _ h
    have back : ∀ k, ((acc0.set c (old + added)).get? k).isSome → (acc0.get? k).isSome := by
      intro k hk
      by_cases e : k = c
      · rw [e, hold]; rfl
      · rwa [KMap.get?_set_ne _ _ _ e] at hk
    refine ⟨?_, fun k hk => back k (hb k hk)⟩
    intro c' hc'
    rcases List.mem_cons.1 hc' with rfl | hc'
    · rw [hold]; rfl
    · exact back c' (hd c' hc')

theorem chq_foldlM_stepComp_demands :
    ∀ (comps : List (List String × α)) (acc0 acc : KMap α), comps.foldlM chq_stepComp acc0 = .ok acc →
      (∀ comp ∈ comps, ∀ c ∈ comp.1, (acc0.get? c).isSome) ∧
        ∀ k, (acc.get? k).isSome → (acc0.get? k).isSome
  | [], acc0, acc, h => by
    rw [List.foldlM_nil, pure_ok] at h; subst h
    exact ⟨fun c hc => (by cases hc), fun _ hk => hk⟩
  | comp :: comps, acc0, acc, h => by
    rw [List.foldlM_cons, bind_ok] at h
    obtain ⟨acc1, h1, h⟩ := h
    obtain ⟨hd1, hb1⟩ := chq_foldlM_stepCrit_demands comp.2 comp.1 _ _ h1
    obtain ⟨hd, hb⟩ := chq_foldlM_stepComp_demands comps _ _ h
    refine ⟨?_, fun k hk => hb1 k (hb k hk)⟩
    intro comp' hcomp' c hc
    rcases List.mem_cons.1 hcomp' with rfl | hcomp'
    · exact hd1 c hc
    · exact hb1 c (hd comp' hcomp' c hc)

theorem chq_foldlM_stepAlt_demands (eps : α) (w : KMap α) :
    ∀ (co : List (Alt α)) (acc0 acc : KMap α), co.foldlM (chq_stepAlt eps w) acc0 = .ok acc →
      (∀ a ∈ co, ∃ comps, choquetComponents eps w (ascendingVals a) Num.zero = .ok comps ∧
        ∀ comp ∈ comps, ∀ c ∈ comp.1, (acc0.get? c).isSome) ∧
        ∀ k, (acc.get? k).isSome → (acc0.get? k).isSome
  | [], acc0, acc, h => by
    rw [List.foldlM_nil, pure_ok] at h; subst h
    exact ⟨fun c hc => (by cases hc), fun _ hk => hk⟩
  | a :: co, acc0, acc, h => by
    rw [List.foldlM_cons, bind_ok] at h
    obtain ⟨acc1, h1, h⟩ := h
    unfold chq_stepAlt at h1
    rw [bind_ok] at h1
    obtain ⟨comps, hc, h1⟩ := h1
    obtain ⟨hd1, hb1⟩ := chq_foldlM_stepComp_demands comps _ _ h1
    obtain ⟨hd, hb⟩ := chq_foldlM_stepAlt_demands eps w co _ _ h
    refine ⟨?_, fun k hk => hb1 k (hb k hk)⟩
    intro a' ha'
    rcases List.mem_cons.1 ha' with rfl | ha'
    · exact ⟨comps, hc, hd1⟩
    · obtain ⟨comps', hc', hd'⟩ := hd a' ha'
      exact ⟨comps', hc', fun comp hcomp c hcm => hb1 c (hd' comp hcomp c hcm)⟩

/-- the first component carries every key of the list -/
theorem chq_components_head {eps : α} {w : KMap α} {x : String × α} {xs : List (String × α)} {prev : α}
    {comps : List (List String × α)} (h : choquetComponents eps w (x :: xs) prev = .ok comps) :
    ∃ added rest, comps = (sortStrs ((x :: xs).map (·.1)), added) :: rest := by
  rw [choquetComponents] at h
  dsimp only at h
  rw [bind_ok] at h
  obtain ⟨μ, _, h⟩ := h
  rw [bind_ok] at h
  obtain ⟨rest, _, h⟩ := h
  rw [pure_ok] at h
  exact ⟨_, rest, h.symm⟩

theorem chq_init_isSome (cs : List (Crit α)) {k : String}
    (h : (KMap.get? (cs.map fun c => (c.id, (Num.zero : α))) k).isSome) : ∃ c ∈ cs, c.id = k := by
  simp only [KMap.get?] at h
  induction cs with
  | nil => cases h
  | cons x xs ih =>
    simp only [List.map_cons, lookup_cons_ite] at h
    by_cases hid : k = x.id
    · exact ⟨x, List.mem_cons_self, hid.symm⟩
    · rw [if_neg hid] at h
      obtain ⟨c, hc, e⟩ := ih h
      exact ⟨c, List.mem_cons_of_mem _ hc, e⟩

/-- `decomposeWeights` succeeds **exactly** when every value key of every considered alternative is
    the id of a declared criterion (else `criterion-not-found`) and every capacity the integrals look
    up is present (else `choquet-missing`) -/
theorem chq_decompose_ok_iff {eps : α} {cs : List (Crit α)} {co : List (Alt α)} {w : KMap α} :
    (∃ acc, choquetDecompose eps cs co w = .ok acc) ↔
      (∀ a ∈ co, ∀ k ∈ a.vals.keys, ∃ c ∈ cs, c.id = k) ∧
      (∀ a ∈ co, ∃ comps, choquetComponents eps w (ascendingVals a) Num.zero = .ok comps) := by
  constructor
  · rintro ⟨acc, h⟩
    rw [chq_decompose_eq_foldlM] at h
    obtain ⟨hd, _⟩ := chq_foldlM_stepAlt_demands eps w co _ _ h
    refine ⟨?_, fun a ha => (hd a ha).imp fun _ hc => hc.1⟩
    intro a ha k hk
    obtain ⟨comps, hc, hsome⟩ := hd a ha
    apply chq_init_isSome cs
    have hk' : k ∈ (ascendingVals a).map (·.1) := ((chq_ascendingVals_perm a).map _).mem_iff.2 hk
    cases hasc : ascendingVals a with
    | nil => rw [hasc] at hk'; cases hk'
    | cons x xs =>
      rw [hasc] at hc hk'
      obtain ⟨added, rest, rfl⟩ := chq_components_head hc
      exact hsome _ List.mem_cons_self k ((sortStrs_perm _).mem_iff.2 hk')
  · rintro ⟨hkeys, hcap⟩
    exact chq_decompose_succeeds hkeys hcap

/-! ## the components of one alternative sum to its Choquet value -/

/-- the `valueAdded`s of one alternative's components sum (in order, from 0) to its Choquet integral -/
theorem chq_components_sum {eps : α} {a : Alt α} {w : KMap α} {comps : List (List String × α)}
    (h : choquetComponents eps w (ascendingVals a) Num.zero = .ok comps) :
    choquetValue eps a w = .ok (comps.foldl (fun t c => t + c.2) Num.zero) := by
  unfold choquetValue; rw [h]; rfl

/-! ## over the rationals: the formula as an ordinary double sum -/

theorem chq_addComps_rat (id : String) : ∀ (comps : List (List String × Rat)) (t : Rat),
    chq_addComps id t comps = t + ((comps.filter fun comp => comp.1.contains id).map (·.2)).sum
  | [], t => by simp [chq_addComps]
  | comp :: comps, t => by
    unfold chq_addComps
    rw [List.foldl_cons]
    have ih := chq_addComps_rat id comps
    unfold chq_addComps at ih
    rw [ih]
    by_cases hc : comp.1.contains id = true
    · rw [if_pos hc, List.filter_cons_of_pos (p := fun comp : List String × Rat => comp.1.contains id) hc,
        List.map_cons, List.sum_cons]; ring
    · rw [if_neg hc, List.filter_cons_of_neg (p := fun comp : List String × Rat => comp.1.contains id) hc]

/-- over the rationals: importance of `id` = `Σ_a Σ_{components of a containing id} valueAdded` -/
theorem chq_importance_rat (id : String) (compss : List (List (List String × Rat))) :
    chq_importance id compss =
      (compss.map fun comps => ((comps.filter fun comp => comp.1.contains id).map (·.2)).sum).sum := by
  unfold chq_importance
  have key : ∀ (compss : List (List (List String × Rat))) (t : Rat),
      compss.foldl (chq_addComps id) t =
        t + (compss.map fun comps => ((comps.filter fun comp => comp.1.contains id).map (·.2)).sum).sum := by
    intro compss
    induction compss with
    | nil => intro t; simp
    | cons comps compss ih =>
      intro t
      rw [List.foldl_cons, ih, chq_addComps_rat, List.map_cons, List.sum_cons]; ring
  rw [key, Num.zero_rat]; ring

/-! ## the hypotheses are satisfiable: two criteria, two considered alternatives -/

def chq_exCrit : List (Crit Rat) := [⟨"a", "gain", none⟩, ⟨"b", "gain", none⟩]
def chq_exW : KMap Rat := [("a", 1/4), ("b", 1/2), ("a,b", 1)]
def chq_exX : Alt Rat := ⟨"x", [("a", 1), ("b", 3)]⟩
def chq_exY : Alt Rat := ⟨"y", [("b", 2), ("a", 4)]⟩
def chq_exD : DMP Rat := ⟨[], [chq_exX, chq_exY], chq_exCrit, .choquet chq_exW chq_exCrit⟩

theorem chq_exX_comps : choquetComponents (1/100000 : Rat) chq_exW (ascendingVals chq_exX) Num.zero
    = .ok [(["a", "b"], 1), (["b"], 1)] := by
  have h : ascendingVals chq_exX = chq_exX.vals := List.mergeSort_of_pairwise (by decide +kernel)
  rw [h]; decide +kernel

theorem chq_exY_comps : choquetComponents (1/100000 : Rat) chq_exW (ascendingVals chq_exY) Num.zero
    = .ok [(["a", "b"], 2), (["a"], 1/2)] := by
  have h : ascendingVals chq_exY = chq_exY.vals := List.mergeSort_of_pairwise (by decide +kernel)
  rw [h]; decide +kernel

/-- on the example the map exists and holds `a ↦ 1 + 2 + 1/2`, `b ↦ 1 + 1 + 2` -/
example : ∃ acc, importanceMap (1/100000 : Rat) chq_exD = .ok acc ∧
    acc.get? "a" = some (7/2) ∧ acc.get? "b" = some 4 := by
  obtain ⟨acc, compss, hok, hf, hget⟩ := chq_importance_choquet_total (1/100000 : Rat) chq_exD
    (w := chq_exW) (cs := chq_exCrit) rfl (by decide +kernel) (by decide +kernel)
    (by
      intro a ha
      rcases List.mem_cons.1 ha with rfl | ha
      · exact ⟨_, chq_exX_comps⟩
      · rcases List.mem_cons.1 ha with rfl | ha
        · exact ⟨_, chq_exY_comps⟩
        · cases ha)
  have hf' : List.Forall₂ (fun a comps =>
      choquetComponents (1/100000 : Rat) chq_exW (ascendingVals a) Num.zero = .ok comps)
      [chq_exX, chq_exY] compss := hf
  simp only [List.forall₂_cons_left_iff, List.forall₂_nil_left_iff] at hf'
  obtain ⟨c1, _, h1, ⟨c2, _, h2, rfl, rfl⟩, rfl⟩ := hf'
  rw [chq_exX_comps] at h1
  rw [chq_exY_comps] at h2
  cases h1; cases h2
  refine ⟨acc, hok, ?_, ?_⟩
  · rw [hget ⟨"a", "gain", none⟩ List.mem_cons_self]; decide +kernel
  · rw [hget ⟨"b", "gain", none⟩ (List.mem_cons_of_mem _ List.mem_cons_self)]; decide +kernel

end Rdm.BiasA
