/-
  Lemmas for the END-TO-END theorems, part 2 (C01): whatever state `Evaluate` is handed — provided the
  considered alternatives have pairwise different ids — each of the seven methods returns a complete,
  well-formed ranking of the alternatives it had to rank (`e2eExpected`: the considered ones plus the
  heuristic's current choice when it is given and not among them).
  One inversion lemma for `evaluateWith` (`e2e_evaluateWith_cases`), one well-formedness lemma per link
  constructor, composed in `e2e_evaluate_wellformed`.
-/
import Rdm.Lemmas.E2EDecide
import Rdm.Lemmas.LinksSpec
import Rdm.Lemmas.LinksSpecIff
import Rdm.Lemmas.LinksConstructors
import Rdm.Lemmas.RankingBasic
import Rdm.Lemmas.RankingWellformed
import Rdm.Lemmas.HeurList
import Rdm.Lemmas.HeurLinks
import Rdm.Lemmas.HeurMajority
import Rdm.Lemmas.HeurAspect
import Rdm.Lemmas.HeurSatisf
import Rdm.Lemmas.ElectreMatrix
import Rdm.Lemmas.ElectreCred
namespace Rdm
set_option linter.unusedSectionVars false
set_option linter.unusedSimpArgs false
variable {α : Type} [Num α]

/-! ### the alternatives a decision has to rank -/

/-- `choseToMake` plus the heuristic's current choice when one is given (`cur ≠ ""`) and it is not among them
    (`GetAlternativesSearchOrder` looks it up among ALL known alternatives and puts it first) -/
def e2eExpected (chosen : List String) (cur : String) : List String :=
  if cur != "" && !chosen.contains cur then cur :: chosen else chosen

theorem e2eExpected_no_current (chosen : List String) : e2eExpected chosen "" = chosen := rfl

theorem e2eExpected_of_mem (chosen : List String) (cur : String) (h : cur ∈ chosen) :
    e2eExpected chosen cur = chosen := by
  unfold e2eExpected
  simp [h]

theorem e2eExpected_of_not_mem (chosen : List String) (cur : String) (h0 : cur ≠ "") (h : cur ∉ chosen) :
    e2eExpected chosen cur = cur :: chosen := by
  unfold e2eExpected
  simp [h0, h]

theorem e2eExpected_nodup (chosen : List String) (cur : String) (hnd : chosen.Nodup) :
    (e2eExpected chosen cur).Nodup := by
  unfold e2eExpected
  split
  · rename_i h
    simp only [Bool.and_eq_true, Bool.not_eq_true', List.contains_eq_mem, decide_eq_false_iff_not] at h
    exact List.nodup_cons.mpr ⟨h.2, hnd⟩
  · exact hnd

/-! ### well-formed rankings -/

/-- a ranking of exactly the alternatives `ids`, whose links name ranked alternatives only, never the entry
    itself, never twice -/
def E2EWf {β : Type} (ids : List String) (out : List (Linked β)) : Prop :=
  (out.map (·.id)).Perm ids ∧
  ∀ e ∈ out, (∀ x ∈ e.links, x ∈ out.map (·.id)) ∧ e.id ∉ e.links ∧ e.links.Nodup

theorem E2EWf.perm {β : Type} {ids ids' : List String} {out : List (Linked β)} (h : E2EWf ids out)
    (hp : ids.Perm ids') : E2EWf ids' out := ⟨h.1.trans hp, h.2⟩

theorem E2EWf.mapEv {β γ : Type} {ids : List String} {out : List (Linked β)} (h : E2EWf ids out) (f : β → γ) :
    E2EWf ids (out.map (Linked.mapEv f)) := by
  have hids : (out.map (Linked.mapEv f)).map (·.id) = out.map (·.id) := by
    simp [Linked.mapEv, Function.comp_def]
  refine ⟨by rw [hids]; exact h.1, ?_⟩
  intro e he
  obtain ⟨r, hr, rfl⟩ := List.mem_map.mp he
  rw [hids]
  exact h.2 r hr

/-- the executable checker of C01 accepts a well-formed ranking of distinct alternatives -/
theorem E2EWf.check {β : Type} {ids : List String} {out : List (Linked β)} (h : E2EWf ids out)
    (hnd : ids.Nodup) : Spec.C01.check ids (out.map fun e => (e.id, e.links)) = true := by
  have hids : (out.map fun e => (e.id, e.links)).map (·.1) = out.map (·.id) := by
    simp [Function.comp_def]
  apply Spec.C01.check_of_wellformed
  · rw [hids]; exact h.1
  · rw [hids]; exact h.1.nodup_iff.mpr hnd
  · intro e he
    obtain ⟨r, hr, rfl⟩ := List.mem_map.mp he
    rw [hids]
    exact h.2 r hr

/-! ### inversion of `evaluateWith` -/

theorem e2e_evaluateWith_cases {o : List (WCrit α) → List (WCrit α)} {g : Int → Draws α} {d : DMP α}
    {res : List (Linked (Eval α))} (h : evaluateWith o g d = .ok res) :
    (e2eIsUtility d.mp = true ∧ ∃ r, utilityEvaluate d = .ok r ∧
        res = r.map fun e => ⟨e.id, .util e.v, e.links⟩) ∨
    (∃ ec dist r, d.mp = .electre ec dist ∧ electreIII d.co d.crit ec dist = .ok r ∧
        res = r.map (Linked.mapEv fun p => .electre p.1 p.2)) ∨
    (∃ w cur seed rnd dr r, d.mp = .majority w cur seed rnd dr ∧ majorityEvaluate d (g seed) = .ok r ∧
        res = r.map (Linked.mapEv .maj)) ∨
    (∃ fn lv seed w rnd r, d.mp = .aspect fn lv seed w rnd ∧
        aspectEvaluateWith d (g seed) (aspectLevels d) o = .ok r ∧ res = r.map (Linked.mapEv .asp)) ∨
    (∃ fn lv seed cur rnd r, d.mp = .satisf fn lv seed cur rnd ∧ satisfactionEvaluate d (g seed) = .ok r ∧
        res = r.map (Linked.mapEv .sat)) := by
  unfold evaluateWith at h
  revert h
  cases hmp : d.mp with
  | ws wc =>
    intro h
    obtain ⟨r, hr, h⟩ := bind_eq_ok.mp h
    simp only [pure, Except.pure, Except.ok.injEq] at h
    exact Or.inl ⟨rfl, r, hr, h.symm⟩
  | owa wc =>
    intro h
    obtain ⟨r, hr, h⟩ := bind_eq_ok.mp h
    simp only [pure, Except.pure, Except.ok.injEq] at h
    exact Or.inl ⟨rfl, r, hr, h.symm⟩
  | choquet w cs =>
    intro h
    obtain ⟨r, hr, h⟩ := bind_eq_ok.mp h
    simp only [pure, Except.pure, Except.ok.injEq] at h
    exact Or.inl ⟨rfl, r, hr, h.symm⟩
  | electre ec dist =>
    intro h
    obtain ⟨r, hr, h⟩ := bind_eq_ok.mp h
    simp only [pure, Except.pure, Except.ok.injEq] at h
    exact Or.inr (Or.inl ⟨ec, dist, r, rfl, hr, h.symm⟩)
  | majority w cur seed rnd dr =>
    intro h
    obtain ⟨r, hr, h⟩ := bind_eq_ok.mp h
    simp only [pure, Except.pure, Except.ok.injEq] at h
    exact Or.inr (Or.inr (Or.inl ⟨w, cur, seed, rnd, dr, r, rfl, hr, h.symm⟩))
  | aspect fn lv seed w rnd =>
    intro h
    obtain ⟨r, hr, h⟩ := bind_eq_ok.mp h
    simp only [pure, Except.pure, Except.ok.injEq] at h
    exact Or.inr (Or.inr (Or.inr (Or.inl ⟨fn, lv, seed, w, rnd, r, rfl, hr, h.symm⟩)))
  | satisf fn lv seed cur rnd =>
    intro h
    obtain ⟨r, hr, h⟩ := bind_eq_ok.mp h
    simp only [pure, Except.pure, Except.ok.injEq] at h
    exact Or.inr (Or.inr (Or.inr (Or.inr ⟨fn, lv, seed, cur, rnd, r, rfl, hr, h.symm⟩)))

/-! ### the three utility methods -/

/-- `model.Rank` + `Ranking()`: every considered alternative is scored with the method's value, in order, and
    the result is `ranking` of these scores -/
theorem e2e_utilityEvaluate_ok {d : DMP α} {r : List (RankEntry α)} (h : utilityEvaluate d = .ok r) :
    ∃ scored : List (Scored α),
      scored.length = d.co.length ∧
      (∀ p ∈ d.co.zip scored, p.2.id = p.1.id ∧ utilityValueOf d.mp p.1 = .ok p.2.v) ∧
      scored.map (·.id) = d.co.map (·.id) ∧ r = ranking scored := by
  unfold utilityEvaluate at h
  obtain ⟨scored, hs, h⟩ := bind_eq_ok.mp h
  simp only [pure, Except.pure, Except.ok.injEq] at h
  obtain ⟨hl, hp⟩ := mapM_ok hs
  have hp' : ∀ p ∈ d.co.zip scored, p.2.id = p.1.id ∧ utilityValueOf d.mp p.1 = .ok p.2.v := by
    intro p hpm
    have := hp p hpm
    obtain ⟨v, hv, this⟩ := bind_eq_ok.mp this
    simp only [pure, Except.pure, Except.ok.injEq] at this
    rw [← this]
    exact ⟨rfl, hv⟩
  refine ⟨scored, hl, hp', ?_, h.symm⟩
  apply List.ext_getElem (by simp [hl])
  intro i h1 h2
  simp only [List.getElem_map]
  have hi : i < d.co.length := by simpa using h2
  have hi' : i < scored.length := by simpa using h1
  have hz : (d.co[i], scored[i]) ∈ d.co.zip scored := by
    rw [List.mem_iff_getElem]; exact ⟨i, by simp only [List.length_zip]; omega, by simp⟩
  exact (hp' _ hz).1

theorem e2e_ranking_wf (hirr : ∀ x : α, ¬ x < x) (l : List (Scored α)) (hnd : (l.map (·.id)).Nodup) :
    (((ranking l).map fun e => (⟨e.id, Eval.util e.v, e.links⟩ : Linked (Eval α))).map (·.id)).Perm (l.map (·.id)) ∧
    ∀ e ∈ (ranking l).map fun e => (⟨e.id, Eval.util e.v, e.links⟩ : Linked (Eval α)),
      (∀ x ∈ e.links, x ∈ ((ranking l).map fun e => (⟨e.id, Eval.util e.v, e.links⟩ : Linked (Eval α))).map (·.id)) ∧
        e.id ∉ e.links ∧ e.links.Nodup := by
  have hids : ((ranking l).map fun e => (⟨e.id, Eval.util e.v, e.links⟩ : Linked (Eval α))).map (·.id)
      = (ranking l).map (·.id) := by simp [Function.comp_def]
  have hperm : ((ranking l).map (·.id)).Perm (l.map (·.id)) := by
    rw [ranking_eq, entriesOf_ids]; exact sorted_ids_perm l
  refine ⟨by rw [hids]; exact hperm, ?_⟩
  intro e he
  obtain ⟨r, hr, rfl⟩ := List.mem_map.mp he
  rw [hids]
  rw [ranking_eq] at hr ⊢
  exact entriesOf_wellformed hirr _ ((sorted_ids_perm l).nodup_iff.mpr hnd) r hr

theorem e2e_utility_wf (hirr : ∀ x : α, ¬ x < x) {d : DMP α} {r : List (RankEntry α)}
    (h : utilityEvaluate d = .ok r) (hnd : (d.co.map (·.id)).Nodup) :
    E2EWf (d.co.map (·.id)) (r.map fun e => (⟨e.id, Eval.util e.v, e.links⟩ : Linked (Eval α))) := by
  obtain ⟨scored, _, _, hids, rfl⟩ := e2e_utilityEvaluate_ok h
  rw [← hids] at hnd ⊢
  exact e2e_ranking_wf hirr scored hnd

/-! ### ELECTRE III -/

theorem e2e_rankDescending_length (m : Matrix α) (s : LinFun α) (ps : List Int)
    (h : rankDescending m s = .ok ps) : ps.length = m.size := by
  unfold rankDescending at h
  obtain ⟨r, hr, h⟩ := bind_eq_ok.mp h
  obtain ⟨mx, _, h⟩ := bind_eq_ok.mp h
  simp only [pure, Except.pure, Except.ok.injEq] at h
  subst h
  simp [rank_length m s _ r hr]

theorem e2e_electre_wf {alts : List (Alt α)} {crits : List (Crit α)} {ec : KMap (ECrit α)} {dist : LinFun α}
    {r : List (Linked (Int × Int))} (h : electreIII alts crits ec dist = .ok r)
    (hnd : (alts.map (·.id)).Nodup) : E2EWf (alts.map (·.id)) r := by
  unfold electreIII at h
  obtain ⟨m, hm, h⟩ := bind_eq_ok.mp h
  obtain ⟨asc, hasc, h⟩ := bind_eq_ok.mp h
  obtain ⟨desc, hdesc, h⟩ := bind_eq_ok.mp h
  simp only [pure, Except.pure, Except.ok.injEq] at h
  subst h
  have hsz : m.size = alts.length := credibilityMatrix_size alts crits ec m hm
  have ha : asc.length = (alts.map (·.id)).length := by
    rw [List.length_map, ← hsz]; exact rank_length m dist _ asc hasc
  have hd : desc.length = (alts.map (·.id)).length := by
    rw [List.length_map, ← hsz]; exact e2e_rankDescending_length m dist desc hdesc
  have hids := evaluateRanking_ids asc desc (alts.map (·.id)) ha hd
  refine ⟨by rw [hids], ?_⟩
  intro e he
  rw [hids]
  exact evaluateRanking_wellformed asc desc _ ha hd hnd e he

/-! ### the search order of the majority and satisfaction heuristics -/

/-- ids of the search order: a permutation of the alternatives to rank -/
theorem e2e_searchOrder_ids {d : DMP α} {cur : String} {rnd : Bool} {ds ds' : Draws α} {first : Alt α}
    {rest : List (Alt α)}
    (h : searchOrder d cur rnd ds = .ok ((first, rest), ds')) :
    ((first :: rest).map (·.id)).Perm (e2eExpected (d.co.map (·.id)) cur) := by
  by_cases hc : cur = ""
  · subst hc
    rw [e2eExpected_no_current]
    exact (searchOrder_without_current d rnd ds ds' first rest h).map _
  · obtain ⟨hid, _, hperm⟩ := searchOrder_with_current d cur rnd ds ds' first rest hc h
    have hp : (rest.map (·.id)).Perm ((d.co.map (·.id)).erase cur) := by
      rw [← removeAlt_ids]; exact hperm.map _
    simp only [List.map_cons, hid]
    by_cases hm : cur ∈ d.co.map (·.id)
    · rw [e2eExpected_of_mem _ _ hm]
      exact (hp.cons cur).trans (List.perm_cons_erase hm).symm
    · rw [e2eExpected_of_not_mem _ _ hc hm]
      rw [List.erase_of_not_mem hm] at hp
      exact hp.cons cur

/-! ### majority heuristic -/

theorem e2e_majority_wf {d : DMP α} {ds : Draws α} {w : KMap α} {cur : String} {seed : Int} {rnd : Bool}
    {dr : String} {out : List (Linked (MajEval α))} (hmp : d.mp = .majority w cur seed rnd dr)
    (h : majorityEvaluate d ds = .ok out) (hnd : (d.co.map (·.id)).Nodup) :
    E2EWf (e2eExpected (d.co.map (·.id)) cur) out := by
  unfold majorityEvaluate at h
  rw [hmp] at h
  dsimp only at h
  obtain ⟨wc, _, h⟩ := R.bind_eq_ok h
  obtain ⟨⟨⟨first, rest⟩, ds'⟩, hso, h⟩ := R.bind_eq_ok h
  obtain ⟨pol, _, h⟩ := R.bind_eq_ok h
  unfold majorityTournament at h
  obtain ⟨⟨⟨st, ev⟩, d'⟩, hf, h⟩ := R.bind_eq_ok h
  simp only [R.pure_eq, Except.ok.injEq] at h
  subst h
  have hso_ids := e2e_searchOrder_ids hso
  have hfl : (majorityGroups st ev).flatten.map (·.1) = st.ids := by
    simp [majorityGroups, MajState.ids, MajState.entries]
  have hperm : st.ids.Perm ((first :: rest).map (·.id)) := by
    simpa [MajState.ids] using majorityFold_ids hf
  have hndg : ((majorityGroups st ev).flatten.map (·.1)).Nodup := by
    rw [hfl]
    exact (hperm.trans hso_ids).nodup_iff.mpr (e2eExpected_nodup _ _ hnd)
  refine ⟨?_, majorityRanking_wellformed _ hndg⟩
  rw [majorityRanking_ids, hfl]
  exact (List.reverse_perm _).trans (hperm.trans hso_ids)

/-! ### aspect elimination -/

theorem e2e_aspectCore_wf {crits : List (Crit α)} {levels : List (KMap α)} {alts : List (Alt α)}
    {out : List (Linked (AspEval α))} (h : aspectCore crits levels alts = .ok out)
    (hnd : (alts.map (·.id)).Nodup) : E2EWf (alts.map (·.id)) out := by
  unfold aspectCore at h
  obtain ⟨⟨left, elims, si⟩, hc, h⟩ := R.bind_eq_ok h
  simp only [R.pure_eq, Except.ok.injEq] at h
  subst h
  have hperm : ((aspResult left elims si).map (·.1)).Perm (alts.map (·.id)) := by
    unfold aspCheck at hc
    by_cases hl : alts.length ≤ 1
    · simp only [hl, if_true, R.pure_eq, Except.ok.injEq, Prod.mk.injEq] at hc
      obtain ⟨rfl, rfl, rfl⟩ := hc
      simp [aspResult, Function.comp_def]
    · simp only [hl, if_false] at hc
      obtain ⟨p1, _⟩ := aspLevelLoop_spec hnd (by omega) hc
      simp only [aspResult, List.map_append, List.map_map, List.map_reverse]
      have : (List.map (Prod.fst ∘ fun a : Alt α => (a.id, (⟨si, []⟩ : AspEval α))) left) = left.map (·.id) := by
        simp [Function.comp_def]
      rw [this]
      exact (List.perm_append_comm.trans (List.Perm.append_right _ (List.reverse_perm _))).trans p1
  have hids := sequentialRanking_ids (aspResult left elims si)
  refine ⟨by rw [hids]; exact hperm, ?_⟩
  intro e he
  rw [hids]
  exact sequentialRanking_wellformed _ (hperm.nodup_iff.mpr hnd) e he

theorem e2e_aspect_wf {d : DMP α} {ds : Draws α} {levels : R (List (KMap α))}
    {o : List (WCrit α) → List (WCrit α)} {out : List (Linked (AspEval α))}
    (h : aspectEvaluateWith d ds levels o = .ok out) (hnd : (d.co.map (·.id)).Nodup) :
    E2EWf (d.co.map (·.id)) out := by
  unfold aspectEvaluateWith at h
  split at h
  · obtain ⟨lv, _, h⟩ := R.bind_eq_ok h
    obtain ⟨⟨alts, ds'⟩, halts, h⟩ := R.bind_eq_ok h
    obtain ⟨wc, _, h⟩ := R.bind_eq_ok h
    have hp : (alts.map (·.id)).Perm (d.co.map (·.id)) :=
      (orderAlternatives_perm _ d.co ds alts ds' halts).map _
    exact (e2e_aspectCore_wf h (hp.nodup_iff.mpr hnd)).perm hp
  · simp at h

/-! ### satisfaction heuristic -/

theorem e2e_satisfactionCore_wf {d : DMP α} {levels : List (KMap α)} {order : List (Alt α)}
    {out : List (Linked (SatEval α))} (h : satisfactionCore d levels order = .ok out)
    (hnd : (order.map (·.id)).Nodup) : E2EWf (order.map (·.id)) out := by
  unfold satisfactionCore at h
  obtain ⟨⟨left, acc, si⟩, hl, h⟩ := R.bind_eq_ok h
  obtain ⟨p1, _⟩ := satLevelLoop_spec hnd hl
  have hshape : ∃ rest : List (SatRes α), rest.map (·.1) = left.map (·.id) ∧
      out = sequentialRanking (acc ++ rest) := by
    cases left with
    | nil => simp at h; exact ⟨[], rfl, by rw [← h]; simp⟩
    | cons x xs =>
      simp only [List.isEmpty_cons, Bool.false_eq_true, if_false] at h
      obtain ⟨lowest, _, h⟩ := R.bind_eq_ok h
      simp at h
      exact ⟨_, by simp [Function.comp_def], h.symm⟩
  obtain ⟨rest, hr, rfl⟩ := hshape
  have hperm : ((acc ++ rest).map (·.1)).Perm (order.map (·.id)) := by
    rw [List.map_append, hr]; exact p1
  have hids := sequentialRanking_ids (acc ++ rest)
  refine ⟨by rw [hids]; exact hperm, ?_⟩
  intro e he
  rw [hids]
  exact sequentialRanking_wellformed _ (hperm.nodup_iff.mpr hnd) e he

theorem e2e_satisfaction_wf {d : DMP α} {ds : Draws α} {fn : String} {lv : Levels α} {seed : Int}
    {cur : String} {rnd : Bool} {out : List (Linked (SatEval α))} (hmp : d.mp = .satisf fn lv seed cur rnd)
    (h : satisfactionEvaluate d ds = .ok out) (hnd : (d.co.map (·.id)).Nodup) :
    E2EWf (e2eExpected (d.co.map (·.id)) cur) out := by
  unfold satisfactionEvaluate satisfactionEvaluateWith at h
  rw [hmp] at h
  dsimp only at h
  obtain ⟨lvl, _, h⟩ := R.bind_eq_ok h
  obtain ⟨⟨⟨first, rest⟩, ds'⟩, hso, h⟩ := R.bind_eq_ok h
  dsimp only at h
  have hp := e2e_searchOrder_ids hso
  exact (e2e_satisfactionCore_wf h (hp.nodup_iff.mpr (e2eExpected_nodup _ _ hnd))).perm hp

/-! ### all seven methods -/

/-- **`Evaluate` returns a complete well-formed ranking**, for each of the seven methods, every criteria order
    of aspect elimination, every stream function: if the considered alternatives of the state have pairwise
    different ids, the result ranks exactly the considered alternatives — plus the heuristic's current choice
    when it is given and not considered — each once, and every entry's links name ranked alternatives only,
    never the entry itself, never twice.  (`hirr`: `<` of the number type is irreflexive — true of `Float`,
    also for NaN, and of `Rat`; only the utility ranking needs it.) -/
theorem e2e_evaluate_wellformed (hirr : ∀ x : α, ¬ x < x) {o : List (WCrit α) → List (WCrit α)}
    {g : Int → Draws α} {d : DMP α} {res : List (Linked (Eval α))} (h : evaluateWith o g d = .ok res)
    (hnd : (d.co.map (·.id)).Nodup) : E2EWf (e2eExpected (d.co.map (·.id)) (e2eCur d.mp)) res := by
  rcases e2e_evaluateWith_cases h with ⟨hu, r, hr, rfl⟩ | ⟨ec, dist, r, hmp, hr, rfl⟩ |
      ⟨w, cur, seed, rnd, dr, r, hmp, hr, rfl⟩ | ⟨fn, lv, seed, w, rnd, r, hmp, hr, rfl⟩ |
      ⟨fn, lv, seed, cur, rnd, r, hmp, hr, rfl⟩
  · have hc : e2eCur d.mp = "" := by
      unfold e2eIsUtility at hu
      unfold e2eCur
      cases hmp : d.mp <;> simp [hmp, e2eTag] at hu ⊢
    rw [hc, e2eExpected_no_current]
    exact e2e_utility_wf hirr hr hnd
  · have hc : e2eCur d.mp = "" := by rw [hmp]; rfl
    rw [hc, e2eExpected_no_current]
    exact (e2e_electre_wf hr hnd).mapEv _
  · have hc : e2eCur d.mp = cur := by rw [hmp]; rfl
    rw [hc]
    exact (e2e_majority_wf hmp hr hnd).mapEv _
  · have hc : e2eCur d.mp = "" := by rw [hmp]; rfl
    rw [hc, e2eExpected_no_current]
    exact (e2e_aspect_wf hr hnd).mapEv _
  · have hc : e2eCur d.mp = cur := by rw [hmp]; rfl
    rw [hc]
    exact (e2e_satisfaction_wf hmp hr hnd).mapEv _

/-- **the whole decision**: whatever biases ran, `MakeDecision` answers with a complete well-formed ranking of
    `choseToMake` (plus the current choice of the request's parameters when given and not among them), provided
    `choseToMake` names pairwise different alternatives -/
theorem e2e_decideWith_wellformed (hirr : ∀ x : α, ¬ x < x) {exp : α → α}
    {o : List (WCrit α) → List (WCrit α)} {req : Request α} {g : Int → Draws α} {resp : Response α}
    (h : decideWith exp o req g = .ok resp) (hnd : req.chosen.Nodup) :
    ∃ mp, req.mp = some mp ∧ E2EWf (e2eExpected req.chosen (e2eCur mp)) resp.result := by
  obtain ⟨hp, he⟩ := e2e_decideWith_ok h
  obtain ⟨mp, _, hmp, _, _, htag, hco, _⟩ := e2e_pipeline_frame hp
  refine ⟨mp, hmp, ?_⟩
  have := e2e_evaluate_wellformed hirr he (by rw [hco]; exact hnd)
  rw [hco] at this
  have hc : e2eCur resp.final.mp = e2eCur mp := by unfold e2eCur; rw [htag]
  rw [← hc]
  exact this

end Rdm
