/-
  Anchoring over exact rationals: the fold of the better-than test (`findBest`) is an arg-max in a
  lexicographic order — first the coefficient-weighted score (`v·κ` for gain, `v/κ` for cost), then the raw
  value.  This gives the tie rule: among anchoring alternatives with the same weighted score, `ideal` takes
  the better raw value and `nadir` the worse raw value.
-/
import Rdm.Lemmas.BiasBAnchorRat
namespace Rdm

/-- lexicographic "at most": by `s`, ties by `t` -/
def lexLe (s t : Rat × Rat → Rat) (a b : Rat × Rat) : Prop := s a < s b ∨ (s a = s b ∧ t a ≤ t b)

theorem lexLe_refl (s t : Rat × Rat → Rat) (a : Rat × Rat) : lexLe s t a a := Or.inr ⟨rfl, le_refl _⟩

theorem lexLe_tie {s t : Rat × Rat → Rat} {a b : Rat × Rat} (h : lexLe s t a b) (he : s a = s b) : t a ≤ t b := by
  rcases h with h | ⟨_, h⟩
  · rw [he] at h; exact absurd h (lt_irrefl _)
  · exact h

theorem lexLe_trans {s t : Rat × Rat → Rat} {a b c : Rat × Rat} (h1 : lexLe s t a b) (h2 : lexLe s t b c) :
    lexLe s t a c := by
  unfold lexLe at *
  rcases h1 with h1 | ⟨h1, h1'⟩ <;> rcases h2 with h2 | ⟨h2, h2'⟩
  · exact Or.inl (lt_trans h1 h2)
  · exact Or.inl (by rw [← h2]; exact h1)
  · exact Or.inl (by rw [h1]; exact h2)
  · exact Or.inr ⟨h1.trans h2, le_trans h1' h2'⟩

theorem lexLe_total (s t : Rat × Rat → Rat) (a b : Rat × Rat) : lexLe s t a b ∨ lexLe s t b a := by
  unfold lexLe
  rcases lt_trichotomy (s a) (s b) with h | h | h
  · exact Or.inl (Or.inl h)
  · rcases le_total (t a) (t b) with h' | h'
    · exact Or.inl (Or.inr ⟨h, h'⟩)
    · exact Or.inr (Or.inr ⟨h.symm, h'⟩)
  · exact Or.inr (Or.inl h)

/-- strict reversal: `¬ a ≤ b` in the order `(s, t)` gives `a ≤ b` in the order `(−s, −t)` -/
theorem lexLe_neg_of_not {s t : Rat × Rat → Rat} {a b : Rat × Rat} (h : ¬ lexLe s t a b) :
    lexLe (fun x => -s x) (fun x => -t x) a b := by
  unfold lexLe at *
  rw [not_or, not_and] at h
  obtain ⟨h1, h2⟩ := h
  rcases lt_trichotomy (s a) (s b) with h | h | h
  · exact absurd h h1
  · have := h2 h
    exact Or.inr ⟨by simp only; rw [h], by simp only; linarith⟩
  · exact Or.inl (by simp only; linarith)

theorem lexLe_neg_of_le {s t : Rat × Rat → Rat} {a b : Rat × Rat} (h : lexLe s t a b) :
    lexLe (fun x => -s x) (fun x => -t x) b a := by
  unfold lexLe at *
  rcases h with h | ⟨h, h'⟩
  · exact Or.inl (by simp only; linarith)
  · exact Or.inr ⟨by simp only; rw [h], by simp only; linarith⟩

/-- like `bestFold_maximises`, for a reflexive transitive relation instead of a score -/
theorem bestFold_maximises_rel (pred : Crit Rat → Rat × Rat → Rat × Rat → Bool) (c : Crit Rat)
    (le : Rat × Rat → Rat × Rat → Prop) (hrefl : ∀ a, le a a) (htrans : ∀ a b d, le a b → le b d → le a d)
    (hp1 : ∀ a b : Rat × Rat, 0 < a.2 → 0 < b.2 → pred c a b = true → le a b)
    (hp2 : ∀ a b : Rat × Rat, 0 < a.2 → 0 < b.2 → pred c a b = false → le b a) :
    ∀ (l : List (Rat × Rat)) (init : Rat × Rat), (∀ x ∈ init :: l, 0 < x.2) →
      ∀ x ∈ init :: l, le x (bestFold pred c init l) := by
  intro l
  induction l with
  | nil => intro init _ x hx; simp at hx; subst hx; simpa [bestFold] using hrefl _
  | cons y ys ih =>
    intro init hpos x hx
    have hi : 0 < init.2 := hpos init (by simp)
    have hy : 0 < y.2 := hpos y (by simp)
    have hfold : bestFold pred c init (y :: ys) = bestFold pred c (if pred c init y then y else init) ys := by
      simp [bestFold]
    rw [hfold]
    by_cases hp : pred c init y = true
    · simp only [hp, if_true]
      have hpos' : ∀ z ∈ y :: ys, 0 < z.2 := fun z hz => hpos z (List.mem_cons_of_mem _ hz)
      have hmax := ih y hpos'
      simp only [List.mem_cons] at hx
      rcases hx with rfl | rfl | hx
      · exact htrans _ _ _ (hp1 _ _ hi hy hp) (hmax y (by simp))
      · exact hmax _ (by simp)
      · exact hmax x (List.mem_cons_of_mem _ hx)
    · have hp' : pred c init y = false := by simpa using hp
      simp only [hp', Bool.false_eq_true, if_false]
      have hpos' : ∀ z ∈ init :: ys, 0 < z.2 := by
        intro z hz
        simp only [List.mem_cons] at hz
        rcases hz with rfl | hz
        · exact hi
        · exact hpos z (by simp [hz])
      have hmax := ih init hpos'
      simp only [List.mem_cons] at hx
      rcases hx with rfl | rfl | hx
      · exact hmax _ (by simp)
      · exact htrans _ _ _ (hp2 _ _ hi hy hp') (hmax init (by simp))
      · exact hmax x (List.mem_cons_of_mem _ hx)

/-- gain criterion: `isBetter a b` ("b at least as good as a") is the lexicographic order by `v·κ`, then `v` -/
theorem isBetter_gain_iff {c : Crit Rat} (hc : c.isGain = true) (a b : Rat × Rat) :
    isBetter c a b = true ↔ lexLe (fun x => x.1 * x.2) (fun x => x.1) a b := by
  unfold isBetter lexLe
  simp only [hc, if_true]
  split
  · rename_i heq
    have heq' : a.1 * a.2 = b.1 * b.2 := by simpa using heq
    simp only [decide_eq_true_eq]
    constructor
    · intro h; exact Or.inr ⟨heq', h⟩
    · rintro (h | ⟨_, h⟩)
      · rw [heq'] at h; exact absurd h (lt_irrefl _)
      · exact h
  · rename_i hne
    have hne' : a.1 * a.2 ≠ b.1 * b.2 := by simpa using hne
    simp only [decide_eq_true_eq]
    constructor
    · intro h; exact Or.inl h
    · rintro (h | ⟨h, _⟩)
      · exact h
      · exact absurd h hne'

theorem div_lt_div_cross (a b c d : Rat) (hb : 0 < b) (hd : 0 < d) : a / b < c / d ↔ a * d < c * b := by
  rw [div_lt_iff₀ hb, div_mul_eq_mul_div, lt_div_iff₀ hd]

/-- cost criterion, positive coefficients: `isBetter a b` is the lexicographic order by `−v/κ`, then `−v` -/
theorem isBetter_cost_iff {c : Crit Rat} (hc : c.isGain = false) (a b : Rat × Rat) (ha : 0 < a.2) (hb : 0 < b.2) :
    isBetter c a b = true ↔ lexLe (fun x => -(x.1 / x.2)) (fun x => -x.1) a b := by
  unfold isBetter lexLe
  simp only [hc, Bool.false_eq_true, if_false, neg_lt_neg_iff, neg_inj, neg_le_neg_iff]
  rw [div_lt_div_cross _ _ _ _ hb ha, div_eq_div_iff (ne_of_gt ha) (ne_of_gt hb)]
  split
  · rename_i heq
    have heq' : a.1 * b.2 = b.1 * a.2 := by simpa using heq
    simp only [decide_eq_true_eq]
    constructor
    · intro h; exact Or.inr ⟨heq', h⟩
    · rintro (h | ⟨_, h⟩)
      · rw [heq'] at h; exact absurd h (lt_irrefl _)
      · exact h
  · rename_i hne
    have hne' : a.1 * b.2 ≠ b.1 * a.2 := by simpa using hne
    simp only [decide_eq_true_eq]
    constructor
    · intro h; exact Or.inl h
    · rintro (h | ⟨h, _⟩)
      · exact h
      · exact absurd h hne'

theorem not_true_of_false {b : Bool} (h : b = false) : ¬ b = true := by simp [h]

/-- `ideal`, gain: the fold ends with a lexicographic maximum of (`v·κ`, `v`) -/
theorem bestFold_ideal_gain_lex (c : Crit Rat) (hc : c.isGain = true) (l : List (Rat × Rat)) (init : Rat × Rat)
    (hpos : ∀ x ∈ init :: l, 0 < x.2) :
    ∀ x ∈ init :: l, lexLe (fun x => x.1 * x.2) (fun x => x.1) x (bestFold idealPred c init l) := by
  refine bestFold_maximises_rel idealPred c _ (lexLe_refl _ _) (fun _ _ _ => lexLe_trans) ?_ ?_ l init hpos
  · intro a b ha hb h
    unfold idealPred at h
    rw [canNewBeBetter_pos a b ha hb, Bool.true_and] at h
    exact (isBetter_gain_iff hc a b).mp h
  · intro a b ha hb h
    unfold idealPred at h
    rw [canNewBeBetter_pos a b ha hb, Bool.true_and] at h
    have hn : ¬ lexLe (fun x => x.1 * x.2) (fun x => x.1) a b := fun h' =>
      not_true_of_false h ((isBetter_gain_iff hc a b).mpr h')
    exact (lexLe_total _ _ a b).resolve_left hn

/-- `nadir`, gain: the fold ends with a lexicographic minimum of (`v·κ`, `v`) -/
theorem bestFold_nadir_gain_lex (c : Crit Rat) (hc : c.isGain = true) (l : List (Rat × Rat)) (init : Rat × Rat)
    (hpos : ∀ x ∈ init :: l, 0 < x.2) :
    ∀ x ∈ init :: l, lexLe (fun x => -(x.1 * x.2)) (fun x => -x.1) x (bestFold nadirPred c init l) := by
  refine bestFold_maximises_rel nadirPred c _ (lexLe_refl _ _) (fun _ _ _ => lexLe_trans) ?_ ?_ l init hpos
  · intro a b ha hb h
    unfold nadirPred at h
    rw [canNewBeBetter_pos a b ha hb, Bool.true_and] at h
    have hf : isBetter c a b = false := by simpa using h
    have hn : ¬ lexLe (fun x => x.1 * x.2) (fun x => x.1) a b := fun h' =>
      not_true_of_false hf ((isBetter_gain_iff hc a b).mpr h')
    exact lexLe_neg_of_not hn
  · intro a b ha hb h
    unfold nadirPred at h
    rw [canNewBeBetter_pos a b ha hb, Bool.true_and] at h
    have ht : isBetter c a b = true := by simpa using h
    exact lexLe_neg_of_le ((isBetter_gain_iff hc a b).mp ht)

/-- `ideal`, cost: the fold ends with a lexicographic maximum of (`−v/κ`, `−v`) -/
theorem bestFold_ideal_cost_lex (c : Crit Rat) (hc : c.isGain = false) (l : List (Rat × Rat)) (init : Rat × Rat)
    (hpos : ∀ x ∈ init :: l, 0 < x.2) :
    ∀ x ∈ init :: l, lexLe (fun x => -(x.1 / x.2)) (fun x => -x.1) x (bestFold idealPred c init l) := by
  refine bestFold_maximises_rel idealPred c _ (lexLe_refl _ _) (fun _ _ _ => lexLe_trans) ?_ ?_ l init hpos
  · intro a b ha hb h
    unfold idealPred at h
    rw [canNewBeBetter_pos a b ha hb, Bool.true_and] at h
    exact (isBetter_cost_iff hc a b ha hb).mp h
  · intro a b ha hb h
    unfold idealPred at h
    rw [canNewBeBetter_pos a b ha hb, Bool.true_and] at h
    have hn : ¬ lexLe (fun x => -(x.1 / x.2)) (fun x => -x.1) a b := fun h' =>
      not_true_of_false h ((isBetter_cost_iff hc a b ha hb).mpr h')
    exact (lexLe_total _ _ a b).resolve_left hn

/-- `nadir`, cost: the fold ends with a lexicographic maximum of (`v/κ`, `v`) -/
theorem bestFold_nadir_cost_lex (c : Crit Rat) (hc : c.isGain = false) (l : List (Rat × Rat)) (init : Rat × Rat)
    (hpos : ∀ x ∈ init :: l, 0 < x.2) :
    ∀ x ∈ init :: l, lexLe (fun x => x.1 / x.2) (fun x => x.1) x (bestFold nadirPred c init l) := by
  have key := bestFold_maximises_rel nadirPred c
    (lexLe (fun x => - -(x.1 / x.2)) (fun x => - -x.1)) (lexLe_refl _ _) (fun _ _ _ => lexLe_trans) ?_ ?_ l init hpos
  · intro x hx
    have := key x hx
    simpa [lexLe] using this
  · intro a b ha hb h
    unfold nadirPred at h
    rw [canNewBeBetter_pos a b ha hb, Bool.true_and] at h
    have hf : isBetter c a b = false := by simpa using h
    have hn : ¬ lexLe (fun x => -(x.1 / x.2)) (fun x => -x.1) a b := fun h' =>
      not_true_of_false hf ((isBetter_cost_iff hc a b ha hb).mpr h')
    exact lexLe_neg_of_not hn
  · intro a b ha hb h
    unfold nadirPred at h
    rw [canNewBeBetter_pos a b ha hb, Bool.true_and] at h
    have ht : isBetter c a b = true := by simpa using h
    exact lexLe_neg_of_le ((isBetter_cost_iff hc a b ha hb).mp ht)

end Rdm
