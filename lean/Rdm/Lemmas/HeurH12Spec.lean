/-
  Lemmas for C12 (aspect elimination), third part: the bridge between the model over `Rat` and the
  decidable checker `Spec.C12.explainWith` / `Spec.C12.check` — one lemma per clause of the checker
  and the assembly `heurH12_explainWith_ok`.
-/
import Rdm.Lemmas.HeurH12
import Rdm.Lemmas.HeurLinks
import Rdm.Lemmas.NumRat
import Rdm.Spec.C12
import Mathlib.Data.List.Perm.Basic
import Mathlib.Tactic.Linarith
set_option linter.unusedSectionVars false
set_option linter.unusedSimpArgs false
set_option linter.unusedVariables false
namespace Rdm
open Spec.C12

/-! ### "worse than the threshold": model vs checker -/

/-- when the level has a threshold for the criterion, the checker's `below` (gain: `v < t`, cost:
    `t < v`) agrees with the model's signed comparison `v·m < t·m`; a model comparison that did not
    throw had its value -/
theorem heurH12_below_of_model {a : Alt Rat} {t : KMap Rat} {c : Crit Rat} {b : Bool}
    (h : isBelowThreshold a t c = Except.ok b) (ht : (t.get? c.id).isSome) :
    Spec.C12.below a t c = some b := by
  unfold isBelowThreshold Alt.signed Alt.raw at h
  unfold Spec.C12.below
  obtain ⟨th, hth⟩ := Option.isSome_iff_exists.mp ht
  cases hv : a.vals.get? c.id with
  | none => rw [hv] at h; simp at h
  | some v =>
    rw [hv] at h
    simp only [R.pure_eq, R.bind_ok, levelValue, hth, Option.getD_some, Except.ok.injEq] at h
    subst h
    simp only [Option.bind_eq_bind, Option.pure_def, Crit.mult, hv, hth, Option.bind_some]
    by_cases hc : c.type = "cost"
    · simp [hc, hth]
    · simp [hc, hth]


/-! ### clauses of the checker -/

theorem heurH12_passesBefore {a : Alt Rat} {levels : List (KMap Rat)} {order : List (Crit Rat)} {l k : Nat}
    {incl : Bool}
    (h : ∀ li t ki c, levels[li]? = some t → order[ki]? = some c →
      (li < l ∨ (li = l ∧ (ki < k ∨ (incl = true ∧ ki = k)))) → Spec.C12.below a t c = some false) :
    Spec.C12.passesBefore a levels order l k incl = true := by
  unfold Spec.C12.passesBefore
  rw [List.all_eq_true]
  rintro ⟨t, li⟩ hl
  rw [List.all_eq_true]
  rintro ⟨c, ki⟩ hc
  have hl' := List.mem_zipIdx_iff_getElem?.mp hl
  have hc' := List.mem_zipIdx_iff_getElem?.mp hc
  simp only at hl' hc' ⊢
  split
  · rename_i hcond
    rw [h li t ki c hl' hc' (by simpa using hcond)]
    rfl
  · rfl

theorem heurH12_passesAll {a : Alt Rat} {levels : List (KMap Rat)} {order : List (Crit Rat)}
    (h : ∀ t ∈ levels, ∀ c ∈ order, Spec.C12.below a t c = some false) :
    Spec.C12.passesAll a levels order = true := by
  unfold Spec.C12.passesAll
  rw [List.all_eq_true]
  intro t ht
  rw [List.all_eq_true]
  intro c hc
  rw [h t ht c hc]; rfl

theorem heurH12_sequentialLinks : ∀ (l : List (String × AspEval Rat)),
    Spec.C12.sequentialLinks (sequentialRanking l) = true
  | [] => rfl
  | [(_, _)] => rfl
  | (i, e) :: (j, f) :: rest => by
    have ih := heurH12_sequentialLinks ((j, f) :: rest)
    cases rest with
    | nil => simp [sequentialRanking, Spec.C12.sequentialLinks]
    | cons r rs =>
      obtain ⟨k, g⟩ := r
      simp only [sequentialRanking] at ih ⊢
      simp only [Spec.C12.sequentialLinks] at ih ⊢
      simp [ih]

theorem heurH12_isPermIds {a b : List String} (h : a.Perm b) : Spec.C12.isPermIds a b = true := by
  unfold Spec.C12.isPermIds
  simp only [Bool.and_eq_true, beq_iff_eq, List.all_eq_true, List.contains_iff_mem]
  exact ⟨⟨h.length_eq, fun x hx => h.subset hx⟩, fun x hx => h.symm.subset hx⟩

theorem heurH12_strictlyIncreasing : ∀ {l : List (Nat × Nat × Nat)},
    l.Pairwise (fun a b => Spec.C12.lexLt a b = true) → Spec.C12.strictlyIncreasing l = true
  | [], _ => rfl
  | [_], _ => rfl
  | a :: b :: rest, h => by
    have h' := List.pairwise_cons.mp h
    simp only [Spec.C12.strictlyIncreasing, Bool.and_eq_true]
    exact ⟨h'.1 b (by simp), heurH12_strictlyIncreasing h'.2⟩

theorem heurH12_firstBad {l : List String} (h : ∀ s ∈ l, s = "ok") : Spec.C12.firstBad l = "ok" := by
  unfold Spec.C12.firstBad
  have : l.find? (· != "ok") = none := by
    rw [List.find?_eq_none]
    intro x hx
    simp [h x hx]
  rw [this]; rfl

theorem heurH12_takeWhile_append {β : Type} (p : β → Bool) : ∀ (s e : List β), (∀ x ∈ s, p x = true) →
    (∀ x ∈ e, p x = false) → (s ++ e).takeWhile p = s ∧ (s ++ e).dropWhile p = e
  | [], [], _, _ => by simp
  | [], x :: e, _, he => by
    have := he x (by simp)
    simp [List.takeWhile_cons, List.dropWhile_cons, this]
  | x :: s, e, hs, he => by
    have hx := hs x (by simp)
    obtain ⟨i1, i2⟩ := heurH12_takeWhile_append p s e (fun y hy => hs y (by simp [hy])) he
    simp [List.takeWhile_cons, List.dropWhile_cons, hx, i1, i2]

/-- the key (level, rank of the reported criterion, position of the alternative) of a record -/
def heurH12_key (alts : List (Alt Rat)) (crits : List (Crit Rat)) (p : AspRes Rat) : Nat × Nat × Nat :=
  (p.2.idx, critRank crits p, idxOfStr (alts.map (·.id)) p.1)

theorem heurH12_keyOf {alts : List (Alt Rat)} {crits : List (Crit Rat)} {e : Entry} {c : Crit Rat} {v : Rat}
    (hc : c ∈ crits) (hthr : e.ev.thr = [(c.id, v)]) :
    keyOf alts crits e = some (heurH12_key alts crits (e.id, e.ev)) := by
  have hlt : (crits.map (·.id)).findIdx (· == c.id) < crits.length := by
    have := List.findIdx_lt_length_of_exists (p := (· == c.id)) (xs := crits.map (·.id))
      ⟨c.id, List.mem_map.mpr ⟨c, hc, rfl⟩, by simp⟩
    simpa using this
  simp only [keyOf, hthr, idxOfStr, heurH12_key, critRank, reportedCrit, idxOf, List.head?_cons, Option.map_some,
    Option.getD_some, hlt, if_true]

theorem heurH12_keys_pairwise {crits : List (Crit Rat)} {alts : List (Alt Rat)} {elims : List (AspRes Rat)}
    (hnd : (alts.map (·.id)).Nodup)
    (o1 : (elims.map (·.2.idx)).Pairwise (· ≤ ·))
    (o3 : ∀ ℓ, ((elims.filter (fun p => p.2.idx == ℓ)).map (critRank crits)).Pairwise (· ≤ ·))
    (o4 : ∀ ℓ k, ((elims.filter (fun p => p.2.idx == ℓ && critRank crits p == k)).map (·.1)).Sublist (alts.map (·.id))) :
    (elims.map (heurH12_key alts crits)).Pairwise (fun a b => lexLt a b = true) := by
  rw [List.pairwise_map, List.pairwise_iff_forall_sublist]
  intro p q hs
  have h1 : p.2.idx ≤ q.2.idx := List.pairwise_iff_forall_sublist.mp (List.pairwise_map.mp o1) hs
  simp only [lexLt, heurH12_key, Bool.or_eq_true, Bool.and_eq_true, decide_eq_true_eq, beq_iff_eq]
  by_cases h1' : p.2.idx < q.2.idx
  · left; exact decide_eq_true h1'
  · right
    have he : q.2.idx = p.2.idx := by omega
    refine ⟨he.symm, ?_⟩
    have hs2 : [p, q].Sublist (elims.filter (fun x => x.2.idx == p.2.idx)) := by
      have := hs.filter (fun x => x.2.idx == p.2.idx)
      simpa [he] using this
    have h2 : critRank crits p ≤ critRank crits q :=
      List.pairwise_iff_forall_sublist.mp (List.pairwise_map.mp (o3 p.2.idx)) hs2
    by_cases h2' : critRank crits p < critRank crits q
    · left; exact decide_eq_true h2'
    · right
      have hk : critRank crits q = critRank crits p := by omega
      refine ⟨hk.symm, ?_⟩
      have hs3 : [p, q].Sublist (elims.filter (fun x => x.2.idx == p.2.idx && critRank crits x == critRank crits p)) := by
        have := hs.filter (fun x => x.2.idx == p.2.idx && critRank crits x == critRank crits p)
        simpa [he, hk] using this
      have hs4 : [p.1, q.1].Sublist (alts.map (·.id)) := by
        have := (hs3.map (·.1)).trans (o4 p.2.idx (critRank crits p))
        simpa using this
      exact decide_eq_true (heurH12_findIdx_lt_of_sublist hs4 hnd)

theorem heurH12_spos {ids l : List String} (hs : l.Sublist ids) (hnd : ids.Nodup) :
    strictlyIncreasing (l.map fun x => (0, 0, idxOfStr ids x)) = true := by
  apply heurH12_strictlyIncreasing
  rw [List.pairwise_map, List.pairwise_iff_forall_sublist]
  intro x y hxy
  have := heurH12_findIdx_lt_of_sublist (hxy.trans hs) hnd
  simp [lexLt, idxOfStr, this]

theorem heurH12_eliminatedOk {alts : List (Alt Rat)} {levels : List (KMap Rat)} {crits : List (Crit Rat)}
    {e : Entry} {a : Alt Rat} {t : KMap Rat} {pre post : List (Crit Rat)} {c : Crit Rat}
    (hnda : (alts.map (·.id)).Nodup) (hndc : (crits.map (·.id)).Nodup) (ha : a ∈ alts) (hid : a.id = e.id)
    (hlv : levels[e.ev.idx]? = some t) (hsplit : crits = pre ++ c :: post)
    (hthr : e.ev.thr = [(c.id, levelValue t c.id)]) (hthp : (t.get? c.id).isSome)
    (hbelow : below a t c = some true)
    (hpass : passesBefore a levels crits e.ev.idx pre.length false = true) :
    eliminatedOk alts levels crits e = "ok" := by
  have hc : c ∈ crits := by rw [hsplit]; simp
  have hk : critRank crits (e.id, e.ev) = pre.length := by
    simp only [critRank, reportedCrit, hthr, idxOf, List.head?_cons, Option.map_some, Option.getD_some]
    subst hsplit
    exact heurH12_findIdx_split (·.id) pre c post hndc
  have hfind : alts.find? (fun x => x.id == e.id) = some a := by
    rw [← hid]; exact heurH12_find_of_mem hnda ha
  have hck : crits[pre.length]? = some c := by subst hsplit; simp
  obtain ⟨th, hth⟩ := Option.isSome_iff_exists.mp hthp
  have hlvv : levelValue t c.id = th := by simp [levelValue, hth]
  unfold eliminatedOk
  rw [heurH12_keyOf hc hthr, hfind]
  simp only [heurH12_key, hk, hlv, hck, hthr, hth, hlvv, hbelow, hpass]
  simp


/-! ### the assembly -/
theorem heurH12_explainWith_ok {alts : List (Alt Rat)} {levels : List (KMap Rat)} {order : List (Crit Rat)}
    {oS oE : List Entry}
    (hnd : (alts.map (·.id)).Nodup)
    (hperm : isPermIds ((oS ++ oE).map (·.id)) (alts.map (·.id)) = true)
    (hlinks : sequentialLinks (oS ++ oE) = true)
    (hS : ∀ e ∈ oS, e.ev.thr.isEmpty = true) (hE : ∀ e ∈ oE, e.ev.thr.isEmpty = false)
    (key : Entry → Nat × Nat × Nat)
    (hkey : ∀ e ∈ oE, keyOf alts order e = some (key e))
    (hinc : strictlyIncreasing (oE.reverse.map key) = true)
    (hok : ∀ e ∈ oE, eliminatedOk alts levels order e = "ok")
    (hspos : strictlyIncreasing (oS.map fun e => (0, 0, idxOfStr (alts.map (·.id)) e.id)) = true)
    (hne : alts ≠ [] → oS ≠ [])
    (h1 : alts.length = 1 → ∀ s ∈ oS, s.ev.idx = 0)
    (hsingle : ∀ s, oS = [s] → 2 ≤ alts.length → ∃ l k p a, (oE.reverse.map key).getLast? = some (l, k, p) ∧
      alts.find? (·.id == s.id) = some a ∧ s.ev.idx = l + 1 ∧
      passesBefore a levels order l k (decide (idxOfStr (alts.map (·.id)) s.id < p)) = true)
    (hmany : 2 ≤ oS.length → ∀ s ∈ oS, s.ev.idx = levels.length ∧
      ∃ a, alts.find? (·.id == s.id) = some a ∧ passesAll a levels order = true) :
    explainWith alts levels order (oS ++ oE) = "ok" := by
  obtain ⟨htake, hdrop⟩ := heurH12_takeWhile_append (fun e : Entry => e.ev.thr.isEmpty) oS oE hS hE
  have hkeys : oE.reverse.filterMap (keyOf alts order) = oE.reverse.map key := by
    rw [← List.filterMap_eq_map]
    apply List.filterMap_congr
    intro e he
    exact hkey e (List.mem_reverse.mp he)
  have hany : oE.any (fun e => e.ev.thr.isEmpty) = false := by
    rw [List.any_eq_false]
    intro e he
    simp [hE e he]
  have hbad : firstBad (oE.reverse.map (eliminatedOk alts levels order)) = "ok" := by
    apply heurH12_firstBad
    intro s hs
    obtain ⟨e, he, rfl⟩ := List.mem_map.mp hs
    exact hok e (List.mem_reverse.mp he)
  unfold explainWith
  simp only [htake, hdrop, hkeys, hany, hbad, hnd, hperm, hlinks, hinc, hspos, List.length_map]
  simp only [decide_true, Bool.not_true, Bool.false_eq_true, if_false, bne_self_eq_false]
  by_cases hemp : alts.isEmpty = true
  · simp only [hemp, if_true]
  · simp only [hemp, if_false]
    have hne' : alts ≠ [] := by intro e; simp [e] at hemp
    match oS, hperm, hlinks, hS, hspos, hne, h1, hsingle, hmany, htake, hdrop with
    | [], hperm, hlinks, hS, hspos, hne, h1, hsingle, hmany, htake, hdrop => exact absurd rfl (hne hne')
    | [s], hperm, hlinks, hS, hspos, hne, h1, hsingle, hmany, htake, hdrop =>
      simp only
      by_cases hl1 : alts.length = 1
      · have := h1 hl1 s (by simp)
        simp [hl1, this]
      · have hl2 : 2 ≤ alts.length := by
          cases alts with
          | nil => exact absurd rfl hne'
          | cons x xs => cases xs with
            | nil => simp at hl1
            | cons y ys => simp
        obtain ⟨l, k, p, a, g1, g2, g3, g4⟩ := hsingle s rfl hl2
        have hb : (alts.length == 1) = false := by simpa using hl1
        simp only [hb, Bool.false_eq_true, if_false]
        simp only [g1, g2, g3, g4, bne_self_eq_false, Bool.not_true, Bool.false_eq_true, if_false]
    | s1 :: s2 :: ss, hperm, hlinks, hS, hspos, hne, h1, hsingle, hmany, htake, hdrop =>
      simp only
      have hm := hmany (by simp)
      have a1 : ((s1 :: s2 :: ss).any fun s => s.ev.idx != levels.length) = false := by
        rw [List.any_eq_false]
        intro s hs
        simp [(hm s hs).1]
      simp only [a1, Bool.false_eq_true, if_false]
      split
      · rename_i hh
        rw [List.any_eq_true] at hh
        obtain ⟨s, hs, hh⟩ := hh
        obtain ⟨_, a, f1, f2⟩ := hm s hs
        simp [f1, f2] at hh
      · rfl


/-! ### weight-compatible criteria orders -/

theorem heurH12_mem_insertions {β : Type} (x : β) : ∀ (a b : List β), a ++ x :: b ∈ insertions x (a ++ b)
  | [], b => by cases b <;> simp [insertions]
  | y :: a, b => by
    simp only [List.cons_append, insertions, List.mem_cons, List.mem_map]
    right
    exact ⟨_, heurH12_mem_insertions x a b, rfl⟩

/-- `Spec.C12.perms` lists every permutation -/
theorem heurH12_mem_perms {β : Type} : ∀ {l l' : List β}, l'.Perm l → l' ∈ perms l
  | [], l', h => by simp [perms, h.eq_nil]
  | x :: xs, l', h => by
    have hx : x ∈ l' := h.symm.subset (by simp)
    obtain ⟨a, b, rfl⟩ := List.append_of_mem hx
    have hp : (a ++ b).Perm xs := (List.perm_middle.symm.trans h).cons_inv
    simp only [perms, List.mem_flatMap]
    exact ⟨a ++ b, heurH12_mem_perms hp, heurH12_mem_insertions x a b⟩

theorem heurH12_descending : ∀ {l : List (WCrit Rat)}, l.Pairwise (fun a b => b.w ≤ a.w) → descending l = true
  | [], _ => rfl
  | [_], _ => rfl
  | a :: b :: rest, h => by
    have h' := List.pairwise_cons.mp h
    simp only [descending, Bool.and_eq_true, decide_eq_true_eq]
    exact ⟨h'.1 b (by simp), heurH12_descending h'.2⟩

theorem heurH12_mem_compatibleOrders {wc o : List (WCrit Rat)} (hp : o.Perm wc) (hd : descending o = true) :
    o.map (·.crit) ∈ compatibleOrders wc := by
  unfold compatibleOrders
  exact List.mem_map.mpr ⟨o, List.mem_filter.mpr ⟨heurH12_mem_perms hp, hd⟩, rfl⟩

/-- an output explained by one weight-compatible criteria order passes the checker as the driver calls it -/
theorem heurH12_check_of_compatible {alts : List (Alt Rat)} {wc : List (WCrit Rat)} {levels : List (KMap Rat)}
    {out : List Entry} {o : List (WCrit Rat)} (hp : o.Perm wc) (hd : descending o = true)
    (h : explainWith alts levels (o.map (·.crit)) out = "ok") : check alts wc levels out = true := by
  have hm := heurH12_mem_compatibleOrders hp hd
  unfold check explain
  split
  · rename_i o' ho'
    rw [ho'] at hm
    have : o.map (·.crit) = o' := by simpa using hm
    rw [← this, h]; rfl
  · have hany : ((compatibleOrders wc).any fun o => explainWith alts levels o out == "ok") = true := by
      rw [List.any_eq_true]
      exact ⟨_, hm, by rw [h]; rfl⟩
    rw [hany]; rfl

end Rdm
