/-
  Lemmas for C12 (aspect elimination), second part: what the single survivor of a stopped run passed
  (`heurH12_altLoop_stop` / `heurH12_critLoop_stop` / `heurH12_levelLoop_stop`), and list facts about
  positions (`findIdx`) in duplicate-free lists.  Generic in the number type.
-/
import Rdm.Model.Heuristics
import Rdm.Lemmas.HeurList
import Rdm.Lemmas.HeurAspect
import Mathlib.Data.List.Perm.Basic
set_option linter.unusedSectionVars false
set_option linter.unusedSimpArgs false
set_option linter.unusedVariables false
namespace Rdm
variable {α : Type} [Num α]

/-! ### positions in duplicate-free lists -/

/-- in a duplicate-free list, `x` before `y` (as a sublist) means a smaller first index -/
theorem heurH12_findIdx_lt_of_sublist : ∀ {l : List String} {x y : String}, [x, y].Sublist l → l.Nodup →
    l.findIdx (· == x) < l.findIdx (· == y)
  | [], x, y, h, _ => by simp at h
  | a :: l, x, y, h, hnd => by
    have hnd' := List.nodup_cons.mp hnd
    by_cases hax : a = x
    · subst hax
      have h' : [y].Sublist l := by
        cases h with
        | cons _ h' => exact absurd (h'.subset (by simp)) hnd'.1
        | cons_cons _ h' => exact h'
      have hy : y ∈ l := h'.subset (by simp)
      have hay : (a == y) = false := by
        rw [beq_eq_false_iff_ne]; intro e; exact hnd'.1 (e ▸ hy)
      simp only [List.findIdx_cons, hay, cond_false, beq_self_eq_true, cond_true]
      omega
    · have h' : [x, y].Sublist l := by
        cases h with
        | cons _ h' => exact h'
        | cons_cons _ h' => exact absurd rfl hax
      have hy : y ∈ l := h'.subset (by simp)
      have hax' : (a == x) = false := by
        rw [beq_eq_false_iff_ne]; exact hax
      have hay : (a == y) = false := by
        rw [beq_eq_false_iff_ne]; intro e; exact hnd'.1 (e ▸ hy)
      have ih := heurH12_findIdx_lt_of_sublist h' hnd'.2
      simp only [List.findIdx_cons, hax', hay, cond_false]
      omega

/-- the first index of a member's key in a list with duplicate-free keys is the member's position -/
theorem heurH12_findIdx_split {β : Type} (f : β → String) (pre : List β) (c : β) (post : List β)
    (hnd : ((pre ++ c :: post).map f).Nodup) :
    ((pre ++ c :: post).map f).findIdx (· == f c) = pre.length := by
  induction pre with
  | nil => simp [List.findIdx_cons]
  | cons a pre ih =>
    have hnd' : f a ∉ (pre ++ c :: post).map f ∧ ((pre ++ c :: post).map f).Nodup :=
      List.nodup_cons.mp hnd
    have hne : (f a == f c) = false := by
      rw [beq_eq_false_iff_ne]; intro e
      apply hnd'.1
      rw [e]; simp
    have := ih (by simpa using hnd'.2)
    simp only [List.cons_append, List.map_cons, List.findIdx_cons, hne, cond_false, List.length_cons]
    simp only [List.map_append, List.map_cons] at this
    simp only [List.map_append, List.map_cons]
    omega

/-- looking an alternative up by id in a list with duplicate-free ids finds that alternative -/
theorem heurH12_find_of_mem {l : List (Alt α)} (hnd : (l.map (·.id)).Nodup) {a : Alt α} (ha : a ∈ l) :
    l.find? (fun x => x.id == a.id) = some a := by
  induction l with
  | nil => simp at ha
  | cons x xs ih =>
    have hnd' : x.id ∉ xs.map (·.id) ∧ (xs.map (·.id)).Nodup := List.nodup_cons.mp hnd
    rcases List.mem_cons.mp ha with rfl | ha
    · simp
    · have hne : (x.id == a.id) = false := by
        rw [beq_eq_false_iff_ne]; intro e
        exact hnd'.1 (e ▸ List.mem_map.mpr ⟨a, ha, rfl⟩)
      rw [List.find?_cons, hne]
      exact ih hnd'.2 ha

/-! ### the stop: what the survivor passed -/

/-- innermost loop, stopped: the pass ended at some `b` of `rest = pre_r ++ b :: post_r`, whose
    elimination is the last one recorded; everybody examined before `b` and not eliminated was not
    below the threshold -/
theorem heurH12_altLoop_stop {idx : Nat} {t : KMap α} {c : Crit α} :
    ∀ {rest temp t2 : List (Alt α)} {e : List (AspRes α)}, 2 ≤ temp.length →
      aspAltLoop idx t c rest temp = Except.ok (t2, e, true) →
      ∃ pre_r b post_r, rest = pre_r ++ b :: post_r ∧ e.getLast? = some (b.id, elimReport idx t c) ∧
        ∀ x ∈ pre_r, x.id ∉ e.map (·.1) → NotBelowAt x t c := by
  intro rest
  induction rest with
  | nil => intro temp t2 e _ h; simp [aspAltLoop] at h
  | cons a rest ih =>
    intro temp t2 e hlen h
    obtain ⟨below, hb, hcase⟩ := aspAltLoop_cons_ok h
    cases below with
    | false =>
      simp only [Bool.false_eq_true, if_false, List.nil_append] at hcase
      rcases hcase with ⟨hl, _⟩ | ⟨_, e2, hr, rfl⟩
      · omega
      · obtain ⟨pre_r, b, post_r, hsplit, hlast, hpass⟩ := ih hlen hr
        refine ⟨a :: pre_r, b, post_r, by simp [hsplit], hlast, ?_⟩
        intro x hx hne
        rcases List.mem_cons.mp hx with rfl | hx
        · exact hb
        · exact hpass x hx hne
    | true =>
      simp only [if_true] at hcase
      rcases hcase with ⟨_, _, rfl, _⟩ | ⟨hl, e2, hr, rfl⟩
      · exact ⟨[], a, rest, rfl, rfl, by simp⟩
      · obtain ⟨pre_r, b, post_r, hsplit, hlast, hpass⟩ := ih (by omega) hr
        have hne : e2 ≠ [] := by intro e; simp [e] at hlast
        refine ⟨a :: pre_r, b, post_r, by simp [hsplit], ?_, ?_⟩
        · rw [List.getLast?_append_of_ne_nil _ hne]; exact hlast
        · intro x hx hnm
          rcases List.mem_cons.mp hx with rfl | hx
          · simp at hnm
          · exact hpass x hx (fun hm => hnm (by simp [hm]))

/-- criterion loop, stopped: the stop happened at a criterion `c` (`crits = pre ++ c :: post`) while
    the alternatives `mid = pre_r ++ b :: post_r` were left; `b`'s elimination is the last record;
    whoever is left passed every criterion of `pre`, and `c` too if examined before `b` -/
theorem heurH12_critLoop_stop {idx : Nat} {t : KMap α} :
    ∀ {crits : List (Crit α)} {left l2 : List (Alt α)} {e : List (AspRes α)},
      (left.map (·.id)).Nodup → 2 ≤ left.length →
      aspCritLoop idx t crits left = Except.ok (l2, e, true) →
      ∃ pre c post mid pre_r b post_r, crits = pre ++ c :: post ∧ mid.Sublist left ∧ l2.Sublist mid ∧
        mid = pre_r ++ b :: post_r ∧ e.getLast? = some (b.id, elimReport idx t c) ∧
        (∀ x ∈ l2, ∀ c' ∈ pre, NotBelowAt x t c') ∧ (∀ x ∈ l2, x ∈ pre_r → NotBelowAt x t c) := by
  intro crits
  induction crits with
  | nil => intro left l2 e _ _ h; simp [aspCritLoop] at h
  | cons c cs ih =>
    intro left l2 e hnd hlen h
    obtain ⟨temp, e1, s1, h1, hcase⟩ := aspCritLoop_cons_ok h
    obtain ⟨p1, p2, p3, p4, p5, p6, p7, p8⟩ := aspAltLoop_spec hnd (fun a ha => mem_ids_of_mem ha) hlen h1
    have hndT : (temp.map (·.id)).Nodup := (p2.map _).nodup hnd
    have hndAll : (e1.map (·.1) ++ temp.map (·.id)).Nodup := p1.nodup_iff.mpr hnd
    have hnotin : ∀ a ∈ temp, a.id ∉ e1.map (·.1) := by
      intro a hat hm
      exact (List.nodup_append.mp hndAll).2.2 _ hm _ (mem_ids_of_mem hat) rfl
    rcases hcase with ⟨rfl, rfl, rfl, _⟩ | ⟨rfl, e2, h2, rfl⟩
    · obtain ⟨pre_r, b, post_r, hsplit, hlast, hpass⟩ := heurH12_altLoop_stop hlen h1
      refine ⟨[], c, cs, left, pre_r, b, post_r, rfl, List.Sublist.refl _, p2, hsplit, hlast, by simp, ?_⟩
      intro x hx hxp
      exact hpass x hxp (hnotin x hx)
    · obtain ⟨pre, c', post, mid, pre_r, b, post_r, hsplit, hm1, hm2, hmid, hlast, q1, q2⟩ :=
        ih hndT (p7 rfl) h2
      have hne : e2 ≠ [] := by intro e; simp [e] at hlast
      refine ⟨c :: pre, c', post, mid, pre_r, b, post_r, by simp [hsplit], hm1.trans p2, hm2, hmid, ?_, ?_, q2⟩
      · rw [List.getLast?_append_of_ne_nil _ hne]; exact hlast
      · intro x hx c'' hc''
        rcases List.mem_cons.mp hc'' with rfl | hc''
        · have hxt : x ∈ temp := hm1.subset (hm2.subset hx)
          exact p8 rfl x (p2.subset hxt) (hnotin x hxt)
        · exact q1 x hx c'' hc''

/-- the whole procedure on ≥ 2 alternatives ending with at most one left: the stop happened at level
    `j`, criterion `c`, alternative `b`; whoever is left passed every criterion at every earlier level,
    the criteria before `c` at level `j`, and `c` too if examined before `b` -/
theorem heurH12_levelLoop_stop {crits : List (Crit α)} :
    ∀ {levels : List (KMap α)} {idx : Nat} {left l2 : List (Alt α)} {e : List (AspRes α)} {si : Nat},
      (left.map (·.id)).Nodup → 2 ≤ left.length →
      aspLevelLoop crits idx levels left = Except.ok (l2, e, si) → l2.length ≤ 1 →
      ∃ j t pre c post mid pre_r b post_r, levels[j]? = some t ∧ si = idx + j + 1 ∧
        crits = pre ++ c :: post ∧ mid.Sublist left ∧ l2.Sublist mid ∧
        mid = pre_r ++ b :: post_r ∧ e.getLast? = some (b.id, elimReport (idx + j) t c) ∧
        (∀ x ∈ l2, ∀ j' < j, ∀ t', levels[j']? = some t' → ∀ c' ∈ crits, NotBelowAt x t' c') ∧
        (∀ x ∈ l2, ∀ c' ∈ pre, NotBelowAt x t c') ∧ (∀ x ∈ l2, x ∈ pre_r → NotBelowAt x t c) := by
  intro levels
  induction levels with
  | nil =>
    intro idx left l2 e si _ hlen h hl
    simp [aspLevelLoop] at h
    obtain ⟨rfl, _, _⟩ := h
    omega
  | cons t ts ih =>
    intro idx left l2 e si hnd hlen h hl
    obtain ⟨l1, e1, s1, h1, hcase⟩ := aspLevelLoop_cons_ok h
    rcases hcase with ⟨rfl, rfl, rfl, rfl⟩ | ⟨rfl, e2, h2, rfl⟩
    · obtain ⟨pre, c, post, mid, pre_r, b, post_r, hsplit, hm1, hm2, hmid, hlast, q1, q2⟩ :=
        heurH12_critLoop_stop hnd hlen h1
      exact ⟨0, t, pre, c, post, mid, pre_r, b, post_r, by simp, by simp, hsplit, hm1, hm2, hmid,
        by simpa using hlast, by intro x _ j' hj'; omega, q1, q2⟩
    · obtain ⟨_, p2, _, _, _, p6, p7⟩ := aspCritLoop_spec hnd hlen h1
      obtain ⟨j, t', pre, c, post, mid, pre_r, b, post_r, hlv, hsi, hsplit, hm1, hm2, hmid, hlast, q0, q1, q2⟩ :=
        ih ((p2.map _).nodup hnd) (p6 rfl) h2 hl
      have hne : e2 ≠ [] := by intro e; simp [e] at hlast
      have hidx : idx + (j + 1) = idx + 1 + j := by omega
      refine ⟨j + 1, t', pre, c, post, mid, pre_r, b, post_r, by simpa using hlv, by omega, hsplit,
        hm1.trans p2, hm2, hmid, ?_, ?_, q1, q2⟩
      · rw [List.getLast?_append_of_ne_nil _ hne, hidx]; exact hlast
      · intro x hx j' hj' t'' ht'' c' hc'
        cases j' with
        | zero =>
          simp at ht''; subst ht''
          exact p7 rfl x (hm1.subset (hm2.subset hx)) c' hc'
        | succ k => exact q0 x hx k (by omega) t'' (by simpa using ht'') c' hc'

/-! ### `zipWithWeights` keeps the criteria, in order -/

theorem heurH12_zipWithWeights_crit : ∀ {cs : List (Crit α)} {w : KMap α} {r : List (WCrit α)},
    zipWithWeights cs w = Except.ok r → r.map (·.crit) = cs
  | [], w, r, h => by
    simp [zipWithWeights] at h
    subst h; rfl
  | c :: cs, w, r, h => by
    unfold zipWithWeights at h
    rw [List.mapM_cons] at h
    obtain ⟨x, h1, h⟩ := R.bind_eq_ok h
    obtain ⟨xs, h2, h⟩ := R.bind_eq_ok h
    obtain ⟨v, _, hx⟩ := R.bind_eq_ok h1
    simp only [R.pure_eq, Except.ok.injEq] at h hx
    subst h hx
    have ih := heurH12_zipWithWeights_crit (cs := cs) (w := w) (r := xs) h2
    simp [ih]

end Rdm
