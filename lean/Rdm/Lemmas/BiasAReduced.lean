/-
  Reduced-problem equivalence at the parameter level (C15): for weighted sum, OWA and the majority
  heuristic, `OnCriteriaRemoved` applied to the parsed parameters of the full request yields the
  parsed parameters of the request from which the omitted criteria were deleted
  (`onRemoved ∘ parse = parse ∘ restrict`).
-/
import Rdm.Lemmas.BiasAOmission
import Mathlib.Data.List.Nodup
set_option linter.unusedSectionVars false
set_option linter.unusedSimpArgs false
open Rdm
namespace Rdm.BiasA
variable {α : Type} [Num α]

theorem mapM_congr_mem {ε β γ : Type} {f g : β → Except ε γ} :
    ∀ {l : List β}, (∀ x ∈ l, f x = g x) → l.mapM f = l.mapM g := by
  intro l
  induction l with
  | nil => intro _; rfl
  | cons a l ih =>
    intro h
    rw [List.mapM_cons, List.mapM_cons, h a List.mem_cons_self, ih fun x hx => h x (List.mem_cons_of_mem _ hx)]

theorem find?_of_nodup {β : Type} {l : List β} {key : β → String} (hnd : (l.map key).Nodup) {x : β}
    (hx : x ∈ l) : l.find? (fun y => key y == key x) = some x := by
  induction l with
  | nil => cases hx
  | cons y ys ih =>
    simp only [List.map_cons, List.nodup_cons] at hnd
    rcases List.mem_cons.1 hx with rfl | hx'
    · simp
    · have hne : key y ≠ key x := by
        intro e; exact hnd.1 (e ▸ List.mem_map_of_mem hx')
      rw [List.find?_cons]
      have : (key y == key x) = false := by simp [hne]
      rw [this]
      exact ih hnd.2 hx'

/-- in the parsed weighted-sum / OWA parameters of a request with distinct criteria ids, looking a
    declared criterion up by id returns the criterion with its weight -/
theorem findWCrit_zip {all : List (Crit α)} {w : KMap α} {wc : List (WCrit α)}
    (hz : zipWithWeights all w = .ok wc) (hnd : (all.map (·.id)).Nodup) {k : Crit α} (hk : k ∈ all) :
    ∃ v, w.get? k.id = some v ∧ findWCrit wc k.id = .ok ⟨k, v⟩ := by
  have hcrit := zipWithWeights_crit hz
  have hmem : ∃ x ∈ wc, x.crit = k := by
    rw [← hcrit] at hk
    obtain ⟨x, hx, rfl⟩ := List.mem_map.1 hk
    exact ⟨x, hx, rfl⟩
  obtain ⟨x, hx, rfl⟩ := hmem
  have hnd' : (wc.map fun y => y.crit.id).Nodup := by
    rw [← hcrit, List.map_map] at hnd; exact hnd
  refine ⟨x.w, zipWithWeights_weight hz x hx, ?_⟩
  unfold findWCrit
  rw [find?_of_nodup (key := fun y : WCrit α => y.crit.id) hnd' hx]
  rfl

theorem onRemoved_ws (wc : List (WCrit α)) (left : List (Crit α)) :
    onRemoved (.ws wc) left = ((left.mapM fun c => findWCrit wc c.id) >>= fun r => pure (.ws r)) := rfl
theorem onRemoved_owa (wc : List (WCrit α)) (left : List (Crit α)) :
    onRemoved (.owa wc) left = ((left.mapM fun c => findWCrit wc c.id) >>= fun r => pure (.owa r)) := rfl
theorem onRemoved_majority (w : KMap α) (cur : String) (seed : Int) (rnd : Bool) (dr : String) (left : List (Crit α)) :
    onRemoved (.majority w cur seed rnd dr) left =
      (KMap.preserveOnly w left >>= fun r => pure (.majority r cur seed rnd dr)) := rfl

/-- weighted sum: `onRemoved (parse full) kept = parse reduced`, where the reduced request declares
    exactly the kept criteria (in the order the bias leaves them) and its weights agree with the full
    request's on them -/
theorem ws_reduced_commutes {all kept : List (Crit α)} {w w' : KMap α} {wc : List (WCrit α)}
    (hz : zipWithWeights all w = .ok wc) (hnd : (all.map (·.id)).Nodup)
    (hsub : ∀ k ∈ kept, k ∈ all) (hw : ∀ k ∈ kept, w'.get? k.id = w.get? k.id) :
    onRemoved (.ws wc) kept = (zipWithWeights kept w').map MParams.ws := by
  rw [onRemoved_ws]
  unfold zipWithWeights
  have : kept.mapM (fun c => findWCrit wc c.id) =
      kept.mapM (fun c => do pure (⟨c, ← KMap.fetch w' c.id⟩ : WCrit α)) := by
    apply mapM_congr_mem
    intro k hk
    obtain ⟨v, hv, hf⟩ := findWCrit_zip hz hnd (hsub k hk)
    rw [hf, fetch_ok.2 ((hw k hk).trans hv)]
    rfl
  rw [this]
  cases kept.mapM (fun c => do pure (⟨c, ← KMap.fetch w' c.id⟩ : WCrit α)) <;> rfl

/-- majority heuristic: after `OnCriteriaRemoved` the weights map holds exactly the kept criteria,
    with the weights of the reduced request; all other parameters are untouched -/
theorem majority_reduced_commutes {kept : List (Crit α)} {w w' : KMap α} {cur : String} {seed : Int}
    {rnd : Bool} {dr : String} {mp : MParams α}
    (h : onRemoved (.majority w cur seed rnd dr) kept = .ok mp)
    (hw : ∀ k ∈ kept, w'.get? k.id = w.get? k.id) :
    ∃ wk, mp = .majority wk cur seed rnd dr ∧ wk.keys = kept.map (·.id) ∧
      ∀ k ∈ kept, wk.get? k.id = w'.get? k.id := by
  rw [onRemoved_majority, bind_ok] at h
  obtain ⟨wk, hwk, h⟩ := h
  rw [pure_ok] at h
  refine ⟨wk, h.symm, ?_, ?_⟩
  · unfold KMap.preserveOnly at hwk
    have := forall₂_map_map (g := fun kv : String × α => kv.1) (k := fun c : Crit α => c.id)
      (R := fun c kv => (do pure (c.id, ← KMap.fetch w c.id) : R (String × α)) = .ok kv) ?_ (mapM_ok_forall₂ hwk)
    · simpa [KMap.keys] using this
    · intro c kv hc
      rw [bind_ok] at hc; obtain ⟨v, _, hc⟩ := hc
      rw [pure_ok] at hc; subst hc; rfl
  · -- same argument as for `WithCriteriaOnly`: the first entry with the key carries the fetched value
    unfold KMap.preserveOnly at hwk
    have hf := mapM_ok_forall₂ hwk
    clear hwk h
    intro k hk
    rw [hw k hk]
    clear hw
    induction hf with
    | nil => cases hk
    | @cons x y l r hxy _ ih =>
      rw [bind_ok] at hxy; obtain ⟨v, hv, hxy⟩ := hxy
      rw [pure_ok] at hxy; subst hxy
      rw [fetch_ok] at hv
      simp only [KMap.get?, List.lookup_cons] at *
      by_cases hid : k.id = x.id
      · have : (k.id == x.id) = true := by simp [hid]
        rw [this, hid]; simp [hv]
      · have : (k.id == x.id) = false := by simp [hid]
        rw [this]
        rcases List.mem_cons.1 hk with rfl | hk'
        · exact absurd rfl hid
        · exact ih hk'

/-! ### OWA -/

theorem sortWCrits_idem (l : List (WCrit Rat)) : sortWCrits (sortWCrits l) = sortWCrits l := by
  have h := List.pairwise_mergeSort (le := fun (a b : WCrit Rat) => !decide (b.w < a.w))
    (by intro a b c hab hbc
        simp only [Bool.not_eq_true', decide_eq_false_iff_not, not_lt] at *
        exact le_trans hab hbc)
    (by intro a b
        simp only [Bool.or_eq_true, Bool.not_eq_true', decide_eq_false_iff_not, not_lt]
        exact le_total _ _) l
  unfold sortWCrits
  exact List.mergeSort_of_pairwise h

/-- OWA: the full request parses to the weight-sorted zipped criteria; `OnCriteriaRemoved` keeps the
    kept criteria with their weights in the order the bias leaves them, the reduced request parses to
    the weight-sorted list of the same entries — and `OWA` (which sorts the weights itself) gives every
    alternative the same value under both -/
theorem owa_reduced_commutes {all kept : List (Crit Rat)} {w w' : KMap Rat} {z : List (WCrit Rat)}
    (hz : zipWithWeights all w = .ok z) (hnd : (all.map (·.id)).Nodup)
    (hsub : ∀ k ∈ kept, k ∈ all) (hw : ∀ k ∈ kept, w'.get? k.id = w.get? k.id)
    {mp : MParams Rat} (h : onRemoved (.owa (sortWCrits z)) kept = .ok mp) :
    ∃ zk, zipWithWeights kept w' = .ok zk ∧ mp = .owa zk ∧
      ∀ a : Alt Rat, owa a zk = owa a (sortWCrits zk) := by
  have hkey : kept.mapM (fun c => findWCrit (sortWCrits z) c.id) =
      kept.mapM (fun c => do pure (⟨c, ← KMap.fetch w' c.id⟩ : WCrit Rat)) := by
    apply mapM_congr_mem
    intro k hk
    obtain ⟨v, hv, hf⟩ := findWCrit_zip hz hnd (hsub k hk)
    -- lookup in the sorted list: same entries, ids still distinct
    have hx : (⟨k, v⟩ : WCrit Rat) ∈ sortWCrits z := by
      unfold findWCrit at hf
      split at hf
      · rename_i c hc
        rw [pure_ok] at hf; subst hf
        exact (sortWCrits_perm z).mem_iff.2 (List.mem_of_find?_eq_some hc)
      · cases hf
    have hnd' : ((sortWCrits z).map fun y => y.crit.id).Nodup := by
      have : (z.map fun y => y.crit.id).Nodup := by
        have := zipWithWeights_crit hz
        rw [← this, List.map_map] at hnd; exact hnd
      exact ((sortWCrits_perm z).map _).nodup_iff.2 this
    have : findWCrit (sortWCrits z) k.id = .ok ⟨k, v⟩ := by
      unfold findWCrit
      rw [find?_of_nodup (key := fun y : WCrit Rat => y.crit.id) hnd' hx]
      rfl
    rw [this, fetch_ok.2 ((hw k hk).trans hv)]
    rfl
  rw [onRemoved_owa, bind_ok] at h
  obtain ⟨zk, hzk, h⟩ := h
  rw [pure_ok] at h
  rw [hkey] at hzk
  refine ⟨zk, hzk, h.symm, ?_⟩
  intro a
  unfold owa
  simp only [List.length_mergeSort, sortWCrits, sortWCrits_idem]
  have := sortWCrits_idem zk
  unfold sortWCrits at this
  rw [this]

theorem foldlM_congr_mem {ε β γ : Type} {f g : γ → β → Except ε γ} :
    ∀ {l : List β} (init : γ), (∀ acc, ∀ x ∈ l, f acc x = g acc x) → l.foldlM f init = l.foldlM g init := by
  intro l
  induction l with
  | nil => intro _ _; rfl
  | cons a l ih =>
    intro init h
    rw [List.foldlM_cons, List.foldlM_cons, h init a List.mem_cons_self]
    congr 1
    funext acc
    exact ih acc fun acc x hx => h acc x (List.mem_cons_of_mem _ hx)

/-- the weighted sum reads an alternative only through the values of the weighted criteria -/
theorem weightedSum_congr {a1 a2 : Alt α} {wc : List (WCrit α)} (hid : a1.id = a2.id)
    (h : ∀ c ∈ wc, a1.vals.get? c.crit.id = a2.vals.get? c.crit.id) :
    weightedSum a1 wc = weightedSum a2 wc := by
  unfold weightedSum
  apply foldlM_congr_mem
  intro acc c hc
  have : a1.signed c.crit = a2.signed c.crit := by
    unfold Alt.signed Alt.raw
    rw [h c hc, hid]
  rw [this]


end Rdm.BiasA
