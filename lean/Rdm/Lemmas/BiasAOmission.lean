/-
  Lemmas about the criteria-omission bias (C15): decomposition of `omissionApply`, restriction of the
  alternatives to the kept criteria, `orderCriteria` for the deterministic resolvers.
-/
import Rdm.Lemmas.BiasAOrdering
import Rdm.Spec.C15
set_option linter.unusedSectionVars false
set_option linter.unusedSimpArgs false
open Rdm
namespace Rdm.BiasA
variable {α : Type} [Num α]

/-- `WithCriteriaOnly`: same id; exactly the kept criteria, in their order; every value unchanged -/
theorem withOnly_ok {a a' : Alt α} {cs : List (Crit α)} (h : a.withOnly cs = .ok a') :
    a'.id = a.id ∧ a'.vals.keys = cs.map (·.id) ∧
      ∀ c ∈ cs, a'.vals.get? c.id = a.vals.get? c.id ∧ (a.vals.get? c.id).isSome := by
  unfold Alt.withOnly at h
  rw [bind_ok] at h
  obtain ⟨vals, hv, h⟩ := h
  rw [pure_ok] at h
  subst h
  have hf := mapM_ok_forall₂ hv
  refine ⟨rfl, ?_, ?_⟩
  · simp only [KMap.keys]
    clear hv
    induction hf with
    | nil => rfl
    | cons hxy _ ih =>
      rw [bind_ok] at hxy
      obtain ⟨v, _, hxy⟩ := hxy
      rw [pure_ok] at hxy
      subst hxy
      simp [ih]
  · simp only
    clear hv
    induction hf with
    | nil => intro c hc; cases hc
    | @cons x y l r hxy _ ih =>
      rw [bind_ok] at hxy
      obtain ⟨v, hv, hxy⟩ := hxy
      rw [pure_ok] at hxy
      subst hxy
      rw [raw_ok] at hv
      intro c hc
      simp only [KMap.get?, List.lookup_cons] at *
      by_cases hid : c.id = x.id
      · have : (c.id == x.id) = true := by simp [hid]
        rw [this, hid]; simp [hv]
      · have : (c.id == x.id) = false := by simp [hid]
        rw [this]
        rcases List.mem_cons.1 hc with rfl | hc'
        · exact absurd rfl hid
        · exact ih c hc'

/-- the relation between an alternative and its restriction to `kept` -/
def RestrictedTo (kept : List (Crit α)) (a a' : Alt α) : Prop :=
  a'.id = a.id ∧ a'.vals.keys = kept.map (·.id) ∧ ∀ c ∈ kept, a'.vals.get? c.id = a.vals.get? c.id

theorem preserveCriteria_ok {alts res : List (Alt α)} {kept : List (Crit α)}
    (h : preserveCriteria alts kept = .ok res) : List.Forall₂ (RestrictedTo kept) alts res := by
  unfold preserveCriteria at h
  refine (mapM_ok_forall₂ h).imp ?_
  intro a a' ha
  obtain ⟨h1, h2, h3⟩ := withOnly_ok ha
  exact ⟨h1, h2, fun c hc => (h3 c hc).1⟩

/-- decomposition of `omitCriteria` -/
theorem omitCriteria_ok {c : SplitCond α} {ordered : List (Crit α)} {cur res : DMP α}
    {omitted : List (Crit α)} (h : omitCriteria c ordered cur = .ok (res, omitted)) :
    c.split ordered = .ok (omitted, res.crit) ∧ onRemoved cur.mp res.crit = .ok res.mp ∧
      preserveCriteria cur.co res.crit = .ok res.co ∧ preserveCriteria cur.nc res.crit = .ok res.nc := by
  unfold omitCriteria at h
  rw [bind_ok] at h; obtain ⟨⟨om, kept⟩, hs, h⟩ := h
  simp only at h
  rw [bind_ok] at h; obtain ⟨mp, hmp, h⟩ := h
  rw [bind_ok] at h; obtain ⟨co, hco, h⟩ := h
  rw [bind_ok] at h; obtain ⟨nc, hnc, h⟩ := h
  rw [pure_ok] at h
  cases h
  exact ⟨hs, hmp, hco, hnc⟩

theorem omissionApply_ok {eps : α} {c : SplitCond α} {name : String} {cur res : DMP α} {d : Draws α}
    {omitted : List (Crit α)} (h : omissionApply eps c name cur d = .ok (res, omitted)) :
    c.validate = .ok () ∧ ∃ ordered, orderCriteria eps name cur d = .ok ordered ∧
      omitCriteria c ordered cur = .ok (res, omitted) := by
  unfold omissionApply at h
  rw [bind_ok] at h; obtain ⟨u, hv, h⟩ := h
  rw [bind_ok] at h; obtain ⟨ordered, ho, h⟩ := h
  exact ⟨hv, ordered, ho, h⟩

theorem validate_ok {c : SplitCond α} (h : c.validate = .ok ()) :
    Num.zero ≤ c.ratio ∧ c.ratio ≤ Num.one ∧ c.min ≤ c.max := by
  unfold SplitCond.validate at h
  split at h
  · cases h
  · rename_i h1
    split at h
    · cases h
    · rename_i h2
      simp only [Bool.not_eq_true', Bool.not_eq_false, Bool.and_eq_true, decide_eq_true_eq] at h1
      exact ⟨h1.1, h1.2, Int.not_lt.1 h2⟩

theorem resolve_weakest : resolveOrdering Facts.orderingWeakest = .ok Facts.orderingWeakest := by decide
theorem resolve_default : resolveOrdering "" = .ok Facts.orderingWeakest := by decide
theorem resolve_strongest : resolveOrdering Facts.orderingStrongest = .ok Facts.orderingStrongest := by decide

theorem ok_bind {ε β γ : Type} (a : β) (f : β → Except ε γ) : (Except.ok a >>= f) = f a := rfl

theorem orderCriteria_weakest (eps : α) (d : DMP α) (dr : Draws α) :
    orderCriteria eps Facts.orderingWeakest d dr = (rankAsc eps d).map fun r => r.map (·.crit) := by
  unfold orderCriteria
  rw [resolve_weakest, ok_bind, if_pos (by decide)]
  cases rankAsc eps d <;> rfl

theorem orderCriteria_default (eps : α) (d : DMP α) (dr : Draws α) :
    orderCriteria eps "" d dr = orderCriteria eps Facts.orderingWeakest d dr := by
  unfold orderCriteria
  rw [resolve_default, resolve_weakest]

theorem orderCriteria_strongest (eps : α) (d : DMP α) (dr : Draws α) :
    orderCriteria eps Facts.orderingStrongest d dr = (rankAsc eps d).map fun r => (r.map (·.crit)).reverse := by
  unfold orderCriteria
  rw [resolve_strongest, ok_bind, if_neg (by decide), if_pos (by decide)]
  cases rankAsc eps d <;> rfl


theorem zipWithWeights_weight {cs : List (Crit α)} {w : KMap α} {z : List (WCrit α)}
    (h : zipWithWeights cs w = .ok z) : ∀ x ∈ z, w.get? x.crit.id = some x.w := by
  unfold zipWithWeights at h
  have hf := mapM_ok_forall₂ h
  clear h
  induction hf with
  | nil => intro x hx; cases hx
  | cons hxy _ ih =>
    intro x hx
    rcases List.mem_cons.1 hx with rfl | hx
    · rw [bind_ok] at hxy
      obtain ⟨v, hv, hxy⟩ := hxy
      rw [pure_ok] at hxy
      subst hxy
      exact fetch_ok.1 hv
    · exact ih x hx

/-- every entry of `SortByWeights` carries the weight the map holds for its criterion -/
theorem sortByWeights_weight {cs : List (Crit α)} {w : KMap α} {r : List (WCrit α)}
    (h : sortByWeights cs w = .ok r) : ∀ x ∈ r, w.get? x.crit.id = some x.w := by
  obtain ⟨z, hz, rfl⟩ := sortByWeights_eq h
  intro x hx
  exact zipWithWeights_weight hz x ((sortWCrits_perm z).mem_iff.1 hx)

theorem sortByWeights_sorted {cs : List (Crit Rat)} {w : KMap Rat} {r : List (WCrit Rat)}
    (h : sortByWeights cs w = .ok r) : r.Pairwise (fun a b => a.w ≤ b.w) := by
  obtain ⟨z, _, rfl⟩ := sortByWeights_eq h
  exact sortWCrits_sorted z

/-- every listener's ranking is ascending in its importance -/
theorem rankAsc_sorted {eps : Rat} {d : DMP Rat} {r : List (WCrit Rat)} (h : rankAsc eps d = .ok r) :
    r.Pairwise (fun a b => a.w ≤ b.w) := by
  unfold rankAsc at h
  split at h
  all_goals first
    | exact sortByWeights_sorted h
    | (rw [bind_ok] at h; obtain ⟨w, _, h⟩ := h; exact sortByWeights_sorted h)

/-- the importance map each listener sorts by -/
def importanceMap (eps : α) (d : DMP α) : R (KMap α) :=
  match d.mp with
  | .ws wc => cumulated d.crit d.co fun k v => do pure ((← findWCrit wc k).w * v)
  | .owa _ => cumulated d.crit d.co fun _ v => pure v
  | .choquet w _ => choquetDecompose eps d.crit d.co w
  | .electre ec _ => pure (ec.map fun p => (p.1, p.2.k))
  | .majority w _ _ _ _ => pure w
  | .aspect _ _ _ w _ => pure w
  | .satisf _ _ _ _ _ => cumulated d.crit d.co fun _ v => pure v

theorem rankAsc_eq_sort (eps : α) (d : DMP α) :
    rankAsc eps d = (importanceMap eps d >>= fun w => sortByWeights d.crit w) := by
  unfold rankAsc importanceMap
  cases d.mp <;> rfl


/-- the number of omitted criteria produced by the model's split satisfies the count clause of the
    spec the driver evaluates on the implementation's output -/
theorem split_countOk {β : Type} {c : SplitCond Rat} {l a b : List β} (hv : c.validate = .ok ())
    (h : c.split l = .ok (a, b)) : Spec.C15.countOk c l.length a.length = true := by
  have hlen := split_length h
  have hmm := (validate_ok hv).2.2
  unfold Spec.C15.countOk Spec.C15.pivots
  rw [List.contains_iff_mem, List.mem_map]
  refine ⟨Rat.floor ((l.length : Rat) * c.ratio), ?_, ?_⟩
  · unfold Spec.C15.rawPivots
    simp only
    split_ifs <;> simp
  · rw [hlen]
    have e : c.pivot l.length = clampInt (Rat.floor (((l.length : Int) : Rat) * c.ratio)) c.min c.max := rfl
    rw [e, clampInt_eq_max_min hmm]
    unfold Spec.C15.clamp
    have : (((l.length : Int) : Rat)) = (l.length : Rat) := by simp
    rw [this]



theorem resolve_wbp : resolveOrdering Facts.orderingWeakestByProbability = .ok Facts.orderingWeakestByProbability := by decide
theorem resolve_sbp : resolveOrdering Facts.orderingStrongestByProbability = .ok Facts.orderingStrongestByProbability := by decide
theorem resolve_random : resolveOrdering Facts.orderingRandom = .ok Facts.orderingRandom := by decide

theorem orderCriteria_wbp (eps : α) (d : DMP α) (dr : Draws α) :
    orderCriteria eps Facts.orderingWeakestByProbability d dr =
      (rankAsc eps d >>= fun r => weakestByProbability r dr >>= fun p => pure p.1) := by
  unfold orderCriteria
  rw [resolve_wbp, ok_bind, if_neg (by decide), if_neg (by decide), if_neg (by decide), if_pos (by decide)]

theorem orderCriteria_sbp (eps : α) (d : DMP α) (dr : Draws α) :
    orderCriteria eps Facts.orderingStrongestByProbability d dr =
      (rankAsc eps d >>= fun r => weakestByProbability r dr >>= fun p => pure p.1.reverse) := by
  unfold orderCriteria
  rw [resolve_sbp, ok_bind, if_neg (by decide), if_neg (by decide), if_neg (by decide), if_neg (by decide),
    if_pos (by decide)]

theorem orderCriteria_random (eps : α) (d : DMP α) (dr : Draws α) :
    orderCriteria eps Facts.orderingRandom d dr = (shuffle d.crit dr >>= fun p => pure p.1) := by
  unfold orderCriteria
  rw [resolve_random, ok_bind, if_neg (by decide), if_neg (by decide), if_pos (by decide)]

theorem unknown_ordering_rejected (eps : α) (d : DMP α) (dr : Draws α) :
    ∃ e, orderCriteria eps "bogus" d dr = .error e := by
  unfold orderCriteria
  have : resolveOrdering "bogus" = .error "ordering-resolver-not-found:bogus" := by decide
  rw [this]
  exact ⟨_, rfl⟩

theorem sbp_is_reverse_wbp (eps : α) (d : DMP α) (dr : Draws α) :
    orderCriteria eps Facts.orderingStrongestByProbability d dr =
      (orderCriteria eps Facts.orderingWeakestByProbability d dr).map List.reverse := by
  rw [orderCriteria_sbp, orderCriteria_wbp]
  cases rankAsc eps d with
  | error e => rfl
  | ok r =>
    rw [ok_bind, ok_bind]
    cases weakestByProbability r dr <;> rfl


end Rdm.BiasA
