/-
  Lemmas about aspect elimination (Model/Heuristics.lean), generic in the number type: inversion and
  specification of the three nested loops `aspAltLoop` / `aspCritLoop` / `aspLevelLoop`.
-/
import Rdm.Model.Heuristics
import Rdm.Lemmas.HeurList
import Rdm.Lemmas.HeurSatisf
import Mathlib.Data.List.Perm.Basic
set_option linter.unusedSectionVars false
set_option linter.unusedSimpArgs false
namespace Rdm
variable {α : Type} [Num α]

/-- the alternative is worse than the level's threshold on the criterion -/
def BelowAt (a : Alt α) (t : KMap α) (c : Crit α) : Prop := isBelowThreshold a t c = Except.ok true
/-- the alternative is not worse than the level's threshold on the criterion -/
def NotBelowAt (a : Alt α) (t : KMap α) (c : Crit α) : Prop := isBelowThreshold a t c = Except.ok false

/-- the report written for an alternative eliminated at (level `idx`, criterion `c`) -/
def elimReport (idx : Nat) (t : KMap α) (c : Crit α) : AspEval α := ⟨idx, [(c.id, levelValue t c.id)]⟩

theorem removeAlt_length (l : List (Alt α)) (id : String) (h : id ∈ l.map (·.id)) :
    (removeAlt l id).length + 1 = l.length := by
  have := (removeAlt_perm l id h).length_eq
  simp at this; omega

/-- inversion of one iteration of the innermost loop -/
theorem aspAltLoop_cons_ok {idx : Nat} {t : KMap α} {c : Crit α} {a : Alt α} {rest temp t2 : List (Alt α)}
    {e : List (AspRes α)} {stop : Bool}
    (h : aspAltLoop idx t c (a :: rest) temp = Except.ok (t2, e, stop)) :
    ∃ below, isBelowThreshold a t c = Except.ok below ∧
      let temp' := if below then removeAlt temp a.id else temp
      let ev : List (AspRes α) := if below then [(a.id, elimReport idx t c)] else []
      ((temp'.length ≤ 1 ∧ t2 = temp' ∧ e = ev ∧ stop = true) ∨
       (¬ temp'.length ≤ 1 ∧ ∃ e2, aspAltLoop idx t c rest temp' = Except.ok (t2, e2, stop) ∧ e = ev ++ e2)) := by
  unfold aspAltLoop at h
  obtain ⟨below, hb, h⟩ := R.bind_eq_ok h
  refine ⟨below, hb, ?_⟩
  simp only
  by_cases hl : (if below = true then removeAlt temp a.id else temp).length ≤ 1
  · left
    simp only [hl, if_true] at h
    simp at h
    obtain ⟨rfl, rfl, rfl⟩ := h
    exact ⟨hl, rfl, by cases below <;> simp [elimReport], rfl⟩
  · right
    simp only [hl, if_false] at h
    obtain ⟨⟨t2', e2, s⟩, hr, h⟩ := R.bind_eq_ok h
    simp at h
    obtain ⟨rfl, rfl, rfl⟩ := h
    exact ⟨hl, e2, hr, by cases below <;> simp [elimReport]⟩

/-- what one pass over the remaining alternatives does for one (level, criterion) -/
theorem aspAltLoop_spec {idx : Nat} {t : KMap α} {c : Crit α} :
    ∀ {rest temp t2 : List (Alt α)} {e : List (AspRes α)} {stop : Bool},
      (rest.map (·.id)).Nodup → (∀ a ∈ rest, a.id ∈ temp.map (·.id)) → 2 ≤ temp.length →
      aspAltLoop idx t c rest temp = Except.ok (t2, e, stop) →
      (e.map (·.1) ++ t2.map (·.id)).Perm (temp.map (·.id)) ∧ t2.Sublist temp ∧
      (e.map (·.1)).Sublist (rest.map (·.id)) ∧
      (∀ p ∈ e, p.2 = elimReport idx t c ∧ ∃ a ∈ rest, a.id = p.1 ∧ BelowAt a t c) ∧
      1 ≤ t2.length ∧ (stop = true → t2.length ≤ 1) ∧ (stop = false → 2 ≤ t2.length) ∧
      (stop = false → ∀ a ∈ rest, a.id ∉ e.map (·.1) → NotBelowAt a t c) := by
  intro rest
  induction rest with
  | nil =>
    intro temp t2 e stop _ _ hlen h
    simp [aspAltLoop] at h
    obtain ⟨rfl, rfl, rfl⟩ := h
    simp; omega
  | cons a rest ih =>
    intro temp t2 e stop hnd hsub hlen h
    have hnd' : (rest.map (·.id)).Nodup := (List.nodup_cons.mp (by simpa using hnd)).2
    have hanot : a.id ∉ rest.map (·.id) := (List.nodup_cons.mp (by simpa using hnd)).1
    have hain : a.id ∈ temp.map (·.id) := hsub a (by simp)
    obtain ⟨below, hb, hcase⟩ := aspAltLoop_cons_ok h
    cases below with
    | false =>
      simp only [Bool.false_eq_true, if_false, List.nil_append] at hcase
      rcases hcase with ⟨hl, _, _, _⟩ | ⟨_, e2, hr, rfl⟩
      · omega
      · obtain ⟨h1, h2, h3, h4, h5, h6, h7, h8⟩ := ih hnd' (fun x hx => hsub x (by simp [hx])) hlen hr
        refine ⟨h1, h2, h3.trans (List.sublist_cons_self _ _), ?_, h5, h6, h7, ?_⟩
        · intro p hp
          obtain ⟨q1, x, hx, q2⟩ := h4 p hp
          exact ⟨q1, x, by simp [hx], q2⟩
        · intro hs x hx hne
          rcases List.mem_cons.mp hx with rfl | hx
          · exact hb
          · exact h8 hs x hx hne
    | true =>
      simp only [if_true] at hcase
      have hlen' := removeAlt_length temp a.id hain
      rcases hcase with ⟨hl, rfl, rfl, rfl⟩ | ⟨hl, e2, hr, rfl⟩
      · refine ⟨?_, removeAlt_sublist _ _, by simp, ?_, by omega, fun _ => hl, by simp, by simp⟩
        · simpa using (removeAlt_perm temp a.id hain).symm
        · intro p hp
          simp at hp; subst hp
          exact ⟨rfl, a, by simp, rfl, hb⟩
      · have hsub' : ∀ x ∈ rest, x.id ∈ (removeAlt temp a.id).map (·.id) := by
          intro x hx
          rw [removeAlt_ids]
          have hne : x.id ≠ a.id := fun e => hanot (e ▸ List.mem_map.mpr ⟨x, hx, rfl⟩)
          exact (List.mem_erase_of_ne hne).mpr (hsub x (by simp [hx]))
        obtain ⟨h1, h2, h3, h4, h5, h6, h7, h8⟩ := ih hnd' hsub' (by omega) hr
        refine ⟨?_, h2.trans (removeAlt_sublist _ _), ?_, ?_, h5, h6, h7, ?_⟩
        · simp only [List.map_cons, List.singleton_append, List.cons_append]
          exact (List.Perm.cons a.id h1).trans (removeAlt_perm temp a.id hain).symm
        · simpa using h3.cons_cons a.id
        · intro p hp
          rcases List.mem_cons.mp (by simpa using hp) with rfl | hp
          · exact ⟨rfl, a, by simp, rfl, hb⟩
          · obtain ⟨q1, x, hx, q2⟩ := h4 p hp
            exact ⟨q1, x, by simp [hx], q2⟩
        · intro hs x hx hne
          rcases List.mem_cons.mp hx with rfl | hx
          · simp at hne
          · exact h8 hs x hx (fun hm => hne (by simp [hm]))

/-! ### criterion loop -/

theorem aspCritLoop_cons_ok {idx : Nat} {t : KMap α} {c : Crit α} {cs : List (Crit α)} {left l2 : List (Alt α)}
    {e : List (AspRes α)} {stop : Bool}
    (h : aspCritLoop idx t (c :: cs) left = Except.ok (l2, e, stop)) :
    ∃ temp e1 s1, aspAltLoop idx t c left left = Except.ok (temp, e1, s1) ∧
      ((s1 = true ∧ l2 = temp ∧ e = e1 ∧ stop = true) ∨
       (s1 = false ∧ ∃ e2, aspCritLoop idx t cs temp = Except.ok (l2, e2, stop) ∧ e = e1 ++ e2)) := by
  unfold aspCritLoop at h
  obtain ⟨⟨temp, e1, s1⟩, h1, h⟩ := R.bind_eq_ok h
  refine ⟨temp, e1, s1, h1, ?_⟩
  cases s1 with
  | true =>
    left; simp at h
    obtain ⟨rfl, rfl, rfl⟩ := h
    exact ⟨rfl, rfl, rfl, rfl⟩
  | false =>
    right
    simp only [Bool.false_eq_true, if_false] at h
    obtain ⟨⟨l2', e2, s2⟩, h2, h⟩ := R.bind_eq_ok h
    simp at h
    obtain ⟨rfl, rfl, rfl⟩ := h
    exact ⟨rfl, e2, h2, rfl⟩

/-- one level: every elimination names a criterion of the list on which the alternative is worse
    than the level's threshold; at least one alternative is always left -/
theorem aspCritLoop_spec {idx : Nat} {t : KMap α} :
    ∀ {crits : List (Crit α)} {left l2 : List (Alt α)} {e : List (AspRes α)} {stop : Bool},
      (left.map (·.id)).Nodup → 2 ≤ left.length →
      aspCritLoop idx t crits left = Except.ok (l2, e, stop) →
      (e.map (·.1) ++ l2.map (·.id)).Perm (left.map (·.id)) ∧ l2.Sublist left ∧
      (∀ p ∈ e, ∃ pre c post, crits = pre ++ c :: post ∧ p.2 = elimReport idx t c ∧
         ∃ a ∈ left, a.id = p.1 ∧ BelowAt a t c ∧ ∀ c' ∈ pre, NotBelowAt a t c') ∧
      1 ≤ l2.length ∧ (stop = true → l2.length ≤ 1) ∧ (stop = false → 2 ≤ l2.length) ∧
      (stop = false → ∀ a ∈ l2, ∀ c ∈ crits, NotBelowAt a t c) := by
  intro crits
  induction crits with
  | nil =>
    intro left l2 e stop _ hlen h
    simp [aspCritLoop] at h
    obtain ⟨rfl, rfl, rfl⟩ := h
    simp; omega
  | cons c cs ih =>
    intro left l2 e stop hnd hlen h
    obtain ⟨temp, e1, s1, h1, hcase⟩ := aspCritLoop_cons_ok h
    obtain ⟨p1, p2, p3, p4, p5, p6, p7, p8⟩ := aspAltLoop_spec hnd (fun a ha => mem_ids_of_mem ha) hlen h1
    have hndT : (temp.map (·.id)).Nodup := (p2.map _).nodup hnd
    have hndAll : (e1.map (·.1) ++ temp.map (·.id)).Nodup := p1.nodup_iff.mpr hnd
    -- whoever is still in `temp` after an unstopped pass was not below the threshold on `c`
    have hpass : s1 = false → ∀ a ∈ temp, NotBelowAt a t c := by
      intro hs a hat
      apply p8 hs a (p2.subset hat)
      intro hm
      exact (List.nodup_append.mp hndAll).2.2 _ hm _ (mem_ids_of_mem hat) rfl
    rcases hcase with ⟨rfl, rfl, rfl, rfl⟩ | ⟨rfl, e2, h2, rfl⟩
    · refine ⟨p1, p2, ?_, p5, p6, by simp, by simp⟩
      intro p hp
      obtain ⟨q1, a, ha, q2⟩ := p4 p hp
      exact ⟨[], c, cs, rfl, q1, a, ha, q2.1, q2.2, by simp⟩
    · obtain ⟨q1, q2, q3, q4, q5, q6, q7⟩ := ih hndT (p7 rfl) h2
      refine ⟨?_, q2.trans p2, ?_, q4, q5, q6, ?_⟩
      · simp only [List.map_append, List.append_assoc]
        exact (List.Perm.append_left _ q1).trans p1
      · intro p hp
        rcases List.mem_append.mp hp with hp | hp
        · obtain ⟨r1, a, ha, r2⟩ := p4 p hp
          exact ⟨[], c, cs, rfl, r1, a, ha, r2.1, r2.2, by simp⟩
        · obtain ⟨pre, c', post, hsplit, r1, a, ha, r2, r3, r4⟩ := q3 p hp
          refine ⟨c :: pre, c', post, by simp [hsplit], r1, a, p2.subset ha, r2, r3, ?_⟩
          intro x hx
          rcases List.mem_cons.mp hx with rfl | hx
          · exact hpass rfl a ha
          · exact r4 x hx
      · intro hs a ha c' hc'
        rcases List.mem_cons.mp hc' with rfl | hc'
        · exact hpass rfl a (q2.subset ha)
        · exact q7 hs a ha c' hc'

/-! ### level loop -/

theorem aspLevelLoop_cons_ok {crits : List (Crit α)} {idx : Nat} {t : KMap α} {ts : List (KMap α)}
    {left l2 : List (Alt α)} {e : List (AspRes α)} {si : Nat}
    (h : aspLevelLoop crits idx (t :: ts) left = Except.ok (l2, e, si)) :
    ∃ l1 e1 s1, aspCritLoop idx t crits left = Except.ok (l1, e1, s1) ∧
      ((s1 = true ∧ l2 = l1 ∧ e = e1 ∧ si = idx + 1) ∨
       (s1 = false ∧ ∃ e2, aspLevelLoop crits (idx + 1) ts l1 = Except.ok (l2, e2, si) ∧ e = e1 ++ e2)) := by
  unfold aspLevelLoop at h
  obtain ⟨⟨l1, e1, s1⟩, h1, h⟩ := R.bind_eq_ok h
  refine ⟨l1, e1, s1, h1, ?_⟩
  cases s1 with
  | true =>
    left; simp at h
    obtain ⟨rfl, rfl, rfl⟩ := h
    exact ⟨rfl, rfl, rfl, rfl⟩
  | false =>
    right
    simp only [Bool.false_eq_true, if_false] at h
    obtain ⟨⟨l2', e2, si'⟩, h2, h⟩ := R.bind_eq_ok h
    simp at h
    obtain ⟨rfl, rfl, rfl⟩ := h
    exact ⟨rfl, e2, h2, rfl⟩

/-- the whole procedure on ≥ 2 alternatives with pairwise different ids -/
theorem aspLevelLoop_spec {crits : List (Crit α)} :
    ∀ {levels : List (KMap α)} {idx : Nat} {left l2 : List (Alt α)} {e : List (AspRes α)} {si : Nat},
      (left.map (·.id)).Nodup → 2 ≤ left.length →
      aspLevelLoop crits idx levels left = Except.ok (l2, e, si) →
      (e.map (·.1) ++ l2.map (·.id)).Perm (left.map (·.id)) ∧ l2.Sublist left ∧
      (∀ p ∈ e, ∃ j t, p.2.idx = idx + j ∧ levels[j]? = some t ∧
         ∃ pre c post, crits = pre ++ c :: post ∧ p.2 = elimReport (idx + j) t c ∧
           ∃ a ∈ left, a.id = p.1 ∧ BelowAt a t c ∧ (∀ c' ∈ pre, NotBelowAt a t c') ∧
             ∀ j' < j, ∀ t', levels[j']? = some t' → ∀ c' ∈ crits, NotBelowAt a t' c') ∧
      1 ≤ l2.length ∧ si ≤ idx + levels.length ∧
      (2 ≤ l2.length → si = idx + levels.length ∧ ∀ a ∈ l2, ∀ t ∈ levels, ∀ c ∈ crits, NotBelowAt a t c) := by
  intro levels
  induction levels with
  | nil =>
    intro idx left l2 e si _ hlen h
    simp [aspLevelLoop] at h
    obtain ⟨rfl, rfl, rfl⟩ := h
    simp; omega
  | cons t ts ih =>
    intro idx left l2 e si hnd hlen h
    obtain ⟨l1, e1, s1, h1, hcase⟩ := aspLevelLoop_cons_ok h
    obtain ⟨p1, p2, p3, p4, p5, p6, p7⟩ := aspCritLoop_spec hnd hlen h1
    have hnd1 : (l1.map (·.id)).Nodup := (p2.map _).nodup hnd
    have here : ∀ p ∈ e1, ∃ j t', p.2.idx = idx + j ∧ (t :: ts)[j]? = some t' ∧
         ∃ pre c post, crits = pre ++ c :: post ∧ p.2 = elimReport (idx + j) t' c ∧
           ∃ a ∈ left, a.id = p.1 ∧ BelowAt a t' c ∧ (∀ c' ∈ pre, NotBelowAt a t' c') ∧
             ∀ j' < j, ∀ t'', (t :: ts)[j']? = some t'' → ∀ c' ∈ crits, NotBelowAt a t'' c' := by
      intro p hp
      obtain ⟨pre, c, post, hsplit, r1, a, ha, r2, r3, r4⟩ := p3 p hp
      exact ⟨0, t, by simp [r1, elimReport], by simp, pre, c, post, hsplit, by simpa using r1, a, ha, r2, r3, r4,
        by intro j' hj'; omega⟩
    rcases hcase with ⟨rfl, rfl, rfl, rfl⟩ | ⟨rfl, e2, h2, rfl⟩
    · refine ⟨p1, p2, here, p4, by simp, ?_⟩
      intro h2l; have := p5 rfl; omega
    · obtain ⟨q1, q2, q3, q4, q5, q6⟩ := ih hnd1 (p6 rfl) h2
      refine ⟨?_, q2.trans p2, ?_, q4, by simp at q5 ⊢; omega, ?_⟩
      · simp only [List.map_append, List.append_assoc]
        exact (List.Perm.append_left _ q1).trans p1
      · intro p hp
        rcases List.mem_append.mp hp with hp | hp
        · exact here p hp
        · obtain ⟨j, t', hj, hlv, pre, c, post, hsplit, r1, a, ha, r2, r3, rpre, r4⟩ := q3 p hp
          have hidx : idx + (j + 1) = idx + 1 + j := by omega
          refine ⟨j + 1, t', by omega, by simpa using hlv, pre, c, post, hsplit, by rw [hidx]; exact r1,
            a, p2.subset ha, r2, r3, rpre, ?_⟩
          intro j' hj' t'' ht'' c' hc'
          cases j' with
          | zero =>
            simp at ht''; subst ht''
            exact p7 rfl a ha c' hc'
          | succ k => exact r4 k (by omega) t'' (by simpa using ht'') c' hc'
      · intro h2l
        obtain ⟨r1, r2⟩ := q6 h2l
        refine ⟨by simp; omega, ?_⟩
        intro a ha t' ht' c hc
        rcases List.mem_cons.mp ht' with rfl | ht'
        · exact p7 rfl a (q2.subset ha) c hc
        · exact r2 a ha t' ht' c hc

/-! ### the stop: the last elimination is the one that left a single alternative -/

theorem aspAltLoop_stop {idx : Nat} {t : KMap α} {c : Crit α} :
    ∀ {rest temp t2 : List (Alt α)} {e : List (AspRes α)}, 2 ≤ temp.length →
      aspAltLoop idx t c rest temp = Except.ok (t2, e, true) →
      ∃ p, e.getLast? = some p ∧ p.2.idx = idx := by
  intro rest
  induction rest with
  | nil => intro temp t2 e _ h; simp [aspAltLoop] at h
  | cons a rest ih =>
    intro temp t2 e hlen h
    obtain ⟨below, hb, hcase⟩ := aspAltLoop_cons_ok h
    cases below with
    | false =>
      simp only [Bool.false_eq_true, if_false, List.nil_append] at hcase
      rcases hcase with ⟨hl, _⟩ | ⟨_, e2, hr, rfl⟩
      · omega
      · exact ih hlen hr
    | true =>
      simp only [if_true] at hcase
      rcases hcase with ⟨_, _, rfl, _⟩ | ⟨hl, e2, hr, rfl⟩
      · exact ⟨_, rfl, rfl⟩
      · obtain ⟨p, hp, hi⟩ := ih (by omega) hr
        refine ⟨p, ?_, hi⟩
        have hne : e2 ≠ [] := by intro e; simp [e] at hp
        rw [List.getLast?_append_of_ne_nil _ hne]; exact hp

theorem aspCritLoop_stop {idx : Nat} {t : KMap α} :
    ∀ {crits : List (Crit α)} {left l2 : List (Alt α)} {e : List (AspRes α)},
      (left.map (·.id)).Nodup → 2 ≤ left.length →
      aspCritLoop idx t crits left = Except.ok (l2, e, true) →
      ∃ p, e.getLast? = some p ∧ p.2.idx = idx := by
  intro crits
  induction crits with
  | nil => intro left l2 e _ _ h; simp [aspCritLoop] at h
  | cons c cs ih =>
    intro left l2 e hnd hlen h
    obtain ⟨temp, e1, s1, h1, hcase⟩ := aspCritLoop_cons_ok h
    rcases hcase with ⟨rfl, _, rfl, _⟩ | ⟨rfl, e2, h2, rfl⟩
    · exact aspAltLoop_stop hlen h1
    · obtain ⟨_, p2, _, _, _, _, p7, _⟩ := aspAltLoop_spec hnd (fun a ha => mem_ids_of_mem ha) hlen h1
      obtain ⟨p, hp, hi⟩ := ih ((p2.map _).nodup hnd) (p7 rfl) h2
      refine ⟨p, ?_, hi⟩
      have hne : e2 ≠ [] := by intro e; simp [e] at hp
      rw [List.getLast?_append_of_ne_nil _ hne]; exact hp

/-- if the procedure ends with at most one alternative left (of at least two), the survivor index is
    the level index of the last elimination plus one -/
theorem aspLevelLoop_stop {crits : List (Crit α)} :
    ∀ {levels : List (KMap α)} {idx : Nat} {left l2 : List (Alt α)} {e : List (AspRes α)} {si : Nat},
      (left.map (·.id)).Nodup → 2 ≤ left.length →
      aspLevelLoop crits idx levels left = Except.ok (l2, e, si) → l2.length ≤ 1 →
      ∃ p, e.getLast? = some p ∧ si = p.2.idx + 1 := by
  intro levels
  induction levels with
  | nil =>
    intro idx left l2 e si _ hlen h hl
    simp [aspLevelLoop] at h
    obtain ⟨rfl, _, _⟩ := h
    omega
  | cons t ts ih =>
    intro idx left l2 e si hnd hlen h hl
    obtain ⟨l1, e1, s1, h1, hcase⟩ := aspLevelLoop_cons_ok h
    rcases hcase with ⟨rfl, _, rfl, rfl⟩ | ⟨rfl, e2, h2, rfl⟩
    · obtain ⟨p, hp, hi⟩ := aspCritLoop_stop hnd hlen h1
      exact ⟨p, hp, by rw [hi]⟩
    · obtain ⟨_, p2, _, _, _, p6, _⟩ := aspCritLoop_spec hnd hlen h1
      obtain ⟨p, hp, hi⟩ := ih ((p2.map _).nodup hnd) (p6 rfl) h2 hl
      refine ⟨p, ?_, hi⟩
      have hne : e2 ≠ [] := by intro e; simp [e] at hp
      rw [List.getLast?_append_of_ne_nil _ hne]; exact hp

/-! ### order of the eliminations -/

/-- the criterion an elimination report names -/
def reportedCrit (p : AspRes α) : String := ((p.2.thr.head?).map (·.1)).getD ""

/-- its rank in the examination order -/
def critRank (crits : List (Crit α)) (p : AspRes α) : Nat := idxOf (crits.map (·.id)) (reportedCrit p)

theorem reportedCrit_elimReport (id : String) (idx : Nat) (t : KMap α) (c : Crit α) :
    reportedCrit ((id, elimReport idx t c) : AspRes α) = c.id := rfl

theorem critRank_head (c : Crit α) (cs : List (Crit α)) (p : AspRes α) (h : reportedCrit p = c.id) :
    critRank (c :: cs) p = 0 := by
  simp [critRank, idxOf, h, List.findIdx_cons]

theorem critRank_tail (c : Crit α) (cs : List (Crit α)) (p : AspRes α) (h : reportedCrit p ≠ c.id) :
    critRank (c :: cs) p = critRank cs p + 1 := by
  have : (c.id == reportedCrit p) = false := by simpa using fun e => h e.symm
  simp [critRank, idxOf, List.findIdx_cons, this]

theorem pairwise_le_of_all_eq {l : List Nat} {n : Nat} (h : ∀ x ∈ l, x = n) : l.Pairwise (· ≤ ·) := by
  apply List.pairwise_of_forall_mem_list
  intro a ha b hb
  rw [h a ha, h b hb]; exact Nat.le_refl _

/-- one level: eliminations are grouped by criterion in examination order, within a criterion in the
    order the alternatives were examined -/
theorem aspCritLoop_order {idx : Nat} {t : KMap α} :
    ∀ {crits : List (Crit α)} {left l2 : List (Alt α)} {e : List (AspRes α)} {stop : Bool},
      (crits.map (·.id)).Nodup → (left.map (·.id)).Nodup → 2 ≤ left.length →
      aspCritLoop idx t crits left = Except.ok (l2, e, stop) →
      (e.map (critRank crits)).Pairwise (· ≤ ·) ∧
      ∀ k, ((e.filter (fun p => critRank crits p == k)).map (·.1)).Sublist (left.map (·.id)) := by
  intro crits
  induction crits with
  | nil =>
    intro left l2 e stop _ _ _ h
    simp [aspCritLoop] at h
    obtain ⟨_, rfl, _⟩ := h
    simp
  | cons c cs ih =>
    intro left l2 e stop hndc hnd hlen h
    obtain ⟨temp, e1, s1, h1, hcase⟩ := aspCritLoop_cons_ok h
    obtain ⟨p1, p2, p3, p4, p5, p6, p7, p8⟩ := aspAltLoop_spec hnd (fun a ha => mem_ids_of_mem ha) hlen h1
    have hndT : (temp.map (·.id)).Nodup := (p2.map _).nodup hnd
    have hndc' : c.id ∉ cs.map (·.id) ∧ (cs.map (·.id)).Nodup := List.nodup_cons.mp hndc
    have r1 : ∀ p ∈ e1, critRank (c :: cs) p = 0 := by
      intro p hp
      apply critRank_head
      obtain ⟨q1, _⟩ := p4 p hp
      have : p = (p.1, elimReport idx t c) := by rw [← q1]
      rw [this]; rfl
    have e1pw : (e1.map (critRank (c :: cs))).Pairwise (· ≤ ·) :=
      pairwise_le_of_all_eq (n := 0) (by
        intro x hx
        obtain ⟨p, hp, rfl⟩ := List.mem_map.mp hx
        exact r1 p hp)
    have e1zero : e1.filter (fun p => critRank (c :: cs) p == 0) = e1 :=
      List.filter_eq_self.mpr (fun p hp => by simp [r1 p hp])
    have e1none : ∀ k, e1.filter (fun p => critRank (c :: cs) p == k + 1) = [] := fun k =>
      List.filter_eq_nil_iff.mpr (fun p hp => by simp [r1 p hp])
    rcases hcase with ⟨rfl, rfl, rfl, rfl⟩ | ⟨rfl, e2, h2, rfl⟩
    · refine ⟨e1pw, ?_⟩
      intro k
      cases k with
      | zero => rw [e1zero]; exact p3
      | succ k => rw [e1none k]; simp
    · obtain ⟨_, _, q3, _⟩ := aspCritLoop_spec hndT (p7 rfl) h2
      obtain ⟨o1, o2⟩ := ih hndc'.2 hndT (p7 rfl) h2
      have r2 : ∀ p ∈ e2, critRank (c :: cs) p = critRank cs p + 1 := by
        intro p hp
        apply critRank_tail
        obtain ⟨pre, c', post, hsplit, q1, _⟩ := q3 p hp
        have hrep : reportedCrit p = c'.id := by
          have : p = (p.1, elimReport idx t c') := by rw [← q1]
          rw [this]; rfl
        rw [hrep]
        intro e
        exact hndc'.1 (e ▸ List.mem_map.mpr ⟨c', by rw [hsplit]; simp, rfl⟩)
      refine ⟨?_, ?_⟩
      · rw [List.map_append, List.pairwise_append]
        refine ⟨e1pw, ?_, ?_⟩
        · have : e2.map (critRank (c :: cs)) = (e2.map (critRank cs)).map (· + 1) := by
            rw [List.map_map]; exact List.map_congr_left (fun p hp => r2 p hp)
          rw [this]
          exact List.Pairwise.map _ (fun _ _ h => Nat.add_le_add_right h 1) o1
        · intro a ha b hb
          obtain ⟨pa, hpa, rfl⟩ := List.mem_map.mp ha
          rw [r1 pa hpa]; exact Nat.zero_le _
      · intro k
        rw [List.filter_append, List.map_append]
        cases k with
        | zero =>
          have : e2.filter (fun p => critRank (c :: cs) p == 0) = [] :=
            List.filter_eq_nil_iff.mpr (fun p hp => by simp [r2 p hp])
          rw [e1zero, this]; simpa using p3
        | succ k =>
          have : e2.filter (fun p => critRank (c :: cs) p == k + 1) = e2.filter (fun p => critRank cs p == k) := by
            apply List.filter_congr
            intro p hp
            simp [r2 p hp]
          rw [e1none k, this]
          simpa using (o2 k).trans (p2.map _)

/-- the whole procedure: eliminations are listed by level, within a level by criterion in examination
    order, within a check in the order the alternatives were examined — `elims` is the chronological
    record, the ranking lists it backwards -/
theorem aspLevelLoop_order {crits : List (Crit α)} (hndc : (crits.map (·.id)).Nodup) :
    ∀ {levels : List (KMap α)} {idx : Nat} {left l2 : List (Alt α)} {e : List (AspRes α)} {si : Nat},
      (left.map (·.id)).Nodup → 2 ≤ left.length →
      aspLevelLoop crits idx levels left = Except.ok (l2, e, si) →
      (e.map (·.2.idx)).Pairwise (· ≤ ·) ∧ (∀ p ∈ e, idx ≤ p.2.idx) ∧
      (∀ ℓ, ((e.filter (fun p => p.2.idx == ℓ)).map (critRank crits)).Pairwise (· ≤ ·)) ∧
      ∀ ℓ k, ((e.filter (fun p => p.2.idx == ℓ && critRank crits p == k)).map (·.1)).Sublist (left.map (·.id)) := by
  intro levels
  induction levels with
  | nil =>
    intro idx left l2 e si _ _ h
    simp [aspLevelLoop] at h
    obtain ⟨_, rfl, _⟩ := h
    simp
  | cons t ts ih =>
    intro idx left l2 e si hnd hlen h
    obtain ⟨l1, e1, s1, h1, hcase⟩ := aspLevelLoop_cons_ok h
    obtain ⟨p1, p2, p3, p4, p5, p6, p7⟩ := aspCritLoop_spec hnd hlen h1
    obtain ⟨c1, c2⟩ := aspCritLoop_order hndc hnd hlen h1
    have hnd1 : (l1.map (·.id)).Nodup := (p2.map _).nodup hnd
    have i1 : ∀ p ∈ e1, p.2.idx = idx := by
      intro p hp
      obtain ⟨_, c, _, _, q1, _⟩ := p3 p hp
      rw [q1]; rfl
    have e1pw : (e1.map (·.2.idx)).Pairwise (· ≤ ·) :=
      pairwise_le_of_all_eq (n := idx) (by
        intro x hx
        obtain ⟨p, hp, rfl⟩ := List.mem_map.mp hx
        exact i1 p hp)
    have e1self : e1.filter (fun p => p.2.idx == idx) = e1 :=
      List.filter_eq_self.mpr (fun p hp => by simp [i1 p hp])
    have e1none : ∀ ℓ, ℓ ≠ idx → e1.filter (fun p => p.2.idx == ℓ) = [] := fun ℓ hℓ =>
      List.filter_eq_nil_iff.mpr (fun p hp => by simp [i1 p hp]; exact fun e => hℓ e.symm)
    have e1and_self : ∀ k, e1.filter (fun p => p.2.idx == idx && critRank crits p == k)
        = e1.filter (fun p => critRank crits p == k) := fun k =>
      List.filter_congr (fun p hp => by simp [i1 p hp])
    have e1and_none : ∀ ℓ k, ℓ ≠ idx → e1.filter (fun p => p.2.idx == ℓ && critRank crits p == k) = [] :=
      fun ℓ k hℓ => List.filter_eq_nil_iff.mpr (fun p hp => by
        simp [i1 p hp]; intro e; exact absurd e.symm hℓ)
    have only_e1 : (e1.map (·.2.idx)).Pairwise (· ≤ ·) ∧ (∀ p ∈ e1, idx ≤ p.2.idx) ∧
        (∀ ℓ, ((e1.filter (fun p => p.2.idx == ℓ)).map (critRank crits)).Pairwise (· ≤ ·)) ∧
        ∀ ℓ k, ((e1.filter (fun p => p.2.idx == ℓ && critRank crits p == k)).map (·.1)).Sublist (left.map (·.id)) := by
      refine ⟨e1pw, fun p hp => by rw [i1 p hp]; exact Nat.le_refl _, ?_, ?_⟩
      · intro ℓ
        by_cases hℓ : ℓ = idx
        · subst hℓ; rw [e1self]; exact c1
        · rw [e1none ℓ hℓ]; simp
      · intro ℓ k
        by_cases hℓ : ℓ = idx
        · subst hℓ; rw [e1and_self]; exact c2 k
        · rw [e1and_none ℓ k hℓ]; simp
    rcases hcase with ⟨rfl, rfl, rfl, rfl⟩ | ⟨rfl, e2, h2, rfl⟩
    · exact only_e1
    · obtain ⟨o1, o2, o3, o4⟩ := ih hnd1 (p6 rfl) h2
      have e2none : e2.filter (fun p => p.2.idx == idx) = [] :=
        List.filter_eq_nil_iff.mpr (fun p hp => by have := o2 p hp; simp; omega)
      have e2and_none : ∀ k, e2.filter (fun p => p.2.idx == idx && critRank crits p == k) = [] := fun k =>
        List.filter_eq_nil_iff.mpr (fun p hp => by have := o2 p hp; simp; intro e; omega)
      refine ⟨?_, ?_, ?_, ?_⟩
      · rw [List.map_append, List.pairwise_append]
        refine ⟨e1pw, o1, ?_⟩
        intro a ha b hb
        obtain ⟨pa, hpa, rfl⟩ := List.mem_map.mp ha
        obtain ⟨pb, hpb, rfl⟩ := List.mem_map.mp hb
        have := o2 pb hpb
        rw [i1 pa hpa]; omega
      · intro p hp
        rcases List.mem_append.mp hp with hp | hp
        · rw [i1 p hp]; exact Nat.le_refl _
        · have := o2 p hp; omega
      · intro ℓ
        rw [List.filter_append, List.map_append]
        by_cases hℓ : ℓ = idx
        · subst hℓ; rw [e1self, e2none]; simpa using c1
        · rw [e1none ℓ hℓ]; simpa using o3 ℓ
      · intro ℓ k
        rw [List.filter_append, List.map_append]
        by_cases hℓ : ℓ = idx
        · subst hℓ; rw [e1and_self, e2and_none]; simpa using c2 k
        · rw [e1and_none ℓ k hℓ]; simpa using (o4 ℓ k).trans (p2.map _)

end Rdm
