/-
  Lemmas for the END-TO-END theorems about the four non-utility methods (C05, C06, C11–C14), part 1:
  the part of the method parameters that NO bias ever touches, finer than `e2eTag` of E2EDecide:

    electreIII         : the distillation function;
    majority           : current choice, `randomSeed`, `randomAlternativesOrdering`, `drawResolution`;
    aspect elimination : levels function name, `randomSeed`, `randomAlternativesOrdering`, and of the levels
                         parameters the three coefficient numbers (coefficient sources) resp. the NUMBER of
                         explicit levels (thresholds source);
    satisfaction       : the same plus the current choice.

  (What a bias does change: the per-criterion weights / thresholds / ELECTRE criteria — a criterion removed
  or added —, and the per-criterion entries of explicit levels.)
  `e2emTag` is an invariant of `onRemoved`, `mergeParams`, of every `applyBias`, of the whole loop and of
  `pipeline`.  All names carry the prefix `e2em`.
-/
import Rdm.Lemmas.E2EDecide
namespace Rdm
set_option linter.unusedSectionVars false
set_option linter.unusedSimpArgs false
variable {α : Type} [Num α]

/-! ### the tag -/

/-- of the levels parameters: the three numbers of a coefficient source, or the number of explicit levels -/
def e2emLvTag : Levels α → Option (α × α × α) × Nat
  | .coef c mx mn => (some (c, mx, mn), 0)
  | .thresholds ts => (none, ts.length)

/-- everything of the method parameters that is not per criterion -/
structure E2EMTag (α : Type) where
  method : Nat                                   -- constructor index, as `e2eTag`
  cur : String                                   -- currentChoice (majority, satisfaction)
  seed : Option Int                              -- randomSeed of the method's own generator
  rnd : Bool                                     -- randomAlternativesOrdering
  draw : String                                  -- drawResolution (majority)
  fn : String                                    -- levels function (aspect, satisfaction)
  lv : Option (Option (α × α × α) × Nat)         -- `e2emLvTag` of the levels parameters
  dist : Option (LinFun α)                       -- distillation function (electreIII)

def e2emTag : MParams α → E2EMTag α
  | .ws _ => ⟨0, "", none, false, "", "", none, none⟩
  | .owa _ => ⟨1, "", none, false, "", "", none, none⟩
  | .choquet _ _ => ⟨2, "", none, false, "", "", none, none⟩
  | .electre _ dist => ⟨3, "", none, false, "", "", none, some dist⟩
  | .majority _ cur seed rnd dr => ⟨4, cur, some seed, rnd, dr, "", none, none⟩
  | .aspect fn lv seed _ rnd => ⟨5, "", some seed, rnd, "", fn, some (e2emLvTag lv), none⟩
  | .satisf fn lv seed cur rnd => ⟨6, cur, some seed, rnd, "", fn, some (e2emLvTag lv), none⟩

/-- the finer tag determines the coarse one -/
theorem e2em_tag_coarse {mp mp' : MParams α} (h : e2emTag mp' = e2emTag mp) : e2eTag mp' = e2eTag mp := by
  cases mp <;> cases mp' <;> simp [e2emTag] at h <;> simp [e2eTag, h]

/-! ### reading the tag back -/

theorem e2em_tag_electre {mp : MParams α} {ec₀ : KMap (ECrit α)} {dist : LinFun α}
    (h : e2emTag mp = e2emTag (.electre ec₀ dist : MParams α)) : ∃ ec, mp = .electre ec dist := by
  cases mp <;> simp [e2emTag] at h
  subst h
  exact ⟨_, rfl⟩

theorem e2em_tag_majority {mp : MParams α} {w₀ : KMap α} {cur : String} {seed : Int} {rnd : Bool} {dr : String}
    (h : e2emTag mp = e2emTag (.majority w₀ cur seed rnd dr : MParams α)) :
    ∃ w, mp = .majority w cur seed rnd dr := by
  cases mp <;> simp [e2emTag] at h
  obtain ⟨rfl, rfl, rfl, rfl⟩ := h
  exact ⟨_, rfl⟩

theorem e2em_tag_aspect {mp : MParams α} {fn : String} {lv₀ : Levels α} {seed : Int} {w₀ : KMap α} {rnd : Bool}
    (h : e2emTag mp = e2emTag (.aspect fn lv₀ seed w₀ rnd : MParams α)) :
    ∃ lv w, mp = .aspect fn lv seed w rnd ∧ e2emLvTag lv = e2emLvTag lv₀ := by
  cases mp <;> simp [e2emTag] at h
  obtain ⟨rfl, rfl, rfl, hl⟩ := h
  exact ⟨_, _, rfl, hl⟩

theorem e2em_tag_satisf {mp : MParams α} {fn : String} {lv₀ : Levels α} {seed : Int} {cur : String} {rnd : Bool}
    (h : e2emTag mp = e2emTag (.satisf fn lv₀ seed cur rnd : MParams α)) :
    ∃ lv, mp = .satisf fn lv seed cur rnd ∧ e2emLvTag lv = e2emLvTag lv₀ := by
  cases mp <;> simp [e2emTag] at h
  obtain ⟨rfl, rfl, rfl, rfl, hl⟩ := h
  exact ⟨_, rfl, hl⟩

/-- equal levels tags: the same coefficient parameters, or explicit lists of the same length -/
theorem e2em_lvTag_cases {lv lv₀ : Levels α} (h : e2emLvTag lv = e2emLvTag lv₀) :
    (∃ c mx mn, lv = .coef c mx mn ∧ lv₀ = .coef c mx mn) ∨
    (∃ ts ts₀, lv = .thresholds ts ∧ lv₀ = .thresholds ts₀ ∧ ts.length = ts₀.length) := by
  cases lv <;> cases lv₀ <;> simp [e2emLvTag] at h
  · obtain ⟨rfl, rfl, rfl⟩ := h
    exact Or.inl ⟨_, _, _, rfl, rfl⟩
  · exact Or.inr ⟨_, _, rfl, rfl, h⟩

/-! ### the listener operations keep the tag -/

theorem e2em_levelsOnRemoved_tag {lv lv' : Levels α} {left : List (Crit α)}
    (h : levelsOnRemoved lv left = .ok lv') : e2emLvTag lv' = e2emLvTag lv := by
  cases lv with
  | coef c mx mn =>
    simp only [levelsOnRemoved, pure, Except.pure, Except.ok.injEq] at h
    subst h; rfl
  | thresholds ts =>
    simp only [levelsOnRemoved] at h
    obtain ⟨r, hr, h⟩ := bind_eq_ok.mp h
    simp only [pure, Except.pure, Except.ok.injEq] at h
    subst h
    simp only [e2emLvTag, (mapM_ok hr).1]

theorem e2em_levelsMerge_tag {lv lv' : Levels α} {la : LvAdd α}
    (h : levelsMerge lv la = .ok lv') : e2emLvTag lv' = e2emLvTag lv := by
  cases lv with
  | coef c mx mn =>
    cases la <;> (simp only [levelsMerge, pure, Except.pure, Except.ok.injEq] at h; subst h; rfl)
  | thresholds ts =>
    cases la with
    | none => simp [levelsMerge, throw, throwThe, MonadExceptOf.throw] at h
    | thresholds us =>
      simp only [levelsMerge] at h
      split at h
      · simp [throw, throwThe, MonadExceptOf.throw] at h
      · rename_i hlen
        obtain ⟨r, hr, h⟩ := bind_eq_ok.mp h
        simp only [pure, Except.pure, Except.ok.injEq] at h
        subst h
        have := (mapM_ok hr).1
        simp only [e2emLvTag, this, List.length_zip]
        congr 1
        omega

theorem e2em_onRemoved_tag {mp mp' : MParams α} {left : List (Crit α)} (h : onRemoved mp left = .ok mp') :
    e2emTag mp' = e2emTag mp := by
  cases mp with
  | ws wc =>
    simp only [onRemoved] at h
    obtain ⟨x, _, h⟩ := bind_eq_ok.mp h
    simp only [pure, Except.pure, Except.ok.injEq] at h; subst h; rfl
  | owa wc =>
    simp only [onRemoved] at h
    obtain ⟨x, _, h⟩ := bind_eq_ok.mp h
    simp only [pure, Except.pure, Except.ok.injEq] at h; subst h; rfl
  | choquet w cs =>
    simp only [onRemoved] at h
    obtain ⟨x, _, h⟩ := bind_eq_ok.mp h
    simp only [pure, Except.pure, Except.ok.injEq] at h; subst h; rfl
  | electre ec dist =>
    simp only [onRemoved] at h
    obtain ⟨x, _, h⟩ := bind_eq_ok.mp h
    simp only [pure, Except.pure, Except.ok.injEq] at h; subst h; rfl
  | majority w cur seed rnd dr =>
    simp only [onRemoved] at h
    obtain ⟨x, _, h⟩ := bind_eq_ok.mp h
    simp only [pure, Except.pure, Except.ok.injEq] at h; subst h; rfl
  | aspect fn lv seed w rnd =>
    simp only [onRemoved] at h
    split at h
    · simp [throw, throwThe, MonadExceptOf.throw, bind, Except.bind] at h
    · simp only [pure, Except.pure, bind, Except.bind] at h
      split at h
      · cases h
      · rename_i lv' hlv
        split at h
        · cases h
        · simp only [Except.ok.injEq] at h; subst h
          simp only [e2emTag, e2em_levelsOnRemoved_tag hlv]
  | satisf fn lv seed cur rnd =>
    simp only [onRemoved] at h
    split at h
    · simp [throw, throwThe, MonadExceptOf.throw, bind, Except.bind] at h
    · simp only [pure, Except.pure, bind, Except.bind] at h
      split at h
      · cases h
      · rename_i lv' hlv
        simp only [Except.ok.injEq] at h; subst h
        simp only [e2emTag, e2em_levelsOnRemoved_tag hlv]

theorem e2em_merge_tag {mp mp' : MParams α} {add : Addition α} (h : mergeParams mp add = .ok mp') :
    e2emTag mp' = e2emTag mp := by
  cases mp <;> cases add <;> simp only [mergeParams] at h <;>
    first
    | (simp [throw, throwThe, MonadExceptOf.throw] at h; done)
    | (simp only [pure, Except.pure, Except.ok.injEq] at h; subst h; rfl)
    | (obtain ⟨x, _, h⟩ := bind_eq_ok.mp h
       simp only [pure, Except.pure, Except.ok.injEq] at h; subst h; rfl)
    | (split at h
       · simp [throw, throwThe, MonadExceptOf.throw, bind, Except.bind] at h
       · simp only [pure, Except.pure, bind, Except.bind] at h
         split at h
         · cases h
         · rename_i lv' hlv
           first
           | (simp only [Except.ok.injEq] at h; subst h
              simp only [e2emTag, e2em_levelsMerge_tag hlv])
           | (split at h
              · cases h
              · simp only [Except.ok.injEq] at h; subst h
                simp only [e2emTag, e2em_levelsMerge_tag hlv]))

/-! ### every bias, the loop, the pipeline -/

/-- no bias changes the distillation function, the heuristic's current choice, seed, ordering flag, draw
    policy, levels function, coefficient parameters or number of explicit levels -/
theorem e2em_applyBias_tag {exp : α → α} {g : Int → Draws α} {name : String} {p : BProps α}
    {orig cur res : DMP α} {rep : Report α} (h : applyBias exp g name p orig cur = .ok (res, rep)) :
    e2emTag res.mp = e2emTag cur.mp := by
  cases decideApplyBias_inv h with
  | omission hb =>
    obtain ⟨_, ordered, _, hc⟩ := BiasA.omissionApply_ok hb
    obtain ⟨_, hmp, _, _⟩ := BiasA.omitCriteria_ok hc
    exact e2em_onRemoved_tag hmp
  | reversal hb =>
    obtain ⟨_, _, _, _, _, _, hr⟩ := BiasA.reversalApply_ok hb
    obtain ⟨_, _, _, _, _, _, _, hmp, _⟩ := BiasA.reverseSelected_ok hr
    rw [hmp]
  | fatigue hb =>
    unfold fatigueApply at hb
    obtain ⟨f, _, hb⟩ := bind_eq_ok.mp hb
    obtain ⟨_, _, hmp, _⟩ := BiasA.fatigueBlur_ok hb
    rw [hmp]
  | conceal hb =>
    obtain ⟨_, _, _, _, hm⟩ := decideConceal_params hb
    exact e2em_merge_tag hm
  | mixing hb =>
    rcases decideMixing_cases hb with ⟨_, rfl, _⟩ | ⟨_, _, _, _, _, hc⟩
    · rfl
    · obtain ⟨_, _, _, _, _, _, _, hm, _⟩ := decideMixingCore_params hc
      exact e2em_merge_tag hm
  | anchoring hb =>
    obtain ⟨b, _, hi | hn⟩ := decideAnchoring_cases hb
    · obtain ⟨_, hmp, _⟩ := decideInlineApply_ok hi.2
      rw [hmp]
    · obtain ⟨ranked, ref, range, st, alts, hloop, _, hmp⟩ := decideNewCriterionApply_loop hn.2
      rw [hmp]
      refine decideNcLoop_invariant (fun _ mp => e2emTag mp = e2emTag cur.mp) ?_ _ _ _ _ _ rfl hloop
      intro st ri rp st' hq hnew
      rcases decideNcNewCriterion_cases hnew with rfl | ⟨_, _, _, _, _, _, _, _, hm⟩
      · exact hq
      · rw [e2em_merge_tag hm]; exact hq

theorem e2em_loop_tag {exp : α → α} {g : Int → Draws α} {orig : DMP α}
    (chosen : List (Chosen α (BProps α))) (cur fin : DMP α) (d : Draws α) (outs : List (BiasOut α (Report α)))
    (h : processLoop (applyBias exp g) orig chosen cur d = .ok (fin, outs)) : e2emTag fin.mp = e2emTag cur.mp := by
  refine decideLoop_invariant (Inv := fun s => e2emTag s.mp = e2emTag cur.mp) chosen ?_ cur fin d outs rfl h
  intro b _ c next rep hc ha
  exact (e2em_applyBias_tag ha).trans hc

/-- whatever biases ran, the parameters handed to `Evaluate` carry the tag of the request's parsed parameters -/
theorem e2em_pipeline_tag {exp : α → α} {req : Request α} {g : Int → Draws α} {fin : DMP α}
    {outs : List (BiasOut α (Report α))} (h : pipeline exp req g = .ok (fin, outs)) :
    ∃ mp, req.mp = some mp ∧ e2emTag fin.mp = e2emTag mp := by
  unfold pipeline at h
  obtain ⟨⟨params, chosen⟩, hp, h⟩ := bind_eq_ok.mp h
  obtain ⟨_, mp, hmp, hpp, _⟩ := decidePrepare_ok hp
  dsimp only at h
  have ht := e2em_loop_tag chosen params fin _ outs h
  obtain ⟨_, _, _, _, hpmp⟩ := e2e_prepareParams_ok hpp
  exact ⟨mp, hmp, by rw [ht, hpmp]⟩

theorem e2em_decideWith_tag {exp : α → α} {o : List (WCrit α) → List (WCrit α)} {req : Request α}
    {g : Int → Draws α} {resp : Response α} (h : decideWith exp o req g = .ok resp) :
    ∃ mp, req.mp = some mp ∧ e2emTag resp.final.mp = e2emTag mp :=
  e2em_pipeline_tag (e2e_decideWith_ok h).1

end Rdm
