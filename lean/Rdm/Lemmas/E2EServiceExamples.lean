/-
  Concrete requests (over `Rat`) for the `example`s beside the END-TO-END theorems of Props/C08 and Props/C20,
  built on the requests of Lemmas/E2EExamples.lean (four known alternatives, two criteria; bias list: a fatigue
  that fires on the draw 1/4, a preference reversal with probability 1/2 that does not fire on the draw 3/4,
  a disabled entry with undecodable props).  As there: no example lets a bias fire that ranks the criteria
  (`List.mergeSort` does not reduce in the kernel).
-/
import Rdm.Lemmas.E2EExamples
namespace Rdm

/-- the fatigue entry of `e2eExBiases` with an explicit probability -/
def e2esExFatigue (p : Option Rat) : BiasReq Rat (BProps Rat) :=
  ⟨Facts.biasFatigue, false, p, .fatigue (.const (1 / 8)) ⟨-1, false⟩ 3⟩

def e2esExReversal : BiasReq Rat (BProps Rat) :=
  ⟨Facts.biasReversal, false, some (1 / 2), .split ⟨1 / 2, 0, maxInt64⟩ "" 7⟩

def e2esExDisabled : BiasReq Rat (BProps Rat) := ⟨Facts.biasOmission, true, none, .bad⟩

/-- `e2eExWs` with the fatigue's `applyProbability` set to `p` (`none` = `e2eExWs` itself) -/
def e2esExWsP (p : Option Rat) : Request Rat :=
  { e2eExWs with biases := [e2esExFatigue p, e2esExReversal, e2esExDisabled] }

theorem e2esExWsP_none : e2esExWsP none = e2eExWs := rfl

/-- the seed table of `e2eExSeeds` with the second activation draw (the reversal's) erased -/
def e2esExSeedsErased : Seeds Rat :=
  [(5, [1 / 4]), (3, [1 / 2, 1 / 4, 3 / 4, 1 / 8, 1 / 2, 1 / 4, 3 / 4, 1 / 8]), (7, [])]

/-- a reversal with an invalid split condition (ratio 3/2) and a low probability -/
def e2esExBadReversal (p : Rat) : BiasReq Rat (BProps Rat) :=
  ⟨Facts.biasReversal, false, some p, .split ⟨3 / 2, 0, maxInt64⟩ "" 7⟩

/-- `e2eExWs` with the reversal's split ratio set to 3/2 and its probability to `p` -/
def e2esExWsBadReversal (p : Rat) : Request Rat :=
  { e2eExWs with biases := [e2esExFatigue none, e2esExBadReversal p, e2esExDisabled] }

end Rdm
