/-
  Lemmas about the majority heuristic (Model/Heuristics.lean): `prepareRanking` (majorityRanking)
  preserves ids and payloads, the tournament fold keeps its accumulators consistent.
-/
import Rdm.Model.Heuristics
import Rdm.Lemmas.HeurList
import Rdm.Lemmas.NumRat
import Mathlib.Data.List.Perm.Basic
import Mathlib.Tactic.Linarith
set_option linter.unusedSectionVars false
set_option linter.unusedSimpArgs false
namespace Rdm
variable {α : Type} [Num α]

/-! ### `majorityRanking` -/

theorem groupEntries_payload {β : Type} (worse : List String) (g : List (String × β)) :
    (groupEntries worse g).map (fun e => (e.id, e.ev)) = g := by
  unfold groupEntries
  simp only [List.map_map]
  have h : ((fun e : Linked β => (e.id, e.ev)) ∘ fun x : Nat × String × β =>
      match x with | (i, id, e) => (⟨id, e, worse ++ othersAt (g.map (·.1)) i⟩ : Linked β)) = Prod.snd := by
    funext x; obtain ⟨i, id, e⟩ := x; rfl
  rw [h]
  exact List.map_snd_zip (by simp)

theorem majorityEntries_payload {β : Type} : ∀ (worse : List String) (gs : List (List (String × β))),
    (majorityEntries worse gs).map (fun e => (e.id, e.ev)) = gs.flatten
  | _, [] => rfl
  | worse, g :: gs => by
    simp [majorityEntries, groupEntries_payload, majorityEntries_payload (g.map (·.1)) gs]

/-- the ranking lists the (id, evaluation) pairs of the drop-out groups in reverse order -/
theorem majorityRanking_payload {β : Type} (gs : List (List (String × β))) :
    (majorityRanking gs).map (fun e => (e.id, e.ev)) = gs.flatten.reverse := by
  unfold majorityRanking
  rw [List.map_reverse, majorityEntries_payload]

theorem majorityRanking_ids {β : Type} (gs : List (List (String × β))) :
    (majorityRanking gs).map (·.id) = (gs.flatten.map (·.1)).reverse := by
  have := congrArg (List.map Prod.fst) (majorityRanking_payload gs)
  simpa [Function.comp_def] using this

theorem majorityRanking_mem {β : Type} (gs : List (List (String × β))) (e : Linked β)
    (h : e ∈ majorityRanking gs) : (e.id, e.ev) ∈ gs.flatten := by
  have : (e.id, e.ev) ∈ (majorityRanking gs).map (fun e => (e.id, e.ev)) := List.mem_map.mpr ⟨e, h, rfl⟩
  rw [majorityRanking_payload] at this
  exact List.mem_reverse.mp this

/-- links only ever name members of the previous group or of the own group -/
theorem groupEntries_links {β : Type} (worse : List String) (g : List (String × β)) (e : Linked β)
    (h : e ∈ groupEntries worse g) : ∀ x ∈ e.links, x ∈ worse ∨ x ∈ g.map (·.1) := by
  unfold groupEntries at h
  obtain ⟨⟨i, id, ev⟩, _, rfl⟩ := List.mem_map.mp h
  intro x hx
  simp only at hx
  rcases List.mem_append.mp hx with hx | hx
  · left; exact hx
  · right; exact (List.eraseIdx_sublist _ _).subset hx

theorem majorityEntries_links {β : Type} : ∀ (worse : List String) (gs : List (List (String × β))) (e : Linked β),
    e ∈ majorityEntries worse gs → ∀ x ∈ e.links, x ∈ worse ∨ x ∈ gs.flatten.map (·.1)
  | _, [], e, h => by simp [majorityEntries] at h
  | worse, g :: gs, e, h => by
    intro x hx
    simp only [majorityEntries, List.mem_append] at h
    rcases h with h | h
    · rcases groupEntries_links worse g e h x hx with h1 | h1
      · left; exact h1
      · right; simp only [List.flatten_cons, List.map_append, List.mem_append]; left; exact h1
    · rcases majorityEntries_links (g.map (·.1)) gs e h x hx with h1 | h1
      · right; simp only [List.flatten_cons, List.map_append, List.mem_append]; left; exact h1
      · right; simp only [List.flatten_cons, List.map_append, List.mem_append]; right; exact h1

/-! ### the accumulators -/

/-- ids held by the accumulators, in drop-out order, the running winner last -/
def MajState.ids (st : MajState α) : List String :=
  st.worse.flatten.map (·.1) ++ st.same.map (·.1) ++ [st.cur.id]

/-- entries already written (everybody but the running winner) -/
def MajState.entries (st : MajState α) : List (MajRes α) := st.worse.flatten ++ st.same

theorem resolveAllow_ids (s1 s2 : α) (st : MajState α) (a : Alt α) :
    (resolveAllow s1 s2 st a).ids.Perm (st.ids ++ [a.id]) := by
  simp only [MajState.ids, resolveAllow, List.map_append, List.map_cons, List.map_nil, List.append_assoc]
  exact List.Perm.append_left _ (List.Perm.append_left _ (List.Perm.swap _ _ []))

theorem resolveCurrent_ids (s1 s2 : α) (st : MajState α) (a : Alt α) :
    (resolveCurrent s1 s2 st a).ids.Perm (st.ids ++ [a.id]) := by
  simp only [MajState.ids, resolveCurrent, List.flatten_append, List.flatten_cons, List.flatten_nil,
    List.map_append, List.map_cons, List.map_nil, List.append_assoc, List.append_nil]
  apply List.Perm.append_left
  have : ([a.id] ++ (st.same.map (·.1) ++ [st.cur.id])).Perm ((st.same.map (·.1) ++ [st.cur.id]) ++ [a.id]) :=
    List.perm_append_comm
  simpa using this

theorem resolveNewer_ids (s1 s2 : α) (st : MajState α) (a : Alt α) :
    (resolveNewer s1 s2 st a).ids = st.ids ++ [a.id] := by
  simp [MajState.ids, resolveNewer]

/-- inversion of `takeBetter`: which resolution was applied -/
theorem takeBetter_cases {pol : DrawPolicy} {s1 s2 : α} {st st' : MajState α} {a : Alt α} {d d' : Draws α} {ev : α}
    (h : takeBetter pol s1 s2 st a d = Except.ok ((st', ev), d')) :
    (st' = resolveAllow s1 s2 st a ∧ ev = s1 ∧ pol = .allow ∧ floatsAreEqual s1 s2 majorityEpsOf = true) ∨
    (st' = resolveCurrent s1 s2 st a ∧ ev = s1 ∧
       (floatsAreEqual s1 s2 majorityEpsOf = true ∨ s2 < s1)) ∨
    (st' = resolveNewer s1 s2 st a ∧
       ((ev = s1 ∧ floatsAreEqual s1 s2 majorityEpsOf = true) ∨
        (ev = s2 ∧ floatsAreEqual s1 s2 majorityEpsOf = false ∧ ¬ s2 < s1))) := by
  unfold takeBetter at h
  by_cases heq : floatsAreEqual s1 s2 majorityEpsOf = true
  · simp only [heq, if_true] at h
    obtain ⟨⟨st1, d1⟩, hr, h⟩ := R.bind_eq_ok h
    simp at h
    obtain ⟨⟨rfl, rfl⟩, rfl⟩ := h
    unfold resolveDraw at hr
    cases pol with
    | allow => simp at hr; left; exact ⟨hr.1.symm, rfl, rfl, heq⟩
    | current => simp at hr; right; left; exact ⟨hr.1.symm, rfl, Or.inl heq⟩
    | newer => simp at hr; right; right; exact ⟨hr.1.symm, Or.inl ⟨rfl, heq⟩⟩
    | random =>
      simp only at hr
      obtain ⟨⟨u, d2⟩, _, hr⟩ := R.bind_eq_ok hr
      by_cases hu : u < Num.ofConst Facts.randomWinnerHalf
      · simp [hu] at hr; right; left; exact ⟨hr.1.symm, rfl, Or.inl heq⟩
      · simp [hu] at hr; right; right; exact ⟨hr.1.symm, Or.inl ⟨rfl, heq⟩⟩
  · simp only [heq] at h
    by_cases hlt : s2 < s1
    · simp [hlt] at h
      right; left; exact ⟨h.1.1.symm, h.1.2.symm, Or.inr hlt⟩
    · simp [hlt] at h
      right; right; exact ⟨h.1.1.symm, Or.inr ⟨h.1.2.symm, by simpa using heq, hlt⟩⟩

theorem takeBetter_ids {pol : DrawPolicy} {s1 s2 : α} {st st' : MajState α} {a : Alt α} {d d' : Draws α} {ev : α}
    (h : takeBetter pol s1 s2 st a d = Except.ok ((st', ev), d')) : st'.ids.Perm (st.ids ++ [a.id]) := by
  rcases takeBetter_cases h with ⟨rfl, _⟩ | ⟨rfl, _⟩ | ⟨rfl, _⟩
  · exact resolveAllow_ids _ _ _ _
  · exact resolveCurrent_ids _ _ _ _
  · rw [resolveNewer_ids]

/-- inversion of one step of the fold -/
theorem majorityFold_cons_ok {pol : DrawPolicy} {wc : List (WCrit α)} {a : Alt α} {rest : List (Alt α)}
    {st stF : MajState α} {ev evF : α} {d dF : Draws α}
    (h : majorityFold pol wc (a :: rest) st ev d = Except.ok ((stF, evF), dF)) :
    ∃ s1 s2 st' ev' d', compareAlts wc st.cur a = Except.ok (s1, s2) ∧
      takeBetter pol s1 s2 st a d = Except.ok ((st', ev'), d') ∧
      majorityFold pol wc rest st' ev' d' = Except.ok ((stF, evF), dF) := by
  unfold majorityFold at h
  obtain ⟨⟨s1, s2⟩, h1, h⟩ := R.bind_eq_ok h
  obtain ⟨⟨⟨st', ev'⟩, d'⟩, h2, h⟩ := R.bind_eq_ok h
  exact ⟨s1, s2, st', ev', d', h1, h2, h⟩

theorem majorityFold_ids {pol : DrawPolicy} {wc : List (WCrit α)} :
    ∀ {rest : List (Alt α)} {st stF : MajState α} {ev evF : α} {d dF : Draws α},
      majorityFold pol wc rest st ev d = Except.ok ((stF, evF), dF) →
      stF.ids.Perm (st.ids ++ rest.map (·.id)) := by
  intro rest
  induction rest with
  | nil =>
    intro st stF ev evF d dF h
    simp [majorityFold] at h
    rw [h.1.1]; simp
  | cons a rest ih =>
    intro st stF ev evF d dF h
    obtain ⟨s1, s2, st', ev', d', _, h2, h3⟩ := majorityFold_cons_ok h
    have := (ih h3).trans (List.Perm.append_right _ (takeBetter_ids h2))
    simpa using this

/-- the running winner is always one of the alternatives met so far -/
theorem majorityFold_cur_mem {pol : DrawPolicy} {wc : List (WCrit α)} :
    ∀ {rest : List (Alt α)} {st stF : MajState α} {ev evF : α} {d dF : Draws α},
      majorityFold pol wc rest st ev d = Except.ok ((stF, evF), dF) → stF.cur ∈ st.cur :: rest := by
  intro rest
  induction rest with
  | nil =>
    intro st stF ev evF d dF h
    simp [majorityFold] at h
    simp [h.1.1]
  | cons a rest ih =>
    intro st stF ev evF d dF h
    obtain ⟨s1, s2, st', ev', d', _, h2, h3⟩ := majorityFold_cons_ok h
    have hm := ih h3
    have hc : st'.cur = st.cur ∨ st'.cur = a := by
      rcases takeBetter_cases h2 with ⟨rfl, _⟩ | ⟨rfl, _⟩ | ⟨rfl, _⟩
      · left; rfl
      · left; rfl
      · right; rfl
    rcases List.mem_cons.mp hm with hm | hm
    · rcases hc with hc | hc
      · simp [hm, hc]
      · simp [hm, hc]
    · simp [hm]

/-! ### what the written entries say -/

/-- "did not score higher than the opponent": eps-equal, or lower, or at least not higher -/
def NotHigher (v cav : α) : Prop :=
  floatsAreEqual v cav majorityEpsOf = true ∨ floatsAreEqual cav v majorityEpsOf = true ∨ v < cav ∨ ¬ cav < v

/-- an entry `p` is a faithful report of a match between two alternatives met so far -/
def EntryOk (wc : List (WCrit α)) (seen : List (Alt α)) (p : MajRes α) : Prop :=
  ∃ a ∈ seen, ∃ b ∈ seen, a.id = p.1 ∧ b.id = p.2.cmp ∧ p.2.cmp ≠ p.1 ∧
    (compareAlts wc a b = Except.ok (p.2.value, p.2.cav) ∨ compareAlts wc b a = Except.ok (p.2.cav, p.2.value)) ∧
    NotHigher p.2.value p.2.cav

theorem EntryOk.mono {wc : List (WCrit α)} {seen seen' : List (Alt α)} {p : MajRes α}
    (h : EntryOk wc seen p) (hs : ∀ x ∈ seen, x ∈ seen') : EntryOk wc seen' p := by
  obtain ⟨a, ha, b, hb, r⟩ := h
  exact ⟨a, hs a ha, b, hs b hb, r⟩

theorem takeBetter_entries {pol : DrawPolicy} {wc : List (WCrit α)} {s1 s2 : α} {st st' : MajState α} {a : Alt α}
    {d d' : Draws α} {ev : α} {seen : List (Alt α)}
    (hc : compareAlts wc st.cur a = Except.ok (s1, s2))
    (h : takeBetter pol s1 s2 st a d = Except.ok ((st', ev), d'))
    (hcur : st.cur ∈ seen) (hall : ∀ p ∈ st.entries, EntryOk wc seen p)
    (hnew : a.id ∉ seen.map (·.id)) :
    st'.cur ∈ seen ++ [a] ∧ ∀ p ∈ st'.entries, EntryOk wc (seen ++ [a]) p := by
  have hmono : ∀ p ∈ st.entries, EntryOk wc (seen ++ [a]) p :=
    fun p hp => (hall p hp).mono (fun x hx => by simp [hx])
  have hne : st.cur.id ≠ a.id := fun e => hnew (e ▸ List.mem_map.mpr ⟨st.cur, hcur, rfl⟩)
  have challenger : ∀ (hh : floatsAreEqual s1 s2 majorityEpsOf = true ∨ s2 < s1),
      EntryOk wc (seen ++ [a]) (a.id, ⟨s2, st.cur.id, s1⟩) := by
    intro hh
    refine ⟨a, by simp, st.cur, by simp [hcur], rfl, rfl, hne, Or.inr hc, ?_⟩
    rcases hh with hh | hh
    · right; left; exact hh
    · right; right; left; exact hh
  rcases takeBetter_cases h with ⟨rfl, _, _, heq⟩ | ⟨rfl, _, hh⟩ | ⟨rfl, hh⟩
  · refine ⟨by simp [resolveAllow, hcur], ?_⟩
    intro p hp
    simp only [MajState.entries, resolveAllow, List.mem_append, List.mem_singleton] at hp
    rcases hp with hp | hp | rfl
    · exact hmono p (by simp [MajState.entries, hp])
    · exact hmono p (by simp [MajState.entries, hp])
    · exact challenger (Or.inl heq)
  · refine ⟨by simp [resolveCurrent, hcur], ?_⟩
    intro p hp
    simp only [MajState.entries, resolveCurrent, List.flatten_append, List.flatten_cons, List.flatten_nil,
      List.mem_append, List.append_nil, List.mem_singleton] at hp
    rcases hp with (hp | rfl) | hp
    · exact hmono p (by simp [MajState.entries, hp])
    · exact challenger hh
    · exact hmono p (by simp [MajState.entries, hp])
  · refine ⟨by simp [resolveNewer], ?_⟩
    intro p hp
    simp only [MajState.entries, resolveNewer, List.flatten_append, List.flatten_cons, List.flatten_nil,
      List.mem_append, List.append_nil, List.mem_singleton, List.not_mem_nil, or_false] at hp
    rcases hp with hp | hp | rfl
    · exact hmono p (by simp [MajState.entries, hp])
    · exact hmono p (by simp [MajState.entries, hp])
    · refine ⟨st.cur, by simp [hcur], a, by simp, rfl, rfl, fun e => hne e.symm, Or.inl hc, ?_⟩
      rcases hh with ⟨_, heq⟩ | ⟨_, _, hlt⟩
      · left; exact heq
      · right; right; right; exact hlt

theorem majorityFold_entries {pol : DrawPolicy} {wc : List (WCrit α)} :
    ∀ {rest : List (Alt α)} {st stF : MajState α} {ev evF : α} {d dF : Draws α} {seen : List (Alt α)},
      majorityFold pol wc rest st ev d = Except.ok ((stF, evF), dF) →
      st.cur ∈ seen → (∀ p ∈ st.entries, EntryOk wc seen p) → ((seen ++ rest).map (·.id)).Nodup →
      stF.cur ∈ seen ++ rest ∧ ∀ p ∈ stF.entries, EntryOk wc (seen ++ rest) p := by
  intro rest
  induction rest with
  | nil =>
    intro st stF ev evF d dF seen h hcur hall _
    simp [majorityFold] at h
    obtain ⟨⟨rfl, _⟩, _⟩ := h
    rw [List.append_nil]
    exact ⟨hcur, hall⟩
  | cons a rest ih =>
    intro st stF ev evF d dF seen h hcur hall hnd
    obtain ⟨s1, s2, st', ev', d', h1, h2, h3⟩ := majorityFold_cons_ok h
    have hnew : a.id ∉ seen.map (·.id) := by
      intro hm
      rw [List.map_append, List.map_cons] at hnd
      exact (List.nodup_append.mp hnd).2.2 _ hm _ (by simp) rfl
    obtain ⟨c1, c2⟩ := takeBetter_entries h1 h2 hcur hall hnew
    have := ih h3 c1 c2 (by simpa using hnd)
    simpa using this

/-! ### group structure: the opponent sits in the same or in a later drop-out group -/

/-- every parked entry names the running winner; every entry of a dropped group names a member of
    its own group, of a group dropped later, of the tie buffer, or the running winner -/
def GroupInv (st : MajState α) : Prop :=
  (∀ p ∈ st.same, p.2.cmp = st.cur.id) ∧
  ∀ (k : Nat) (hk : k < st.worse.length), ∀ p ∈ st.worse[k],
    p.2.cmp ∈ (st.worse[k]).map (·.1) ∨ p.2.cmp ∈ ((st.worse.drop (k + 1)).flatten).map (·.1) ∨
    p.2.cmp ∈ st.same.map (·.1) ∨ p.2.cmp = st.cur.id

theorem GroupInv.allow {st : MajState α} (h : GroupInv st) (s1 s2 : α) (a : Alt α) :
    GroupInv (resolveAllow s1 s2 st a) := by
  obtain ⟨j1, j2⟩ := h
  refine ⟨?_, ?_⟩
  · intro p hp
    simp only [resolveAllow, List.mem_append, List.mem_singleton] at hp
    rcases hp with hp | rfl
    · exact j1 p hp
    · rfl
  · intro k hk p hp
    simp only [resolveAllow] at hk hp ⊢
    rcases j2 k hk p hp with h | h | h | h
    · exact Or.inl h
    · exact Or.inr (Or.inl h)
    · exact Or.inr (Or.inr (Or.inl (by simp [h])))
    · exact Or.inr (Or.inr (Or.inr h))

theorem GroupInv.current {st : MajState α} (h : GroupInv st) (s1 s2 : α) (a : Alt α) :
    GroupInv (resolveCurrent s1 s2 st a) := by
  obtain ⟨j1, j2⟩ := h
  refine ⟨j1, ?_⟩
  intro k hk p hp
  simp only [resolveCurrent] at hk hp ⊢
  by_cases hkw : k < st.worse.length
  · rw [List.getElem_append_left hkw] at hp ⊢
    rcases j2 k hkw p hp with h | h | h | h
    · exact Or.inl h
    · refine Or.inr (Or.inl ?_)
      rw [List.drop_append_of_le_length (by omega)]
      simp only [List.flatten_append, List.map_append, List.mem_append]
      exact Or.inl h
    · exact Or.inr (Or.inr (Or.inl h))
    · exact Or.inr (Or.inr (Or.inr h))
  · have hk' : k = st.worse.length := by simp at hk; omega
    subst hk'
    simp at hp
    subst hp
    exact Or.inr (Or.inr (Or.inr rfl))

theorem GroupInv.newer {st : MajState α} (h : GroupInv st) (s1 s2 : α) (a : Alt α) :
    GroupInv (resolveNewer s1 s2 st a) := by
  obtain ⟨j1, j2⟩ := h
  refine ⟨by simp [resolveNewer], ?_⟩
  intro k hk p hp
  simp only [resolveNewer] at hk hp ⊢
  by_cases hkw : k < st.worse.length
  · rw [List.getElem_append_left hkw] at hp ⊢
    rw [List.drop_append_of_le_length (by omega)]
    simp only [List.flatten_append, List.flatten_cons, List.flatten_nil, List.append_nil, List.map_append,
      List.map_cons, List.map_nil, List.mem_append, List.mem_singleton]
    rcases j2 k hkw p hp with h | h | h | h
    · exact Or.inl h
    · exact Or.inr (Or.inl (Or.inl h))
    · exact Or.inr (Or.inl (Or.inr (Or.inl h)))
    · exact Or.inr (Or.inl (Or.inr (Or.inr h)))
  · have hk' : k = st.worse.length := by simp at hk; omega
    subst hk'
    simp only [List.getElem_append_right (Nat.le_refl _), Nat.sub_self, List.getElem_cons_zero,
      List.mem_append, List.mem_singleton] at hp ⊢
    rcases hp with hp | rfl
    · left
      simp only [List.map_append, List.map_cons, List.map_nil, List.mem_append, List.mem_singleton]
      right; exact j1 p hp
    · exact Or.inr (Or.inr (Or.inr rfl))

theorem majorityFold_groupInv {pol : DrawPolicy} {wc : List (WCrit α)} :
    ∀ {rest : List (Alt α)} {st stF : MajState α} {ev evF : α} {d dF : Draws α},
      majorityFold pol wc rest st ev d = Except.ok ((stF, evF), dF) → GroupInv st → GroupInv stF := by
  intro rest
  induction rest with
  | nil =>
    intro st stF ev evF d dF h hi
    simp [majorityFold] at h
    rw [← h.1.1]; exact hi
  | cons a rest ih =>
    intro st stF ev evF d dF h hi
    obtain ⟨s1, s2, st', ev', d', _, h2, h3⟩ := majorityFold_cons_ok h
    apply ih h3
    rcases takeBetter_cases h2 with ⟨rfl, _⟩ | ⟨rfl, _⟩ | ⟨rfl, _⟩
    · exact hi.allow _ _ _
    · exact hi.current _ _ _
    · exact hi.newer _ _ _

/-- unless draws are allowed the tie buffer stays empty and every dropped group is a singleton -/
def SingletonInv (st : MajState α) : Prop := st.same = [] ∧ ∀ g ∈ st.worse, g.length = 1

theorem majorityFold_singletons {pol : DrawPolicy} (hpol : pol ≠ .allow) {wc : List (WCrit α)} :
    ∀ {rest : List (Alt α)} {st stF : MajState α} {ev evF : α} {d dF : Draws α},
      majorityFold pol wc rest st ev d = Except.ok ((stF, evF), dF) → SingletonInv st → SingletonInv stF := by
  intro rest
  induction rest with
  | nil =>
    intro st stF ev evF d dF h hi
    simp [majorityFold] at h
    rw [← h.1.1]; exact hi
  | cons a rest ih =>
    intro st stF ev evF d dF h hi
    obtain ⟨s1, s2, st', ev', d', _, h2, h3⟩ := majorityFold_cons_ok h
    apply ih h3
    obtain ⟨i1, i2⟩ := hi
    rcases takeBetter_cases h2 with ⟨_, _, hp, _⟩ | ⟨rfl, _⟩ | ⟨rfl, _⟩
    · exact absurd hp hpol
    · refine ⟨i1, ?_⟩
      intro g hg
      simp only [resolveCurrent, List.mem_append, List.mem_singleton] at hg
      rcases hg with hg | rfl
      · exact i2 g hg
      · rfl
    · refine ⟨rfl, ?_⟩
      intro g hg
      simp only [resolveNewer, List.mem_append, List.mem_singleton] at hg
      rcases hg with hg | rfl
      · exact i2 g hg
      · simp [i1]

/-! ### scores (over the rationals) -/

/-- `a` is better than `b` on criterion `c` by more than `eps` (signed values) -/
def betterBy (eps : Rat) (a b : Alt Rat) (c : WCrit Rat) : Bool :=
  match a.signed c.crit, b.signed c.crit with
  | .ok va, .ok vb => decide (eps < va - vb)
  | _, _ => false

/-- total weight of the criteria on which `a` is strictly better than `b` -/
def scoreOf (eps : Rat) (a b : Alt Rat) (wc : List (WCrit Rat)) : Rat :=
  ((wc.filter (betterBy eps a b)).map (·.w)).sum

theorem scoreOf_cons (eps : Rat) (a b : Alt Rat) (c : WCrit Rat) (wc : List (WCrit Rat)) :
    scoreOf eps a b (c :: wc) = (if betterBy eps a b c then c.w else 0) + scoreOf eps a b wc := by
  unfold scoreOf
  by_cases h : betterBy eps a b c = true <;> simp [List.filter_cons, h]

theorem floatsAreEqual_rat (a b eps : Rat) : floatsAreEqual a b eps = decide ((if a - b < 0 then -(a - b) else a - b) ≤ eps) := rfl

theorem compareLoop_scores (eps : Rat) (h0 : 0 ≤ eps) (a1 a2 : Alt Rat) :
    ∀ (wc : List (WCrit Rat)) (s1 s2 r1 r2 : Rat), compareLoop eps a1 a2 wc s1 s2 = Except.ok (r1, r2) →
      r1 = s1 + scoreOf eps a1 a2 wc ∧ r2 = s2 + scoreOf eps a2 a1 wc := by
  intro wc
  induction wc with
  | nil =>
    intro s1 s2 r1 r2 h
    simp [compareLoop] at h
    simp [scoreOf, h.1, h.2]
  | cons c cs ih =>
    intro s1 s2 r1 r2 h
    unfold compareLoop at h
    obtain ⟨v1, hv1, h⟩ := R.bind_eq_ok h
    obtain ⟨v2, hv2, h⟩ := R.bind_eq_ok h
    rw [scoreOf_cons, scoreOf_cons]
    have b12 : betterBy eps a1 a2 c = decide (eps < v1 - v2) := by simp [betterBy, hv1, hv2]
    have b21 : betterBy eps a2 a1 c = decide (eps < v2 - v1) := by simp [betterBy, hv1, hv2]
    rw [b12, b21]
    rw [floatsAreEqual_rat] at h
    by_cases heq : (if v1 - v2 < 0 then -(v1 - v2) else v1 - v2) ≤ eps
    · simp only [heq, decide_true, if_true] at h
      obtain ⟨i1, i2⟩ := ih _ _ _ _ h
      have n1 : ¬ eps < v1 - v2 := by split at heq <;> linarith
      have n2 : ¬ eps < v2 - v1 := by split at heq <;> linarith
      simp [n1, n2, i1, i2]
    · simp only [heq, decide_false, Bool.false_eq_true, if_false] at h
      by_cases hgt : v2 < v1
      · simp only [Num.gt_rat, hgt, decide_true, if_true] at h
        obtain ⟨i1, i2⟩ := ih _ _ _ _ h
        have n1 : eps < v1 - v2 := by split at heq <;> linarith
        have n2 : ¬ eps < v2 - v1 := by linarith
        simp [n1, n2, i1, i2, add_assoc]
      · simp only [Num.gt_rat, hgt, decide_false, Bool.false_eq_true, if_false] at h
        obtain ⟨i1, i2⟩ := ih _ _ _ _ h
        have n1 : ¬ eps < v1 - v2 := by linarith
        have n2 : eps < v2 - v1 := by split at heq <;> linarith
        simp [n1, n2, i1, i2, add_assoc]

end Rdm
