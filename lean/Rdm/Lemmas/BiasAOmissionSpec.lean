/-
  C15 — the spec checker `Spec.C15.check` (the one the driver op `check-c15` evaluates on the
  implementation's output) accepts the model's output: `c15spec_check`, with the clause lemmas
  `c15spec_partitionOk`, `c15spec_altsRestricted`, `c15spec_importanceOk` (count clause:
  `split_countOk` of BiasAOmission).
-/
import Rdm.Lemmas.BiasAOmission
import Rdm.Lemmas.BiasAReduced
import Rdm.Lemmas.BiasACumulated
import Rdm.Lemmas.BiasAFatigueSpec
import Mathlib.Data.List.Perm.Basic
import Mathlib.Data.List.Nodup
import Mathlib.Data.List.Forall2
import Mathlib.Tactic.Linarith
import Mathlib.Tactic.Ring
set_option linter.unusedSectionVars false
set_option linter.unusedSimpArgs false
open Rdm
namespace Rdm.BiasA
variable {α : Type} [Num α]

/-! ### `nodupStr`, `sameIds` -/

theorem c15spec_nodupStr_iff (l : List String) : Spec.C15.nodupStr l = true ↔ l.Nodup := by
  induction l with
  | nil => simp [Spec.C15.nodupStr]
  | cons x xs ih =>
    simp only [Spec.C15.nodupStr, Bool.and_eq_true, Bool.not_eq_true', List.nodup_cons, ih]
    constructor
    · rintro ⟨h1, h2⟩
      refine ⟨?_, h2⟩
      intro hm
      rw [← List.contains_iff_mem] at hm
      rw [hm] at h1; cases h1
    · rintro ⟨h1, h2⟩
      refine ⟨?_, h2⟩
      cases hc : xs.contains x with
      | false => rfl
      | true => exact absurd (List.contains_iff_mem.1 hc) h1

/-- two duplicate-free lists that are permutations of each other are the same id sets -/
theorem c15spec_sameIds_of_perm {a b : List String} (hp : a.Perm b) (hb : b.Nodup) :
    Spec.C15.sameIds a b = true := by
  unfold Spec.C15.sameIds
  simp only [Bool.and_eq_true, beq_iff_eq, List.all_eq_true, List.contains_iff_mem]
  exact ⟨⟨⟨(c15spec_nodupStr_iff a).2 (hp.nodup_iff.2 hb), (c15spec_nodupStr_iff b).2 hb⟩, hp.length_eq⟩,
    fun x hx => hp.mem_iff.1 hx⟩

/-! ### the partition clause -/

theorem c15spec_omission_perm {eps : α} {c : SplitCond α} {name : String} {cur res : DMP α}
    {d : Draws α} {omitted : List (Crit α)}
    (h : omissionApply eps c name cur d = .ok (res, omitted)) :
    (omitted ++ res.crit).Perm cur.crit := by
  obtain ⟨_, ordered, ho, hc⟩ := omissionApply_ok h
  obtain ⟨hs, _, _, _⟩ := omitCriteria_ok hc
  exact split_append hs ▸ orderCriteria_perm ho

theorem c15spec_partitionOk {eps : Rat} {c : SplitCond Rat} {name : String} {cur res : DMP Rat}
    {d : Draws Rat} {omitted : List (Crit Rat)}
    (h : omissionApply eps c name cur d = .ok (res, omitted))
    (hnd : (cur.crit.map (·.id)).Nodup) :
    Spec.C15.partitionOk cur.crit omitted res.crit = true := by
  have hp := c15spec_omission_perm h
  have hnd' : ((omitted ++ res.crit).map (·.id)).Nodup := (hp.map _).nodup_iff.2 hnd
  have hmem : ∀ x ∈ omitted ++ res.crit, cur.crit.any (Spec.C15.critEq x) = true := by
    intro x hx
    rw [List.any_eq_true]
    exact ⟨x, hp.mem_iff.1 hx, critEq_refl x⟩
  unfold Spec.C15.partitionOk
  simp only [Bool.and_eq_true, List.all_eq_true]
  refine ⟨⟨⟨fun o ho => hmem o (List.mem_append_left _ ho), fun k hk => hmem k (List.mem_append_right _ hk)⟩,
    ?_⟩, c15spec_sameIds_of_perm (hp.map _) hnd⟩
  intro o ho
  rw [Bool.not_eq_true', ← Bool.not_eq_true, List.any_eq_true]
  rintro ⟨k, hk, hko⟩
  rw [beq_iff_eq] at hko
  rw [List.map_append, List.nodup_append] at hnd'
  exact hnd'.2.2 _ (List.mem_map_of_mem ho) _ (List.mem_map_of_mem hk) hko.symm

/-! ### the restriction clauses -/

theorem c15spec_altsRestricted {alts res : List (Alt Rat)} {kept : List (Crit Rat)}
    (h : preserveCriteria alts kept = .ok res) (hnd : (kept.map (·.id)).Nodup) :
    Spec.C15.altsRestricted kept alts res = true := by
  unfold preserveCriteria at h
  have hf := mapM_ok_forall₂ h
  rw [List.forall₂_iff_zip] at hf
  unfold Spec.C15.altsRestricted
  simp only [Bool.and_eq_true, beq_iff_eq, List.all_eq_true]
  refine ⟨hf.1, ?_⟩
  rintro ⟨a, a'⟩ hz
  obtain ⟨h1, h2, h3⟩ := withOnly_ok (hf.2 hz)
  refine ⟨⟨h1.symm, ?_⟩, ?_⟩
  · rw [h2]; exact c15spec_sameIds_of_perm (.refl _) hnd
  · intro k hk
    obtain ⟨e, hs⟩ := h3 k hk
    simp only
    rw [e]
    cases hv : a.vals.get? k.id with
    | none => rw [hv] at hs; cases hs
    | some v => simp

/-! ### the sums of the spec versus the sums of the cumulated map -/

/-- the spec's sum (missing value = 0) is the model's sum over the alternatives that hold the
    criterion, for every `f` with `f 0 = 0` -/
theorem c15spec_sumVals_eq (co : List (Alt Rat)) (id : String) (f : Rat → Rat) (hf : f 0 = 0) :
    Spec.C15.sumVals co id f = sumOver co id f := by
  unfold Spec.C15.sumVals sumOver
  rw [Num.zero_rat]
  congr 1
  funext t a
  cases a.vals.get? id with
  | none => simp [hf]
  | some v => rfl

theorem c15spec_absR_zero : Spec.C15.absR 0 = 0 := by unfold Spec.C15.absR; simp

theorem c15spec_absR_nonneg (x : Rat) : 0 ≤ Spec.C15.absR x := by
  rw [absR_eq_abs]; exact abs_nonneg x

theorem c15spec_sumVals_abs_nonneg (co : List (Alt Rat)) (id : String) :
    0 ≤ Spec.C15.sumVals co id Spec.C15.absR := by
  unfold Spec.C15.sumVals
  have key : ∀ (l : List (Alt Rat)) (z : Rat), 0 ≤ z →
      0 ≤ l.foldl (fun t a => t + Spec.C15.absR ((a.vals.get? id).getD 0)) z := by
    intro l
    induction l with
    | nil => intro z hz; exact hz
    | cons a l ih =>
      intro z hz
      rw [List.foldl_cons]
      exact ih _ (add_nonneg hz (c15spec_absR_nonneg _))
  exact key co 0 le_rfl

/-- distributivity: a fold adding `w·v` for every held value is `w · Σ v` (stated for any step
    function that is pointwise of that shape, so that it applies to the fold `cumulated_sum` returns) -/
theorem c15spec_sum_mul (w : Rat) (co : List (Alt Rat)) (id : String) (F : Rat → Alt Rat → Rat)
    (hF : ∀ t a, F t a = t + w * ((a.vals.get? id).getD 0)) :
    co.foldl F Num.zero = w * Spec.C15.sumVals co id _root_.id := by
  unfold Spec.C15.sumVals
  have key : ∀ (l : List (Alt Rat)) (z : Rat),
      l.foldl F (w * z) = w * l.foldl (fun t a => t + _root_.id ((a.vals.get? id).getD 0)) z := by
    intro l
    induction l with
    | nil => intro z; rfl
    | cons a l ih =>
      intro z
      rw [List.foldl_cons, List.foldl_cons, ← ih, hF]
      congr 1
      simp only [_root_.id]; ring
  have := key co 0
  rw [mul_zero] at this
  rw [Num.zero_rat]
  exact this

/-! ### a successful accumulation ran its mapper on every value -/

theorem c15spec_foldlM_ok_mem {ε β γ : Type} {f : γ → β → Except ε γ} :
    ∀ {l : List β} {init r : γ}, l.foldlM f init = .ok r → ∀ x ∈ l, ∃ acc acc', f acc x = .ok acc' := by
  intro l
  induction l with
  | nil => intro _ _ _ x hx; cases hx
  | cons y ys ih =>
    intro init r h x hx
    rw [List.foldlM_cons, bind_ok] at h
    obtain ⟨mid, hmid, h⟩ := h
    rcases List.mem_cons.1 hx with rfl | hx'
    · exact ⟨init, mid, hmid⟩
    · exact ih h x hx'

theorem c15spec_cumulated_mapper_ok {cs : List (Crit α)} {co : List (Alt α)} {mapper : String → α → R α}
    {w : KMap α} (h : cumulated cs co mapper = .ok w) :
    ∀ a ∈ co, ∀ kv ∈ a.vals, ∃ m, mapper kv.1 kv.2 = .ok m := by
  rw [cumulated_eq_foldlM] at h
  intro a ha kv hkv
  obtain ⟨w1, w2, h1⟩ := c15spec_foldlM_ok_mem h a ha
  obtain ⟨w3, w4, h2⟩ := c15spec_foldlM_ok_mem h1 kv hkv
  unfold cumStep at h2
  rw [bind_ok] at h2
  obtain ⟨m, hm, _⟩ := h2
  exact ⟨m, hm⟩

/-- the weight the weighted-sum parameters hold for a criterion id (0 when absent) -/
def c15spec_wt (wc : List (WCrit Rat)) (k : String) : Rat :=
  match wc.find? (fun x => x.crit.id == k) with
  | some x => x.w
  | none => 0

theorem c15spec_findWCrit_ok {wc : List (WCrit α)} {k : String} {x : WCrit α} :
    findWCrit wc k = .ok x ↔ wc.find? (fun c => c.crit.id == k) = some x := by
  unfold findWCrit
  cases h : wc.find? (fun c => c.crit.id == k) <;> simp [pure, Except.pure, throw, throwThe, MonadExceptOf.throw]

theorem c15spec_lookup_map_k (ec : KMap (ECrit Rat)) (id : String) :
    KMap.get? (ec.map fun p => (p.1, p.2.k)) id = (ec.get? id).map (·.k) := by
  simp only [KMap.get?]
  induction ec with
  | nil => rfl
  | cons p ps ih =>
    simp only [List.map_cons, lookup_cons_ite]
    split_ifs
    · rfl
    · exact ih

/-! ### the spec's importance of every ranked criterion is the weight the ranking carries -/

/-- the three sum-based methods: the cumulated map holds, for every declared criterion, `wt · Σ v`
    where `wt k` is what the (successful) mapper multiplies the values of key `k` with -/
theorem c15spec_cumulated_get {cs : List (Crit Rat)} {co : List (Alt Rat)} {mapper : String → Rat → R Rat}
    {wt : String → Rat} {w : KMap Rat} (h : cumulated cs co mapper = .ok w)
    (hm : ∀ a ∈ co, ∀ kv ∈ a.vals, mapper kv.1 kv.2 = .ok (wt kv.1 * kv.2))
    (hnd : ∀ a ∈ co, a.vals.keys.Nodup) :
    ∀ c ∈ cs, w.get? c.id = some (wt c.id * Spec.C15.sumVals co c.id id) := by
  obtain ⟨w', hw', hget⟩ := cumulated_sum (cs := cs) (g := fun k v => wt k * v) hm hnd
  rw [h] at hw'
  cases hw'
  intro c hc
  rw [hget c hc, c15spec_sum_mul (wt c.id)]
  intro t a
  cases a.vals.get? c.id <;> simp

theorem c15spec_importance_ranked {eps : Rat} {cur : DMP Rat} {ranked : List (WCrit Rat)}
    (hr : rankAsc eps cur = .ok ranked)
    (hnd : (cur.crit.map (·.id)).Nodup)
    (hco : ∀ a ∈ cur.co, a.vals.keys.Nodup)
    (hws : ∀ wc, cur.mp = .ws wc → ∀ c ∈ cur.crit, ∃ x ∈ wc, x.crit.id = c.id) :
    ∀ x ∈ ranked, ∃ m, Spec.C15.importance cur ranked x.crit = some (x.w, m) ∧ 0 ≤ m := by
  have hperm := rankAsc_perm hr
  have hmem : ∀ x ∈ ranked, x.crit ∈ cur.crit := fun x hx => hperm.mem_iff.1 (List.mem_map_of_mem hx)
  have hr' := hr
  rw [rankAsc_eq_sort, bind_ok] at hr'
  obtain ⟨w, hw, hs⟩ := hr'
  have hget := sortByWeights_weight hs
  intro x hx
  unfold importanceMap at hw
  unfold Spec.C15.importance
  cases hmp : cur.mp with
  | ws wc =>
    rw [hmp] at hw
    simp only
    -- every declared criterion has an entry
    obtain ⟨y, hy, hyid⟩ := hws wc hmp x.crit (hmem x hx)
    have hsome : (wc.find? fun z => z.crit.id == x.crit.id).isSome := by
      rw [List.find?_isSome]; exact ⟨y, hy, by simpa using hyid⟩
    obtain ⟨y', hy'⟩ := Option.isSome_iff_exists.1 hsome
    -- the mapper succeeded on every value of every considered alternative
    have hm : ∀ a ∈ cur.co, ∀ kv ∈ a.vals,
        (do pure ((← findWCrit wc kv.1).w * kv.2) : R Rat) = .ok (c15spec_wt wc kv.1 * kv.2) := by
      intro a ha kv hkv
      obtain ⟨m, hm⟩ := c15spec_cumulated_mapper_ok hw a ha kv hkv
      rw [bind_ok] at hm
      obtain ⟨z, hz, _⟩ := hm
      rw [hz, ok_bind]
      have : c15spec_wt wc kv.1 = z.w := by
        unfold c15spec_wt; rw [c15spec_findWCrit_ok.1 hz]
      rw [this]; rfl
    have hval := c15spec_cumulated_get (wt := c15spec_wt wc) hw hm hco x.crit (hmem x hx)
    rw [hget x hx] at hval
    have hwt : c15spec_wt wc x.crit.id = y'.w := by unfold c15spec_wt; rw [hy']
    rw [hwt] at hval
    rw [hy']
    refine ⟨_, by rw [Option.map_some, Option.some.inj hval], ?_⟩
    exact mul_nonneg (c15spec_absR_nonneg _) (c15spec_sumVals_abs_nonneg _ _)
  | owa wc =>
    rw [hmp] at hw
    simp only
    have hm : ∀ a ∈ cur.co, ∀ kv ∈ a.vals, (pure kv.2 : R Rat) = .ok ((fun _ => (1 : Rat)) kv.1 * kv.2) := by
      intro a _ kv _; simp only [one_mul]; rfl
    have hval := c15spec_cumulated_get (wt := fun _ => 1) hw hm hco x.crit (hmem x hx)
    rw [hget x hx, one_mul] at hval
    exact ⟨_, by rw [Option.some.inj hval], c15spec_sumVals_abs_nonneg _ _⟩
  | satisf fn lv seed cc rnd =>
    rw [hmp] at hw
    simp only
    have hm : ∀ a ∈ cur.co, ∀ kv ∈ a.vals, (pure kv.2 : R Rat) = .ok ((fun _ => (1 : Rat)) kv.1 * kv.2) := by
      intro a _ kv _; simp only [one_mul]; rfl
    have hval := c15spec_cumulated_get (wt := fun _ => 1) hw hm hco x.crit (hmem x hx)
    rw [hget x hx, one_mul] at hval
    exact ⟨_, by rw [Option.some.inj hval], c15spec_sumVals_abs_nonneg _ _⟩
  | majority w0 cc seed rnd dr =>
    rw [hmp] at hw
    simp only at hw ⊢
    rw [pure_ok] at hw
    subst hw
    exact ⟨0, by rw [hget x hx]; rfl, le_rfl⟩
  | aspect fn lv seed w0 rnd =>
    rw [hmp] at hw
    simp only at hw ⊢
    rw [pure_ok] at hw
    subst hw
    exact ⟨0, by rw [hget x hx]; rfl, le_rfl⟩
  | electre ec dist =>
    rw [hmp] at hw
    simp only at hw ⊢
    rw [pure_ok] at hw
    subst hw
    have := hget x hx
    rw [c15spec_lookup_map_k] at this
    refine ⟨0, ?_, le_rfl⟩
    cases he : ec.get? x.crit.id with
    | none => rw [he] at this; cases this
    | some e => rw [he] at this; simp only [Option.map_some, Option.some.injEq] at this; rw [Option.map_some, this]
  | choquet w0 cs =>
    simp only
    have hnd' : (ranked.map fun y : WCrit Rat => y.crit.id).Nodup := by
      have := (hperm.map (·.id)).nodup_iff.2 hnd
      rwa [List.map_map] at this
    rw [find?_of_nodup (key := fun y : WCrit Rat => y.crit.id) hnd' hx]
    exact ⟨0, rfl, le_rfl⟩

/-! ### the importance clause -/

/-- an exact comparison of the ranking's weights gives the spec's comparison with slack -/
theorem c15spec_notMoreImportant {cur : DMP Rat} {ranked : List (WCrit Rat)}
    (himp : ∀ x ∈ ranked, ∃ m, Spec.C15.importance cur ranked x.crit = some (x.w, m) ∧ 0 ≤ m)
    {a b : WCrit Rat} (ha : a ∈ ranked) (hb : b ∈ ranked) (hab : a.w ≤ b.w) :
    Spec.C15.notMoreImportant cur ranked a.crit b.crit = true := by
  obtain ⟨ma, ea, hma⟩ := himp a ha
  obtain ⟨mb, eb, hmb⟩ := himp b hb
  unfold Spec.C15.notMoreImportant
  rw [ea, eb]
  simp only [decide_eq_true_eq]
  have := mul_nonneg tol_pos.le (add_nonneg hma hmb)
  linarith

/-- `weakest`: the listener's ascending ranking splits into the omitted prefix and the kept suffix -/
theorem c15spec_weakest_split {eps : Rat} {c : SplitCond Rat} {cur res : DMP Rat}
    {d : Draws Rat} {omitted : List (Crit Rat)}
    (h : omissionApply eps c Facts.orderingWeakest cur d = .ok (res, omitted)) :
    ∃ ro rk, rankAsc eps cur = .ok (ro ++ rk) ∧ omitted = ro.map (·.crit) ∧
      res.crit = rk.map (·.crit) ∧ ∀ o ∈ ro, ∀ k ∈ rk, o.w ≤ k.w := by
  obtain ⟨_, ordered, ho, hc⟩ := omissionApply_ok h
  obtain ⟨hs, _, _, _⟩ := omitCriteria_ok hc
  rw [orderCriteria_weakest] at ho
  cases hr : rankAsc eps cur with
  | error e => rw [hr] at ho; cases ho
  | ok ranked =>
    rw [hr] at ho
    have : ordered = ranked.map (·.crit) := by cases ho; rfl
    subst this
    obtain ⟨ra, rb, hsr, h1, h2⟩ := split_of_map (α := Rat) (β := WCrit Rat) (γ := Crit Rat) (fun x => x.crit) (c := c) (l := ranked) hs
    refine ⟨ra, rb, ?_, h1, h2, pairwise_split (R := fun a b : WCrit Rat => a.w ≤ b.w) (rankAsc_sorted hr) hsr⟩
    rw [split_append hsr]

/-- `strongest`: the reversed ranking splits into the omitted prefix and the kept suffix -/
theorem c15spec_strongest_split {eps : Rat} {c : SplitCond Rat} {cur res : DMP Rat}
    {d : Draws Rat} {omitted : List (Crit Rat)}
    (h : omissionApply eps c Facts.orderingStrongest cur d = .ok (res, omitted)) :
    ∃ ranked ro rk, rankAsc eps cur = .ok ranked ∧ ranked.reverse = ro ++ rk ∧ omitted = ro.map (·.crit) ∧
      res.crit = rk.map (·.crit) ∧ ∀ o ∈ ro, ∀ k ∈ rk, k.w ≤ o.w := by
  obtain ⟨_, ordered, ho, hc⟩ := omissionApply_ok h
  obtain ⟨hs, _, _, _⟩ := omitCriteria_ok hc
  rw [orderCriteria_strongest] at ho
  cases hr : rankAsc eps cur with
  | error e => rw [hr] at ho; cases ho
  | ok ranked =>
    rw [hr] at ho
    have : ordered = (ranked.reverse).map (·.crit) := by cases ho; simp [List.map_reverse]
    subst this
    obtain ⟨ra, rb, hsr, h1, h2⟩ := split_of_map (α := Rat) (β := WCrit Rat) (γ := Crit Rat) (fun x => x.crit) (c := c) (l := ranked.reverse) hs
    have hsorted : ranked.reverse.Pairwise (fun a b => b.w ≤ a.w) :=
      List.pairwise_reverse.2 (rankAsc_sorted hr)
    exact ⟨ranked, ra, rb, rfl, (split_append hsr).symm, h1, h2,
      pairwise_split (R := fun a b : WCrit Rat => b.w ≤ a.w) hsorted hsr⟩

theorem c15spec_importanceOk_weakest {eps : Rat} {c : SplitCond Rat} {cur res : DMP Rat}
    {d : Draws Rat} {omitted : List (Crit Rat)} {ranked : List (WCrit Rat)}
    (h : omissionApply eps c Facts.orderingWeakest cur d = .ok (res, omitted))
    (hr : rankAsc eps cur = .ok ranked)
    (himp : ∀ x ∈ ranked, ∃ m, Spec.C15.importance cur ranked x.crit = some (x.w, m) ∧ 0 ≤ m) :
    (omitted.all fun o => res.crit.all fun k => Spec.C15.notMoreImportant cur ranked o k) = true := by
  obtain ⟨ro, rk, hr', ho, hk, hle⟩ := c15spec_weakest_split h
  rw [hr] at hr'
  cases hr'
  rw [ho, hk]
  simp only [List.all_eq_true, List.mem_map]
  rintro _ ⟨xo, hxo, rfl⟩ _ ⟨xk, hxk, rfl⟩
  exact c15spec_notMoreImportant himp (List.mem_append_left _ hxo) (List.mem_append_right _ hxk)
    (hle xo hxo xk hxk)

theorem c15spec_importanceOk_strongest {eps : Rat} {c : SplitCond Rat} {cur res : DMP Rat}
    {d : Draws Rat} {omitted : List (Crit Rat)} {ranked : List (WCrit Rat)}
    (h : omissionApply eps c Facts.orderingStrongest cur d = .ok (res, omitted))
    (hr : rankAsc eps cur = .ok ranked)
    (himp : ∀ x ∈ ranked, ∃ m, Spec.C15.importance cur ranked x.crit = some (x.w, m) ∧ 0 ≤ m) :
    (omitted.all fun o => res.crit.all fun k => Spec.C15.notMoreImportant cur ranked k o) = true := by
  obtain ⟨ranked', ro, rk, hr', hrev, ho, hk, hle⟩ := c15spec_strongest_split h
  rw [hr] at hr'
  cases hr'
  have hm : ∀ x ∈ ro ++ rk, x ∈ ranked := fun x hx => List.mem_reverse.1 (hrev ▸ hx)
  rw [ho, hk]
  simp only [List.all_eq_true, List.mem_map]
  rintro _ ⟨xo, hxo, rfl⟩ _ ⟨xk, hxk, rfl⟩
  exact c15spec_notMoreImportant himp (hm _ (List.mem_append_right _ hxk)) (hm _ (List.mem_append_left _ hxo))
    (hle xo hxo xk hxk)

theorem c15spec_importanceOk {eps : Rat} {c : SplitCond Rat} {name : String} {cur res : DMP Rat}
    {d : Draws Rat} {omitted : List (Crit Rat)} {ranked : List (WCrit Rat)}
    (h : omissionApply eps c name cur d = .ok (res, omitted))
    (hr : rankAsc eps cur = .ok ranked)
    (hnd : (cur.crit.map (·.id)).Nodup)
    (hco : ∀ a ∈ cur.co, a.vals.keys.Nodup)
    (hws : ∀ wc, cur.mp = .ws wc → ∀ c ∈ cur.crit, ∃ x ∈ wc, x.crit.id = c.id) :
    Spec.C15.importanceOk name cur ranked omitted res.crit = true := by
  have himp := c15spec_importance_ranked hr hnd hco hws
  have hW : Facts.orderingWeakest = "weakest" := rfl
  have hS : Facts.orderingStrongest = "strongest" := rfl
  unfold Spec.C15.importanceOk
  by_cases h0 : name = ""
  · subst h0
    rw [if_pos (by decide)]
    have h' : omissionApply eps c Facts.orderingWeakest cur d = .ok (res, omitted) := by
      rw [← h]; unfold omissionApply; rw [orderCriteria_default]
    exact c15spec_importanceOk_weakest h' hr himp
  by_cases h1 : name = "weakest"
  · subst h1
    rw [if_pos (by decide)]
    exact c15spec_importanceOk_weakest (hW ▸ h) hr himp
  have hn : ¬ ((name == "" || name == "weakest") = true) := by
    simp only [Bool.or_eq_true, beq_iff_eq, not_or]; exact ⟨h0, h1⟩
  rw [if_neg hn]
  by_cases h2 : name = "strongest"
  · subst h2
    rw [if_pos (by decide)]
    exact c15spec_importanceOk_strongest (hS ▸ h) hr himp
  · rw [if_neg (by simpa using h2)]

/-! ### the checker accepts the model's output -/

/-- **C15**: the spec the driver evaluates on the implementation's output (`check-c15`, with the
    ordering name handed to the bias — `""` = default — and the listener's ascending ranking of the
    state before the bias) accepts the output of the model's `omissionApply`, for every ordering, split
    condition, state and random stream.

    Domain hypotheses (true for every state built from a validated request):
    * `hnd`  criteria ids are distinct (`Criteria.Validate`);
    * `hco`  the value keys of every considered alternative are distinct (a Go map has distinct keys;
             needed because the cumulated importance of weighted sum / OWA / satisfaction is a sum over
             the value entries);
    * `hws`  weighted sum only: the parameter list holds a weight entry for every declared criterion
             (`ParseParams` zips the declared criteria with their weights).  That every value key of a
             considered alternative has a weight entry is not assumed: it follows from `rankAsc`
             having succeeded. -/
theorem c15spec_check {eps : Rat} {c : SplitCond Rat} {name : String} {cur res : DMP Rat}
    {d : Draws Rat} {omitted : List (Crit Rat)} {ranked : List (WCrit Rat)}
    (h : omissionApply eps c name cur d = .ok (res, omitted))
    (hr : rankAsc eps cur = .ok ranked)
    (hnd : (cur.crit.map (·.id)).Nodup)
    (hco : ∀ a ∈ cur.co, a.vals.keys.Nodup)
    (hws : ∀ wc, cur.mp = .ws wc → ∀ c ∈ cur.crit, ∃ x ∈ wc, x.crit.id = c.id) :
    Spec.C15.check name c cur res omitted ranked = true := by
  obtain ⟨hv, ordered, ho, hc⟩ := omissionApply_ok h
  obtain ⟨hs, _, hpc, hpn⟩ := omitCriteria_ok hc
  have hcount : Spec.C15.countOk c cur.crit.length omitted.length = true := by
    have := split_countOk hv hs
    rwa [(orderCriteria_perm ho).length_eq] at this
  have hp := c15spec_omission_perm h
  have hkept : (res.crit.map (·.id)).Nodup := by
    have : ((omitted ++ res.crit).map (·.id)).Nodup := (hp.map _).nodup_iff.2 hnd
    rw [List.map_append, List.nodup_append] at this
    exact this.2.1
  unfold Spec.C15.check
  rw [hcount, c15spec_partitionOk h hnd, c15spec_altsRestricted hpc hkept,
    c15spec_altsRestricted hpn hkept, c15spec_importanceOk h hr hnd hco hws]
  rfl

theorem c15spec_explain_ok {eps : Rat} {c : SplitCond Rat} {name : String} {cur res : DMP Rat}
    {d : Draws Rat} {omitted : List (Crit Rat)} {ranked : List (WCrit Rat)}
    (h : omissionApply eps c name cur d = .ok (res, omitted))
    (hr : rankAsc eps cur = .ok ranked)
    (hnd : (cur.crit.map (·.id)).Nodup)
    (hco : ∀ a ∈ cur.co, a.vals.keys.Nodup)
    (hws : ∀ wc, cur.mp = .ws wc → ∀ c ∈ cur.crit, ∃ x ∈ wc, x.crit.id = c.id) :
    Spec.C15.explain name c cur res omitted ranked = "ok" := by
  have hc := c15spec_check h hr hnd hco hws
  unfold Spec.C15.check at hc
  simp only [Bool.and_eq_true] at hc
  obtain ⟨⟨⟨⟨h1, h2⟩, h3⟩, h4⟩, h5⟩ := hc
  unfold Spec.C15.explain
  rw [h1, h2, h3, h4, h5]
  rfl

/-- `explain … = "ok"` exactly when `check … = true` -/
theorem c15spec_explain_iff (name : String) (c : SplitCond Rat) (cur res : DMP Rat)
    (omitted : List (Crit Rat)) (ranked : List (WCrit Rat)) :
    Spec.C15.explain name c cur res omitted ranked = "ok" ↔
      Spec.C15.check name c cur res omitted ranked = true := by
  unfold Spec.C15.explain Spec.C15.check
  cases Spec.C15.countOk c cur.crit.length omitted.length <;>
  cases Spec.C15.partitionOk cur.crit omitted res.crit <;>
  cases Spec.C15.altsRestricted res.crit cur.co res.co <;>
  cases Spec.C15.altsRestricted res.crit cur.nc res.nc <;>
  cases Spec.C15.importanceOk name cur ranked omitted res.crit <;> decide

/-! ### the hypotheses of `c15spec_check` are satisfiable -/

/-- a weighted-sum state with two criteria, two considered and one not considered alternative -/
def c15spec_exCur : DMP Rat :=
  { nc := [⟨"b", [("c1", 5), ("c2", 1)]⟩],
    co := [⟨"a", [("c1", 1), ("c2", 2)]⟩, ⟨"a2", [("c2", 3), ("c1", 4)]⟩],
    crit := [⟨"c1", "gain", none⟩, ⟨"c2", "cost", none⟩],
    mp := .ws [⟨⟨"c2", "cost", none⟩, 2⟩, ⟨⟨"c1", "gain", none⟩, 1/2⟩] }

/-- decidable equality used only to evaluate the concrete instance below (kept out of the instance
    cache: `local instance`) -/
@[reducible] def c15spec_decEqCrit : DecidableEq (Crit Rat) := fun a b =>
  decidable_of_iff (a.id = b.id ∧ a.type = b.type ∧ a.range = b.range)
    (by cases a; cases b; simp)

attribute [local instance] c15spec_decEqCrit in
@[reducible] def c15spec_decEqWCrit : DecidableEq (WCrit Rat) := fun a b =>
  decidable_of_iff (a.crit = b.crit ∧ a.w = b.w) (by cases a; cases b; simp)

attribute [local instance] c15spec_decEqCrit c15spec_decEqWCrit in
/-- with ratio ½ the default ordering omits `c1` (importance ½·(1+4) = 5/2 < 2·(2+3) = 10) -/
example : ∃ (res : DMP Rat) (omitted : List (Crit Rat)) (ranked : List (WCrit Rat)),
    omissionApply 0 ⟨1/2, 0, maxInt64⟩ "" c15spec_exCur [] = .ok (res, omitted) ∧
    rankAsc 0 c15spec_exCur = .ok ranked ∧
    (c15spec_exCur.crit.map (·.id)).Nodup ∧ (∀ a ∈ c15spec_exCur.co, a.vals.keys.Nodup) ∧
    (∀ wc, c15spec_exCur.mp = .ws wc → ∀ c ∈ c15spec_exCur.crit, ∃ x ∈ wc, x.crit.id = c.id) ∧
    Spec.C15.check "" ⟨1/2, 0, maxInt64⟩ c15spec_exCur res omitted ranked = true := by
  have hmap : importanceMap 0 c15spec_exCur = .ok [("c1", 5/2), ("c2", 10)] := by decide +kernel
  have hzip : zipWithWeights c15spec_exCur.crit [("c1", 5/2), ("c2", 10)] =
      .ok [⟨⟨"c1", "gain", none⟩, 5/2⟩, ⟨⟨"c2", "cost", none⟩, 10⟩] := by decide +kernel
  have hsort : sortWCrits [(⟨⟨"c1", "gain", none⟩, 5/2⟩ : WCrit Rat), ⟨⟨"c2", "cost", none⟩, 10⟩] =
      [⟨⟨"c1", "gain", none⟩, 5/2⟩, ⟨⟨"c2", "cost", none⟩, 10⟩] :=
    List.mergeSort_of_pairwise (by decide +kernel)
  have hr : rankAsc 0 c15spec_exCur =
      .ok [⟨⟨"c1", "gain", none⟩, 5/2⟩, ⟨⟨"c2", "cost", none⟩, 10⟩] := by
    rw [rankAsc_eq_sort, hmap, ok_bind]
    show (zipWithWeights c15spec_exCur.crit _ >>= fun z => pure (sortWCrits z)) = _
    rw [hzip, ok_bind, hsort]; rfl
  have ho : orderCriteria 0 "" c15spec_exCur [] = .ok [⟨"c1", "gain", none⟩, ⟨"c2", "cost", none⟩] := by
    rw [orderCriteria_default, orderCriteria_weakest, hr]; rfl
  have hom : (omitCriteria ⟨1/2, 0, maxInt64⟩ [⟨"c1", "gain", none⟩, ⟨"c2", "cost", none⟩]
      c15spec_exCur).isOk = true := by decide +kernel
  obtain ⟨⟨res, omitted⟩, hro⟩ : ∃ p, omitCriteria (⟨1/2, 0, maxInt64⟩ : SplitCond Rat)
      [⟨"c1", "gain", none⟩, ⟨"c2", "cost", none⟩] c15spec_exCur = .ok p := by
    cases hx : omitCriteria (⟨1/2, 0, maxInt64⟩ : SplitCond Rat)
      [⟨"c1", "gain", none⟩, ⟨"c2", "cost", none⟩] c15spec_exCur with
    | error e => rw [hx] at hom; cases hom
    | ok p => exact ⟨p, rfl⟩
  have h : omissionApply 0 ⟨1/2, 0, maxInt64⟩ "" c15spec_exCur [] = .ok (res, omitted) := by
    unfold omissionApply
    rw [show (⟨1/2, 0, maxInt64⟩ : SplitCond Rat).validate = .ok () by decide +kernel, ok_bind, ho, ok_bind]
    exact hro
  have hnd : (c15spec_exCur.crit.map (·.id)).Nodup := by decide +kernel
  have hco : ∀ a ∈ c15spec_exCur.co, a.vals.keys.Nodup := by decide +kernel
  have hws : ∀ wc, c15spec_exCur.mp = .ws wc → ∀ c ∈ c15spec_exCur.crit, ∃ x ∈ wc, x.crit.id = c.id := by
    intro wc hwc
    cases hwc
    decide +kernel
  exact ⟨res, omitted, _, h, hr, hnd, hco, hws, c15spec_check h hr hnd hco hws⟩

end Rdm.BiasA
