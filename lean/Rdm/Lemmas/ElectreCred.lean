/-
  Lemmas about the credibility matrix of the ELECTRE III model: the decidable domain guard implies the
  propositional one, ranges, entry-wise characterisation of `credibilityMatrix`, dominance and weight
  scaling on the matrix.
-/
import Rdm.Lemmas.ElectreSigma
import Rdm.Lemmas.ElectreMatrix
import Rdm.Lemmas.ElectreLinks
namespace Rdm

theorem crit_not_worse {α : Type} [Num α] (c1 c2 mult : α) (t : ECrit α) (h : c2 ≤ c1) :
    (calcElectreResult c1 c2 mult t).c = Num.one ∧ (calcElectreResult c1 c2 mult t).d = Num.zero := by
  unfold calcElectreResult
  simp [h]

theorem critInDomain_guard (t : ECrit Rat) (h : Spec.C05.critInDomain t = true) : ConstThr t ∧ 0 < t.k := by
  unfold Spec.C05.critInDomain at h
  simp only [Bool.and_eq_true, decide_eq_true_eq, beq_iff_eq, Bool.or_eq_true,
    Bool.and_eq_false_imp, Bool.not_eq_eq_eq_not, Bool.not_true] at h
  obtain ⟨⟨⟨⟨⟨⟨⟨hk, hqa⟩, hpa⟩, hva⟩, hq0⟩, hqp⟩, hpv⟩, hvp⟩ := h
  refine ⟨⟨hqa, hpa, hva, hq0, ?_, ?_⟩, hk⟩
  · intro hp
    rcases hqp with h | h
    · exact absurd h.2 hp
    · exact h
  · intro hv
    rcases hpv with h | h
    · exact absurd h.2 hv
    · refine ⟨?_, h.2⟩
      have := h.1 hpa
      simpa using this

/-- one of concordance / discordance of a criterion is always zero (any number type) -/
theorem calc_c_or_d_zero (c1 c2 mult : Rat) (t : ECrit Rat) :
    (calcElectreResult c1 c2 mult t).c = 0 ∨ (calcElectreResult c1 c2 mult t).d = 0 := by
  unfold calcElectreResult
  simp only [Num.zero_rat]
  split_ifs <;> simp

theorem critOk_calc (c1 c2 mult : Rat) (t : ECrit Rat) (h : Spec.C05.critInDomain t = true) :
    Spec.C05.critOk c1 c2 (calcElectreResult c1 c2 mult t) = true := by
  obtain ⟨g, _⟩ := critInDomain_guard t h
  obtain ⟨r1, r2, r3, r4⟩ := crit_range c1 c2 mult t g
  unfold Spec.C05.critOk Spec.C05.in01
  simp only [Bool.and_eq_true, decide_eq_true_eq, Bool.or_eq_true, beq_iff_eq, Bool.not_eq_true',
    decide_eq_false_iff_not]
  refine ⟨⟨⟨⟨r1, r2⟩, ⟨r3, r4⟩⟩, calc_c_or_d_zero c1 c2 mult t⟩, ?_⟩
  by_cases hle : c2 ≤ c1
  · right
    have := crit_not_worse c1 c2 mult t hle
    simpa using this
  · left; exact hle

theorem mapM_except_getElem {ε β γ : Type} (g : β → Except ε γ) (l : List β) (xs : List γ)
    (h : l.mapM g = .ok xs) (i : Nat) (hi : i < l.length) :
    g l[i] = .ok (xs[i]'(by rw [mapM_except_length g l xs h]; exact hi)) := by
  induction l generalizing xs i with
  | nil => simp at hi
  | cons c l ih =>
    simp only [List.mapM_cons, bind, Except.bind] at h
    cases hg : g c with
    | error e => rw [hg] at h; cases h
    | ok y =>
      rw [hg] at h
      simp only at h
      cases hl : l.mapM g with
      | error e => rw [hl] at h; cases h
      | ok ys =>
        rw [hl] at h
        simp only [pure, Except.pure, Except.ok.injEq] at h
        subst h
        cases i with
        | zero => simpa using hg
        | succ i => simpa using ih ys hl i (by simpa using hi)

theorem sigma_range (a b : Alt Rat) (crits : List (Crit Rat)) (hne : crits ≠ []) (ec : KMap (ECrit Rat))
    (hg : GuardAll crits ec) (r : ERes Rat) (h : electreCredibility a b crits ec = .ok r) :
    (0 ≤ r.c ∧ r.c ≤ 1) ∧ (0 ≤ r.d ∧ r.d ≤ 1) := by
  unfold electreCredibility at h
  cases hm : crits.mapM (fun c => evaluatePair a b c ec) with
  | error e => rw [hm] at h; cases h
  | ok rs =>
    rw [hm] at h
    simp only [bind, Except.bind, pure, Except.pure, Except.ok.injEq] at h
    subst h
    have hr := ranges_of_mapM a b crits ec hg rs hm
    have hne0 : rs ≠ [] := by
      intro he
      have := mapM_except_length _ _ _ hm
      rw [he] at this
      exact hne (List.length_eq_zero_iff.mp this.symm)
    have hC := totalC_range rs hne0 (fun r hr0 => (hr r hr0).1) (fun r hr0 => (hr r hr0).2.1)
    have hD := credibility_range _ hC.1 hC.2 rs (fun r hr0 => (hr r hr0).2.2)
    exact ⟨hC, hD.1, le_trans hD.2 hC.2⟩

/-- if `a'` is at least as good as `a` on every criterion then σ(a', a) = 1 -/
theorem sigma_dominant_eq_one (a a' : Alt Rat) (crits : List (Crit Rat)) (hne : crits ≠ []) (ec : KMap (ECrit Rat))
    (hg : GuardAll crits ec) (hdom : Dominates crits a' a) (r : ERes Rat)
    (h : electreCredibility a' a crits ec = .ok r) : r.c = 1 ∧ r.d = 1 := by
  unfold electreCredibility at h
  cases hm : crits.mapM (fun c => evaluatePair a' a c ec) with
  | error e => rw [hm] at h; cases h
  | ok rs =>
    rw [hm] at h
    simp only [bind, Except.bind, pure, Except.pure, Except.ok.injEq] at h
    subst h
    have hall : ∀ r ∈ rs, 0 < r.k ∧ r.res.c = 1 ∧ r.res.d = 0 := by
      intro r hr
      obtain ⟨c, hc, hp⟩ := mapM_except_mem _ _ _ hm r hr
      obtain ⟨c1, c2, t, h1, h2, ht, rfl⟩ := evaluatePair_ok hp
      have hle : c2 ≤ c1 := hdom c hc c2 c1 h2 h1
      have := crit_not_worse c1 c2 c.mult t hle
      exact ⟨(hg c hc t ht).2, by simpa using this.1, by simpa using this.2⟩
    have hne0 : rs ≠ [] := by
      intro he
      have := mapM_except_length _ _ _ hm
      rw [he] at this
      exact hne (List.length_eq_zero_iff.mp this.symm)
    have hsum : weightedC rs = weightSum rs := by
      clear hm hne0
      induction rs with
      | nil => rfl
      | cons r rs ih =>
        rw [weightedC_cons, weightSum_cons, ih (fun x hx => hall x (by simp [hx])), (hall r (by simp)).2.1]
        ring
    have hpos := weightSum_pos rs hne0 (fun r hr => (hall r hr).1)
    have hC : calculateTotalC rs = 1 := by
      unfold calculateTotalC; rw [hsum]; exact div_self (ne_of_gt hpos)
    have hD : calculateCredibility 1 rs = 1 := by
      rw [calculateCredibility_eq]
      clear hm hne0 hsum hpos hC
      induction rs with
      | nil => rfl
      | cons r rs ih =>
        simp only [List.foldl_cons]
        have : credStep 1 1 r = 1 := by
          unfold credStep
          rw [(hall r (by simp)).2.2]
          simp
        rw [this]
        exact ih (fun x hx => hall x (by simp [hx]))
    simp only [hC, hD, and_self]

variable {α : Type} [Num α]

theorem credibilityMatrix_rows (alts : List (Alt α)) (crits : List (Crit α)) (ec : KMap (ECrit α)) (m : Matrix α)
    (h : credibilityMatrix alts crits ec = .ok m) :
    ∃ rows : List (List α),
      alts.zipIdx.mapM (fun p => alts.zipIdx.mapM fun q => evaluateAlternativesPair p.2 q.2 p.1 q.1 crits ec) = .ok rows
      ∧ m = ⟨alts.length, rows.flatten⟩ := by
  unfold credibilityMatrix at h
  simp only [bind, Except.bind] at h
  split at h
  · cases h
  · rename_i rows hr
    simp only [pure, Except.pure, Except.ok.injEq] at h
    exact ⟨rows, hr, h.symm⟩

theorem credibilityMatrix_size (alts : List (Alt α)) (crits : List (Crit α)) (ec : KMap (ECrit α)) (m : Matrix α)
    (h : credibilityMatrix alts crits ec = .ok m) : m.size = alts.length := by
  obtain ⟨rows, _, rfl⟩ := credibilityMatrix_rows alts crits ec m h
  rfl

/-- entry (i, j) of the credibility matrix is `evaluateAlternativesPair` of alternatives i and j -/
theorem credibilityMatrix_at (alts : List (Alt α)) (crits : List (Crit α)) (ec : KMap (ECrit α)) (m : Matrix α)
    (h : credibilityMatrix alts crits ec = .ok m) (i j : Nat) (hi : i < alts.length) (hj : j < alts.length) :
    evaluateAlternativesPair i j alts[i] alts[j] crits ec = .ok (m.at i j) := by
  obtain ⟨rows, hr, rfl⟩ := credibilityMatrix_rows alts crits ec m h
  have hlen : rows.length = alts.length := by
    rw [mapM_except_length _ _ _ hr]; simp
  have hi' : i < alts.zipIdx.length := by simpa using hi
  have hj' : j < alts.zipIdx.length := by simpa using hj
  have hrow := mapM_except_getElem _ _ _ hr i hi'
  simp only [List.getElem_zipIdx, Nat.zero_add] at hrow
  have hcell := mapM_except_getElem _ _ _ hrow j hj'
  simp only [List.getElem_zipIdx, Nat.zero_add] at hcell
  rw [hcell]
  congr 1
  unfold Matrix.at
  simp only
  have hrows : ∀ r ∈ rows, (id r : List α).length = alts.length := by
    intro r hr0
    obtain ⟨k, hk, rfl⟩ := List.mem_iff_getElem.mp hr0
    have hk' : k < alts.zipIdx.length := by rw [hlen] at hk; simpa using hk
    have := mapM_except_getElem _ _ _ hr k hk'
    rw [id, mapM_except_length _ _ _ this]; simp
  have := getD_flatMap_uniform (id : List α → List α) alts.length (Num.zero : α) rows hrows i j (by rw [hlen]; exact hi) hj
  rw [List.flatMap_id] at this
  rw [this]
  have hjl : j < rows[i].length := by rw [mapM_except_length _ _ _ hrow]; exact hj'
  simp [List.getD_eq_getElem?_getD, hjl]

theorem evaluateAlternativesPair_ne {i j : Nat} (hij : i ≠ j) (a1 a2 : Alt α) (crits : List (Crit α))
    (ec : KMap (ECrit α)) (x : α) (h : evaluateAlternativesPair i j a1 a2 crits ec = .ok x) :
    ∃ r, electreCredibility a1 a2 crits ec = .ok r ∧ x = r.d := by
  unfold evaluateAlternativesPair at h
  have : (i == j) = false := by simpa using hij
  simp only [this, Bool.false_eq_true, if_false, bind, Except.bind] at h
  split at h
  · cases h
  · rename_i r hr
    simp only [pure, Except.pure, Except.ok.injEq] at h
    exact ⟨r, hr, h.symm⟩

theorem credibilityMatrix_diag (alts : List (Alt α)) (crits : List (Crit α)) (ec : KMap (ECrit α)) (m : Matrix α)
    (h : credibilityMatrix alts crits ec = .ok m) (i : Nat) (hi : i < alts.length) : m.at i i = Num.one := by
  have := credibilityMatrix_at alts crits ec m h i i hi hi
  unfold evaluateAlternativesPair at this
  simp only [beq_self_eq_true, if_true, pure, Except.pure, Except.ok.injEq] at this
  exact this.symm

/-- every credibility is in [0,1] (threshold guard, positive weights, at least one criterion) -/
theorem credibilityMatrix_range (alts : List (Alt Rat)) (crits : List (Crit Rat)) (hne : crits ≠ [])
    (ec : KMap (ECrit Rat)) (hg : GuardAll crits ec) (m : Matrix Rat)
    (h : credibilityMatrix alts crits ec = .ok m) (i j : Nat) (hi : i < alts.length) (hj : j < alts.length) :
    0 ≤ m.at i j ∧ m.at i j ≤ 1 := by
  by_cases hij : i = j
  · subst hij
    rw [credibilityMatrix_diag alts crits ec m h i hi]
    simp
  · obtain ⟨r, hr, hx⟩ := evaluateAlternativesPair_ne hij _ _ _ _ _ (credibilityMatrix_at alts crits ec m h i j hi hj)
    rw [hx]
    exact (sigma_range _ _ crits hne ec hg r hr).2

/-- dominance on the credibility matrix: if alternative `i'` is at least as good as alternative `i` on every
    criterion, then `i'` outranks every third alternative at least as credibly as `i` does, is outranked at most
    as credibly, and σ(i', i) = 1 -/
theorem credibilityMatrix_dominance (alts : List (Alt Rat)) (crits : List (Crit Rat)) (hne : crits ≠ [])
    (ec : KMap (ECrit Rat)) (hg : GuardAll crits ec) (m : Matrix Rat)
    (h : credibilityMatrix alts crits ec = .ok m) (i i' : Nat) (hi : i < alts.length) (hi' : i' < alts.length)
    (hdom : Dominates crits alts[i'] alts[i]) :
    (i ≠ i' → m.at i' i = 1) ∧
    ∀ x, (hx : x < alts.length) → x ≠ i → x ≠ i' → m.at i x ≤ m.at i' x ∧ m.at x i' ≤ m.at x i := by
  constructor
  · intro hne'
    obtain ⟨r, hr, hx⟩ := evaluateAlternativesPair_ne (Ne.symm hne') _ _ _ _ _ (credibilityMatrix_at alts crits ec m h i' i hi' hi)
    rw [hx]
    exact (sigma_dominant_eq_one _ _ crits hne ec hg hdom r hr).2
  · intro x hx hxi hxi'
    obtain ⟨r1, hr1, e1⟩ := evaluateAlternativesPair_ne (Ne.symm hxi) _ _ _ _ _ (credibilityMatrix_at alts crits ec m h i x hi hx)
    obtain ⟨r2, hr2, e2⟩ := evaluateAlternativesPair_ne (Ne.symm hxi') _ _ _ _ _ (credibilityMatrix_at alts crits ec m h i' x hi' hx)
    obtain ⟨r3, hr3, e3⟩ := evaluateAlternativesPair_ne hxi' _ _ _ _ _ (credibilityMatrix_at alts crits ec m h x i' hx hi')
    obtain ⟨r4, hr4, e4⟩ := evaluateAlternativesPair_ne hxi _ _ _ _ _ (credibilityMatrix_at alts crits ec m h x i hx hi)
    rw [e1, e2, e3, e4]
    exact ⟨(sigma_mono_left _ _ _ crits hne ec hg hdom r1 r2 hr1 hr2).2,
      (sigma_mono_right _ _ _ crits hne ec hg hdom r4 r3 hr4 hr3).2⟩

/-- multiplying every weight by `c ≠ 0` leaves the credibility matrix unchanged -/
theorem credibilityMatrix_scale (c : Rat) (hc : c ≠ 0) (alts : List (Alt Rat)) (crits : List (Crit Rat))
    (ec : KMap (ECrit Rat)) :
    credibilityMatrix alts crits (scaleWeights c ec) = credibilityMatrix alts crits ec := by
  unfold credibilityMatrix evaluateAlternativesPair
  simp only [electreCredibility_scale c hc]

theorem electreIII_scale (c : Rat) (hc : c ≠ 0) (alts : List (Alt Rat)) (crits : List (Crit Rat))
    (ec : KMap (ECrit Rat)) (dist : LinFun Rat) :
    electreIII alts crits (scaleWeights c ec) dist = electreIII alts crits ec dist := by
  unfold electreIII
  rw [credibilityMatrix_scale c hc]

end Rdm
