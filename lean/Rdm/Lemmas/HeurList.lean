/-
  List lemmas for the heuristics group: `swapAt` / `shuffleLoop` / `orderAlternatives` return
  permutations, `removeAlt` on ids, association-list helpers.
-/
import Rdm.Model.Heuristics
import Mathlib.Data.List.Perm.Basic
set_option linter.unusedSectionVars false
set_option linter.unusedSimpArgs false
namespace Rdm
variable {α : Type} [Num α]

/-! ### `Except` plumbing -/

@[simp] theorem R.bind_ok {β γ : Type} (x : β) (f : β → R γ) : (Except.ok x >>= f) = f x := rfl
@[simp] theorem R.bind_error {β γ : Type} (e : String) (f : β → R γ) :
    ((Except.error e : R β) >>= f) = Except.error e := rfl
@[simp] theorem R.pure_eq {β : Type} (x : β) : (pure x : R β) = Except.ok x := rfl
@[simp] theorem R.throw_eq {β : Type} (e : String) : (throw e : R β) = Except.error e := rfl

/-- inversion of a bind that succeeded -/
theorem R.bind_eq_ok {β γ : Type} {m : R β} {f : β → R γ} {y : γ} (h : (m >>= f) = Except.ok y) :
    ∃ x, m = Except.ok x ∧ f x = Except.ok y := by
  cases m with
  | error e => simp at h
  | ok x => exact ⟨x, rfl, by simpa using h⟩

/-! ### swap and shuffle are permutations -/

theorem set_perm_cons {β : Type} {a b : β} : ∀ {l : List β} {i : Nat}, l[i]? = some a →
    (a :: l.set i b).Perm (b :: l)
  | [], i, h => by simp at h
  | x :: xs, 0, h => by
    simp at h; subst h
    simpa using List.Perm.swap b x xs
  | x :: xs, i + 1, h => by
    have h' : xs[i]? = some a := by simpa using h
    have ih := set_perm_cons (b := b) h'
    simp only [List.set_cons_succ]
    calc (a :: x :: xs.set i b).Perm (x :: a :: xs.set i b) := List.Perm.swap x a _
      _ |>.Perm (x :: b :: xs) := List.Perm.cons x ih
      _ |>.Perm (b :: x :: xs) := List.Perm.swap b x xs

theorem swapAt_perm {β : Type} (l : List β) (i j : Nat) : (swapAt l i j).Perm l := by
  unfold swapAt
  split
  · rename_i a b hi hj
    have h1 : (a :: l.set i b).Perm (b :: l) := set_perm_cons hi
    have hj' : (l.set i b)[j]? = some b := by
      rw [List.getElem?_set]
      split
      · rename_i hij
        have : i < l.length := by
          rcases List.getElem?_eq_some_iff.mp hi with ⟨h, _⟩; exact h
        simp [this]
      · exact hj
    have h2 : (b :: (l.set i b).set j a).Perm (a :: l.set i b) := set_perm_cons hj'
    exact (h2.trans h1).cons_inv
  · exact List.Perm.refl _

theorem shuffleLoop_perm {β : Type} : ∀ (i : Nat) (l : List β) (d : Draws α) (l' : List β) (d' : Draws α),
    shuffleLoop i l d = Except.ok (l', d') → l'.Perm l
  | 0, l, d, l', d', h => by
    simp [shuffleLoop] at h; rw [← h.1]
  | i + 1, l, d, l', d', h => by
    unfold shuffleLoop at h
    obtain ⟨⟨u, d1⟩, _, h2⟩ := R.bind_eq_ok h
    exact (shuffleLoop_perm i _ _ _ _ h2).trans (swapAt_perm _ _ _)

theorem shuffleLoop_draws {β : Type} : ∀ (i : Nat) (l : List β) (d : Draws α) (l' : List β) (d' : Draws α),
    shuffleLoop i l d = Except.ok (l', d') → d' = d.drop i
  | 0, l, d, l', d', h => by
    simp [shuffleLoop] at h; simp [h.2]
  | i + 1, l, d, l', d', h => by
    unfold shuffleLoop at h
    obtain ⟨⟨u, d1⟩, h1, h2⟩ := R.bind_eq_ok h
    have := shuffleLoop_draws i _ _ _ _ h2
    cases d with
    | nil => simp [draw] at h1
    | cons x xs =>
      simp [draw] at h1
      simp [this, h1.2]

theorem orderAlternatives_perm {β : Type} (rnd : Bool) (l : List β) (d : Draws α) (l' : List β) (d' : Draws α)
    (h : orderAlternatives rnd l d = Except.ok (l', d')) : l'.Perm l := by
  unfold orderAlternatives at h
  split at h
  · exact shuffleLoop_perm _ _ _ _ _ h
  · simp at h; rw [← h.1]

/-- without random ordering the list is copied and no draw is consumed -/
theorem orderAlternatives_fixed {β : Type} (l : List β) (d : Draws α) :
    orderAlternatives false l d = Except.ok (l, d) := rfl

/-- two members of a pairwise-related list are equal or related one way or the other -/
theorem pairwise_mem_cases {β : Type} {R : β → β → Prop} {l : List β} (h : l.Pairwise R) {a b : β}
    (ha : a ∈ l) (hb : b ∈ l) : a = b ∨ R a b ∨ R b a := by
  induction h with
  | nil => simp at ha
  | cons hx _ ih =>
    rcases List.mem_cons.mp ha with ha1 | ha1
    · rcases List.mem_cons.mp hb with hb1 | hb1
      · left; rw [ha1, hb1]
      · right; left; rw [ha1]; exact hx _ hb1
    · rcases List.mem_cons.mp hb with hb1 | hb1
      · right; right; rw [hb1]; exact hx _ ha1
      · exact ih ha1 hb1

/-! ### `removeAlt` -/

theorem removeAlt_ids (l : List (Alt α)) (id : String) :
    (removeAlt l id).map (·.id) = (l.map (·.id)).erase id := by
  induction l with
  | nil => rfl
  | cons x xs ih =>
    unfold removeAlt at *
    by_cases hx : x.id = id
    · simp [List.eraseP_cons, hx]
    · have : ¬ (x.id == id) = true := by simpa using hx
      simp [List.eraseP_cons, this, hx, ih]

theorem removeAlt_perm (l : List (Alt α)) (id : String) (h : id ∈ l.map (·.id)) :
    (l.map (·.id)).Perm (id :: (removeAlt l id).map (·.id)) := by
  rw [removeAlt_ids]; exact List.perm_cons_erase h

theorem removeAlt_not_mem (l : List (Alt α)) (id : String) (h : id ∉ l.map (·.id)) :
    removeAlt l id = l := by
  unfold removeAlt
  apply List.eraseP_of_forall_not
  intro a ha
  simp only [beq_iff_eq]
  intro e
  exact h (List.mem_map.mpr ⟨a, ha, e⟩)

theorem removeAlt_length_le (l : List (Alt α)) (id : String) : (removeAlt l id).length ≤ l.length := by
  unfold removeAlt; exact List.length_eraseP_le

theorem removeAlt_sublist (l : List (Alt α)) (id : String) : (removeAlt l id).Sublist l := by
  unfold removeAlt; exact List.eraseP_sublist

end Rdm
